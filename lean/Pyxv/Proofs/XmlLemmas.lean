import Pyxv.Proofs.XmlSpec
/-!
# Helper lemmas for the XML round trip
-/
namespace Pyxv.Xml

/-! ## Escaping, character level -/

theorem escTextChar_plain {c : Char} (h1 : c ≠ '&') (h2 : c ≠ '<') (h3 : c ≠ '>') :
    escTextChar c = [c] := by
  unfold escTextChar; split <;> simp_all

theorem escAttrChar_plain {c : Char} (h1 : c ≠ '&') (h2 : c ≠ '<') (h3 : c ≠ '>') (h4 : c ≠ '"') :
    escAttrChar c = [c] := by
  unfold escAttrChar; split <;> simp_all

theorem escText_append (a b : Str) : escText (a ++ b) = escText a ++ escText b := by
  simp [escText]
theorem escAttr_append (a b : Str) : escAttr (a ++ b) = escAttr a ++ escAttr b := by
  simp [escAttr]
@[simp] theorem escText_nil : escText [] = [] := rfl
@[simp] theorem escAttr_nil : escAttr [] = [] := rfl
theorem escText_cons (c : Char) (s : Str) : escText (c :: s) = escTextChar c ++ escText s := by
  simp [escText]
theorem escAttr_cons (c : Char) (s : Str) : escAttr (c :: s) = escAttrChar c ++ escAttr s := by
  simp [escAttr]

/-- `startsLt rest`: what may follow character data — end of input or markup -/
def startsLt : Str → Prop
  | [] => True
  | c :: _ => c = '<'

theorem normEol_cr_lf (r : Str) : normEol ('\r' :: '\n' :: r) = '\n' :: normEol r := by
  simp [normEol]

theorem normEol_cons (c : Char) (r : Str) (h : c = '\r' → ∀ r', r ≠ '\n' :: r') :
    normEol (c :: r) = (if c = '\r' then '\n' else c) :: normEol r := by
  rw [normEol.eq_def]
  split
  · simp_all
  · rename_i heq; simp at heq; exact absurd heq.2 (h heq.1 _)
  · rename_i heq; simp at heq; rw [heq.1, heq.2]

/-- `Enc e s`: `e` is `s` with every character written either by `escape_text_for_xml`
    (`escTextChar`) or by minidom's `_write_data` (`escAttrChar`), and every character of `s`
    is an XML character (CR allowed: both writers write it raw) -/
inductive Enc : Str → Str → Prop
  | nil : Enc [] []
  | text (c : Char) {e s : Str} : isXmlChar c = true → Enc e s → Enc (escTextChar c ++ e) (c :: s)
  | attr (c : Char) {e s : Str} : isXmlChar c = true → Enc e s → Enc (escAttrChar c ++ e) (c :: s)

theorem Enc.append {e1 s1 e2 s2 : Str} (h1 : Enc e1 s1) (h2 : Enc e2 s2) :
    Enc (e1 ++ e2) (s1 ++ s2) := by
  induction h1 with
  | nil => simpa using h2
  | text c hc _ ih => simpa [List.append_assoc] using Enc.text c hc ih
  | attr c hc _ ih => simpa [List.append_assoc] using Enc.attr c hc ih

theorem Enc.escText {s : Str} (h : s.all isXmlChar = true) : Enc (escText s) s := by
  induction s with
  | nil => exact Enc.nil
  | cons c cs ih =>
    simp only [List.all_cons, Bool.and_eq_true] at h
    rw [escText_cons]; exact Enc.text c h.1 (ih h.2)

theorem Enc.escAttr {s : Str} (h : s.all isXmlChar = true) : Enc (escAttr s) s := by
  induction s with
  | nil => exact Enc.nil
  | cons c cs ih =>
    simp only [List.all_cons, Bool.and_eq_true] at h
    rw [escAttr_cons]; exact Enc.attr c h.1 (ih h.2)

theorem Enc.nil_inv {e : Str} (h : Enc e []) : e = [] := by
  cases h; rfl

theorem escChar_length (c : Char) : 1 ≤ (escTextChar c).length ∧ 1 ≤ (escAttrChar c).length := by
  constructor
  · unfold escTextChar; split <;> simp
  · unfold escAttrChar; split <;> simp

theorem escTextChar_no_gt (c : Char) : '>' ∉ escTextChar c := by
  by_cases h1 : c = '&'
  · subst h1; decide
  · by_cases h2 : c = '<'
    · subst h2; decide
    · by_cases h3 : c = '>'
      · subst h3; decide
      · rw [escTextChar_plain h1 h2 h3]; simp; exact fun h => h3 h.symm

theorem escAttrChar_no_gt (c : Char) : '>' ∉ escAttrChar c := by
  by_cases h1 : c = '&'
  · subst h1; decide
  · by_cases h2 : c = '<'
    · subst h2; decide
    · by_cases h3 : c = '>'
      · subst h3; decide
      · by_cases h4 : c = '"'
        · subst h4; decide
        · rw [escAttrChar_plain h1 h2 h3 h4]; simp; exact fun h => h3 h.symm

theorem Enc.no_gt {e s : Str} (h : Enc e s) : '>' ∉ e := by
  induction h with
  | nil => simp
  | text c _ _ ih => simp [escTextChar_no_gt c, ih]
  | attr c _ _ ih => simp [escAttrChar_no_gt c, ih]

theorem Enc.no_cdata_end {e s rest : Str} (h : Enc e s) (hr : startsLt rest) (tl : Str) :
    e ++ rest ≠ ']' :: '>' :: tl := by
  have hg := h.no_gt
  intro heq
  match e, hg, heq with
  | [], _, heq => simp at heq; subst heq; simp [startsLt] at hr
  | [a], _, heq => simp at heq; rw [heq.2] at hr; simp [startsLt] at hr
  | a :: b :: e', hg, heq => simp at heq; simp [heq.2.1] at hg

/-- the escaped form starts with LF only when the text does -/
theorem Enc.head_lf {e s rest : Str} (h : Enc e s) (hr : startsLt rest)
    (hs : ∀ s', s ≠ '\n' :: s') : ∀ r', e ++ rest ≠ '\n' :: r' := by
  intro r' heq
  cases h with
  | nil =>
    simp at heq; subst heq; simp [startsLt] at hr
  | @text c e' s' hc he =>
    have hc' : c ≠ '\n' := fun h => hs s' (by rw [h])
    by_cases h1 : c = '&'
    · subst h1; simp [escTextChar] at heq
    · by_cases h2 : c = '<'
      · subst h2; simp [escTextChar] at heq
      · by_cases h3 : c = '>'
        · subst h3; simp [escTextChar] at heq
        · rw [escTextChar_plain h1 h2 h3] at heq; simp at heq; exact hc' heq.1
  | @attr c e' s' hc he =>
    have hc' : c ≠ '\n' := fun h => hs s' (by rw [h])
    by_cases h1 : c = '&'
    · subst h1; simp [escAttrChar] at heq
    · by_cases h2 : c = '<'
      · subst h2; simp [escAttrChar] at heq
      · by_cases h3 : c = '>'
        · subst h3; simp [escAttrChar] at heq
        · by_cases h4 : c = '"'
          · subst h4; simp [escAttrChar] at heq
          · rw [escAttrChar_plain h1 h2 h3 h4] at heq; simp at heq; exact hc' heq.1

theorem Enc.lf_inv {e s : Str} (h : Enc e ('\n' :: s)) : ∃ e', e = '\n' :: e' ∧ Enc e' s := by
  cases h with
  | text _ _ he => exact ⟨_, rfl, he⟩
  | attr _ _ he => exact ⟨_, rfl, he⟩

theorem takeText_cr_lf (f : Nat) (r : Str) :
    takeText (f + 1) ('\r' :: '\n' :: r) = (takeText f r).map fun p => ('\n' :: p.1, p.2) := by
  simp only [takeText]
  cases takeText f r <;> rfl

theorem takeText_cr (f : Nat) (r : Str) (h : ∀ r', r ≠ '\n' :: r') :
    takeText (f + 1) ('\r' :: r) = (takeText f r).map fun p => ('\n' :: p.1, p.2) := by
  rw [takeText.eq_def]
  split
  · simp_all
  · simp_all
  · rename_i heq; simp at heq
  · rename_i heq; simp at heq
  · rename_i heq; simp at heq
  · rename_i heq; simp at heq; exact absurd heq (h _)
  · rename_i heq1 heq2; simp at heq1 heq2; subst heq1 heq2; cases takeText f r <;> rfl
  · rename_i h4 _ heq; simp at heq; exact absurd heq.1.symm h4

/-! ## `takeRef`, `takeText` -/

theorem takeRef_amp (r : Str) : takeRef ('a' :: 'm' :: 'p' :: ';' :: r) = some ('&', r) := by
  simp [takeRef]
theorem takeRef_lt (r : Str) : takeRef ('l' :: 't' :: ';' :: r) = some ('<', r) := by
  simp [takeRef]
theorem takeRef_gt (r : Str) : takeRef ('g' :: 't' :: ';' :: r) = some ('>', r) := by
  simp [takeRef]
theorem takeRef_quot (r : Str) : takeRef ('q' :: 'u' :: 'o' :: 't' :: ';' :: r) = some ('"', r) := by
  simp [takeRef]

theorem takeText_ref (f : Nat) (r r' : Str) (d : Char) (h : takeRef r = some (d, r')) :
    takeText (f + 1) ('&' :: r) = (takeText f r').map fun p => (d :: p.1, p.2) := by
  simp only [takeText, h]
  cases takeText f r' <;> rfl

theorem takeText_plain (f : Nat) (c : Char) (r : Str) (h1 : c ≠ '<') (h2 : c ≠ '&') (h3 : c ≠ '\r')
    (h4 : isXmlChar c = true) (h5 : ∀ tl, r ≠ ']' :: '>' :: tl) :
    takeText (f + 1) (c :: r) = (takeText f r).map fun p => (c :: p.1, p.2) := by
  rw [takeText.eq_def]
  split <;> try (simp_all; done)
  rename_i heq1 heq2
  simp at heq1 heq2
  obtain ⟨rfl, rfl⟩ := heq2
  subst heq1
  simp [h4]
  cases takeText f r <;> rfl

/-- one encoded character that is neither CR nor special-cased: the reader consumes it and
    returns it -/
theorem takeText_encChar (f : Nat) (c : Char) (ec X : Str) (hec : ec = escTextChar c ∨ ec = escAttrChar c)
    (hx : isXmlChar c = true) (hcr : c ≠ '\r') (hX : ∀ tl, X ≠ ']' :: '>' :: tl) :
    takeText (f + 1) (ec ++ X) = (takeText f X).map fun p => (c :: p.1, p.2) := by
  by_cases h1 : c = '&'
  · subst h1
    rcases hec with rfl | rfl <;>
      (simp only [escTextChar, escAttrChar, List.cons_append, List.nil_append]
       rw [takeText_ref f _ _ _ (takeRef_amp _)])
  · by_cases h2 : c = '<'
    · subst h2
      rcases hec with rfl | rfl <;>
        (simp only [escTextChar, escAttrChar, List.cons_append, List.nil_append]
         rw [takeText_ref f _ _ _ (takeRef_lt _)])
    · by_cases h3 : c = '>'
      · subst h3
        rcases hec with rfl | rfl <;>
          (simp only [escTextChar, escAttrChar, List.cons_append, List.nil_append]
           rw [takeText_ref f _ _ _ (takeRef_gt _)])
      · by_cases h4 : c = '"'
        · subst h4
          rcases hec with rfl | rfl
          · simp only [escTextChar, List.cons_append, List.nil_append]
            rw [takeText_plain f '"' X (by decide) (by decide) (by decide) hx hX]
          · simp only [escAttrChar, List.cons_append, List.nil_append]
            rw [takeText_ref f _ _ _ (takeRef_quot _)]
        · have : ec = [c] := by
            rcases hec with rfl | rfl
            · exact escTextChar_plain h1 h2 h3
            · exact escAttrChar_plain h1 h2 h3 h4
          subst this
          simp only [List.cons_append, List.nil_append]
          rw [takeText_plain f c X h2 h1 hcr hx hX]

/-- **Text round trip, normalising form**: character data that may contain CR is read back
    with its line ends normalised. -/
theorem takeText_enc_aux : ∀ (n : Nat) (s e : Str), s.length ≤ n → Enc e s →
    ∀ (rest : Str) (fuel : Nat), startsLt rest → e.length < fuel →
    takeText fuel (e ++ rest) = some (normEol s, rest) := by
  intro n
  induction n with
  | zero =>
    intro s e hn he rest fuel hr hf
    have : s = [] := by cases s <;> simp_all
    subst this
    cases he
    obtain ⟨f, rfl⟩ : ∃ f, fuel = f + 1 := ⟨fuel - 1, by simp at hf; omega⟩
    cases rest with
    | nil => simp [takeText, normEol]
    | cons c r => simp [startsLt] at hr; subst hr; simp [takeText, normEol]
  | succ n ih =>
    intro s e hn he rest fuel hr hf
    obtain ⟨f, rfl⟩ : ∃ f, fuel = f + 1 := ⟨fuel - 1, by omega⟩
    cases s with
    | nil =>
      cases he
      cases rest with
      | nil => simp [takeText, normEol]
      | cons c r => simp [startsLt] at hr; subst hr; simp [takeText, normEol]
    | cons c s =>
      simp only [List.length_cons] at hn
      -- split `e` into the encoding of `c` and the rest
      obtain ⟨ec, e', rfl, hec, hx, he'⟩ : ∃ ec e', e = ec ++ e' ∧ (ec = escTextChar c ∨ ec = escAttrChar c) ∧
          isXmlChar c = true ∧ Enc e' s := by
        cases he with
        | text _ hc he' => exact ⟨_, _, rfl, Or.inl rfl, hc, he'⟩
        | attr _ hc he' => exact ⟨_, _, rfl, Or.inr rfl, hc, he'⟩
      have hlen : 1 ≤ ec.length := by
        rcases hec with rfl | rfl
        · exact (escChar_length c).1
        · exact (escChar_length c).2
      have hf' : e'.length < f := by simp at hf; omega
      by_cases hcr : c = '\r'
      · subst hcr
        have hec' : ec = ['\r'] := by rcases hec with rfl | rfl <;> rfl
        subst hec'
        by_cases hlf : ∃ s', s = '\n' :: s'
        · obtain ⟨s', rfl⟩ := hlf
          obtain ⟨e'', rfl, he''⟩ := he'.lf_inv
          simp only [List.cons_append, List.nil_append]
          rw [takeText_cr_lf, normEol_cr_lf,
            ih s' e'' (by simp at hn; omega) he'' rest f hr (by simp at hf'; omega)]
          rfl
        · have hs : ∀ s', s ≠ '\n' :: s' := fun s' h => hlf ⟨s', h⟩
          simp only [List.cons_append, List.nil_append]
          rw [takeText_cr f _ (he'.head_lf hr hs), normEol_cons _ _ (fun _ => hs),
            ih s e' (by omega) he' rest f hr hf']
          simp
      · rw [List.append_assoc, takeText_encChar f c ec _ hec hx hcr (he'.no_cdata_end hr),
          normEol_cons _ _ (fun h => absurd h hcr), ih s e' (by omega) he' rest f hr hf']
        simp [hcr]

/-- **Text round trip, general form**: escaped character data followed by markup (or the end of
    the input) is read back with its line ends normalised. -/
theorem takeText_enc {e s : Str} (h : Enc e s) (rest : Str) (fuel : Nat) (hr : startsLt rest)
    (hf : e.length < fuel) : takeText fuel (e ++ rest) = some (normEol s, rest) :=
  takeText_enc_aux s.length s e (Nat.le_refl _) h rest fuel hr hf

theorem normEol_of_noCR (s : Str) (h : ∀ c ∈ s, c ≠ '\r') : normEol s = s := by
  induction s with
  | nil => rfl
  | cons c s ih =>
    have hc : c ≠ '\r' := h c (by simp)
    rw [normEol_cons c s (fun e => absurd e hc), ih (fun d hd => h d (by simp [hd]))]
    simp [hc]

theorem normEol_ne_nil (c : Char) (s : Str) : normEol (c :: s) ≠ [] := by
  rw [normEol.eq_def]
  split <;> simp_all

/-! ## `takeAttrVal` -/

theorem takeAttrVal_ref (f : Nat) (r r' : Str) (d : Char) (h : takeRef r = some (d, r')) :
    takeAttrVal '"' (f + 1) ('&' :: r) = (takeAttrVal '"' f r').map fun p => (d :: p.1, p.2) := by
  simp only [takeAttrVal, h]
  simp
  cases takeAttrVal '"' f r' <;> rfl

theorem takeAttrVal_plain (f : Nat) (c : Char) (r : Str) (h0 : c ≠ '"') (h1 : c ≠ '<') (h2 : c ≠ '&')
    (h3 : attrCharOk c = true) :
    takeAttrVal '"' (f + 1) (c :: r) = (takeAttrVal '"' f r).map fun p => (c :: p.1, p.2) := by
  simp only [attrCharOk, Bool.and_eq_true, bne_iff_ne, ne_eq] at h3
  simp only [takeAttrVal]
  simp [h0, h1, h2, h3]
  cases takeAttrVal '"' f r <;> rfl

/-- **Attribute value round trip** -/
theorem takeAttrVal_escAttr (v : Str) (hv : v.all attrCharOk = true) : ∀ (rest : Str) (fuel : Nat),
    (escAttr v).length < fuel → takeAttrVal '"' fuel (escAttr v ++ '"' :: rest) = some (v, rest) := by
  induction v with
  | nil =>
    intro rest fuel hf
    obtain ⟨f, rfl⟩ : ∃ f, fuel = f + 1 := ⟨fuel - 1, by simp at hf; omega⟩
    simp [takeAttrVal]
  | cons c v ih =>
    intro rest fuel hf
    simp only [List.all_cons, Bool.and_eq_true] at hv
    have ih := ih hv.2 rest
    rw [escAttr_cons] at hf ⊢
    obtain ⟨f, rfl⟩ : ∃ f, fuel = f + 1 := ⟨fuel - 1, by omega⟩
    by_cases h1 : c = '&'
    · subst h1
      have hf' : (escAttr v).length < f := by simp [escAttrChar] at hf; omega
      simp only [escAttrChar, List.cons_append, List.nil_append]
      rw [takeAttrVal_ref f _ _ _ (takeRef_amp _), ih f hf']; rfl
    · by_cases h2 : c = '<'
      · subst h2
        have hf' : (escAttr v).length < f := by simp [escAttrChar] at hf; omega
        simp only [escAttrChar, List.cons_append, List.nil_append]
        rw [takeAttrVal_ref f _ _ _ (takeRef_lt _), ih f hf']; rfl
      · by_cases h3 : c = '>'
        · subst h3
          have hf' : (escAttr v).length < f := by simp [escAttrChar] at hf; omega
          simp only [escAttrChar, List.cons_append, List.nil_append]
          rw [takeAttrVal_ref f _ _ _ (takeRef_gt _), ih f hf']; rfl
        · by_cases h4 : c = '"'
          · subst h4
            have hf' : (escAttr v).length < f := by simp [escAttrChar] at hf; omega
            simp only [escAttrChar, List.cons_append, List.nil_append]
            rw [takeAttrVal_ref f _ _ _ (takeRef_quot _), ih f hf']; rfl
          · rw [escAttrChar_plain h1 h2 h3 h4] at hf ⊢
            have hf' : (escAttr v).length < f := by simp at hf; omega
            simp only [List.cons_append, List.nil_append]
            rw [takeAttrVal_plain f c _ h4 h2 h1 hv.1, ih f hf']; rfl

/-! ## `takeAttrVal`, normalising -/

theorem normAttrVal_cr_lf (r : Str) : normAttrVal ('\r' :: '\n' :: r) = ' ' :: normAttrVal r := by
  simp [normAttrVal]

theorem normAttrVal_cons (c : Char) (r : Str) (h : c = '\r' → ∀ r', r ≠ '\n' :: r') :
    normAttrVal (c :: r) = (if c = '\r' ∨ c = '\t' ∨ c = '\n' then ' ' else c) :: normAttrVal r := by
  rw [normAttrVal.eq_def]
  split
  · simp_all
  · rename_i heq; simp at heq; exact absurd heq.2 (h heq.1 _)
  · rename_i heq; simp at heq; rw [heq.1, heq.2]


theorem takeAttrVal_cr_lf (f : Nat) (r : Str) :
    takeAttrVal '"' (f + 1) ('\r' :: '\n' :: r) = (takeAttrVal '"' f r).map fun p => (' ' :: p.1, p.2) := by
  simp only [takeAttrVal]
  simp
  cases takeAttrVal '"' f r <;> rfl

theorem takeAttrVal_cr (f : Nat) (r : Str) (h : ∀ r', r ≠ '\n' :: r') :
    takeAttrVal '"' (f + 1) ('\r' :: r) = (takeAttrVal '"' f r).map fun p => (' ' :: p.1, p.2) := by
  simp only [takeAttrVal]
  cases r with
  | nil => simp; cases takeAttrVal '"' f [] <;> rfl
  | cons d r' =>
    have hd : d ≠ '\n' := fun e => h r' (by rw [e])
    simp
    cases takeAttrVal '"' f (d :: r') <;> rfl

theorem takeAttrVal_tab_lf (f : Nat) (c : Char) (r : Str) (h : c = '\t' ∨ c = '\n') :
    takeAttrVal '"' (f + 1) (c :: r) = (takeAttrVal '"' f r).map fun p => (' ' :: p.1, p.2) := by
  rcases h with rfl | rfl <;> (simp only [takeAttrVal]; simp; cases takeAttrVal '"' f r <;> rfl)

theorem escAttr_head_ne_lf (r rest : Str) (h : ∀ r', r ≠ '\n' :: r') :
    ∀ r', escAttr r ++ '"' :: rest ≠ '\n' :: r' := by
  intro r' heq
  cases r with
  | nil => simp at heq
  | cons d r =>
    rw [escAttr_cons] at heq
    have hd : d ≠ '\n' := fun e => h r (by rw [e])
    by_cases h1 : d = '&'
    · subst h1; simp [escAttrChar] at heq
    · by_cases h2 : d = '<'
      · subst h2; simp [escAttrChar] at heq
      · by_cases h3 : d = '>'
        · subst h3; simp [escAttrChar] at heq
        · by_cases h4 : d = '"'
          · subst h4; simp [escAttrChar] at heq
          · rw [escAttrChar_plain h1 h2 h3 h4] at heq
            simp at heq; exact hd heq.1

/-- **Attribute value round trip, normalising form**: any value of XML characters is read back
    as its normalisation. -/
theorem takeAttrVal_escAttr_norm : ∀ (n : Nat) (v : Str), v.length ≤ n → v.all isXmlChar = true →
    ∀ (rest : Str) (fuel : Nat), (escAttr v).length < fuel →
    takeAttrVal '"' fuel (escAttr v ++ '"' :: rest) = some (normAttrVal v, rest) := by
  intro n
  induction n with
  | zero =>
    intro v hn _ rest fuel hf
    have : v = [] := by cases v <;> simp_all
    subst this
    obtain ⟨f, rfl⟩ : ∃ f, fuel = f + 1 := ⟨fuel - 1, by simp at hf; omega⟩
    simp [takeAttrVal, normAttrVal]
  | succ n ih =>
    intro v hn hv rest fuel hf
    cases v with
    | nil =>
      obtain ⟨f, rfl⟩ : ∃ f, fuel = f + 1 := ⟨fuel - 1, by simp at hf; omega⟩
      simp [takeAttrVal, normAttrVal]
    | cons c v =>
      simp only [List.all_cons, Bool.and_eq_true] at hv
      simp only [List.length_cons] at hn
      obtain ⟨f, rfl⟩ : ∃ f, fuel = f + 1 := ⟨fuel - 1, by omega⟩
      by_cases hcrlf : c = '\r' ∧ ∃ v', v = '\n' :: v'
      · obtain ⟨rfl, v', rfl⟩ := hcrlf
        simp only [List.all_cons, Bool.and_eq_true] at hv
        have he : escAttr ('\r' :: '\n' :: v') = '\r' :: '\n' :: escAttr v' := by
          simp [escAttr_cons, escAttrChar]
        rw [he] at hf ⊢
        simp only [List.cons_append]
        rw [takeAttrVal_cr_lf, normAttrVal_cr_lf,
          ih v' (by simp at hn; omega) hv.2.2 rest f (by simp at hf; omega)]
        rfl
      · have hcons : normAttrVal (c :: v) =
            (if c = '\r' ∨ c = '\t' ∨ c = '\n' then ' ' else c) :: normAttrVal v :=
          normAttrVal_cons c v (fun h1 r' h2 => hcrlf ⟨h1, r', h2⟩)
        rw [hcons, escAttr_cons] at *
        have hlen : 1 ≤ (escAttrChar c).length := by unfold escAttrChar; split <;> simp
        have ih' := ih v (by omega) hv.2 rest f (by simp at hf; omega)
        by_cases hcr : c = '\r'
        · subst hcr
          have he : escAttrChar '\r' = ['\r'] := rfl
          simp only [he, List.cons_append, List.nil_append]
          rw [takeAttrVal_cr f _ (escAttr_head_ne_lf v rest (fun r' h => hcrlf ⟨rfl, r', h⟩)), ih']
          simp
        · by_cases htl : c = '\t' ∨ c = '\n'
          · have he : escAttrChar c = [c] := by rcases htl with rfl | rfl <;> rfl
            simp only [he, List.cons_append, List.nil_append]
            rw [takeAttrVal_tab_lf f c _ htl, ih']
            simp [htl]
          · have hn' : ¬(c = '\r' ∨ c = '\t' ∨ c = '\n') := by
              intro h; rcases h with h | h | h
              · exact hcr h
              · exact htl (Or.inl h)
              · exact htl (Or.inr h)
            have hok : attrCharOk c = true := by
              simp only [attrCharOk, Bool.and_eq_true, bne_iff_ne, ne_eq]
              exact ⟨⟨⟨hv.1, fun h => htl (Or.inl h)⟩, fun h => htl (Or.inr h)⟩, hcr⟩
            simp only [hn', if_false]
            by_cases h1 : c = '&'
            · subst h1
              simp only [escAttrChar, List.cons_append, List.nil_append]
              rw [takeAttrVal_ref f _ _ _ (takeRef_amp _), ih']; rfl
            · by_cases h2 : c = '<'
              · subst h2
                simp only [escAttrChar, List.cons_append, List.nil_append]
                rw [takeAttrVal_ref f _ _ _ (takeRef_lt _), ih']; rfl
              · by_cases h3 : c = '>'
                · subst h3
                  simp only [escAttrChar, List.cons_append, List.nil_append]
                  rw [takeAttrVal_ref f _ _ _ (takeRef_gt _), ih']; rfl
                · by_cases h4 : c = '"'
                  · subst h4
                    simp only [escAttrChar, List.cons_append, List.nil_append]
                    rw [takeAttrVal_ref f _ _ _ (takeRef_quot _), ih']; rfl
                  · rw [escAttrChar_plain h1 h2 h3 h4]
                    simp only [List.cons_append, List.nil_append]
                    rw [takeAttrVal_plain f c _ h4 h2 h1 hok, ih']; rfl

/-! ## Names, whitespace, attributes -/

theorem nameStartChar_nameChar {c : Char} (h : nameStartChar c = true) : nameChar c = true := by
  simp [nameChar, h]

theorem nsc_bang : nameStartChar '!' = false := by decide
theorem nsc_qm : nameStartChar '?' = false := by decide
theorem nsc_slash : nameStartChar '/' = false := by decide
theorem nsc_gt : nameStartChar '>' = false := by decide
theorem nsc_lt : nameStartChar '<' = false := by decide
theorem nc_slash : nameChar '/' = false := by decide
theorem nc_gt : nameChar '>' = false := by decide
theorem nc_sp : nameChar ' ' = false := by decide
theorem nc_eq : nameChar '=' = false := by decide

theorem nameStartChar_not_ws {c : Char} (h : nameStartChar c = true) : isWs c = false := by
  cases hw : isWs c with
  | false => rfl
  | true =>
    simp only [isWs, Bool.or_eq_true, beq_iff_eq] at hw
    rcases hw with ((rfl | rfl) | rfl) | rfl <;> revert h <;> decide


theorem isName_cons {s : Str} (h : isName s = true) :
    ∃ c cs, s = c :: cs ∧ nameStartChar c = true ∧ ∀ x ∈ c :: cs, nameChar x = true := by
  cases s with
  | nil => simp [isName] at h
  | cons c cs =>
    simp only [isName, Bool.and_eq_true, List.all_eq_true] at h
    refine ⟨c, cs, rfl, h.1, ?_⟩
    intro x hx
    simp at hx
    rcases hx with rfl | hx
    · exact nameStartChar_nameChar h.1
    · exact h.2 x hx

theorem takeName_append (t : Str) (c : Char) (r : Str)
    (ht : ∀ x ∈ t, nameChar x = true) (hc : nameChar c = false) :
    takeName (t ++ c :: r) = (t, c :: r) := by
  induction t with
  | nil => simp [takeName, hc]
  | cons a as ih =>
    have ha : nameChar a = true := ht a (by simp)
    have ih' := ih (fun x hx => ht x (by simp [hx]))
    simp [takeName, ha, ih']

theorem skipWs_nonws {c : Char} (r : Str) (h : isWs c = false) : skipWs (c :: r) = c :: r := by
  simp [skipWs, h]

theorem takeAttrs_attr (f : Nat) (k v X : Str) (hk : isName k = true) (hv : v.all isXmlChar = true) :
    takeAttrs (f + 1) (' ' :: (k ++ '=' :: '"' :: (escAttr v ++ '"' :: X))) =
      (takeAttrs f X).map fun p => ((k, normAttrVal v) :: p.1, p.2.1, p.2.2) := by
  obtain ⟨c, cs, rfl, hc, hall⟩ := isName_cons hk
  have hws : isWs c = false := nameStartChar_not_ws hc
  have hsp : isWs ' ' = true := by decide
  have heqn : isWs '=' = false := by decide
  have hq : isWs '"' = false := by decide
  have h1 : skipWs (' ' :: (c :: cs ++ '=' :: '"' :: (escAttr v ++ '"' :: X))) =
      c :: cs ++ '=' :: '"' :: (escAttr v ++ '"' :: X) := by
    simp only [skipWs, hsp, hws, List.cons_append]; simp
  have hgt : c ≠ '>' := by rintro rfl; revert hc; decide
  have hsl : c ≠ '/' := by rintro rfl; revert hc; decide
  have h2 := takeName_append (c :: cs) '=' ('"' :: (escAttr v ++ '"' :: X)) hall nc_eq
  rw [takeAttrs.eq_def]
  simp only [h1]
  split
  · rename_i heq; simp at heq; exact absurd heq.1 hgt
  · rename_i heq; simp at heq; exact absurd heq.1 hsl
  · simp only [List.cons_append] at h2
    simp only [List.cons_append, h2, hk]
    rw [if_neg (by simp)]
    simp only [Bool.not_true, Bool.false_eq_true, if_false]
    rw [skipWs_nonws _ heqn]
    simp only []
    rw [skipWs_nonws _ hq]
    simp only [true_or, if_true]
    rw [takeAttrVal_escAttr_norm v.length v (Nat.le_refl _) hv X _ (by simp; omega)]
    simp only []
    cases takeAttrs f X <;> rfl

theorem takeAttrs_render (attrs : List (Str × Str))
    (h : attrs.all (fun kv => isName kv.1 && kv.2.all isXmlChar) = true) (r : Str) :
    ∀ fuel, attrs.length < fuel →
      takeAttrs fuel (renderAttrs attrs ++ '>' :: r) = some (normAttrList attrs, false, r) ∧
      takeAttrs fuel (renderAttrs attrs ++ '/' :: '>' :: r) = some (normAttrList attrs, true, r) := by
  induction attrs with
  | nil =>
    intro fuel hf
    obtain ⟨f, rfl⟩ : ∃ f, fuel = f + 1 := ⟨fuel - 1, by omega⟩
    have h1 : isWs '>' = false := by decide
    have h2 : isWs '/' = false := by decide
    constructor
    · simp only [renderAttrs, List.nil_append]
      rw [takeAttrs.eq_def]; simp only [skipWs_nonws _ h1]; rfl
    · simp only [renderAttrs, List.nil_append]
      rw [takeAttrs.eq_def]; simp only [skipWs_nonws _ h2]; rfl
  | cons kv rest ih =>
    intro fuel hf
    obtain ⟨k, v⟩ := kv
    simp only [List.all_cons, Bool.and_eq_true] at h
    obtain ⟨f, rfl⟩ : ∃ f, fuel = f + 1 := ⟨fuel - 1, by omega⟩
    have ih := ih h.2 f (by simp at hf; omega)
    simp only [renderAttrs, List.cons_append, List.append_assoc]
    rw [takeAttrs_attr f k v _ h.1.1 h.1.2, takeAttrs_attr f k v _ h.1.1 h.1.2, ih.1, ih.2]
    exact ⟨rfl, rfl⟩

theorem attrs_length_le (attrs : List (Str × Str)) : attrs.length ≤ (renderAttrs attrs).length := by
  induction attrs with
  | nil => simp
  | cons kv rest ih => obtain ⟨k, v⟩ := kv; simp [renderAttrs]; omega

/-! ## `pNode`, `pNodes` one step -/

theorem pNode_text_step (f : Nat) (c : Char) (r : Str) (hc : c ≠ '<') :
    pNode (f + 1) (c :: r) = (takeText (r.length + 2) (c :: r)).map fun p => (some (.text false p.1), p.2) := by
  rw [pNode.eq_def]
  split <;> try (simp_all; done)
  rename_i heq1 heq2
  simp at heq1 heq2
  obtain ⟨rfl, rfl⟩ := heq2
  cases takeText (r.length + 2) (c :: r) <;> rfl

theorem pNode_elem_step (f : Nat) (tag r1 : Str) (hn : isName tag = true)
    (h1 : takeName (tag ++ r1) = (tag, r1)) :
    pNode (f + 1) ('<' :: (tag ++ r1)) =
      match takeAttrs (r1.length + 1) r1 with
      | some (attrs, true, r2) => if attrKeysNodup attrs then some (some (.elem tag attrs []), r2) else none
      | some (attrs, false, r2) =>
        if !attrKeysNodup attrs then none else
        match pNodes f r2 with
        | some (kids, '<' :: '/' :: r3) =>
          match takeName r3 with
          | (tag', r4) =>
            match skipWs r4 with
            | '>' :: r5 => if tag' = tag then some (some (.elem tag attrs kids), r5) else none
            | _ => none
        | _ => none
      | none => none := by
  obtain ⟨c, cs, rfl, hc, hall⟩ := isName_cons hn
  have hb : c ≠ '!' := by rintro rfl; revert hc; decide
  have hq : c ≠ '?' := by rintro rfl; revert hc; decide
  rw [pNode.eq_def]
  simp only [List.cons_append] at h1 ⊢
  split
  · simp_all
  · rename_i heq; simp at heq; exact absurd heq.1 hb
  · rename_i heq; simp at heq; exact absurd heq.1 hb
  · rename_i heq; simp at heq; exact absurd heq.1 hq
  · rename_i heq1 heq2
    simp at heq1 heq2
    subst heq1 heq2
    simp only [h1, hn]
    rfl
  · simp_all
  · rename_i hlt _ heq; simp at heq; exact absurd heq.1.symm hlt

theorem nameChars_of_isName {tag : Str} (hn : isName tag = true) : ∀ x ∈ tag, nameChar x = true := by
  obtain ⟨c, cs, rfl, _, hall⟩ := isName_cons hn
  exact hall

theorem pNode_selfclose (f : Nat) (tag r1 r2 : Str) (attrs : List (Str × Str)) (hn : isName tag = true)
    (h1 : takeName (tag ++ r1) = (tag, r1))
    (h2 : takeAttrs (r1.length + 1) r1 = some (attrs, true, r2)) (h3 : attrKeysNodup attrs = true) :
    pNode (f + 1) ('<' :: (tag ++ r1)) = some (some (.elem tag attrs []), r2) := by
  rw [pNode_elem_step f tag r1 hn h1, h2]
  simp [h3]

theorem pNode_open (f : Nat) (tag r1 r2 r5 : Str) (attrs : List (Str × Str)) (kids : List Node)
    (hn : isName tag = true) (h1 : takeName (tag ++ r1) = (tag, r1))
    (h2 : takeAttrs (r1.length + 1) r1 = some (attrs, false, r2)) (h3 : attrKeysNodup attrs = true)
    (h4 : pNodes f r2 = some (kids, '<' :: '/' :: (tag ++ '>' :: r5))) :
    pNode (f + 1) ('<' :: (tag ++ r1)) = some (some (.elem tag attrs kids), r5) := by
  have h5 := takeName_append tag '>' r5 (nameChars_of_isName hn) nc_gt
  have h6 : isWs '>' = false := by decide
  rw [pNode_elem_step f tag r1 hn h1, h2]
  simp only [h3, h4, h5, skipWs_nonws _ h6]
  simp

theorem pNodes_nil (f : Nat) : pNodes (f + 1) [] = some ([], []) := by
  simp [pNodes]

theorem pNodes_close (f : Nat) (r : Str) : pNodes (f + 1) ('<' :: '/' :: r) = some ([], '<' :: '/' :: r) := by
  simp [pNodes]

theorem pNodes_cons (f : Nat) (c : Char) (r r1 r' : Str) (n : Node) (ks : List Node)
    (h : ∀ r'', c :: r ≠ '<' :: '/' :: r'')
    (h1 : pNode f (c :: r) = some (some n, r1)) (h2 : pNodes f r1 = some (ks, r')) :
    pNodes (f + 1) (c :: r) = some (n :: ks, r') := by
  rw [pNodes.eq_def]
  split
  · simp_all
  · simp_all
  · rename_i heq; simp at heq; exact absurd (by rw [heq.1, heq.2]) (h _)
  · rename_i heq _ _
    simp at heq
    subst heq
    simp [h1, h2]

/-! ## `mergeText` -/

/-- put the text `a` in front of a (normalised) child list -/
def prepend : Str → List Node → List Node
  | [], l => l
  | c :: a, .text _ b :: r => .text false (c :: a ++ b) :: r
  | c :: a, r => .text false (c :: a) :: r

theorem mergeText_text (b : Bool) (a : Str) (rest : List Node) :
    mergeText (.text b a :: rest) = prepend a (mergeText rest) := by
  cases a with
  | nil => simp [mergeText, prepend]
  | cons c a =>
    rw [mergeText.eq_def]
    simp only
    cases h : mergeText rest with
    | nil => simp [prepend]
    | cons n l => cases n <;> simp [prepend]

theorem mergeText_elem (t : Str) (a : List (Str × Str)) (ks rest : List Node) :
    mergeText (.elem t a ks :: rest) = .elem t a ks :: mergeText rest := by
  simp [mergeText]

theorem prepend_nil (l : List Node) : prepend [] l = l := rfl

theorem prepend_prepend (a b : Str) (l : List Node) : prepend a (prepend b l) = prepend (a ++ b) l := by
  cases a with
  | nil => simp [prepend]
  | cons c a =>
    cases b with
    | nil => simp [prepend]
    | cons d b =>
      cases l with
      | nil => simp [prepend]
      | cons n l => cases n <;> simp [prepend]

theorem prepend_elem (s t : Str) (a : List (Str × Str)) (ks l : List Node) :
    prepend s (.elem t a ks :: l) = textIfNonempty s ++ .elem t a ks :: l := by
  cases s <;> simp [prepend, textIfNonempty]

theorem prepend_nil_list (s : Str) : prepend s [] = textIfNonempty s := by
  cases s <;> simp [prepend, textIfNonempty]

/-! ## fuel -/

mutual
/-- fuel that `pNodes` needs for this node as a child (`pNode` needs 2 less) -/
def cost : Node → Nat
  | .text _ _ => 0
  | .elem _ _ [] => 3
  | .elem _ _ (k :: ks) => 3 + costs (k :: ks)
def costs : List Node → Nat
  | [] => 2
  | k :: ks => cost k + costs ks
end

theorem costs_ge (ks : List Node) : 2 ≤ costs ks := by
  induction ks with
  | nil => simp [costs]
  | cons k ks ih => simp [costs]; omega

theorem cost_elem_ge (t : Str) (a : List (Str × Str)) (ks : List Node) : 3 ≤ cost (.elem t a ks) := by
  cases ks <;> simp [cost]

mutual
theorem cost_le_length (ind add nl : Str) : ∀ (n : Node), cost n ≤ (render ind add nl n).length
  | .text _ _ => by simp [cost]
  | .elem t a [] => by simp [cost, render]; omega
  | .elem t a (k :: ks) => by
    have h1 := costs_le_length [] [] [] (k :: ks)
    have h2 := costs_le_length (ind ++ add) add nl (k :: ks)
    simp only [cost, render]
    split <;> simp <;> omega
theorem costs_le_length (ind add nl : Str) : ∀ (ks : List Node), costs ks ≤ (renderKids ind add nl ks).length + 2
  | [] => by simp [costs]
  | k :: ks => by
    have h1 := cost_le_length ind add nl k
    have h2 := costs_le_length ind add nl ks
    simp [costs, renderKids]; omega
end

/-! ## the element without its indentation -/

def content (ind add nl : Str) (ks : List Node) : Str :=
  if ks.any isText then leadSp ks ++ (renderKids [] [] [] ks ++ trailSp ks)
  else nl ++ (renderKids (ind ++ add) add nl ks ++ ind)

def core (ind add nl : Str) : Node → Str
  | .text _ _ => []
  | .elem t a [] => '<' :: (t ++ (renderAttrs a ++ '/' :: '>' :: []))
  | .elem t a (k :: ks) =>
    '<' :: (t ++ (renderAttrs a ++ '>' :: (content ind add nl (k :: ks) ++ '<' :: '/' :: (t ++ ['>']))))

theorem render_elem (ind add nl t : Str) (a : List (Str × Str)) (ks : List Node) :
    render ind add nl (.elem t a ks) = ind ++ (core ind add nl (.elem t a ks) ++ nl) := by
  cases ks with
  | nil => simp [render, core]
  | cons k ks =>
    simp only [render, core, content, leadSp, trailSp]
    split <;> simp

/-! ## indentation strings -/

/-- indentation / newline strings: XML white space without CR -/
def padOk (s : Str) : Bool := s.all fun c => isWs c && c != '\r'

theorem padChar {c : Char} (h : (isWs c && c != '\r') = true) : c = ' ' ∨ c = '\t' ∨ c = '\n' := by
  simp only [isWs, Bool.and_eq_true, Bool.or_eq_true, beq_iff_eq, bne_iff_ne] at h
  rcases h with ⟨((h | h) | h) | h, h2⟩ <;> simp_all

theorem Enc.pad {s : Str} (h : padOk s = true) : Enc s s := by
  induction s with
  | nil => exact Enc.nil
  | cons c cs ih =>
    simp only [padOk, List.all_cons, Bool.and_eq_true] at h
    have hc := padChar (by simpa using h.1)
    have h1 : escTextChar c = [c] := by rcases hc with rfl | rfl | rfl <;> rfl
    have h2 : isXmlChar c = true := by rcases hc with rfl | rfl | rfl <;> decide
    have := Enc.text c h2 (ih (by simpa [padOk] using h.2))
    rwa [h1] at this

theorem padOk_nil : padOk [] = true := rfl
theorem padOk_append {a b : Str} (ha : padOk a = true) (hb : padOk b = true) : padOk (a ++ b) = true := by
  simp_all [padOk]
theorem padOk_leadSp (ks : List Node) : padOk (leadSp ks) = true := by
  cases ks with
  | nil => rfl
  | cons k ks => simp only [leadSp]; split <;> (try split) <;> decide
theorem padOk_trailSp (ks : List Node) : padOk (trailSp ks) = true := by
  cases ks with
  | nil => rfl
  | cons k ks => simp only [trailSp]; split <;> decide
theorem padOk_xml {s : Str} (h : padOk s = true) : s.all isXmlChar = true := by
  simp only [padOk, List.all_eq_true] at h ⊢
  intro c hc
  rcases padChar (h c hc) with rfl | rfl | rfl <;> decide

theorem padOk_noCR {s : Str} (h : padOk s = true) : ∀ c ∈ s, c ≠ '\r' := by
  simp only [padOk, List.all_eq_true, Bool.and_eq_true, bne_iff_ne] at h
  exact fun c hc => (h c hc).2

/-! ## what the reader returns for a child list -/

/-- the normalised children for `renderKids ind add nl ks` followed by the text `post` -/
def K (ind add nl : Str) (ks : List Node) (post : Str) : List Node :=
  mergeText (normKids (layoutKids ind add nl ks ++ [.text false post]))

theorem K_nil (ind add nl post : Str) : K ind add nl [] post = textIfNonempty post := by
  simp [K, layoutKids, normKids, normNode, mergeText_text, mergeText, prepend_nil_list]

theorem K_text (ind add nl post : Str) (b : Bool) (s : Str) (ks : List Node) :
    K ind add nl (.text b s :: ks) post = prepend (ind ++ (s ++ nl)) (K ind add nl ks post) := by
  simp [K, layoutKids, layout, normKids, normNode, mergeText_text, prepend_prepend]

theorem normNode_elem (t : Str) (a : List (Str × Str)) (ks : List Node) :
    normNode (.elem t a ks) = .elem t a (mergeText (normKids ks)) := by
  simp [normNode]

theorem normNode_text (b : Bool) (s : Str) : normNode (.text b s) = .text false s := by
  simp [normNode]

theorem layout_elem (ind add nl t : Str) (a : List (Str × Str)) (ks : List Node) :
    ∃ ks', layout ind add nl (.elem t a ks) = .elem t a ks' := by
  cases ks <;> simp [layout]

theorem K_elem (ind add nl post t : Str) (a : List (Str × Str)) (ks' ks : List Node) :
    K ind add nl (.elem t a ks' :: ks) post =
      textIfNonempty ind ++ normNode (layout ind add nl (.elem t a ks')) :: prepend nl (K ind add nl ks post) := by
  obtain ⟨ks'', h⟩ := layout_elem ind add nl t a ks'
  simp [K, layoutKids, normKids, mergeText_text, h, normNode_elem, normNode_text, mergeText_elem, prepend_elem]

theorem normNode_layout_cons (ind add nl t : Str) (a : List (Str × Str)) (k : Node) (ks : List Node) :
    normNode (layout ind add nl (.elem t a (k :: ks))) =
      .elem t a (if (k :: ks).any isText then
          prepend (leadSp (k :: ks)) (K [] [] [] (k :: ks) (trailSp (k :: ks)))
        else prepend nl (K (ind ++ add) add nl (k :: ks) ind)) := by
  simp only [layout, normNode_elem]
  split <;> simp [normKids, normNode, mergeText_text, K]

theorem normNode_layout_ne (ind add nl t : Str) (a : List (Str × Str)) (ks : List Node) (h : ks ≠ []) :
    normNode (layout ind add nl (.elem t a ks)) =
      .elem t a (if ks.any isText then prepend (leadSp ks) (K [] [] [] ks (trailSp ks))
        else prepend nl (K (ind ++ add) add nl ks ind)) := by
  cases ks with
  | nil => contradiction
  | cons k ks => exact normNode_layout_cons ind add nl t a k ks

/-! ## attribute normalisation does not change the shape of the tree -/

theorem isText_normAttrs (k : Node) : isText (normAttrs k) = isText k := by
  cases k <;> simp [normAttrs, isText]

theorem isElem_normAttrs (k : Node) : isElem (normAttrs k) = isElem k := by
  cases k <;> simp [normAttrs, isElem]

theorem any_isText_normAttrsKids (ks : List Node) : (normAttrsKids ks).any isText = ks.any isText := by
  induction ks with
  | nil => simp [normAttrsKids]
  | cons k ks ih => simp [normAttrsKids, isText_normAttrs, ih]

theorem isEmpty_normAttrsKids (ks : List Node) : (normAttrsKids ks).isEmpty = ks.isEmpty := by
  cases ks <;> simp [normAttrsKids]

theorem leadSp_normAttrsKids (ks : List Node) : leadSp (normAttrsKids ks) = leadSp ks := by
  cases ks with
  | nil => simp [normAttrsKids]
  | cons k ks => simp [normAttrsKids, leadSp, isEmpty_normAttrsKids, isText_normAttrs]

theorem trailSp_normAttrsKids (ks : List Node) : trailSp (normAttrsKids ks) = trailSp ks := by
  cases ks with
  | nil => simp [normAttrsKids]
  | cons k ks => simp [normAttrsKids, trailSp, isEmpty_normAttrsKids]

theorem normAttrsKids_ne (k : Node) (ks : List Node) : normAttrsKids (k :: ks) ≠ [] := by
  simp [normAttrsKids]

theorem attrKeysNodup_normAttrList (a : List (Str × Str)) :
    attrKeysNodup (normAttrList a) = attrKeysNodup a := by
  induction a with
  | nil => rfl
  | cons kv rest ih =>
    obtain ⟨k, v⟩ := kv
    have : normAttrList ((k, v) :: rest) = (k, normAttrVal v) :: normAttrList rest := rfl
    rw [this]
    simp only [attrKeysNodup, ih]
    congr 2
    simp [normAttrList, List.any_map, Function.comp_def]

theorem normAttrVal_ok (v : Str) (h : v.all attrCharOk = true) : normAttrVal v = v := by
  induction v with
  | nil => rfl
  | cons c v ih =>
    simp only [List.all_cons, Bool.and_eq_true, attrCharOk, bne_iff_ne, ne_eq] at h
    rw [normAttrVal_cons c v (fun hc => absurd hc h.1.2), ih h.2]
    have : ¬(c = '\r' ∨ c = '\t' ∨ c = '\n') := by
      intro hh; rcases hh with hh | hh | hh
      · exact h.1.2 hh
      · exact h.1.1.1.2 hh
      · exact h.1.1.2 hh
    simp [this]

theorem normAttrList_ok (a : List (Str × Str))
    (h : a.all (fun kv => isName kv.1 && kv.2.all attrCharOk) = true) : normAttrList a = a := by
  induction a with
  | nil => rfl
  | cons kv rest ih =>
    obtain ⟨k, v⟩ := kv
    simp only [List.all_cons, Bool.and_eq_true] at h
    have : normAttrList ((k, v) :: rest) = (k, normAttrVal v) :: normAttrList rest := rfl
    rw [this, normAttrVal_ok v h.1.2, ih h.2]

theorem attrCharOk_xml {v : Str} (h : v.all attrCharOk = true) : v.all isXmlChar = true := by
  simp only [List.all_eq_true, attrCharOk, Bool.and_eq_true] at h ⊢
  exact fun c hc => (h c hc).1.1.1

theorem attrsWFLax_of_attrsWF {a : List (Str × Str)} (h : attrsWF a = true) : attrsWFLax a = true := by
  simp only [attrsWF, attrsWFLax, Bool.and_eq_true, List.all_eq_true] at h ⊢
  exact ⟨fun kv hkv => ⟨(h.1 kv hkv).1, List.all_eq_true.mp (attrCharOk_xml (List.all_eq_true.mpr (h.1 kv hkv).2))⟩, h.2⟩

mutual
theorem WFLax_of_WF : ∀ (n : Node), n.WF = true → n.WFLax = true
  | .text _ s, h => by
    simp only [Node.WF, Node.WFLax, List.all_eq_true, textCharOk, Bool.and_eq_true] at h ⊢
    exact fun c hc => (h c hc).1
  | .elem t a ks, h => by
    simp only [Node.WF, Node.WFLax, Bool.and_eq_true] at h ⊢
    exact ⟨⟨h.1.1, attrsWFLax_of_attrsWF h.1.2⟩, WFKidsLax_of_WFKids ks h.2⟩
theorem WFKidsLax_of_WFKids : ∀ (ks : List Node), WFKids ks = true → WFKidsLax ks = true
  | [], _ => rfl
  | k :: ks, h => by
    simp only [WFKids, WFKidsLax, Bool.and_eq_true] at h ⊢
    exact ⟨WFLax_of_WF k h.1, WFKidsLax_of_WFKids ks h.2⟩
end

mutual
theorem normAttrs_of_WF : ∀ (n : Node), n.WF = true → normAttrs n = n
  | .text _ _, _ => rfl
  | .elem t a ks, h => by
    simp only [Node.WF, attrsWF, Bool.and_eq_true] at h
    simp only [normAttrs, normAttrList_ok a h.1.2.1, normAttrsKids_of_WFKids ks h.2]
theorem normAttrsKids_of_WFKids : ∀ (ks : List Node), WFKids ks = true → normAttrsKids ks = ks
  | [], _ => rfl
  | k :: ks, h => by
    simp only [WFKids, Bool.and_eq_true] at h
    simp only [normAttrsKids, normAttrs_of_WF k h.1, normAttrsKids_of_WFKids ks h.2]
end

/-! ## the main induction -/

/-- what may follow a child list: end of input or an end tag -/
def closes : Str → Prop
  | [] => True
  | '<' :: '/' :: _ => True
  | _ => False

theorem closes_startsLt {r : Str} (h : closes r) : startsLt r := by
  unfold closes at h; split at h <;> simp_all [startsLt]

theorem pNodes_closes (f : Nat) {r : Str} (h : closes r) : pNodes (f + 1) r = some ([], r) := by
  unfold closes at h
  split at h
  · exact pNodes_nil f
  · exact pNodes_close f _
  · contradiction

theorem Enc.head {e s : Str} {c : Char} (h : Enc e (c :: s)) : ∃ d r, e = d :: r ∧ d ≠ '<' := by
  cases h with
  | text _ hc he =>
    by_cases h1 : c = '&'
    · subst h1; exact ⟨'&', _, rfl, by decide⟩
    · by_cases h2 : c = '<'
      · subst h2; exact ⟨'&', _, rfl, by decide⟩
      · by_cases h3 : c = '>'
        · subst h3; exact ⟨'&', _, rfl, by decide⟩
        · rw [escTextChar_plain h1 h2 h3]; exact ⟨c, _, rfl, h2⟩
  | attr _ hc he =>
    by_cases h1 : c = '&'
    · subst h1; exact ⟨'&', _, rfl, by decide⟩
    · by_cases h2 : c = '<'
      · subst h2; exact ⟨'&', _, rfl, by decide⟩
      · by_cases h3 : c = '>'
        · subst h3; exact ⟨'&', _, rfl, by decide⟩
        · by_cases h4 : c = '"'
          · subst h4; exact ⟨'&', _, rfl, by decide⟩
          · rw [escAttrChar_plain h1 h2 h3 h4]; exact ⟨c, _, rfl, h2⟩

theorem pNodes_zero (inp : Str) : pNodes 0 inp = none := by
  simp [pNodes]

theorem normTextKids_textIf (s : Str) (L : List Node) :
    normTextKids (textIfNonempty s ++ L) = textIfNonempty (normEol s) ++ normTextKids L := by
  cases s with
  | nil => simp [textIfNonempty, normEol]
  | cons c s =>
    have h : (normEol (c :: s)).isEmpty = false := by
      cases h : normEol (c :: s) with
      | nil => exact absurd h (normEol_ne_nil c s)
      | cons _ _ => rfl
    simp [textIfNonempty, normTextKids, normText, h]

/-- (possibly empty) escaped text, then whatever `pNodes` reads from `X` -/
theorem pNodes_text_then (f : Nat) (e s X : Str) (L : List Node) (r' : Str) (he : Enc e s)
    (hX : startsLt X) (h1 : pNodes f X = some (L, r')) (h2 : pNodes (f + 1) X = some (L, r')) :
    pNodes (f + 1) (e ++ X) = some (textIfNonempty (normEol s) ++ L, r') := by
  cases s with
  | nil => rw [he.nil_inv]; simpa [textIfNonempty, normEol] using h2
  | cons c s =>
    obtain ⟨d, r, rfl, hd⟩ := he.head
    obtain ⟨g, rfl⟩ : ∃ g, f = g + 1 := by
      cases f with
      | zero => simp [pNodes_zero] at h1
      | succ g => exact ⟨g, rfl⟩
    have ht := takeText_enc he X ((r ++ X).length + 2) hX (by simp; omega)
    have hn : pNode (g + 1) (d :: (r ++ X)) = some (some (.text false (normEol (c :: s))), X) := by
      rw [pNode_text_step g d _ hd]
      simp only [List.cons_append] at ht
      rw [ht]; rfl
    simp only [List.cons_append]
    rw [pNodes_cons (g + 1) d (r ++ X) X r' _ L (by intro r'' h; simp at h; exact hd h.1) hn h1]
    have h : (normEol (c :: s)).isEmpty = false := by
      cases h : normEol (c :: s) with
      | nil => exact absurd h (normEol_ne_nil c s)
      | cons _ _ => rfl
    simp [textIfNonempty, h]

theorem takeName_tag (t : Str) (a : List (Str × Str)) (c : Char) (X : Str)
    (ht : ∀ x ∈ t, nameChar x = true) (hc : nameChar c = false) :
    takeName (t ++ (renderAttrs a ++ c :: X)) = (t, renderAttrs a ++ c :: X) := by
  cases a with
  | nil => simpa [renderAttrs] using takeName_append t c X ht hc
  | cons kv rest =>
    obtain ⟨k, v⟩ := kv
    simpa [renderAttrs] using takeName_append t ' ' _ ht nc_sp

theorem prepend_isElem (s : Str) (n : Node) (l : List Node) (h : isElem n = true) :
    prepend s (n :: l) = textIfNonempty s ++ n :: l := by
  cases n with
  | text _ _ => simp [isElem] at h
  | elem t a ks => exact prepend_elem s t a ks l

theorem isElem_norm_layout (ind add nl t : Str) (a : List (Str × Str)) (ks : List Node) :
    isElem (normNode (layout ind add nl (.elem t a ks))) = true := by
  obtain ⟨ks', h⟩ := layout_elem ind add nl t a ks
  simp [h, normNode_elem, isElem]

theorem core_head (ind add nl t : Str) (a : List (Str × Str)) (ks : List Node) (rest : Str)
    (ht : isName t = true) :
    ∃ c r, core ind add nl (.elem t a ks) ++ rest = '<' :: c :: r ∧ c ≠ '/' := by
  obtain ⟨c, cs, rfl, hc, _⟩ := isName_cons ht
  have hsl : c ≠ '/' := by rintro rfl; revert hc; decide
  cases ks with
  | nil => exact ⟨c, _, by simp [core]; rfl, hsl⟩
  | cons k ks => exact ⟨c, _, by simp [core]; rfl, hsl⟩

theorem WFLax_elem {t : Str} {a : List (Str × Str)} {ks : List Node} (h : (Node.elem t a ks).WFLax = true) :
    isName t = true ∧ a.all (fun kv => isName kv.1 && kv.2.all isXmlChar) = true ∧
      attrKeysNodup a = true ∧ WFKidsLax ks = true := by
  simp only [Node.WFLax, attrsWFLax, Bool.and_eq_true] at h
  exact ⟨h.1.1, h.1.2.1, h.1.2.2, h.2⟩

mutual
/-- reading back one rendered element (without its indentation): the result is the normalised
    layout tree, with attribute values normalised -/
theorem rt_elem : ∀ (n : Node), n.WFLax = true → isElem n = true →
    ∀ (ind add nl rest : Str) (fuel : Nat), padOk ind = true → padOk add = true → padOk nl = true →
    cost n ≤ fuel + 2 →
    pNode fuel (core ind add nl n ++ rest) =
      some (some (normText (normNode (layout ind add nl (normAttrs n)))), rest)
  | .text _ _, _, he, _, _, _, _, _, _, _, _, _ => by simp [isElem] at he
  | .elem t a [], hwf, _, ind, add, nl, rest, fuel, _, _, _, hf => by
    obtain ⟨ht, ha, hnd, _⟩ := WFLax_elem hwf
    obtain ⟨f, rfl⟩ : ∃ f, fuel = f + 1 := ⟨fuel - 1, by simp [cost] at hf; omega⟩
    have h1 := takeName_tag t a '/' ('>' :: rest) (nameChars_of_isName ht) nc_slash
    have h2 := (takeAttrs_render a ha rest ((renderAttrs a ++ '/' :: '>' :: rest).length + 1)
      (by have := attrs_length_le a; simp; omega)).2
    have := pNode_selfclose f t _ rest (normAttrList a) ht h1 h2 (by rw [attrKeysNodup_normAttrList]; exact hnd)
    simpa [core, layout, normAttrs, normAttrsKids, normNode, normKids, mergeText, normText, normTextKids] using this
  | .elem t a (k :: ks), hwf, _, ind, add, nl, rest, fuel, hi, had, hnl, hf => by
    obtain ⟨ht, ha, hnd, hks⟩ := WFLax_elem hwf
    obtain ⟨f, rfl⟩ : ∃ f, fuel = f + 1 := ⟨fuel - 1, by simp [cost] at hf; have := costs_ge (k :: ks); omega⟩
    have hf' : costs (k :: ks) ≤ f := by simp only [cost] at hf; omega
    let tail := '<' :: '/' :: (t ++ '>' :: rest)
    have hcl : closes tail := by simp [tail, closes]
    have h1 := takeName_tag t a '>' (content ind add nl (k :: ks) ++ tail) (nameChars_of_isName ht) nc_gt
    have h2 := (takeAttrs_render a ha (content ind add nl (k :: ks) ++ tail)
      ((renderAttrs a ++ '>' :: (content ind add nl (k :: ks) ++ tail)).length + 1)
      (by have := attrs_length_le a; simp; omega)).1
    have h4 : pNodes f (content ind add nl (k :: ks) ++ tail) =
        some (normTextKids (if (k :: ks).any isText then
            prepend (leadSp (k :: ks)) (K [] [] [] (normAttrsKids (k :: ks)) (trailSp (k :: ks)))
          else prepend nl (K (ind ++ add) add nl (normAttrsKids (k :: ks)) ind)), tail) := by
      unfold content
      split
      · have := rt_kids (k :: ks) hks [] [] [] (leadSp (k :: ks)) (leadSp (k :: ks))
          (trailSp (k :: ks)) (trailSp (k :: ks)) tail f padOk_nil padOk_nil padOk_nil
          (Enc.pad (padOk_leadSp _)) (Enc.pad (padOk_trailSp _)) hcl hf'
        simpa [List.append_assoc] using this
      · have := rt_kids (k :: ks) hks (ind ++ add) add nl nl nl ind ind tail f (padOk_append hi had) had hnl
          (Enc.pad hnl) (Enc.pad hi) hcl hf'
        simpa [List.append_assoc] using this
    have := pNode_open f t _ _ rest (normAttrList a) _ ht h1 h2
      (by rw [attrKeysNodup_normAttrList]; exact hnd) h4
    have hna : normAttrs (.elem t a (k :: ks)) = .elem t (normAttrList a) (normAttrsKids (k :: ks)) := by
      simp only [normAttrs]
    rw [hna, normNode_layout_ne _ _ _ _ _ _ (normAttrsKids_ne k ks), any_isText_normAttrsKids,
      leadSp_normAttrsKids, trailSp_normAttrsKids]
    simp only [normText]
    simpa [core, tail, List.append_assoc] using this
/-- reading back a rendered child list, preceded by the escaped text `e` and followed by `e'` -/
theorem rt_kids : ∀ (ks : List Node), WFKidsLax ks = true →
    ∀ (ind add nl e acc e' post rest : Str) (fuel : Nat),
    padOk ind = true → padOk add = true → padOk nl = true →
    Enc e acc → Enc e' post → closes rest → costs ks ≤ fuel →
    pNodes fuel (e ++ (renderKids ind add nl ks ++ (e' ++ rest))) =
      some (normTextKids (prepend acc (K ind add nl (normAttrsKids ks) post)), rest)
  | [], _, ind, add, nl, e, acc, e', post, rest, fuel, _, _, _, he, he', hcl, hf => by
    obtain ⟨f, rfl⟩ : ∃ f, fuel = f + 1 := ⟨fuel - 1, by simp [costs] at hf; omega⟩
    obtain ⟨g, rfl⟩ : ∃ g, f = g + 1 := ⟨f - 1, by simp [costs] at hf; omega⟩
    have := pNodes_text_then (g + 1) (e ++ e') (acc ++ post) rest [] rest (he.append he')
      (closes_startsLt hcl) (pNodes_closes g hcl) (pNodes_closes (g + 1) hcl)
    simp only [renderKids, normAttrsKids, List.nil_append, K_nil, ← prepend_nil_list, prepend_prepend]
    have h0 := normTextKids_textIf (acc ++ post) []
    simp only [List.append_nil] at h0
    rw [prepend_nil_list, h0]
    simpa [List.append_assoc, normTextKids] using this
  | .text b s :: ks, hwf, ind, add, nl, e, acc, e', post, rest, fuel, hi, had, hnl, he, he', hcl, hf => by
    simp only [WFKidsLax, Node.WFLax, Bool.and_eq_true] at hwf
    have hok : (ind ++ (s ++ nl)).all isXmlChar = true := by
      simp [List.all_append, padOk_xml hi, padOk_xml hnl, hwf.1]
    have henc : Enc (render ind add nl (.text b s)) (ind ++ (s ++ nl)) := by
      simp only [render, List.append_assoc]
      split
      · exact Enc.escAttr hok
      · exact Enc.escText hok
    have := rt_kids ks hwf.2 ind add nl (e ++ render ind add nl (.text b s)) (acc ++ (ind ++ (s ++ nl)))
      e' post rest fuel hi had hnl (he.append henc) he' hcl (by simpa [costs, cost] using hf)
    simp only [normAttrsKids, normAttrs]
    rw [K_text, prepend_prepend]
    simpa [renderKids, List.append_assoc] using this
  | .elem t a ks' :: ks, hwf, ind, add, nl, e, acc, e', post, rest, fuel, hi, had, hnl, he, he', hcl, hf => by
    simp only [WFKidsLax, Bool.and_eq_true] at hwf
    obtain ⟨ht, _, _, _⟩ := WFLax_elem hwf.1
    have hc3 := cost_elem_ge t a ks'
    have hc2 := costs_ge ks
    simp only [costs] at hf
    obtain ⟨f, rfl⟩ : ∃ f, fuel = f + 1 := ⟨fuel - 1, by omega⟩
    obtain ⟨g, rfl⟩ : ∃ g, f = g + 1 := ⟨f - 1, by omega⟩
    let X' := nl ++ (renderKids ind add nl ks ++ (e' ++ rest))
    let X := core ind add nl (.elem t a ks') ++ X'
    let E := normNode (layout ind add nl (.elem t (normAttrList a) (normAttrsKids ks')))
    let L := prepend nl (K ind add nl (normAttrsKids ks) post)
    have hX : ∀ g', cost (.elem t a ks') ≤ g' + 2 → costs ks ≤ g' →
        pNodes (g' + 1) X = some (normText E :: normTextKids L, rest) := by
      intro g' hg1 hg2
      have hn := rt_elem (.elem t a ks') hwf.1 rfl ind add nl X' g' hi had hnl hg1
      have hr := rt_kids ks hwf.2 ind add nl nl nl e' post rest g' hi had hnl (Enc.pad hnl) he' hcl hg2
      obtain ⟨c, r, hcr, hc⟩ := core_head ind add nl t a ks' X' ht
      simp only [X, normAttrs] at hn ⊢
      rw [hcr] at hn ⊢
      exact pNodes_cons g' '<' (c :: r) X' rest (normText E) (normTextKids L)
        (by intro r'' h; simp at h; exact hc h.1) hn hr
    have hlt : startsLt X := by
      obtain ⟨c, r, hcr, _⟩ := core_head ind add nl t a ks' X' ht
      simp only [X]; rw [hcr]; simp [startsLt]
    have := pNodes_text_then (g + 1) (e ++ ind) (acc ++ ind) X (normText E :: normTextKids L) rest
      (he.append (Enc.pad hi)) hlt
      (hX g (by omega) (by omega)) (hX (g + 1) (by omega) (by omega))
    have hE : isElem E = true := isElem_norm_layout ind add nl t (normAttrList a) (normAttrsKids ks')
    simp only [normAttrsKids, normAttrs]
    rw [K_elem, ← prepend_isElem _ _ _ hE, prepend_prepend, prepend_isElem _ _ _ hE, normTextKids_textIf]
    simp only [renderKids, render_elem, normTextKids]
    simpa [X, X', E, L, List.append_assoc] using this
end

/-! ## `normNode` is idempotent -/

theorem merge_norm_prepend (s : Str) (L : List Node) :
    mergeText (normKids (prepend s L)) = prepend s (mergeText (normKids L)) := by
  cases s with
  | nil => simp [prepend]
  | cons c s =>
    cases L with
    | nil => simp [prepend, normKids, normNode_text, mergeText_text, mergeText]
    | cons n r =>
      cases n with
      | text b x =>
        have h1 : prepend (c :: s) (.text b x :: r) = .text false (c :: s ++ x) :: r := rfl
        rw [h1]; simp only [normKids, normNode_text, mergeText_text, prepend_prepend]
      | elem t a ks =>
        have h1 : prepend (c :: s) (.elem t a ks :: r) = .text false (c :: s) :: .elem t a ks :: r := rfl
        rw [h1]; simp only [normKids, normNode_text, mergeText_text]

mutual
theorem normNode_idem : ∀ (n : Node), normNode (normNode n) = normNode n
  | .text _ _ => by simp [normNode]
  | .elem t a ks => by simp [normNode_elem, normKids_merge_idem ks]
theorem normKids_merge_idem : ∀ (ks : List Node),
    mergeText (normKids (mergeText (normKids ks))) = mergeText (normKids ks)
  | [] => by simp [normKids, mergeText]
  | .text b s :: ks => by
    simp only [normKids, normNode_text, mergeText_text, merge_norm_prepend, normKids_merge_idem ks]
  | .elem t a ks' :: ks => by
    simp only [normKids, normNode_elem, mergeText_elem, normKids_merge_idem ks', normKids_merge_idem ks]
end

/-! ## compact layout = boundary spaces -/

theorem merge_norm_textIf (s : Str) (L : List Node) :
    mergeText (normKids (textIfNonempty s ++ L)) = prepend s (mergeText (normKids L)) := by
  cases s with
  | nil => simp [textIfNonempty, prepend]
  | cons c s => simp [textIfNonempty, normKids, normNode_text, mergeText_text]

theorem withSpaces_elem (t : Str) (a : List (Str × Str)) (ks : List Node) :
    ∃ ks', withSpaces (.elem t a ks) = .elem t a ks' := by
  simp only [withSpaces]; split <;> simp

mutual
theorem norm_layout_compact : ∀ (n : Node), normNode (layout [] [] [] n) = normNode (withSpaces n)
  | .text _ _ => by simp [layout, withSpaces]
  | .elem t a [] => by simp [layout, withSpaces, withSpacesKids]
  | .elem t a (k :: ks) => by
    rw [normNode_layout_cons]
    have h := K_compact (k :: ks)
    simp only [withSpaces]
    split
    · simp only [normNode_elem, List.append_assoc, merge_norm_textIf, h]
    · simp only [normNode_elem, List.append_nil, prepend_nil, h, textIfNonempty]
      simp
theorem K_compact : ∀ (ks : List Node) (post : Str),
    K [] [] [] ks post = mergeText (normKids (withSpacesKids ks ++ textIfNonempty post))
  | [], post => by
    have := merge_norm_textIf post []
    simp only [List.append_nil] at this
    simp [K_nil, withSpacesKids, this, normKids, mergeText, prepend_nil_list]
  | .text b s :: ks, post => by
    simp [K_text, K_compact ks post, withSpacesKids, withSpaces, normKids, normNode_text, mergeText_text]
  | .elem t a ks' :: ks, post => by
    obtain ⟨ks'', h⟩ := withSpaces_elem t a ks'
    rw [K_elem, norm_layout_compact (.elem t a ks'), K_compact ks post]
    simp [withSpacesKids, normKids, h, normNode_elem, mergeText_elem, textIfNonempty, prepend_nil]
end

/-! ## the document level -/

theorem xmlDecl_eq : xmlDecl =
    ['<','?','x','m','l',' ','v','e','r','s','i','o','n','=','"','1','.','0','"','?','>'] := by
  decide

theorem skipDecl_xmlDecl (Y : Str) : skipDecl (xmlDecl ++ Y) = some Y := by
  rw [xmlDecl_eq]
  simp [skipDecl, skipPI, isWs, isXmlChar]

theorem skipWs_pad (p : Str) (c : Char) (r : Str) (hp : padOk p = true) (hc : isWs c = false) :
    skipWs (p ++ c :: r) = c :: r := by
  induction p with
  | nil => simp [skipWs, hc]
  | cons d p ih =>
    simp only [padOk, List.all_cons, Bool.and_eq_true] at hp
    simp [skipWs, hp.1.1, ih (by simpa [padOk] using hp.2)]

theorem skipWs_pad_nil (p : Str) (hp : padOk p = true) : skipWs p = [] := by
  induction p with
  | nil => simp [skipWs]
  | cons d p ih =>
    simp only [padOk, List.all_cons, Bool.and_eq_true] at hp
    simp [skipWs, hp.1.1, ih (by simpa [padOk] using hp.2)]

theorem skipMisc_pad_elem (f : Nat) (p : Str) (c : Char) (r : Str) (hp : padOk p = true)
    (h1 : c ≠ '!') (h2 : c ≠ '?') :
    skipMisc (f + 1) (p ++ '<' :: c :: r) = some ('<' :: c :: r) := by
  have hlt : isWs '<' = false := by decide
  rw [skipMisc.eq_def]
  simp only [skipWs_pad p '<' (c :: r) hp hlt]
  split
  · rename_i heq; simp at heq; exact absurd heq.1 h1
  · rename_i heq; simp at heq; exact absurd heq.1 h2
  · rfl

theorem skipMisc_pad_nil (f : Nat) (p : Str) (hp : padOk p = true) : skipMisc (f + 1) p = some [] := by
  rw [skipMisc.eq_def]
  simp only [skipWs_pad_nil p hp]

/-! ### normal forms: what `normNode` produces is a fixed point of `normNode`, also after `normText` -/

def headIsText : List Node → Bool
  | k :: _ => isText k
  | [] => false

mutual
/-- no empty text, no stock text, no adjacent text nodes (the shape of a parsed document) -/
def isNormNode : Node → Bool
  | .text b s => !b && !s.isEmpty
  | .elem _ _ ks => isNormKids ks
def isNormKids : List Node → Bool
  | [] => true
  | k :: ks => isNormNode k && isNormKids ks && !(isText k && headIsText ks)
end

theorem prepend_of_headNotText (c : Char) (s : Str) (L : List Node) (h : headIsText L = false) :
    prepend (c :: s) L = .text false (c :: s) :: L := by
  cases L with
  | nil => rfl
  | cons n r => cases n <;> simp_all [headIsText, isText, prepend]

mutual
theorem normNode_of_isNorm : ∀ (n : Node), isNormNode n = true → normNode n = n
  | .text b s, h => by
    simp only [isNormNode, Bool.and_eq_true, Bool.not_eq_true'] at h
    rw [normNode_text, h.1]
  | .elem t a ks, h => by
    simp only [isNormNode] at h
    rw [normNode_elem, mergeNorm_of_isNorm ks h]
theorem mergeNorm_of_isNorm : ∀ (ks : List Node), isNormKids ks = true → mergeText (normKids ks) = ks
  | [], _ => by simp [normKids, mergeText]
  | .text b s :: ks, h => by
    simp only [isNormKids, isNormNode, Bool.and_eq_true, Bool.not_eq_true', isText, Bool.true_and] at h
    obtain ⟨⟨⟨hb, hs⟩, hks⟩, hh⟩ := h
    cases s with
    | nil => simp at hs
    | cons c s =>
      simp only [normKids, normNode_text, mergeText_text, mergeNorm_of_isNorm ks hks]
      rw [prepend_of_headNotText c s ks hh, hb]
  | .elem t a ks' :: ks, h => by
    simp only [isNormKids, isNormNode, Bool.and_eq_true] at h
    simp only [normKids, normNode_elem, mergeText_elem, mergeNorm_of_isNorm ks' h.1.1,
      mergeNorm_of_isNorm ks h.1.2]
end

theorem isNorm_prepend (s : Str) (M : List Node) (h : isNormKids M = true) :
    isNormKids (prepend s M) = true := by
  cases s with
  | nil => exact h
  | cons c s =>
    cases M with
    | nil => simp [prepend, isNormKids, isNormNode, headIsText]
    | cons n r =>
      cases n with
      | text b x =>
        simp only [isNormKids, isNormNode, isText, Bool.true_and, Bool.and_eq_true] at h
        simp [prepend, isNormKids, isNormNode, isText, h.1.2, h.2]
      | elem t a ks =>
        simp only [isNormKids, isNormNode, Bool.and_eq_true] at h
        simp [prepend, isNormKids, isNormNode, isText, headIsText, h.1.1, h.1.2]

mutual
theorem isNorm_normNode : ∀ (n : Node), isElem n = true → isNormNode (normNode n) = true
  | .text _ _, h => by simp [isElem] at h
  | .elem t a ks, _ => by
    rw [normNode_elem]; simp only [isNormNode]; exact isNorm_mergeNorm ks
theorem isNorm_mergeNorm : ∀ (ks : List Node), isNormKids (mergeText (normKids ks)) = true
  | [] => by simp [normKids, mergeText, isNormKids]
  | .text b s :: ks => by
    simp only [normKids, normNode_text, mergeText_text]
    exact isNorm_prepend s _ (isNorm_mergeNorm ks)
  | .elem t a ks' :: ks => by
    have h1 := isNorm_normNode (.elem t a ks') rfl
    rw [normNode_elem] at h1
    simp only [normKids, normNode_elem, mergeText_elem, isNormKids, h1, isNorm_mergeNorm ks, isText]
    simp
end

theorem isText_normText (k : Node) : isText (normText k) = isText k := by
  cases k <;> simp [normText, isText]

theorem headIsText_normTextKids (ks : List Node) : headIsText (normTextKids ks) = headIsText ks := by
  cases ks <;> simp [normTextKids, headIsText, isText_normText]

theorem normEol_isEmpty (s : Str) : (normEol s).isEmpty = s.isEmpty := by
  cases s with
  | nil => simp [normEol]
  | cons c s =>
    cases h : normEol (c :: s) with
    | nil => exact absurd h (normEol_ne_nil c s)
    | cons _ _ => rfl

mutual
theorem isNorm_normText : ∀ (n : Node), isNormNode n = true → isNormNode (normText n) = true
  | .text b s, h => by simpa [normText, isNormNode, normEol_isEmpty] using h
  | .elem t a ks, h => by
    simp only [isNormNode, normText] at h ⊢
    exact isNorm_normTextKids ks h
theorem isNorm_normTextKids : ∀ (ks : List Node), isNormKids ks = true → isNormKids (normTextKids ks) = true
  | [], _ => by simp [normTextKids, isNormKids]
  | k :: ks, h => by
    simp only [isNormKids, Bool.and_eq_true] at h
    simp only [normTextKids, isNormKids, isText_normText, headIsText_normTextKids, Bool.and_eq_true]
    exact ⟨⟨isNorm_normText k h.1.1, isNorm_normTextKids ks h.1.2⟩, h.2⟩
end

/-- the document-level round trip, for any white-space layout parameters -/
theorem parseDoc_render (n : Node) (hwf : n.WFLax = true) (he : isElem n = true) (pre add nl : Str)
    (hpre : padOk pre = true) (hadd : padOk add = true) (hnl : padOk nl = true) :
    parseDoc (xmlDecl ++ (pre ++ render [] add nl n)) =
      some (normText (normNode (layout [] add nl (normAttrs n)))) := by
  cases n with
  | text _ _ => simp [isElem] at he
  | elem t a ks =>
    obtain ⟨ht, _, _, _⟩ := WFLax_elem hwf
    obtain ⟨c, cs, rfl, hc, _⟩ := isName_cons ht
    have hb : c ≠ '!' := by rintro rfl; revert hc; decide
    have hq : c ≠ '?' := by rintro rfl; revert hc; decide
    obtain ⟨c', r, hcr, _⟩ := core_head [] add nl (c :: cs) a ks nl ht
    have hc' : c' = c := by cases ks <;> (simp [core] at hcr; exact hcr.1.symm)
    subst hc'
    have hna : normAttrs (.elem (c' :: cs) a ks) = .elem (c' :: cs) (normAttrList a) (normAttrsKids ks) := by
      simp only [normAttrs]
    obtain ⟨ks', hl⟩ := layout_elem [] add nl (c' :: cs) (normAttrList a) (normAttrsKids ks)
    have hcost := cost_le_length [] add nl (.elem (c' :: cs) a ks)
    rw [render_elem] at hcost
    have hp := rt_elem (.elem (c' :: cs) a ks) hwf rfl [] add nl nl
      ((xmlDecl ++ (pre ++ render [] add nl (.elem (c' :: cs) a ks))).length + 2) padOk_nil hadd hnl
      (by rw [render_elem]; simp only [List.length_append, List.nil_append] at hcost ⊢; omega)
    rw [hna, hl, normNode_elem] at hp
    simp only [normText] at hp
    have hfix : normNode (.elem (c' :: cs) (normAttrList a) (normTextKids (mergeText (normKids ks')))) =
        .elem (c' :: cs) (normAttrList a) (normTextKids (mergeText (normKids ks'))) :=
      normNode_of_isNorm _ (by
        simp only [isNormNode]
        exact isNorm_normTextKids _ (isNorm_mergeNorm ks'))
    rw [hna, hl, normNode_elem]
    simp only [normText]
    refine Eq.trans ?_ (congrArg some hfix)
    unfold parseDoc
    simp only [skipDecl_xmlDecl]
    rw [render_elem, List.nil_append, hcr] at hp ⊢
    rw [skipMisc_pad_elem _ pre c' r hpre hb hq]
    simp only [hp, skipMisc_pad_nil _ nl hnl]
    split
    · rename_i heq; simp at heq; exact absurd heq.1 hb
    · rfl

/-! ## `stripWs` -/

theorem isText_stripWs (k : Node) : isText (stripWs k) = isText k := by
  cases k with
  | text b s => simp [stripWs]
  | elem t a ks => simp only [stripWs]; split <;> rfl

theorem stripWsKids_filter (L : List Node) :
    (stripWsKids L).filter (fun k => !isText k) = stripWsKids (L.filter fun k => !isText k) := by
  induction L with
  | nil => simp [stripWsKids]
  | cons k L ih =>
    simp only [stripWsKids, List.filter_cons, isText_stripWs]
    split <;> simp [stripWsKids, ih]

theorem filter_prepend (w : Str) (L : List Node) :
    (prepend w L).filter (fun k => !isText k) = L.filter fun k => !isText k := by
  cases w with
  | nil => rfl
  | cons c w =>
    cases L with
    | nil => simp [prepend, isText]
    | cons n r => cases n <;> simp [prepend, isText]

theorem filter_textIf (w : Str) : (textIfNonempty w).filter (fun k => !isText k) = [] := by
  cases w <;> simp [textIfNonempty, isText]

theorem isText_norm_layout (ind add nl t : Str) (a : List (Str × Str)) (ks : List Node) :
    isText (normNode (layout ind add nl (.elem t a ks))) = false := by
  obtain ⟨ks', h⟩ := layout_elem ind add nl t a ks
  simp [h, normNode_elem, isText]

theorem filter_K (ind add nl : Str) (ks : List Node) (post : Str) :
    (K ind add nl ks post).filter (fun k => !isText k) =
      (ks.filter fun k => !isText k).map fun k => normNode (layout ind add nl k) := by
  induction ks with
  | nil => simp [K_nil, filter_textIf]
  | cons k ks ih =>
    cases k with
    | text b s =>
      have h : isText (Node.text b s) = true := rfl
      simp [K_text, filter_prepend, ih, h]
    | elem t a ks' =>
      have h : isText (Node.elem t a ks') = false := rfl
      simp [K_elem, filter_prepend, ih, h, filter_textIf, isText_norm_layout]

/-- every text node in the list is white space only -/
def TextsWs (L : List Node) : Prop := ∀ b s, Node.text b s ∈ L → isWsOnly s = true

theorem isWsOnly_pad {s : Str} (h : padOk s = true) : isWsOnly s = true := by
  simp only [padOk, isWsOnly, List.all_eq_true, Bool.and_eq_true] at h ⊢
  exact fun c hc => (h c hc).1

theorem TextsWs_textIf {s : Str} {L : List Node} (hs : isWsOnly s = true) (hL : TextsWs L) :
    TextsWs (textIfNonempty s ++ L) := by
  intro b x hx
  cases s with
  | nil => exact hL b x (by simpa [textIfNonempty] using hx)
  | cons c s =>
    simp [textIfNonempty] at hx
    rcases hx with ⟨_, rfl⟩ | hx
    · exact hs
    · exact hL b x hx

theorem TextsWs_prepend {w : Str} {L : List Node} (hw : isWsOnly w = true) (hL : TextsWs L) :
    TextsWs (prepend w L) := by
  cases w with
  | nil => exact hL
  | cons c w =>
    cases L with
    | nil =>
      intro b x hx
      simp [prepend] at hx
      rw [hx.2]; exact hw
    | cons n r =>
      cases n with
      | text b' y =>
        intro b x hx
        simp [prepend] at hx
        rcases hx with ⟨_, rfl⟩ | hx
        · have := hL b' y (by simp)
          simp only [isWsOnly, List.all_cons, List.all_append, Bool.and_eq_true] at hw this ⊢
          exact ⟨hw.1, hw.2, this⟩
        · exact hL b x (by simp [hx])
      | elem t a ks =>
        intro b x hx
        simp [prepend] at hx
        rcases hx with ⟨_, rfl⟩ | hx
        · exact hw
        · exact hL b x (by simp [hx])

theorem TextsWs_K (ind add nl : Str) (ks : List Node) (post : Str) (hks : ks.any isText = false)
    (hi : padOk ind = true) (hnl : padOk nl = true) (hp : padOk post = true) :
    TextsWs (K ind add nl ks post) := by
  induction ks with
  | nil =>
    rw [K_nil]
    have := TextsWs_textIf (L := []) (isWsOnly_pad hp) (by intro b s h; simp at h)
    simpa using this
  | cons k ks ih =>
    simp only [List.any_cons, Bool.or_eq_false_iff] at hks
    cases k with
    | text b s => simp [isText] at hks
    | elem t a ks' =>
      rw [K_elem]
      apply TextsWs_textIf (isWsOnly_pad hi)
      intro b x hx
      simp only [List.mem_cons] at hx
      rcases hx with hx | hx
      · have := isText_norm_layout ind add nl t a ks'
        rw [← hx] at this; simp [isText] at this
      · exact TextsWs_prepend (isWsOnly_pad hnl) (ih hks.2) b x hx

theorem any_of_filter_cons {p : Node → Bool} {L : List Node} {x : Node} {r : List Node}
    (h : L.filter p = x :: r) : L.any p = true := by
  have hx : x ∈ L.filter p := by rw [h]; simp
  rw [List.mem_filter] at hx
  exact List.any_eq_true.mpr ⟨x, hx.1, hx.2⟩

theorem stripWs_block (t : Str) (a : List (Str × Str)) (L : List Node)
    (h1 : L.any (fun k => !isText k) = true) (h2 : TextsWs L) :
    stripWs (.elem t a L) = .elem t a (stripWsKids (L.filter fun k => !isText k)) := by
  simp only [stripWs, h1, Bool.true_and]
  split
  · rw [stripWsKids_filter]
  · rename_i h
    exfalso; apply h
    simp only [Bool.not_eq_eq_eq_not, Bool.not_true, List.any_eq_false]
    intro k hk
    cases k with
    | text b s => simp [h2 b s hk]
    | elem _ _ _ => simp

theorem filter_nonText_self {ks : List Node} (h : ks.any isText = false) :
    ks.filter (fun k => !isText k) = ks := by
  rw [List.filter_eq_self]
  intro k hk
  rw [List.any_eq_false] at h
  simpa using h k hk

theorem stripWs_block_layout (ind' ind add nl t : Str) (a : List (Str × Str)) (k : Node) (ks : List Node)
    (h : (k :: ks).any isText = false)
    (hi' : padOk ind' = true) (hi : padOk ind = true) (hnl : padOk nl = true) :
    stripWs (.elem t a (prepend nl (K ind' add nl (k :: ks) ind))) =
      .elem t a (stripWsKids ((k :: ks).map fun k => normNode (layout ind' add nl k))) := by
  have hf : (prepend nl (K ind' add nl (k :: ks) ind)).filter (fun k => !isText k) =
      (k :: ks).map fun k => normNode (layout ind' add nl k) := by
    rw [filter_prepend, filter_K, filter_nonText_self h]
  rw [stripWs_block t a _ (any_of_filter_cons (by rw [hf]; rfl))
    (TextsWs_prepend (isWsOnly_pad hnl) (TextsWs_K ind' add nl (k :: ks) ind h hi' hnl hi)), hf]

mutual
theorem strip_layout : ∀ (n : Node) (ind add nl : Str), padOk ind = true → padOk add = true →
    padOk nl = true →
    stripWs (normNode (layout ind add nl n)) = stripWs (normNode (layout [] [] [] n))
  | .text _ _, _, _, _, _, _, _ => by simp [layout]
  | .elem t a [], _, _, _, _, _, _ => by simp [layout]
  | .elem t a (k :: ks), ind, add, nl, hi, ha, hnl => by
    rw [normNode_layout_cons, normNode_layout_cons]
    cases h : (k :: ks).any isText with
    | true => simp
    | false =>
      simp only [Bool.false_eq_true, if_false]
      rw [stripWs_block_layout (ind ++ add) ind add nl t a k ks h (padOk_append hi ha) hi hnl,
        stripWs_block_layout ([] ++ []) [] [] [] t a k ks h padOk_nil padOk_nil padOk_nil,
        strip_layout_kids (k :: ks) (ind ++ add) add nl (padOk_append hi ha) ha hnl]
      rfl
theorem strip_layout_kids : ∀ (ks : List Node) (ind add nl : Str), padOk ind = true → padOk add = true →
    padOk nl = true →
    stripWsKids (ks.map fun k => normNode (layout ind add nl k)) =
      stripWsKids (ks.map fun k => normNode (layout [] [] [] k))
  | [], _, _, _, _, _, _ => rfl
  | k :: ks, ind, add, nl, hi, ha, hnl => by
    simp only [List.map_cons, stripWsKids, strip_layout k ind add nl hi ha hnl,
      strip_layout_kids ks ind add nl hi ha hnl]
end

/-! ## `prefixesBound` only looks at tags and attributes -/

theorem pb_text (sc : List Str) (b : Bool) (s : Str) : prefixesBound sc (.text b s) = true := by
  simp [prefixesBound]

theorem pb_prepend (sc : List Str) (a : Str) (L : List Node) :
    prefixesBoundKids sc (prepend a L) = prefixesBoundKids sc L := by
  cases a with
  | nil => rfl
  | cons c a =>
    cases L with
    | nil => simp [prepend, prefixesBoundKids, pb_text]
    | cons n r => cases n <;> simp [prepend, prefixesBoundKids, pb_text]

theorem pb_mergeText (sc : List Str) (L : List Node) :
    prefixesBoundKids sc (mergeText L) = prefixesBoundKids sc L := by
  induction L with
  | nil => simp [mergeText]
  | cons n r ih =>
    cases n with
    | text b s => simp [mergeText_text, pb_prepend, ih, prefixesBoundKids, pb_text]
    | elem t a ks => simp [mergeText_elem, prefixesBoundKids, ih]

theorem pb_append (sc : List Str) (L1 L2 : List Node) :
    prefixesBoundKids sc (L1 ++ L2) = (prefixesBoundKids sc L1 && prefixesBoundKids sc L2) := by
  induction L1 with
  | nil => simp [prefixesBoundKids]
  | cons n r ih => simp [prefixesBoundKids, ih, Bool.and_assoc]

theorem pb_elem (sc : List Str) (t : Str) (a : List (Str × Str)) (ks ks' : List Node)
    (h : ∀ sc', prefixesBoundKids sc' ks' = prefixesBoundKids sc' ks) :
    prefixesBound sc (.elem t a ks') = prefixesBound sc (.elem t a ks) := by
  simp only [prefixesBound, h]

mutual
theorem pb_normNode : ∀ (n : Node) (sc : List Str), prefixesBound sc (normNode n) = prefixesBound sc n
  | .text _ _, sc => by simp [normNode_text, pb_text]
  | .elem t a ks, sc => by
    rw [normNode_elem]
    exact pb_elem sc t a ks _ fun sc' => by rw [pb_mergeText, pb_normKids ks sc']
theorem pb_normKids : ∀ (ks : List Node) (sc : List Str),
    prefixesBoundKids sc (normKids ks) = prefixesBoundKids sc ks
  | [], _ => by simp [normKids]
  | k :: ks, sc => by simp [normKids, prefixesBoundKids, pb_normNode k sc, pb_normKids ks sc]
end

mutual
theorem pb_layout : ∀ (n : Node) (ind add nl : Str) (sc : List Str),
    prefixesBound sc (layout ind add nl n) = prefixesBound sc n
  | .text _ _, _, _, _, sc => by simp [layout]
  | .elem t a [], _, _, _, sc => by simp [layout]
  | .elem t a (k :: ks), ind, add, nl, sc => by
    simp only [layout]
    apply pb_elem
    intro sc'
    split <;> simp [prefixesBoundKids, pb_append, pb_text, pb_layoutKids (k :: ks)]
theorem pb_layoutKids : ∀ (ks : List Node) (ind add nl : Str) (sc : List Str),
    prefixesBoundKids sc (layoutKids ind add nl ks) = prefixesBoundKids sc ks
  | [], _, _, _, _ => by simp [layoutKids]
  | k :: ks, ind, add, nl, sc => by
    simp [layoutKids, prefixesBoundKids, pb_text, pb_layout k ind add nl sc, pb_layoutKids ks ind add nl sc]
end

theorem declaredPrefixes_normAttrList (a : List (Str × Str)) :
    declaredPrefixes (normAttrList a) = declaredPrefixes a := by
  simp [declaredPrefixes, normAttrList, List.filterMap_map, Function.comp_def]

mutual
theorem pb_normAttrs : ∀ (n : Node) (sc : List Str), prefixesBound sc (normAttrs n) = prefixesBound sc n
  | .text _ _, sc => by simp [normAttrs]
  | .elem t a ks, sc => by
    simp only [normAttrs, prefixesBound, declaredPrefixes_normAttrList, pb_normAttrsKids ks]
    simp [normAttrList, List.all_map, Function.comp_def]
theorem pb_normAttrsKids : ∀ (ks : List Node) (sc : List Str),
    prefixesBoundKids sc (normAttrsKids ks) = prefixesBoundKids sc ks
  | [], _ => by simp [normAttrsKids]
  | k :: ks, sc => by simp [normAttrsKids, prefixesBoundKids, pb_normAttrs k sc, pb_normAttrsKids ks sc]
end

/-! ## trees without CR are not changed by `normText` -/

theorem noCR_text (b : Bool) (s : Str) : noCR (.text b s) = s.all (fun c => c != '\r') := by
  simp [noCR]

theorem padOk_allNoCR {s : Str} (h : padOk s = true) : s.all (fun c => c != '\r') = true := by
  simp only [List.all_eq_true, bne_iff_ne]
  exact padOk_noCR h

theorem noCRKids_prepend (a : Str) (L : List Node) (ha : a.all (fun c => c != '\r') = true)
    (hL : noCRKids L = true) : noCRKids (prepend a L) = true := by
  cases a with
  | nil => exact hL
  | cons c a =>
    cases L with
    | nil => simpa [prepend, noCRKids, noCR] using ha
    | cons n r =>
      cases n with
      | text b x =>
        simp only [noCRKids, noCR, Bool.and_eq_true] at hL
        simp only [List.all_cons, Bool.and_eq_true] at ha
        simp [prepend, noCRKids, noCR, List.all_append, ha.1, ha.2, hL.1, hL.2]
      | elem t a' ks =>
        simp only [noCRKids, noCR, Bool.and_eq_true] at hL
        simp only [List.all_cons, Bool.and_eq_true] at ha
        simp [prepend, noCRKids, noCR, ha.1, ha.2, hL.1, hL.2]

theorem noCRKids_mergeText (L : List Node) (hL : noCRKids L = true) : noCRKids (mergeText L) = true := by
  induction L with
  | nil => simpa [mergeText] using hL
  | cons n r ih =>
    simp only [noCRKids, Bool.and_eq_true] at hL
    cases n with
    | text b s =>
      rw [mergeText_text]
      exact noCRKids_prepend s _ (by simpa [noCR] using hL.1) (ih hL.2)
    | elem t a ks =>
      rw [mergeText_elem]
      simp [noCRKids, hL.1, ih hL.2]

theorem noCRKids_append (L1 L2 : List Node) :
    noCRKids (L1 ++ L2) = (noCRKids L1 && noCRKids L2) := by
  induction L1 with
  | nil => simp [noCRKids]
  | cons n r ih => simp [noCRKids, ih, Bool.and_assoc]

mutual
theorem noCR_normNode : ∀ (n : Node), noCR n = true → noCR (normNode n) = true
  | .text b s, h => by simpa [normNode_text, noCR] using h
  | .elem t a ks, h => by
    simp only [noCR] at h
    rw [normNode_elem]; simp only [noCR]
    exact noCRKids_mergeText _ (noCRKids_normKids ks h)
theorem noCRKids_normKids : ∀ (ks : List Node), noCRKids ks = true → noCRKids (normKids ks) = true
  | [], _ => by simp [normKids, noCRKids]
  | k :: ks, h => by
    simp only [noCRKids, Bool.and_eq_true] at h
    simp [normKids, noCRKids, noCR_normNode k h.1, noCRKids_normKids ks h.2]
end

mutual
theorem noCR_layout : ∀ (n : Node) (ind add nl : Str), padOk ind = true → padOk add = true →
    padOk nl = true → noCR n = true → noCR (layout ind add nl n) = true
  | .text _ _, _, _, _, _, _, _, h => by simpa [layout] using h
  | .elem t a [], _, _, _, _, _, _, _ => by simp [layout, noCR, noCRKids]
  | .elem t a (k :: ks), ind, add, nl, hi, ha, hnl, h => by
    simp only [noCR] at h
    simp only [layout, noCR]
    split
    · simp [noCRKids, noCRKids_append, noCR, padOk_allNoCR (padOk_leadSp (k :: ks)),
        padOk_allNoCR (padOk_trailSp (k :: ks)),
        noCRKids_layoutKids (k :: ks) [] [] [] padOk_nil padOk_nil padOk_nil h]
    · simp [noCRKids, noCRKids_append, noCR, padOk_allNoCR hnl, padOk_allNoCR hi,
        noCRKids_layoutKids (k :: ks) (ind ++ add) add nl (padOk_append hi ha) ha hnl h]
theorem noCRKids_layoutKids : ∀ (ks : List Node) (ind add nl : Str), padOk ind = true → padOk add = true →
    padOk nl = true → noCRKids ks = true → noCRKids (layoutKids ind add nl ks) = true
  | [], _, _, _, _, _, _, _ => by simp [layoutKids, noCRKids]
  | k :: ks, ind, add, nl, hi, ha, hnl, h => by
    simp only [noCRKids, Bool.and_eq_true] at h
    simp [layoutKids, noCRKids, noCR, padOk_allNoCR hi, padOk_allNoCR hnl,
      noCR_layout k ind add nl hi ha hnl h.1, noCRKids_layoutKids ks ind add nl hi ha hnl h.2]
end

mutual
theorem normText_of_noCR : ∀ (n : Node), noCR n = true → normText n = n
  | .text b s, h => by
    simp only [noCR, List.all_eq_true, bne_iff_ne] at h
    simp [normText, normEol_of_noCR s h]
  | .elem t a ks, h => by
    simp only [noCR] at h
    simp [normText, normTextKids_of_noCR ks h]
theorem normTextKids_of_noCR : ∀ (ks : List Node), noCRKids ks = true → normTextKids ks = ks
  | [], _ => rfl
  | k :: ks, h => by
    simp only [noCRKids, Bool.and_eq_true] at h
    simp [normTextKids, normText_of_noCR k h.1, normTextKids_of_noCR ks h.2]
end

mutual
theorem noCR_normAttrs : ∀ (n : Node), noCR (normAttrs n) = noCR n
  | .text _ _ => by simp [normAttrs]
  | .elem t a ks => by simp [normAttrs, noCR, noCRKids_normAttrsKids ks]
theorem noCRKids_normAttrsKids : ∀ (ks : List Node), noCRKids (normAttrsKids ks) = noCRKids ks
  | [] => by simp [normAttrsKids]
  | k :: ks => by simp [normAttrsKids, noCRKids, noCR_normAttrs k, noCRKids_normAttrsKids ks]
end

mutual
theorem noCR_of_WF : ∀ (n : Node), n.WF = true → noCR n = true
  | .text _ s, h => by
    simp only [Node.WF, List.all_eq_true, textCharOk, Bool.and_eq_true] at h
    simp only [noCR, List.all_eq_true]
    exact fun c hc => (h c hc).2
  | .elem t a ks, h => by
    simp only [Node.WF, Bool.and_eq_true] at h
    simp only [noCR]; exact noCRKids_of_WFKids ks h.2
theorem noCRKids_of_WFKids : ∀ (ks : List Node), WFKids ks = true → noCRKids ks = true
  | [], _ => rfl
  | k :: ks, h => by
    simp only [WFKids, Bool.and_eq_true] at h
    simp [noCRKids, noCR_of_WF k h.1, noCRKids_of_WFKids ks h.2]
end

/-- for a tree without CR in text, the line-end normalisation of the parsed document is vacuous -/
theorem normText_norm_layout (n : Node) (ind add nl : Str) (hi : padOk ind = true) (ha : padOk add = true)
    (hnl : padOk nl = true) (h : noCR n = true) :
    normText (normNode (layout ind add nl n)) = normNode (layout ind add nl n) :=
  normText_of_noCR _ (noCR_normNode _ (noCR_layout n ind add nl hi ha hnl h))


/-! ## `stripWs` commutes with `normText` -/

def realText : Node → Bool
  | .text _ s => !isWsOnly s
  | .elem _ _ _ => false

def stripCond (ks : List Node) : Bool := (ks.any fun k => !isText k) && !(ks.any realText)

theorem stripWs_elem (t : Str) (a : List (Str × Str)) (ks : List Node) :
    stripWs (.elem t a ks) =
      if stripCond ks then .elem t a ((stripWsKids ks).filter fun k => !isText k)
      else .elem t a (stripWsKids ks) := by
  have key : ∀ (F : Node → Bool), (∀ k, F k = realText k) →
      (if ((ks.any fun k => !isText k) && !ks.any F) = true then
          Node.elem t a ((stripWsKids ks).filter fun k => !isText k)
        else Node.elem t a (stripWsKids ks)) =
      if stripCond ks then .elem t a ((stripWsKids ks).filter fun k => !isText k)
      else .elem t a (stripWsKids ks) := by
    intro F hF
    have : F = realText := funext hF
    subst this
    rfl
  simp only [stripWs]
  exact key _ (fun k => by cases k <;> rfl)

theorem isWsOnly_normEol : ∀ (n : Nat) (s : Str), s.length ≤ n → isWsOnly (normEol s) = isWsOnly s := by
  intro n
  induction n with
  | zero => intro s h; have : s = [] := by cases s <;> simp_all
            subst this; rfl
  | succ n ih =>
    intro s hn
    cases s with
    | nil => rfl
    | cons c s =>
      simp only [List.length_cons] at hn
      by_cases hcrlf : c = '\r' ∧ ∃ s', s = '\n' :: s'
      · obtain ⟨rfl, s', rfl⟩ := hcrlf
        have h1 : isWs '\r' = true := by decide
        have h2 : isWs '\n' = true := by decide
        rw [normEol_cr_lf]
        simp only [isWsOnly, List.all_cons, h1, h2, Bool.true_and]
        exact ih s' (by simp at hn; omega)
      · rw [normEol_cons c s (fun h1 r' h2 => hcrlf ⟨h1, r', h2⟩)]
        have := ih s (by omega)
        simp only [isWsOnly] at this
        by_cases hc : c = '\r'
        · subst hc
          have h1 : isWs '\r' = true := by decide
          have h2 : isWs '\n' = true := by decide
          simp [isWsOnly, h1, h2, this]
        · simp [isWsOnly, hc, this]

theorem realText_normText (k : Node) : realText (normText k) = realText k := by
  cases k with
  | text b s => simp [normText, realText, isWsOnly_normEol s.length s (Nat.le_refl _)]
  | elem _ _ _ => simp [normText, realText]

theorem any_normTextKids (p : Node → Bool) (hp : ∀ k, p (normText k) = p k) (ks : List Node) :
    (normTextKids ks).any p = ks.any p := by
  induction ks with
  | nil => rfl
  | cons k ks ih => simp [normTextKids, hp, ih]

theorem stripCond_normTextKids (ks : List Node) : stripCond (normTextKids ks) = stripCond ks := by
  simp only [stripCond, any_normTextKids realText realText_normText,
    any_normTextKids (fun k => !isText k) (fun k => by simp [isText_normText])]

theorem filter_normTextKids (ks : List Node) :
    (normTextKids ks).filter (fun k => !isText k) = normTextKids (ks.filter fun k => !isText k) := by
  induction ks with
  | nil => rfl
  | cons k ks ih =>
    simp only [normTextKids, List.filter_cons, isText_normText]
    split <;> simp [normTextKids, ih]

mutual
theorem stripWs_normText : ∀ (n : Node), stripWs (normText n) = normText (stripWs n)
  | .text _ _ => by simp [normText, stripWs]
  | .elem t a ks => by
    simp only [normText, stripWs_elem, stripCond_normTextKids, stripWsKids_normTextKids ks]
    split <;> simp [normText, filter_normTextKids]
theorem stripWsKids_normTextKids : ∀ (ks : List Node),
    stripWsKids (normTextKids ks) = normTextKids (stripWsKids ks)
  | [] => rfl
  | k :: ks => by
    simp [normTextKids, stripWsKids, stripWs_normText k, stripWsKids_normTextKids ks]
end

mutual
theorem pb_normText : ∀ (n : Node) (sc : List Str), prefixesBound sc (normText n) = prefixesBound sc n
  | .text _ _, sc => by simp [normText, pb_text]
  | .elem t a ks, sc => by
    simp only [normText]
    exact pb_elem sc t a ks _ fun sc' => pb_normTextKids ks sc'
theorem pb_normTextKids : ∀ (ks : List Node) (sc : List Str),
    prefixesBoundKids sc (normTextKids ks) = prefixesBoundKids sc ks
  | [], _ => by simp [normTextKids]
  | k :: ks, sc => by simp [normTextKids, prefixesBoundKids, pb_normText k sc, pb_normTextKids ks sc]
end


end Pyxv.Xml
