import Pyxv.Proofs.LexerLemmas
import Pyxv.Proofs.DefaultsLemmas
/-!
# Property C10 — defaults and triggered calculations are applied exactly once

Theorems about the mechanism model `Pyxv.Defaults` (for ALL element trees, by induction over the
tree; `dyn` = the static/dynamic classification and `sub` = reference substitution are arbitrary
parameters, so nothing here depends on what the lexer answers) and about the lexer model
`Pyxv.Lexer` (for all strings and all rule tables).  Facts about the regenerated tables are
`decide +kernel` theorems: they are re-checked against the current source on every run.
-/
namespace Pyxv.C10
open Pyxv Pyxv.Defaults Pyxv.Lexer List

/-! ## tables of the current source -/

/-- names, ORDER and regex sources of `get_lexer_rules()` are the ones the 26 matchers of
    `Pyxv.Lexer.pinned` were written for -/
theorem lexer_rules_pinned : Pyxv.Gen.lexerRules = Lexer.pinnedSources := by decide +kernel

/-- the three string sets of `utils.default_is_dynamic` (hyphen data types, dynamic token names, and — d989f12 —
    the token names that keep a hyphenated date/geo default dynamic) -/
theorem dynamic_sets_pinned :
    Pyxv.Gen.defaultHyphenTypes = Lexer.pinnedHyphenTypes ∧
    Pyxv.Gen.defaultDynamicTokenNames = Lexer.pinnedDynNames ∧
    Pyxv.Gen.defaultHyphenOverrideNames = Lexer.pinnedOverrideNames := by
  decide +kernel

/-! ## lexer -/

/-- under the current tables the model's lexicon is the pinned one -/
theorem active_rules_idx : Lexer.resolveIdx Pyxv.Gen.lexerRules = some (List.range 26) := by decide +kernel

theorem active_rules_pinned : Lexer.activeRules = some Lexer.pinnedRules := by
  unfold Lexer.activeRules Lexer.resolve
  rw [active_rules_idx]
  rfl

/-- the classification the oracle uses (pinned lexicon and sets) is `default_is_dynamic` of the
    current source as modelled -/
theorem classification_is_pinned (dflt ty : Str) :
    Lexer.defaultIsDynamic dflt ty = some (Lexer.dynamicPinned dflt ty) := by
  unfold Lexer.defaultIsDynamic Lexer.dynamicWith Lexer.dynamicPinned
  rw [active_rules_pinned, dynamic_sets_pinned.1, dynamic_sets_pinned.2.1, dynamic_sets_pinned.2.2]
  rfl

/-- `re.Scanner.scan` loses nothing: token values followed by the remainder are the input, for every
    rule table and every input.  (This is what makes the F11 repair sound: positions can be derived
    from the lengths of the values.) -/
theorem scan_consumes_all (rules : Rules) (s : Str) :
    Lexer.values (scanWith rules s).1 ++ (scanWith rules s).2 = s :=
  scanAux_consumes rules (s.length + 1) s

/-- the positions `parse_expression` assigns (running sums of value lengths) are the true positions:
    each token's value is the slice `[start, stop)` of the text -/
theorem token_positions (rules : Rules) (s : Str) :
    ∀ t ∈ (parseWith rules s).1,
      t.stop = t.start + t.value.length ∧ (s.drop t.start).take t.value.length = t.value := by
  intro t ht
  have h := withPos_slices s (scanWith rules s).2 (scanWith rules s).1 [] (by simpa using scan_consumes_all rules s)
  exact h t (by simpa [parseWith] using ht)

/-- under the lexicon of the current source the scan never stops early: every one of the 26 rules
    consumes at least one character and at every position some rule matches (OTHER, or WHITESPACE for a
    newline), so the remainder returned by `parse_expression` is always empty -/
theorem scan_remainder_empty (s : Str) : ∃ toks, Lexer.scan s = some (toks, []) ∧ Lexer.values toks = s := by
  have hrem : (scanWith pinnedRules s).2 = [] := scanAux_rem_nil (s.length + 1) s (Nat.lt_succ_self _)
  refine ⟨(scanWith pinnedRules s).1, ?_, ?_⟩
  · simp only [Lexer.scan, active_rules_pinned, Option.map_some]
    rw [← hrem]
  · have := scan_consumes_all pinnedRules s
    rw [hrem, List.append_nil] at this
    exact this

/-- anything containing a function-call / operator / reference token is dynamic (questions whose DATA type
    is not one of the hyphen types; for those see `hyphen_type_exception`) -/
theorem dynamic_of_token (rules : Rules) (dflt ty : Str)
    (hty : Pyxv.Gen.defaultHyphenTypes.contains (String.ofList (Lexer.dataTypeOf ty)) = false) (hne : dflt ≠ [])
    (h : ∃ t ∈ (scanWith rules dflt).1, Pyxv.Gen.defaultDynamicTokenNames.contains t.1 = true) :
    dynamicWith rules dflt ty = true := by
  unfold dynamicWith
  have : dflt.isEmpty = false := by cases dflt <;> simp_all
  simp only [this, hty]
  exact dynLoop_true_of_mem _ _ _ h

/-- a default without any such token (and without a reference / call token) is static, for every element type -/
theorem static_of_no_token (rules : Rules) (dflt ty : Str)
    (h : ∀ t ∈ (scanWith rules dflt).1, Pyxv.Gen.defaultDynamicTokenNames.contains t.1 = false)
    (h2 : ∀ t ∈ (scanWith rules dflt).1, Pyxv.Gen.defaultHyphenOverrideNames.contains t.1 = false) :
    dynamicWith rules dflt ty = false := by
  unfold dynamicWith
  split
  · rfl
  · have hov : ((scanWith rules dflt).1.any fun t => Pyxv.Gen.defaultHyphenOverrideNames.contains t.1) = false := by
      rw [List.any_eq_false]
      intro t ht
      have := h2 t ht
      simpa using this
    simp only [hov]
    exact dynLoop_false_of_none _ _ _ h

/-- the date-type exception as repaired (d989f12): for a hyphen data type, a lone `-` operator token met before any
    dynamic token decides the classification — static, unless a `${reference}` or a function call occurs anywhere
    in the default (`override`) -/
theorem hyphen_type_exception (names : List String) (ov : Bool) (pre post : List (String × Str))
    (hpre : ∀ t ∈ pre, names.contains t.1 = false ∧ ¬ (t.1 = "OPS_MATH" ∧ t.2 = ['-'])) :
    dynLoop names true ov (pre ++ ("OPS_MATH", ['-']) :: post) = ov := by
  induction pre with
  | nil => simp [dynLoop]
  | cons t rest ih =>
    obtain ⟨n, v⟩ := t
    have h1 := hpre (n, v) (by simp)
    have ih' := ih (fun t ht => hpre t (by simp [ht]))
    simp only [List.cons_append, dynLoop, h1.1, Bool.true_and]
    by_cases hh : (n == "OPS_MATH" && v == ['-']) = true
    · simp only [Bool.and_eq_true, beq_iff_eq] at hh; exact absurd hh h1.2
    · simp [hh, ih']

/-- **a reference or a function call always makes the default dynamic** (d989f12), for EVERY question type —
    the hyphen data types included, whatever hyphens precede it: the `${reference}` is expanded, never left as
    literal text in the instance -/
theorem reference_or_call_dynamic (dflt ty : Str) (hne : dflt ≠ [])
    (h : ∃ t ∈ (scanWith pinnedRules dflt).1, Lexer.pinnedOverrideNames.contains t.1 = true) :
    Lexer.defaultIsDynamic dflt ty = some true := by
  rw [classification_is_pinned]
  unfold Lexer.dynamicPinned
  have he : dflt.isEmpty = false := by cases dflt <;> simp_all
  have hov : ((scanWith pinnedRules dflt).1.any fun t => Lexer.pinnedOverrideNames.contains t.1) = true := by
    rw [List.any_eq_true]
    obtain ⟨t, ht, hc⟩ := h
    exact ⟨t, ht, hc⟩
  have hdyn : ∃ t ∈ (scanWith pinnedRules dflt).1, Lexer.pinnedDynNames.contains t.1 = true := by
    obtain ⟨t, ht, hc⟩ := h
    refine ⟨t, ht, ?_⟩
    simp only [Lexer.pinnedOverrideNames, Lexer.pinnedDynNames, List.contains_cons, List.contains_nil,
      Bool.or_false, Bool.or_eq_true, beq_iff_eq] at hc ⊢
    rcases hc with hc | hc <;> simp [hc]
  simp only [he, Bool.false_eq_true, if_false, hov]
  exact congrArg some (dynLoop_true_of_override _ _ _ hdyn)

theorem static_single_token (n : String) (v ty : Str) (hv : v ≠ [])
    (hn : Lexer.pinnedDynNames.contains n = false) (hscan : scanWith pinnedRules v = ([(n, v)], [])) :
    Lexer.defaultIsDynamic v ty = some false := by
  rw [classification_is_pinned]
  unfold Lexer.dynamicPinned
  have : v.isEmpty = false := by cases v <;> simp_all
  have hov : Lexer.pinnedOverrideNames.contains n = false := by
    have hsub : ∀ x, Lexer.pinnedOverrideNames.contains x = true → Lexer.pinnedDynNames.contains x = true := by
      intro x hx
      simp only [Lexer.pinnedOverrideNames, Lexer.pinnedDynNames, List.contains_cons, List.contains_nil,
        Bool.or_false, Bool.or_eq_true, beq_iff_eq] at hx ⊢
      rcases hx with rfl | rfl <;> simp
    cases hc : Lexer.pinnedOverrideNames.contains n with
    | false => rfl
    | true => rw [hsub n hc] at hn; cases hn
  simp only [this, Bool.false_eq_true, if_false, hscan, List.any_cons, List.any_nil, Bool.or_false, hov]
  rw [dynLoop_false_of_none]
  intro t ht
  simp only [List.mem_singleton] at ht
  subst ht
  exact hn

/-- a plain number (non-empty string of ASCII digits) is a static default, for every element type -/
theorem static_plain_number (c : Char) (cs ty : Str) (h : Lexer.allDigits (c :: cs)) :
    Lexer.defaultIsDynamic (c :: cs) ty = some false :=
  static_single_token "NUMBER" (c :: cs) ty (by simp) (by decide) (Lexer.scan_number c cs h)

/-- a date literal `dddd-dd-dd` is a static default, for every element type -/
theorem static_date_literal (a b c d e f g h : Char) (ty : Str)
    (ha : isDigit a = true) (hb : isDigit b = true) (hc : isDigit c = true) (hd : isDigit d = true)
    (he : isDigit e = true) (hf : isDigit f = true) (hg : isDigit g = true) (hh : isDigit h = true) :
    Lexer.defaultIsDynamic [a, b, c, d, '-', e, f, '-', g, h] ty = some false :=
  static_single_token "DATE" _ ty (by simp) (by decide) (Lexer.scan_date a b c d e f g h ha hb hc hd he hf hg hh)

/-- a dateTime literal `dddd-dd-ddTdd:dd:dd` is a static default for EVERY element type name — in particular for the
    other spellings of the date / dateTime types (`datetime`, `date time`, `q date`, …): it is one DATETIME token, so
    the hyphen rule (which the code applies by type name, finding F47) never comes into play for well-formed literals -/
theorem static_datetime_literal (y1 y2 y3 y4 m1 m2 d1 d2 h1 h2 n1 n2 s1 s2 : Char) (ty : Str)
    (hy1 : isDigit y1 = true) (hy2 : isDigit y2 = true) (hy3 : isDigit y3 = true) (hy4 : isDigit y4 = true)
    (hm1 : isDigit m1 = true) (hm2 : isDigit m2 = true) (hd1 : isDigit d1 = true) (hd2 : isDigit d2 = true)
    (hh1 : isDigit h1 = true) (hh2 : isDigit h2 = true) (hn1 : isDigit n1 = true) (hn2 : isDigit n2 = true)
    (hs1 : isDigit s1 = true) (hs2 : isDigit s2 = true) :
    Lexer.defaultIsDynamic [y1, y2, y3, y4, '-', m1, m2, '-', d1, d2, 'T', h1, h2, ':', n1, n2, ':', s1, s2] ty = some false :=
  static_single_token "DATETIME" _ ty (by simp) (by decide)
    (Lexer.scan_datetime y1 y2 y3 y4 m1 m2 d1 d2 h1 h2 n1 n2 s1 s2 hy1 hy2 hy3 hy4 hm1 hm2 hd1 hd2 hh1 hh2 hn1 hn2 hs1 hs2)

/-- a quote-free word (an ASCII letter or `_`, then letters / digits / `_`) is a static default, for every
    element type: it lexes as one NAME token -/
theorem static_word (c : Char) (cs ty : Str) (hc : c ∈ Lexer.letters) (h : ∀ x ∈ cs, x ∈ Lexer.wordChars) :
    Lexer.defaultIsDynamic (c :: cs) ty = some false :=
  static_single_token "NAME" (c :: cs) ty (by simp) (by decide) (Lexer.scan_word c cs hc h)

/-! ## setvalue placement -/

/-- **exactly once, all trees**: the first-load setvalues of the output — those in `<model>` and those
    inside each `<repeat>` — are, as a multiset, exactly the spec `expSets`: one per question with a
    dynamic default, located at its nearest repeat ancestor (`<model>` if none) with event
    `odk-instance-first-load` (+ ` odk-new-repeat` inside a repeat); none for any other question -/
theorem setvalues_exactly_once (dyn : Q → Bool) (sub : Path → Str → Str) (root : Str) (els : List El) :
    (setFacts (gen dyn sub root els)).Perm (expSets dyn sub [root] none els) := by
  simp only [setFacts, gen]
  exact model_sets dyn sub _ _ els [root]

/-- the setvalue of a question with a dynamic default -/
def dynFact (sub : Path → Str → Str) (pre : Path) (near : Option Path) (d : Q) : SetFact :=
  { loc := near,
    set := { tag := "setvalue".toList, ref := pre ++ [d.name],
             event := if near.isSome then evNewRepeat else evFirstLoad,
             value := some (sub (pre ++ [d.name]) d.default) } }

/-- a static default (or none) contributes no setvalue; a dynamic one contributes exactly one -/
theorem expSet_cases (dyn : Q → Bool) (sub : Path → Str → Str) (pre : Path) (near : Option Path) (d : Q) :
    (hasDynDefault dyn d = false → expSet dyn sub pre near d = []) ∧
    (hasDynDefault dyn d = true → expSet dyn sub pre near d = [dynFact sub pre near d]) := by
  unfold expSet dynFact
  constructor <;> intro h <;> simp [h]

/-! ## instance text -/

/-- **static ⇒ literal text, dynamic ⇒ empty, in every copy**: every leaf of the primary instance
    (instance copies and `jr:template` copies alike) is the node of a question at that path and
    carries the prescribed text: the default when it is static, nothing otherwise -/
theorem instance_text_sound (dyn : Q → Bool) (sub : Path → Str → Str) (root : Str) (els : List El)
    (hne : secsNonEmpty els = true) (hels : els ≠ []) :
    ∀ l ∈ leaves [] false (gen dyn sub root els).inst,
      ∃ x ∈ qwp [root] els, l.path = x.1 ∧
        l.text = (if !x.2.default.isEmpty && !dyn x.2 then x.2.default else []) := by
  intro l hl
  simp only [gen] at hl
  rw [leaves_node_of_ne _ _ _ _ _ _ (instKids_ne dyn false els hels)] at hl
  obtain ⟨x, hx, h1, h2⟩ := (leaves_sound dyn els hne).1 ([] ++ [root]) (false || false) false l hl
  exact ⟨x, by simpa using hx, h1, by simpa [instText] using h2⟩

/-- every question has its instance node with the prescribed text, and a question with a repeat
    ancestor also has a template copy with the same text -/
theorem instance_text_covers (dyn : Q → Bool) (sub : Path → Str → Str) (root : Str) (els : List El)
    (x : Path × Q) :
    (x ∈ qwp [root] els → expLeaf dyn false x ∈ leaves [] false (gen dyn sub root els).inst) ∧
    (x ∈ qInRepeat [root] els → expLeaf dyn true x ∈ leaves [] false (gen dyn sub root els).inst) := by
  constructor
  · intro h
    simp only [gen]
    rw [leaves_node_of_ne _ _ _ _ _ _ (instKids_ne dyn false els (qwp_ne h))]
    simpa using inst_covers dyn els [root] false false x h
  · intro h
    have hne : els ≠ [] := by intro h0; subst h0; simp [qInRepeat] at h
    simp only [gen]
    rw [leaves_node_of_ne _ _ _ _ _ _ (instKids_ne dyn false els hne)]
    simpa using template_covers dyn els [root] x h

/-! ## the property, per question -/

theorem expSetP_ref (dyn : Q → Bool) (sub : Path → Str → Str) (z : Path × Option Path × Q) (f : SetFact)
    (hf : f ∈ expSetP dyn sub z) : f.set.ref = z.1 := by
  unfold expSetP at hf
  split at hf
  · simp only [List.mem_singleton] at hf; subst hf; rfl
  · simp at hf

/-- **exactly_once** (all trees; `y` = a question with its path and nearest repeat ancestor; paths of
    questions pairwise different, which `Survey.validate` enforces):
    * every copy of the question's node — in the instance and in every `jr:template` subtree — has
      the default as text when it is static and is empty otherwise; the instance copy exists, and a
      template copy exists when the question has a repeat ancestor;
    * the first-load setvalues targeting the node, wherever they are (`<model>` or any `<repeat>`),
      are: none when the default is static or absent; exactly one when it is dynamic — in `<model>`
      with event `odk-instance-first-load` when there is no repeat ancestor, else inside the nearest
      repeat with events `odk-instance-first-load odk-new-repeat` (`expSetP`). -/
theorem exactly_once (dyn : Q → Bool) (sub : Path → Str → Str) (root : Str) (els : List El)
    (y : Path × Option Path × Q) (hy : y ∈ qwn [root] none els)
    (huniq : ((qwn [root] none els).map (·.1)).Nodup) (hne : secsNonEmpty els = true) :
    (∀ l ∈ leaves [] false (gen dyn sub root els).inst, l.path = y.1 →
        l.text = (if !y.2.2.default.isEmpty && !dyn y.2.2 then y.2.2.default else [])) ∧
    expLeaf dyn false (y.1, y.2.2) ∈ leaves [] false (gen dyn sub root els).inst ∧
    (y.2.1.isSome = true → expLeaf dyn true (y.1, y.2.2) ∈ leaves [] false (gen dyn sub root els).inst) ∧
    (setFacts (gen dyn sub root els)).filter (fun f => decide (f.set.ref = y.1)) = expSetP dyn sub y := by
  have hels : els ≠ [] := by intro h0; subst h0; simp [qwn] at hy
  have hx : (y.1, y.2.2) ∈ qwp [root] els := by
    rw [← qwn_forget els [root] none]
    exact List.mem_map.2 ⟨y, hy, rfl⟩
  refine ⟨?_, (instance_text_covers dyn sub root els _).1 hx, ?_, ?_⟩
  · intro l hl hp
    obtain ⟨x, hxq, h1, h2⟩ := instance_text_sound dyn sub root els hne hels l hl
    rw [← qwn_forget els [root] none] at hxq
    obtain ⟨y', hy', rfl⟩ := List.mem_map.1 hxq
    have : y' = y := nodup_key_unique (·.1) _ huniq y' hy' y hy (by simpa using h1.symm.trans hp)
    subst this
    exact h2
  · intro hs
    exact (instance_text_covers dyn sub root els _).2 (qwn_inRepeat els [root] y hy hs)
  · have hperm := (setvalues_exactly_once dyn sub root els).filter (fun f => decide (f.set.ref = y.1))
    rw [expSets_eq_flatMap,
      filter_flatMap_unique (·.1) (·.set.ref) (expSetP dyn sub) (expSetP_ref dyn sub) _ huniq y hy] at hperm
    unfold expSetP at hperm ⊢
    split at hperm
    · rename_i h; simp only [h, if_true]; exact List.perm_singleton.1 hperm
    · rename_i h; simp only [h]; exact hperm.eq_nil

/-! ## triggers -/

/-- the builder's trigger table holds exactly one entry per question with a trigger cell -/
theorem trigger_table_spec (root : Str) (els : List El) :
    trigTable els = (qwp [root] els).flatMap fun x => saveTrigger x.2 :=
  trigTable_eq els [root]

/-- all value-changed set-nodes of the body, control by control: the control of a shown question `t`
    nests one node per table entry keyed exactly `${t}` (setvalues, then setgeopoints), each
    targeting its entry's question; hidden questions and sections nest nothing -/
theorem trigger_nodes_spec (dyn : Q → Bool) (sub : Path → Str → Str) (root : Str) (els : List El) :
    trigFacts (gen dyn sub root els) =
      (qwp [root] els).flatMap (expNested sub (pathOf (qPaths [root] els)) (trigTable els)) := by
  simp only [trigFacts, gen]
  exact trigs_eq dyn sub _ _ els [root]

/-- one `<bind>` per question that has a bind dict; it carries `calculate` iff the question has a calculation and no trigger -/
theorem calculate_omitted_with_trigger (dyn : Q → Bool) (sub : Path → Str → Str) (root : Str) (els : List El) :
    (gen dyn sub root els).binds =
      (qwp [root] els).flatMap fun x => if x.2.hasBind then [expBind sub x] else [] := by
  simp only [gen]
  exact binds_eq sub els [root]

/-- the value-changed node that a triggered question `q` must have inside the control at `ctl` -/
def trigFactOf (sub : Path → Str → Str) (paths : Str → Path) (ctl : Path) (q : Q) : TrigFact :=
  { ctl := ctl,
    set := { tag := if (entryOf q).geo then "odk:setgeopoint".toList else "setvalue".toList,
             ref := paths (entryOf q).target, event := evChanged,
             value := if (entryOf q).value.isEmpty then none
                      else some (sub (paths (entryOf q).target) (entryOf q).value) } }

/-- `trigFactOf` spelled out: `odk:setgeopoint` for background-geopoint, `ref` = the lookup of `q`'s name,
    value = `q`'s calculation (none when empty) expanded from `q`'s node -/
theorem trigFactOf_eq (sub : Path → Str → Str) (paths : Str → Path) (ctl : Path) (q : Q) :
    trigFactOf sub paths ctl q =
      { ctl := ctl,
        set := { tag := if q.type == "background-geopoint".toList then "odk:setgeopoint".toList else "setvalue".toList,
                 ref := paths q.name, event := evChanged,
                 value := if q.calcu.isEmpty then none else some (sub (paths q.name) q.calcu) } } := rfl

/-- **trigger_setvalue** (all trees; element names pairwise different, which `Survey.validate` /
    `_setup_xpath_dictionary` enforce for referenced names): if question `q` (at `pq`) has the trigger cell
    `${t}` and `t` (at `pt`) is a question that renders a control, then among ALL value-changed set-nodes of
    the body exactly one targets `q`: it sits in the control of `t`, is a `setvalue` (`odk:setgeopoint` for
    background-geopoint) with `ref` = `q`'s path and `q`'s calculation — expanded from `q`'s node — as
    value; and no bind of `q` carries `calculate`.  (That an accepted form's trigger always has this shape
    is `accepted_trigger_visible`.) -/
theorem trigger_setvalue (dyn : Q → Bool) (sub : Path → Str → Str) (root : Str) (els : List El)
    (pq pt : Path) (q t : Q)
    (hq : (pq, q) ∈ qwp [root] els) (ht : (pt, t) ∈ qwp [root] els)
    (hn : ((qPaths [root] els).map (·.1)).Nodup)
    (htrig : q.trigger.isEmpty = false) (hkey : strip q.trigger = refOf t.name) (hshown : shown t = true) :
    (trigFacts (gen dyn sub root els)).filter (fun f => decide (f.set.ref = pq)) =
      [trigFactOf sub (pathOf (qPaths [root] els)) pt q] ∧
    (trigFactOf sub (pathOf (qPaths [root] els)) pt q).set.ref = pq ∧
    (∀ b ∈ (gen dyn sub root els).binds, b.path = pq → b.calculate = none) := by
  have hnq : ((qwp [root] els).map fun x => x.2.name).Nodup := (qwp_names_sublist els [root]).nodup hn
  have hpq : pathOf (qPaths [root] els) q.name = pq := pathOf_question els [root] (pq, q) hq hn
  refine ⟨?_, hpq, ?_⟩
  · rw [trigger_nodes_spec, List.filter_flatMap, ← hpq]
    have hkey' : (entryOf q).key = refOf t.name := hkey
    rw [flatMap_single (fun x : Path × Q => x.2.name) _ _ hnq (pt, t) ht]
    · -- the control of t
      simp only [expNested, hshown, if_true, List.filter_append]
      rw [nested_half_filter els [root] (pq, q) hq hnq htrig t.name false _ (fun _ => rfl),
        nested_half_filter els [root] (pq, q) hq hnq htrig t.name true _ (fun _ => rfl)]
      simp only [hkey', beq_self_eq_true, Bool.true_and]
      unfold trigFactOf
      generalize entryOf q = e
      rcases e with ⟨k, tg, v, g⟩
      cases g <;> simp
    · -- every other control
      intro x _ hne
      simp only [expNested]
      split
      · have hk : ((entryOf q).key == refOf x.2.name) = false := by
          rw [hkey']
          apply beq_false_of_ne
          intro h
          exact hne (refOf_inj h).symm
        simp only [List.filter_append]
        rw [nested_half_filter els [root] (pq, q) hq hnq htrig x.2.name false _ (fun _ => rfl),
          nested_half_filter els [root] (pq, q) hq hnq htrig x.2.name true _ (fun _ => rfl)]
        simp [hk]
      · rfl
  · intro b hb hp
    rw [calculate_omitted_with_trigger] at hb
    obtain ⟨x, hx, hbx⟩ := List.mem_flatMap.1 hb
    have hbe : b = expBind sub x := by
      split at hbx
      · simpa using hbx
      · simp at hbx
    subst hbe
    have hxp : pathOf (qPaths [root] els) x.2.name = x.1 := pathOf_question els [root] x hx hn
    have hname : x.2.name = q.name :=
      pathOf_inj els [root] x (pq, q) hx hq (by rw [hxp, hpq]; exact hp)
    have : x = (pq, q) := nodup_key_unique (fun x : Path × Q => x.2.name) _ hnq x hx (pq, q) hq hname
    subst this
    simp [expBind, htrig]

/-- **the F8 guard, retired**: in a form that the model accepts, every trigger cell is exactly one
    reference `${t}` to a question `t` that renders a control (`Survey._is_usable_trigger` and the "not
    user-visible" error) — the hypotheses of `trigger_setvalue` are consequences of acceptance -/
theorem accepted_trigger_visible (dyn : Q → Bool) (root : Str) (els : List El) (h : check dyn els = none)
    (pq : Path) (q : Q) (hq : (pq, q) ∈ qwp [root] els) (htrig : q.trigger.isEmpty = false) :
    ∃ x ∈ qwp [root] els, strip q.trigger = refOf x.2.name ∧ shown x.2 = true :=
  accepted_trigger_visible_aux dyn els [root] h (pq, q) hq htrig

/-- **a calculation with a trigger is never lost and never doubled** (all accepted forms with pairwise
    different element names): it becomes exactly one value-changed set-node, nested in the control of
    the question its trigger names, and it is not emitted as bind calculate -/
theorem accepted_trigger_setvalue (dyn : Q → Bool) (sub : Path → Str → Str) (root : Str) (els : List El) (o : Out)
    (h : run dyn sub root els = .ok o) (hn : ((qPaths [root] els).map (·.1)).Nodup)
    (pq : Path) (q : Q) (hq : (pq, q) ∈ qwp [root] els) (htrig : q.trigger.isEmpty = false) :
    ∃ x ∈ qwp [root] els, shown x.2 = true ∧ strip q.trigger = refOf x.2.name ∧
      (trigFacts o).filter (fun f => decide (f.set.ref = pq)) = [trigFactOf sub (pathOf (qPaths [root] els)) x.1 q] ∧
      (∀ b ∈ o.binds, b.path = pq → b.calculate = none) := by
  unfold run at h
  split at h
  · cases h
  · rename_i hc
    simp only [Except.ok.injEq] at h
    subst h
    obtain ⟨x, hx, hkey, hshown⟩ := accepted_trigger_visible dyn root els hc pq q hq htrig
    have := trigger_setvalue dyn sub root els pq x.1 q x.2 hq hx hn htrig hkey hshown
    exact ⟨x, hx, hshown, hkey, this.1, this.2.2⟩

/-! ## non-vacuity -/

def dynEx : Q → Bool := fun d => d.default == "now()".toList
def subEx : Path → Str → Str := fun _ s => s
def exB : Q := { name := "b".toList, type := "text".toList, default := "now()".toList }
def exC : Q := { name := "c".toList, type := "calculate".toList, calcu := "1".toList,
                 trigger := "${b}".toList, labelled := false, hasCtl := false }
def exTree : List El :=
  [.q { name := "a".toList, type := "text".toList, default := "abc".toList },
   .rep "r".toList [.q exB, .grp "g".toList [.q exC]],
   .q { name := "z".toList, type := "text".toList, default := "now()".toList }]

-- the example tree has one setvalue in <model> (z) and one in the repeat (b); c is triggered by b
example : secsNonEmpty exTree = true ∧ exTree ≠ [] := by simp [exTree, secsNonEmpty]
example : (expSets dynEx subEx ["data".toList] none exTree).map (·.loc) = [some ["data".toList, "r".toList], none] := by
  simp [exTree, exB, exC, expSets, expSet, hasDynDefault, dynEx]
example : (["data".toList, "r".toList, "g".toList, "c".toList], exC) ∈ qwp ["data".toList] exTree
    ∧ (["data".toList, "r".toList, "b".toList], exB) ∈ qwp ["data".toList] exTree
    ∧ (["data".toList, "r".toList, "b".toList], exB) ∈ qInRepeat ["data".toList] exTree := by
  simp [exTree, exB, exC, qwp, qInRepeat]
example : exC.trigger.isEmpty = false ∧ strip exC.trigger = refOf exB.name ∧ shown exB = true := by
  simp [exC, exB, strip, lstrip, rstrip, pyIsSpace, refOf, shown, hiddenQ]
example : check dynEx exTree = none ∧ ((qPaths ["data".toList] exTree).map (·.1)).Nodup := by
  simp [exTree, exB, exC, check, questions, allNames, trigTable, hasDup, saveTrigger, firstErr, rowErr, geoRefErr,
    keyErr, usableErr, defaultRefErr, calcRefErr, ctlErr, dynEx, hiddenQ, triggered, refOf, refsOf, refNames, strip,
    lstrip, rstrip, isInfix, startsWith, pyIsSpace, qPaths]
-- hypotheses of `exactly_once` hold for question b (dynamic default inside repeat r) of the example tree
example : (["data".toList, "r".toList, "b".toList], some ["data".toList, "r".toList], exB) ∈ qwn ["data".toList] none exTree
    ∧ ((qwn ["data".toList] none exTree).map (·.1)).Nodup := by
  simp [exTree, exB, exC, qwn]
example : expSetP dynEx subEx (["data".toList, "r".toList, "b".toList], some ["data".toList, "r".toList], exB)
    = [{ loc := some ["data".toList, "r".toList],
         set := { tag := "setvalue".toList, ref := ["data".toList, "r".toList, "b".toList], event := evNewRepeat,
                  value := some "now()".toList } }] := by
  simp [expSetP, hasDynDefault, dynEx, exB, subEx]
example : Lexer.allDigits "2024".toList := by intro c hc; simp at hc; rcases hc with rfl | rfl | rfl | rfl <;> decide
example : 'y' ∈ Lexer.letters ∧ ∀ x ∈ "es_2".toList, x ∈ Lexer.wordChars := by decide
-- former finding F47 (fixed by 5a69025) and d989f12 on the model: the hyphen rule follows the DATA type, and a reference / call overrides it
example : Lexer.dynamicPinned "2020-01-01 - 1".toList "dateTime".toList = false
    ∧ Lexer.dynamicPinned "2020-01-01 - 1".toList "datetime".toList = false
    ∧ Lexer.dynamicPinned "- 5".toList "gps".toList = false
    ∧ Lexer.dynamicPinned "2020-01-01 - ${a}".toList "date".toList = true
    ∧ Lexer.dynamicPinned "1 - today()".toList "q date".toList = true
    ∧ Lexer.dynamicPinned "2020-01-01T00:00:00".toList "datetime".toList = false
    ∧ Lexer.dataTypeOf "gps".toList = "geopoint".toList ∧ Lexer.dataTypeOf "text".toList = "string".toList := by decide +kernel
example : ∃ t ∈ (scanWith pinnedRules "2020-01-01 - ${a}".toList).1, Lexer.pinnedOverrideNames.contains t.1 = true := by
  decide +kernel
-- lexer: the traps of DESIGN Appendix F on the pinned rules
example : (scanWith pinnedRules "a <= b".toList).1.map (·.1) = ["NAME", "WHITESPACE", "OPS_COMP", "OPS_COMP", "WHITESPACE", "NAME"] := by
  decide +kernel
example : (scanWith pinnedRules "1 -2".toList).1.map (·.1) = ["NUMBER", "WHITESPACE", "NUMBER"] := by decide +kernel
example : (scanWith pinnedRules "x mod y".toList).1.map (·.1) = ["NAME", "OPS_MATH", "NAME"] := by decide +kernel
example : (scanWith pinnedRules "2020-01-01".toList).1.map (·.1) = ["DATE"] := by decide +kernel
example : (scanWith pinnedRules "a:b:c".toList).1 = [("NAME", "a:b".toList), ("OTHER", ":".toList), ("NAME", "c".toList)] := by
  decide +kernel
example : dynamicWith pinnedRules "now()".toList "text".toList = true
    ∧ dynamicWith pinnedRules "2020-01-01".toList "date".toList = false
    ∧ dynamicWith pinnedRules "1 - today()".toList "date".toList = true
    ∧ dynamicWith pinnedRules "1 - 2".toList "date".toList = false
    ∧ dynamicWith pinnedRules "1 - today()".toList "text".toList = true := by decide +kernel
example : ∃ t ∈ (scanWith pinnedRules "now()".toList).1, Pyxv.Gen.defaultDynamicTokenNames.contains t.1 = true := by
  decide +kernel

end Pyxv.C10
