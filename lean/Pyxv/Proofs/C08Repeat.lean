import Pyxv.Proofs.C08Text
import Pyxv.Model.TextsRepeat
/-!
# C08 — repeats: elements nested in repeats (any depth) and the labels of repeats/groups

`buildElemsR` (Model/TextsRepeat.lean) is the element builder the driver op `c08.model` runs; the form-level theorems of
C08Text.lean (`effective_*_form`) hold for *any* element list with pairwise distinct xpaths, so they apply to elements below
repeats as soon as the builder is known to (a) give every element the slots of its own row and (b) route the xpath through
the names of the open repeats.  Both are proved here for all row lists, all depths.
-/
namespace Pyxv.C08
open Pyxv Pyxv.Headers Pyxv.Texts

/-- the five text slots of the element are those of this grouped row -/
def FromRow (row : Kvs) (e : Elem) : Prop :=
  e.label = row.get (s "label") ∧ e.hint = row.get (s "hint") ∧ e.guidance = row.get (s "guidance_hint") ∧
  e.media = row.get (s "media") ∧ e.bind = row.get (s "bind")

theorem fromRow_mkElem (row : Kvs) (i : Nat) (st : List Str) (k : EKind) : FromRow row (mkElem row i st k) :=
  ⟨rfl, rfl, rfl, rfl, rfl⟩

/-- **every element carries its own row's slots** — at any nesting depth of groups and repeats: the element with key
`s<i+j>` has label/hint/guidance/media/bind of row `j`, never of another row. -/
theorem buildElemsR_slots : ∀ (rows : List Kvs) (i : Nat) (st : List Str) (es : List Elem),
    buildElemsR rows i st = .ok es →
    ∀ e ∈ es, ∃ j row, rows[j]? = some row ∧ e.key = s "s" ++ natStr (i + j) ∧ FromRow row e
  | [], i, st, es, h, e, he => by
    simp only [buildElemsR] at h
    cases h
    simp at he
  | row :: rest, i, st, es, h, e, he => by
    rw [buildElemsR] at h
    split at h
    · simp only at h
      split at h
      · obtain ⟨j, r, hj, hk, hf⟩ := buildElemsR_slots rest (i + 1) _ es h e he
        exact ⟨j + 1, r, by simpa using hj, by rw [hk]; congr 2; omega, hf⟩
      · split at h
        · split at h
          · cases h
          · split at h
            · rename_i es' hes'
              cases h
              rcases List.mem_cons.mp he with rfl | he'
              · exact ⟨0, row, rfl, rfl, fromRow_mkElem _ _ _ _⟩
              · obtain ⟨j, r, hj, hk, hf⟩ := buildElemsR_slots rest (i + 1) _ es' hes' e he'
                exact ⟨j + 1, r, by simpa using hj, by rw [hk]; congr 2; omega, hf⟩
            · cases h
        · split at h
          · cases h
          · split at h
            · rename_i es' hes'
              cases h
              rcases List.mem_cons.mp he with rfl | he'
              · exact ⟨0, row, rfl, rfl, fromRow_mkElem _ _ _ _⟩
              · obtain ⟨j, r, hj, hk, hf⟩ := buildElemsR_slots rest (i + 1) _ es' hes' e he'
                exact ⟨j + 1, r, by simpa using hj, by rw [hk]; congr 2; omega, hf⟩
            · cases h
    · cases h

/-- no row of the sheet opens or closes a repeat -/
def NoRepeatRows (rows : List Kvs) : Prop :=
  ∀ row ∈ rows, ∀ t, row.get (s "type") = .str t →
    typeWords t ≠ [s "begin", s "repeat"] ∧ typeWords t ≠ [s "end", s "repeat"]

/-- **conservative extension**: on sheets without repeat rows the builder with repeats is the builder the earlier
theorems and correspondence runs were about. -/
theorem buildElemsR_conservative : ∀ (rows : List Kvs) (i : Nat) (st : List Str), NoRepeatRows rows →
    buildElemsR rows i st = buildElems rows i st
  | [], i, st, _ => by simp [buildElemsR, buildElems]
  | row :: rest, i, st, h => by
    have ih := fun i st => buildElemsR_conservative rest i st (fun r hr => h r (List.mem_cons_of_mem _ hr))
    rw [buildElemsR, buildElems]
    cases ht : row.get (s "type") with
    | none => rfl
    | dict _ => rfl
    | str t =>
      obtain ⟨h1, h2⟩ := h row List.mem_cons_self t ht
      simp only [isEnd, isBegin, oddRepeat, h1, h2, ih, leafKind, mkElem, Bool.or_false, decide_false, Bool.false_and,
        decide_eq_true_eq, Bool.false_eq_true, if_false]
      rfl

def rowName (row : Kvs) : Str := strOf (row.get (s "name"))

/-- the row opens a group or a repeat (and is not the media-without-label repeat) -/
def IsOpen (row : Kvs) : Prop :=
  ∃ t, row.get (s "type") = .str t ∧ isBegin (typeWords t) = true ∧ oddRepeat row (typeWords t) = false

/-- the elements of a run of opening rows: each one level deeper than the one before -/
def openElems : List Kvs → Nat → List Str → List Elem
  | [], _, _ => []
  | r :: rs, i, st => mkElem r i st .group :: openElems rs (i + 1) (st ++ [rowName r])

theorem isEnd_of_isBegin {ws : List Str} (h : isBegin ws = true) : isEnd ws = false := by
  simp only [isBegin, Bool.or_eq_true, decide_eq_true_eq] at h
  rcases h with h | h <;> subst h <;> decide

/-- **descending through any number of nested repeats/groups**: after `n` opening rows the rest of the sheet is built
`n` levels deeper — the stack of names grows by exactly the names of the opening rows, in order. -/
theorem buildElemsR_descend : ∀ (opens rest : List Kvs) (i : Nat) (st : List Str) (es : List Elem),
    (∀ r ∈ opens, IsOpen r) →
    buildElemsR rest (i + opens.length) (st ++ opens.map rowName) = .ok es →
    buildElemsR (opens ++ rest) i st = .ok (openElems opens i st ++ es)
  | [], rest, i, st, es, _, h => by simpa [openElems] using h
  | r :: rs, rest, i, st, es, ho, h => by
    obtain ⟨t, ht, hb, hodd⟩ := ho r List.mem_cons_self
    have ih := buildElemsR_descend rs rest (i + 1) (st ++ [rowName r]) es
      (fun x hx => ho x (List.mem_cons_of_mem _ hx))
      (by simpa [Nat.add_assoc, Nat.add_comm 1, List.append_assoc] using h)
    rw [List.cons_append, buildElemsR, ht]
    simp only [isEnd_of_isBegin hb, hb, hodd, Bool.false_eq_true, if_false, if_true]
    simp only [rowName] at ih
    rw [ih]
    rfl

/-- **xpath of a question below `n` nested repeats** (any `n`): its element has key `s<i+n>`, the slots of its own row,
and the xpath `/data/<outer stack>/<name of repeat 1>/…/<name of repeat n>/<its name>`. -/
theorem nested_repeat_elem (opens rest : List Kvs) (q : Kvs) (i : Nat) (st : List Str) (es : List Elem) (t : Str) (k : EKind)
    (ho : ∀ r ∈ opens, IsOpen r) (ht : q.get (s "type") = .str t)
    (he : isEnd (typeWords t) = false) (hb : isBegin (typeWords t) = false) (hk : leafKind q (typeWords t) = .ok k)
    (hrest : buildElemsR rest (i + opens.length + 1) (st ++ opens.map rowName) = .ok es) :
    ∃ e, buildElemsR (opens ++ q :: rest) i st = .ok (openElems opens i st ++ e :: es) ∧
      e.key = s "s" ++ natStr (i + opens.length) ∧ FromRow q e ∧
      e.path = s "/data/" ++ joinWith (s "/") (st ++ opens.map rowName ++ [rowName q]) := by
  refine ⟨mkElem q (i + opens.length) (st ++ opens.map rowName) k, ?_, rfl, fromRow_mkElem _ _ _ _, rfl⟩
  apply buildElemsR_descend opens (q :: rest) i st _ ho
  rw [buildElemsR, ht]
  simp only [he, hb, hk, hrest, Bool.false_eq_true, if_false]

end Pyxv.C08
