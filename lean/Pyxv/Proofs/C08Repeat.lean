import Pyxv.Proofs.C08Text
import Pyxv.Model.TextsRepeat
/-!
# C08 — repeats: elements nested in repeats (any depth) and the labels of repeats/groups

`buildElemsR` (Model/TextsRepeat.lean) is the element builder the driver op `c08.model` runs; the form-level theorems of
C08Text.lean (`effective_*_form`) hold for *any* element list with pairwise distinct xpaths, so they apply to elements below
repeats as soon as the builder is known to (a) give every element the slots of its own row and (b) route the xpath through
the names of the open repeats.  Both are proved here for all row lists, all depths.
-/
namespace Pyxv.C08
open Pyxv Pyxv.Headers Pyxv.Texts

/-- the five text slots of the element are those of this grouped row -/
def FromRow (row : Kvs) (e : Elem) : Prop :=
  e.label = row.get (s "label") ∧ e.hint = row.get (s "hint") ∧ e.guidance = row.get (s "guidance_hint") ∧
  e.media = row.get (s "media") ∧ e.bind = row.get (s "bind")

theorem fromRow_mkElem (row : Kvs) (i : Nat) (st : List Str) (k : EKind) : FromRow row (mkElem row i st k) :=
  ⟨rfl, rfl, rfl, rfl, rfl⟩

/-- **every element carries its own row's slots** — at any nesting depth of groups and repeats: the element with key
`s<i+j>` has label/hint/guidance/media/bind of row `j`, never of another row. -/
theorem buildElemsR_slots : ∀ (rows : List Kvs) (i : Nat) (st : List Str) (es : List Elem),
    buildElemsR rows i st = .ok es →
    ∀ e ∈ es, ∃ j row, rows[j]? = some row ∧ e.key = s "s" ++ natStr (i + j) ∧ FromRow row e
  | [], i, st, es, h, e, he => by
    simp only [buildElemsR] at h
    cases h
    simp at he
  | row :: rest, i, st, es, h, e, he => by
    rw [buildElemsR] at h
    split at h
    · simp only at h
      split at h
      · obtain ⟨j, r, hj, hk, hf⟩ := buildElemsR_slots rest (i + 1) _ es h e he
        exact ⟨j + 1, r, by simpa using hj, by rw [hk]; congr 2; omega, hf⟩
      · split at h
        · split at h
          · cases h
          · split at h
            · rename_i es' hes'
              cases h
              rcases List.mem_cons.mp he with rfl | he'
              · exact ⟨0, row, rfl, rfl, fromRow_mkElem _ _ _ _⟩
              · obtain ⟨j, r, hj, hk, hf⟩ := buildElemsR_slots rest (i + 1) _ es' hes' e he'
                exact ⟨j + 1, r, by simpa using hj, by rw [hk]; congr 2; omega, hf⟩
            · cases h
        · split at h
          · cases h
          · split at h
            · rename_i es' hes'
              cases h
              rcases List.mem_cons.mp he with rfl | he'
              · exact ⟨0, row, rfl, rfl, fromRow_mkElem _ _ _ _⟩
              · obtain ⟨j, r, hj, hk, hf⟩ := buildElemsR_slots rest (i + 1) _ es' hes' e he'
                exact ⟨j + 1, r, by simpa using hj, by rw [hk]; congr 2; omega, hf⟩
            · cases h
    · cases h

/-- no row of the sheet opens or closes a repeat -/
def NoRepeatRows (rows : List Kvs) : Prop :=
  ∀ row ∈ rows, ∀ t, row.get (s "type") = .str t →
    typeWords t ≠ [s "begin", s "repeat"] ∧ typeWords t ≠ [s "end", s "repeat"]

/-- **conservative extension**: on sheets without repeat rows the builder with repeats is the builder the earlier
theorems and correspondence runs were about. -/
theorem buildElemsR_conservative : ∀ (rows : List Kvs) (i : Nat) (st : List Str), NoRepeatRows rows →
    buildElemsR rows i st = buildElems rows i st
  | [], i, st, _ => by simp [buildElemsR, buildElems]
  | row :: rest, i, st, h => by
    have ih := fun i st => buildElemsR_conservative rest i st (fun r hr => h r (List.mem_cons_of_mem _ hr))
    rw [buildElemsR, buildElems]
    cases ht : row.get (s "type") with
    | none => rfl
    | dict _ => rfl
    | str t =>
      obtain ⟨h1, h2⟩ := h row List.mem_cons_self t ht
      simp only [isEnd, isBegin, oddRepeat, h1, h2, ih, leafKind, mkElem, Bool.or_false, decide_false, Bool.false_and,
        decide_eq_true_eq, Bool.false_eq_true, if_false]
      rfl

def rowName (row : Kvs) : Str := strOf (row.get (s "name"))

/-- the row opens a group or a repeat (and is not the media-without-label repeat) -/
def IsOpen (row : Kvs) : Prop :=
  ∃ t, row.get (s "type") = .str t ∧ isBegin (typeWords t) = true ∧ oddRepeat row (typeWords t) = false

/-- the elements of a run of opening rows: each one level deeper than the one before -/
def openElems : List Kvs → Nat → List Str → List Elem
  | [], _, _ => []
  | r :: rs, i, st => mkElem r i st .group :: openElems rs (i + 1) (st ++ [rowName r])

theorem isEnd_of_isBegin {ws : List Str} (h : isBegin ws = true) : isEnd ws = false := by
  simp only [isBegin, Bool.or_eq_true, decide_eq_true_eq] at h
  rcases h with h | h <;> subst h <;> decide

/-- **descending through any number of nested repeats/groups**: after `n` opening rows the rest of the sheet is built
`n` levels deeper — the stack of names grows by exactly the names of the opening rows, in order. -/
theorem buildElemsR_descend : ∀ (opens rest : List Kvs) (i : Nat) (st : List Str) (es : List Elem),
    (∀ r ∈ opens, IsOpen r) →
    buildElemsR rest (i + opens.length) (st ++ opens.map rowName) = .ok es →
    buildElemsR (opens ++ rest) i st = .ok (openElems opens i st ++ es)
  | [], rest, i, st, es, _, h => by simpa [openElems] using h
  | r :: rs, rest, i, st, es, ho, h => by
    obtain ⟨t, ht, hb, hodd⟩ := ho r List.mem_cons_self
    have ih := buildElemsR_descend rs rest (i + 1) (st ++ [rowName r]) es
      (fun x hx => ho x (List.mem_cons_of_mem _ hx))
      (by simpa [Nat.add_assoc, Nat.add_comm 1, List.append_assoc] using h)
    rw [List.cons_append, buildElemsR, ht]
    simp only [isEnd_of_isBegin hb, hb, hodd, Bool.false_eq_true, if_false, if_true]
    simp only [rowName] at ih
    rw [ih]
    rfl

/-- **xpath of a question below `n` nested repeats** (any `n`): its element has key `s<i+n>`, the slots of its own row,
and the xpath `/data/<outer stack>/<name of repeat 1>/…/<name of repeat n>/<its name>`. -/
theorem nested_repeat_elem (opens rest : List Kvs) (q : Kvs) (i : Nat) (st : List Str) (es : List Elem) (t : Str) (k : EKind)
    (ho : ∀ r ∈ opens, IsOpen r) (ht : q.get (s "type") = .str t)
    (he : isEnd (typeWords t) = false) (hb : isBegin (typeWords t) = false) (hk : leafKind q (typeWords t) = .ok k)
    (hrest : buildElemsR rest (i + opens.length + 1) (st ++ opens.map rowName) = .ok es) :
    ∃ e, buildElemsR (opens ++ q :: rest) i st = .ok (openElems opens i st ++ e :: es) ∧
      e.key = s "s" ++ natStr (i + opens.length) ∧ FromRow q e ∧
      e.path = s "/data/" ++ joinWith (s "/") (st ++ opens.map rowName ++ [rowName q]) := by
  refine ⟨mkElem q (i + opens.length) (st ++ opens.map rowName) k, ?_, rfl, fromRow_mkElem _ _ _ _, rfl⟩
  apply buildElemsR_descend opens (q :: rest) i st _ ho
  rw [buildElemsR, ht]
  simp only [he, hb, hk, hrest, Bool.false_eq_true, if_false]

/-- **effective_text for labels of elements in sheets with repeats** (questions at any depth below repeats, and the repeats
and groups themselves): if the grouped rows are what `process_row` makes of the raw rows and `buildElemsR` builds the
elements, then every element `e` is the element of one raw row `j` (its key is `s<j>`), and — xpaths being pairwise
distinct — whenever that row's label became a dict, `e` shows in every language exactly the spec's reading of *that row's*
label cells (the cell suffixed with the language, else the unsuffixed one for the default language), else `-`. -/
theorem effective_label_in_repeat (dl : Str) (hk : List (Str × List Str)) (raws : List (List (Str × Str)))
    (grows : List Kvs) (cs : List Choice) (es : List Elem) (padIds : List Str) (e : Elem)
    (hrows : ∀ (j : Nat) (out : Kvs), grows[j]? = some out → ∃ raw, raws[j]? = some raw ∧ processRow dl hk raw = .ok out)
    (hbuild : buildElemsR grows 0 [] = .ok es) (he : e ∈ es)
    (hpaths : (es.map (·.path)).Nodup)
    (hmedia : ∀ x ∈ es.flatMap (mediaEntries dl), x.form ≠ s "long") :
    ∃ (j : Nat) (raw : List (Str × Str)) (out : Kvs), raws[j]? = some raw ∧ processRow dl hk raw = .ok out ∧ e.key = s "s" ++ natStr j ∧
      e.label = out.get (s "label") ∧
      ∀ (m : Kvs) (lang : Str), out.get (s "label") = .dict m →
        (∀ c ∈ raw, c.1 ≠ "__row".toList ∧ ∃ t ts, lookup c.1 hk = some (t :: ts)) →
        NoClash dl hk .nil raw →
        (∀ c ∈ raw, ∀ t ts, lookup c.1 hk = some (t :: ts) → s "label" = t → ts.length ≤ 1) →
        (∀ c ∈ colCells hk (s "label") raw, c.2 ≠ []) → ((colCells hk (s "label") raw).map (·.1)).Nodup →
        lang ≠ [] →
        via (table dl ⟨es, cs⟩) padIds (labelSrc e) (s "long") lang =
          some ((specRead dl (colCells hk (s "label") raw) lang).getD (s "-")) := by
  obtain ⟨j, out, hj, hkey, hf⟩ := buildElemsR_slots grows 0 [] es hbuild e he
  obtain ⟨raw, hraw, hproc⟩ := hrows j out hj
  refine ⟨j, raw, out, hraw, hproc, by simpa using hkey, hf.1, ?_⟩
  intro m lang hdict hwf hnc hflat hne hnd hlang
  exact effective_text_label_row dl ⟨es, cs⟩ padIds e hk raw out m lang he hpaths hmedia hwf hnc hflat hproc hf.1 hdict
    hne hnd hlang

/-! ### non-vacuity: a question below two nested repeats -/

def kv (ps : List (String × String)) : Kvs :=
  ps.foldr (fun p acc => .cons p.1.toList (.str p.2.toList) acc) .nil

def repA : Kvs := kv [("type", "begin repeat"), ("name", "a")]
def repB : Kvs := .cons "type".toList (.str "begin repeat".toList) (.cons "name".toList (.str "b".toList)
  (.cons "label".toList (.dict (.cons "fr".toList (.str "Bfr".toList) .nil)) .nil))
def qRow : Kvs := .cons "type".toList (.str "text".toList) (.cons "name".toList (.str "q".toList)
  (.cons "label".toList (.dict (.cons "fr".toList (.str "Qfr".toList) .nil)) .nil))
def endRow : Kvs := kv [("type", "end repeat")]

theorem repA_open : IsOpen repA := ⟨"begin repeat".toList, rfl, by decide, by decide⟩
theorem repB_open : IsOpen repB := ⟨"begin repeat".toList, rfl, by decide, by decide⟩

/-- the question below repeats `a`, `b` gets `/data/a/b/q`, key `s2`, and its own row's label -/
example : ∃ e, buildElemsR ([repA, repB] ++ qRow :: [endRow, endRow]) 0 [] = .ok (openElems [repA, repB] 0 [] ++ e :: []) ∧
    e.key = "s2".toList ∧ FromRow qRow e ∧ e.path = "/data/a/b/q".toList := by
  obtain ⟨e, h1, h2, h3, h4⟩ := nested_repeat_elem [repA, repB] [endRow, endRow] qRow 0 [] [] "text".toList .question
    (by intro r hr; simp only [List.mem_cons, List.mem_nil_iff, or_false] at hr; rcases hr with rfl | rfl
        · exact repA_open
        · exact repB_open)
    rfl (by decide) (by decide) (by rfl) (by rfl)
  exact ⟨e, h1, h2, h3, by rw [h4]; decide⟩

example : ∀ e ∈ openElems [repA, repB] 0 [] ++ [mkElem qRow 2 ["a".toList, "b".toList] .question],
    ∃ (j : Nat) (row : Kvs), ([repA, repB, qRow, endRow, endRow])[j]? = some row ∧ e.key = s "s" ++ natStr (0 + j) ∧ FromRow row e :=
  buildElemsR_slots _ 0 [] _ (by rfl)

example : buildElemsR [kv [("type", "text"), ("name", "q")]] 0 [] = buildElems [kv [("type", "text"), ("name", "q")]] 0 [] := by
  apply buildElemsR_conservative
  intro row hr t ht
  simp only [List.mem_cons, List.mem_nil_iff, or_false] at hr
  subst hr
  have : t = "text".toList := by
    have h : (kv [("type", "text"), ("name", "q")]).get (s "type") = .str "text".toList := by rfl
    rw [h] at ht; cases ht; rfl
  subst this
  decide

example : buildElemsR ([repA, repB] ++ [endRow, endRow]) 0 [] = .ok (openElems [repA, repB] 0 [] ++ []) :=
  buildElemsR_descend [repA, repB] [endRow, endRow] 0 [] []
    (by intro r hr; simp only [List.mem_cons, List.mem_nil_iff, or_false] at hr; rcases hr with rfl | rfl
        · exact repA_open
        · exact repB_open)
    (by rfl)

/-! non-vacuity of `effective_label_in_repeat`: the F19 row (`label::fr = Qfr`, `label = Q`) as a question inside a repeat -/

def hk2 : List (Str × List Str) := [("type".toList, ["type".toList]), ("name".toList, ["name".toList])] ++ hkEx
def rawsEx : List (List (Str × Str)) :=
  [[("type".toList, "begin repeat".toList), ("name".toList, "a".toList)],
   [("type".toList, "text".toList), ("name".toList, "q".toList)] ++ rowEx,
   [("type".toList, "end repeat".toList)]]
def outOf (raw : List (Str × Str)) : Kvs :=
  match processRow "default".toList hk2 raw with
  | .ok o => o
  | .error _ => .nil
def growsEx : List Kvs := rawsEx.map outOf
def esEx : List Elem :=
  match buildElemsR growsEx 0 [] with
  | .ok es => es
  | .error _ => []
def eEx : Elem := mkElem (outOf ([("type".toList, "text".toList), ("name".toList, "q".toList)] ++ rowEx)) 1 ["a".toList] .question

example : True := by
  have _h := effective_label_in_repeat "default".toList hk2 rawsEx growsEx [] esEx [] eEx ?_ ?_ ?_ ?_ ?_
  · trivial
  · intro j out h
    match j, h with
    | 0, h => exact ⟨_, rfl, by simp only [growsEx, rawsEx, List.map_cons, List.getElem?_cons_zero, Option.some.injEq] at h; rw [← h]; rfl⟩
    | 1, h => exact ⟨_, rfl, by simp only [growsEx, rawsEx, List.map_cons, List.getElem?_cons_succ, List.getElem?_cons_zero, Option.some.injEq] at h; rw [← h]; rfl⟩
    | 2, h => exact ⟨_, rfl, by simp only [growsEx, rawsEx, List.map_cons, List.getElem?_cons_succ, List.getElem?_cons_zero, Option.some.injEq] at h; rw [← h]; rfl⟩
    | j + 3, h => simp [growsEx, rawsEx] at h
  · rfl
  · have : esEx = [mkElem (outOf rawsEx[0]) 0 [] .group, eEx] := by rfl
    rw [this]; simp
  · decide
  · have : esEx.flatMap (mediaEntries "default".toList) = [] := by rfl
    rw [this]; simp

/-! ### hints written on a group or repeat row -/

/-- **a section's hint is shown nowhere**: whatever is written in the hint / guidance-hint cells of a `begin group` /
`begin repeat` row, the section's own texts contain no hint and no guidance hint in any language (sections have no `<hint>`). -/
theorem section_hint_not_shown (T : List Entry) (padIds view : List Str) (e : Elem) (hk : e.kind = .group) :
    ∀ x ∈ elemTexts T padIds view e, x.1 ≠ s "hint" ∧ x.1 ≠ s "guidance_hint" := by
  intro x hx
  unfold elemTexts at hx
  simp only [hk, List.mem_flatMap, List.mem_filterMap, Option.map_eq_some_iff] at hx
  obtain ⟨⟨kind, src, form⟩, hp, lang, _, tx, hv, rfl⟩ := hx
  simp only [List.mem_append, List.mem_cons, List.mem_nil_iff, or_false, Prod.mk.injEq, List.not_mem_nil] at hp
  rcases hp with (((⟨rfl, _, _⟩ | hm) | ⟨rfl, rfl, rfl⟩) | hg) | (⟨rfl, _, _⟩ | ⟨rfl, _, _⟩)
  · exact ⟨by simp only; decide, by simp only; decide⟩
  · split at hm
    · simp only [mediaKinds, List.map_cons, List.map_nil, List.mem_cons, List.mem_nil_iff, or_false, Prod.mk.injEq] at hm
      rcases hm with ⟨rfl, _⟩ | ⟨rfl, _⟩ | ⟨rfl, _⟩ | ⟨rfl, _⟩ <;> exact ⟨by simp only; decide, by simp only; decide⟩
    · simp at hm
  · simp [via] at hv
  · simp at hg
  · exact ⟨by simp only; decide, by simp only; decide⟩
  · exact ⟨by simp only; decide, by simp only; decide⟩

def grpEx : Elem :=
  { key := "s0".toList, path := "/data/g".toList, kind := .group, label := .str "G".toList,
    hint := .dict (.cons "fr".toList (.str "Hfr".toList) .nil), guidance := .none, media := .none, bind := .none }

/-- non-vacuity: a group with a translated hint shows its label, and no hint -/
example : (s "label", "fr".toList, "G".toList) ∈ elemTexts (getTranslations "default".toList grpEx) [] ["fr".toList] grpEx ∧
    ∀ x ∈ elemTexts (getTranslations "default".toList grpEx) [] ["fr".toList] grpEx, x.1 ≠ s "hint" ∧ x.1 ≠ s "guidance_hint" :=
  ⟨by decide, section_hint_not_shown _ _ _ _ rfl⟩

end Pyxv.C08
