import Pyxv.Proofs.RefsLemmas
/-!
# C03 — `${name}` references become XPaths that reach the named question's node

Theorems about the model `Pyxv.Refs` (`refFor` = `Survey._var_repl_function` with
`is_parent_a_repeat`, `share_same_repeat_parent`, `has_common_repeat_parent`,
`_setup_xpath_dictionary`), for **every** list of elements, every pair of ancestor chains of any depth,
every name and every flag combination.  `resolve` is the segment-level XPath evaluation that the check
also applies to the holes of the implementation's output.

The only hypothesis on the survey is what `SurveyElement.validate` enforces: element names are
non-empty and contain no `/` (`GoodNames`).
-/
namespace Pyxv.Refs
open Pyxv

theorem named_path {n : Str} {t : Chain} (h : named n t = true) : t.path.getLast? = some n := by
  unfold named at h
  unfold Chain.path
  rw [List.getLast?_map]
  cases hl : t.getLast? with
  | none => simp [hl] at h
  | some s => simpa [hl] using h

/-- the element a successful lookup found is the only element of that name -/
theorem lookup_unique {n : Str} {els : List Chain} {t : Chain}
    (h : lookup n (setupXpathDict els) = some (some t)) : els.filter (named n) = [t] := by
  rw [lookup_setup] at h
  split at h
  · simp at h
  · next t' heq => simp at h; rw [heq, h]
  · simp at h

/-- **ref_resolves.**  Whatever `_var_repl_function` emits for `${name}` in a cell of the element `c`
— absolute, relative (with or without `current()`), or last-saved — evaluated from `c`'s node it reaches
the node of *the* element called `name` (there is exactly one). All trees, depths, names, flags. -/
theorem ref_resolves (els : List Chain) (hv : ∀ t ∈ els, GoodNames t.path)
    (c : Chain) (hc : GoodNames c.path) (name : Str) (fl : Flags) (cur : Bool) (e : Emitted)
    (h : refFor els (some c) name fl = .ok cur e) :
    ∃ t, els.filter (named name) = [t] ∧ resolve c.path e = some t.path := by
  unfold refFor at h
  cases hl : lookup name (setupXpathDict els) with
  | none => simp [hl] at h
  | some o =>
    cases o with
    | none => simp [hl] at h
    | some t =>
      have huniq := lookup_unique hl
      have htmem : t ∈ els.filter (named name) := by rw [huniq]; simp
      have ht := List.mem_filter.1 htmem
      refine ⟨t, huniq, ?_⟩
      simp only [hl] at h
      have habs : ∀ cur e, (if fl.lastSaved = true then Out.ok false (.lastSaved t.path) else Out.ok false (.abs t.path)) = Out.ok cur e →
          resolve c.path e = some t.path := by
        intro cur e he
        split at he <;> (cases he; rfl)
      split at h
      · -- the relative branch was tried
        split at h
        · next steps down hrel =>
          cases h
          -- unfold `_relative_path`
          unfold relativePath at hrel
          simp only at hrel
          split at hrel
          · split at hrel
            · split at hrel
              · split at hrel
                · simp at hrel
                · split at hrel
                  · next st parts hss =>
                    split at hrel
                    · simp at hrel
                    · have hre := ssrp_resolves _ c.path t.path hc (hv t ht.1) _ _ hss
                      obtain ⟨h1, h2, h3, h4, h5⟩ := hre
                      have hlast : parts.getLast? = some name := by rw [h5]; exact named_path ht.2
                      rw [endsWith_pathStr parts name hlast] at hrel
                      simp only [↓reduceIte, Option.some.injEq, Prod.mk.injEq] at hrel
                      obtain ⟨rfl, rfl⟩ := hrel
                      simp only [resolve]
                      rw [if_pos h2, h3]
                  · simp at hrel
              · simp at hrel
            · simp at hrel
          · simp at hrel
        · exact habs _ _ h
      · exact habs _ _ h

/-- without a context element (choice labels, media) the path is absolute -/
theorem ref_no_context_absolute (els : List Chain) (name : Str) (fl : Flags) (cur : Bool) (e : Emitted)
    (h : refFor els none name fl = .ok cur e) :
    ∃ t, els.filter (named name) = [t] ∧ cur = false ∧
      e = if fl.lastSaved then .lastSaved t.path else .abs t.path := by
  unfold refFor at h
  cases hl : lookup name (setupXpathDict els) with
  | none => simp [hl] at h
  | some o =>
    cases o with
    | none => simp [hl] at h
    | some t =>
      refine ⟨t, lookup_unique hl, ?_⟩
      simp only [hl] at h
      split at h <;> (cases h; simp [*])

/-- **absolute_otherwise_correct.**  A result that is not relative is exactly the absolute path of the
named element — inside `instance('__last-saved')` iff the reference was `${last-saved#…}` — and carries no
`current()`.  Last-saved references and indexed-repeat name arguments are never relative. -/
theorem absolute_otherwise_correct (els : List Chain) (ctx : Option Chain) (name : Str) (fl : Flags)
    (cur : Bool) (e : Emitted) (h : refFor els ctx name fl = .ok cur e) :
    ∃ t, els.filter (named name) = [t] ∧
      ((fl.lastSaved = true ∨ fl.indexedArg = true ∨ ctx = none) → e.isRel = false) ∧
      (e.isRel = false → cur = false ∧ e = if fl.lastSaved then .lastSaved t.path else .abs t.path) ∧
      (e.isRel = true → cur = (fl.useCurrent || fl.inPredicate)) := by
  unfold refFor at h
  cases hl : lookup name (setupXpathDict els) with
  | none => simp [hl] at h
  | some o =>
    cases o with
    | none => simp [hl] at h
    | some t =>
      refine ⟨t, lookup_unique hl, ?_⟩
      simp only [hl] at h
      have habs : ∀ cur e, (if fl.lastSaved = true then Out.ok false (.lastSaved t.path) else Out.ok false (.abs t.path)) = Out.ok cur e →
          e.isRel = false ∧ cur = false ∧ e = if fl.lastSaved then .lastSaved t.path else .abs t.path := by
        intro cur e he
        split at he <;> (cases he; simp [Emitted.isRel, *])
      have fin : ∀ {P : Prop}, e.isRel = false → cur = false →
          (e = if fl.lastSaved then .lastSaved t.path else .abs t.path) →
          (P → e.isRel = false) ∧
          (e.isRel = false → cur = false ∧ e = if fl.lastSaved then .lastSaved t.path else .abs t.path) ∧
          (e.isRel = true → cur = (fl.useCurrent || fl.inPredicate)) := by
        intro P a b c'
        exact ⟨fun _ => a, fun _ => ⟨b, c'⟩, fun hr => by rw [a] at hr; cases hr⟩
      cases ctx with
      | none =>
        obtain ⟨a, b, c'⟩ := habs _ _ h
        exact fin a b c'
      | some c =>
        simp only at h
        split at h
        · next hfl =>
          have hfl' : fl.lastSaved = false ∧ fl.indexedArg = false := by simpa using hfl
          split at h
          · cases h
            refine ⟨?_, ?_, fun _ => rfl⟩
            · rintro (h1 | h1 | h1)
              · rw [hfl'.1] at h1; cases h1
              · rw [hfl'.2] at h1; cases h1
              · cases h1
            · intro hr; simp [Emitted.isRel] at hr
          · obtain ⟨a, b, c'⟩ := habs _ _ h
            exact fin a b c'
        · obtain ⟨a, b, c'⟩ := habs _ _ h
          exact fin a b c'

/-- **unknown_or_ambiguous_rejected.**  A name that no element carries, or that several elements carry, is
rejected for every context and flag combination, and the error names it. -/
theorem unknown_or_ambiguous_rejected (els : List Chain) (ctx : Option Chain) (name : Str) (fl : Flags) :
    ((els.filter (named name)).length = 0 → refFor els ctx name fl = .unknown name) ∧
    (2 ≤ (els.filter (named name)).length → refFor els ctx name fl = .ambiguous name) := by
  unfold refFor
  rw [lookup_setup]
  constructor
  · intro h0
    have : els.filter (named name) = [] := List.length_eq_zero_iff.1 h0
    simp [this]
  · intro h2
    match hm : els.filter (named name), h2 with
    | _ :: _ :: _, _ => simp

/-- conversely: a conversion that succeeds found exactly one element -/
theorem ok_iff_unique (els : List Chain) (ctx : Option Chain) (name : Str) (fl : Flags) :
    (∃ cur e, refFor els ctx name fl = .ok cur e) ↔ (els.filter (named name)).length = 1 := by
  have hu := unknown_or_ambiguous_rejected els ctx name fl
  constructor
  · rintro ⟨_, _, h⟩
    rcases Nat.lt_trichotomy (els.filter (named name)).length 1 with hlt | heq | hgt
    · have := hu.1 (by omega); simp [this] at h
    · exact heq
    · have := hu.2 (by omega); simp [this] at h
  · intro h1
    obtain ⟨t, ht⟩ : ∃ t, els.filter (named name) = [t] := by
      match hm : els.filter (named name), h1 with
      | [t], _ => exact ⟨t, rfl⟩
    have habs : ∃ cur e, (if fl.lastSaved = true then Out.ok false (.lastSaved t.path) else Out.ok false (.abs t.path)) =
        Out.ok cur e := by
      cases fl.lastSaved <;> exact ⟨_, _, rfl⟩
    unfold refFor
    rw [lookup_setup, ht]
    simp only
    cases ctx with
    | none => exact habs
    | some c =>
      simp only
      by_cases hcond : (!fl.lastSaved && !fl.indexedArg) = true
      · rw [if_pos hcond]
        cases relativePath (repeatXpaths els) c t name fl.referenceParent with
        | none => exact habs
        | some r => exact ⟨_, _, rfl⟩
      · rw [if_neg hcond]; exact habs

end Pyxv.Refs

/-! ## non-vacuity: concrete trees meet the hypotheses and reach every kind of result -/
namespace Pyxv.Refs
open Pyxv

/-- `data{ repeat R { group abcde_r2 { t }, repeat r2 { repeat r3 { c } } }, t2, dup, g{dup} }` — the length-aligned
layout (F17 shape) plus an ambiguous name -/
def exTree : El :=
  .mk .group "data".toList [
    .mk .rep "R".toList [
      .mk .group "abcde_r2".toList [.mk .q "t".toList []],
      .mk .rep "r2".toList [.mk .rep "r3".toList [.mk .q "c".toList []]]],
    .mk .q "t2".toList [], .mk .q "dup".toList [], .mk .group "g".toList [.mk .q "dup".toList []]]

def exEls : List Chain := exTree.chains []
def exC : Chain := [("data".toList, .group), ("R".toList, .rep), ("r2".toList, .rep), ("r3".toList, .rep), ("c".toList, .q)]

example : exC ∈ exEls := by decide
example : refFor exEls (some exC) "t".toList {} = .ok false (.rel 3 ["abcde_r2".toList, "t".toList]) := by decide
example : resolve exC.path (.rel 3 ["abcde_r2".toList, "t".toList]) =
    some ["data".toList, "R".toList, "abcde_r2".toList, "t".toList] := by decide
example : refFor exEls (some exC) "t2".toList {} = .ok false (.abs ["data".toList, "t2".toList]) := by decide
example : refFor exEls (some exC) "t".toList { inPredicate := true } =
    .ok true (.rel 3 ["abcde_r2".toList, "t".toList]) := by decide
example : refFor exEls (some exC) "t".toList { lastSaved := true } =
    .ok false (.lastSaved ["data".toList, "R".toList, "abcde_r2".toList, "t".toList]) := by decide
example : refFor exEls (some exC) "t".toList { indexedArg := true } =
    .ok false (.abs ["data".toList, "R".toList, "abcde_r2".toList, "t".toList]) := by decide
example : refFor exEls (some exC) "nope".toList {} = .unknown "nope".toList := by decide
example : refFor exEls (some exC) "dup".toList {} = .ambiguous "dup".toList := by decide
example : (exEls.filter (named "dup".toList)).length = 2 := by decide
example : refFor exEls none "t".toList {} = .ok false (.abs ["data".toList, "R".toList, "abcde_r2".toList, "t".toList]) := by decide
/-- the target is the parent repeat of the referrer (F18 shape): the way down names it -/
example : refFor exEls (some exC) "r3".toList {} = .ok false (.rel 2 ["r3".toList]) := by decide
/-- `${data}` (the survey root) from a nested context: absolute (since fb6aa8f; an IndexError before) -/
example : refFor exEls (some exC) "data".toList {} = .ok false (.abs ["data".toList]) := by decide
example : ∀ t ∈ exEls, GoodNames t.path := by decide

end Pyxv.Refs
