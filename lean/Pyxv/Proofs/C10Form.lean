import Pyxv.Proofs.C10
import Pyxv.Proofs.C17Fixed
/-!
# C10 composed with the form core (`Pyxv.Form`, `Pyxv.Rows17`)

`exactly_once` needs "question paths pairwise different" and "no empty section".  For an element tree whose
shape (`shape`) is what `Form.parseRows` built from the survey rows and which the repaired
`Section.validate` / `Survey.validate` accepts (`Rows17.validate17`: emptiness, then children, then sibling
names — case-insensitively unique), both hypotheses are consequences (`paths_nodup_of_accepted`,
`nonEmpty_of_accepted`), so the property holds for every accepted sheet (`exactly_once_of_rows`).
-/
namespace Pyxv.C10
open Pyxv Pyxv.Defaults Pyxv.Form Pyxv.Rows17 List

/-- the element tree as `Pyxv.Form` sees it: names and nesting (what `parseRows` produces) -/
def shape : List El → List Item
  | [] => []
  | .q d :: rest =>
    Item.q { name := d.name, bind := true, control := shown d, node := true, tag := d.tag } :: shape rest
  | .grp n ks :: rest => Item.sec .group n false (shape ks) :: shape rest
  | .rep n ks :: rest => Item.sec .rep n false (shape ks) :: shape rest

def elName : El → Str
  | .q d => d.name
  | .grp n _ => n
  | .rep n _ => n

theorem shape_names : ∀ (els : List El), (shape els).map Item.name = els.map elName
  | [] => by simp [shape]
  | .q d :: rest => by simp [shape, Item.name, elName, shape_names rest]
  | .grp n ks :: rest => by simp [shape, Item.name, elName, shape_names rest]
  | .rep n ks :: rest => by simp [shape, Item.name, elName, shape_names rest]

theorem shape_eq_nil : ∀ (els : List El), shape els = [] → els = []
  | [], _ => rfl
  | .q _ :: _, h => by simp [shape] at h
  | .grp _ _ :: _, h => by simp [shape] at h
  | .rep _ _ :: _, h => by simp [shape] at h

theorem noEmpty_shape : ∀ (els : List El), noEmptyL (shape els) = true → secsNonEmpty els = true
  | [], _ => by simp [secsNonEmpty]
  | .q d :: rest, h => by
    simp only [shape, noEmptyL, noEmpty, Bool.true_and] at h
    simp only [secsNonEmpty]; exact noEmpty_shape rest h
  | .grp n ks :: rest, h => by
    simp only [shape, noEmptyL, Bool.and_eq_true] at h
    have hk : shape ks ≠ [] := by intro h0; rw [h0] at h; simp [noEmpty] at h
    have hks : ks ≠ [] := by intro h0; subst h0; exact hk (by simp [shape])
    cases hs : shape ks with
    | nil => exact absurd hs hk
    | cons k ks' =>
      rw [hs] at h
      simp only [noEmpty] at h
      rw [← hs] at h
      simp only [secsNonEmpty, Bool.and_eq_true]
      exact ⟨⟨by cases ks <;> simp_all, noEmpty_shape ks h.1⟩, noEmpty_shape rest h.2⟩
  | .rep n ks :: rest, h => by
    simp only [shape, noEmptyL, Bool.and_eq_true] at h
    have hk : shape ks ≠ [] := by intro h0; rw [h0] at h; simp [noEmpty] at h
    have hks : ks ≠ [] := by intro h0; subst h0; exact hk (by simp [shape])
    cases hs : shape ks with
    | nil => exact absurd hs hk
    | cons k ks' =>
      rw [hs] at h
      simp only [noEmpty] at h
      rw [← hs] at h
      simp only [secsNonEmpty, Bool.and_eq_true]
      exact ⟨⟨by cases ks <;> simp_all, noEmpty_shape ks h.1⟩, noEmpty_shape rest h.2⟩

theorem nodup_of_map {α β} (f : α → β) : ∀ (l : List α), (l.map f).Nodup → l.Nodup
  | [], _ => List.nodup_nil
  | a :: rest, h => by
    simp only [List.map_cons, List.nodup_cons] at h ⊢
    exact ⟨fun hm => h.1 (List.mem_map_of_mem hm), nodup_of_map f rest h.2⟩

/-- sibling names pairwise different (from the case-insensitive check) -/
theorem names_nodup_of_dupCheck (parent : Str) (els : List El) (h : liftDup parent (shape els) = .ok ()) :
    (els.map elName).Nodup := by
  have hd : dupCheck parent (shape els) = .ok () := by
    unfold liftDup at h
    split at h
    · cases h
    · assumption
  have := (dupCheck_ok_iff parent (shape els)).1 hd
  have h2 : ((shape els).map Item.name).Nodup := by
    have he : ((shape els).map Item.name).map lowerAscii = (shape els).map lname := by
      simp [List.map_map, Function.comp_def, lname]
    have : (((shape els).map Item.name).map lowerAscii).Nodup := by rw [he]; exact this
    exact nodup_of_map lowerAscii _ this
  rwa [shape_names] at h2

/-- every question's path continues `pre` with the name of one of the listed elements -/
theorem qwn_prefix : ∀ (els : List El) (pre : Path) (near : Option Path) (y : Path × Option Path × Q),
    y ∈ qwn pre near els → ∃ m ∈ els.map elName, (pre ++ [m]) <+: y.1
  | [], _, _, y => by simp [qwn]
  | .q d :: rest, pre, near, y => by
    intro h
    simp only [qwn, List.mem_cons] at h
    rcases h with h | h
    · subst h; exact ⟨d.name, by simp [elName], List.prefix_refl _⟩
    · obtain ⟨m, hm, hp⟩ := qwn_prefix rest pre near y h
      exact ⟨m, by simp only [List.map_cons, List.mem_cons]; right; exact hm, hp⟩
  | .grp n ks :: rest, pre, near, y => by
    intro h
    simp only [qwn, List.mem_append] at h
    rcases h with h | h
    · obtain ⟨m, _, hp⟩ := qwn_prefix ks (pre ++ [n]) near y h
      exact ⟨n, by simp [elName], (List.prefix_append _ _).trans hp⟩
    · obtain ⟨m, hm, hp⟩ := qwn_prefix rest pre near y h
      exact ⟨m, by simp only [List.map_cons, List.mem_cons]; right; exact hm, hp⟩
  | .rep n ks :: rest, pre, near, y => by
    intro h
    simp only [qwn, List.mem_append] at h
    rcases h with h | h
    · obtain ⟨m, _, hp⟩ := qwn_prefix ks (pre ++ [n]) (some (pre ++ [n])) y h
      exact ⟨n, by simp [elName], (List.prefix_append _ _).trans hp⟩
    · obtain ⟨m, hm, hp⟩ := qwn_prefix rest pre near y h
      exact ⟨m, by simp only [List.map_cons, List.mem_cons]; right; exact hm, hp⟩

theorem prefix_name_eq {pre p : Path} {n m : Str} (h1 : (pre ++ [n]) <+: p) (h2 : (pre ++ [m]) <+: p) : n = m := by
  have hl : (pre ++ [n]).length ≤ (pre ++ [m]).length := by simp
  have := (List.prefix_of_prefix_length_le h1 h2 hl).eq_of_length (by simp)
  simpa using this

/-- paths of a subtree below `pre ++ [n]` differ from the paths below the other siblings -/
theorem disjoint_paths (ks rest : List El) (pre : Path) (n : Str) (nk nr : Option Path)
    (hn : n ∉ rest.map elName) :
    ∀ a ∈ (qwn (pre ++ [n]) nk ks).map (·.1), ∀ b ∈ (qwn pre nr rest).map (·.1), a ≠ b := by
  intro a ha b hb hab
  obtain ⟨ya, hya, rfl⟩ := List.mem_map.1 ha
  obtain ⟨yb, hyb, rfl⟩ := List.mem_map.1 hb
  obtain ⟨_, _, hpa⟩ := qwn_prefix ks (pre ++ [n]) nk ya hya
  obtain ⟨m, hm, hpb⟩ := qwn_prefix rest pre nr yb hyb
  have h1 : (pre ++ [n]) <+: ya.1 := (List.prefix_append _ _).trans hpa
  rw [hab] at h1
  exact hn (prefix_name_eq h1 hpb ▸ hm)

/-- **accepted ⇒ question paths pairwise different**, by induction over the tree -/
theorem paths_nodup : ∀ (els : List El) (pre : Path) (near : Option Path),
    validateEach17 (shape els) = .ok () → (els.map elName).Nodup → ((qwn pre near els).map (·.1)).Nodup
  | [], _, _, _, _ => by simp [qwn]
  | .q d :: rest, pre, near, hv, hn => by
    simp only [shape, validateEach17, validateItem17] at hv
    simp only [List.map_cons, List.nodup_cons] at hn
    simp only [qwn, List.map_cons, List.nodup_cons]
    refine ⟨?_, paths_nodup rest pre near hv hn.2⟩
    intro hmem
    obtain ⟨y, hy, hyp⟩ := List.mem_map.1 hmem
    obtain ⟨m, hm, hp⟩ := qwn_prefix rest pre near y hy
    rw [hyp] at hp
    have : m = d.name := by
      have := hp.eq_of_length (by simp)
      simpa using this
    exact hn.1 (by simpa [elName, this] using hm)
  | .grp n ks :: rest, pre, near, hv, hn => by
    simp only [shape, validateEach17] at hv
    cases hi : validateItem17 (Item.sec .group n false (shape ks)) with
    | error e => rw [hi] at hv; simp at hv
    | ok u =>
      rw [hi] at hv
      simp only [List.map_cons, List.nodup_cons] at hn
      cases hs : shape ks with
      | nil => rw [hs] at hi; simp [validateItem17] at hi
      | cons k ks' =>
        rw [hs] at hi
        simp only [validateItem17] at hi
        rw [← hs] at hi
        cases he : validateEach17 (shape ks) with
        | error e => rw [he] at hi; simp at hi
        | ok u' =>
          rw [he] at hi
          have hnk := names_nodup_of_dupCheck n ks hi
          simp only [qwn, List.map_append]
          exact List.nodup_append.2 ⟨paths_nodup ks (pre ++ [n]) near he hnk, paths_nodup rest pre near hv hn.2,
            disjoint_paths ks rest pre n near near (by simpa [elName] using hn.1)⟩
  | .rep n ks :: rest, pre, near, hv, hn => by
    simp only [shape, validateEach17] at hv
    cases hi : validateItem17 (Item.sec .rep n false (shape ks)) with
    | error e => rw [hi] at hv; simp at hv
    | ok u =>
      rw [hi] at hv
      simp only [List.map_cons, List.nodup_cons] at hn
      cases hs : shape ks with
      | nil => rw [hs] at hi; simp [validateItem17] at hi
      | cons k ks' =>
        rw [hs] at hi
        simp only [validateItem17] at hi
        rw [← hs] at hi
        cases he : validateEach17 (shape ks) with
        | error e => rw [he] at hi; simp at hi
        | ok u' =>
          rw [he] at hi
          have hnk := names_nodup_of_dupCheck n ks hi
          simp only [qwn, List.map_append]
          exact List.nodup_append.2 ⟨paths_nodup ks (pre ++ [n]) (some (pre ++ [n])) he hnk,
            paths_nodup rest pre near hv hn.2,
            disjoint_paths ks rest pre n (some (pre ++ [n])) near (by simpa [elName] using hn.1)⟩

theorem validate17_parts (root : Str) (els : List El) (h : validate17 root (shape els) = .ok ()) :
    validateEach17 (shape els) = .ok () ∧ liftDup root (shape els) = .ok () := by
  unfold validate17 at h
  cases hs : shape els with
  | nil => rw [hs] at h; simp at h
  | cons k ks =>
    rw [hs] at h
    simp only [] at h
    cases he : validateEach17 (k :: ks) with
    | error e => rw [he] at h; simp at h
    | ok u =>
      rw [he] at h
      simp only [] at h
      cases hl : liftDup root (k :: ks) with
      | error e => rw [hl] at h; simp at h
      | ok u' => exact ⟨rfl, rfl⟩

/-- a tree accepted by the (repaired) validation has pairwise different question paths … -/
theorem paths_nodup_of_accepted (root : Str) (els : List El) (h : validate17 root (shape els) = .ok ()) :
    ((qwn [root] none els).map (·.1)).Nodup := by
  obtain ⟨he, hl⟩ := validate17_parts root els h
  exact paths_nodup els [root] none he (names_nodup_of_dupCheck root els hl)

/-- … and no empty section -/
theorem nonEmpty_of_accepted (root : Str) (els : List El) (h : validate17 root (shape els) = .ok ()) :
    secsNonEmpty els = true :=
  noEmpty_shape els (Pyxv.C17.validate17_ok_noEmpty root (shape els) h).2

/-- **exactly_once for accepted sheets**: the rows parse to the tree's shape and the tree is accepted by
    `Section.validate` / `Survey.validate` — no further hypotheses.  Conclusions as in `exactly_once`. -/
theorem exactly_once_of_rows (dyn : Q → Bool) (sub : Path → Str → Str) (root : Str)
    (rows : List (Nat × RowK)) (els : List El)
    (_hrows : parseRows rows = .ok (shape els))
    (hval : validate17 root (shape els) = .ok ())
    (y : Path × Option Path × Q) (hy : y ∈ qwn [root] none els) :
    (∀ l ∈ leaves [] false (gen dyn sub root els).inst, l.path = y.1 →
        l.text = (if !y.2.2.default.isEmpty && !dyn y.2.2 then y.2.2.default else [])) ∧
    expLeaf dyn false (y.1, y.2.2) ∈ leaves [] false (gen dyn sub root els).inst ∧
    (y.2.1.isSome = true → expLeaf dyn true (y.1, y.2.2) ∈ leaves [] false (gen dyn sub root els).inst) ∧
    (setFacts (gen dyn sub root els)).filter (fun f => decide (f.set.ref = y.1)) = expSetP dyn sub y :=
  exactly_once dyn sub root els y hy (paths_nodup_of_accepted root els hval) (nonEmpty_of_accepted root els hval)

/-! ## the `xls2json` stage in front: a photo's default (`process_image_default`) -/

theorem startsWith_append_self : ∀ (p v : Str), startsWith (p ++ v) p = true
  | [], v => by cases v <;> simp [startsWith]
  | a :: as, v => by simp [startsWith, startsWith_append_self as v]

theorem isInfix_append_self (p v : Str) : isInfix p (p ++ v) = true := by
  cases h : p ++ v with
  | nil =>
    have : p = [] := (List.append_eq_nil_iff.1 h).1
    subst this; simp [isInfix]
  | cons a as =>
    simp only [isInfix, Bool.or_eq_true]
    left; rw [← h]; exact startsWith_append_self p v

/-- the stored default of a photo always mentions `jr://images/` … -/
theorem processImageDefault_mentions (v : Str) : isInfix imagePrefix (processImageDefault v) = true := by
  unfold processImageDefault
  split
  · assumption
  · exact isInfix_append_self _ _

/-- … a cell that already does is stored as it is, so the operation is idempotent -/
theorem processImageDefault_idem (v : Str) : processImageDefault (processImageDefault v) = processImageDefault v := by
  have h := processImageDefault_mentions v
  generalize processImageDefault v = w at h ⊢
  simp [processImageDefault, h]

theorem prepQ_same (d : Q) : (prepQ d).name = d.name ∧ (prepQ d).type = d.type ∧ shown (prepQ d) = shown d ∧
    (prepQ d).tag = d.tag ∧ (prepQ d).trigger = d.trigger ∧ (prepQ d).calcu = d.calcu := by
  unfold prepQ
  split <;> simp [shown, hiddenQ]

/-- `prep` changes no name and no nesting: the shape `Form` sees is that of the cells -/
theorem shape_prep : ∀ (els : List El), shape (prep els) = shape els
  | [] => by simp [prep, shape]
  | .q d :: rest => by
    obtain ⟨h1, _, h3, h4, _, _⟩ := prepQ_same d
    simp [prep, shape, h1, h3, h4, shape_prep rest]
  | .grp n ks :: rest => by simp [prep, shape, shape_prep ks, shape_prep rest]
  | .rep n ks :: rest => by simp [prep, shape, shape_prep ks, shape_prep rest]

/-- the questions after `prep` are the questions before it with `prepQ` applied, path for path -/
theorem qwn_prep : ∀ (els : List El) (pre : Path) (near : Option Path),
    qwn pre near (prep els) = (qwn pre near els).map fun y => (y.1, y.2.1, prepQ y.2.2)
  | [], _, _ => by simp [prep, qwn]
  | .q d :: rest, pre, near => by simp [prep, qwn, (prepQ_same d).1, qwn_prep rest pre near]
  | .grp n ks :: rest, pre, near => by simp [prep, qwn, qwn_prep ks (pre ++ [n]) near, qwn_prep rest pre near]
  | .rep n ks :: rest, pre, near => by
    simp [prep, qwn, qwn_prep ks (pre ++ [n]) (some (pre ++ [n])), qwn_prep rest pre near]

/-- **exactly_once from the cells**: for a sheet whose rows parse to the tree's shape and whose tree is accepted,
    every question `y` of the sheet — with its default as `xls2json` stores it (`prepQ`: a photo's file name
    prefixed with `jr://images/`) — satisfies the conclusions of `exactly_once` in the output of the mechanism
    run on the stored tree (`Defaults.runSheet`'s tree `prep els`) -/
theorem exactly_once_of_cells (dyn : Q → Bool) (sub : Path → Str → Str) (root : Str)
    (rows : List (Nat × RowK)) (els : List El)
    (hrows : parseRows rows = .ok (shape els)) (hval : validate17 root (shape els) = .ok ())
    (y : Path × Option Path × Q) (hy : y ∈ qwn [root] none els) :
    let y' : Path × Option Path × Q := (y.1, y.2.1, prepQ y.2.2)
    (∀ l ∈ leaves [] false (gen dyn sub root (prep els)).inst, l.path = y.1 →
        l.text = (if !y'.2.2.default.isEmpty && !dyn y'.2.2 then y'.2.2.default else [])) ∧
    (setFacts (gen dyn sub root (prep els))).filter (fun f => decide (f.set.ref = y.1)) = expSetP dyn sub y' := by
  intro y'
  have hy' : y' ∈ qwn [root] none (prep els) := by
    rw [qwn_prep]; exact List.mem_map.2 ⟨y, hy, rfl⟩
  have h := exactly_once_of_rows dyn sub root rows (prep els) (by rw [shape_prep]; exact hrows)
    (by rw [shape_prep]; exact hval) y' hy'
  exact ⟨h.1, h.2.2.2⟩

/-! ### non-vacuity: the example tree of `Pyxv.C10` comes from rows and is accepted -/
def exRows : List (Nat × RowK) :=
  [(2, .q { name := "a".toList, bind := true, control := true, node := true, tag := "input".toList } none),
   (3, .begin_ .rep "r".toList false none),
   (4, .q { name := "b".toList, bind := true, control := true, node := true, tag := "input".toList } none),
   (5, .begin_ .group "g".toList false none),
   (6, .q { name := "c".toList, bind := true, control := false, node := true, tag := "input".toList } none),
   (7, .end_ .group), (8, .end_ .rep),
   (9, .q { name := "z".toList, bind := true, control := true, node := true, tag := "input".toList } none)]

example : parseRows exRows = .ok (shape exTree) := by
  simp [exRows, exTree, exB, exC, shape, parseRows, Form.run, Form.step, push, pushOpt, shown, hiddenQ]
example : validate17 "data".toList (shape exTree) = .ok () := by
  simp [exTree, exB, exC, shape, validate17, validateEach17, validateItem17, liftDup, dupCheck, firstDup,
    firstDupStr, sectionNamesL, sectionNames, Item.name, lowerAscii]

-- a photo question: the stored default is the prefixed file name, which is static (URI_SCHEME, NAME, PATH_SEP, NAME)
example : (prepQ { name := "p".toList, type := "photo".toList, default := "a.png".toList }).default = "jr://images/a.png".toList
    ∧ Lexer.dynamicPinned "jr://images/a.png".toList "photo".toList = false := by decide +kernel

end Pyxv.C10
