import Pyxv.Model.Choices
/-!
# C17 — choices-sheet rules and instance-id clashes of the catalogue, on `Pyxv.Choices`

`choice_no_name`, `dup_choice` (`validate_choice_list`) and `instance_clash` / `file_stem_clash` / `dup_external`
(`Survey._generate_instances`' `seen` loop) for every list / every sequence of instances and every position.
The duplicate rule does not look at labels (seeded change C17-4), the clash rule compares the *source* of every
later instance of an id with the first one (seeded change C17-5 skipped later file selects).
-/
namespace Pyxv.C17
open Pyxv Pyxv.Choices

/-- **choice without a name**, anywhere in a list -/
theorem choice_no_name_rejected (allowDup : Bool) (pre post : List Rows.Cells) (r : Rows.Cells)
    (h : lookup (c!"name") r = none) :
    validateList allowDup (pre ++ r :: post) = some .noChoiceName := by
  unfold validateList
  have : (pre ++ r :: post).any (fun r => (lookup (c!"name") r).isNone) = true := by
    simp [List.any_append, h]
  rw [this]; rfl

theorem hasDupName_of_seen (n : Str) : ∀ (rows : List Rows.Cells) (seen : List Str) (r : Rows.Cells),
    n ∈ seen → r ∈ rows → lookup (c!"name") r = some n → hasDupName seen rows = true
  | [], _, _, _, hr, _ => by simp at hr
  | q :: qs, seen, r, hs, hr, hn => by
    simp only [hasDupName]
    rcases List.mem_cons.1 hr with e | hr'
    · subst e; rw [hn]; simp [hs]
    · cases hq : lookup (c!"name") q with
      | none => exact hasDupName_of_seen n qs seen r hs hr' hn
      | some m =>
        simp only []
        by_cases hm : seen.contains m = true
        · rw [if_pos hm]
        · simp only [hm, Bool.false_eq_true, ↓reduceIte]
          exact hasDupName_of_seen n qs (m :: seen) r (List.mem_cons_of_mem _ hs) hr' hn

theorem hasDupName_of_twice (n : Str) (r1 r2 : Rows.Cells) (h1 : lookup (c!"name") r1 = some n)
    (h2 : lookup (c!"name") r2 = some n) : ∀ (pre rest : List Rows.Cells) (seen : List Str),
    r2 ∈ rest → hasDupName seen (pre ++ r1 :: rest) = true
  | [], rest, seen, hm => by
    simp only [List.nil_append, hasDupName, h1]
    by_cases hs : seen.contains n = true
    · rw [if_pos hs]
    · simp only [hs, Bool.false_eq_true, ↓reduceIte]
      exact hasDupName_of_seen n rest (n :: seen) r2 (by simp) hm h2
  | p :: ps, rest, seen, hm => by
    simp only [List.cons_append, hasDupName]
    cases hp : lookup (c!"name") p with
    | none => exact hasDupName_of_twice n r1 r2 h1 h2 ps rest seen hm
    | some m =>
      simp only []
      by_cases hs : seen.contains m = true
      · rw [if_pos hs]
      · simp only [hs, Bool.false_eq_true, ↓reduceIte]
        exact hasDupName_of_twice n r1 r2 h1 h2 ps rest (m :: seen) hm

/-- **duplicate choice name** (no `allow_choice_duplicates`): two rows of a list with the same name, at any two
    positions and whatever their other cells are (labelled, unlabelled, picture only) -/
theorem dup_choice_rejected (n : Str) (r1 r2 : Rows.Cells) (pre mid post : List Rows.Cells)
    (h1 : lookup (c!"name") r1 = some n) (h2 : lookup (c!"name") r2 = some n)
    (hall : (pre ++ r1 :: (mid ++ r2 :: post)).any (fun r => (lookup (c!"name") r).isNone) = false) :
    validateList false (pre ++ r1 :: (mid ++ r2 :: post)) = some .dupChoice := by
  unfold validateList
  rw [hall]
  have := hasDupName_of_twice n r1 r2 h1 h2 pre (mid ++ r2 :: post) [] (by simp)
  simp [this]

example : validateList false
    [[(c!"name", c!"a"), (c!"label", c!"A")], [(c!"name", c!"b")], [(c!"name", c!"a"), (c!"image", c!"p.png")]]
    = some .dupChoice := by decide +kernel
example : validateList false [[(c!"name", c!"a")], [(c!"label", c!"x")]] = some .noChoiceName := by decide +kernel

/-! ### instance-id clashes -/

def namesNodup (seen : List Inst) : Prop := (seen.map (·.name)).Nodup

theorem findSeen_none_iff (name : Str) : ∀ (seen : List Inst), findSeen name seen = none ↔ ∀ p ∈ seen, p.name ≠ name
  | [] => by simp [findSeen]
  | q :: qs => by
    simp only [findSeen]
    by_cases hq : q.name = name
    · simp [hq]
    · simp [hq, findSeen_none_iff name qs]

theorem findSeen_of_mem (name : Str) : ∀ (seen : List Inst) (p : Inst), namesNodup seen → p ∈ seen → p.name = name →
    findSeen name seen = some p
  | [], _, _, hp, _ => by simp at hp
  | q :: qs, p, hn, hp, hpn => by
    simp only [findSeen]
    have hn' : q.name ∉ qs.map (·.name) ∧ namesNodup qs := by
      simpa [namesNodup, List.nodup_cons] using hn
    rcases List.mem_cons.1 hp with e | hp'
    · subst e; simp [hpn]
    · have : q.name ≠ name := by
        intro e
        exact hn'.1 (by rw [e, ← hpn]; exact List.mem_map_of_mem hp')
      simp [this, findSeen_of_mem name qs p hn'.2 hp' hpn]

/-- a later instance whose id is already seen with another source stops the loop, wherever it stands -/
theorem emitInsts_clash_seen : ∀ (is seen : List Inst), namesNodup seen →
    (∃ p ∈ seen, ∃ i ∈ is, p.name = i.name ∧ p.src ≠ i.src) → emitInsts seen is = none
  | [], _, _, ⟨_, _, i, hi, _⟩ => by simp at hi
  | j :: rest, seen, hn, ⟨p, hp, i, hi, hname, hsrc⟩ => by
    simp only [emitInsts]
    cases hf : findSeen j.name seen with
    | some prior =>
      simp only []
      by_cases hps : prior.src ≠ j.src
      · simp [hps]
      · simp only [hps, ↓reduceIte]
        rcases List.mem_cons.1 hi with e | hi'
        · subst e
          have := findSeen_of_mem i.name seen p hn hp hname
          rw [this] at hf; injection hf with hf; subst hf
          exact absurd hsrc hps
        · exact emitInsts_clash_seen rest seen hn ⟨p, hp, i, hi', hname, hsrc⟩
    | none =>
      simp only []
      have hnone := (findSeen_none_iff j.name seen).1 hf
      have hn' : namesNodup (j :: seen) := by
        simp only [namesNodup, List.map_cons, List.nodup_cons]
        refine ⟨?_, hn⟩
        intro hm
        obtain ⟨q, hq, hqn⟩ := List.mem_map.1 hm
        exact hnone q hq hqn
      rcases List.mem_cons.1 hi with e | hi'
      · subst e; exact absurd hname (hnone p hp)
      · rw [emitInsts_clash_seen rest (j :: seen) hn' ⟨p, List.mem_cons_of_mem _ hp, i, hi', hname, hsrc⟩]; rfl

/-- **instance-id clash**: two instances with the same id and different sources — a select from `x.csv` and one from
    `x.xml`, a file select and an `xml-external`, a choices list and a file … — are rejected at whatever positions
    they stand and whatever stands between them -/
theorem instance_clash_rejected (i1 i2 : Inst) (hname : i1.name = i2.name) (hsrc : i1.src ≠ i2.src) :
    ∀ (pre rest seen : List Inst), namesNodup seen → i2 ∈ rest → emitInsts seen (pre ++ i1 :: rest) = none
  | [], rest, seen, hn, hm => by
    simp only [List.nil_append, emitInsts]
    cases hf : findSeen i1.name seen with
    | some prior =>
      simp only []
      by_cases hps : prior.src ≠ i1.src
      · simp [hps]
      · simp only [hps, ↓reduceIte]
        have hpm : prior ∈ seen ∧ prior.name = i1.name := by
          clear hps
          induction seen with
          | nil => simp [findSeen] at hf
          | cons q qs ih =>
            simp only [findSeen] at hf
            by_cases hq : q.name = i1.name
            · simp only [hq, ↓reduceIte] at hf; injection hf with hf; subst hf; exact ⟨by simp, hq⟩
            · simp only [hq, ↓reduceIte] at hf
              have hn2 : namesNodup qs := by
                have : q.name ∉ qs.map (·.name) ∧ namesNodup qs := by simpa [namesNodup, List.nodup_cons] using hn
                exact this.2
              have := ih hn2 hf
              exact ⟨List.mem_cons_of_mem _ this.1, this.2⟩
        have hne : prior.src ≠ i2.src := by
          intro e; apply hsrc; rw [← e]; exact (Classical.not_not.1 hps).symm
        exact emitInsts_clash_seen rest seen hn ⟨prior, hpm.1, i2, hm, by rw [hpm.2, hname], hne⟩
    | none =>
      simp only []
      have hnone := (findSeen_none_iff i1.name seen).1 hf
      have hn' : namesNodup (i1 :: seen) := by
        simp only [namesNodup, List.map_cons, List.nodup_cons]
        refine ⟨?_, hn⟩
        intro hm'
        obtain ⟨q, hq, hqn⟩ := List.mem_map.1 hm'
        exact hnone q hq hqn
      rw [emitInsts_clash_seen rest (i1 :: seen) hn' ⟨i1, by simp, i2, hm, hname, hsrc⟩]; rfl
  | p :: ps, rest, seen, hn, hm => by
    simp only [List.cons_append, emitInsts]
    cases hf : findSeen p.name seen with
    | some prior =>
      simp only []
      by_cases hps : prior.src ≠ p.src
      · simp [hps]
      · simp only [hps, ↓reduceIte]
        exact instance_clash_rejected i1 i2 hname hsrc ps rest seen hn hm
    | none =>
      simp only []
      have hnone := (findSeen_none_iff p.name seen).1 hf
      have hn' : namesNodup (p :: seen) := by
        simp only [namesNodup, List.map_cons, List.nodup_cons]
        refine ⟨?_, hn⟩
        intro hm'
        obtain ⟨q, hq, hqn⟩ := List.mem_map.1 hm'
        exact hnone q hq hqn
      rw [instance_clash_rejected i1 i2 hname hsrc ps rest (p :: seen) hn' hm]; rfl

example : emitInsts []
    [{ kind := c!"file", name := c!"places", src := some c!"jr://file-csv/places.csv", items := [] },
     { kind := c!"choice", name := c!"l", src := none, items := [] },
     { kind := c!"file", name := c!"places", src := some c!"jr://file/places.xml", items := [] }] = none := by
  decide +kernel

end Pyxv.C17
