import Pyxv.Proofs.SpellLemmas
import Pyxv.Proofs.SpellCleanLemmas
/-! Lemmas about `process_header`: splitting on `::` / `:` and the token list it computes. -/
namespace Pyxv.Spell
open Pyxv

def noColon (x : Str) : Prop := ∀ c ∈ x, c ≠ ':'

theorem splitDC_cons_ne (c : Char) (r : Str) (h : c ≠ ':') :
    splitDC (c :: r) = match splitDC r with | f :: fs => (c :: f) :: fs | [] => [[c]] := by
  rw [splitDC]
  all_goals first
    | (intro rest e _; exact absurd e h)
    | (cases splitDC r <;> rfl)

theorem splitDC_append (x z : Str) (hx : noColon x) : splitDC (x ++ ':' :: ':' :: z) = x :: splitDC z := by
  induction x with
  | nil => simp [splitDC]
  | cons c r ih =>
    have hc : c ≠ ':' := hx c (by simp)
    simp only [List.cons_append]
    rw [splitDC_cons_ne c _ hc, ih (fun y hy => hx y (by simp [hy]))]

theorem splitDC_noColon (x : Str) (hx : noColon x) : splitDC x = [x] := by
  induction x with
  | nil => simp [splitDC]
  | cons c r ih =>
    rw [splitDC_cons_ne c _ (hx c (by simp)), ih (fun y hy => hx y (by simp [hy]))]

theorem splitDC_join (xs : List Str) (h : ∀ x ∈ xs, noColon x) (hne : xs ≠ []) :
    splitDC (joinWith [':', ':'] xs) = xs := by
  induction xs with
  | nil => exact absurd rfl hne
  | cons x rest ih =>
    cases rest with
    | nil => simpa [joinWith] using splitDC_noColon x (h x (by simp))
    | cons y ys =>
      have e : joinWith [':', ':'] (x :: y :: ys) = x ++ ':' :: ':' :: joinWith [':', ':'] (y :: ys) := by
        simp [joinWith]
      rw [e, splitDC_append _ _ (h x (by simp)), ih (fun z hz => h z (by simp at hz ⊢; exact Or.inr hz)) (by simp)]

theorem splitOnChar_ne_nil (c : Char) (s : Str) : splitOnChar c s ≠ [] := by
  induction s with
  | nil => simp [splitOnChar]
  | cons x xs ih =>
    simp only [splitOnChar]
    cases splitOnChar c xs with
    | nil => simp
    | cons f fs => simp only; split <;> simp

theorem splitOnChar_append (x z : Str) (hx : noColon x) :
    splitOnChar ':' (x ++ ':' :: z) = x :: splitOnChar ':' z := by
  induction x with
  | nil =>
    simp only [List.nil_append, splitOnChar]
    cases h : splitOnChar ':' z with
    | nil => exact absurd h (splitOnChar_ne_nil _ _)
    | cons f fs => simp
  | cons c r ih =>
    have hc : c ≠ ':' := hx c (by simp)
    simp only [List.cons_append, splitOnChar]
    rw [ih (fun y hy => hx y (by simp [hy]))]
    simp [hc]

theorem splitOnChar_noColon (x : Str) (hx : noColon x) : splitOnChar ':' x = [x] := by
  induction x with
  | nil => simp [splitOnChar]
  | cons c r ih =>
    simp only [splitOnChar]
    rw [ih (fun y hy => hx y (by simp [hy]))]
    simp [hx c (by simp)]

theorem splitOnChar_join (xs : List Str) (h : ∀ x ∈ xs, noColon x) (hne : xs ≠ []) :
    splitOnChar ':' (joinWith [':'] xs) = xs := by
  induction xs with
  | nil => exact absurd rfl hne
  | cons x rest ih =>
    cases rest with
    | nil => simpa [joinWith] using splitOnChar_noColon x (h x (by simp))
    | cons y ys =>
      have e : joinWith [':'] (x :: y :: ys) = x ++ ':' :: joinWith [':'] (y :: ys) := by simp [joinWith]
      rw [e, splitOnChar_append _ _ (h x (by simp)), ih (fun z hz => h z (by simp at hz ⊢; exact Or.inr hz)) (by simp)]

theorem hasDC_append_noColon (x z : Str) (hx : noColon x) (hne : x ≠ []) :
    hasDC (x ++ ':' :: z) = hasDC (':' :: z) := by
  induction x with
  | nil => exact absurd rfl hne
  | cons c r ih =>
    have hc : c ≠ ':' := hx c (by simp)
    cases r with
    | nil =>
      simp only [List.cons_append, List.nil_append]
      rw [hasDC]
      · intro r' e; cases e; exact absurd rfl hc
    | cons d r' =>
      simp only [List.cons_append]
      rw [hasDC]
      · exact ih (fun y hy => hx y (by simp [hy])) (by simp)
      · intro r'' e; cases e; exact absurd rfl hc

theorem hasDC_noColon (x : Str) (hx : noColon x) : hasDC x = false := by
  induction x with
  | nil => rfl
  | cons c r ih =>
    rw [hasDC]
    · exact ih (fun y hy => hx y (by simp [hy]))
    · intro r' e; cases e; exact absurd rfl (hx ':' (by simp))

/-- single-colon joins of non-empty colon-free tokens contain no `::` -/
theorem hasDC_join_single (xs : List Str) (h : ∀ x ∈ xs, noColon x ∧ x ≠ []) : hasDC (joinWith [':'] xs) = false := by
  induction xs with
  | nil => rfl
  | cons x rest ih =>
    cases rest with
    | nil => simpa [joinWith] using hasDC_noColon x (h x (by simp)).1
    | cons y ys =>
      have e : joinWith [':'] (x :: y :: ys) = x ++ ':' :: joinWith [':'] (y :: ys) := by simp [joinWith]
      rw [e, hasDC_append_noColon _ _ (h x (by simp)).1 (h x (by simp)).2]
      have hy := h y (by simp)
      have ihh := ih (fun z hz => h z (by simp at hz ⊢; exact Or.inr hz))
      -- the join of the rest starts with a character of `y`, which is not a colon
      obtain ⟨c, r, hyy⟩ : ∃ c r, y = c :: r := by
        cases hy' : y with
        | nil => exact absurd hy' hy.2
        | cons c r => exact ⟨c, r, rfl⟩
      · have hc : c ≠ ':' := hy.1 c (by simp [hyy])
        have e2 : ∃ t, joinWith [':'] (y :: ys) = c :: t := by
          cases ys with
          | nil => exact ⟨r, by simp [joinWith, hyy]⟩
          | cons z zs => exact ⟨r ++ ':' :: joinWith [':'] (z :: zs), by simp [joinWith, hyy]⟩
        obtain ⟨t, et⟩ := e2
        rw [et] at ihh ⊢
        rw [hasDC]
        all_goals first
          | exact ihh
          | (intro r' e; cases e; exact hc rfl)
          | (intro r' _ e; cases e; exact hc rfl)

theorem jrJoin_none (ts : List Str) (h : ['j', 'r'] ∉ ts) : jrJoin ts = .ok ts := by
  induction ts with
  | nil => rfl
  | cons t rest ih =>
    simp only [List.mem_cons, not_or] at h
    simp only [jrJoin, Ne.symm h.1, if_false, ih h.2]
    rfl

end Pyxv.Spell

namespace Pyxv.Spell
open Pyxv

theorem mem_splitWs (c : Char) (hc : pyIsSpace c = false) : ∀ (s : Str), c ∈ s → ∃ w ∈ splitWs s, c ∈ w := by
  intro s
  induction s with
  | nil => intro h; cases h
  | cons x xs ih =>
    intro h
    by_cases hx : pyIsSpace x = true
    · rw [splitWs_space _ _ hx]
      simp only [List.mem_cons] at h
      rcases h with rfl | h
      · rw [hx] at hc; cases hc
      · exact ih h
    · have hx' : pyIsSpace x = false := by simpa using hx
      cases xs with
      | nil =>
        rw [splitWs_single x hx']
        simp only [List.mem_cons, List.not_mem_nil, or_false] at h
        exact ⟨[x], by simp, by simp [h]⟩
      | cons d ds =>
        by_cases hd : pyIsSpace d = true
        · rw [splitWs_ns_sp x d ds hx' hd]
          simp only [List.mem_cons] at h
          rcases h with rfl | h
          · exact ⟨[c], by simp, by simp⟩
          · obtain ⟨w, hw, hcw⟩ := ih (by simpa using h)
            exact ⟨w, by simp [hw], hcw⟩
        · have hd' : pyIsSpace d = false := by simpa using hd
          rw [splitWs_ns_ns x d ds hx' hd']
          have hne := splitWs_ne_nil d ds hd'
          cases hs : splitWs (d :: ds) with
          | nil => exact absurd hs hne
          | cons w ws =>
            simp only [List.mem_cons] at h
            rcases h with rfl | h
            · exact ⟨c :: w, by simp, by simp⟩
            · obtain ⟨w', hw', hcw'⟩ := ih (by simpa using h)
              rw [hs] at hw'
              simp only [List.mem_cons] at hw'
              rcases hw' with rfl | hw'
              · exact ⟨x :: w', by simp, by simp [hcw']⟩
              · exact ⟨w', by simp [hw'], hcw'⟩

theorem mem_joinWith (sep : Str) (c : Char) : ∀ (l : List Str) (w : Str), w ∈ l → c ∈ w → c ∈ joinWith sep l := by
  intro l
  induction l with
  | nil => intro w h; cases h
  | cons x rest ih =>
    intro w hw hc
    cases rest with
    | nil => simp only [List.mem_cons, List.not_mem_nil, or_false] at hw; subst hw; simpa [joinWith] using hc
    | cons y ys =>
      simp only [joinWith, List.mem_append]
      simp only [List.mem_cons] at hw
      rcases hw with rfl | hw
      · exact Or.inl (Or.inl hc)
      · exact Or.inr (ih w (by simpa using hw) hc)

theorem colon_mem_toSnake (h : Str) (hc : ':' ∈ h) : ':' ∈ toSnake h := by
  rw [toSnake_lower_first]
  have : ':' ∈ pyLower h := by
    have := List.mem_map_of_mem (f := lowerChar) hc
    simpa [pyLower, show lowerChar ':' = ':' by decide] using this
  obtain ⟨w, hw, hcw⟩ := mem_splitWs ':' (by decide) _ this
  exact mem_joinWith _ _ _ w hw hcw

/-- the token tuple `process_header` returns once the header has been split into `toks` -/
def tokensOf (T : HeaderTables) : List Str → List Str
  | [] => []
  | t0 :: rest =>
    let nh := toSnake t0
    match lookup nh T.aliases with
    | some d =>
      if d.isEmpty || d = [[]] then (if T.columns.contains nh then nh :: rest else t0 :: rest)
      else d ++ rest
    | none => if T.columns.contains nh then nh :: rest else t0 :: rest

/-- a header that contains a colon is never one of the (colon-free) expected columns, so
    `process_header` splits it and its tokens depend on the split alone -/
theorem processHeader_tokens (T : HeaderTables) (d : Bool) (h : Str) (toks : List Str)
    (hcols : ∀ c ∈ T.columns, noColon c) (hc : ':' ∈ h)
    (ht : (if d || hasDC h then (Except.ok ((splitDC h).map strip) : Except HdrErr (List Str))
           else jrJoin ((splitOnChar ':' h).map strip)) = .ok toks) :
    (processHeader T d h).map (·.tokens) = .ok (tokensOf T toks) := by
  have h1 : T.columns.contains h = false := by
    rw [Bool.eq_false_iff]; intro hm
    have := hcols h (by simpa using hm)
    exact this ':' hc rfl
  have h2 : T.columns.contains (toSnake h) = false := by
    rw [Bool.eq_false_iff]; intro hm
    have := hcols (toSnake h) (by simpa using hm)
    exact this ':' (colon_mem_toSnake h hc) rfl
  unfold processHeader
  simp only [h1, h2, Bool.false_and, Bool.false_eq_true, if_false]
  rw [ht]
  cases toks with
  | nil => rfl
  | cons t0 rest =>
    simp only [tokensOf]
    cases lookup (toSnake t0) T.aliases with
    | none => simp only; split <;> rfl
    | some dd =>
      simp only
      split
      · split <;> rfl
      · rfl

end Pyxv.Spell

namespace Pyxv.Spell
open Pyxv

theorem hasDC_mid (a b : Str) : hasDC (a ++ ':' :: ':' :: b) = true := by
  induction a with
  | nil => simp [hasDC]
  | cons c r ih =>
    simp only [List.cons_append]
    rw [hasDC.eq_def]
    split
    · rfl
    · rename_i heq; cases heq; exact ih
    · rename_i heq; cases heq

theorem colon_mem_join (sep : Str) (hs : ':' ∈ sep) (xs : List Str) (h : 2 ≤ xs.length) : ':' ∈ joinWith sep xs := by
  match xs, h with
  | x :: y :: rest, _ => simp [joinWith, hs]

theorem hasDC_join_double (xs : List Str) (h : 2 ≤ xs.length) : hasDC (joinWith [':', ':'] xs) = true := by
  match xs, h with
  | x :: y :: rest, _ =>
    have : joinWith [':', ':'] (x :: y :: rest) = x ++ ':' :: ':' :: joinWith [':', ':'] (y :: rest) := by simp [joinWith]
    rw [this]; exact hasDC_mid _ _

end Pyxv.Spell

namespace Pyxv.Spell
open Pyxv

theorem splitWs_lstrip (x : Str) : splitWs (lstrip x) = splitWs x := by
  induction x with
  | nil => rfl
  | cons c r ih =>
    rw [lstrip_cons]
    by_cases hc : sp c = true
    · simp only [hc, if_true]; rw [ih, splitWs_space _ _ hc]
    · simp [hc]

theorem splitWs_all_ws (x : Str) (h : ∀ c ∈ x, sp c = true) : splitWs x = [] := by
  induction x with
  | nil => rfl
  | cons c r ih => rw [splitWs_space _ _ (h c (by simp))]; exact ih (fun y hy => h y (by simp [hy]))

theorem rstrip_eq_nil_all_ws (x : Str) (h : rstrip x = []) : ∀ c ∈ x, sp c = true := by
  induction x with
  | nil => simp
  | cons c r ih =>
    rw [rstrip_cons] at h
    by_cases h0 : rstrip r = [] ∧ sp c = true
    · intro y hy
      simp only [List.mem_cons] at hy
      rcases hy with rfl | hy
      · exact h0.2
      · exact ih h0.1 y hy
    · simp [h0] at h

theorem splitWs_rstrip (x : Str) : splitWs (rstrip x) = splitWs x := by
  induction x with
  | nil => rfl
  | cons c r ih =>
    rw [rstrip_cons]
    by_cases h0 : rstrip r = [] ∧ sp c = true
    · simp only [h0, and_self, if_true]
      rw [splitWs_space _ _ h0.2, splitWs_all_ws r (rstrip_eq_nil_all_ws r h0.1)]; rfl
    · simp only [h0, if_false]
      by_cases hc : sp c = true
      · rw [splitWs_space _ _ hc, splitWs_space _ _ hc, ih]
      · have hc' : pyIsSpace c = false := by simpa using hc
        by_cases hr : rstrip r = []
        · have hall := rstrip_eq_nil_all_ws r hr
          rw [hr, splitWs_single c hc']
          cases r with
          | nil => exact (splitWs_single c hc').symm
          | cons d ds =>
            have hd : pyIsSpace d = true := hall d (by simp)
            rw [splitWs_ns_sp c d ds hc' hd, splitWs_all_ws (d :: ds) hall]
        · cases r with
          | nil => exact absurd rfl hr
          | cons d ds =>
            have hh := rstrip_head (d :: ds) hr
            obtain ⟨d', ds', hrs⟩ : ∃ d' ds', rstrip (d :: ds) = d' :: ds' := by
              cases h : rstrip (d :: ds) with
              | nil => exact absurd h hr
              | cons a b => exact ⟨a, b, rfl⟩
            rw [hrs] at hh
            simp only [List.head?_cons, Option.some.injEq] at hh
            subst hh
            rw [hrs] at ih ⊢
            by_cases hd : pyIsSpace d' = true
            · rw [splitWs_ns_sp c d' ds' hc' hd, splitWs_ns_sp c d' ds hc' hd, ih]
            · have hd' : pyIsSpace d' = false := by simpa using hd
              rw [splitWs_ns_ns c d' ds' hc' hd', splitWs_ns_ns c d' ds hc' hd', ih]

theorem toSnake_strip (x : Str) : toSnake (strip x) = toSnake x := by
  unfold toSnake strip
  rw [splitWs_rstrip, splitWs_lstrip]

/-- `s` is an expected column or an alias key of the sheet -/
def known (T : HeaderTables) (s : Str) : Bool := T.columns.contains s || (lookup s T.aliases).isSome

/-- decidable sanity of a sheet's header tables: a non-alias column whose snake-case form is known is
    already in snake case; `jr` is not a known header; no alias has an empty value -/
def tableSane (T : HeaderTables) : Bool :=
  (T.columns.all fun c => (lookup c T.aliases).isSome || !(known T (toSnake c)) || toSnake c == c) &&
  !(known T ['j', 'r']) &&
  (T.aliases.all fun p => !(p.2.isEmpty || p.2 == [[]]))

/-- the token tuple of a delimiter-free header, as a function of its snake-case normal form -/
def canonTokens (T : HeaderTables) (s : Str) : List Str :=
  if T.columns.contains s && (lookup s T.aliases).isNone then [s]
  else match lookup s T.aliases with
    | some d => d
    | none => [s]

theorem lookup_mem {β} (k : Str) (l : List (Str × β)) (v : β) (h : lookup k l = some v) : (k, v) ∈ l := by
  induction l with
  | nil => simp [lookup] at h
  | cons p rest ih =>
    obtain ⟨k', v'⟩ := p
    simp only [lookup] at h
    by_cases hk : k = k'
    · simp only [hk, if_true, Option.some.injEq] at h; subst h; subst hk; simp
    · simp only [hk, if_false] at h; exact List.mem_cons_of_mem _ (ih h)

/-- **a delimiter-free header is read through its snake-case normal form only** -/
theorem processHeader_nf (T : HeaderTables) (hT : tableSane T = true) (d : Bool) (x : Str)
    (hx : noColon x) (hk : known T (toSnake x) = true) :
    (processHeader T d x).map (·.tokens) = .ok (canonTokens T (toSnake x)) := by
  simp only [tableSane, Bool.and_eq_true] at hT
  obtain ⟨⟨hcol, hjr⟩, hal⟩ := hT
  have hjr' : known T ['j', 'r'] = false := by simpa using hjr
  unfold processHeader
  by_cases b1 : (T.columns.contains x && (lookup x T.aliases).isNone) = true
  · simp only [b1, if_true]
    simp only [Bool.and_eq_true] at b1
    have hmem : x ∈ T.columns := by simpa using b1.1
    have := List.all_eq_true.mp hcol x hmem
    have hnone : (lookup x T.aliases).isSome = false := by
      cases h : lookup x T.aliases <;> simp_all
    simp only [hnone, hk, Bool.not_true, Bool.false_or, beq_iff_eq] at this
    simp only [Except.map, canonTokens, this, b1.1, b1.2, Bool.and_self, if_true]
  · simp only [b1, Bool.false_eq_true, if_false]
    by_cases b2 : (T.columns.contains (toSnake x) && (lookup (toSnake x) T.aliases).isNone) = true
    · simp only [b2, if_true, Except.map, canonTokens]
    · simp only [b2, Bool.false_eq_true, if_false]
      have hs : strip x ≠ ['j', 'r'] := by
        intro e
        have : toSnake x = ['j', 'r'] := by rw [← toSnake_strip, e]; decide
        rw [this, hjr'] at hk; cases hk
      have htoks : (if (d || hasDC x) = true then (Except.ok ((splitDC x).map strip) : Except HdrErr (List Str))
          else jrJoin ((splitOnChar ':' x).map strip)) = .ok [strip x] := by
        rw [hasDC_noColon x hx, splitDC_noColon x hx, splitOnChar_noColon x hx]
        cases d with
        | true => rfl
        | false =>
          simp only [Bool.or_self, Bool.false_eq_true, if_false, List.map_cons, List.map_nil]
          exact jrJoin_none [strip x] (by simpa using Ne.symm hs)
      rw [htoks]
      simp only [toSnake_strip]
      cases hl : lookup (toSnake x) T.aliases with
      | some dd =>
        have hmem := lookup_mem _ _ _ hl
        have hf := List.all_eq_true.mp hal _ hmem
        have hf' : (dd.isEmpty || dd == [[]]) = false := by simpa using hf
        have hne : ¬(dd = [] ∨ dd = [[]]) := by
          simp only [Bool.or_eq_false_iff, beq_eq_false_iff_ne] at hf'
          rintro (h | h)
          · subst h; simp at hf'
          · exact hf'.2 h
        have hb : (T.columns.contains (toSnake x) && (lookup (toSnake x) T.aliases).isNone) = false := by
          simp [hl]
        simp [Except.map, canonTokens, hl, hne]
      | none =>
        exfalso
        simp only [known, hl, Option.isSome_none, Bool.or_false] at hk
        simp [hl] at b2
        exact b2 (by simpa using hk)

end Pyxv.Spell
