import Pyxv.Proofs.SpellLemmas
/-! Lemmas about `process_header`: splitting on `::` / `:` and the token list it computes. -/
namespace Pyxv.Spell
open Pyxv

def noColon (x : Str) : Prop := ∀ c ∈ x, c ≠ ':'

theorem splitDC_cons_ne (c : Char) (r : Str) (h : c ≠ ':') :
    splitDC (c :: r) = match splitDC r with | f :: fs => (c :: f) :: fs | [] => [[c]] := by
  rw [splitDC]
  all_goals first
    | (intro rest e _; exact absurd e h)
    | (cases splitDC r <;> rfl)

theorem splitDC_append (x z : Str) (hx : noColon x) : splitDC (x ++ ':' :: ':' :: z) = x :: splitDC z := by
  induction x with
  | nil => simp [splitDC]
  | cons c r ih =>
    have hc : c ≠ ':' := hx c (by simp)
    simp only [List.cons_append]
    rw [splitDC_cons_ne c _ hc, ih (fun y hy => hx y (by simp [hy]))]

theorem splitDC_noColon (x : Str) (hx : noColon x) : splitDC x = [x] := by
  induction x with
  | nil => simp [splitDC]
  | cons c r ih =>
    rw [splitDC_cons_ne c _ (hx c (by simp)), ih (fun y hy => hx y (by simp [hy]))]

theorem splitDC_join (xs : List Str) (h : ∀ x ∈ xs, noColon x) (hne : xs ≠ []) :
    splitDC (joinWith [':', ':'] xs) = xs := by
  induction xs with
  | nil => exact absurd rfl hne
  | cons x rest ih =>
    cases rest with
    | nil => simpa [joinWith] using splitDC_noColon x (h x (by simp))
    | cons y ys =>
      have e : joinWith [':', ':'] (x :: y :: ys) = x ++ ':' :: ':' :: joinWith [':', ':'] (y :: ys) := by
        simp [joinWith]
      rw [e, splitDC_append _ _ (h x (by simp)), ih (fun z hz => h z (by simp at hz ⊢; exact Or.inr hz)) (by simp)]

theorem splitOnChar_ne_nil (c : Char) (s : Str) : splitOnChar c s ≠ [] := by
  induction s with
  | nil => simp [splitOnChar]
  | cons x xs ih =>
    simp only [splitOnChar]
    cases splitOnChar c xs with
    | nil => simp
    | cons f fs => simp only; split <;> simp

theorem splitOnChar_append (x z : Str) (hx : noColon x) :
    splitOnChar ':' (x ++ ':' :: z) = x :: splitOnChar ':' z := by
  induction x with
  | nil =>
    simp only [List.nil_append, splitOnChar]
    cases h : splitOnChar ':' z with
    | nil => exact absurd h (splitOnChar_ne_nil _ _)
    | cons f fs => simp
  | cons c r ih =>
    have hc : c ≠ ':' := hx c (by simp)
    simp only [List.cons_append, splitOnChar]
    rw [ih (fun y hy => hx y (by simp [hy]))]
    simp [hc]

theorem splitOnChar_noColon (x : Str) (hx : noColon x) : splitOnChar ':' x = [x] := by
  induction x with
  | nil => simp [splitOnChar]
  | cons c r ih =>
    simp only [splitOnChar]
    rw [ih (fun y hy => hx y (by simp [hy]))]
    simp [hx c (by simp)]

theorem splitOnChar_join (xs : List Str) (h : ∀ x ∈ xs, noColon x) (hne : xs ≠ []) :
    splitOnChar ':' (joinWith [':'] xs) = xs := by
  induction xs with
  | nil => exact absurd rfl hne
  | cons x rest ih =>
    cases rest with
    | nil => simpa [joinWith] using splitOnChar_noColon x (h x (by simp))
    | cons y ys =>
      have e : joinWith [':'] (x :: y :: ys) = x ++ ':' :: joinWith [':'] (y :: ys) := by simp [joinWith]
      rw [e, splitOnChar_append _ _ (h x (by simp)), ih (fun z hz => h z (by simp at hz ⊢; exact Or.inr hz)) (by simp)]

theorem hasDC_append_noColon (x z : Str) (hx : noColon x) (hne : x ≠ []) :
    hasDC (x ++ ':' :: z) = hasDC (':' :: z) := by
  induction x with
  | nil => exact absurd rfl hne
  | cons c r ih =>
    have hc : c ≠ ':' := hx c (by simp)
    cases r with
    | nil =>
      simp only [List.cons_append, List.nil_append]
      rw [hasDC]
      · intro r' e; cases e; exact absurd rfl hc
    | cons d r' =>
      simp only [List.cons_append]
      rw [hasDC]
      · exact ih (fun y hy => hx y (by simp [hy])) (by simp)
      · intro r'' e; cases e; exact absurd rfl hc

theorem hasDC_noColon (x : Str) (hx : noColon x) : hasDC x = false := by
  induction x with
  | nil => rfl
  | cons c r ih =>
    rw [hasDC]
    · exact ih (fun y hy => hx y (by simp [hy]))
    · intro r' e; cases e; exact absurd rfl (hx ':' (by simp))

/-- single-colon joins of non-empty colon-free tokens contain no `::` -/
theorem hasDC_join_single (xs : List Str) (h : ∀ x ∈ xs, noColon x ∧ x ≠ []) : hasDC (joinWith [':'] xs) = false := by
  induction xs with
  | nil => rfl
  | cons x rest ih =>
    cases rest with
    | nil => simpa [joinWith] using hasDC_noColon x (h x (by simp)).1
    | cons y ys =>
      have e : joinWith [':'] (x :: y :: ys) = x ++ ':' :: joinWith [':'] (y :: ys) := by simp [joinWith]
      rw [e, hasDC_append_noColon _ _ (h x (by simp)).1 (h x (by simp)).2]
      have hy := h y (by simp)
      have ihh := ih (fun z hz => h z (by simp at hz ⊢; exact Or.inr hz))
      -- the join of the rest starts with a character of `y`, which is not a colon
      obtain ⟨c, r, hyy⟩ : ∃ c r, y = c :: r := by
        cases hy' : y with
        | nil => exact absurd hy' hy.2
        | cons c r => exact ⟨c, r, rfl⟩
      · have hc : c ≠ ':' := hy.1 c (by simp [hyy])
        have e2 : ∃ t, joinWith [':'] (y :: ys) = c :: t := by
          cases ys with
          | nil => exact ⟨r, by simp [joinWith, hyy]⟩
          | cons z zs => exact ⟨r ++ ':' :: joinWith [':'] (z :: zs), by simp [joinWith, hyy]⟩
        obtain ⟨t, et⟩ := e2
        rw [et] at ihh ⊢
        rw [hasDC]
        all_goals first
          | exact ihh
          | (intro r' e; cases e; exact hc rfl)
          | (intro r' _ e; cases e; exact hc rfl)

theorem jrJoin_none (ts : List Str) (h : ['j', 'r'] ∉ ts) : jrJoin ts = .ok ts := by
  induction ts with
  | nil => rfl
  | cons t rest ih =>
    simp only [List.mem_cons, not_or] at h
    simp only [jrJoin, Ne.symm h.1, if_false, ih h.2]
    rfl

end Pyxv.Spell

namespace Pyxv.Spell
open Pyxv

theorem mem_splitWs (c : Char) (hc : pyIsSpace c = false) : ∀ (s : Str), c ∈ s → ∃ w ∈ splitWs s, c ∈ w := by
  intro s
  induction s with
  | nil => intro h; cases h
  | cons x xs ih =>
    intro h
    by_cases hx : pyIsSpace x = true
    · rw [splitWs_space _ _ hx]
      simp only [List.mem_cons] at h
      rcases h with rfl | h
      · rw [hx] at hc; cases hc
      · exact ih h
    · have hx' : pyIsSpace x = false := by simpa using hx
      cases xs with
      | nil =>
        rw [splitWs_single x hx']
        simp only [List.mem_cons, List.not_mem_nil, or_false] at h
        exact ⟨[x], by simp, by simp [h]⟩
      | cons d ds =>
        by_cases hd : pyIsSpace d = true
        · rw [splitWs_ns_sp x d ds hx' hd]
          simp only [List.mem_cons] at h
          rcases h with rfl | h
          · exact ⟨[c], by simp, by simp⟩
          · obtain ⟨w, hw, hcw⟩ := ih (by simpa using h)
            exact ⟨w, by simp [hw], hcw⟩
        · have hd' : pyIsSpace d = false := by simpa using hd
          rw [splitWs_ns_ns x d ds hx' hd']
          have hne := splitWs_ne_nil d ds hd'
          cases hs : splitWs (d :: ds) with
          | nil => exact absurd hs hne
          | cons w ws =>
            simp only [List.mem_cons] at h
            rcases h with rfl | h
            · exact ⟨c :: w, by simp, by simp⟩
            · obtain ⟨w', hw', hcw'⟩ := ih (by simpa using h)
              rw [hs] at hw'
              simp only [List.mem_cons] at hw'
              rcases hw' with rfl | hw'
              · exact ⟨x :: w', by simp, by simp [hcw']⟩
              · exact ⟨w', by simp [hw'], hcw'⟩

theorem mem_joinWith (sep : Str) (c : Char) : ∀ (l : List Str) (w : Str), w ∈ l → c ∈ w → c ∈ joinWith sep l := by
  intro l
  induction l with
  | nil => intro w h; cases h
  | cons x rest ih =>
    intro w hw hc
    cases rest with
    | nil => simp only [List.mem_cons, List.not_mem_nil, or_false] at hw; subst hw; simpa [joinWith] using hc
    | cons y ys =>
      simp only [joinWith, List.mem_append]
      simp only [List.mem_cons] at hw
      rcases hw with rfl | hw
      · exact Or.inl (Or.inl hc)
      · exact Or.inr (ih w (by simpa using hw) hc)

theorem colon_mem_toSnake (h : Str) (hc : ':' ∈ h) : ':' ∈ toSnake h := by
  rw [toSnake_lower_first]
  have : ':' ∈ pyLower h := by
    have := List.mem_map_of_mem (f := lowerChar) hc
    simpa [pyLower, show lowerChar ':' = ':' by decide] using this
  obtain ⟨w, hw, hcw⟩ := mem_splitWs ':' (by decide) _ this
  exact mem_joinWith _ _ _ w hw hcw

/-- the token tuple `process_header` returns once the header has been split into `toks` -/
def tokensOf (T : HeaderTables) : List Str → List Str
  | [] => []
  | t0 :: rest =>
    let nh := toSnake t0
    match lookup nh T.aliases with
    | some d =>
      if d.isEmpty || d = [[]] then (if T.columns.contains nh then nh :: rest else t0 :: rest)
      else d ++ rest
    | none => if T.columns.contains nh then nh :: rest else t0 :: rest

/-- a header that contains a colon is never one of the (colon-free) expected columns, so
    `process_header` splits it and its tokens depend on the split alone -/
theorem processHeader_tokens (T : HeaderTables) (d : Bool) (h : Str) (toks : List Str)
    (hcols : ∀ c ∈ T.columns, noColon c) (hc : ':' ∈ h)
    (ht : (if d || hasDC h then (Except.ok ((splitDC h).map strip) : Except HdrErr (List Str))
           else jrJoin ((splitOnChar ':' h).map strip)) = .ok toks) :
    (processHeader T d h).map (·.tokens) = .ok (tokensOf T toks) := by
  have h1 : T.columns.contains h = false := by
    rw [Bool.eq_false_iff]; intro hm
    have := hcols h (by simpa using hm)
    exact this ':' hc rfl
  have h2 : T.columns.contains (toSnake h) = false := by
    rw [Bool.eq_false_iff]; intro hm
    have := hcols (toSnake h) (by simpa using hm)
    exact this ':' (colon_mem_toSnake h hc) rfl
  unfold processHeader
  simp only [h1, h2, Bool.false_and, Bool.false_eq_true, if_false]
  rw [ht]
  cases toks with
  | nil => rfl
  | cons t0 rest =>
    simp only [tokensOf]
    cases lookup (toSnake t0) T.aliases with
    | none => simp only; split <;> rfl
    | some dd =>
      simp only
      split
      · split <;> rfl
      · rfl

end Pyxv.Spell

namespace Pyxv.Spell
open Pyxv

theorem hasDC_mid (a b : Str) : hasDC (a ++ ':' :: ':' :: b) = true := by
  induction a with
  | nil => simp [hasDC]
  | cons c r ih =>
    simp only [List.cons_append]
    rw [hasDC.eq_def]
    split
    · rfl
    · rename_i heq; cases heq; exact ih
    · rename_i heq; cases heq

theorem colon_mem_join (sep : Str) (hs : ':' ∈ sep) (xs : List Str) (h : 2 ≤ xs.length) : ':' ∈ joinWith sep xs := by
  match xs, h with
  | x :: y :: rest, _ => simp [joinWith, hs]

theorem hasDC_join_double (xs : List Str) (h : 2 ≤ xs.length) : hasDC (joinWith [':', ':'] xs) = true := by
  match xs, h with
  | x :: y :: rest, _ =>
    have : joinWith [':', ':'] (x :: y :: rest) = x ++ ':' :: ':' :: joinWith [':', ':'] (y :: rest) := by simp [joinWith]
    rw [this]; exact hasDC_mid _ _

end Pyxv.Spell
