import Pyxv.Proofs.RowsLemmas
import Pyxv.Model.TableList
/-!
# C02 — model, instance and body agree: every nodeset/ref names one existing node

Property theorems about the structural pipeline `Rows.formOut` (classification of rows →
begin/end stack → element tree (+ generated `_count`, `_other`, `meta` nodes) → validation →
primary instance / bind nodesets / body refs), for **every** sheet of rows: no bound on the
number of rows or the nesting depth.
-/
namespace Pyxv.C02
open Pyxv Pyxv.Form Pyxv.Rows

theorem reach_append_left {a : List Item} {p : List Str} (b : List Item) (h : Reach a p) : Reach (a ++ b) p := by
  cases h with
  | here _ it hm hn => exact Reach.here _ it (List.mem_append_left _ hm) hn
  | deeper _ ct n bb ks q hm hr => exact Reach.deeper _ ct n bb ks q (List.mem_append_left _ hm) hr

theorem reach_withMeta (rows : List Cells) (settings : Cells) (items : List Item) (p : List Str)
    (h : Reach items p) : Reach (withMeta rows settings items) p := by
  unfold withMeta
  simp only []
  split
  · exact h
  · exact reach_append_left _ h

theorem resolves_of_reach (root : Str) (its : List Item) (p : List Str) (h : Reach its p) :
    resolves (instanceOf root its) (root :: p) = true := by
  simp [resolves, instanceOf, resolvesNode, reach_resolves h false]

/-- **Closure**: whenever the pipeline accepts a form, every bind nodeset and every body
    `ref`/`nodeset` (questions, groups, repeats, the generated `*_count` / `*_other` / meta
    nodes) is an absolute path that resolves to a node of the primary instance. -/
theorem refs_resolve (root : Str) (lists : List Str) (rows : List Cells) (settings : Cells) (o : FormOut)
    (h : formOut root lists rows settings = .ok o) :
    ∀ p ∈ o.binds ++ o.body, resolves o.inst p = true := by
  unfold formOut at h
  cases hc : classifyAll lists 2 rows with
  | error w => rw [hc] at h; simp at h
  | ok ks =>
    rw [hc] at h; simp only [] at h
    cases hp : parseRows ks with
    | error e => rw [hp] at h; simp at h
    | ok items =>
      rw [hp] at h; simp only [] at h
      split at h
      · simp at h
      · split at h
        · simp at h
        · split at h
          · simp at h
          · simp at h; subst h
            have hwf : wfL items = true := parseRows_wf ks items (classifyAll_wf lists rows 2 ks hc) hp
            have hwfm := withMeta_wf rows settings items hwf
            intro p hp'
            simp only [List.mem_append] at hp'
            rcases hp' with hp' | hp'
            · rw [bindPathsL_prefix] at hp'
              simp only [List.mem_map] at hp'
              obtain ⟨q, hq, rfl⟩ := hp'
              exact resolves_of_reach root _ q (bind_reach_list _ hwfm q hq)
            · rw [bodyPathsL_prefix] at hp'
              simp only [List.mem_map] at hp'
              obtain ⟨q, hq, rfl⟩ := hp'
              exact resolves_of_reach root _ q (reach_withMeta rows settings items q (body_reach_list _ hwf q hq))

/-- **Sibling uniqueness**: an accepted form has, at every level of the tree, sibling names that
    are pairwise different even ignoring case — so every path is unambiguous. -/
theorem siblings_unique (root : Str) (lists : List Str) (rows : List Cells) (settings : Cells) (o : FormOut)
    (h : formOut root lists rows settings = .ok o) :
    sibsOK (withMeta rows settings o.items) = true := by
  unfold formOut at h
  cases hc : classifyAll lists 2 rows with
  | error w => rw [hc] at h; simp at h
  | ok ks =>
    rw [hc] at h; simp only [] at h
    cases hp : parseRows ks with
    | error e => rw [hp] at h; simp at h
    | ok items =>
      rw [hp] at h; simp only [] at h
      split at h
      · simp at h
      · split at h
        · simp at h
        · rename_i hv
          split at h
          · simp at h
          simp at h; subst h
          simp only []
          unfold validate at hv
          cases hk : validateKids root (withMeta rows settings items) with
          | error e => rw [hk] at hv; simp at hv
          | ok u => exact (validateKids_ok_iff root _).mp hk

/-- what `formOutN` returns when it accepts -/
theorem formOutN_ok (root : Str) (lists : List Str) (nrows : List (Nat × Cells)) (settings : Cells) (o : FormOut)
    (h : formOutN root lists nrows settings = .ok o) :
    ∃ ks items, classifyNum lists nrows = .ok ks ∧ parseRows ks = .ok items ∧
      validate root (withMeta (nrows.map (·.2)) settings items) = .ok () ∧
      o = { items := items, inst := instanceOf root (withMeta (nrows.map (·.2)) settings items),
            binds := bindPathsL [root] (withMeta (nrows.map (·.2)) settings items),
            body := bodyPathsL [root] items, ctl := bodyCtlL [root] items } := by
  unfold formOutN at h
  cases hc : classifyNum lists nrows with
  | error w => rw [hc] at h; simp at h
  | ok ks =>
    rw [hc] at h; simp only [] at h
    cases hp : parseRows ks with
    | error e => rw [hp] at h; simp at h
    | ok items =>
      rw [hp] at h; simp only [] at h
      split at h
      · simp at h
      · split at h
        · simp at h
        · rename_i hv
          split at h
          · simp at h
          · simp at h
            exact ⟨ks, items, rfl, hp, hv, h.symm⟩

/-- **Closure on numbered rows** (the pipeline the checks run): as `refs_resolve`, for `formOutN`. -/
theorem refs_resolve_n (root : Str) (lists : List Str) (nrows : List (Nat × Cells)) (settings : Cells) (o : FormOut)
    (h : formOutN root lists nrows settings = .ok o) :
    ∀ p ∈ o.binds ++ o.body, resolves o.inst p = true := by
  obtain ⟨ks, items, hc, hp, _, ho⟩ := formOutN_ok root lists nrows settings o h
  subst ho
  have hwf : wfL items = true := parseRows_wf ks items (classifyNum_wf lists nrows ks hc) hp
  have hwfm := withMeta_wf (nrows.map (·.2)) settings items hwf
  intro p hp'
  simp only [List.mem_append] at hp'
  rcases hp' with hp' | hp'
  · rw [bindPathsL_prefix] at hp'
    simp only [List.mem_map] at hp'
    obtain ⟨q, hq, rfl⟩ := hp'
    exact resolves_of_reach root _ q (bind_reach_list _ hwfm q hq)
  · rw [bodyPathsL_prefix] at hp'
    simp only [List.mem_map] at hp'
    obtain ⟨q, hq, rfl⟩ := hp'
    exact resolves_of_reach root _ q (reach_withMeta _ settings items q (body_reach_list _ hwf q hq))

theorem siblings_unique_n (root : Str) (lists : List Str) (nrows : List (Nat × Cells)) (settings : Cells) (o : FormOut)
    (h : formOutN root lists nrows settings = .ok o) :
    sibsOK (withMeta (nrows.map (·.2)) settings o.items) = true := by
  obtain ⟨ks, items, _, _, hv, ho⟩ := formOutN_ok root lists nrows settings o h
  subst ho
  simp only []
  unfold validate at hv
  cases hk : validateKids root (withMeta (nrows.map (·.2)) settings items) with
  | error e => rw [hk] at hv; simp at hv
  | ok u => exact (validateKids_ok_iff root _).mp hk

/-- **Closure with table-list groups**: for every sheet the table-list-aware pipeline accepts — including the
    generated `generated_table_list_label_N` note and `reserved_name_for_field_list_labels_N` header select,
    the `*_count` / `*_other` companions and the meta block — every bind nodeset and every body ref / nodeset
    resolves to a node of the primary instance. -/
theorem refs_resolve_tl (root : Str) (lists : List Str) (rows : List Cells) (settings : Cells) (o : FormOut)
    (h : TableList.formOutT root lists rows settings = .ok o) :
    ∀ p ∈ o.binds ++ o.body, resolves o.inst p = true := by
  unfold TableList.formOutT at h
  split at h
  · cases h
  · rename_i o' ho
    split at h
    · cases h
    · injection h with h; subst h
      exact refs_resolve_n root lists _ settings o' ho

theorem sibsEach_append' (a b : List Item) : sibsEach (a ++ b) = (sibsEach a && sibsEach b) := by
  induction a with
  | nil => simp [sibsEach]
  | cons x xs ih => simp [sibsEach, ih, Bool.and_assoc]

/-- **The generated meta block has pairwise distinct children**: in every accepted form the children of
    `/root/meta` — one `audit` per audit row of the sheet wherever it is written, `instanceID`, `instanceName` —
    have pairwise different names (ignoring case). -/
theorem meta_children_unique (rows : List Cells) (settings : Cells) (items : List Item)
    (h : sibsOK (withMeta rows settings items) = true) :
    ((metaKids rows settings).map fun d => lowerAscii d.name).Nodup := by
  unfold sibsOK at h
  simp only [Bool.and_eq_true] at h
  have he := h.2
  unfold withMeta at he
  simp only [] at he
  split at he
  · rename_i hm
    have : metaKids rows settings = [] := by simpa using hm
    rw [this]; simp
  · rw [sibsEach_append'] at he
    simp only [Bool.and_eq_true, sibsEach, sibsItem, decide_eq_true_eq, Bool.and_true] at he
    have := he.2.1
    simpa [List.map_map, Function.comp_def, lname, Item.name] using this

/-- **At most one audit row**: a sheet with two or more (enabled) `audit` rows — at any depth, they all become
    siblings named `audit` in the meta block — is never accepted by the numbered / table-list pipeline (what
    seeded change C02-7 broke: validation skipped for the bodyless meta section). -/
theorem at_most_one_audit (root : Str) (lists : List Str) (nrows : List (Nat × Cells)) (settings : Cells) (o : FormOut)
    (h : formOutN root lists nrows settings = .ok o) :
    ((nrows.map (·.2)).filter isAuditRow).length ≤ 1 := by
  have hs := siblings_unique_n root lists nrows settings o h
  have hn := meta_children_unique _ _ _ hs
  unfold metaKids at hn
  simp only [List.map_append, List.map_map] at hn
  have h1 := (List.nodup_append.mp hn).1
  generalize (nrows.map (·.2)).filter isAuditRow = l at h1
  match l, h1 with
  | [], _ => simp
  | [_], _ => simp
  | a :: b :: rest, h1 =>
    exfalso
    simp only [List.map_cons] at h1
    exact (List.nodup_cons.mp h1).1 (List.Mem.head _)

/-- **Ambiguity is rejected**: if some level of the tree has two siblings whose names differ at
    most by case, validation fails (with a PyXFormError naming the element). -/
theorem ambiguous_rejected (root : Str) (kids : List Item) (h : sibsOK kids = false) :
    ∃ e, validate root kids = .error e := by
  unfold validate
  cases hk : validateKids root kids with
  | error e => exact ⟨e, rfl⟩
  | ok u =>
    have := (validateKids_ok_iff root kids).mp hk
    rw [h] at this; cases this

/-- The non-template part of the instance is exactly the element tree (one node per element,
    same order, same nesting): templates are the only duplicates. -/
theorem instance_is_tree (root : Str) (its : List Item) :
    erase (instanceOf root its) = [NT.node root false (plainL its)] := by
  simp [instanceOf, erase, erase_instKids]

/-! ### Non-vacuity: a concrete form with a repeat count helper inside a nested group, an
`or_other` select inside a repeat, and the meta block -/

def exRows : List Cells := [
  [("type".toList, "text".toList), ("name".toList, "a".toList), ("label".toList, "A".toList)],
  [("type".toList, "begin group".toList), ("name".toList, "g".toList), ("bind::relevant".toList, "${a} = 1".toList)],
  [("type".toList, "begin repeat".toList), ("name".toList, "r".toList), ("control::jr:count".toList, "2 + 1".toList)],
  [("type".toList, "select_one yn or_other".toList), ("name".toList, "s".toList), ("label".toList, "S".toList)],
  [("type".toList, "end repeat".toList)],
  [("type".toList, "end group".toList)],
  [("type".toList, "calculate".toList), ("name".toList, "c".toList), ("bind::calculate".toList, "1".toList)]]

example : (match formOut "data".toList ["yn".toList] exRows [] with
    | .ok o => o.binds.length == 7 && o.body.length == 6 && (o.binds ++ o.body).all (resolves o.inst)
    | .error _ => false) = true := by decide +kernel

-- a table-list group: the generated label note and header select are nodes, bound and referenced
def exTLRows : List Cells := [
  [("type".toList, "begin group".toList), ("name".toList, "t".toList), ("label".toList, "T".toList),
   ("control::appearance".toList, "table-list".toList)],
  [("type".toList, "select_one yn".toList), ("name".toList, "s".toList), ("label".toList, "S".toList)],
  [("type".toList, "end group".toList)]]

example : (match TableList.formOutT "data".toList ["yn".toList] exTLRows [] with
    | .ok o => (o.binds ++ o.body).all (resolves o.inst) && o.body.length == 4 && o.binds.length == 4
    | .error _ => false) = true := by decide +kernel

-- two audit rows at different depths: rejected; one: accepted
def exAudit2 : List Cells := [
  [("type".toList, "audit".toList)],
  [("type".toList, "begin group".toList), ("name".toList, "g".toList), ("label".toList, "G".toList)],
  [("type".toList, "audit".toList), ("name".toList, "audit".toList)],
  [("type".toList, "text".toList), ("name".toList, "a".toList), ("label".toList, "A".toList)],
  [("type".toList, "end group".toList)]]
example : (match TableList.formOutT "data".toList [] exAudit2 [] with
    | .error (.err (.dupSibling _ _)) => true | _ => false) = true := by decide +kernel
example : (match TableList.formOutT "data".toList [] (exAudit2.drop 1) [] with
    | .ok o => (o.binds.map xpathStr).contains "/data/meta/audit".toList | _ => false) = true := by decide +kernel

end Pyxv.C02
