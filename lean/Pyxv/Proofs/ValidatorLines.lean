import Pyxv.Proofs.ValidatorLemmas
/-! Lemmas for the end-to-end statement about `ErrorCleaner.odk_validate`: the path substitution never crosses a
delimiter (so it works line by line), it introduces no characters besides `$ { }`, and `strip` / `splitlines` /
`"\n".join` are inverse to each other on well-delimited texts. -/
namespace Pyxv.Validator

/-- a delimiter for the scan: neither a segment character nor `/` -/
def isDelim (c : Char) : Bool := !isSeg c && c != '/'

theorem isDelim_iff (c : Char) : isDelim c = true ↔ isSeg c = false ∧ c ≠ '/' := by
  simp [isDelim]

/-! ## the substitution is local -/

theorem renderToks_ch_split (a b : List Tok) (c : Char) :
    renderToks (a ++ .ch c :: b) = renderToks a ++ c :: renderToks b := by
  have hacc : accOf (a ++ Tok.ch c :: b) = ⟨(accOf a).chain, (accOf a).out ++ c :: renderToks b⟩ := by
    rw [accOf, List.foldr_append, List.foldr_cons]
    simp only [stepTok]
    exact foldr_out _ _
  rw [renderToks_def, hacc, renderToks_def a]
  simp [List.append_assoc]

theorem toks_delim (c : Char) (rest : Str) (hc : isDelim c = true) : toks (c :: rest) = .ch c :: toks rest := by
  obtain ⟨h1, h2⟩ := (isDelim_iff c).1 hc
  simp [toks, pushChar, h1, h2]

/-- the substitution never crosses a delimiter character -/
theorem subPaths_split (l1 rest : Str) (c : Char) (hc : isDelim c = true) :
    subPaths (l1 ++ c :: rest) = subPaths l1 ++ c :: subPaths rest := by
  obtain ⟨h1, _⟩ := (isDelim_iff c).1 hc
  unfold subPaths
  rw [toks_append l1 (c :: rest) (by intro c' r h; injection h with h _; rw [← h]; exact h1), toks_delim c rest hc,
    renderToks_ch_split]

theorem subPaths_nil : subPaths [] = [] := by
  simp [subPaths, toks, renderToks, flush, chainText]

theorem subPaths_delim_cons (c : Char) (rest : Str) (hc : isDelim c = true) :
    subPaths (c :: rest) = c :: subPaths rest := by
  have := subPaths_split [] rest c hc
  simpa [subPaths_nil] using this

/-- … hence it commutes with joining lines by any delimiter character (in particular `\n`) -/
theorem subPaths_join (c : Char) (hc : isDelim c = true) (ls : List Str) :
    subPaths (joinWith [c] ls) = joinWith [c] (ls.map subPaths) := by
  induction ls with
  | nil => simp [joinWith, subPaths_nil]
  | cons l rest ih =>
    cases rest with
    | nil => simp [joinWith]
    | cons l2 rest2 =>
      simp only [joinWith, List.map_cons, List.append_assoc, List.singleton_append] at ih ⊢
      rw [subPaths_split l _ c hc, ih]

/-- a text made of segment characters only is left alone -/
theorem subPaths_allSeg (r : Str) (h : ∀ c ∈ r, isSeg c = true) : subPaths r = r := by
  cases r with
  | nil => exact subPaths_nil
  | cons c cs =>
    have := toks_run (c :: cs) [] (by simp) h (by intro s t; simp [toks])
    simp only [List.append_nil] at this
    unfold subPaths
    rw [this]
    simp [toks, renderToks, stepTok, flush, chainText]

/-- the first character survives unless it is a `/` -/
theorem subPaths_head (c : Char) (s : Str) (hc : c ≠ '/') : ∃ r, subPaths (c :: s) = c :: r := by
  by_cases hs : isSeg c = true
  · have : ∃ r0 ts, toks (c :: s) = .run (c :: r0) :: ts := by
      simp only [toks, pushChar, hs, ↓reduceIte]
      split
      · exact ⟨_, _, rfl⟩
      · exact ⟨[], _, rfl⟩
    obtain ⟨r0, ts, h⟩ := this
    refine ⟨r0 ++ (flush (accOf ts).chain ++ (accOf ts).out), ?_⟩
    simp [subPaths, h, renderToks, stepTok, flush, chainText, accOf]
  · exact ⟨subPaths s, subPaths_delim_cons c s (by simp [isDelim, hs, hc])⟩

/-! ## no character is invented besides `$ { }` -/

def tokAll (p : Char → Bool) : Tok → Bool
  | .unit s => s.all p
  | .run s => s.all p
  | .ch c => p c

theorem pushChar_all (p : Char → Bool) (c : Char) (t : List Tok) (hc : p c = true) (ht : t.all (tokAll p) = true) :
    (pushChar c t).all (tokAll p) = true := by
  unfold pushChar
  split
  · split
    · simp_all [tokAll]
    · simp_all [tokAll]
  · split
    · split
      · simp_all [tokAll]
      · simp_all [tokAll]
    · simp_all [tokAll]

theorem toks_all (p : Char → Bool) (s : Str) (h : s.all p = true) : (toks s).all (tokAll p) = true := by
  induction s with
  | nil => simp [toks]
  | cons c cs ih =>
    simp only [List.all_cons, Bool.and_eq_true] at h
    exact pushChar_all p c (toks cs) h.1 (ih h.2)

theorem chainText_all (p : Char → Bool) (hs : p '/' = true) (chain : List Str) (h : chain.all (fun s => s.all p) = true) :
    (chainText chain).all p = true := by
  induction chain with
  | nil => simp [chainText]
  | cons s rest ih =>
    simp only [List.all_cons, Bool.and_eq_true] at h
    simp [chainText, hs, h.1, ih h.2]

theorem getLastD_all (p : Char → Bool) (chain : List Str) (h : chain.all (fun s => s.all p) = true) :
    (chain.getLastD []).all p = true := by
  induction chain with
  | nil => simp
  | cons s rest ih =>
    simp only [List.all_cons, Bool.and_eq_true] at h
    cases rest with
    | nil => simpa using h.1
    | cons x xs =>
      have := ih h.2
      simpa [List.getLastD_cons] using this

theorem flush_all (p : Char → Bool) (hs : p '/' = true) (hd : p '$' = true) (ho : p '{' = true) (hc : p '}' = true)
    (chain : List Str) (h : chain.all (fun s => s.all p) = true) : (flush chain).all p = true := by
  have h1 := chainText_all p hs chain h
  have h2 := getLastD_all p chain h
  unfold flush
  split
  · unfold replacement
    simp only []
    split
    · exact h1
    · simp only [List.all_cons, List.all_append, hd, ho, hc, h2, List.all_nil, Bool.and_self]
  · exact h1

theorem accOf_all (p : Char → Bool) (hs : p '/' = true) (hd : p '$' = true) (ho : p '{' = true) (hc : p '}' = true)
    (ts : List Tok) (h : ts.all (tokAll p) = true) :
    (accOf ts).chain.all (fun s => s.all p) = true ∧ (accOf ts).out.all p = true := by
  induction ts with
  | nil => simp [accOf]
  | cons t rest ih =>
    simp only [List.all_cons, Bool.and_eq_true] at h
    obtain ⟨ih1, ih2⟩ := ih h.2
    have hf := flush_all p hs hd ho hc _ ih1
    have e : accOf (t :: rest) = stepTok t (accOf rest) := rfl
    rw [e]
    cases t with
    | unit s =>
      simp only [stepTok, List.all_cons, Bool.and_eq_true]
      exact ⟨⟨by simpa [tokAll] using h.1, ih1⟩, ih2⟩
    | run s =>
      simp only [stepTok, List.all_nil, List.all_append, Bool.and_eq_true]
      exact ⟨trivial, by simpa [tokAll] using h.1, hf, ih2⟩
    | ch c =>
      simp only [stepTok, List.all_nil, List.all_cons, List.all_append, Bool.and_eq_true]
      exact ⟨trivial, by simpa [tokAll] using h.1, hf, ih2⟩

/-- every character of the result is a character of the input or one of `/ $ { }` -/
theorem subPaths_all (p : Char → Bool) (hs : p '/' = true) (hd : p '$' = true) (ho : p '{' = true) (hc : p '}' = true)
    (s : Str) (h : s.all p = true) : (subPaths s).all p = true := by
  obtain ⟨h1, h2⟩ := accOf_all p hs hd ho hc (toks s) (toks_all p s h)
  have hf := flush_all p hs hd ho hc _ h1
  simp [subPaths, renderToks_def, hf, h2]

/-! ## strip / splitlines / join -/

theorem lstrip_id (c : Char) (r : Str) (h : pyIsSpace c = false) : lstrip (c :: r) = c :: r := by
  simp [lstrip, List.dropWhile, h]

theorem rstrip_id (x : Str) (c : Char) (h : pyIsSpace c = false) : rstrip (x ++ [c]) = x ++ [c] := by
  simp [rstrip, List.dropWhile, h]

theorem strip_id (s : Str) (c d : Char) (r x : Str) (h1 : s = c :: r) (h2 : s = x ++ [d])
    (hc : pyIsSpace c = false) (hd : pyIsSpace d = false) : strip s = s := by
  unfold strip
  rw [h1, lstrip_id c r hc, ← h1, h2, rstrip_id x d hd]

theorem splitlines_noBreak (l : Str) (hne : l ≠ []) (h : ∀ c ∈ l, isLineBreak c = false) : splitlines l = [l] := by
  induction l with
  | nil => exact absurd rfl hne
  | cons c cs ih =>
    have hc : isLineBreak c = false := h c (by simp)
    have hr : c ≠ '\r' := by intro e; rw [e] at hc; exact absurd hc (by decide)
    cases cs with
    | nil => simp [splitlines, hc]
    | cons d ds =>
      have := ih (by simp) (fun x hx => h x (by simp [hx]))
      rw [splitlines]
      · simp [hc, this]
      · intro r2 e _; exact hr e

theorem splitlines_line_nl (l rest : Str) (h : ∀ c ∈ l, isLineBreak c = false) :
    splitlines (l ++ '\n' :: rest) = l :: splitlines rest := by
  induction l with
  | nil =>
    simp only [List.nil_append]
    rw [splitlines]
    · simp [isLineBreak]
    · intro r2 e; exact absurd e (by decide)
  | cons c cs ih =>
    have hc : isLineBreak c = false := h c (by simp)
    have hr : c ≠ '\r' := by intro e; rw [e] at hc; exact absurd hc (by decide)
    have := ih (fun x hx => h x (by simp [hx]))
    simp only [List.cons_append]
    rw [splitlines]
    · simp [hc, this]
    · intro r2 e _; exact hr e

/-- `"\n".join(lines).splitlines() == lines` when no line contains a line boundary and the last one is non-empty -/
theorem splitlines_join (ls : List Str) (hne : ls ≠ []) (h : ∀ l ∈ ls, ∀ c ∈ l, isLineBreak c = false)
    (hlast : ls.getLast hne ≠ []) : splitlines (joinWith ['\n'] ls) = ls := by
  induction ls with
  | nil => exact absurd rfl hne
  | cons l rest ih =>
    cases rest with
    | nil =>
      simp only [joinWith]
      exact splitlines_noBreak l (by simpa using hlast) (h l (by simp))
    | cons l2 rest2 =>
      have := ih (by simp) (fun x hx => h x (by simp [hx])) (by simpa [List.getLast_cons] using hlast)
      simp only [joinWith, List.append_assoc, List.singleton_append]
      rw [splitlines_line_nl l _ (h l (by simp)), this]

theorem joinWith_head (sep : Str) (c : Char) (r : Str) (rest : List Str) :
    ∃ r', joinWith sep ((c :: r) :: rest) = c :: r' := by
  cases rest with
  | nil => exact ⟨r, rfl⟩
  | cons x xs => exact ⟨r ++ sep ++ joinWith sep (x :: xs), by simp [joinWith]⟩

theorem joinWith_last (sep : Str) (ls : List Str) (hne : ls ≠ []) :
    ∃ pre, joinWith sep ls = pre ++ ls.getLast hne := by
  induction ls with
  | nil => exact absurd rfl hne
  | cons l rest ih =>
    cases rest with
    | nil => exact ⟨[], by simp [joinWith]⟩
    | cons x xs =>
      obtain ⟨pre, hp⟩ := ih (by simp)
      refine ⟨l ++ sep ++ pre, ?_⟩
      simp only [joinWith, List.getLast_cons (by simp : x :: xs ≠ [])]
      rw [hp]
      simp [List.append_assoc]

end Pyxv.Validator
