import Pyxv.Proofs.ValidatorLemmas
/-! Lemmas for the end-to-end statement about `ErrorCleaner.odk_validate`: the path substitution never crosses a
delimiter (so it works line by line), it introduces no characters besides `$ { }`, and `strip` / `splitlines` /
`"\n".join` are inverse to each other on well-delimited texts. -/
namespace Pyxv.Validator

/-- a delimiter for the scan: neither a segment character nor `/` -/
def isDelim (c : Char) : Bool := !isSeg c && c != '/'

theorem isDelim_iff (c : Char) : isDelim c = true ↔ isSeg c = false ∧ c ≠ '/' := by
  simp [isDelim]

/-! ## the substitution is local -/

theorem renderToks_ch_split (a b : List Tok) (c : Char) :
    renderToks (a ++ .ch c :: b) = renderToks a ++ c :: renderToks b := by
  have hacc : accOf (a ++ Tok.ch c :: b) = ⟨(accOf a).chain, (accOf a).out ++ c :: renderToks b⟩ := by
    rw [accOf, List.foldr_append, List.foldr_cons]
    simp only [stepTok]
    exact foldr_out _ _
  rw [renderToks_def, hacc, renderToks_def a]
  simp [List.append_assoc]

theorem toks_delim (c : Char) (rest : Str) (hc : isDelim c = true) : toks (c :: rest) = .ch c :: toks rest := by
  obtain ⟨h1, h2⟩ := (isDelim_iff c).1 hc
  simp [toks, pushChar, h1, h2]

/-- the substitution never crosses a delimiter character -/
theorem subPaths_split (l1 rest : Str) (c : Char) (hc : isDelim c = true) :
    subPaths (l1 ++ c :: rest) = subPaths l1 ++ c :: subPaths rest := by
  obtain ⟨h1, _⟩ := (isDelim_iff c).1 hc
  unfold subPaths
  rw [toks_append l1 (c :: rest) (by intro c' r h; injection h with h _; rw [← h]; exact h1), toks_delim c rest hc,
    renderToks_ch_split]

theorem subPaths_nil : subPaths [] = [] := by
  simp [subPaths, toks, renderToks, flush, chainText]

theorem subPaths_delim_cons (c : Char) (rest : Str) (hc : isDelim c = true) :
    subPaths (c :: rest) = c :: subPaths rest := by
  have := subPaths_split [] rest c hc
  simpa [subPaths_nil] using this

/-- … hence it commutes with joining lines by any delimiter character (in particular `\n`) -/
theorem subPaths_join (c : Char) (hc : isDelim c = true) (ls : List Str) :
    subPaths (joinWith [c] ls) = joinWith [c] (ls.map subPaths) := by
  induction ls with
  | nil => simp [joinWith, subPaths_nil]
  | cons l rest ih =>
    cases rest with
    | nil => simp [joinWith]
    | cons l2 rest2 =>
      simp only [joinWith, List.map_cons, List.append_assoc, List.singleton_append] at ih ⊢
      rw [subPaths_split l _ c hc, ih]

/-- a text made of segment characters only is left alone -/
theorem subPaths_allSeg (r : Str) (h : ∀ c ∈ r, isSeg c = true) : subPaths r = r := by
  cases r with
  | nil => exact subPaths_nil
  | cons c cs =>
    have := toks_run (c :: cs) [] (by simp) h (by intro s t; simp [toks])
    simp only [List.append_nil] at this
    unfold subPaths
    rw [this]
    simp [toks, renderToks, stepTok, flush, chainText]

/-- the first character survives unless it is a `/` -/
theorem subPaths_head (c : Char) (s : Str) (hc : c ≠ '/') : ∃ r, subPaths (c :: s) = c :: r := by
  by_cases hs : isSeg c = true
  · have : ∃ r0 ts, toks (c :: s) = .run (c :: r0) :: ts := by
      simp only [toks, pushChar, hs, ↓reduceIte]
      split
      · exact ⟨_, _, rfl⟩
      · exact ⟨[], _, rfl⟩
    obtain ⟨r0, ts, h⟩ := this
    refine ⟨r0 ++ (flush (accOf ts).chain ++ (accOf ts).out), ?_⟩
    simp [subPaths, h, renderToks, stepTok, flush, chainText, accOf]
  · exact ⟨subPaths s, subPaths_delim_cons c s (by simp [isDelim, hs, hc])⟩

/-! ## no character is invented besides `$ { }` -/

def tokAll (p : Char → Bool) : Tok → Bool
  | .unit s => s.all p
  | .run s => s.all p
  | .ch c => p c

theorem pushChar_all (p : Char → Bool) (c : Char) (t : List Tok) (hc : p c = true) (ht : t.all (tokAll p) = true) :
    (pushChar c t).all (tokAll p) = true := by
  unfold pushChar
  split
  · split
    · simp_all [tokAll]
    · simp_all [tokAll]
  · split
    · split
      · simp_all [tokAll]
      · simp_all [tokAll]
    · simp_all [tokAll]

theorem toks_all (p : Char → Bool) (s : Str) (h : s.all p = true) : (toks s).all (tokAll p) = true := by
  induction s with
  | nil => simp [toks]
  | cons c cs ih =>
    simp only [List.all_cons, Bool.and_eq_true] at h
    exact pushChar_all p c (toks cs) h.1 (ih h.2)

theorem chainText_all (p : Char → Bool) (hs : p '/' = true) (chain : List Str) (h : chain.all (fun s => s.all p) = true) :
    (chainText chain).all p = true := by
  induction chain with
  | nil => simp [chainText]
  | cons s rest ih =>
    simp only [List.all_cons, Bool.and_eq_true] at h
    simp [chainText, hs, h.1, ih h.2]

theorem getLastD_all (p : Char → Bool) (chain : List Str) (h : chain.all (fun s => s.all p) = true) :
    (chain.getLastD []).all p = true := by
  induction chain with
  | nil => simp
  | cons s rest ih =>
    simp only [List.all_cons, Bool.and_eq_true] at h
    cases rest with
    | nil => simpa using h.1
    | cons x xs =>
      have := ih h.2
      simpa [List.getLastD_cons] using this

theorem flush_all (p : Char → Bool) (hs : p '/' = true) (hd : p '$' = true) (ho : p '{' = true) (hc : p '}' = true)
    (chain : List Str) (h : chain.all (fun s => s.all p) = true) : (flush chain).all p = true := by
  have h1 := chainText_all p hs chain h
  have h2 := getLastD_all p chain h
  unfold flush
  split
  · unfold replacement
    simp only []
    split
    · exact h1
    · simp only [List.all_cons, List.all_append, hd, ho, hc, h2, List.all_nil, Bool.and_self]
  · exact h1

theorem accOf_all (p : Char → Bool) (hs : p '/' = true) (hd : p '$' = true) (ho : p '{' = true) (hc : p '}' = true)
    (ts : List Tok) (h : ts.all (tokAll p) = true) :
    (accOf ts).chain.all (fun s => s.all p) = true ∧ (accOf ts).out.all p = true := by
  induction ts with
  | nil => simp [accOf]
  | cons t rest ih =>
    simp only [List.all_cons, Bool.and_eq_true] at h
    obtain ⟨ih1, ih2⟩ := ih h.2
    have hf := flush_all p hs hd ho hc _ ih1
    have e : accOf (t :: rest) = stepTok t (accOf rest) := rfl
    rw [e]
    cases t with
    | unit s =>
      simp only [stepTok, List.all_cons, Bool.and_eq_true]
      exact ⟨⟨by simpa [tokAll] using h.1, ih1⟩, ih2⟩
    | run s =>
      simp only [stepTok, List.all_nil, List.all_append, Bool.and_eq_true]
      exact ⟨trivial, by simpa [tokAll] using h.1, hf, ih2⟩
    | ch c =>
      simp only [stepTok, List.all_nil, List.all_cons, List.all_append, Bool.and_eq_true]
      exact ⟨trivial, by simpa [tokAll] using h.1, hf, ih2⟩

/-- every character of the result is a character of the input or one of `/ $ { }` -/
theorem subPaths_all (p : Char → Bool) (hs : p '/' = true) (hd : p '$' = true) (ho : p '{' = true) (hc : p '}' = true)
    (s : Str) (h : s.all p = true) : (subPaths s).all p = true := by
  obtain ⟨h1, h2⟩ := accOf_all p hs hd ho hc (toks s) (toks_all p s h)
  have hf := flush_all p hs hd ho hc _ h1
  simp [subPaths, renderToks_def, hf, h2]

/-! ## strip / splitlines / join -/

theorem lstrip_id (c : Char) (r : Str) (h : pyIsSpace c = false) : lstrip (c :: r) = c :: r := by
  simp [lstrip, List.dropWhile, h]

theorem rstrip_id (x : Str) (c : Char) (h : pyIsSpace c = false) : rstrip (x ++ [c]) = x ++ [c] := by
  simp [rstrip, List.dropWhile, h]

theorem strip_id (s : Str) (c d : Char) (r x : Str) (h1 : s = c :: r) (h2 : s = x ++ [d])
    (hc : pyIsSpace c = false) (hd : pyIsSpace d = false) : strip s = s := by
  unfold strip
  rw [h1, lstrip_id c r hc, ← h1, h2, rstrip_id x d hd]

theorem splitlines_noBreak (l : Str) (hne : l ≠ []) (h : ∀ c ∈ l, isLineBreak c = false) : splitlines l = [l] := by
  induction l with
  | nil => exact absurd rfl hne
  | cons c cs ih =>
    have hc : isLineBreak c = false := h c (by simp)
    have hr : c ≠ '\r' := by intro e; rw [e] at hc; exact absurd hc (by decide)
    cases cs with
    | nil => simp [splitlines, hc]
    | cons d ds =>
      have := ih (by simp) (fun x hx => h x (by simp [hx]))
      rw [splitlines]
      · simp [hc, this]
      · intro r2 e _; exact hr e

theorem splitlines_line_nl (l rest : Str) (h : ∀ c ∈ l, isLineBreak c = false) :
    splitlines (l ++ '\n' :: rest) = l :: splitlines rest := by
  induction l with
  | nil =>
    simp only [List.nil_append]
    rw [splitlines]
    · simp [isLineBreak]
    · intro r2 e; exact absurd e (by decide)
  | cons c cs ih =>
    have hc : isLineBreak c = false := h c (by simp)
    have hr : c ≠ '\r' := by intro e; rw [e] at hc; exact absurd hc (by decide)
    have := ih (fun x hx => h x (by simp [hx]))
    simp only [List.cons_append]
    rw [splitlines]
    · simp [hc, this]
    · intro r2 e _; exact hr e

/-- `"\n".join(lines).splitlines() == lines` when no line contains a line boundary and the last one is non-empty -/
theorem splitlines_join (ls : List Str) (hne : ls ≠ []) (h : ∀ l ∈ ls, ∀ c ∈ l, isLineBreak c = false)
    (hlast : ls.getLast hne ≠ []) : splitlines (joinWith ['\n'] ls) = ls := by
  induction ls with
  | nil => exact absurd rfl hne
  | cons l rest ih =>
    cases rest with
    | nil =>
      simp only [joinWith]
      exact splitlines_noBreak l (by simpa using hlast) (h l (by simp))
    | cons l2 rest2 =>
      have := ih (by simp) (fun x hx => h x (by simp [hx])) (by simpa [List.getLast_cons] using hlast)
      simp only [joinWith, List.append_assoc, List.singleton_append]
      rw [splitlines_line_nl l _ (h l (by simp)), this]

theorem joinWith_head (sep : Str) (c : Char) (r : Str) (rest : List Str) :
    ∃ r', joinWith sep ((c :: r) :: rest) = c :: r' := by
  cases rest with
  | nil => exact ⟨r, rfl⟩
  | cons x xs => exact ⟨r ++ sep ++ joinWith sep (x :: xs), by simp [joinWith]⟩

theorem joinWith_last (sep : Str) (ls : List Str) (hne : ls ≠ []) :
    ∃ pre, joinWith sep ls = pre ++ ls.getLast hne := by
  induction ls with
  | nil => exact absurd rfl hne
  | cons l rest ih =>
    cases rest with
    | nil => exact ⟨[], by simp [joinWith]⟩
    | cons x xs =>
      obtain ⟨pre, hp⟩ := ih (by simp)
      refine ⟨l ++ sep ++ pre, ?_⟩
      simp only [joinWith, List.getLast_cons (by simp : x :: xs ≠ [])]
      rw [hp]
      simp [List.append_assoc]

end Pyxv.Validator

namespace Pyxv.Validator

/-! ## first and last character of a rewritten text -/

theorem flush_head (s0 : Str) (chain : List Str) : ∃ d r, flush (s0 :: chain) = d :: r ∧ (d = '/' ∨ d = '$') := by
  cases chain with
  | nil => exact ⟨'/', s0, by simp [flush, chainText], .inl rfl⟩
  | cons x xs =>
    have hf : flush (s0 :: x :: xs) = replacement (s0 :: x :: xs) := rfl
    by_cases hk : keepMatch (chainText (s0 :: x :: xs)) = true
    · refine ⟨'/', s0 ++ chainText (x :: xs), ?_, .inl rfl⟩
      rw [hf]; unfold replacement; simp only []; rw [if_pos hk]; rfl
    · refine ⟨'$', '{' :: ((s0 :: x :: xs).getLastD [] ++ ['}']), ?_, .inr rfl⟩
      rw [hf]; unfold replacement; simp only []; rw [if_neg hk]; rfl

/-- the first character of the rewritten text is the first character of the text, or `$` -/
theorem subPaths_first (c : Char) (s : Str) : ∃ d r, subPaths (c :: s) = d :: r ∧ (d = c ∨ d = '$') := by
  by_cases hc : c = '/'
  · subst hc
    by_cases hs : isSeg '/' = true
    · obtain ⟨r0, ts, h⟩ : ∃ r0 ts, toks ('/' :: s) = .run ('/' :: r0) :: ts := by
        simp only [toks, pushChar, hs, ↓reduceIte]
        split
        · exact ⟨_, _, rfl⟩
        · exact ⟨[], _, rfl⟩
      exact ⟨'/', r0 ++ (flush (accOf ts).chain ++ (accOf ts).out),
        by simp [subPaths, h, renderToks, stepTok, flush, chainText, accOf], .inl rfl⟩
    · have : (∃ s0 ts, toks ('/' :: s) = .unit s0 :: ts) ∨ (∃ ts, toks ('/' :: s) = .ch '/' :: ts) := by
        simp only [toks, pushChar, hs, Bool.false_eq_true, ↓reduceIte]
        split
        · exact .inl ⟨_, _, rfl⟩
        · exact .inr ⟨_, rfl⟩
      rcases this with ⟨s0, ts, h⟩ | ⟨ts, h⟩
      · obtain ⟨d, r, hf, hd⟩ := flush_head s0 (accOf ts).chain
        refine ⟨d, r ++ (accOf ts).out, ?_, hd⟩
        have : accOf (Tok.unit s0 :: ts) = ⟨s0 :: (accOf ts).chain, (accOf ts).out⟩ := rfl
        simp [subPaths, h, renderToks_def, this, hf]
      · refine ⟨'/', flush (accOf ts).chain ++ (accOf ts).out, ?_, .inl rfl⟩
        unfold subPaths
        rw [h, renderToks_eq_out_of_ch]
        rfl
  · obtain ⟨r, h⟩ := subPaths_head c s hc
    exact ⟨c, r, h, .inl rfl⟩

/-- a token list is all units, or ends in a non-unit token followed by units -/
theorem toks_tail_units (a : List Tok) :
    (∃ us : List Str, a = us.map Tok.unit) ∨
    (∃ (a' : List Tok) (t : Tok) (us : List Str), a = a' ++ t :: us.map Tok.unit ∧ ∀ s, t ≠ .unit s) := by
  induction a with
  | nil => exact .inl ⟨[], rfl⟩
  | cons x rest ih =>
    rcases ih with ⟨us, rfl⟩ | ⟨a', t, us, rfl, ht⟩
    · cases x with
      | unit s => exact .inl ⟨s :: us, rfl⟩
      | run s => exact .inr ⟨[], .run s, us, rfl, by intro s'; simp⟩
      | ch c => exact .inr ⟨[], .ch c, us, rfl, by intro s'; simp⟩
    · exact .inr ⟨x :: a', t, us, rfl, ht⟩

/-- a text is all segment characters, or ends in a non-segment character followed by segment characters -/
theorem str_tail_seg (s : Str) :
    (∀ c ∈ s, isSeg c = true) ∨ (∃ y d w, s = y ++ d :: w ∧ isSeg d = false ∧ ∀ c ∈ w, isSeg c = true) := by
  induction s with
  | nil => exact .inl (by simp)
  | cons x rest ih =>
    rcases ih with h | ⟨y, d, w, rfl, hd, hw⟩
    · by_cases hx : isSeg x = true
      · exact .inl (by intro c hc; rcases List.mem_cons.1 hc with rfl | h'; exact hx; exact h c h')
      · exact .inr ⟨[], x, rest, rfl, by simpa using hx, h⟩
    · exact .inr ⟨x :: y, d, w, rfl, hd, hw⟩

theorem flush_last (us : List Str) (w' : Str) (c : Char) :
    ∃ z e, flush (us ++ [w' ++ [c]]) = z ++ [e] ∧ (e = c ∨ e = '}') := by
  have hct : chainText (us ++ [w' ++ [c]]) = (chainText us ++ '/' :: w') ++ [c] := by
    rw [chainText_append]; simp [chainText]
  unfold flush
  split
  · unfold replacement
    simp only []
    split
    · exact ⟨_, c, hct, .inl rfl⟩
    · exact ⟨'$' :: '{' :: ((us ++ [w' ++ [c]]).getLastD []), '}', by simp, .inr rfl⟩
  · exact ⟨_, c, hct, .inl rfl⟩

theorem foldr_units_init (us : List Str) (w : Str) :
    (us.map Tok.unit).foldr stepTok ⟨[w], []⟩ = ⟨us ++ [w], []⟩ := by
  rw [foldr_units]

/-- rendering of a token list followed by one final unit -/
theorem renderToks_final_unit (a : List Tok) (w' : Str) (c : Char) :
    ∃ z e, renderToks (a ++ [.unit (w' ++ [c])]) = z ++ [e] ∧ (e = c ∨ e = '}') := by
  rcases toks_tail_units a with ⟨us, rfl⟩ | ⟨a', t, us, rfl, ht⟩
  · obtain ⟨z, e, hf, he⟩ := flush_last us w' c
    refine ⟨z, e, ?_, he⟩
    have : accOf (us.map Tok.unit ++ [Tok.unit (w' ++ [c])]) = ⟨us ++ [w' ++ [c]], []⟩ := by
      rw [accOf, List.foldr_append]
      simp only [List.foldr_cons, List.foldr_nil, stepTok]
      exact foldr_units_init us _
    rw [renderToks_def, this]
    simpa using hf
  · obtain ⟨z, e, hf, he⟩ := flush_last us w' c
    have hU : (us.map Tok.unit ++ [Tok.unit (w' ++ [c])]).foldr stepTok ⟨[], []⟩ = ⟨us ++ [w' ++ [c]], []⟩ := by
      rw [List.foldr_append]
      simp only [List.foldr_cons, List.foldr_nil, stepTok]
      exact foldr_units_init us _
    have hacc : ∃ x, accOf (a' ++ t :: us.map Tok.unit ++ [Tok.unit (w' ++ [c])])
        = ⟨(accOf a').chain, (accOf a').out ++ (x ++ (z ++ [e]))⟩ := by
      have e1 : a' ++ t :: us.map Tok.unit ++ [Tok.unit (w' ++ [c])]
          = a' ++ (t :: (us.map Tok.unit ++ [Tok.unit (w' ++ [c])])) := by simp
      rw [e1, accOf, List.foldr_append, List.foldr_cons, hU]
      cases t with
      | unit s => exact absurd rfl (ht s)
      | run s =>
        refine ⟨s, ?_⟩
        simp only [stepTok, List.append_nil, hf]
        exact foldr_out _ _
      | ch d =>
        refine ⟨[d], ?_⟩
        simp only [stepTok, List.append_nil, hf, List.singleton_append]
        exact foldr_out _ _
    obtain ⟨x, hx⟩ := hacc
    refine ⟨flush (accOf a').chain ++ ((accOf a').out ++ (x ++ z)), e, ?_, he⟩
    rw [renderToks_def, hx]
    simp [List.append_assoc]

/-- the last character of the rewritten text is the last character of the text, or `}` -/
theorem subPaths_last (x : Str) (c : Char) (hslash : isSeg '/' = false) :
    ∃ z e, subPaths (x ++ [c]) = z ++ [e] ∧ (e = c ∨ e = '}') := by
  by_cases hc : isSeg c = true
  · rcases str_tail_seg (x ++ [c]) with hall | ⟨y, d, w, hs, hd, hw⟩
    · exact ⟨x, c, subPaths_allSeg _ hall, .inl rfl⟩
    · -- `w` is non-empty and ends with `c`
      have hwne : ∃ w', w = w' ++ [c] := by
        have hr := congrArg List.reverse hs
        simp only [List.reverse_append, List.reverse_cons, List.reverse_nil, List.nil_append,
          List.singleton_append, List.append_assoc] at hr
        cases hwr : w.reverse with
        | nil =>
          rw [hwr] at hr
          simp only [List.nil_append, List.cons.injEq] at hr
          rw [hr.1] at hc
          rw [hc] at hd
          exact absurd hd (by simp)
        | cons e r =>
          rw [hwr] at hr
          simp only [List.cons_append, List.cons.injEq] at hr
          refine ⟨r.reverse, ?_⟩
          have := congrArg List.reverse hwr
          simp only [List.reverse_reverse, List.reverse_cons] at this
          rw [this, hr.1]
      obtain ⟨w', rfl⟩ := hwne
      rw [hs]
      by_cases hd2 : d = '/'
      · subst hd2
        have ht : toks (y ++ '/' :: (w' ++ [c])) = toks y ++ [.unit (w' ++ [c])] := by
          rw [toks_append y _ (by intro c' r h; injection h with h _; rw [← h]; exact hslash)]
          have := toks_unit (w' ++ [c]) [] hslash (by simp) hw (by intro s t; simp [toks])
          simp only [List.append_nil] at this
          rw [this]
          simp [toks]
        unfold subPaths
        rw [ht]
        exact renderToks_final_unit _ w' c
      · refine ⟨subPaths y ++ d :: w', c, ?_, .inl rfl⟩
        rw [subPaths_split y _ d (by simp [isDelim, hd, hd2]), subPaths_allSeg _ hw]
        simp
  · refine ⟨subPaths x, c, ?_, .inl rfl⟩
    have ht : toks (x ++ [c]) = toks x ++ [.ch c] := by
      rw [toks_append x [c] (by intro c' r h; injection h with h _; rw [← h]; simpa using hc)]
      simp [toks, pushChar, hc]
    unfold subPaths
    rw [ht, renderToks_ch_split]
    simp [renderToks, flush, chainText]

end Pyxv.Validator

namespace Pyxv.Validator

/-! ## blanks around the text: `strip` commutes with the substitution -/

/-- the code points `str.strip()` removes -/
def spaceNats : List Nat :=
  [9, 10, 11, 12, 13, 28, 29, 30, 31, 32, 0x85, 0xA0, 0x1680, 0x2000, 0x2001, 0x2002, 0x2003, 0x2004, 0x2005, 0x2006,
   0x2007, 0x2008, 0x2009, 0x200A, 0x2028, 0x2029, 0x202F, 0x205F, 0x3000]

theorem space_mem (c : Char) (h : pyIsSpace c = true) : c.toNat ∈ spaceNats := by
  simp only [pyIsSpace, Bool.or_eq_true, Bool.and_eq_true, decide_eq_true_eq, beq_iff_eq] at h
  simp only [spaceNats, List.mem_cons, List.not_mem_nil, or_false]
  omega

/-- table fact: no blank is a path-segment character of ERROR_MESSAGE_REGEX -/
theorem spaces_not_seg_table :
    spaceNats.all (fun n => !(Gen.c18SegRanges.any (fun r => r.1 ≤ n && n ≤ r.2))) = true := by decide +kernel

theorem space_not_seg (c : Char) (h : pyIsSpace c = true) : isSeg c = false := by
  have hm := space_mem c h
  have ht := spaces_not_seg_table
  rw [List.all_eq_true] at ht
  have := ht c.toNat hm
  simpa [isSeg] using this

theorem space_delim (c : Char) (h : pyIsSpace c = true) : isDelim c = true := by
  have hs := space_not_seg c h
  have hne : c ≠ '/' := by
    intro e; rw [e] at h; exact absurd h (by decide)
  simp [isDelim, hs, hne]

theorem subPaths_blank_prefix (ws s : Str) (h : ∀ c ∈ ws, pyIsSpace c = true) : subPaths (ws ++ s) = ws ++ subPaths s := by
  induction ws with
  | nil => rfl
  | cons c cs ih =>
    have hc := space_delim c (h c (by simp))
    simp only [List.cons_append]
    rw [subPaths_delim_cons c _ hc, ih (fun x hx => h x (by simp [hx]))]

theorem subPaths_blank (ws : Str) (h : ∀ c ∈ ws, pyIsSpace c = true) : subPaths ws = ws := by
  have := subPaths_blank_prefix ws [] h
  simpa [subPaths_nil] using this

theorem subPaths_blank_suffix (s ws : Str) (h : ∀ c ∈ ws, pyIsSpace c = true) : subPaths (s ++ ws) = subPaths s ++ ws := by
  cases ws with
  | nil => simp
  | cons c cs =>
    rw [subPaths_split s cs c (space_delim c (h c (by simp))), subPaths_blank cs (fun x hx => h x (by simp [hx]))]

/-- blanks around a text stay where they are -/
theorem subPaths_pad (ws1 s ws2 : Str) (h1 : ∀ c ∈ ws1, pyIsSpace c = true) (h2 : ∀ c ∈ ws2, pyIsSpace c = true) :
    subPaths (ws1 ++ s ++ ws2) = ws1 ++ subPaths s ++ ws2 := by
  rw [List.append_assoc, subPaths_blank_prefix ws1 _ h1, subPaths_blank_suffix s ws2 h2, List.append_assoc]

theorem lstrip_blank_prefix (ws s : Str) (h : ∀ c ∈ ws, pyIsSpace c = true) : lstrip (ws ++ s) = lstrip s := by
  induction ws with
  | nil => rfl
  | cons c cs ih =>
    have hc := h c (by simp)
    have := ih (fun x hx => h x (by simp [hx]))
    simp only [lstrip, List.cons_append, List.dropWhile, hc] at this ⊢
    exact this

theorem rstrip_blank_suffix (s ws : Str) (h : ∀ c ∈ ws, pyIsSpace c = true) : rstrip (s ++ ws) = rstrip s := by
  have h' : ∀ c ∈ ws.reverse, pyIsSpace c = true := by
    intro c hc; exact h c (by simpa using hc)
  have := lstrip_blank_prefix ws.reverse s.reverse h'
  simp only [lstrip] at this
  simp only [rstrip, List.reverse_append, this]

/-- `strip` of a blank-padded text whose core starts and ends with a non-blank character is the core -/
theorem strip_pad (ws1 b ws2 : Str) (c d : Char) (r x : Str) (h1 : ∀ c ∈ ws1, pyIsSpace c = true)
    (h2 : ∀ c ∈ ws2, pyIsSpace c = true) (hb1 : b = c :: r) (hb2 : b = x ++ [d])
    (hc : pyIsSpace c = false) (hd : pyIsSpace d = false) : strip (ws1 ++ b ++ ws2) = b := by
  unfold strip
  rw [List.append_assoc, lstrip_blank_prefix ws1 _ h1]
  have : lstrip (b ++ ws2) = b ++ ws2 := by
    rw [hb1]; exact lstrip_id c (r ++ ws2) hc
  rw [this, rstrip_blank_suffix b ws2 h2, hb2, rstrip_id x d hd]

theorem strip_blank (ws : Str) (h : ∀ c ∈ ws, pyIsSpace c = true) : strip ws = [] := by
  have := lstrip_blank_prefix ws [] h
  simp only [List.append_nil] at this
  have h0 : lstrip ([] : Str) = [] := rfl
  rw [strip, this, h0]
  rfl

end Pyxv.Validator
