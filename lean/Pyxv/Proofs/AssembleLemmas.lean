import Pyxv.Proofs.XmlRoundTrip
import Pyxv.Model.Assemble
/-!
# Lemmas for C01: the element-only projection commutes with everything the reader's view of a
written tree does (`normNode`, `withSpaces`, `layout`, `normText`, `normAttrs`); invariants of
`Element.setAttribute`; lookups in the assembled attribute lists.
-/
namespace Pyxv.Asm
open Pyxv.Xml

/-! ## `eproj` forgets text -/

theorem eprojKids_nil : eprojKids [] = [] := by simp [eprojKids, isText, eproj]

theorem eprojKids_append (L1 L2 : List Node) : eprojKids (L1 ++ L2) = eprojKids L1 ++ eprojKids L2 := by
  induction L1 with
  | nil => simp [eprojKids, isText, eproj]
  | cons n r ih => cases n <;> simp [eprojKids, isText, eproj, ih]

theorem eprojKids_text (b : Bool) (s : Str) (L : List Node) : eprojKids (.text b s :: L) = eprojKids L := by
  simp [eprojKids, isText, eproj]

theorem eprojKids_elem (t : Str) (a : List (Str × Str)) (ks L : List Node) :
    eprojKids (.elem t a ks :: L) = .elem t a (eprojKids ks) :: eprojKids L := by
  simp [eprojKids, isText, eproj]

theorem eprojKids_cons (n : Node) (L : List Node) : eprojKids (n :: L) = eprojKids [n] ++ eprojKids L := by
  cases n <;> simp [eprojKids, isText, eproj]

theorem eproj_elem (t : Str) (a : List (Str × Str)) (ks : List Node) :
    eproj (.elem t a ks) = .elem t a (eprojKids ks) := by
  simp [eproj]

theorem eprojKids_prepend (a : Str) (L : List Node) : eprojKids (prepend a L) = eprojKids L := by
  cases a with
  | nil => rfl
  | cons c a =>
    cases L with
    | nil => simp [prepend, eprojKids, isText, eproj]
    | cons n r => cases n <;> simp [prepend, eprojKids, isText, eproj]

theorem eprojKids_mergeText (L : List Node) : eprojKids (mergeText L) = eprojKids L := by
  induction L with
  | nil => simp [mergeText]
  | cons n r ih =>
    cases n with
    | text b s => simp [mergeText_text, eprojKids_prepend, ih, eprojKids, isText, eproj]
    | elem t a ks => simp [mergeText_elem, eprojKids, isText, eproj, ih]

theorem eprojKids_textIfNonempty (s : Str) : eprojKids (textIfNonempty s) = [] := by
  unfold textIfNonempty; split <;> simp [eprojKids, isText, eproj]

/-- the projection of a one-element list is determined by the projection of the node -/
theorem eprojKids_single_of_eproj {n m : Node} (h : eproj n = eproj m) (hn : isText n = isText m) :
    eprojKids [n] = eprojKids [m] := by
  cases n <;> cases m <;> simp_all [eprojKids, isText, eproj, eproj, isText]

mutual
theorem eproj_normNode : ∀ (n : Node), eproj (normNode n) = eproj n
  | .text _ _ => by simp [normNode_text, eproj]
  | .elem t a ks => by
    rw [normNode_elem, eproj_elem, eproj_elem, eprojKids_mergeText, eprojKids_normKids ks]
theorem eprojKids_normKids : ∀ (ks : List Node), eprojKids (normKids ks) = eprojKids ks
  | [] => by simp [normKids]
  | .text b s :: ks => by simp [normKids, normNode_text, eprojKids, isText, eproj, eprojKids_normKids ks]
  | .elem t a ks' :: ks => by
    have h := eproj_normNode (.elem t a ks')
    rw [normNode_elem, eproj_elem, eproj_elem] at h
    simp only [normKids, normNode_elem, eprojKids_elem, eprojKids_normKids ks]
    injection h with _ _ h3
    rw [h3]
end

mutual
theorem eproj_withSpaces : ∀ (n : Node), eproj (withSpaces n) = eproj n
  | .text _ _ => by simp [withSpaces, eproj]
  | .elem t a ks => by
    simp only [withSpaces]
    split <;> simp [eproj_elem, eprojKids_append, eprojKids_textIfNonempty, eprojKids_withSpacesKids ks]
theorem eprojKids_withSpacesKids : ∀ (ks : List Node), eprojKids (withSpacesKids ks) = eprojKids ks
  | [] => by simp [withSpacesKids]
  | .text b s :: ks => by simp [withSpacesKids, withSpaces, eprojKids, isText, eproj, eprojKids_withSpacesKids ks]
  | .elem t a ks' :: ks => by
    have h := eproj_withSpaces (.elem t a ks')
    simp only [withSpacesKids]
    rw [eprojKids_cons, eprojKids_cons (.elem t a ks'), eprojKids_withSpacesKids ks]
    congr 1
    apply eprojKids_single_of_eproj h
    simp only [withSpaces]; split <;> simp [isText]
end

mutual
theorem eproj_layout : ∀ (n : Node) (ind add nl : Str), eproj (layout ind add nl n) = eproj n
  | .text _ _, _, _, _ => by simp [layout, eproj]
  | .elem t a [], _, _, _ => by simp [layout]
  | .elem t a (k :: ks), ind, add, nl => by
    simp only [layout]
    split <;> simp [eproj_elem, eprojKids_append, eprojKids_text, eprojKids_layoutKids (k :: ks), eprojKids, isText, eproj]
theorem eprojKids_layoutKids : ∀ (ks : List Node) (ind add nl : Str),
    eprojKids (layoutKids ind add nl ks) = eprojKids ks
  | [], _, _, _ => by simp [layoutKids]
  | k :: ks, ind, add, nl => by
    have h := eproj_layout k ind add nl
    simp only [layoutKids, eprojKids_text]
    rw [eprojKids_cons, eprojKids_text, eprojKids_cons k, eprojKids_layoutKids ks]
    congr 1
    apply eprojKids_single_of_eproj h
    cases k with
    | text b s => simp [layout, isText]
    | elem t a ks' => cases ks' <;> simp [layout, isText]
end

mutual
theorem eproj_normText : ∀ (n : Node), eproj (normText n) = eproj n
  | .text _ _ => by simp [normText, eproj]
  | .elem t a ks => by simp [normText, eproj_elem, eprojKids_normTextKids ks]
theorem eprojKids_normTextKids : ∀ (ks : List Node), eprojKids (normTextKids ks) = eprojKids ks
  | [] => by simp [normTextKids]
  | .text b s :: ks => by simp [normTextKids, normText, eprojKids, isText, eproj, eprojKids_normTextKids ks]
  | .elem t a ks' :: ks => by
    simp [normTextKids, normText, eprojKids, isText, eproj, eprojKids_normTextKids ks, eprojKids_normTextKids ks']
end

mutual
theorem eproj_normAttrs : ∀ (n : Node), eproj (normAttrs n) = normAttrs (eproj n)
  | .text _ _ => by simp [normAttrs, eproj]
  | .elem t a ks => by simp [normAttrs, eproj_elem, eprojKids_normAttrsKids ks]
theorem eprojKids_normAttrsKids : ∀ (ks : List Node), eprojKids (normAttrsKids ks) = normAttrsKids (eprojKids ks)
  | [] => by simp [normAttrsKids, eprojKids, isText, eproj]
  | .text b s :: ks => by simp [normAttrsKids, normAttrs, eprojKids, isText, eproj, eprojKids_normAttrsKids ks]
  | .elem t a ks' :: ks => by
    simp [normAttrsKids, normAttrs, eprojKids, isText, eproj, eprojKids_normAttrsKids ks, eprojKids_normAttrsKids ks']
end

/-- what the reader reports for the compact output has the element structure of the DOM tree,
    attribute values normalised -/
theorem eproj_expectedLax (t : Node) : eproj (expectedLax t) = normAttrs (eproj t) := by
  rw [expectedLax, eproj_normText, expected, eproj_normNode, eproj_withSpaces, eproj_normAttrs]

theorem eproj_expectedPrettyLax (t : Node) : eproj (expectedPrettyLax t) = normAttrs (eproj t) := by
  rw [expectedPrettyLax, eproj_normText, expectedPretty, eproj_normNode, eproj_layout, eproj_normAttrs]

/-! ## lookups -/

theorem lookup_normAttrList (k : Str) (a : List (Str × Str)) :
    lookup k (normAttrList a) = (lookup k a).map normAttrVal := by
  induction a with
  | nil => simp [normAttrList, lookup]
  | cons kv r ih =>
    obtain ⟨k', v⟩ := kv
    simp only [normAttrList, List.map_cons, lookup] at ih ⊢
    split <;> simp [ih]

theorem lookup_append (k : Str) (a b : List (Str × Str)) :
    lookup k (a ++ b) = match lookup k a with | some v => some v | none => lookup k b := by
  induction a with
  | nil => simp [lookup]
  | cons kv r ih =>
    obtain ⟨k', v⟩ := kv
    simp only [List.cons_append, lookup]
    split <;> simp [ih]

theorem normAttrList_append (a b : List (Str × Str)) :
    normAttrList (a ++ b) = normAttrList a ++ normAttrList b := by
  simp [normAttrList]

theorem hasName_normAttrList {sc : List (Str × Str)} {tag ns loc : Str}
    (h : hasName sc tag ns loc = true) (hns : normAttrVal ns = ns) :
    hasName (normAttrList sc) tag ns loc = true := by
  unfold hasName expandTag at *
  split at h <;> simp_all [lookup_normAttrList]

theorem isInstanceTag_normAttrs (k : Node) : isInstanceTag (normAttrs k) = isInstanceTag k := by
  cases k <;> simp [normAttrs, isInstanceTag]

theorem find_normAttrsKids (mk : List Node) :
    (normAttrsKids mk).find? isInstanceTag = (mk.find? isInstanceTag).map normAttrs := by
  induction mk with
  | nil => simp [normAttrsKids]
  | cons k r ih =>
    simp only [normAttrsKids, List.find?_cons, isInstanceTag_normAttrs]
    split <;> simp [ih]

theorem normAttrVal_xhtml : normAttrVal xhtmlNs = xhtmlNs := by decide
theorem normAttrVal_xforms : normAttrVal xformsNs = xformsNs := by decide

theorem instOk_normAttrs {fid : Str} {sc : List (Str × Str)} {o : Option Node}
    (h : instOk fid sc o = true) :
    instOk (normAttrVal fid) (normAttrList sc) (o.map normAttrs) = true := by
  unfold instOk at h
  split at h
  · rename_i it ia x ra y
    simp only [Bool.and_eq_true, beq_iff_eq] at h
    simp only [Option.map_some, normAttrs, normAttrsKids, instOk, Bool.and_eq_true, beq_iff_eq,
      ← normAttrList_append, lookup_normAttrList, h.2, Option.map_some, and_true]
    exact hasName_normAttrList h.1 normAttrVal_xforms
  · cases h

/-- the skeleton survives attribute-value normalisation (the form id is normalised with it) -/
theorem skelE_normAttrs {fid : Str} {n : Node} (h : skelE fid n = true) :
    skelE (normAttrVal fid) (normAttrs n) = true := by
  unfold skelE at h
  split at h
  · simp only [Bool.and_eq_true] at h
    obtain ⟨⟨⟨⟨⟨h1, h2⟩, h3⟩, h4⟩, h5⟩, h6⟩ := h
    simp only [normAttrs, normAttrsKids, skelE, Bool.and_eq_true, ← normAttrList_append, find_normAttrsKids]
    exact ⟨⟨⟨⟨⟨hasName_normAttrList h1 normAttrVal_xhtml, hasName_normAttrList h2 normAttrVal_xhtml⟩,
      hasName_normAttrList h3 normAttrVal_xhtml⟩, hasName_normAttrList h4 normAttrVal_xforms⟩,
      hasName_normAttrList h5 normAttrVal_xhtml⟩, instOk_normAttrs h6⟩
  · cases h

/-! ## `Element.setAttribute` -/

theorem lookup_map_update (k v : Str) (d : List (Str × Str)) (h : d.any (fun kv => kv.1 == k) = true) :
    lookup k (d.map fun kv => if kv.1 = k then (kv.1, v) else kv) = some v := by
  induction d with
  | nil => simp at h
  | cons kv r ih =>
    obtain ⟨k', v'⟩ := kv
    by_cases hk : k' = k
    · simp [lookup, hk]
    · have hk' : ¬ k = k' := fun e => hk e.symm
      have hb : (k' == k) = false := by simp [hk]
      simp only [List.any_cons, hb, Bool.false_or] at h
      simp [lookup, hk, hk', ih h]

theorem lookup_none_of_not_any (k : Str) (d : List (Str × Str)) (h : d.any (fun kv => kv.1 == k) = false) :
    lookup k d = none := by
  induction d with
  | nil => simp [lookup]
  | cons kv r ih =>
    obtain ⟨k', v'⟩ := kv
    simp only [List.any_cons, Bool.or_eq_false_iff, beq_eq_false_iff_ne] at h
    have hk' : ¬ k = k' := fun e => h.1 e.symm
    simp [lookup, hk', ih h.2]

theorem lookup_filter_none (k : Str) (p : Str × Str → Bool) (d : List (Str × Str)) (h : lookup k d = none) :
    lookup k (d.filter p) = none := by
  induction d with
  | nil => simp [lookup]
  | cons kv r ih =>
    obtain ⟨k', v'⟩ := kv
    simp only [lookup] at h
    split at h
    · cases h
    · rename_i hk
      simp only [List.filter_cons]
      split <;> simp [lookup, hk, ih h]

theorem lookup_setAttr_self (d : List (Str × Str)) (k v : Str) : lookup k (setAttr d k v) = some v := by
  unfold setAttr
  split
  · rename_i h; exact lookup_map_update k v d h
  · rename_i h
    have h' : d.any (fun kv => kv.1 == k) = false := by
      cases hh : d.any (fun kv => kv.1 == k) <;> simp_all
    rw [lookup_append, lookup_filter_none k _ d (lookup_none_of_not_any k d h')]
    simp [lookup]

theorem lookup_map_other (k k' v' : Str) (d : List (Str × Str)) (hk : k' ≠ k) :
    lookup k (d.map fun kv => if kv.1 = k' then (kv.1, v') else kv) = lookup k d := by
  induction d with
  | nil => simp [lookup]
  | cons kv r ih =>
    obtain ⟨k2, v2⟩ := kv
    by_cases h2 : k2 = k'
    · have : ¬ k = k2 := fun e => hk (h2 ▸ e.symm)
      have h3 : ¬ k = k' := fun e => hk e.symm
      simp [lookup, h2, ih, h3]
    · simp [lookup, h2, ih]

theorem lookup_filter_local (k k' : Str) (d : List (Str × Str)) (hl : attrLocal k ≠ attrLocal k') :
    lookup k (d.filter fun kv => attrLocal kv.1 != attrLocal k') = lookup k d := by
  induction d with
  | nil => simp [lookup]
  | cons kv r ih =>
    obtain ⟨k2, v2⟩ := kv
    simp only [List.filter_cons]
    by_cases h2 : k = k2
    · subst h2
      simp [lookup, hl]
    · split <;> simp [lookup, h2, ih]

theorem lookup_setAttr_other (d : List (Str × Str)) (k k' v' : Str) (hk : k' ≠ k)
    (hl : attrLocal k ≠ attrLocal k') : lookup k (setAttr d k' v') = lookup k d := by
  unfold setAttr
  split
  · exact lookup_map_other k k' v' d hk
  · rw [lookup_append, lookup_filter_local k k' d hl]
    have : ¬ k = k' := fun e => hk e.symm
    cases lookup k d <;> simp [lookup, this]

/-! ### invariants of `setAttribute`: entries come from the arguments, keys stay distinct -/

theorem attrKeysNodup_iff (d : List (Str × Str)) : attrKeysNodup d = true ↔ (d.map Prod.fst).Nodup := by
  induction d with
  | nil => simp [attrKeysNodup]
  | cons kv r ih =>
    obtain ⟨k, v⟩ := kv
    simp only [attrKeysNodup, Bool.and_eq_true, Bool.not_eq_true', ih, List.map_cons, List.nodup_cons]
    constructor
    · rintro ⟨h1, h2⟩
      refine ⟨?_, h2⟩
      intro hm
      rw [List.mem_map] at hm
      obtain ⟨p, hp, hpk⟩ := hm
      have : r.any (fun p => p.1 == k) = true := List.any_eq_true.mpr ⟨p, hp, by simp [hpk]⟩
      rw [this] at h1; cases h1
    · rintro ⟨h1, h2⟩
      refine ⟨?_, h2⟩
      cases hh : r.any (fun p => p.1 == k) with
      | false => rfl
      | true =>
        obtain ⟨p, hp, hpk⟩ := List.any_eq_true.mp hh
        exact absurd (List.mem_map.mpr ⟨p, hp, by simpa using hpk⟩) h1

theorem keys_map_update (d : List (Str × Str)) (k v : Str) :
    (d.map fun kv => if kv.1 = k then (kv.1, v) else kv).map Prod.fst = d.map Prod.fst := by
  induction d with
  | nil => rfl
  | cons kv r ih => simp only [List.map_cons, ih]; split <;> rfl

/-- the AList invariant: `setAttribute` keeps attribute names distinct -/
theorem attrKeysNodup_setAttr (d : List (Str × Str)) (k v : Str) (h : attrKeysNodup d = true) :
    attrKeysNodup (setAttr d k v) = true := by
  rw [attrKeysNodup_iff] at h ⊢
  unfold setAttr
  split
  · rw [keys_map_update]; exact h
  · rename_i hk
    rw [List.map_append, List.nodup_append]
    refine ⟨List.Nodup.sublist (List.Sublist.map _ List.filter_sublist) h, by simp, ?_⟩
    intro a ha b hb
    simp only [List.map_cons, List.map_nil, List.mem_singleton] at hb
    subst hb
    intro e
    subst e
    rw [List.mem_map] at ha
    obtain ⟨p, hp, hpk⟩ := ha
    have hp' := (List.mem_filter.mp hp).1
    exact hk (List.any_eq_true.mpr ⟨p, hp', by simp [hpk]⟩)

theorem attrKeysNodup_setAttrs (upd d : List (Str × Str)) (h : attrKeysNodup d = true) :
    attrKeysNodup (setAttrs d upd) = true := by
  induction upd generalizing d with
  | nil => exact h
  | cons kv r ih => exact ih _ (attrKeysNodup_setAttr d kv.1 kv.2 h)

/-- every attribute after `setAttribute(k, v)` is an old one or `(k, v)` -/
theorem all_setAttr (p : Str × Str → Bool) (d : List (Str × Str)) (k v : Str)
    (hd : d.all p = true) (hkv : p (k, v) = true) : (setAttr d k v).all p = true := by
  unfold setAttr
  split
  · rw [List.all_eq_true] at hd ⊢
    intro x hx
    rw [List.mem_map] at hx
    obtain ⟨y, hy, rfl⟩ := hx
    split
    · rename_i e; rw [e]; exact hkv
    · exact hd y hy
  · rw [List.all_append, Bool.and_eq_true]
    refine ⟨?_, by simp [hkv]⟩
    rw [List.all_eq_true] at hd ⊢
    intro x hx
    exact hd x (List.mem_filter.mp hx).1

theorem all_setAttrs (p : Str × Str → Bool) (upd d : List (Str × Str))
    (hd : d.all p = true) (hu : upd.all p = true) : (setAttrs d upd).all p = true := by
  induction upd generalizing d with
  | nil => exact hd
  | cons kv r ih =>
    rw [List.all_cons, Bool.and_eq_true] at hu
    exact ih _ (all_setAttr p d kv.1 kv.2 hd hu.1) hu.2

theorem lookup_id_step (a : List (Str × Str)) (c : Bool) (k v : Str) (hk : k ≠ "id".toList)
    (hl : attrLocal "id".toList ≠ attrLocal k) :
    lookup "id".toList (if c = true then a else setAttr a k v) = lookup "id".toList a := by
  cases c
  · exact lookup_setAttr_other _ _ _ _ hk hl
  · rfl

/-- `Survey.xml_instance` sets `id` after the user's `attribute::` columns, and nothing set later
    can evict or overwrite it: the primary instance root always carries `id = id_string` -/
theorem lookup_id_rootAttrs (f : Fields) : lookup "id".toList (rootAttrs f) = some f.idString := by
  unfold rootAttrs
  simp only [lookup_id_step _ _ "xmlns".toList _ (by decide) (by decide),
    lookup_id_step _ _ "version".toList _ (by decide) (by decide),
    lookup_id_step _ _ "odk:prefix".toList _ (by decide) (by decide),
    lookup_id_step _ _ "odk:delimiter".toList _ (by decide) (by decide), lookup_setAttr_self]

/-! ## `prefixesBound`, one element at a time -/

/-- a tag or attribute name is a QName whose prefix (if any) is `xml`, `xmlns` or in scope -/
def qnameOk (scope : List Str) (q : Str) : Bool :=
  isQName q &&
  match splitQName q with
  | (some p, _) => p = "xml".toList || p = "xmlns".toList || scope.contains p
  | (none, _) => true

theorem pb_elem_eq (sc : List Str) (t : Str) (a : List (Str × Str)) (ks : List Node) :
    prefixesBound sc (.elem t a ks) =
      (qnameOk (declaredPrefixes a ++ sc) t && a.all (fun kv => qnameOk (declaredPrefixes a ++ sc) kv.1) &&
        prefixesBoundKids (declaredPrefixes a ++ sc) ks) := by
  simp only [prefixesBound, qnameOk]
  rfl

theorem qnameOk_mono (X sc : List Str) (q : Str) (h : qnameOk sc q = true) : qnameOk (X ++ sc) q = true := by
  unfold qnameOk at *
  simp only [Bool.and_eq_true] at h ⊢
  refine ⟨h.1, ?_⟩
  have h2 := h.2
  split at h2
  · simp only [Bool.or_eq_true, decide_eq_true_eq, List.contains_eq_mem, List.mem_append] at h2 ⊢
    rcases h2 with h2 | h2
    · exact Or.inl h2
    · exact Or.inr (Or.inr h2)
  · rfl

theorem all_qnameOk_mono (X sc : List Str) (a : List (Str × Str))
    (h : a.all (fun kv => qnameOk sc kv.1) = true) : a.all (fun kv => qnameOk (X ++ sc) kv.1) = true := by
  rw [List.all_eq_true] at h ⊢
  intro x hx
  exact qnameOk_mono X sc x.1 (h x hx)

theorem pbKids_nil (sc : List Str) : prefixesBoundKids sc [] = true := by simp [prefixesBoundKids]

theorem pbKids_cons (sc : List Str) (k : Node) (ks : List Node) :
    prefixesBoundKids sc (k :: ks) = (prefixesBound sc k && prefixesBoundKids sc ks) := by
  simp [prefixesBoundKids]

theorem declaredPrefixes_nil : declaredPrefixes [] = [] := rfl

theorem WFKidsLax_append (L1 L2 : List Node) : WFKidsLax (L1 ++ L2) = (WFKidsLax L1 && WFKidsLax L2) := by
  induction L1 with
  | nil => simp [WFKidsLax]
  | cons n r ih => simp [WFKidsLax, ih, Bool.and_assoc]

/-! ## the shape of the assembled document -/

theorem setAttrs_nil : setAttrs [] [] = [] := rfl

theorem find_single_not (t : Str) (a : List (Str × Str)) (ks : List Node)
    (h : (localName t == "instance".toList) = false) :
    (eprojKids [pyNode t a ks]).find? isInstanceTag = none := by
  rw [pyNode, eprojKids_elem, List.find?_cons]
  have : isInstanceTag (.elem t (setAttrs [] a) (eprojKids ks)) = false := h
  rw [this, eprojKids_nil]; rfl

theorem find_submission (f : Fields) : (eprojKids (submissionNode f)).find? isInstanceTag = none := by
  unfold submissionNode
  split
  · rw [eprojKids_nil]; rfl
  · exact find_single_not _ _ _ (by decide)

theorem find_modelKids (f : Fields) (itext : Option (List Node)) (rk rest : List Node) :
    (eprojKids (modelKids f itext rk rest)).find? isInstanceTag =
      some (.elem "instance".toList [] [.elem f.name (rootAttrs f) (eprojKids rk)]) := by
  have hinst : isInstanceTag (.elem "instance".toList [] [.elem f.name (rootAttrs f) (eprojKids rk)]) = true := by
    show (localName "instance".toList == "instance".toList) = true
    decide
  have hrest : (eprojKids (pyNode "instance".toList [] [.elem f.name (rootAttrs f) rk] :: rest)).find? isInstanceTag =
      some (.elem "instance".toList [] [.elem f.name (rootAttrs f) (eprojKids rk)]) := by
    rw [pyNode, eprojKids_elem, setAttrs_nil, eprojKids_elem, List.find?_cons]
    rw [eprojKids_nil, hinst]
  unfold modelKids
  rw [eprojKids_append, eprojKids_append, List.find?_append, List.find?_append, find_submission, hrest]
  cases itext with
  | none => simp only [itextPart, eprojKids_nil]; rfl
  | some ks => simp only [itextPart, find_single_not _ _ _ (show (localName "itext".toList == "instance".toList) = false by decide)]; rfl

end Pyxv.Asm
