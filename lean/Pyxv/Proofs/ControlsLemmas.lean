import Pyxv.Model.Controls
/-! Insertion-ordered dictionaries as finite maps: lookups after `dset` / `dupdate` / `filter`. -/
namespace Pyxv.Controls
open Pyxv Pyxv.Rows

theorem lookup_dset (d : Dict) (k k' v : Str) :
    lookup k (dset d k' v) = if k = k' then some v else lookup k d := by
  induction d with
  | nil => simp [dset, lookup]
  | cons x rest ih =>
    obtain ⟨a, b⟩ := x
    simp only [dset]
    by_cases h : k' = a
    · subst h; simp only [if_true, lookup]; split <;> rfl
    · simp only [h, if_false, lookup, ih]
      by_cases h2 : k = a
      · subst h2
        have : ¬ k = k' := fun e => h e.symm
        simp [this]
      · simp [h2]

/-- last occurrence -/
def lookupLast (k : Str) : Dict → Option Str
  | [] => none
  | (a, b) :: rest =>
    match lookupLast k rest with
    | some v => some v
    | none => if k = a then some b else none

theorem lookup_dupdate (e : Dict) : ∀ (d : Dict) (k : Str),
    lookup k (dupdate d e) = match lookupLast k e with | some v => some v | none => lookup k d := by
  induction e with
  | nil => intro d k; simp [dupdate, lookupLast]
  | cons x rest ih =>
    intro d k
    obtain ⟨a, b⟩ := x
    have h : dupdate d ((a, b) :: rest) = dupdate (dset d a b) rest := by simp [dupdate]
    rw [h, ih, lookup_dset]
    simp only [lookupLast]
    cases lookupLast k rest <;> simp <;> split <;> simp_all

theorem lookup_none_of_not_any (d : Dict) (k : Str) (h : (d.any fun kv => kv.1 = k) = false) : lookup k d = none := by
  induction d with
  | nil => rfl
  | cons x rest ih =>
    obtain ⟨a, b⟩ := x
    simp only [List.any_cons, Bool.or_eq_false_iff, decide_eq_false_iff_not] at h
    have : ¬ k = a := fun e => h.1 e.symm
    simp [lookup, this, ih h.2]

theorem lookupLast_eq_lookup (d : Dict) (k : Str) (h : keysNodupB d = true) : lookupLast k d = lookup k d := by
  induction d with
  | nil => rfl
  | cons x rest ih =>
    obtain ⟨a, b⟩ := x
    simp only [keysNodupB, Bool.and_eq_true, Bool.not_eq_true'] at h
    simp only [lookupLast, lookup, ih h.2]
    by_cases hk : k = a
    · subst hk; simp [lookup_none_of_not_any rest k h.1]
    · simp only [hk, if_false]; cases lookup k rest <;> rfl

theorem any_dset (d : Dict) (k k' v : Str) :
    ((dset d k' v).any fun kv => kv.1 = k) = ((d.any fun kv => kv.1 = k) || decide (k' = k)) := by
  induction d with
  | nil => simp [dset]
  | cons x rest ih =>
    obtain ⟨a, b⟩ := x
    simp only [dset]
    by_cases h : k' = a
    · subst h; simp only [if_true, List.any_cons]
      cases (rest.any fun kv => kv.1 = k) <;> cases decide (k' = k) <;> simp
    · simp only [h, if_false, List.any_cons, ih, Bool.or_assoc]

theorem keysNodupB_dset (d : Dict) (k v : Str) (h : keysNodupB d = true) : keysNodupB (dset d k v) = true := by
  induction d with
  | nil => simp [dset, keysNodupB]
  | cons x rest ih =>
    obtain ⟨a, b⟩ := x
    simp only [keysNodupB, Bool.and_eq_true, Bool.not_eq_true'] at h
    simp only [dset]
    by_cases hk : k = a
    · subst hk; simp [keysNodupB, h.1, h.2]
    · simp only [hk, if_false, keysNodupB, Bool.and_eq_true, Bool.not_eq_true', any_dset, ih h.2, and_true,
        Bool.or_eq_false_iff, decide_eq_false_iff_not]
      first | exact ⟨h.1, hk⟩ | exact ⟨h.1, fun hh => hh⟩ | simp_all

theorem lookup_filter_ne (d : Dict) (k t : Str) :
    lookup k (d.filter fun kv => kv.1 ≠ t) = if k = t then none else lookup k d := by
  induction d with
  | nil => simp [lookup]
  | cons x rest ih =>
    obtain ⟨a, b⟩ := x
    by_cases ha : a = t
    · subst ha
      simp only [List.filter, ne_eq, not_true_eq_false, decide_false, lookup]
      rw [show (List.filter (fun kv : Str × Str => decide (kv.1 ≠ a)) rest) = rest.filter (fun kv => kv.1 ≠ a) from rfl, ih]
      by_cases hk : k = a <;> simp [hk]
    · have : decide ((a, b).1 ≠ t) = true := by simp [ha]
      simp only [List.filter, this, lookup]
      rw [show (List.filter (fun kv : Str × Str => decide (kv.1 ≠ t)) rest) = rest.filter (fun kv => kv.1 ≠ t) from rfl, ih]
      by_cases hk : k = a
      · subst hk; simp [ha]
      · simp [hk]

end Pyxv.Controls
