import Pyxv.Proofs.C01Valid
/-!
# C01: namespace declarations of an accepted document are legal (`declsOk`), and attributes never
clash by expanded name
-/
namespace Pyxv.C01
open Pyxv Pyxv.Xml Pyxv.Asm Pyxv.Rows

/-! ## `declsOk` only looks at tags and attributes -/

theorem dk_text (b : Bool) (s : Str) : declsOk (.text b s) = true := by simp [declsOk]

theorem dkKids_cons (k : Node) (ks : List Node) : declsOkKids (k :: ks) = (declsOk k && declsOkKids ks) := by
  simp [declsOkKids]

theorem dk_prepend (a : Str) (L : List Node) : declsOkKids (prepend a L) = declsOkKids L := by
  cases a with
  | nil => rfl
  | cons c a =>
    cases L with
    | nil => simp [prepend, declsOkKids, dk_text]
    | cons n r => cases n <;> simp [prepend, declsOkKids, dk_text]

theorem dk_mergeText (L : List Node) : declsOkKids (mergeText L) = declsOkKids L := by
  induction L with
  | nil => simp [mergeText]
  | cons n r ih =>
    cases n with
    | text b s => simp [mergeText_text, dk_prepend, ih, declsOkKids, dk_text]
    | elem t a ks => simp [mergeText_elem, declsOkKids, ih]

theorem dk_append (L1 L2 : List Node) : declsOkKids (L1 ++ L2) = (declsOkKids L1 && declsOkKids L2) := by
  induction L1 with
  | nil => simp [declsOkKids]
  | cons n r ih => simp [declsOkKids, ih, Bool.and_assoc]

theorem dk_elem (t : Str) (a : List (Str × Str)) (ks ks' : List Node) (h : declsOkKids ks' = declsOkKids ks) :
    declsOk (.elem t a ks') = declsOk (.elem t a ks) := by
  simp only [declsOk, h]

mutual
theorem dk_normNode : ∀ (n : Node), declsOk (normNode n) = declsOk n
  | .text _ _ => by simp [normNode_text, dk_text]
  | .elem t a ks => by
    rw [normNode_elem]
    exact dk_elem t a ks _ (by rw [dk_mergeText, dk_normKids ks])
theorem dk_normKids : ∀ (ks : List Node), declsOkKids (normKids ks) = declsOkKids ks
  | [] => by simp [normKids]
  | k :: ks => by simp [normKids, declsOkKids, dk_normNode k, dk_normKids ks]
end

mutual
theorem dk_layout : ∀ (n : Node) (ind add nl : Str), declsOk (layout ind add nl n) = declsOk n
  | .text _ _, _, _, _ => by simp [layout]
  | .elem t a [], _, _, _ => by simp [layout]
  | .elem t a (k :: ks), ind, add, nl => by
    simp only [layout]
    apply dk_elem
    split <;> simp [declsOkKids, dk_append, dk_text, dk_layoutKids (k :: ks)]
theorem dk_layoutKids : ∀ (ks : List Node) (ind add nl : Str),
    declsOkKids (layoutKids ind add nl ks) = declsOkKids ks
  | [], _, _, _ => by simp [layoutKids]
  | k :: ks, ind, add, nl => by
    simp [layoutKids, declsOkKids, dk_text, dk_layout k ind add nl, dk_layoutKids ks ind add nl]
end

mutual
theorem dk_normText : ∀ (n : Node), declsOk (normText n) = declsOk n
  | .text _ _ => by simp [normText, dk_text]
  | .elem t a ks => by
    simp only [normText]
    exact dk_elem t a ks _ (dk_normTextKids ks)
theorem dk_normTextKids : ∀ (ks : List Node), declsOkKids (normTextKids ks) = declsOkKids ks
  | [] => by simp [normTextKids]
  | k :: ks => by simp [normTextKids, declsOkKids, dk_normText k, dk_normTextKids ks]
end

theorem declsOk_expectedLax (t : Node) : declsOk (expectedLax t) = declsOk (normAttrs t) := by
  rw [expectedLax, dk_normText, expected, ← norm_layout_compact, dk_normNode, dk_layout]

theorem declsOk_expectedPrettyLax (t : Node) : declsOk (expectedPrettyLax t) = declsOk (normAttrs t) := by
  rw [expectedPrettyLax, dk_normText, expectedPretty, dk_normNode, dk_layout]

/-! ## an accepted document that does not use the reserved namespace names has legal declarations -/

/-- element tag does not carry the prefix `xmlns` (complement of finding F3x) -/
def tagFree (t : Str) : Bool := (splitQName t).1 != some "xmlns".toList

/-- a namespace declaration does not bind to one of the two reserved namespace names, as a reader
    sees the value (complement of finding F2b-reserved-namespace-uri) -/
def attrFree (kv : Str × Str) : Bool :=
  !(kv.1 == "xmlns".toList || startsWith kv.1 xmlnsColon) ||
  (normAttrVal kv.2 != xmlNsUri && normAttrVal kv.2 != xmlnsNsUri)

mutual
def noReserved : Node → Bool
  | .text _ _ => true
  | .elem t a ks => tagFree t && a.all attrFree && noReservedKids ks
def noReservedKids : List Node → Bool
  | [] => true
  | k :: ks => noReserved k && noReservedKids ks
end

theorem normAttrVal_isEmpty (v : Str) : (normAttrVal v).isEmpty = v.isEmpty := by
  cases v with
  | nil => rfl
  | cons c r =>
    rw [normAttrVal.eq_def]
    split <;> simp_all

theorem declOk_of_valid (scope : List Str) (kv : Str × Str) (hb : noBr kv.1 = true)
    (hn : nameValid scope kv.1 = true) (hd : pyDeclOk kv = true) (hf : attrFree kv = true) :
    declOk (kv.1, normAttrVal kv.2) = true := by
  obtain ⟨k, v⟩ := kv
  simp only [nameValid, Bool.and_eq_true] at hn
  simp only [attrFree, Bool.or_eq_true, Bool.not_eq_true', Bool.or_eq_false_iff, Bool.and_eq_true] at hf
  rcases isXmlTag_spec k hb hn.1 with hnc | ⟨p, l, hq, hp, hl⟩
  · obtain ⟨_, h2⟩ := decl_nocolon k v hnc.nocolon
    simp only [declOk, h2]
    split
    · rename_i e
      rcases hf with hf | hf
      · simp [e] at hf
      · simp only [Bool.and_eq_true]; exact hf
    · rfl
  · subst hq
    obtain ⟨h1, h2⟩ := decl_join p l v hp.nocolon hl.nocolon
    simp only [declOk, h2]
    split
    · rename_i e
      subst e
      simp only [if_true] at h1
      have hs : startsWith ("xmlns".toList ++ ':' :: l) xmlnsColon = true := by
        have hk : "xmlns".toList ++ ':' :: l = xmlnsColon ++ l := by simp [xmlnsColon]
        rw [hk]; exact startsWith_self_append _ _
      simp only [pyDeclOk, h1, Bool.and_eq_true] at hd
      replace hd := hd.1
      rcases hf with hf | hf
      · rw [hs] at hf; simp at hf
      · have hlx : (l == "xml".toList) = false := by
          have := hd.1.2
          simpa [bne_iff_ne] using this
        have hvx : (normAttrVal v == xmlNsUri) = false := by
          have := hf.1
          simpa [bne_iff_ne] using this
        simp only [Bool.and_eq_true, normAttrVal_isEmpty, hlx, hvx]
        exact ⟨⟨⟨hd.1.1, hd.2⟩, rfl⟩, hf.2⟩
    · rfl

mutual
theorem declsOk_of_validDoc : ∀ (n : Node) (sc : List Str), validDoc sc n = true → noBrTree n = true →
    noReserved n = true → declsOk (normAttrs n) = true
  | .text _ _, _, _, _, _ => by simp [normAttrs, declsOk]
  | .elem t a ks, sc, h, hb, hr => by
    simp only [validDoc, Bool.and_eq_true] at h
    simp only [noBrTree, Bool.and_eq_true] at hb
    simp only [noReserved, Bool.and_eq_true] at hr
    obtain ⟨⟨⟨⟨hd, ht⟩, ha⟩, hk⟩, hel⟩ := h
    simp only [normAttrs, declsOk, Bool.and_eq_true]
    refine ⟨⟨hr.1.1, ?_⟩, declsOkKids_of_validKids ks _ hk hb.2 hr.2⟩
    simp only [normAttrList, List.all_map]
    rw [List.all_eq_true]
    intro kv hkv
    have h1 := (List.all_eq_true.mp ha) kv hkv
    simp only [Bool.and_eq_true] at h1
    exact declOk_of_valid _ kv ((List.all_eq_true.mp hb.1.2) kv hkv) h1.1
      ((List.all_eq_true.mp hd) kv hkv) ((List.all_eq_true.mp hr.1.2) kv hkv)
theorem declsOkKids_of_validKids : ∀ (ks : List Node) (sc : List Str), validKids sc ks = true →
    noBrKids ks = true → noReservedKids ks = true → declsOkKids (normAttrsKids ks) = true
  | [], _, _, _, _ => by simp [normAttrsKids, declsOkKids]
  | k :: ks, sc, h, hb, hr => by
    simp only [validKids, Bool.and_eq_true] at h
    simp only [noBrKids, Bool.and_eq_true] at hb
    simp only [noReservedKids, Bool.and_eq_true] at hr
    simp only [normAttrsKids, declsOkKids, Bool.and_eq_true]
    exact ⟨declsOk_of_validDoc k sc h.1 hb.1 hr.1, declsOkKids_of_validKids ks sc h.2 hb.2 hr.2⟩
end

/-! ## since the repair of F2b-reserved / F3x the validation pass itself establishes `noReserved` -/

theorem normAttrVal_eq_nospace : ∀ (v U : Str), U.all (fun c => c != ' ') = true → normAttrVal v = U → v = U
  | [], U, _, h => by simpa [normAttrVal] using h
  | c :: r, U, hU, h => by
    by_cases hcr : c = '\r' ∧ ∃ r', r = '\n' :: r'
    · obtain ⟨hc, r', hr⟩ := hcr
      subst hc; subst hr
      rw [normAttrVal_cr_lf] at h
      subst h
      simp at hU
    · have hcons := normAttrVal_cons c r (fun h1 r' h2 => hcr ⟨h1, r', h2⟩)
      rw [hcons] at h
      cases U with
      | nil => cases h
      | cons u us =>
        injection h with h1 h2
        simp only [List.all_cons, Bool.and_eq_true, bne_iff_ne] at hU
        split at h1
        · exact absurd h1.symm hU.1
        · subst h1
          rw [normAttrVal_eq_nospace r us hU.2 h2]

theorem attrFree_of_declOk (kv : Str × Str) (h : pyDeclOk kv = true) : attrFree kv = true := by
  simp only [pyDeclOk, Bool.and_eq_true, Bool.not_eq_true', Bool.and_eq_false_iff] at h
  simp only [attrFree, Bool.or_eq_true, Bool.not_eq_true', Bool.and_eq_true, bne_iff_ne]
  rcases h.2 with h2 | h2
  · left; simpa [isNsDecl] using h2
  · right
    simp only [reservedNs, Bool.or_eq_false_iff, beq_eq_false_iff_ne] at h2
    exact ⟨fun e => h2.1 (normAttrVal_eq_nospace _ _ (by decide) e),
           fun e => h2.2 (normAttrVal_eq_nospace _ _ (by decide) e)⟩

theorem tagFree_of_valid (scope : List Str) (t : Str) (hb : noBr t = true) (hn : nameValid scope t = true)
    (he : elemPrefixOk t = true) : tagFree t = true := by
  simp only [nameValid, Bool.and_eq_true] at hn
  rcases isXmlTag_spec t hb hn.1 with hnc | ⟨p, l, hq, hp, hl⟩
  · have hs := splitOnChar_nosep t hnc.nocolon
    simp [tagFree, splitQName, hs]
  · subst hq
    have hs : splitOnChar ':' (p ++ ':' :: l) = [p, l] := by
      rw [splitOnChar_join p l hp.nocolon, splitOnChar_nosep l hl.nocolon]
    rw [elemPrefixOk, partitionColon_join p l hp.nocolon] at he
    simp only [tagFree, splitQName, hs, bne_iff_ne, ne_eq, Option.some.injEq]
    intro e
    subst e
    simp at he

mutual
theorem noReserved_of_validDoc : ∀ (n : Node) (sc : List Str), validDoc sc n = true → noBrTree n = true →
    noReserved n = true
  | .text _ _, _, _, _ => by simp [noReserved]
  | .elem t a ks, sc, h, hb => by
    simp only [validDoc, Bool.and_eq_true] at h
    simp only [noBrTree, Bool.and_eq_true] at hb
    obtain ⟨⟨⟨⟨hd, ht⟩, _⟩, hk⟩, hel⟩ := h
    simp only [noReserved, Bool.and_eq_true]
    exact ⟨⟨tagFree_of_valid _ t hb.1.1 ht hel, all_imp (fun kv hkv => attrFree_of_declOk kv hkv) hd⟩,
      noReservedKids_of_validKids ks _ hk hb.2⟩
theorem noReservedKids_of_validKids : ∀ (ks : List Node) (sc : List Str), validKids sc ks = true →
    noBrKids ks = true → noReservedKids ks = true
  | [], _, _, _ => by simp [noReservedKids]
  | k :: ks, sc, h, hb => by
    simp only [validKids, Bool.and_eq_true] at h
    simp only [noBrKids, Bool.and_eq_true] at hb
    simp only [noReservedKids, Bool.and_eq_true]
    exact ⟨noReserved_of_validDoc k sc h.1 hb.1, noReservedKids_of_validKids ks sc h.2 hb.2⟩
end

/-- **C01 as the oracle states it.**  For all survey fields and parts: if the assembled document is
    accepted by `validate_xml_document`, uses no `]` in a name (F5), and the parts are DOM trees, then
    `holds` — *the very function the check evaluates on the implementation's text* — is true of the
    text written in either pretty_print mode: it parses, its namespace declarations are legal, every
    prefix is bound, and it has the ODK skeleton with the form id. -/
theorem accepted_assembled_holds (f : Fields) (itext : Option (List Node)) (rk rest bk : List Node)
    (hv : validDoc [] (assemble f itext rk rest bk) = true)
    (hb : noBrTree (assemble f itext rk rest bk) = true)
    (hd : PartsDom itext rk rest bk) (pretty : Bool) :
    holds (renderDoc pretty (assemble f itext rk rest bk)) (normAttrVal f.idString) = true := by
  have hr := noReserved_of_validDoc _ [] hv hb
  have hwf := wf_of_validDoc _ [] hv hb (isDom_assemble f hd)
  have hpb := pb_of_validDoc _ [] hv hb
  have hdk := declsOk_of_validDoc _ [] hv hb hr
  have hdecl : (htmlAttrs f).all pyDeclOk = true := by
    have h := hv
    simp only [assemble, pyNode, validDoc, Bool.and_eq_true] at h
    exact h.1.1.1.1
  have hsk := skelE_normAttrs (skelE_assemble f itext rk rest bk (nsOK_of_accepted f hdecl))
  have helem : isElem (assemble f itext rk rest bk) = true := rfl
  unfold holds
  cases pretty with
  | false =>
    rw [render_parses_compact_lax _ hwf helem]
    simp only [Bool.and_eq_true]
    refine ⟨⟨?_, ?_⟩, ?_⟩
    · rw [declsOk_expectedLax]; exact hdk
    · rw [expectedLax, pb_normText, prefixesBound_expected, pb_normAttrs]; exact hpb
    · rw [Skeleton, eproj_expectedLax]; exact hsk
  | true =>
    rw [render_parses_pretty_lax _ hwf helem]
    simp only [Bool.and_eq_true]
    refine ⟨⟨?_, ?_⟩, ?_⟩
    · rw [declsOk_expectedPrettyLax]; exact hdk
    · rw [expectedPrettyLax, pb_normText, prefixesBound_expectedPretty, pb_normAttrs]; exact hpb
    · rw [Skeleton, eproj_expectedPrettyLax]; exact hsk

#print axioms accepted_assembled_holds

-- non-vacuity: the example document
example : holds (renderDoc true (assemble exFields exItext exRootKids exRest exBody)) (normAttrVal exFields.idString) = true :=
  accepted_assembled_holds exFields _ _ _ _ ex_accepted (by decide +kernel)
    ⟨fun ks h => by cases h; decide +kernel, by decide +kernel, by decide +kernel, by decide +kernel⟩ true
-- the shapes of the former findings F3x / F2b-reserved are rejected now
def exF3x : Node := .elem "xmlns:q".toList [] []
example : validDoc [] exF3x = false ∧ declsOk exF3x = false := by decide +kernel
def exF2bR : Node := .elem "a".toList [("xmlns:w".toList, xmlnsNsUri)] []
example : validDoc [] exF2bR = false ∧ declsOk exF2bR = false := by decide +kernel

/-! ## attributes cannot clash by expanded name

Reported as a possible defect: `validate_xml_document` does not check that the attributes of an
element are distinct by *expanded* name (a user prefix bound to the same URI as `jr`, carrying the
same local name).  It does not have to: `Element.setAttribute` keeps the *local* names of an
element's attributes pairwise distinct (it evicts `jr:x` when `j2:x` is set), and two attributes with
the same expanded name have the same local name. -/

/-- the local names (`Attr.localName`) of the attributes are pairwise distinct -/
def localsNodup (d : List (Str × Str)) : Prop := (d.map fun kv => attrLocal kv.1).Nodup

theorem locals_map_update (d : List (Str × Str)) (k v : Str) :
    (d.map fun kv => if kv.1 = k then (kv.1, v) else kv).map (fun kv => attrLocal kv.1) =
      d.map (fun kv => attrLocal kv.1) := by
  induction d with
  | nil => rfl
  | cons kv r ih => simp only [List.map_cons, ih]; split <;> rfl

theorem localsNodup_setAttr (d : List (Str × Str)) (k v : Str) (h : localsNodup d) :
    localsNodup (setAttr d k v) := by
  unfold localsNodup at *
  unfold setAttr
  split
  · rw [locals_map_update]; exact h
  · rw [List.map_append, List.nodup_append]
    refine ⟨List.Nodup.sublist (List.Sublist.map _ List.filter_sublist) h, by simp, ?_⟩
    intro a ha b hb
    simp only [List.map_cons, List.map_nil, List.mem_singleton] at hb
    subst hb
    rw [List.mem_map] at ha
    obtain ⟨x, hx, hxa⟩ := ha
    have hx2 := (List.mem_filter.mp hx).2
    simp only [bne_iff_ne] at hx2
    intro e
    exact hx2 (hxa.trans e)

theorem localsNodup_setAttrs (upd d : List (Str × Str)) (h : localsNodup d) : localsNodup (setAttrs d upd) := by
  unfold setAttrs
  induction upd generalizing d with
  | nil => exact h
  | cons kv r ih => exact ih _ (localsNodup_setAttr d kv.1 kv.2 h)

theorem localsNodup_nil : localsNodup [] := List.nodup_nil

theorem localsNodup_step (a : List (Str × Str)) (c : Bool) (k v : Str) (h : localsNodup a) :
    localsNodup (if c = true then a else setAttr a k v) := by
  cases c
  · exact localsNodup_setAttr a k v h
  · exact h

/-- **no two attributes of `<h:html>`, of the primary instance root, or of any element built by
    `node(tag, **kwargs)` share a local name** — hence none share an expanded name, whatever prefixes the
    `namespaces` setting binds to whatever URIs -/
theorem attributes_distinct_by_local_name (f : Fields) (l : List (Str × Str)) :
    localsNodup (htmlAttrs f) ∧ localsNodup (rootAttrs f) ∧ localsNodup (setAttrs [] l) := by
  refine ⟨localsNodup_setAttrs _ [] localsNodup_nil, ?_, localsNodup_setAttrs _ [] localsNodup_nil⟩
  unfold rootAttrs
  exact localsNodup_step _ _ _ _ (localsNodup_step _ _ _ _ (localsNodup_step _ _ _ _ (localsNodup_step _ _ _ _
    (localsNodup_setAttr _ _ _ (localsNodup_setAttrs _ _ (localsNodup_setAttrs _ [] localsNodup_nil))))))

#print axioms attributes_distinct_by_local_name

-- `bind::j2:preload` on a question whose type supplies `jr:preload`: one attribute is left
example : setAttrs [] [("nodeset".toList, "/d/s".toList), ("jr:preload".toList, "timestamp".toList),
    ("j2:preload".toList, "x".toList)] = [("nodeset".toList, "/d/s".toList), ("j2:preload".toList, "x".toList)] := by
  decide +kernel

end Pyxv.C01
