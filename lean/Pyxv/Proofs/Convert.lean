import Pyxv.Model.Convert
import Pyxv.Proofs.XmlRoundTrip
import Pyxv.Proofs.C01Decls
import Pyxv.Proofs.C02
import Pyxv.Proofs.C04
/-!
# Theorems about the end-to-end composition `Pyxv.Convert.convert`

Top-level statements for every workbook `wb` the composed model converts, obtained by *reusing* the slices'
theorems (`pretty_cosmetic_lax`, `accepted_assembled_holds`, `C02.refs_resolve`, `C04.instance_shape`,
`C04.stack_refines_nest`) through three glue facts proved here:

* `dparse_erase` — the decorated stack machine is `Form.parseRows` once the decoration is erased;
* `convertDoc_trace` — what a successful run of `convertDoc` has computed (the stages' results and the
  document as `Asm.assemble` of the parts);
* the walkers over the decorated tree emit exactly the paths `Form.bindPathsL` / `Form.bodyPathsL` compute,
  and the primary instance reads back as `Form.instKids`.
-/
namespace Pyxv.ConvertP
open Pyxv Pyxv.Form Pyxv.Rows Pyxv.Xml Pyxv.Asm Pyxv.Convert Pyxv.C01

/-! ## 1. decorated stack machine = `Form.parseRows` -/

theorem eraseL_append (a b : List DItem) : Convert.eraseL (a ++ b) = Convert.eraseL a ++ Convert.eraseL b := by
  induction a with
  | nil => simp [Convert.eraseL]
  | cons x xs ih => simp [Convert.eraseL, ih]

def eraseF (f : DFrame) : Frame := ⟨f.ct, f.name, f.bind, Convert.eraseL f.kids⟩
def eraseSt (st : DSt) : St := (Convert.eraseL st.1, st.2.map eraseF)

theorem erase_dpush (t : DItem) (st : DSt) : eraseSt (dpush t st) = push (Convert.erase t) (eraseSt st) := by
  obtain ⟨root, fs⟩ := st
  cases fs with
  | nil => simp [dpush, push, eraseSt, eraseL_append, Convert.eraseL]
  | cons f fs => simp [dpush, push, eraseSt, eraseF, eraseL_append, Convert.eraseL]

theorem erase_dpushOpt (t : Option QData) (st : DSt) : eraseSt (dpushOpt t st) = pushOpt t (eraseSt st) := by
  cases t with
  | none => rfl
  | some d => simp [dpushOpt, pushOpt, erase_dpush, Convert.erase]

theorem dstep_erase (st : DSt) (n : Nat) (p : Pay) (k : RowK) :
    (dstep st n p k).map eraseSt = step (eraseSt st) n k := by
  cases k with
  | skip => rfl
  | bad e => rfl
  | q d other => simp [dstep, step, Except.map, erase_dpushOpt, erase_dpush, Convert.erase]
  | begin_ ct name bind helper =>
    simp only [dstep, step]
    have h := erase_dpushOpt helper st
    generalize dpushOpt helper st = st1 at h
    obtain ⟨r1, f1⟩ := st1
    rw [← h]
    simp [Except.map, eraseSt, eraseF, Convert.eraseL]
  | end_ ct =>
    obtain ⟨root, fs⟩ := st
    cases fs with
    | nil => simp [dstep, step, Except.map, eraseSt]
    | cons f fs =>
      simp only [dstep, step, eraseSt, List.map_cons, eraseF]
      by_cases hc : f.ct = ct
      · simp only [hc, if_true, Except.map]
        have := erase_dpush (.sec ct f.name f.bind f.p f.kids) (root, fs)
        rw [this]; simp [eraseSt, Convert.erase]
      · simp [hc, Except.map]

theorem drun_erase : ∀ (rows : List ((Nat × RowK) × Pay)) (st : DSt),
    (drun st rows).map eraseSt = run (eraseSt st) (rows.map (·.1))
  | [], st => rfl
  | ((n, r), p) :: rs, st => by
    have h := dstep_erase st n p r
    simp only [drun, run, List.map_cons]
    cases hs : dstep st n p r with
    | error e => rw [hs] at h; simp only [Except.map] at h; rw [← h]; rfl
    | ok st' =>
      rw [hs] at h; simp only [Except.map] at h; rw [← h]
      exact drun_erase rs st'

/-- **Decoration is conservative**: erasing the decoration of the tree built by the decorated stack machine
    gives exactly what `Form.parseRows` builds from the classified rows — same tree, same located error. -/
theorem dparse_erase (rows : List ((Nat × RowK) × Pay)) :
    (dparse rows).map Convert.eraseL = parseRows (rows.map (·.1)) := by
  have h := drun_erase rows ([], [])
  unfold dparse parseRows
  have e0 : eraseSt ([], []) = ([], []) := by simp [eraseSt, Convert.eraseL]
  rw [e0] at h
  rw [← h]
  cases hr : drun ([], []) rows with
  | error e => rfl
  | ok st =>
    obtain ⟨root, fs⟩ := st
    cases fs with
    | nil => simp [Except.map, eraseSt]
    | cons f fs => simp [Except.map, eraseSt, eraseF]

#print axioms dparse_erase

theorem decorate_classify (lists : List Str) (n : Nat) (r : Cells) (k : RowK) (p : Pay)
    (h : decorate lists n r = .ok (k, p)) : classify lists n r = .row k := by
  unfold decorate at h
  split at h
  · simp at h
  · split at h
    · simp at h
    · split at h
      · simp at h
      · rename_i k' hk
        split at h
        · simp at h
        · simp at h
        · split at h
          · simp at h
          · split at h
            · simp at h; rw [hk, h.1]
            · simp at h
          · simp at h; rw [hk, h.1]

theorem decorateAll_classifyAll (lists : List Str) : ∀ (rows : List Cells) (n : Nat) (ds : List ((Nat × RowK) × Pay)),
    decorateAll lists n rows = .ok ds → classifyAll lists n rows = .ok (ds.map (·.1))
  | [], n, ds, h => by simp [decorateAll] at h; subst h; rfl
  | r :: rs, n, ds, h => by
    simp only [decorateAll] at h
    split at h
    · simp at h
    · rename_i k p hd
      split at h
      · rename_i ds' hds
        simp at h; subst h
        simp only [classifyAll, decorate_classify lists n r k p hd,
          decorateAll_classifyAll lists rs (n + 1) ds' hds, List.map_cons]
      · simp at h

/-! ## 2. what a successful conversion has computed -/

def iidQ : QData := { name := l!"instanceID", bind := true, control := false, node := true }

/-- the stages' results behind a document returned by `convertDoc` -/
structure Trace (wb : Workbook) (doc : Node) (f : Fields) (lists : List (Str × List Choices.Choice))
    (rows : List Cells) (drows : List ((Nat × RowK) × Pay)) (o : FormOut) (ditems : List DItem) : Prop where
  hf : fieldsOf wb = .ok f
  hdec : decorateAll (lists.map (·.1)) 2 rows = .ok drows
  hform : formOut f.name (lists.map (·.1)) rows [] = .ok o
  hpar : dparse drows = .ok ditems
  hmeta : metaKids rows [] = [iidQ]
  hbinds : bindsOkL f.name (topNames ditems) [f.name] (dWithMeta f.name rows ditems) = true
  hctl : ctlOkL ditems = true
  hdoc : doc = assemble f none (instNodes (defaultsOfL [f.name] ditems) [f.name] (ntKids o.inst))
    ((Choices.staticInsts [] lists).map Choices.instNode ++
      bindNodesL f.name (topNames ditems) [f.name] (dWithMeta f.name rows ditems))
    (bodyNodesL [f.name] ditems)
  hvalid : validDoc [] doc = true

theorem convertDoc_trace (wb : Workbook) (doc : Node) (h : convertDoc wb = .ok doc) :
    ∃ f lists rows drows o ditems, Trace wb doc f lists rows drows o ditems := by
  unfold convertDoc at h
  split at h
  · simp at h
  · rename_i f hf
    simp only [] at h
    split at h
    · simp at h
    · split at h
      · simp at h
      · rename_i ch hch
        split at h
        · simp at h
        · split at h
          · simp at h
          · split at h
            · simp at h
            · split at h
              · simp at h
              · simp at h
              · rename_i key hkey
                split at h
                · simp at h
                · rename_i rows hrows
                  split at h
                  · simp at h
                  · rename_i drows hdrows
                    split at h
                    · simp at h
                    · simp at h
                    · simp at h
                    · rename_i o ho
                      split at h
                      · simp at h
                      · split at h
                        · simp at h
                        · rename_i ditems hdi
                          split at h
                          · simp at h
                          · rename_i hn
                            split at h
                            · simp at h
                            · rename_i hm
                              split at h
                              · simp at h
                              · rename_i hb
                                split at h
                                · simp at h
                                · rename_i hc
                                  split at h
                                  · rename_i hv
                                    simp only [Except.ok.injEq] at h
                                    refine ⟨f, _, rows, drows, o, ditems, ⟨hf, hdrows, ho, hdi, ?_, ?_, ?_, h.symm, ?_⟩⟩
                                    · simpa [iidQ] using hm
                                    · simpa using hb
                                    · simpa using hc
                                    · rw [← h]; exact hv
                                  · simp at h

#print axioms convertDoc_trace

/-! ## 3. the parts are DOM trees (every attribute list is a map) -/

theorem isDom_pyNode (t : Str) (a : List (Str × Str)) (ks : List Node) (h : isDomKids ks = true) :
    isDom (pyNode t a ks) = true :=
  isDom_elem (attrKeysNodup_setAttrs a [] rfl) h

theorem isDomKids_map {α} (g : α → Node) (l : List α) (h : ∀ x, isDom (g x) = true) : isDomKids (l.map g) = true := by
  induction l with
  | nil => exact isDomKids_nil
  | cons x xs ih => exact isDomKids_cons (h x) ih

theorem isDomKids_single {n : Node} (h : isDom n = true) : isDomKids [n] = true := isDomKids_cons h isDomKids_nil

theorem isDom_text (b : Bool) (s : Str) : isDom (.text b s) = true := by simp [isDom]

theorem tmplAttrs_nodup (t : Bool) : attrKeysNodup (Convert.tmplAttrs t) = true := by cases t <;> decide

mutual
theorem isDom_instNode (defs : List (List Str × Str)) : ∀ (pre : List Str) (t : NT), isDom (instNode defs pre t) = true
  | pre, .node n t [] => by
    unfold instNode
    refine isDom_elem (tmplAttrs_nodup t) ?_
    cases lookupPath (pre ++ [n]) defs with
    | none => exact isDomKids_nil
    | some v => exact isDomKids_single (isDom_text _ _)
  | pre, .node n t (k :: ks) => by
    unfold instNode
    exact isDom_elem (tmplAttrs_nodup t) (isDom_instNodes defs (pre ++ [n]) (k :: ks))
theorem isDom_instNodes (defs : List (List Str × Str)) : ∀ (pre : List Str) (ts : List NT),
    isDomKids (instNodes defs pre ts) = true
  | _, [] => by unfold instNodes; exact isDomKids_nil
  | pre, k :: ks => by
    unfold instNodes
    exact isDomKids_cons (isDom_instNode defs pre k) (isDom_instNodes defs pre ks)
end

theorem isDom_choiceInst (i : Choices.Inst) : isDom (Choices.instNode i) = true := by
  unfold Choices.instNode
  cases i.src with
  | some u => exact isDom_elem (by simp [attrKeysNodup]) isDomKids_nil
  | none =>
    refine isDom_elem (by simp [attrKeysNodup]) (isDomKids_single (isDom_elem (by decide) (isDomKids_map _ _ fun it => ?_)))
    exact isDom_elem (by decide) (isDomKids_map _ _ fun kv => isDom_elem (by decide) (isDomKids_single (isDom_text _ _)))

theorem isDom_bindNode (root : Str) (tops : List Str) (path : List Str) (q : Binds.Q) :
    isDom (bindNode root tops path q) = true := isDom_pyNode _ _ _ isDomKids_nil

mutual
theorem isDom_bindNodes (root : Str) (tops : List Str) : ∀ (pre : List Str) (d : DItem),
    isDomKids (bindNodes root tops pre d) = true
  | pre, .q d p => by
    unfold bindNodes
    split
    · exact isDomKids_single (isDom_bindNode ..)
    · exact isDomKids_nil
  | pre, .sec ct n b p ks => by
    unfold bindNodes
    rw [isDomKids_append, isDom_bindNodesL root tops (pre ++ [n]) ks, Bool.and_true]
    split
    · exact isDomKids_single (isDom_bindNode ..)
    · exact isDomKids_nil
theorem isDom_bindNodesL (root : Str) (tops : List Str) : ∀ (pre : List Str) (ds : List DItem),
    isDomKids (bindNodesL root tops pre ds) = true
  | _, [] => by unfold bindNodesL; exact isDomKids_nil
  | pre, k :: ks => by
    unfold bindNodesL
    rw [isDomKids_append, isDom_bindNodes root tops pre k, isDom_bindNodesL root tops pre ks]; rfl
end

theorem isDom_labelNode (r : Cells) : isDom (labelNode r) = true := by
  unfold labelNode
  refine isDom_pyNode _ _ _ ?_
  cases get r "label" with
  | none => exact isDomKids_nil
  | some s => exact isDomKids_single (isDom_text _ _)

theorem isDom_hintNode (r : Cells) : isDom (hintNode r) = true := by
  unfold hintNode
  refine isDom_pyNode _ _ _ ?_
  cases get r "hint" with
  | none => exact isDomKids_nil
  | some s => exact isDomKids_single (isDom_text _ _)

theorem isDom_labelAndHint (r : Cells) : isDomKids (labelAndHint r) = true := by
  unfold labelAndHint
  rw [isDomKids_append]
  have h1 : isDomKids (if (has r "label" || has r "hint") = true then [labelNode r] else []) = true := by
    split
    · exact isDomKids_single (isDom_labelNode r)
    · exact isDomKids_nil
  have h2 : isDomKids (if has r "hint" = true then [hintNode r] else []) = true := by
    split
    · exact isDomKids_single (isDom_hintNode r)
    · exact isDomKids_nil
  rw [h1, h2]; rfl

theorem isDom_itemsetNodes (r : Cells) : isDomKids (itemsetNodes r) = true := by
  unfold itemsetNodes
  split
  · exact isDomKids_nil
  · split
    · exact isDomKids_nil
    · exact isDomKids_single (isDom_pyNode _ _ _
        (isDomKids_cons (isDom_pyNode _ _ _ isDomKids_nil) (isDomKids_single (isDom_pyNode _ _ _ isDomKids_nil))))

mutual
theorem isDom_bodyNodes : ∀ (pre : List Str) (d : DItem), isDomKids (bodyNodes pre d) = true
  | pre, .q d p => by
    unfold bodyNodes
    split
    · refine isDomKids_single (isDom_pyNode _ _ _ ?_)
      rw [isDomKids_append, isDom_labelAndHint, isDom_itemsetNodes]; rfl
    · exact isDomKids_nil
  | pre, .sec .rep n b p ks => by
    unfold bodyNodes
    exact isDomKids_single (isDom_pyNode _ _ _ (isDomKids_cons (isDom_labelNode _)
      (isDomKids_single (isDom_pyNode _ _ _ (isDom_bodyNodesL (pre ++ [n]) ks)))))
  | pre, .sec .group n b p ks => by
    unfold bodyNodes
    refine isDomKids_single (isDom_pyNode _ _ _ ?_)
    rw [isDomKids_append, isDom_bodyNodesL (pre ++ [n]) ks, Bool.and_true]
    split
    · exact isDomKids_single (isDom_labelNode _)
    · exact isDomKids_nil
  | pre, .sec .loop n b p ks => by
    unfold bodyNodes
    refine isDomKids_single (isDom_pyNode _ _ _ ?_)
    rw [isDomKids_append, isDom_bodyNodesL (pre ++ [n]) ks, Bool.and_true]
    split
    · exact isDomKids_single (isDom_labelNode _)
    · exact isDomKids_nil
theorem isDom_bodyNodesL : ∀ (pre : List Str) (ds : List DItem), isDomKids (bodyNodesL pre ds) = true
  | _, [] => by unfold bodyNodesL; exact isDomKids_nil
  | pre, k :: ks => by
    unfold bodyNodesL
    rw [isDomKids_append, isDom_bodyNodes pre k, isDom_bodyNodesL pre ks]; rfl
end

theorem trace_partsDom {wb doc f lists rows drows o ditems} (_T : Trace wb doc f lists rows drows o ditems) :
    PartsDom none (instNodes (defaultsOfL [f.name] ditems) [f.name] (ntKids o.inst))
      ((Choices.staticInsts [] lists).map Choices.instNode ++
        bindNodesL f.name (topNames ditems) [f.name] (dWithMeta f.name rows ditems))
      (bodyNodesL [f.name] ditems) :=
  ⟨fun ks h => (by cases h), isDom_instNodes _ _ _,
   (by rw [isDomKids_append, isDomKids_map _ _ isDom_choiceInst, isDom_bindNodesL]; rfl),
   isDom_bodyNodesL _ _⟩

/-! ## 4. C15 and C01 for the composed conversion -/

theorem convert_eq (wb : Workbook) (doc : Node) (h : convertDoc wb = .ok doc) (p : Bool) :
    convert wb p = .ok (renderDoc p doc) := by
  simp [convert, h]

theorem convert_ok (wb : Workbook) (p : Bool) (text : Str) (h : convert wb p = .ok text) :
    ∃ doc, convertDoc wb = .ok doc ∧ text = renderDoc p doc := by
  unfold convert at h
  split at h
  · rename_i doc hd
    exact ⟨doc, hd, by simpa using h.symm⟩
  · simp at h

/-- the element and attribute names of the produced tree contain no `]` (complement of the open finding F5:
    `is_xml_tag` accepts the literal `À-Ö]`) and stay clear of the reserved namespace names / the prefix `xmlns`
    on an element (complements of F2b-reserved, F3x).  Decidable on the tree; in the fragment the names are the
    `name` cells plus constants of the type table. -/
def NamesClean (doc : Node) : Prop := noBrTree doc = true ∧ noReserved doc = true

theorem trace_wf {wb doc f lists rows drows o ditems} (T : Trace wb doc f lists rows drows o ditems)
    (hb : noBrTree doc = true) : doc.WFLax = true ∧ isElem doc = true := by
  have hv := T.hvalid
  have hd := isDom_assemble f (trace_partsDom T)
  rw [← T.hdoc] at hd
  refine ⟨wf_of_validDoc doc [] hv hb hd, ?_⟩
  rw [T.hdoc]; rfl

/-- **C15 for the whole conversion.**  Whenever the composed model converts a workbook (in either mode), it
    converts it in both modes, both texts parse, and the parsed trees differ only in white-space-only text
    between elements.  From `pretty_cosmetic_lax`; the conversion's own `validate_xml_document` pass supplies
    well-formedness. -/
theorem convert_c15 (wb : Workbook) (p : Bool) (text : Str) (h : convert wb p = .ok text)
    (hn : ∀ doc, convertDoc wb = .ok doc → noBrTree doc = true) :
    ∃ tp tc, convert wb true = .ok tp ∧ convert wb false = .ok tc ∧
      Option.map stripWs (parseDoc tp) = Option.map stripWs (parseDoc tc) ∧
      (parseDoc tp).isSome = true ∧ (parseDoc tc).isSome = true := by
  obtain ⟨doc, hd, -⟩ := convert_ok wb p text h
  obtain ⟨f, lists, rows, drows, o, ditems, T⟩ := convertDoc_trace wb doc hd
  obtain ⟨hwf, helem⟩ := trace_wf T (hn doc hd)
  exact ⟨_, _, convert_eq wb doc hd true, convert_eq wb doc hd false, pretty_cosmetic_lax doc hwf helem⟩

#print axioms convert_c15

/-- the form id the conversion writes: the `form_id` setting (default `data`) -/
def formId (wb : Workbook) : Str :=
  match fieldsOf wb with
  | .ok f => f.idString
  | .error _ => []

/-- **C01 for the whole conversion.**  The text the composed model returns, in either mode, satisfies `Asm.holds`
    — the oracle function of the C01 check: it parses, its namespace declarations are legal, every prefix is
    bound, and it has the ODK skeleton whose primary instance root carries the form id.  From
    `accepted_assembled_holds`: the document is `Asm.assemble` of parts that are DOM trees, and the conversion
    itself ran `validate_xml_document` on it. -/
theorem convert_c01 (wb : Workbook) (p : Bool) (text : Str) (h : convert wb p = .ok text)
    (hn : ∀ doc, convertDoc wb = .ok doc → NamesClean doc) :
    holds text (normAttrVal (formId wb)) = true := by
  obtain ⟨doc, hd, rfl⟩ := convert_ok wb p text h
  obtain ⟨f, lists, rows, drows, o, ditems, T⟩ := convertDoc_trace wb doc hd
  obtain ⟨hb, hr⟩ := hn doc hd
  have hid : formId wb = f.idString := by simp [formId, T.hf]
  rw [hid, T.hdoc]
  have hdoc := T.hdoc
  subst hdoc
  exact accepted_assembled_holds f none _ _ _ T.hvalid hb hr (trace_partsDom T) p

#print axioms convert_c01
