import Pyxv.Model.Convert
import Pyxv.Proofs.XmlRoundTrip
import Pyxv.Proofs.C01NoBr
import Pyxv.Proofs.C02
import Pyxv.Proofs.C04
import Pyxv.Proofs.C03Text
/-!
# Theorems about the end-to-end composition `Pyxv.Convert.convert`

Top-level statements for every workbook `wb` the composed model converts, obtained by *reusing* the slices'
theorems (`pretty_cosmetic_lax`, `accepted_assembled_holds`, `C02.refs_resolve`, `C04.instance_shape`,
`C04.stack_refines_nest`) through three glue facts proved here:

* `dparse_erase` — the decorated stack machine is `Form.parseRows` once the decoration is erased;
* `convertDoc_trace` — what a successful run of `convertDoc` has computed (the stages' results and the
  document as `Asm.assemble` of the parts);
* the walkers over the decorated tree emit exactly the paths `Form.bindPathsL` / `Form.bodyPathsL` compute,
  and the primary instance reads back as `Form.instKids`.
-/
namespace Pyxv.ConvertP
open Pyxv Pyxv.Form Pyxv.Rows Pyxv.Xml Pyxv.Asm Pyxv.Convert Pyxv.C01

/-! ## 1. decorated stack machine = `Form.parseRows` -/

theorem eraseL_append (a b : List DItem) : Convert.eraseL (a ++ b) = Convert.eraseL a ++ Convert.eraseL b := by
  induction a with
  | nil => simp [Convert.eraseL]
  | cons x xs ih => simp [Convert.eraseL, ih]

def eraseF (f : DFrame) : Frame := ⟨f.ct, f.name, f.bind, Convert.eraseL f.kids⟩
def eraseSt (st : DSt) : St := (Convert.eraseL st.1, st.2.map eraseF)

theorem erase_dpush (t : DItem) (st : DSt) : eraseSt (dpush t st) = push (Convert.erase t) (eraseSt st) := by
  obtain ⟨root, fs⟩ := st
  cases fs with
  | nil => simp [dpush, push, eraseSt, eraseL_append, Convert.eraseL]
  | cons f fs => simp [dpush, push, eraseSt, eraseF, eraseL_append, Convert.eraseL]

theorem erase_dpushOpt (t : Option QData) (hp : Pay) (st : DSt) :
    eraseSt (dpushOpt t hp st) = pushOpt t (eraseSt st) := by
  cases t with
  | none => rfl
  | some d => simp [dpushOpt, pushOpt, erase_dpush, Convert.erase]

theorem dstep_erase (st : DSt) (n : Nat) (p : Pay) (k : RowK) :
    (dstep st n p k).map eraseSt = step (eraseSt st) n k := by
  cases k with
  | skip => rfl
  | bad e => rfl
  | q d other => simp [dstep, step, Except.map, erase_dpushOpt, erase_dpush, Convert.erase]
  | begin_ ct name bind helper =>
    simp only [dstep, step]
    have h := erase_dpushOpt helper (helperPay p) st
    generalize dpushOpt helper (helperPay p) st = st1 at h
    obtain ⟨r1, f1⟩ := st1
    rw [← h]
    simp [Except.map, eraseSt, eraseF, Convert.eraseL]
  | end_ ct =>
    obtain ⟨root, fs⟩ := st
    cases fs with
    | nil => simp [dstep, step, Except.map, eraseSt]
    | cons f fs =>
      simp only [dstep, step, eraseSt, List.map_cons, eraseF]
      by_cases hc : f.ct = ct
      · simp only [hc, if_true, Except.map]
        have := erase_dpush (.sec ct f.name f.bind f.p f.kids) (root, fs)
        rw [this]; simp [eraseSt, Convert.erase]
      · simp [hc, Except.map]

theorem drun_erase : ∀ (rows : List ((Nat × RowK) × Pay)) (st : DSt),
    (drun st rows).map eraseSt = run (eraseSt st) (rows.map (·.1))
  | [], st => rfl
  | ((n, r), p) :: rs, st => by
    have h := dstep_erase st n p r
    simp only [drun, run, List.map_cons]
    cases hs : dstep st n p r with
    | error e => rw [hs] at h; simp only [Except.map] at h; rw [← h]; rfl
    | ok st' =>
      rw [hs] at h; simp only [Except.map] at h; rw [← h]
      exact drun_erase rs st'

/-- **Decoration is conservative**: erasing the decoration of the tree built by the decorated stack machine
    gives exactly what `Form.parseRows` builds from the classified rows — same tree, same located error. -/
theorem dparse_erase (rows : List ((Nat × RowK) × Pay)) :
    (dparse rows).map Convert.eraseL = parseRows (rows.map (·.1)) := by
  have h := drun_erase rows ([], [])
  unfold dparse parseRows
  have e0 : eraseSt ([], []) = ([], []) := by simp [eraseSt, Convert.eraseL]
  rw [e0] at h
  rw [← h]
  cases hr : drun ([], []) rows with
  | error e => rfl
  | ok st =>
    obtain ⟨root, fs⟩ := st
    cases fs with
    | nil => simp [Except.map, eraseSt]
    | cons f fs => simp [Except.map, eraseSt, eraseF]

#print axioms dparse_erase

theorem decorate_classify (lists : List Str) (n : Nat) (r : Cells) (k : RowK) (p : Pay)
    (h : decorate lists n r = .ok (k, p)) : classify lists n r = .row k := by
  unfold decorate at h
  split at h
  · simp at h
  · split at h
    · simp at h
    · split at h
      · simp at h
      · rename_i k' hk
        split at h
        · simp at h
        · split at h
          · simp at h; rw [hk, h.1]
          · simp at h
        · simp at h; rw [hk, h.1]

theorem decorateAll_classifyAll (lists : List Str) : ∀ (rows : List Cells) (n : Nat) (ds : List ((Nat × RowK) × Pay)),
    decorateAll lists n rows = .ok ds → classifyAll lists n rows = .ok (ds.map (·.1))
  | [], n, ds, h => by simp [decorateAll] at h; subst h; rfl
  | r :: rs, n, ds, h => by
    simp only [decorateAll] at h
    split at h
    · simp at h
    · rename_i k p hd
      split at h
      · rename_i ds' hds
        simp at h; subst h
        simp only [classifyAll, decorate_classify lists n r k p hd,
          decorateAll_classifyAll lists rs (n + 1) ds' hds, List.map_cons]
      · simp at h

/-! ## 2. what a successful conversion has computed -/

def iidQ : QData := { name := l!"instanceID", bind := true, control := false, node := true }

/-- the stages' results behind a document returned by `convertDoc` -/
structure Trace (wb : Workbook) (doc : Node) (f : Fields) (lists : List (Str × List Choices.Choice))
    (rows : List Cells) (drows : List ((Nat × RowK) × Pay)) (o : FormOut) (ditems : List DItem) : Prop where
  hf : fieldsOf wb = .ok f
  hrows : ∃ key, Binds.headerKey wb.surveyCols = .ok key ∧ canonRows key wb.survey = .ok rows
  hdec : decorateAll (lists.map (·.1)) 2 rows = .ok drows
  hform : formOut f.name (lists.map (·.1)) rows [] = .ok o
  hpar : dparse drows = .ok ditems
  hbinds : bindsOkL (elsOf f.name (dWithMeta f.name rows ditems)) [(f.name, .group)] (dWithMeta f.name rows ditems) = true
  hctl : ctlOkL ditems = true
  htexts : textsErrL (elsOf f.name (dWithMeta f.name rows ditems)) [f.name] ditems = none
  hdoc : doc = assemble f none (instNodes (defaultsOfL [f.name] ditems) [f.name] (ntKids o.inst))
    ((Choices.staticInsts [] (othersApplied (activeRows rows) lists)).map Choices.instNode ++
      bindNodesL (elsOf f.name (dWithMeta f.name rows ditems)) [(f.name, .group)] (dWithMeta f.name rows ditems))
    (bodyNodesL (elsOf f.name (dWithMeta f.name rows ditems)) [f.name] ditems)
  hvalid : validDoc [] doc = true

theorem convertDoc_trace (wb : Workbook) (doc : Node) (h : convertDoc wb = .ok doc) :
    ∃ f lists rows drows o ditems, Trace wb doc f lists rows drows o ditems := by
  unfold convertDoc at h
  split at h
  · simp at h
  · rename_i f hf
    simp only [] at h
    split at h
    · simp at h
    · split at h
      · simp at h
      · rename_i ch hch
        split at h
        · simp at h
        · split at h
          · simp at h
          · split at h
            · simp at h
            · split at h
              · simp at h
              · simp at h
              · rename_i key hkey
                split at h
                · simp at h
                · rename_i rows hrows
                  split at h
                  · simp at h
                  · rename_i drows hdrows
                    split at h
                    · simp at h
                    · simp at h
                    · simp at h
                    · rename_i o ho
                      split at h
                      · simp at h
                      · split at h
                        · simp at h
                        · rename_i ditems hdi
                          split at h
                          · simp at h
                          · rename_i hs
                            split at h
                            · simp at h
                            · rename_i hb
                              split at h
                              · simp at h
                              · rename_i hc
                                split at h
                                · simp at h
                                · rename_i htx
                                  split at h
                                  · rename_i hv
                                    simp only [Except.ok.injEq] at h
                                    refine ⟨f, _, rows, drows, o, ditems, ⟨hf, ⟨key, hkey, hrows⟩, hdrows, ho, hdi, ?_, ?_, htx, h.symm, ?_⟩⟩
                                    · simpa using hb
                                    · simpa using hc
                                    · rw [← h]; exact hv
                                  · simp at h

#print axioms convertDoc_trace

/-! ## 3. the parts are DOM trees (every attribute list is a map) -/

theorem isDom_pyNode (t : Str) (a : List (Str × Str)) (ks : List Node) (h : isDomKids ks = true) :
    isDom (pyNode t a ks) = true :=
  isDom_elem (attrKeysNodup_setAttrs a [] rfl) h

theorem isDomKids_map {α} (g : α → Node) (l : List α) (h : ∀ x, isDom (g x) = true) : isDomKids (l.map g) = true := by
  induction l with
  | nil => exact isDomKids_nil
  | cons x xs ih => exact isDomKids_cons (h x) ih

theorem isDomKids_single {n : Node} (h : isDom n = true) : isDomKids [n] = true := isDomKids_cons h isDomKids_nil

theorem isDom_text (b : Bool) (s : Str) : isDom (.text b s) = true := by simp [isDom]

theorem tmplAttrs_nodup (t : Bool) : attrKeysNodup (Convert.tmplAttrs t) = true := by cases t <;> decide

mutual
theorem isDom_instNode (defs : List (List Str × Str)) : ∀ (pre : List Str) (t : NT), isDom (instNode defs pre t) = true
  | pre, .node n t [] => by
    unfold instNode
    refine isDom_elem (tmplAttrs_nodup t) ?_
    cases lookupPath (pre ++ [n]) defs with
    | none => exact isDomKids_nil
    | some v => exact isDomKids_single (isDom_text _ _)
  | pre, .node n t (k :: ks) => by
    unfold instNode
    exact isDom_elem (tmplAttrs_nodup t) (isDom_instNodes defs (pre ++ [n]) (k :: ks))
theorem isDom_instNodes (defs : List (List Str × Str)) : ∀ (pre : List Str) (ts : List NT),
    isDomKids (instNodes defs pre ts) = true
  | _, [] => by unfold instNodes; exact isDomKids_nil
  | pre, k :: ks => by
    unfold instNodes
    exact isDomKids_cons (isDom_instNode defs pre k) (isDom_instNodes defs pre ks)
end

theorem isDom_choiceInst (i : Choices.Inst) : isDom (Choices.instNode i) = true := by
  unfold Choices.instNode
  cases i.src with
  | some u => exact isDom_elem (by simp [attrKeysNodup]) isDomKids_nil
  | none =>
    refine isDom_elem (by simp [attrKeysNodup]) (isDomKids_single (isDom_elem (by decide) (isDomKids_map _ _ fun it => ?_)))
    exact isDom_elem (by decide) (isDomKids_map _ _ fun kv => isDom_elem (by decide) (isDomKids_single (isDom_text _ _)))

theorem isDom_bindNode (els : List Refs.Chain) (ctx : Refs.Chain) (q : Binds.Q) :
    isDom (bindNode els ctx q) = true := isDom_pyNode _ _ _ isDomKids_nil

theorem isDom_dynSetOf (els : List Refs.Chain) (ctx : Refs.Chain) (r : Cells) (b : Bool) :
    isDomKids (dynSetOf els ctx r b) = true := by
  unfold dynSetOf
  split
  · split
    · exact isDomKids_single (isDom_pyNode _ _ _ isDomKids_nil)
    · exact isDomKids_nil
  · exact isDomKids_nil

mutual
theorem isDom_dynSets (els : List Refs.Chain) : ∀ (pre : List Str) (d : DItem), isDomKids (dynSets els pre d) = true
  | pre, .q d p => by unfold dynSets; exact isDom_dynSetOf ..
  | pre, .sec .rep n b p ks => by unfold dynSets; exact isDomKids_nil
  | pre, .sec .group n b p ks => by unfold dynSets; exact isDom_dynSetsL els (pre ++ [n]) ks
  | pre, .sec .loop n b p ks => by unfold dynSets; exact isDom_dynSetsL els (pre ++ [n]) ks
theorem isDom_dynSetsL (els : List Refs.Chain) : ∀ (pre : List Str) (ds : List DItem),
    isDomKids (dynSetsL els pre ds) = true
  | _, [] => by unfold dynSetsL; exact isDomKids_nil
  | pre, k :: ks => by
    unfold dynSetsL
    rw [isDomKids_append, isDom_dynSets els pre k, isDom_dynSetsL els pre ks]; rfl
end

mutual
theorem isDom_bindNodes (els : List Refs.Chain) : ∀ (pc : Refs.Chain) (d : DItem),
    isDomKids (bindNodes els pc d) = true
  | pc, .q d p => by
    unfold bindNodes
    rw [isDomKids_append]
    have h2 : isDomKids (if inRep pc = true then [] else dynSetOf els (pc ++ [(d.name, .q)]) p.cells false) = true := by
      split
      · exact isDomKids_nil
      · exact isDom_dynSetOf ..
    rw [h2, Bool.and_true]
    split
    · exact isDomKids_single (isDom_bindNode ..)
    · exact isDomKids_nil
  | pc, .sec ct n b p ks => by
    unfold bindNodes
    rw [isDomKids_append, isDom_bindNodesL els (pc ++ [(n, kindOf ct)]) ks, Bool.and_true]
    split
    · exact isDomKids_single (isDom_bindNode ..)
    · exact isDomKids_nil
theorem isDom_bindNodesL (els : List Refs.Chain) : ∀ (pc : Refs.Chain) (ds : List DItem),
    isDomKids (bindNodesL els pc ds) = true
  | _, [] => by unfold bindNodesL; exact isDomKids_nil
  | pc, k :: ks => by
    unfold bindNodesL
    rw [isDomKids_append, isDom_bindNodes els pc k, isDom_bindNodesL els pc ks]; rfl
end

mutual
theorem isDom_of_domOk : ∀ (n : Node), domOk n = true → isDom n = true
  | .text _ _, _ => by simp [isDom]
  | .elem t a ks, h => by
    simp only [domOk, Bool.and_eq_true] at h
    simp only [isDom, h.1, isDomKids_of_domOkL ks h.2, Bool.and_self]
theorem isDomKids_of_domOkL : ∀ (ks : List Node), domOkL ks = true → isDomKids ks = true
  | [], _ => by simp [isDomKids]
  | k :: ks, h => by
    simp only [domOkL, Bool.and_eq_true] at h
    simp only [isDomKids, isDom_of_domOk k h.1, isDomKids_of_domOkL ks h.2, Bool.and_self]
end

theorem isDom_emptyNode (tag : Str) : isDom (emptyNode tag) = true := isDom_pyNode _ _ _ isDomKids_nil

theorem textOutcome_ok {els : List Refs.Chain} {path : List Str} {tag s : Str} {n : Node}
    (h : textOutcome els path tag s = .ok n) : domOk n = true ∧ outputOnly n = true := by
  unfold textOutcome at h
  split at h
  · simp at h
  · split at h
    · split at h
      · rename_i hc
        simp only [Chan.Outcome.ok.injEq] at h; subst h
        simpa [Bool.and_eq_true] using hc
      · simp at h
    · rename_i hne
      exact absurd h (by intro h'; exact hne _ h')

theorem isDom_textNode (els : List Refs.Chain) (path : List Str) (tag : Str) (cell : Option Str) :
    isDom (textNode els path tag cell) = true := by
  unfold textNode
  split
  · exact isDom_emptyNode _
  · split
    · rename_i n hn; exact isDom_of_domOk n (textOutcome_ok hn).1
    · exact isDom_emptyNode _

theorem isDom_labelNode (els : List Refs.Chain) (path : List Str) (r : Cells) : isDom (labelNode els path r) = true :=
  isDom_textNode ..

theorem isDom_hintNode (els : List Refs.Chain) (path : List Str) (r : Cells) : isDom (hintNode els path r) = true :=
  isDom_textNode ..

theorem isDom_labelAndHint (els : List Refs.Chain) (path : List Str) (r : Cells) :
    isDomKids (labelAndHint els path r) = true := by
  unfold labelAndHint
  rw [isDomKids_append]
  have h1 : isDomKids (if (has r "label" || has r "hint") = true then [labelNode els path r] else []) = true := by
    split
    · exact isDomKids_single (isDom_labelNode ..)
    · exact isDomKids_nil
  have h2 : isDomKids (if has r "hint" = true then [hintNode els path r] else []) = true := by
    split
    · exact isDomKids_single (isDom_hintNode ..)
    · exact isDomKids_nil
  rw [h1, h2]; rfl

theorem isDom_itemsetNodes (r : Cells) : isDomKids (itemsetNodes r) = true := by
  unfold itemsetNodes
  split
  · exact isDomKids_nil
  · split
    · exact isDomKids_nil
    · exact isDomKids_single (isDom_pyNode _ _ _
        (isDomKids_cons (isDom_pyNode _ _ _ isDomKids_nil) (isDomKids_single (isDom_pyNode _ _ _ isDomKids_nil))))

mutual
theorem isDom_bodyNodes (els : List Refs.Chain) : ∀ (pre : List Str) (d : DItem), isDomKids (bodyNodes els pre d) = true
  | pre, .q d p => by
    unfold bodyNodes
    split
    · refine isDomKids_single (isDom_pyNode _ _ _ ?_)
      rw [isDomKids_append, isDom_labelAndHint, isDom_itemsetNodes]; rfl
    · exact isDomKids_nil
  | pre, .sec .rep n b p ks => by
    unfold bodyNodes
    exact isDomKids_single (isDom_pyNode _ _ _ (isDomKids_cons (isDom_labelNode ..)
      (isDomKids_single (isDom_pyNode _ _ _
        (by rw [isDomKids_append, isDom_bodyNodesL els (pre ++ [n]) ks, isDom_dynSetsL els (pre ++ [n]) ks]; rfl)))))
  | pre, .sec .group n b p ks => by
    unfold bodyNodes
    refine isDomKids_single (isDom_pyNode _ _ _ ?_)
    rw [isDomKids_append, isDom_bodyNodesL els (pre ++ [n]) ks, Bool.and_true]
    split
    · exact isDomKids_single (isDom_labelNode ..)
    · exact isDomKids_nil
  | pre, .sec .loop n b p ks => by
    unfold bodyNodes
    refine isDomKids_single (isDom_pyNode _ _ _ ?_)
    rw [isDomKids_append, isDom_bodyNodesL els (pre ++ [n]) ks, Bool.and_true]
    split
    · exact isDomKids_single (isDom_labelNode ..)
    · exact isDomKids_nil
theorem isDom_bodyNodesL (els : List Refs.Chain) : ∀ (pre : List Str) (ds : List DItem),
    isDomKids (bodyNodesL els pre ds) = true
  | _, [] => by unfold bodyNodesL; exact isDomKids_nil
  | pre, k :: ks => by
    unfold bodyNodesL
    rw [isDomKids_append, isDom_bodyNodes els pre k, isDom_bodyNodesL els pre ks]; rfl
end

theorem trace_partsDom {wb doc f lists rows drows o ditems} (_T : Trace wb doc f lists rows drows o ditems) :
    PartsDom none (instNodes (defaultsOfL [f.name] ditems) [f.name] (ntKids o.inst))
      ((Choices.staticInsts [] (othersApplied (activeRows rows) lists)).map Choices.instNode ++
        bindNodesL (elsOf f.name (dWithMeta f.name rows ditems)) [(f.name, .group)] (dWithMeta f.name rows ditems))
      (bodyNodesL (elsOf f.name (dWithMeta f.name rows ditems)) [f.name] ditems) :=
  ⟨fun ks h => (by cases h), isDom_instNodes _ _ _,
   (by rw [isDomKids_append, isDomKids_map _ _ isDom_choiceInst, isDom_bindNodesL]; rfl),
   isDom_bodyNodesL _ _ _⟩

/-! ## 4. C15 and C01 for the composed conversion -/

theorem convert_eq (wb : Workbook) (doc : Node) (h : convertDoc wb = .ok doc) (p : Bool) :
    convert wb p = .ok (renderDoc p doc) := by
  simp [convert, h]

theorem convert_ok (wb : Workbook) (p : Bool) (text : Str) (h : convert wb p = .ok text) :
    ∃ doc, convertDoc wb = .ok doc ∧ text = renderDoc p doc := by
  unfold convert at h
  split at h
  · rename_i doc hd
    exact ⟨doc, hd, by simpa using h.symm⟩
  · simp at h

/-- the element and attribute names of the produced tree contain no `]` (complement of the open finding F5:
    `is_xml_tag` accepts the literal `À-Ö]`).  (The reserved namespace names / the prefix `xmlns` on an element —
    the former findings F2b-reserved, F3x — are rejected by the validation pass itself now:
    `noReserved_of_validDoc`.)  Decidable on the tree; in the fragment the names are the `name` cells plus
    constants of the type table. -/
def NamesClean (doc : Node) : Prop := noBrTree doc = true

theorem trace_wf {wb doc f lists rows drows o ditems} (T : Trace wb doc f lists rows drows o ditems)
    (hb : noBrTree doc = true) : doc.WFLax = true ∧ isElem doc = true := by
  have hv := T.hvalid
  have hd := isDom_assemble f (trace_partsDom T)
  rw [← T.hdoc] at hd
  refine ⟨wf_of_validDoc doc [] hv hb hd, ?_⟩
  rw [T.hdoc]; rfl

/-- **C15 for the whole conversion.**  Whenever the composed model converts a workbook (in either mode), it
    converts it in both modes, both texts parse, and the parsed trees differ only in white-space-only text
    between elements.  From `pretty_cosmetic_lax`; the conversion's own `validate_xml_document` pass supplies
    well-formedness. -/
theorem convert_c15 (wb : Workbook) (p : Bool) (text : Str) (h : convert wb p = .ok text)
    (hn : ∀ doc, convertDoc wb = .ok doc → noBrTree doc = true) :
    ∃ tp tc, convert wb true = .ok tp ∧ convert wb false = .ok tc ∧
      Option.map stripWs (parseDoc tp) = Option.map stripWs (parseDoc tc) ∧
      (parseDoc tp).isSome = true ∧ (parseDoc tc).isSome = true := by
  obtain ⟨doc, hd, -⟩ := convert_ok wb p text h
  obtain ⟨f, lists, rows, drows, o, ditems, T⟩ := convertDoc_trace wb doc hd
  obtain ⟨hwf, helem⟩ := trace_wf T (hn doc hd)
  exact ⟨_, _, convert_eq wb doc hd true, convert_eq wb doc hd false, pretty_cosmetic_lax doc hwf helem⟩

#print axioms convert_c15

/-- the form id the conversion writes: the `form_id` setting (default `data`) -/
def formId (wb : Workbook) : Str :=
  match fieldsOf wb with
  | .ok f => f.idString
  | .error _ => []

/-- **C01 for the whole conversion.**  The text the composed model returns, in either mode, satisfies `Asm.holds`
    — the oracle function of the C01 check: it parses, its namespace declarations are legal, every prefix is
    bound, and it has the ODK skeleton whose primary instance root carries the form id.  From
    `accepted_assembled_holds`: the document is `Asm.assemble` of parts that are DOM trees, and the conversion
    itself ran `validate_xml_document` on it. -/
theorem convert_c01 (wb : Workbook) (p : Bool) (text : Str) (h : convert wb p = .ok text)
    (hn : ∀ doc, convertDoc wb = .ok doc → NamesClean doc) :
    holds text (normAttrVal (formId wb)) = true := by
  obtain ⟨doc, hd, rfl⟩ := convert_ok wb p text h
  obtain ⟨f, lists, rows, drows, o, ditems, T⟩ := convertDoc_trace wb doc hd
  have hb : noBrTree doc = true := hn doc hd
  have hid : formId wb = f.idString := by simp [formId, T.hf]
  rw [hid, T.hdoc]
  have hdoc := T.hdoc
  subst hdoc
  exact accepted_assembled_holds f none _ _ _ T.hvalid hb (trace_partsDom T) p

#print axioms convert_c01

/-! ## 5. C04: the primary instance of the document is the row tree -/

theorem formOut_ok (root : Str) (lists : List Str) (rows : List Cells) (settings : Cells) (o : FormOut)
    (h : formOut root lists rows settings = .ok o) :
    ∃ ks items, classifyAll lists 2 rows = .ok ks ∧ parseRows ks = .ok items ∧ o.items = items ∧
      o.inst = instanceOf root (withMeta rows settings items) ∧
      o.binds = bindPathsL [root] (withMeta rows settings items) ∧ o.body = bodyPathsL [root] items := by
  unfold formOut at h
  cases hc : classifyAll lists 2 rows with
  | error w => rw [hc] at h; simp at h
  | ok ks =>
    rw [hc] at h; simp only [] at h
    cases hp : parseRows ks with
    | error e => rw [hp] at h; simp at h
    | ok items =>
      rw [hp] at h; simp only [] at h
      split at h
      · simp at h
      · split at h
        · simp at h
        · split at h
          · simp at h
          · simp at h; subst h
            exact ⟨ks, items, rfl, hp, rfl, rfl, rfl, rfl⟩

mutual
/-- the name tree an instance element reads back as (text children are data, not structure) -/
def ntOf : Node → List NT
  | .text _ _ => []
  | .elem t a ks => [NT.node t (lookup (l!"jr:template") a).isSome (ntOfL ks)]
def ntOfL : List Node → List NT
  | [] => []
  | k :: ks => ntOf k ++ ntOfL ks
end

theorem tmplAttrs_lookup (t : Bool) : (lookup (l!"jr:template") (Convert.tmplAttrs t)).isSome = t := by
  cases t <;> decide

mutual
theorem ntOf_instNode (defs : List (List Str × Str)) : ∀ (pre : List Str) (t : NT), ntOf (instNode defs pre t) = [t]
  | pre, .node n t [] => by
    unfold instNode
    simp only [ntOf, tmplAttrs_lookup]
    cases lookupPath (pre ++ [n]) defs <;> simp [ntOfL, ntOf]
  | pre, .node n t (k :: ks) => by
    unfold instNode
    simp only [ntOf, tmplAttrs_lookup, ntOfL_instNodes defs (pre ++ [n]) (k :: ks)]
theorem ntOfL_instNodes (defs : List (List Str × Str)) : ∀ (pre : List Str) (ts : List NT),
    ntOfL (instNodes defs pre ts) = ts
  | _, [] => by simp [instNodes, ntOfL]
  | pre, k :: ks => by
    simp [instNodes, ntOfL, ntOf_instNode defs pre k, ntOfL_instNodes defs pre ks]
end

/-- children of `<model>` in a document of the shape `Survey.xml()` builds -/
def modelKidsOf : Node → List Node
  | .elem _ _ [.elem _ _ [_, .elem _ _ mk], _] => mk
  | _ => []

def bodyKidsOf : Node → List Node
  | .elem _ _ [_, .elem _ _ bk] => bk
  | _ => []

def isTag (t : Str) : Node → Bool
  | .elem t' _ _ => t' == t
  | .text _ _ => false

/-- the root element of the primary instance: the only child of the first `<instance>` of the model -/
def primaryRoot (doc : Node) : Option Node :=
  match (modelKidsOf doc).find? (isTag (l!"instance")) with
  | some (.elem _ _ [r]) => some r
  | _ => none

def kidsOf : Node → List Node
  | .elem _ _ ks => ks
  | .text _ _ => []

def tagOf : Node → Str
  | .elem t _ _ => t
  | .text _ _ => []

theorem modelKidsOf_assemble (f : Fields) (rk rest bk : List Node) :
    modelKidsOf (assemble f none rk rest bk) = Asm.modelKids f none rk rest := rfl

theorem bodyKidsOf_assemble (f : Fields) (rk rest bk : List Node) :
    bodyKidsOf (assemble f none rk rest bk) = bk := rfl

theorem primaryRoot_assemble (f : Fields) (rk rest bk : List Node) :
    primaryRoot (assemble f none rk rest bk) = some (.elem f.name (rootAttrs f) rk) := by
  have hsub : ∀ a, isTag (l!"instance") (pyNode (l!"submission") a []) = false := by
    intro a; simp only [pyNode, isTag]; decide
  have hinst : ∀ ks, isTag (l!"instance") (pyNode (l!"instance") [] ks) = true := by
    intro ks; simp only [pyNode, isTag]; decide
  have hfind : (Asm.modelKids f none rk rest).find? (isTag (l!"instance")) =
      some (pyNode "instance".toList [] [.elem f.name (rootAttrs f) rk]) := by
    unfold Asm.modelKids submissionNode
    split
    · simp [itextPart, List.find?, hinst]
    · simp [itextPart, List.find?, hsub, hinst]
  unfold primaryRoot
  rw [modelKidsOf_assemble, hfind]
  rfl

/-- **C04 for the whole conversion.**  The children of the primary instance root of the produced document, read
    back as a name tree with the `jr:template` copies dropped, are exactly the element tree of the survey sheet:
    one node per row that creates an element (plus the generated meta block), in sheet order, nested as the
    begin/end rows nest (`nest` = the grammar reading of the sheet).  From `C04.instance_shape` and
    `C04.stack_refines_nest`. -/
theorem convert_c04 (wb : Workbook) (doc : Node) (h : convertDoc wb = .ok doc) :
    ∃ key rows lists ks items rt,
      Binds.headerKey wb.surveyCols = .ok key ∧ canonRows key wb.survey = .ok rows ∧
      classifyAll lists 2 rows = .ok ks ∧ nest ks = .ok items ∧
      primaryRoot doc = some rt ∧
      Form.eraseL (ntOfL (kidsOf rt)) = Form.plainL (withMeta rows [] items) := by
  obtain ⟨f, lists, rows, drows, o, ditems, T⟩ := convertDoc_trace wb doc h
  obtain ⟨key, hkey, hrows⟩ := T.hrows
  obtain ⟨ks, items, hc, hp, -, hinst, -, -⟩ := formOut_ok _ _ _ _ _ T.hform
  refine ⟨key, rows, _, ks, items, .elem f.name (rootAttrs f) (instNodes (defaultsOfL [f.name] ditems) [f.name] (ntKids o.inst)), hkey, hrows, hc, ?_, ?_, ?_⟩
  · rw [← C04.stack_refines_nest]; exact hp
  · rw [T.hdoc]; exact primaryRoot_assemble ..
  · simp only [kidsOf, ntOfL_instNodes, hinst, instanceOf, ntKids]
    exact C04.instance_shape false _

#print axioms convert_c04

/-! ## 6. C02: every bind nodeset and body ref of the document resolves in its primary instance -/

theorem lookup_map_same (d : List (Str × Str)) (k v : Str) (h : d.any (fun kv => kv.1 == k) = true) :
    lookup k (d.map fun kv => if kv.1 = k then (kv.1, v) else kv) = some v := by
  induction d with
  | nil => simp at h
  | cons x xs ih =>
    obtain ⟨k', v'⟩ := x
    by_cases hk : k' = k
    · simp [lookup, hk]
    · have hk' : ¬ k = k' := fun e => hk e.symm
      have h' : xs.any (fun kv => kv.1 == k) = true := by
        simpa [List.any_cons, hk] using h
      simp only [List.map_cons, hk, if_false, lookup, hk']
      exact ih h'

theorem lookup_filter_local (d : List (Str × Str)) (k : Str) :
    lookup k (d.filter fun kv => attrLocal kv.1 != attrLocal k) = none := by
  induction d with
  | nil => rfl
  | cons x xs ih =>
    obtain ⟨k', v'⟩ := x
    simp only [List.filter_cons]
    split
    · rename_i hne
      have hk' : ¬ k = k' := by
        intro e; subst e; simp at hne
      simp only [lookup, hk', if_false]
      exact ih
    · exact ih

theorem lookup_append_new (l : List (Str × Str)) (k v : Str) (h : lookup k l = none) :
    lookup k (l ++ [(k, v)]) = some v := by
  induction l with
  | nil => simp [lookup]
  | cons x xs ih =>
    obtain ⟨k', v'⟩ := x
    simp only [lookup] at h
    split at h
    · simp at h
    · rename_i hk
      simp only [List.cons_append, lookup, hk, if_false]
      exact ih h

theorem lookup_setAttr_same (d : List (Str × Str)) (k v : Str) : lookup k (setAttr d k v) = some v := by
  unfold setAttr
  split
  · rename_i h; exact lookup_map_same d k v h
  · exact lookup_append_new _ k v (lookup_filter_local d k)

theorem lookup_filter_ne (d : List (Str × Str)) (k : Str) (q : Str × Str → Bool)
    (hq : ∀ v, q (k, v) = true) : lookup k (d.filter q) = lookup k d := by
  induction d with
  | nil => rfl
  | cons x xs ih =>
    obtain ⟨k', v'⟩ := x
    by_cases hk : k = k'
    · subst hk; simp [List.filter_cons, hq, lookup]
    · simp only [List.filter_cons]
      split
      · simp [lookup, hk, ih]
      · simp [lookup, hk, ih]

theorem lookup_append_single (d : List (Str × Str)) (k k' v' : Str) (h : k ≠ k') :
    lookup k (d ++ [(k', v')]) = lookup k d := by
  induction d with
  | nil => simp [lookup, h]
  | cons x xs ih =>
    obtain ⟨k2, v2⟩ := x
    simp only [List.cons_append, lookup]
    split
    · rfl
    · exact ih

theorem lookup_map_update (d : List (Str × Str)) (k k' v' : Str) (h : k ≠ k') :
    lookup k (d.map fun kv => if kv.1 = k' then (kv.1, v') else kv) = lookup k d := by
  induction d with
  | nil => rfl
  | cons x xs ih =>
    obtain ⟨k2, v2⟩ := x
    simp only [List.map_cons]
    by_cases h2 : k2 = k'
    · have h3 : ¬ k = k2 := by rw [h2]; exact h
      simp only [h2, if_true, lookup]
      rw [h2] at h3
      simp only [h3, if_false]
      exact ih
    · simp only [h2, if_false, lookup]
      split
      · rfl
      · exact ih

/-- `setAttribute(k', v')` leaves the attribute `k` alone when the local names differ -/
theorem lookup_setAttr_other (d : List (Str × Str)) (k k' v' : Str) (h : attrLocal k' ≠ attrLocal k) :
    lookup k (setAttr d k' v') = lookup k d := by
  have hne : k ≠ k' := by intro e; subst e; exact h rfl
  unfold setAttr
  split
  · exact lookup_map_update d k k' v' hne
  · rw [lookup_append_single _ _ _ _ hne]
    apply lookup_filter_ne
    intro v
    simp only [bne_iff_ne, ne_eq]
    exact fun e => h e.symm

theorem lookup_setAttrs_other (upd d : List (Str × Str)) (k : Str)
    (h : upd.all (fun kv => attrLocal kv.1 != attrLocal k) = true) : lookup k (setAttrs d upd) = lookup k d := by
  induction upd generalizing d with
  | nil => rfl
  | cons x xs ih =>
    simp only [List.all_cons, Bool.and_eq_true, bne_iff_ne, ne_eq] at h
    simp only [setAttrs, List.foldl_cons]
    have := ih (setAttr d x.1 x.2) (by simpa using h.2)
    simp only [setAttrs] at this
    rw [this, lookup_setAttr_other d k x.1 x.2 h.1]

theorem lookup_pyNode_head (k v : Str) (rest : List (Str × Str))
    (h : rest.all (fun kv => attrLocal kv.1 != attrLocal k) = true) :
    lookup k (setAttrs [] ((k, v) :: rest)) = some v := by
  simp only [setAttrs, List.foldl_cons]
  have := lookup_setAttrs_other rest (setAttr [] k v) k h
  simp only [setAttrs] at this
  rw [this, lookup_setAttr_same]

theorem lookup_pyNode_last (k v : Str) (a : List (Str × Str)) :
    lookup k (setAttrs [] (a ++ [(k, v)])) = some v := by
  simp only [setAttrs, List.foldl_append, List.foldl_cons, List.foldl_nil]
  exact lookup_setAttr_same _ k v

/-- the `nodeset` of a `<bind>` element -/
def bindRef : Node → Option Str
  | .elem t a _ => if t = l!"bind" then lookup (l!"nodeset") a else none
  | .text _ _ => none

/-- nodesets of the `<bind>` children of `<model>`, document order -/
def bindRefs (doc : Node) : List Str := (modelKidsOf doc).filterMap bindRef

mutual
/-- `ref` / `nodeset` of every body control (elements named like a control), document order -/
def ctlRefs : Node → List Str
  | .text _ _ => []
  | .elem t a ks =>
    (if controlTags.contains t then (lookup (l!"ref") a).toList ++ (lookup (l!"nodeset") a).toList else []) ++ ctlRefsL ks
def ctlRefsL : List Node → List Str
  | [] => []
  | k :: ks => ctlRefs k ++ ctlRefsL ks
end

theorem ctlRefsL_append (a b : List Node) : ctlRefsL (a ++ b) = ctlRefsL a ++ ctlRefsL b := by
  induction a with
  | nil => simp [ctlRefsL]
  | cons x xs ih => simp [ctlRefsL, ih]

theorem bindAttrs_clean {els : List Refs.Chain} {ctx : Refs.Chain} {q : Binds.Q} {a : List (Str × Str)}
    (h : bindAttrs els ctx q = some a) : a.all (fun kv => attrLocal kv.1 != l!"nodeset") = true := by
  unfold bindAttrs at h
  split at h
  · split at h
    · rename_i hc; simp at h; subst h; exact hc
    · simp at h
  · simp at h

theorem bindRef_bindNode (els : List Refs.Chain) (ctx : Refs.Chain) (q : Binds.Q)
    (h : (bindAttrs els ctx q).isSome = true) : bindRef (bindNode els ctx q) = some (xpathStr ctx.path) := by
  obtain ⟨a, ha⟩ := Option.isSome_iff_exists.mp h
  have hc := bindAttrs_clean ha
  simp only [bindNode, pyNode, bindRef, if_true, ha, Option.getD_some]
  apply lookup_pyNode_head
  have e : attrLocal (l!"nodeset") = l!"nodeset" := by decide
  rw [e]; exact hc

theorem path_snoc (pc : Refs.Chain) (n : Str) (k : Refs.Kind) : Refs.Chain.path (pc ++ [(n, k)]) = pc.path ++ [n] := by
  simp [Refs.Chain.path]

mutual
theorem bindNodes_refs (els : List Refs.Chain) : ∀ (pc : Refs.Chain) (d : DItem),
    bindsOk els pc d = true →
    (bindNodes els pc d).filterMap bindRef = (bindPaths pc.path (Convert.erase d)).map xpathStr
  | pc, .q d p, h => by
    simp only [bindsOk, Bool.or_eq_true, Bool.not_eq_true'] at h
    have hdyn : (if inRep pc = true then [] else dynSetOf els (pc ++ [(d.name, .q)]) p.cells false).filterMap bindRef = [] := by
      split
      · rfl
      · unfold dynSetOf
        split
        · split
          · simp only [setvalueNode, pyNode, List.filterMap_cons, bindRef]; rw [if_neg (by decide)]; rfl
          · rfl
        · rfl
    simp only [bindNodes, Convert.erase, bindPaths, List.filterMap_append, hdyn, List.append_nil]
    cases hb : d.bind with
    | false => simp
    | true =>
      have h' := h.resolve_left (by simp [hb])
      simp [List.filterMap, bindRef_bindNode els _ _ h', path_snoc]
  | pc, .sec ct n b p ks, h => by
    simp only [bindsOk, Bool.and_eq_true, Bool.or_eq_true, Bool.not_eq_true'] at h
    simp only [bindNodes, Convert.erase, bindPaths, List.filterMap_append, List.map_append,
      bindNodesL_refs els (pc ++ [(n, kindOf ct)]) ks h.2, path_snoc]
    cases hb : b with
    | false => simp
    | true =>
      have h' := h.1.resolve_left (by simp [hb])
      simp [List.filterMap, bindRef_bindNode els _ _ h', path_snoc]
theorem bindNodesL_refs (els : List Refs.Chain) : ∀ (pc : Refs.Chain) (ds : List DItem),
    bindsOkL els pc ds = true →
    (bindNodesL els pc ds).filterMap bindRef = (bindPathsL pc.path (Convert.eraseL ds)).map xpathStr
  | _, [], _ => by simp [bindNodesL, Convert.eraseL, bindPathsL]
  | pc, k :: ks, h => by
    simp only [bindsOkL, Bool.and_eq_true] at h
    simp only [bindNodesL, Convert.eraseL, bindPathsL, List.filterMap_append, List.map_append,
      bindNodes_refs els pc k h.1, bindNodesL_refs els pc ks h.2]
end

theorem ctlRefs_nonctl (t : Str) (a : List (Str × Str)) (ks : List Node) (h : controlTags.contains t = false) :
    ctlRefs (.elem t a ks) = ctlRefsL ks := by
  simp only [ctlRefs, h, Bool.false_eq_true, if_false, List.nil_append]

theorem ctlRefs_ctl (t : Str) (a : List (Str × Str)) (ks : List Node) (h : controlTags.contains t = true) :
    ctlRefs (.elem t a ks) = (lookup (l!"ref") a).toList ++ (lookup (l!"nodeset") a).toList ++ ctlRefsL ks := by
  simp only [ctlRefs, h, if_true]

theorem ctlRefsL_text (b : Bool) (s : Str) : ctlRefsL [.text b s] = [] := by
  simp only [ctlRefsL, ctlRefs, List.append_nil]

theorem ctlRefsL_single (n : Node) : ctlRefsL [n] = ctlRefs n := by
  simp only [ctlRefsL, List.append_nil]

theorem ctlRefsL_outputKids : ∀ (ks : List Node), ks.all outputKid = true → ctlRefsL ks = []
  | [], _ => rfl
  | k :: ks, h => by
    simp only [List.all_cons, Bool.and_eq_true] at h
    have hk : ctlRefs k = [] := by
      match k, h.1 with
      | .text _ _, _ => simp [ctlRefs]
      | .elem t a [], ht =>
        have : t = l!"output" := by simpa [outputKid] using ht
        subst this
        rw [ctlRefs_nonctl _ _ _ (by decide)]; rfl
    simp only [ctlRefsL, hk, ctlRefsL_outputKids ks h.2, List.append_nil]

theorem ctlRefs_emptyNode (tag : Str) (h : controlTags.contains tag = false) : ctlRefs (emptyNode tag) = [] := by
  unfold emptyNode pyNode
  rw [ctlRefs_nonctl _ _ _ h]; rfl

/-- the mixed channel builds an element with the tag it was given -/
theorem mixedChannel_tag {refs : List (Str × Str)} {tag s : Str} {n : Node} (h : Chan.mixedChannel refs tag s = .ok n) :
    ∃ a ks, n = .elem tag a ks := by
  unfold Chan.mixedChannel Chan.mixedChannelWith at h
  split at h
  · split at h
    · simp at h
    · split at h
      · simp only [Chan.Outcome.ok.injEq] at h
        rename_i n' hp
        unfold Chan.nodeParsed at hp
        split at hp
        · simp only [Option.some.injEq] at hp; exact ⟨_, _, by rw [← h, ← hp]⟩
        · simp at hp
      · simp at h
  · simp only [Chan.Outcome.ok.injEq, Chan.nodeText] at h; exact ⟨_, _, h.symm⟩
  · simp at h
  · simp at h
  · simp at h

theorem ctlRefs_textNode (els : List Refs.Chain) (path : List Str) (tag : Str) (cell : Option Str)
    (h : controlTags.contains tag = false) : ctlRefs (textNode els path tag cell) = [] := by
  unfold textNode
  split
  · exact ctlRefs_emptyNode tag h
  · split
    · rename_i s n hn
      have ho := (textOutcome_ok hn).2
      have htag : ∃ a ks, n = .elem tag a ks := by
        unfold textOutcome at hn
        split at hn
        · simp at hn
        · split at hn
          · rename_i n' hm
            split at hn
            · simp only [Chan.Outcome.ok.injEq] at hn; subst hn; exact mixedChannel_tag hm
            · simp at hn
          · rename_i hne; exact absurd hn (by intro h'; exact hne _ h')
      obtain ⟨a, ks, rfl⟩ := htag
      rw [ctlRefs_nonctl _ _ _ h]
      exact ctlRefsL_outputKids ks (by simpa only [outputOnly] using ho)
    · exact ctlRefs_emptyNode tag h

theorem ctlRefs_labelNode (els : List Refs.Chain) (path : List Str) (r : Cells) : ctlRefs (labelNode els path r) = [] :=
  ctlRefs_textNode _ _ _ _ (by decide)

theorem ctlRefs_hintNode (els : List Refs.Chain) (path : List Str) (r : Cells) : ctlRefs (hintNode els path r) = [] :=
  ctlRefs_textNode _ _ _ _ (by decide)

theorem ctlRefsL_labelAndHint (els : List Refs.Chain) (path : List Str) (r : Cells) :
    ctlRefsL (labelAndHint els path r) = [] := by
  unfold labelAndHint
  rw [ctlRefsL_append]
  have h1 : ctlRefsL (if (has r "label" || has r "hint") = true then [labelNode els path r] else []) = [] := by
    split
    · rw [ctlRefsL_single, ctlRefs_labelNode]
    · rfl
  have h2 : ctlRefsL (if has r "hint" = true then [hintNode els path r] else []) = [] := by
    split
    · rw [ctlRefsL_single, ctlRefs_hintNode]
    · rfl
  rw [h1, h2]; rfl

theorem ctlRefsL_itemsetNodes (r : Cells) : ctlRefsL (itemsetNodes r) = [] := by
  have h1 : controlTags.contains (l!"itemset") = false := by decide
  have h2 : controlTags.contains (l!"value") = false := by decide
  have h3 : controlTags.contains (l!"label") = false := by decide
  unfold itemsetNodes
  split
  · rfl
  · split
    · rfl
    · simp only [pyNode, ctlRefsL, ctlRefs_nonctl _ _ _ h1, ctlRefs_nonctl _ _ _ h2, ctlRefs_nonctl _ _ _ h3,
        List.append_nil]

def cleanAttrs (a : List (Str × Str)) : Bool :=
  a.all fun kv => attrLocal kv.1 != l!"ref" && attrLocal kv.1 != l!"nodeset"

theorem clean_ref {a : List (Str × Str)} (h : cleanAttrs a = true) :
    a.all (fun kv => attrLocal kv.1 != attrLocal (l!"ref")) = true := by
  have e : attrLocal (l!"ref") = l!"ref" := by decide
  rw [e]; unfold cleanAttrs at h
  rw [List.all_eq_true] at h ⊢
  intro x hx; have := h x hx; simp only [Bool.and_eq_true] at this; exact this.1

theorem clean_nodeset {a : List (Str × Str)} (h : cleanAttrs a = true) :
    a.all (fun kv => attrLocal kv.1 != attrLocal (l!"nodeset")) = true := by
  have e : attrLocal (l!"nodeset") = l!"nodeset" := by decide
  rw [e]; unfold cleanAttrs at h
  rw [List.all_eq_true] at h ⊢
  intro x hx; have := h x hx; simp only [Bool.and_eq_true] at this; exact this.2

/-- attributes `(k, v) :: a` set on a fresh element: `k` is there, `k2` is not (`a` has neither local name) -/
theorem head_attrs (k k2 v : Str) (a : List (Str × Str)) (hk : a.all (fun kv => attrLocal kv.1 != attrLocal k) = true)
    (hk2 : a.all (fun kv => attrLocal kv.1 != attrLocal k2) = true) (hne : (attrLocal k != attrLocal k2) = true) :
    lookup k (setAttrs [] ((k, v) :: a)) = some v ∧ lookup k2 (setAttrs [] ((k, v) :: a)) = none := by
  refine ⟨lookup_pyNode_head k v a hk, ?_⟩
  rw [lookup_setAttrs_other ((k, v) :: a) [] k2 (by simp only [List.all_cons, hne, hk2]; rfl)]
  rfl

theorem last_attrs (v : Str) (a : List (Str × Str)) (h : cleanAttrs a = true) :
    lookup (l!"ref") (setAttrs [] (a ++ [(l!"ref", v)])) = some v ∧
    lookup (l!"nodeset") (setAttrs [] (a ++ [(l!"ref", v)])) = none := by
  refine ⟨lookup_pyNode_last _ v a, ?_⟩
  rw [lookup_setAttrs_other (a ++ [(l!"ref", v)]) [] (l!"nodeset")]
  · rfl
  · rw [List.all_append, clean_nodeset h]
    have : attrLocal (l!"ref") != attrLocal (l!"nodeset") := by decide
    simp only [List.all_cons, List.all_nil, this]; rfl

theorem cleanAttrs_subAttrs (els : List Refs.Chain) (ctx : Refs.Chain) (a : List (Str × Str)) :
    cleanAttrs (Convert.subAttrs els ctx a) = cleanAttrs a := by
  unfold cleanAttrs Convert.subAttrs
  rw [List.all_map]; rfl

theorem ctlRefsL_dynSetOf (els : List Refs.Chain) (ctx : Refs.Chain) (r : Cells) (b : Bool) :
    ctlRefsL (dynSetOf els ctx r b) = [] := by
  unfold dynSetOf
  split
  · split
    · simp only [setvalueNode, pyNode, ctlRefsL_single]
      rw [ctlRefs_nonctl _ _ _ (by decide)]; rfl
    · rfl
  · rfl

mutual
theorem ctlRefsL_dynSets (els : List Refs.Chain) : ∀ (pre : List Str) (d : DItem), ctlRefsL (dynSets els pre d) = []
  | pre, .q d p => by unfold dynSets; exact ctlRefsL_dynSetOf ..
  | pre, .sec .rep n b p ks => by unfold dynSets; rfl
  | pre, .sec .group n b p ks => by unfold dynSets; exact ctlRefsL_dynSetsL els (pre ++ [n]) ks
  | pre, .sec .loop n b p ks => by unfold dynSets; exact ctlRefsL_dynSetsL els (pre ++ [n]) ks
theorem ctlRefsL_dynSetsL (els : List Refs.Chain) : ∀ (pre : List Str) (ds : List DItem),
    ctlRefsL (dynSetsL els pre ds) = []
  | _, [] => by unfold dynSetsL; rfl
  | pre, k :: ks => by
    unfold dynSetsL
    rw [ctlRefsL_append, ctlRefsL_dynSets els pre k, ctlRefsL_dynSetsL els pre ks]; rfl
end

mutual
theorem bodyNodes_refs (els : List Refs.Chain) : ∀ (pre : List Str) (d : DItem), ctlOk d = true →
    ctlRefsL (bodyNodes els pre d) = (bodyPaths pre (Convert.erase d)).map xpathStr
  | pre, .q d p, h => by
    simp only [ctlOk, Bool.and_eq_true, Bool.or_eq_true, Bool.not_eq_true'] at h
    simp only [bodyNodes, Convert.erase, bodyPaths]
    cases hc : d.control with
    | false => simp [ctlRefsL]
    | true =>
      have ht := h.1.resolve_left (by simp [hc])
      have hcl : cleanAttrs p.attrs = true := h.2
      obtain ⟨e1, e2⟩ := head_attrs (l!"ref") (l!"nodeset") (xpathStr (pre ++ [d.name])) p.attrs
        (clean_ref hcl) (clean_nodeset hcl) (by decide)
      simp only [↓reduceIte, ctlRefsL_single, pyNode, List.map]
      rw [ctlRefs_ctl _ _ _ ht, e1, e2, ctlRefsL_append, ctlRefsL_labelAndHint, ctlRefsL_itemsetNodes]
      rfl
  | pre, .sec .rep n b p ks, h => by
    simp only [ctlOk, Bool.and_eq_true] at h
    have hcl : cleanAttrs (Convert.subAttrs els (ctxOf els (pre ++ [n])) p.attrs) = true := by
      rw [cleanAttrs_subAttrs]; exact h.1
    obtain ⟨e1, e2⟩ := head_attrs (l!"nodeset") (l!"ref") (xpathStr (pre ++ [n]))
      (Convert.subAttrs els (ctxOf els (pre ++ [n])) p.attrs) (clean_nodeset hcl) (clean_ref hcl) (by decide)
    obtain ⟨g1, g2⟩ := head_attrs (l!"ref") (l!"nodeset") (xpathStr (pre ++ [n])) [] rfl rfl (by decide)
    have hg : controlTags.contains (l!"group") = true := by decide
    have hr : controlTags.contains (l!"repeat") = true := by decide
    simp only [bodyNodes, Convert.erase, bodyPaths, ctlRefsL_single, pyNode, List.map]
    rw [ctlRefs_ctl _ _ _ hg, g1, g2]
    simp only [ctlRefsL, ctlRefs_labelNode, List.nil_append, List.append_nil]
    rw [ctlRefs_ctl _ _ _ hr, e1, e2, ctlRefsL_append, bodyNodesL_refs els (pre ++ [n]) ks h.2, ctlRefsL_dynSetsL]
    simp
  | pre, .sec .group n b p ks, h => by
    simp only [ctlOk, Bool.and_eq_true] at h
    obtain ⟨e1, e2⟩ := last_attrs (xpathStr (pre ++ [n])) p.attrs h.1
    have hg : controlTags.contains (l!"group") = true := by decide
    simp only [bodyNodes, Convert.erase, bodyPaths, ctlRefsL_single, pyNode, List.map]
    rw [ctlRefs_ctl _ _ _ hg, e1, e2, ctlRefsL_append, bodyNodesL_refs els (pre ++ [n]) ks h.2]
    split
    · rw [ctlRefsL_single, ctlRefs_labelNode]; rfl
    · rfl
  | pre, .sec .loop n b p ks, h => by
    simp only [ctlOk, Bool.and_eq_true] at h
    obtain ⟨e1, e2⟩ := last_attrs (xpathStr (pre ++ [n])) p.attrs h.1
    have hg : controlTags.contains (l!"group") = true := by decide
    simp only [bodyNodes, Convert.erase, bodyPaths, ctlRefsL_single, pyNode, List.map]
    rw [ctlRefs_ctl _ _ _ hg, e1, e2, ctlRefsL_append, bodyNodesL_refs els (pre ++ [n]) ks h.2]
    split
    · rw [ctlRefsL_single, ctlRefs_labelNode]; rfl
    · rfl
theorem bodyNodesL_refs (els : List Refs.Chain) : ∀ (pre : List Str) (ds : List DItem), ctlOkL ds = true →
    ctlRefsL (bodyNodesL els pre ds) = (bodyPathsL pre (Convert.eraseL ds)).map xpathStr
  | _, [], _ => by simp [bodyNodesL, Convert.eraseL, bodyPathsL, ctlRefsL]
  | pre, k :: ks, h => by
    simp only [ctlOkL, Bool.and_eq_true] at h
    simp only [bodyNodesL, Convert.eraseL, bodyPathsL, ctlRefsL_append, List.map_append,
      bodyNodes_refs els pre k h.1, bodyNodesL_refs els pre ks h.2]
end

theorem erase_dWithMeta (root : Str) (rows : List Cells) (ds : List DItem) :
    Convert.eraseL (dWithMeta root rows ds) = withMeta rows [] (Convert.eraseL ds) := by
  unfold dWithMeta withMeta
  simp only []
  split
  · rfl
  · rw [eraseL_append]
    congr 1
    simp only [Convert.eraseL, Convert.erase]
    congr 2
    induction metaKids rows [] with
    | nil => rfl
    | cons x xs ih => simp only [List.map_cons, Convert.eraseL, Convert.erase, ih]

theorem trace_items {wb doc f lists rows drows o ditems} (T : Trace wb doc f lists rows drows o ditems) :
    Convert.eraseL ditems = o.items ∧ o.inst = instanceOf f.name (withMeta rows [] o.items) ∧
    o.binds = bindPathsL [f.name] (withMeta rows [] o.items) ∧ o.body = bodyPathsL [f.name] o.items := by
  obtain ⟨ks, items, hc, hp, hi, hinst, hb, hbody⟩ := formOut_ok _ _ _ _ _ T.hform
  have hc' := decorateAll_classifyAll _ _ _ _ T.hdec
  rw [hc] at hc'
  have hks : ks = drows.map (·.1) := by simpa using hc'
  have he := dparse_erase drows
  rw [T.hpar, ← hks, hp] at he
  have : Convert.eraseL ditems = items := by simpa [Except.map] using he
  subst hi
  exact ⟨this, hinst, hb, hbody⟩

theorem bindRef_choiceInst (l : List Choices.Inst) : (l.map Choices.instNode).filterMap bindRef = [] := by
  induction l with
  | nil => rfl
  | cons i is ih =>
    have : bindRef (Choices.instNode i) = none := by
      unfold Choices.instNode
      cases i.src <;> simp only [bindRef] <;> rw [if_neg (by decide)]
    simp only [List.map_cons, List.filterMap_cons, this, ih]

theorem bindRefs_doc {wb doc f lists rows drows o ditems} (T : Trace wb doc f lists rows drows o ditems) :
    bindRefs doc = o.binds.map xpathStr := by
  obtain ⟨hi, -, hb, -⟩ := trace_items T
  have hsub : (submissionNode f).filterMap bindRef = [] := by
    unfold submissionNode
    split
    · rfl
    · simp only [pyNode, List.filterMap_cons, bindRef]; rw [if_neg (by decide)]; rfl
  have hinst : ∀ ks, bindRef (pyNode "instance".toList [] ks) = none := by
    intro ks; simp only [pyNode, bindRef]; rw [if_neg (by decide)]
  rw [bindRefs, T.hdoc, modelKidsOf_assemble]
  unfold Asm.modelKids
  simp only [itextPart, List.append_nil, List.filterMap_append, List.filterMap_cons, hsub, hinst,
    List.nil_append, bindRef_choiceInst, bindNodesL_refs _ _ _ T.hbinds, erase_dWithMeta, hi, hb, Refs.Chain.path, List.map]

theorem ctlRefs_doc {wb doc f lists rows drows o ditems} (T : Trace wb doc f lists rows drows o ditems) :
    ctlRefsL (bodyKidsOf doc) = o.body.map xpathStr := by
  obtain ⟨hi, -, -, hbody⟩ := trace_items T
  rw [T.hdoc, bodyKidsOf_assemble, bodyNodesL_refs _ _ _ T.hctl, hi, hbody]

/-- **C02 for the whole conversion (document level).**  In the document the composed model produces, the
    `nodeset` of every `<bind>` of the model and the `ref` / `nodeset` of every body control (questions, groups,
    repeats) is an absolute path that names a node of the primary instance *of that same document* (read back
    from its element tree).  From `C02.refs_resolve` on the `Form` pipeline the conversion ran, plus: the walkers
    over the decorated tree emit exactly `Form.bindPathsL` / `Form.bodyPathsL`, `setAttribute` keeps the
    `nodeset` / `ref` it was given (no attribute with that local name follows), and the instance reads back as
    `Form.instKids`.
    `_partial`: stated on the DOM tree whose text `convert` returns; the same statement about `parseDoc text`
    needs the reader's view of attribute values (`render_parses_*_lax` gives `parseDoc text = expectedLax doc`;
    transporting `bindRefs` / `ctlRefs` / `ntOf` through `normAttrs` / `layout` is not done). -/
theorem convert_c02_partial (wb : Workbook) (doc : Node) (h : convertDoc wb = .ok doc) :
    ∃ rt, primaryRoot doc = some rt ∧
      ∀ s ∈ bindRefs doc ++ ctlRefsL (bodyKidsOf doc),
        ∃ p, s = xpathStr p ∧ resolves (NT.node (tagOf rt) false (ntOfL (kidsOf rt))) p = true := by
  obtain ⟨f, lists, rows, drows, o, ditems, T⟩ := convertDoc_trace wb doc h
  obtain ⟨-, hinst, -, -⟩ := trace_items T
  refine ⟨.elem f.name (rootAttrs f) (instNodes (defaultsOfL [f.name] ditems) [f.name] (ntKids o.inst)), ?_, ?_⟩
  · rw [T.hdoc]; exact primaryRoot_assemble ..
  · have hrd : NT.node f.name false (ntOfL (instNodes (defaultsOfL [f.name] ditems) [f.name] (ntKids o.inst))) = o.inst := by
      rw [ntOfL_instNodes, hinst]; rfl
    simp only [tagOf, kidsOf, hrd]
    intro s hs
    rw [bindRefs_doc T, ctlRefs_doc T, ← List.map_append, List.mem_map] at hs
    obtain ⟨p, hp, rfl⟩ := hs
    exact ⟨p, rfl, C02.refs_resolve _ _ _ _ _ T.hform p hp⟩

#print axioms convert_c02_partial


/-! ## 6b. C03: every `${name}` of a bind value resolves to the named element -/

/-- a successful substitution answered every occurrence the regex finds -/
theorem substRefs_refs_ok (repl : Str → Str → Bool → Str → Option Str) (g : Bool → Str → Option Str)
    (hg : ∀ a b ls n, repl a b ls n = g ls n) : ∀ (fuel : Nat) (s out : Str),
    Refs.substRefs repl fuel s = some out → ∀ r ∈ Refs.findRefs fuel s, (g r.1 r.2).isSome = true := by
  intro fuel
  induction fuel with
  | zero => intro s out h; simp [Refs.substRefs] at h
  | succ fuel ih =>
    intro s out h
    cases s with
    | nil => simp [Refs.findRefs]
    | cons c r =>
      rw [Refs.substRefs] at h
      rw [Refs.findRefs]
      by_cases hcond : c = '$' ∧ r.head? = some '{'
      · rw [if_pos hcond] at h ⊢
        cases hm : Chan.matchRef r.tail with
        | none =>
          rw [hm] at h
          simp only []
          cases hs : Refs.substRefs repl fuel r with
          | none => simp [hs] at h
          | some o => exact ih r o hs
        | some m =>
          obtain ⟨ls, name, rest⟩ := m
          rw [hm] at h
          simp only [] at h ⊢
          rw [hg] at h
          cases hr : g ls name with
          | none => simp [hr] at h
          | some v =>
            cases hs : Refs.substRefs repl fuel rest with
            | none => simp [hr, hs] at h
            | some o =>
              intro x hx
              simp only [List.mem_cons] at hx
              rcases hx with rfl | hx
              · simp [hr]
              · exact ih rest o hs x hx
      · rw [if_neg hcond] at h ⊢
        cases hs : Refs.substRefs repl fuel r with
        | none => simp [hs] at h
        | some o => exact ih r o hs

/-- the references of the text `s`, read from the element `ctx`, all reach the element they name -/
def HolesResolve (els : List Refs.Chain) (ctx : Refs.Chain) (s : Str) : Prop :=
  ∀ r ∈ Refs.findRefs (s.length + 1) s, ∃ cur e t,
    Refs.refFor els (some ctx) r.2 { lastSaved := r.1 } = .ok cur e ∧
    els.filter (Refs.named r.2) = [t] ∧ Refs.resolve ctx.path e = some t.path

theorem insertXpaths_holes (els : List Refs.Chain) (hv : ∀ t ∈ els, Refs.GoodNames t.path)
    (ctx : Refs.Chain) (hc : Refs.GoodNames ctx.path) (s out : Str)
    (h : Refs.insertXpaths els (some ctx) {} s = some out) : HolesResolve els ctx s := by
  intro r hr
  have hok := substRefs_refs_ok _ (fun ls name => (Refs.refFor els (some ctx) name { lastSaved := ls }).text)
    (fun _ _ _ _ => rfl) _ _ _ h r hr
  cases hf : Refs.refFor els (some ctx) r.2 { lastSaved := r.1 } with
  | ok cur e =>
    obtain ⟨t, ht, hres⟩ := Refs.ref_resolves els hv ctx hc r.2 _ cur e hf
    exact ⟨cur, e, t, rfl, ht, hres⟩
  | unknown n => simp [hf, Refs.Out.text] at hok
  | ambiguous n => simp [hf, Refs.Out.text] at hok

theorem attrsOfR_holes (els : List Refs.Chain) (hv : ∀ t ∈ els, Refs.GoodNames t.path)
    (ctx : Refs.Chain) (hc : Refs.GoodNames ctx.path) (path : Str) : ∀ (b : Binds.BindDict) (a : List (Str × Str)),
    attrsOfR els ctx path b = some a →
    ∀ kv ∈ b, ∃ s s', Binds.convVal path kv.1 kv.2 = some s ∧ Refs.insertXpaths els (some ctx) {} s = some s' ∧
      (kv.1, s') ∈ a ∧ HolesResolve els ctx s
  | [], _, _ => by simp
  | (k, v) :: rest, a, h => by
    simp only [attrsOfR] at h
    split at h
    · simp at h
    · rename_i s hs
      split at h
      · rename_i s' r hi hr
        simp only [Option.some.injEq] at h; subst h
        intro kv hkv
        simp only [List.mem_cons] at hkv
        rcases hkv with rfl | hkv
        · exact ⟨s, s', hs, hi, by simp, insertXpaths_holes els hv ctx hc s s' hi⟩
        · obtain ⟨s1, s1', h1, h2, h3, h4⟩ := attrsOfR_holes els hv ctx hc path rest r hr kv hkv
          exact ⟨s1, s1', h1, h2, by simp [h3], h4⟩
      · simp at h

/-- **C03 for a bind of the conversion.**  When the bind of the element `ctx` is produced (`bindAttrs … = some a`),
    every entry of its bind dict reached `a` with its references substituted by `Refs.refFor`, and every `${name}`
    of the entry — absolute or relative, any depth of groups and repeats — evaluated from `ctx`'s node reaches the
    one element called `name`.  From `C03.ref_resolves`. -/
theorem bind_holes_resolve (els : List Refs.Chain) (hv : ∀ t ∈ els, Refs.GoodNames t.path)
    (ctx : Refs.Chain) (hc : Refs.GoodNames ctx.path) (q : Binds.Q) (a : List (Str × Str))
    (h : bindAttrs els ctx q = some a) :
    ∃ b, bindDict q = some b ∧ ∀ kv ∈ b, ∃ s s', Binds.convVal ctx.xpath kv.1 kv.2 = some s ∧
      Refs.insertXpaths els (some ctx) {} s = some s' ∧ (kv.1, s') ∈ a ∧ HolesResolve els ctx s := by
  unfold bindAttrs at h
  cases hb : bindDict q with
  | none => simp [hb] at h
  | some b =>
    simp only [hb, Option.bind_some] at h
    split at h
    · rename_i a' ha
      split at h
      · simp only [Option.some.injEq] at h; subst h
        exact ⟨b, rfl, attrsOfR_holes els hv ctx hc _ b a' ha⟩
      · simp at h
    · simp at h

mutual
/-- the (chain, bind source) of every element of the walk that has a bind -/
def bindElems (pc : Refs.Chain) : DItem → List (Refs.Chain × Binds.Q)
  | .q d p => if d.bind then [(pc ++ [(d.name, .q)], p.bq)] else []
  | .sec ct n b p ks => (if b then [(pc ++ [(n, kindOf ct)], p.bq)] else []) ++ bindElemsL (pc ++ [(n, kindOf ct)]) ks
def bindElemsL (pc : Refs.Chain) : List DItem → List (Refs.Chain × Binds.Q)
  | [] => []
  | k :: ks => bindElems pc k ++ bindElemsL pc ks
end

mutual
theorem bindsOk_elems (els : List Refs.Chain) : ∀ (pc : Refs.Chain) (d : DItem), bindsOk els pc d = true →
    ∀ cq ∈ bindElems pc d, (bindAttrs els cq.1 cq.2).isSome = true
  | pc, .q d p, h => by
    simp only [bindsOk, Bool.or_eq_true, Bool.not_eq_true'] at h
    simp only [bindElems]
    cases hb : d.bind with
    | false => simp
    | true => simpa using h.resolve_left (by simp [hb])
  | pc, .sec ct n b p ks, h => by
    simp only [bindsOk, Bool.and_eq_true, Bool.or_eq_true, Bool.not_eq_true'] at h
    simp only [bindElems, List.mem_append]
    intro cq hcq
    rcases hcq with hcq | hcq
    · cases hb : b with
      | false => simp [hb] at hcq
      | true =>
        simp only [hb, if_true, List.mem_singleton] at hcq; subst hcq
        exact h.1.resolve_left (by simp [hb])
    · exact bindsOkL_elems els _ ks h.2 cq hcq
theorem bindsOkL_elems (els : List Refs.Chain) : ∀ (pc : Refs.Chain) (ds : List DItem), bindsOkL els pc ds = true →
    ∀ cq ∈ bindElemsL pc ds, (bindAttrs els cq.1 cq.2).isSome = true
  | _, [], _ => by simp [bindElemsL]
  | pc, k :: ks, h => by
    simp only [bindsOkL, Bool.and_eq_true] at h
    simp only [bindElemsL, List.mem_append]
    intro cq hcq
    rcases hcq with hcq | hcq
    · exact bindsOk_elems els pc k h.1 cq hcq
    · exact bindsOkL_elems els pc ks h.2 cq hcq
end

/-- **C03 for the whole conversion** (`_partial`: stated on the bind values of the run, with the `GoodNames`
    facts of `Survey.validate` — names non-empty and without `/` — as hypotheses on the element list instead of derived
    from `is_xml_tag`; label / hint outputs, dynamic defaults and `jr:count` go through the same `Refs.insertXpaths`
    but are not covered by this statement).  In a successful conversion every bind of every element (generated
    `_count` / `_other` / `instanceID` included) carries its dict entries with all references resolved by
    `Refs.refFor`, and each reference, evaluated from the element's node, reaches the element it names. -/
theorem convert_c03_partial (wb : Workbook) (doc : Node) (h : convertDoc wb = .ok doc) :
    ∃ (els : List Refs.Chain) (root : Str) (dall : List DItem), els = elsOf root dall ∧
      ((∀ t ∈ els, Refs.GoodNames t.path) → ∀ cq ∈ bindElemsL [(root, .group)] dall, Refs.GoodNames cq.1.path →
        ∃ a b, bindAttrs els cq.1 cq.2 = some a ∧ bindDict cq.2 = some b ∧
          ∀ kv ∈ b, ∃ s s', Binds.convVal cq.1.xpath kv.1 kv.2 = some s ∧
            Refs.insertXpaths els (some cq.1) {} s = some s' ∧ (kv.1, s') ∈ a ∧ HolesResolve els cq.1 s) := by
  obtain ⟨f, lists, rows, drows, o, ditems, T⟩ := convertDoc_trace wb doc h
  refine ⟨_, f.name, dWithMeta f.name rows ditems, rfl, ?_⟩
  intro hv cq hcq hc
  obtain ⟨a, ha⟩ := Option.isSome_iff_exists.mp (bindsOkL_elems _ _ _ T.hbinds cq hcq)
  obtain ⟨b, hb, hall⟩ := bind_holes_resolve _ hv cq.1 hc cq.2 a ha
  exact ⟨a, b, ha, hb, hall⟩

#print axioms convert_c03_partial

/-! ## 7. Non-vacuity: a concrete workbook, its text, and the theorems applied to it -/

def exWb : Workbook :=
  { surveyCols := [l!"type", l!"name", l!"label", l!"relevant"],
    survey := [
      [(l!"type", l!"text"), (l!"name", l!"q"), (l!"label", l!"Q & A")],
      [(l!"type", l!"select_one yn"), (l!"name", l!"s"), (l!"label", l!"S")],
      [(l!"type", l!"begin repeat"), (l!"name", l!"r"), (l!"label", l!"R"), (l!"relevant", l!"${q} = 'a'")],
      [(l!"type", l!"integer"), (l!"name", l!"n"), (l!"label", l!"N")],
      [(l!"type", l!"end repeat")]],
    choiceCols := [l!"list_name", l!"name", l!"label"],
    choices := [[(l!"list_name", l!"yn"), (l!"name", l!"y"), (l!"label", l!"Yes")]],
    settingsCols := [l!"form_id"],
    settings := some [(l!"form_id", l!"f1")] }



/-- the text pyxform returns for `exWb` with `pretty_print=False` (checked against /repo by `harness/props/e2e.py`,
    `replay_example`) -/
def exText : Str := l!"<?xml version=\"1.0\"?><h:html xmlns=\"http://www.w3.org/2002/xforms\" xmlns:h=\"http://www.w3.org/1999/xhtml\" xmlns:ev=\"http://www.w3.org/2001/xml-events\" xmlns:xsd=\"http://www.w3.org/2001/XMLSchema\" xmlns:jr=\"http://openrosa.org/javarosa\" xmlns:orx=\"http://openrosa.org/xforms\" xmlns:odk=\"http://www.opendatakit.org/xforms\"><h:head><h:title>f1</h:title><model odk:xforms-version=\"1.0.0\"><instance><data id=\"f1\"><q/><s/><r jr:template=\"\"><n/></r><r><n/></r><meta><instanceID/></meta></data></instance><instance id=\"yn\"><root><item><name>y</name><label>Yes</label></item></root></instance><bind nodeset=\"/data/q\" type=\"string\"/><bind nodeset=\"/data/s\" type=\"string\"/><bind nodeset=\"/data/r\" relevant=\" /data/q  = 'a'\"/><bind nodeset=\"/data/r/n\" type=\"int\"/><bind nodeset=\"/data/meta/instanceID\" type=\"string\" readonly=\"true()\" jr:preload=\"uid\"/></model></h:head><h:body><input ref=\"/data/q\"><label>Q &amp; A</label></input><select1 ref=\"/data/s\"><label>S</label><itemset nodeset=\"instance('yn')/root/item\"><value ref=\"name\"/><label ref=\"label\"/></itemset></select1><group ref=\"/data/r\"><label>R</label><repeat nodeset=\"/data/r\"><input ref=\"/data/r/n\"><label>N</label></input></repeat></group></h:body></h:html>"

def isOkWith (r : Except Convert.Err Str) (s : Str) : Bool :=
  match r with
  | .ok t => t == s
  | .error _ => false

theorem isOkWith_eq {r : Except Convert.Err Str} {s : Str} (h : isOkWith r s = true) : r = .ok s := by
  unfold isOkWith at h
  split at h
  · rw [beq_iff_eq] at h; rw [h]
  · simp at h

/-! ## 6c. C03 for dynamic defaults and repeat counts (the other cells that go through `insert_xpaths`) -/

theorem orErr_none {a b : Option Convert.Err} (h : orErr a b = none) : a = none ∧ b = none := by
  cases a with
  | none => exact ⟨rfl, h⟩
  | some e => simp [orErr] at h

theorem exprErr_none {els : List Refs.Chain} {ctx : Refs.Chain} {v : Str} (h : exprErr els ctx v = none) :
    ∃ out, Refs.insertXpaths els (some ctx) {} v = some out := by
  unfold exprErr at h
  split at h
  · simp at h
  · split at h
    · simp at h
    · rename_i hn
      cases hi : Refs.insertXpaths els (some ctx) {} v with
      | none => simp [hi] at hn
      | some out => exact ⟨out, rfl⟩

mutual
/-- (path of the element, expression) of every dynamic default and every repeat-count attribute of the walk -/
def exprCells (pre : List Str) : DItem → List (List Str × Str)
  | .q d p =>
    (match get p.cells "default" with
     | some dv => if isDynDefault p.cells then [(pre ++ [d.name], dv)] else []
     | none => [])
  | .sec ct n _ p ks =>
    (if ct = .rep then p.attrs.map fun kv => (pre ++ [n], kv.2) else []) ++ exprCellsL (pre ++ [n]) ks
def exprCellsL (pre : List Str) : List DItem → List (List Str × Str)
  | [] => []
  | k :: ks => exprCells pre k ++ exprCellsL pre ks
end

theorem attrsErr_none (els : List Refs.Chain) (ctx : Refs.Chain) : ∀ (a : Controls.Dict), attrsErr els ctx a = none →
    ∀ kv ∈ a, ∃ out, Refs.insertXpaths els (some ctx) {} kv.2 = some out
  | [], _ => by simp
  | (k, v) :: rest, h => by
    obtain ⟨h1, h2⟩ := orErr_none (by simpa [attrsErr] using h)
    intro kv hkv
    simp only [List.mem_cons] at hkv
    rcases hkv with rfl | hkv
    · exact exprErr_none h1
    · exact attrsErr_none els ctx rest h2 kv hkv

mutual
theorem textsErr_exprs (els : List Refs.Chain) : ∀ (pre : List Str) (d : DItem), textsErr els pre d = none →
    ∀ pe ∈ exprCells pre d, ∃ out, Refs.insertXpaths els (some (ctxOf els pe.1)) {} pe.2 = some out
  | pre, .q d p, h => by
    obtain ⟨-, h2⟩ := orErr_none (by simpa [textsErr] using h)
    intro pe hpe
    simp only [exprCells] at hpe
    split at hpe
    · rename_i dv hdv
      rw [hdv] at h2
      simp only [] at h2
      split at hpe
      · rename_i hdyn
        simp only [hdyn, if_true] at h2
        simp only [List.mem_singleton] at hpe; subst hpe
        exact exprErr_none h2
      · simp at hpe
    · simp at hpe
  | pre, .sec ct n b p ks, h => by
    obtain ⟨-, h2⟩ := orErr_none (by simpa [textsErr] using h)
    obtain ⟨h3, h4⟩ := orErr_none h2
    intro pe hpe
    simp only [exprCells, List.mem_append] at hpe
    rcases hpe with hpe | hpe
    · split at hpe
      · rename_i hrep
        simp only [hrep, if_true] at h3
        obtain ⟨kv, hkv, rfl⟩ := List.mem_map.mp hpe
        exact attrsErr_none els _ p.attrs h3 kv hkv
      · simp at hpe
    · exact textsErrL_exprs els (pre ++ [n]) ks h4 pe hpe
theorem textsErrL_exprs (els : List Refs.Chain) : ∀ (pre : List Str) (ds : List DItem), textsErrL els pre ds = none →
    ∀ pe ∈ exprCellsL pre ds, ∃ out, Refs.insertXpaths els (some (ctxOf els pe.1)) {} pe.2 = some out
  | _, [], _ => by simp [exprCellsL]
  | pre, k :: ks, h => by
    obtain ⟨h1, h2⟩ := orErr_none (by simpa [textsErrL] using h)
    intro pe hpe
    simp only [exprCellsL, List.mem_append] at hpe
    rcases hpe with hpe | hpe
    · exact textsErr_exprs els pre k h1 pe hpe
    · exact textsErrL_exprs els pre ks h2 pe hpe
end

/-- **C03 for dynamic defaults and repeat counts** (`_partial`: `GoodNames` as hypotheses, as in `convert_c03_partial`).
    In a successful conversion every dynamic default (the `value` of its `setvalue`) and every control attribute of a
    repeat (`jr:count`) was substituted by `Refs.refFor` from the element's own node, and every `${name}` in it,
    evaluated from that node, reaches the element it names. -/
theorem convert_c03_exprs_partial (wb : Workbook) (doc : Node) (h : convertDoc wb = .ok doc) :
    ∃ (els : List Refs.Chain) (root : Str) (ditems : List DItem),
      (∀ t ∈ els, Refs.GoodNames t.path) → ∀ pe ∈ exprCellsL [root] ditems, Refs.GoodNames (ctxOf els pe.1).path →
        (∃ out, Refs.insertXpaths els (some (ctxOf els pe.1)) {} pe.2 = some out) ∧ HolesResolve els (ctxOf els pe.1) pe.2 := by
  obtain ⟨f, lists, rows, drows, o, ditems, T⟩ := convertDoc_trace wb doc h
  refine ⟨elsOf f.name (dWithMeta f.name rows ditems), f.name, ditems, ?_⟩
  intro hv pe hpe hc
  obtain ⟨out, hout⟩ := textsErrL_exprs _ _ _ T.htexts pe hpe
  exact ⟨⟨out, hout⟩, insertXpaths_holes _ hv _ hc _ out hout⟩

#print axioms convert_c03_exprs_partial

/-! ## 4b. the hypothesis of `convert_c01`, on the sources of the names -/

mutual
theorem noBr_instNode (defs : List (List Str × Str)) : ∀ (pre : List Str) (t : NT), ntAll noBr t = true →
    noBrTree (instNode defs pre t) = true
  | pre, .node n t ks, h => by
    rw [ntAll_node, Bool.and_eq_true] at h
    have ha : (Convert.tmplAttrs t).all (fun kv => noBr kv.1) = true := by cases t <;> decide
    cases ks with
    | nil =>
      simp only [instNode]
      refine noBr_elem h.1 ha ?_
      split <;> simp [noBrKids, noBrTree]
    | cons k ks' =>
      simp only [instNode]
      exact noBr_elem h.1 ha (noBr_instNodes defs (pre ++ [n]) (k :: ks') h.2)
theorem noBr_instNodes (defs : List (List Str × Str)) : ∀ (pre : List Str) (ts : List NT), ntAllL noBr ts = true →
    noBrKids (instNodes defs pre ts) = true
  | _, [], _ => by simp [instNodes, noBrKids]
  | pre, k :: ks, h => by
    rw [ntAllL_cons, Bool.and_eq_true] at h
    simp only [instNodes]
    exact noBrKids_cons (noBr_instNode defs pre k h.1) (noBr_instNodes defs pre ks h.2)
end

/-- **`NamesClean` from the sources of the names.**  The produced document is `]`-free when the header's
    user-supplied names are (`HeaderNoBr`: namespaces prefixes, `attribute::`/`instance::` settings columns, form
    name), the *names of the element tree* (the `name` cells, plus the generated `_count` / `_other` / meta names)
    are, and the bind / secondary-instance / body nodes are.  The frame and the whole primary instance are
    thereby discharged; what remains is stated on the nodes built by the `Binds` / `Choices` / `Controls` models. -/
theorem namesClean_of_sources {wb : Workbook} {doc : Node} {f : Fields} {lists rows drows o ditems}
    (T : Trace wb doc f lists rows drows o ditems) (H : HeaderNoBr f)
    (hnames : ∀ x ∈ allNamesL (withMeta rows [] o.items), noBr x = true)
    (hrest : noBrKids ((Choices.staticInsts [] (othersApplied (activeRows rows) lists)).map Choices.instNode ++
      bindNodesL (elsOf f.name (dWithMeta f.name rows ditems)) [(f.name, .group)] (dWithMeta f.name rows ditems)) = true)
    (hbody : noBrKids (bodyNodesL (elsOf f.name (dWithMeta f.name rows ditems)) [f.name] ditems) = true) : NamesClean doc := by
  obtain ⟨ks, items, _, _, hitems, hinst, _, _⟩ := formOut_ok _ _ _ _ _ T.hform
  have hk : ntKids o.inst = instKids false (withMeta rows [] o.items) := by
    rw [hinst, hitems]; rfl
  unfold NamesClean
  rw [T.hdoc]
  refine noBrTree_assemble f H none _ _ _ (fun ks h => by cases h) ?_ hrest hbody
  rw [hk]
  exact noBr_instNodes _ _ _ (ntAll_instKids noBr false _ hnames)

/-- **C01 for the whole conversion, hypotheses on the sources of the names.**  As `convert_c01`, with `NamesClean`
    replaced by: the header's user-supplied names and the names of the element tree contain no `]`, and the bind /
    secondary-instance / body nodes are `]`-free. -/
theorem convert_c01_sources (wb : Workbook) (p : Bool) (text : Str) (h : convert wb p = .ok text)
    (hs : ∀ doc f lists rows drows o ditems, Trace wb doc f lists rows drows o ditems →
      HeaderNoBr f ∧ (∀ x ∈ allNamesL (withMeta rows [] o.items), noBr x = true) ∧
      noBrKids ((Choices.staticInsts [] (othersApplied (activeRows rows) lists)).map Choices.instNode ++
        bindNodesL (elsOf f.name (dWithMeta f.name rows ditems)) [(f.name, .group)] (dWithMeta f.name rows ditems)) = true ∧
      noBrKids (bodyNodesL (elsOf f.name (dWithMeta f.name rows ditems)) [f.name] ditems) = true) :
    holds text (normAttrVal (formId wb)) = true := by
  refine convert_c01 wb p text h ?_
  intro doc hd
  obtain ⟨f, lists, rows, drows, o, ditems, T⟩ := convertDoc_trace wb doc hd
  obtain ⟨h1, h2, h3, h4⟩ := hs doc f lists rows drows o ditems T
  exact namesClean_of_sources T h1 h2 h3 h4

#print axioms convert_c01_sources

def namesCleanB (wb : Workbook) : Bool :=
  match convertDoc wb with
  | .ok d => noBrTree d
  | .error _ => false

theorem namesClean_of_B {wb : Workbook} (h : namesCleanB wb = true) : ∀ doc, convertDoc wb = .ok doc → NamesClean doc := by
  intro doc hd
  simp only [namesCleanB, hd] at h
  exact h

set_option maxRecDepth 1000000 in
/-- the composed model computes, for the example workbook, exactly this text (a group of the fragment's features:
    escaped label text, a select with its itemset and secondary instance, a repeat with template, a `${q}`
    reference in a bind, the form id) -/
theorem ex_convert : convert exWb false = .ok exText := isOkWith_eq (by decide +kernel)

set_option maxRecDepth 1000000 in
theorem ex_clean : namesCleanB exWb = true := by decide +kernel

-- the hypotheses of the four theorems hold for the example, and the conclusions are about this very text
example : holds exText (normAttrVal (formId exWb)) = true :=
  convert_c01 exWb false exText ex_convert (namesClean_of_B ex_clean)
example : ∃ tp tc, convert exWb true = .ok tp ∧ convert exWb false = .ok tc ∧
    Option.map stripWs (parseDoc tp) = Option.map stripWs (parseDoc tc) ∧
    (parseDoc tp).isSome = true ∧ (parseDoc tc).isSome = true :=
  convert_c15 exWb false exText ex_convert (fun d hd => namesClean_of_B ex_clean d hd)
example : ∃ doc, convertDoc exWb = .ok doc ∧ exText = renderDoc false doc := convert_ok exWb false exText ex_convert
example : ∃ doc, convertDoc exWb = .ok doc ∧ ∃ rt, primaryRoot doc = some rt ∧
    ∀ s ∈ bindRefs doc ++ ctlRefsL (bodyKidsOf doc),
      ∃ p, s = xpathStr p ∧ resolves (NT.node (tagOf rt) false (ntOfL (kidsOf rt))) p = true := by
  obtain ⟨doc, hd, -⟩ := convert_ok exWb false exText ex_convert
  exact ⟨doc, hd, convert_c02_partial exWb doc hd⟩
example : ∃ doc, convertDoc exWb = .ok doc ∧ ∃ key rows lists ks items rt,
    Binds.headerKey exWb.surveyCols = .ok key ∧ canonRows key exWb.survey = .ok rows ∧
    classifyAll lists 2 rows = .ok ks ∧ nest ks = .ok items ∧ primaryRoot doc = some rt ∧
    Form.eraseL (ntOfL (kidsOf rt)) = Form.plainL (withMeta rows [] items) := by
  obtain ⟨doc, hd, -⟩ := convert_ok exWb false exText ex_convert
  exact ⟨doc, hd, convert_c04 exWb doc hd⟩

end Pyxv.ConvertP
