import Pyxv.Model.PreLoop
import Pyxv.Proofs.C17NoInternal
/-!
# C17 — `no_internal` beyond the row loop: header splitting and the settings reads of `workbook_to_json`
-/
namespace Pyxv.PreLoop
open Pyxv Pyxv.RowLoop

/-- **header splitting never raises** when the first `jr` token of a `:`-delimited header is not its last token
    (complement of the `x:jr` shape of F14), for token lists of any length -/
theorem jrJoin_no_internal : ∀ (toks : List Str), jrOk toks = true → NoInt (jrJoin toks)
  | [], _ => noInt_ok _
  | t :: rest, h => by
    unfold jrJoin
    unfold jrOk at h
    by_cases ht : t = jr
    · simp only [ht, ↓reduceIte] at h ⊢
      cases rest with
      | nil => simp at h
      | cons n rest' => exact noInt_ok _
    · simp only [ht, ↓reduceIte] at h ⊢
      have ih := jrJoin_no_internal rest h
      cases hj : jrJoin rest with
      | ok ts => exact noInt_ok _
      | error e =>
        intro c s he
        injection he with he
        exact ih c s (by rw [hj, he])

/-- and conversely: the excluded shape does raise (`IndexError`) -/
theorem jrJoin_internal : ∀ (toks : List Str), jrOk toks = false →
    jrJoin toks = .error (.internal "IndexError" "sheet_headers.py:process_header")
  | [], h => by simp [jrOk] at h
  | t :: rest, h => by
    unfold jrJoin
    unfold jrOk at h
    by_cases ht : t = jr
    · simp only [ht, ↓reduceIte] at h ⊢
      cases rest with
      | nil => rfl
      | cons n rest' => simp at h
    · simp only [ht, ↓reduceIte] at h ⊢
      rw [jrJoin_internal rest h]

theorem headerTokens_no_internal (useDouble : Bool) (h : Str)
    (hg : useDouble = true ∨ isInfix [':', ':'] h = true ∨ jrOk ((splitOnChar ':' h).map strip) = true) :
    NoInt (headerTokens useDouble h) := by
  unfold headerTokens
  by_cases hc : (useDouble || isInfix [':', ':'] h) = true
  · rw [if_pos hc]; exact noInt_ok _
  · rw [if_neg hc]
    rcases hg with h1 | h1 | h1
    · simp [h1] at hc
    · simp [h1] at hc
    · exact jrJoin_no_internal _ h1

theorem hashKey_noInt (s : TRow) (key : String) (h : cellIsStr s key = true) : NoInt (hashKey s key) := by
  intro c st
  unfold hashKey
  unfold cellIsStr at h
  split <;> simp_all

/-- **the settings reads of `workbook_to_json` never raise** under `settingsOk` (the complement of F22 on the keys
    that function reads), whatever else the settings row contains -/
theorem settingsOps_no_internal (s : TRow) (c : SCtx) (h : settingsOk s = true) : NoInt (settingsOps s c) := by
  unfold settingsOk at h
  simp only [Bool.and_eq_true] at h
  obtain ⟨⟨⟨⟨h1, h2⟩, h3⟩, h4⟩, h5⟩ := h
  unfold settingsOps
  refine noInt_bind _ _ (hashKey_noInt s _ h1) (fun _ _ => ?_)
  refine noInt_bind _ _ (noInt_ite (hashKey_noInt s _ h2) (noInt_ok _)) (fun _ _ => ?_)
  refine noInt_bind _ _ (noInt_ite (hashKey_noInt s _ h3) (noInt_ok _)) (fun _ _ => ?_)
  refine noInt_crash _ _ _ _ ?_ (hashKey_noInt s _ h4)
  cases hl : lookup (k "children") s with
  | none => rfl
  | some v => rw [hl] at h5; cases h5

/-! ### Non-vacuity and witnesses -/
def isInt {α} (cls site : String) : M α → Bool
  | .error (.internal c s) => c == cls && s == site
  | _ => false

def tk (l : List String) : List Str := l.map String.toList

example : jrOk (tk ["bind", "jr", "count"]) = true ∧ jrOk (tk ["x", "jr"]) = false ∧ jrOk (tk ["jr"]) = false ∧
    jrOk (tk ["jr", "jr"]) = true := by decide +kernel
example : (match headerTokens false "bind:jr:constraintMsg".toList with
    | .ok ts => ts == tk ["bind", "jr:constraintMsg"] | _ => false) = true := by decide +kernel
example : isInt "IndexError" "sheet_headers.py:process_header" (headerTokens false "x:jr".toList) = true := by
  decide +kernel
example : (match headerTokens true "x:jr".toList with | .ok ts => ts == tk ["x:jr"] | _ => false) = true := by decide +kernel

def s1 : TRow := [cs "form_title" "T", cs "omit_instanceID" "yes", cd "attribute" [cs "x" "1"]]
example : settingsOk s1 = true := by decide +kernel
example : (match settingsOps s1 ⟨true, true⟩ with | .ok () => true | _ => false) = true := by decide +kernel
example : isInt "TypeError" "xls2json.py:workbook_to_json"
    (settingsOps [cd "clean_text_values" [cs "x" "no"]] ⟨false, true⟩) = true := by decide +kernel
example : isInt "AttributeError" "xls2json.py:workbook_to_json"
    (settingsOps [cs "children" "x"] ⟨false, true⟩) = true := by decide +kernel
example : isInt "TypeError" "xls2json.py:workbook_to_json"
    (settingsOps [cd "allow_choice_duplicates" [cs "x" "yes"]] ⟨true, true⟩) = true := by decide +kernel
example : (match settingsOps [cd "allow_choice_duplicates" [cs "x" "yes"]] ⟨false, true⟩ with | .ok () => true | _ => false) = true := by
  decide +kernel

end Pyxv.PreLoop
