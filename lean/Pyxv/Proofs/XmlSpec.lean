import Pyxv.Model.Xml
/-!
# Specification-level definitions for the XML round trip

Only definitions (all executable, `Bool`-valued predicates); the theorems are in
`XmlRoundTrip.lean`, helper lemmas in `XmlLemmas.lean`.
-/
namespace Pyxv.Xml

/-- characters allowed in a text node: XML `Char` minus CR (any XML reader turns CR into LF) -/
def textCharOk (c : Char) : Bool := isXmlChar c && c != '\r'

/-- characters allowed in an attribute value: XML `Char` minus TAB/LF/CR (attribute-value
    normalisation turns each of them into a space) -/
def attrCharOk (c : Char) : Bool := isXmlChar c && c != '\t' && c != '\n' && c != '\r'

/-- attribute list: keys are names and pairwise distinct, values are made of `attrCharOk` -/
def attrsWF (a : List (Str × Str)) : Bool :=
  a.all (fun kv => isName kv.1 && kv.2.all attrCharOk) && attrKeysNodup a

mutual
/-- well-formedness of a DOM tree handed to the writer.  Text may be empty and text nodes may be
    adjacent (the Python DOM produces both). -/
def Node.WF : Node → Bool
  | .text _ s => s.all textCharOk
  | .elem t a ks => isName t && attrsWF a && WFKids ks
def WFKids : List Node → Bool
  | [] => true
  | k :: ks => k.WF && WFKids ks
end

/-! ### The lax variant: attribute values may contain TAB/LF/CR and text may contain CR, which a
reader normalises -/

/-- attribute-value normalisation as seen through `_write_data` (which writes TAB/LF/CR raw):
    XML 1.0 §2.11 + §3.3.3 turn CR LF, CR, LF and TAB into one space each -/
def normAttrVal : Str → Str
  | [] => []
  | '\r' :: '\n' :: r => ' ' :: normAttrVal r
  | c :: r => (if c = '\r' ∨ c = '\t' ∨ c = '\n' then ' ' else c) :: normAttrVal r

/-- line-end normalisation (XML 1.0 §2.11): CR LF and a lone CR become LF -/
def normEol : Str → Str
  | [] => []
  | '\r' :: '\n' :: r => '\n' :: normEol r
  | c :: r => (if c = '\r' then '\n' else c) :: normEol r

mutual
/-- the tree with line ends normalised in every text node -/
def normText : Node → Node
  | .text b s => .text b (normEol s)
  | .elem t a ks => .elem t a (normTextKids ks)
def normTextKids : List Node → List Node
  | [] => []
  | k :: ks => normText k :: normTextKids ks
end

mutual
/-- no text node contains CR -/
def noCR : Node → Bool
  | .text _ s => s.all (fun c => c != '\r')
  | .elem _ _ ks => noCRKids ks
def noCRKids : List Node → Bool
  | [] => true
  | k :: ks => noCR k && noCRKids ks
end

def normAttrList (a : List (Str × Str)) : List (Str × Str) := a.map fun kv => (kv.1, normAttrVal kv.2)

mutual
/-- the tree with every attribute value normalised -/
def normAttrs : Node → Node
  | .text b s => .text b s
  | .elem t a ks => .elem t (normAttrList a) (normAttrsKids ks)
def normAttrsKids : List Node → List Node
  | [] => []
  | k :: ks => normAttrs k :: normAttrsKids ks
end

/-- as `attrsWF`, but values are arbitrary XML characters -/
def attrsWFLax (a : List (Str × Str)) : Bool :=
  a.all (fun kv => isName kv.1 && kv.2.all isXmlChar) && attrKeysNodup a

mutual
/-- as `Node.WF`, but attribute values may contain TAB/LF/CR and text may contain CR -/
def Node.WFLax : Node → Bool
  | .text _ s => s.all isXmlChar
  | .elem t a ks => isName t && attrsWFLax a && WFKidsLax ks
def WFKidsLax : List Node → Bool
  | [] => true
  | k :: ks => k.WFLax && WFKidsLax ks
end

def isElem : Node → Bool
  | .elem _ _ _ => true
  | .text _ _ => false

/-- the `" "` the mixed-content rule of `render` writes before the children -/
def leadSp : List Node → Str
  | [] => []
  | k :: ks => if ks.isEmpty then [] else if isText k then [' '] else []

/-- the `" "` the mixed-content rule of `render` writes after the children -/
def trailSp : List Node → Str
  | [] => []
  | _ :: ks => if ks.isEmpty then [] else [' ']

def textIfNonempty (s : Str) : List Node := if s.isEmpty then [] else [.text false s]

mutual
/-- the tree with the boundary spaces of the compact output made explicit -/
def withSpaces : Node → Node
  | .text b s => .text b s
  | .elem t a ks =>
    if ks.any isText then
      .elem t a (textIfNonempty (leadSp ks) ++ withSpacesKids ks ++ textIfNonempty (trailSp ks))
    else .elem t a (withSpacesKids ks)
def withSpacesKids : List Node → List Node
  | [] => []
  | k :: ks => withSpaces k :: withSpacesKids ks
end

/-- what an XML reader must report for the compact output `renderDoc false t` -/
def expected (t : Node) : Node := normNode (withSpaces t)

mutual
/-- the tree with *all* the layout text of `render ind add nl` made explicit: every child is
    preceded by the text `ind` and followed by the text `nl` (as in `renderKids`); an element
    with a text child has `[] [] []` layout inside plus the boundary spaces; an element with
    only element children has `nl` after the start tag and `ind` before the end tag. -/
def layout (ind add nl : Str) : Node → Node
  | .text b s => .text b s
  | .elem t a [] => .elem t a []
  | .elem t a (k :: ks) =>
    .elem t a
      (if (k :: ks).any isText then
        .text false (leadSp (k :: ks)) :: layoutKids [] [] [] (k :: ks) ++ [.text false (trailSp (k :: ks))]
       else
        .text false nl :: layoutKids (ind ++ add) add nl (k :: ks) ++ [.text false ind])
def layoutKids (ind add nl : Str) : List Node → List Node
  | [] => []
  | k :: ks => .text false ind :: layout ind add nl k :: .text false nl :: layoutKids ind add nl ks
end

/-- what an XML reader must report for the pretty output `renderDoc true t` -/
def expectedPretty (t : Node) : Node := normNode (layout [] [' ', ' '] ['\n'] t)

/-- what an XML reader reports for the compact output of a tree whose attribute values may contain
    TAB/LF/CR and whose text may contain CR: attribute values normalised (`normAttrs`), then the
    boundary spaces, text merging (`expected`), then line ends normalised in the merged text
    (`normText`; it has to come last: `"a\r"` next to `"\nb"` is read as `"a\nb"`). -/
def expectedLax (t : Node) : Node := normText (expected (normAttrs t))
def expectedPrettyLax (t : Node) : Node := normText (expectedPretty (normAttrs t))

mutual
/-- decidable equality on `Node` (the `deriving` handler does not support nested inductives) -/
def decEqNode : (a b : Node) → Decidable (a = b)
  | .text b1 s1, .text b2 s2 =>
    if h : b1 = b2 ∧ s1 = s2 then isTrue (by rw [h.1, h.2])
    else isFalse (by intro e; injection e with e1 e2; exact h ⟨e1, e2⟩)
  | .elem t1 a1 k1, .elem t2 a2 k2 =>
    if h : t1 = t2 ∧ a1 = a2 then
      match decEqKids k1 k2 with
      | isTrue hk => isTrue (by rw [h.1, h.2, hk])
      | isFalse hk => isFalse (by intro e; injection e with _ _ e3; exact hk e3)
    else isFalse (by intro e; injection e with e1 e2 _; exact h ⟨e1, e2⟩)
  | .text _ _, .elem _ _ _ => isFalse (by intro e; cases e)
  | .elem _ _ _, .text _ _ => isFalse (by intro e; cases e)
def decEqKids : (a b : List Node) → Decidable (a = b)
  | [], [] => isTrue rfl
  | [], _ :: _ => isFalse (by intro e; cases e)
  | _ :: _, [] => isFalse (by intro e; cases e)
  | x :: xs, y :: ys =>
    match decEqNode x y, decEqKids xs ys with
    | isTrue h1, isTrue h2 => isTrue (by rw [h1, h2])
    | isFalse h1, _ => isFalse (by intro e; injection e with e1 _; exact h1 e1)
    | _, isFalse h2 => isFalse (by intro e; injection e with _ e2; exact h2 e2)
end
instance : DecidableEq Node := decEqNode

end Pyxv.Xml
