import Pyxv.Proofs.C02
import Pyxv.Model.FormFlat
/-!
# C02 with row-level `flat` groups

Theorems about `FormFlat.formOutFlat` (rows → begin/end stack with the `flat` flag → flat-aware tree → validation
that looks through flat groups → instance / bind nodesets / body refs), for every sheet: any number of rows, flat
groups at any depth, nested in each other or in plain groups.
-/
namespace Pyxv.C02
open Pyxv Pyxv.Form Pyxv.Rows Pyxv.FormFlat

theorem wfL_append' (a b : List Item) : wfL (a ++ b) = (wfL a && wfL b) := by
  induction a with
  | nil => simp [wfL]
  | cons x xs ih => simp [wfL, ih, Bool.and_assoc]

mutual
theorem wf_liftItem : (it : FItem) → wfItem it = true → wfL (liftItem it) = true
  | .q d, h => by
    simp only [wfItem] at h
    simp [liftItem, wfL, Item.wf, QData.wf, h]
  | .sec ct n b fl ks, h => by
    simp only [wfItem] at h
    have ih := wf_liftL ks h
    cases fl <;> simp [liftItem, wfL, Item.wf, ih]
theorem wf_liftL : (its : List FItem) → wfFL its = true → wfL (liftL its) = true
  | [], _ => by simp [liftL, wfL]
  | k :: ks, h => by
    simp only [wfFL, Bool.and_eq_true] at h
    simp [liftL, wfL_append', wf_liftItem k h.1, wf_liftL ks h.2]
end

theorem liftL_append (a b : List FItem) : liftL (a ++ b) = liftL a ++ liftL b := by
  induction a with
  | nil => simp [liftL]
  | cons x xs ih => simp [liftL, ih]

/-- what `formOutFlat` returns when it accepts -/
theorem formOutFlat_ok (root : Str) (lists : List Str) (rows : List Cells) (settings : Cells) (o : FlatOut)
    (h : formOutFlat root lists rows settings = .ok o) :
    ∃ all : List FItem, wfFL all = true ∧ safeL false false all = true ∧
      validateKids root (liftL all) = .ok () ∧ firstDupStr [] (root :: secNamesL all) = none ∧
      all = withMetaF (rows.map dropFlat) settings o.items ∧
      o.inst = instanceOf root (liftL all) ∧ o.binds = bindPathsL [root] (liftL all) ∧
      o.body = bodyPathsL [root] (liftL o.items) := by
  unfold formOutFlat at h
  simp only [] at h
  split at h
  · cases h
  · split at h
    · cases h
    · split at h
      · cases h
      · split at h
        · cases h
        · split at h
          · cases h
          · split at h
            · cases h
            · rename_i hsafe
              split at h
              · cases h
              · rename_i hwf
                split at h
                · cases h
                · split at h
                  · cases h
                  · rename_i hv
                    split at h
                    · cases h
                    · rename_i hs
                      injection h with h; subst h
                      refine ⟨_, ?_, ?_, ?_, hs, rfl, rfl, rfl, rfl⟩
                      · simpa using hwf
                      · simpa using hsafe
                      · cases hv' : validateKids root (liftL (withMetaF (rows.map dropFlat) settings _)) with
                        | error e => rw [hv'] at hv; cases hv
                        | ok u => rfl

theorem wfFL_append (a b : List FItem) : wfFL (a ++ b) = (wfFL a && wfFL b) := by
  induction a with
  | nil => simp [wfFL]
  | cons x xs ih => simp [wfFL, ih, Bool.and_assoc]

theorem wfFL_of_withMetaF (rows : List Cells) (settings : Cells) (items : List FItem)
    (h : wfFL (withMetaF rows settings items) = true) : wfFL items = true := by
  unfold withMetaF at h
  simp only [] at h
  split at h
  · exact h
  · rw [wfFL_append] at h; simp only [Bool.and_eq_true] at h; exact h.1

theorem reach_withMetaF (rows : List Cells) (settings : Cells) (items : List FItem) (p : List Str)
    (h : Reach (liftL items) p) : Reach (liftL (withMetaF rows settings items)) p := by
  unfold withMetaF
  simp only []
  split
  · exact h
  · rw [liftL_append]; exact reach_append_left _ h

/-- **Closure with flat groups**: whenever the flat-aware pipeline accepts a sheet — flat groups at any depth,
    nested in each other and in plain groups, beside repeats — every bind nodeset and every body `ref` /
    `nodeset` (none of which has a segment for a flat group) resolves to a node of the primary instance (which
    has no node for a flat group). -/
theorem refs_resolve_flat (root : Str) (lists : List Str) (rows : List Cells) (settings : Cells) (o : FlatOut)
    (h : formOutFlat root lists rows settings = .ok o) :
    ∀ p ∈ o.binds ++ o.body, resolves o.inst p = true := by
  obtain ⟨all, hwf, _, _, _, hall, hi, hb, hbody⟩ := formOutFlat_ok root lists rows settings o h
  rw [hi, hb, hbody]
  have hwfl := wf_liftL all hwf
  have hwfi : wfL (liftL o.items) = true := wf_liftL _ (wfFL_of_withMetaF _ settings _ (hall ▸ hwf))
  intro p hp'
  simp only [List.mem_append] at hp'
  rcases hp' with hp' | hp'
  · rw [bindPathsL_prefix] at hp'
    simp only [List.mem_map] at hp'
    obtain ⟨q, hq, rfl⟩ := hp'
    exact resolves_of_reach root _ q (bind_reach_list _ hwfl q hq)
  · rw [bodyPathsL_prefix] at hp'
    simp only [List.mem_map] at hp'
    obtain ⟨q, hq, rfl⟩ := hp'
    have := reach_withMetaF (rows.map dropFlat) settings o.items q (body_reach_list _ hwfi q hq)
    rw [← hall] at this
    exact resolves_of_reach root _ q this

/-- **Sibling uniqueness looks through flat groups**: in an accepted sheet, at every level of the instance-level
    tree (children of flat groups counted at the level of the nearest non-flat ancestor) sibling names are pairwise
    different even ignoring case. -/
theorem siblings_unique_flat (root : Str) (lists : List Str) (rows : List Cells) (settings : Cells) (o : FlatOut)
    (h : formOutFlat root lists rows settings = .ok o) :
    sibsOK (liftL (withMetaF (rows.map dropFlat) settings o.items)) = true := by
  obtain ⟨all, _, _, hv, _, hall, _⟩ := formOutFlat_ok root lists rows settings o h
  rw [← hall]
  exact (validateKids_ok_iff root _).mp hv

/-- **A clash through a flat group is rejected**: if lifting the children of flat groups produces two siblings
    whose names differ at most by case, the sibling validation of the flat-aware pipeline fails. -/
theorem flat_clash_rejected (root : Str) (all : List FItem) (h : sibsOK (liftL all) = false) :
    ∃ e, validateKids root (liftL all) = .error e := by
  cases hk : validateKids root (liftL all) with
  | error e => exact ⟨e, rfl⟩
  | ok u =>
    have := (validateKids_ok_iff root _).mp hk
    rw [h] at this; cases this

/-- **A flat group is no instance node**: the non-template part of the instance of an accepted sheet is exactly
    the lifted element tree — one node per non-flat element, none for a flat group. -/
theorem flat_instance_is_lifted_tree (root : Str) (lists : List Str) (rows : List Cells) (settings : Cells) (o : FlatOut)
    (h : formOutFlat root lists rows settings = .ok o) :
    erase o.inst = [NT.node root false (plainL (liftL (withMetaF (rows.map dropFlat) settings o.items)))] := by
  obtain ⟨all, _, _, _, _, hall, hi, _⟩ := formOutFlat_ok root lists rows settings o h
  rw [hi, hall]
  exact instance_is_tree root _

/-! ### code-shaped paths = paths of the lifted tree -/

theorem bindPathsL_append' (pre : List Str) (a b : List Item) :
    bindPathsL pre (a ++ b) = bindPathsL pre a ++ bindPathsL pre b := by
  induction a with
  | nil => simp [bindPathsL]
  | cons x xs ih => simp [bindPathsL, ih]

theorem bodyPathsL_append' (pre : List Str) (a b : List Item) :
    bodyPathsL pre (a ++ b) = bodyPathsL pre a ++ bodyPathsL pre b := by
  induction a with
  | nil => simp [bodyPathsL]
  | cons x xs ih => simp [bodyPathsL, ih]

mutual
theorem bindPathsF_eq_lift : (it : FItem) → (pre : List Str) → bindPathsF pre it = bindPathsL pre (liftItem it)
  | .q d, pre => by simp [bindPathsF, liftItem, bindPathsL, bindPaths]
  | .sec ct n b fl ks, pre => by
    cases fl
    · simp [bindPathsF, liftItem, bindPathsL, bindPaths, bindPathsFL_eq_lift ks (pre ++ [n])]
    · simp [bindPathsF, liftItem, bindPathsFL_eq_lift ks pre]
/-- **No bind and no path segment for a flat group**: walking the flat-aware tree as `xml_bindings` / `get_xpath` do
    gives exactly the bind nodesets of the lifted tree. -/
theorem bindPathsFL_eq_lift : (its : List FItem) → (pre : List Str) → bindPathsFL pre its = bindPathsL pre (liftL its)
  | [], pre => by simp [bindPathsFL, liftL, bindPathsL]
  | k :: ks, pre => by
    simp [bindPathsFL, liftL, bindPathsL_append', bindPathsF_eq_lift k pre, bindPathsFL_eq_lift ks pre]
end

mutual
theorem bodyPathsF_eq_lift : (it : FItem) → (pre : List Str) → bodyPathsF pre it = bodyPathsL pre (liftItem it)
  | .q d, pre => by simp [bodyPathsF, liftItem, bodyPathsL, bodyPaths]
  | .sec ct n b fl ks, pre => by
    cases fl
    · cases ct <;> simp [bodyPathsF, liftItem, bodyPathsL, bodyPaths, bodyPathsFL_eq_lift ks (pre ++ [n])]
    · simp [bodyPathsF, liftItem, bodyPathsFL_eq_lift ks pre]
/-- **No ref and no path segment for a flat group**: walking the flat-aware tree as `xml_control` / `get_xpath` do
    gives exactly the body refs of the lifted tree. -/
theorem bodyPathsFL_eq_lift : (its : List FItem) → (pre : List Str) → bodyPathsFL pre its = bodyPathsL pre (liftL its)
  | [], pre => by simp [bodyPathsFL, liftL, bodyPathsL]
  | k :: ks, pre => by
    simp [bodyPathsFL, liftL, bodyPathsL_append', bodyPathsF_eq_lift k pre, bodyPathsFL_eq_lift ks pre]
end

/-- the driver's answer (`shapeOut`) is the accepted output itself -/
theorem shapeOut_eq (root : Str) (lists : List Str) (rows : List Cells) (settings : Cells) (o : FlatOut)
    (h : formOutFlat root lists rows settings = .ok o) : shapeOut root rows settings o = o := by
  obtain ⟨all, _, _, _, _, hall, _, hb, hbody⟩ := formOutFlat_ok root lists rows settings o h
  cases o with
  | mk items inst binds body =>
    simp only [shapeOut] at *
    rw [bindPathsFL_eq_lift, bodyPathsFL_eq_lift, ← hall, ← hb, ← hbody]

/-- **Closure of what the driver reports** (code-shaped bind nodesets / body refs against the instance). -/
theorem refs_resolve_flat_shape (root : Str) (lists : List Str) (rows : List Cells) (settings : Cells) (o : FlatOut)
    (h : formOutFlat root lists rows settings = .ok o) :
    ∀ p ∈ (shapeOut root rows settings o).binds ++ (shapeOut root rows settings o).body,
      resolves (shapeOut root rows settings o).inst p = true := by
  rw [shapeOut_eq root lists rows settings o h]
  exact refs_resolve_flat root lists rows settings o h

/-! ### Non-vacuity -/

def exFlat : List Cells := [
  [("type".toList, "text".toList), ("name".toList, "a".toList), ("label".toList, "A".toList)],
  [("type".toList, "begin group".toList), ("name".toList, "g".toList), ("label".toList, "G".toList)],
  [("type".toList, "begin group".toList), ("name".toList, "f".toList), ("label".toList, "F".toList), ("flat".toList, "yes".toList),
   ("bind::relevant".toList, "${a} = 1".toList)],
  [("type".toList, "text".toList), ("name".toList, "b".toList), ("label".toList, "B".toList)],
  [("type".toList, "begin group".toList), ("name".toList, "ff".toList), ("flat".toList, "1".toList)],
  [("type".toList, "integer".toList), ("name".toList, "c".toList), ("label".toList, "C".toList)],
  [("type".toList, "end group".toList)],
  [("type".toList, "end group".toList)],
  [("type".toList, "end group".toList)],
  [("type".toList, "begin repeat".toList), ("name".toList, "r".toList), ("label".toList, "R".toList)],
  [("type".toList, "text".toList), ("name".toList, "b".toList), ("label".toList, "B".toList)],
  [("type".toList, "end repeat".toList)]]

-- accepted; /data/g/b and /data/g/c skip the flat groups f and ff; no bind for f
example : (match formOutFlat "data".toList [] exFlat [] with
    | .ok o => (o.binds ++ o.body).all (resolves o.inst) &&
        (o.binds.map xpathStr).contains "/data/g/c".toList && (o.body.map xpathStr).contains "/data/g/b".toList &&
        !((o.binds ++ o.body).map xpathStr).contains "/data/g/f".toList && o.binds.length == 5 && o.body.length == 7
    | .error _ => false) = true := by decide +kernel

example : (match formOutFlat "data".toList [] exFlat [] with
    | .ok o => ((shapeOut "data".toList exFlat [] o).binds.map xpathStr).contains "/data/g/c".toList &&
        (shapeOut "data".toList exFlat [] o).body == o.body && (shapeOut "data".toList exFlat [] o).binds == o.binds
    | .error _ => false) = true := by decide +kernel

-- a clash seen only through the flat group (g/b beside g/f/b) is rejected
def exFlatClash : List Cells := [
  [("type".toList, "begin group".toList), ("name".toList, "g".toList), ("label".toList, "G".toList)],
  [("type".toList, "text".toList), ("name".toList, "B".toList), ("label".toList, "B".toList)],
  [("type".toList, "begin group".toList), ("name".toList, "f".toList), ("label".toList, "F".toList), ("flat".toList, "yes".toList)],
  [("type".toList, "text".toList), ("name".toList, "b".toList), ("label".toList, "B".toList)],
  [("type".toList, "end group".toList)],
  [("type".toList, "end group".toList)]]
example : (match formOutFlat "data".toList [] exFlatClash [] with
    | .error (.err (.dupSibling _ _)) => true | _ => false) = true := by decide +kernel
-- … and accepted without the flat mark
example : (match formOutFlat "data".toList [] (exFlatClash.map dropFlat) [] with
    | .ok o => (o.binds.map xpathStr).contains "/data/g/f/b".toList | _ => false) = true := by decide +kernel
example : sibsOK (liftL [FItem.sec .group "g".toList false false
    [.q { name := "b".toList, bind := true, control := true, node := true },
     .sec .group "f".toList false true [.q { name := "B".toList, bind := true, control := true, node := true }]]]) = false := by
  decide +kernel

end Pyxv.C02
