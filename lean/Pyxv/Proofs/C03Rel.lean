import Pyxv.Proofs.C03
/-! `relative_when_enclosed` for C03 and the tree facts it needs. -/
namespace Pyxv.Refs
open Pyxv

theorem Valid.prefix {els : List Chain} (hv : Valid els) (c : Chain) (hc : c ∈ els) (i : Nat) (h0 : 0 < i)
    (hi : i ≤ c.length) : c.take i ∈ els := by
  have := hv.prefixClosed c hc (i - 1) (by omega)
  rwa [show i - 1 + 1 = i by omega] at this

theorem path_take (c : Chain) (i : Nat) : Chain.path (c.take i) = c.path.take i := by
  simp [Chain.path, List.map_take]

theorem isRep_ne_nil {d : Chain} (h : d.isRep = true) : d ≠ [] := by
  intro e; subst e; simp [Chain.isRep] at h

/-- a prefix xpath of an element is the xpath of a repeat iff that ancestor is a repeat -/
theorem mem_reps_iff {els : List Chain} (hv : Valid els) {c : Chain} (hc : c ∈ els) (i : Nat) (h0 : 0 < i)
    (hi : i ≤ c.length) : pathStr (c.path.take i) ∈ repeatXpaths els ↔ Chain.isRep (c.take i) = true := by
  have hmem := hv.prefix c hc i h0 hi
  constructor
  · intro h
    simp only [repeatXpaths, List.mem_map, List.mem_filter] at h
    obtain ⟨d, ⟨hd, hrep⟩, hx⟩ := h
    have hdne : d.path ≠ [] := by
      have := isRep_ne_nil hrep
      simpa [Chain.path] using this
    have hcne : c.path.take i ≠ [] := by
      apply take_ne_nil _ _ h0
      simp [Chain.path]; omega
    have hp : d.path = c.path.take i :=
      pathStr_inj _ _ hdne hcne (hv.good d hd) ((hv.good c hc).take i) hx
    rw [← path_take] at hp
    have := hv.uniquePath d hd _ hmem hp
    rwa [← this]
  · intro h
    simp only [repeatXpaths, List.mem_map, List.mem_filter]
    exact ⟨c.take i, ⟨hmem, h⟩, by rw [Chain.xpath, path_take]⟩

/-! ### `has_common_repeat_parent`: a shared repeat ancestor is found -/

theorem hcrpRest_complete (os seenS seenO : List Chain) (x : Chain) (hx : x.isRep = true)
    (h1 : x ∈ seenS) (h2 : x ∈ os) : hcrpRest os seenS seenO = true := by
  induction os generalizing seenO with
  | nil => simp at h2
  | cons o os' ih =>
    rw [hcrpRest]
    by_cases ho : (o.isRep && seenS.contains o) = true
    · rw [if_pos ho]
    · rw [if_neg ho]
      rcases List.mem_cons.1 h2 with rfl | h
      · exfalso; apply ho; simp [hx, h1]
      · exact ih _ h

theorem hcrpLoop_complete (ss os seenS seenO : List Chain) (x : Chain) (hx : x.isRep = true)
    (h1 : x ∈ ss ∨ x ∈ seenS) (h2 : x ∈ os ∨ x ∈ seenO) (h3 : x ∈ ss ∨ x ∈ os) :
    hcrpLoop ss os seenS seenO = true := by
  induction ss generalizing os seenS seenO with
  | nil =>
    rw [hcrpLoop]
    have hs : x ∈ seenS := by simpa using h1
    have ho : x ∈ os := by simpa using h3
    exact hcrpRest_complete os seenS seenO x hx hs ho
  | cons s ss ih =>
    by_cases hs : (s.isRep && seenO.contains s) = true
    · cases os <;> simp only [hcrpLoop, if_pos hs]
    · cases os with
      | nil =>
        simp only [hcrpLoop, if_neg hs]
        have hxo : x ∈ seenO := by simpa using h2
        have hxs : x ∈ s :: ss := by simpa using h3
        rcases List.mem_cons.1 hxs with rfl | h
        · exfalso; apply hs; simp [hx, hxo]
        · exact ih [] _ _ (Or.inl h) (Or.inr hxo) (Or.inl h)
      | cons o os' =>
        simp only [hcrpLoop, if_neg hs]
        by_cases ho : (o.isRep && (s :: seenS).contains o) = true
        · rw [if_pos ho]
        · rw [if_neg ho]
          -- x is neither s-with-seenO nor o-with-(s :: seenS)
          have hx1 : x ∈ ss ∨ x ∈ s :: seenS := by
            rcases h1 with h | h
            · rcases List.mem_cons.1 h with rfl | h'
              · exact Or.inr (by simp)
              · exact Or.inl h'
            · exact Or.inr (by simp [h])
          have hx2 : x ∈ os' ∨ x ∈ o :: seenO := by
            rcases h2 with h | h
            · rcases List.mem_cons.1 h with rfl | h'
              · exact Or.inr (by simp)
              · exact Or.inl h'
            · exact Or.inr (by simp [h])
          have hx3 : x ∈ ss ∨ x ∈ os' := by
            apply Classical.byContradiction
            intro hcon
            have hn1 : x ∉ ss := fun h => hcon (Or.inl h)
            have hn2 : x ∉ os' := fun h => hcon (Or.inr h)
            -- then x = s or x = o at this iteration, and one of the two tests fires
            have hs' : x = s ∨ x ∈ seenS := by
              rcases h1 with h | h
              · rcases List.mem_cons.1 h with rfl | h'
                · exact Or.inl rfl
                · exact absurd h' hn1
              · exact Or.inr h
            have ho' : x = o ∨ x ∈ seenO := by
              rcases h2 with h | h
              · rcases List.mem_cons.1 h with rfl | h'
                · exact Or.inl rfl
                · exact absurd h' hn2
              · exact Or.inr h
            rcases ho' with rfl | hoS
            · apply ho
              rcases hs' with rfl | hsS
              · simp [hx]
              · simp [hx, hsS]
            · rcases hs' with rfl | hsS
              · apply hs; simp [hx, hoS]
              · rcases h3 with h | h
                · rcases List.mem_cons.1 h with rfl | h'
                  · apply hs; simp [hx, hoS]
                  · exact hn1 h'
                · rcases List.mem_cons.1 h with rfl | h'
                  · apply ho; simp [hx, hsS]
                  · exact hn2 h'
          exact ih _ _ _ hx1 hx2 hx3

theorem mem_ancestors (c : Chain) (r : Nat) (h0 : 0 < r) (hr : r < c.length) : c.take r ∈ ancestors c := by
  simp only [ancestors, List.mem_map, List.mem_reverse, List.mem_range]
  exact ⟨r - 1, by omega, by congr 1; omega⟩

theorem related_of_common_repeat (c t : Chain) (r : Nat) (h0 : 0 < r) (hrc : r < c.length) (hrt : r < t.length)
    (hrep : Chain.isRep (t.take r) = true) (henc : c.take r = t.take r) : related c t = true := by
  unfold related
  have h1 : t.take r ∈ ancestors c := henc ▸ mem_ancestors c r h0 hrc
  have h2 : t.take r ∈ ancestors t := mem_ancestors t r h0 hrt
  rw [hcrpLoop_complete _ _ [] [] (t.take r) hrep (Or.inl h1) (Or.inl h2) (Or.inl h1)]
  simp only [Bool.or_true]

/-! ### the string-prefix test, converse direction -/

theorem joinWith_append (sep : Str) (b r : List Str) (hb : b ≠ []) (hr : r ≠ []) :
    joinWith sep (b ++ r) = joinWith sep b ++ sep ++ joinWith sep r := by
  induction b with
  | nil => contradiction
  | cons x b' ih =>
    cases b' with
    | nil =>
      cases r with
      | nil => contradiction
      | cons y r' => simp [joinWith]
    | cons y b'' =>
      have := ih (by simp)
      simp only [List.cons_append] at this
      simp only [List.cons_append, joinWith, this]
      simp [List.append_assoc]

theorem startsWith_of_prefix (a b : List Str) (hb : b ≠ []) (h : b <+: a) :
    startsWith (pathStr a ++ ['/']) (pathStr b ++ ['/']) = true := by
  obtain ⟨r, rfl⟩ := h
  rw [startsWith_iff]
  by_cases hr : r = []
  · subst hr; exact ⟨[], by simp⟩
  · refine ⟨joinWith ['/'] r ++ ['/'], ?_⟩
    simp [pathStr, joinWith_append _ b r hb hr]

theorem relativePath_some (reps : List Str) (c t : Chain) (name : Str) (rp : Bool)
    (gc : GoodNames c.path) (gt : GoodNames t.path) (a : Str)
    (ha : t.path[1]? = some a) (hb : c.path[1]? = some a)
    (hrel : related c t = true) (res : Nat × List Str)
    (hss : shareSameRepeatParent reps t.xpath c.xpath rp = some res) (hres : res.1 ≠ 0) :
    ∃ d, relativePath reps c t name rp = some (res.1, d) := by
  have hc0 : c.path ≠ [] := by intro e; simp [e] at hb
  have ht0 : t.path ≠ [] := by intro e; simp [e] at ha
  have hclen : 2 ≤ c.path.length := by
    cases hcp : c.path with
    | nil => exact absurd hcp hc0
    | cons x xs =>
      cases xs with
      | nil => simp [hcp] at hb
      | cons y ys => simp
  unfold relativePath
  simp only [Chain.xpath, split_pathStr c.path hc0 gc, split_pathStr t.path ht0 gt, List.length_cons]
  have htlen : 2 ≤ t.path.length := by
    cases htp : t.path with
    | nil => exact absurd htp ht0
    | cons x xs =>
      cases xs with
      | nil => simp [htp] at ha
      | cons y ys => simp
  have h1 : (decide (c.path.length + 1 > 2) && decide (t.path.length + 1 > 2)) = true := by
    simp; omega
  simp only [h1, ↓reduceIte, List.getElem?_cons_succ, ha, hb, hrel, Bool.not_true, Bool.false_eq_true]
  obtain ⟨steps, parts⟩ := res
  simp only [Chain.xpath] at hss
  simp only [hss]
  simp only at hres
  simp only [hres, ↓reduceIte]
  exact ⟨_, rfl⟩

/-- **relative_when_enclosed.**  If the innermost repeat that encloses the target (`t.take r`) also encloses the
referrer, the reference is not `${last-saved#…}` and does not sit at an absolute-by-design `indexed-repeat()`
position, then the emitted path is relative (and carries `current()` exactly when the call site or the instance
predicate asks for it).  Every valid survey, every depth, every name. -/
theorem relative_when_enclosed (els : List Chain) (hv : Valid els) (c t : Chain) (hc : c ∈ els) (name : Str)
    (fl : Flags) (hlook : els.filter (named name) = [t])
    (r : Nat) (hrt : r < t.length) (hrc : r < c.length)
    (hrep : Chain.isRep (t.take r) = true)
    (hinner : ∀ j, r < j → j < t.length → Chain.isRep (t.take j) = false)
    (henc : c.take r = t.take r) (hls : fl.lastSaved = false) (hia : fl.indexedArg = false) :
    ∃ k d, refFor els (some c) name fl = .ok (fl.useCurrent || fl.inPredicate) (.rel k d) := by
  have ht : t ∈ els := by
    have : t ∈ els.filter (named name) := by rw [hlook]; simp
    exact (List.mem_filter.1 this).1
  have hl : lookup name (setupXpathDict els) = some (some t) := by rw [lookup_setup, hlook]
  have gc := hv.good c hc
  have gt := hv.good t ht
  have hr0 : 0 < r := by
    cases r with
    | zero => simp [Chain.isRep] at hrep
    | succ n => omega
  have hr2 : 2 ≤ r := by
    cases hr1 : r with
    | zero => omega
    | succ n =>
      cases n with
      | zero => subst hr1; have := hv.rootNotRep t ht; rw [this] at hrep; cases hrep
      | succ m => omega
  have hclen : c.path.length = c.length := by simp [Chain.path]
  have htlen : t.path.length = t.length := by simp [Chain.path]
  have hpathr : c.path.take r = t.path.take r := by rw [← path_take, ← path_take, henc]
  have hRin : pathStr (t.path.take r) ∈ repeatXpaths els := (mem_reps_iff hv ht r hr0 (by omega)).2 hrep
  -- the target's repeat parent is exactly R
  have hT := isParentARepeat_spec (repeatXpaths els) t.path gt
  obtain ⟨xp, hxp, hxpeq⟩ : ∃ xp, isParentARepeat (repeatXpaths els) (pathStr t.path) = some xp ∧
      xp = pathStr (t.path.take r) := by
    cases hx : isParentARepeat (repeatXpaths els) (pathStr t.path) with
    | none =>
      rw [hx] at hT
      exact absurd hRin (hT r hr0 (by omega))
    | some xp =>
      rw [hx] at hT
      obtain ⟨j, hj0, hjl, rfl, hin, hall⟩ := hT
      refine ⟨_, rfl, ?_⟩
      have hjrep := (mem_reps_iff hv ht j hj0 (by omega)).1 hin
      have h1 : ¬ j < r := fun hlt => hall r hlt (by omega) hRin
      have h2 : ¬ r < j := fun hlt => by
        have := hinner j hlt (by omega); rw [this] at hjrep; cases hjrep
      have : j = r := by omega
      rw [this]
  -- the referrer's repeat parent is R or deeper
  have hC := isParentARepeat_spec (repeatXpaths els) c.path gc
  obtain ⟨i, hir, hil, hcp⟩ : ∃ i, r ≤ i ∧ i < c.path.length ∧
      isParentARepeat (repeatXpaths els) (pathStr c.path) = some (pathStr (c.path.take i)) := by
    cases hx : isParentARepeat (repeatXpaths els) (pathStr c.path) with
    | none =>
      rw [hx] at hC
      exact absurd (hpathr ▸ hRin) (hC r hr0 (by omega))
    | some cp =>
      rw [hx] at hC
      obtain ⟨i, hi0, hil, rfl, hin, hall⟩ := hC
      refine ⟨i, ?_, hil, rfl⟩
      apply Classical.byContradiction
      intro hlt
      exact hall r (by omega) (by omega) (hpathr ▸ hRin)
  have hsw : startsWith (pathStr (c.path.take i) ++ ['/']) (pathStr (t.path.take r) ++ ['/']) = true := by
    apply startsWith_of_prefix
    · exact take_ne_nil _ _ hr0 (by omega)
    · rw [← hpathr]
      have : c.path.take r = (c.path.take i).take r := by rw [List.take_take]; congr 1; omega
      rw [this]
      exact List.take_prefix _ _
  obtain ⟨res, hss⟩ : ∃ res, shareSameRepeatParent (repeatXpaths els) t.xpath c.xpath fl.referenceParent = some res := by
    unfold shareSameRepeatParent
    simp only [Chain.xpath, hcp, hxp, hxpeq, hsw, ↓reduceIte]
    split
    · split
      · exact ⟨_, rfl⟩
      · split <;> exact ⟨_, rfl⟩
    · exact ⟨_, rfl⟩
  have hreach := ssrp_resolves _ c.path t.path gc gt _ _ hss
  have hres : res.1 ≠ 0 := by have := hreach.1; omega
  have hrel := related_of_common_repeat c t r hr0 hrc hrt hrep henc
  have hidx : c.path[1]? = t.path[1]? := by
    have e1 : (c.path.take r)[1]? = c.path[1]? := by rw [List.getElem?_take]; simp; omega
    have e2 : (t.path.take r)[1]? = t.path[1]? := by rw [List.getElem?_take]; simp; omega
    rw [← e1, ← e2, hpathr]
  obtain ⟨a, ha⟩ : ∃ a, t.path[1]? = some a := ⟨t.path[1]'(by omega), List.getElem?_eq_getElem (by omega)⟩
  obtain ⟨d, hd⟩ := relativePath_some (repeatXpaths els) c t name fl.referenceParent gc gt a ha (hidx ▸ ha) hrel res hss hres
  refine ⟨res.1, d, ?_⟩
  unfold refFor
  simp only [hl, hls, hia, hd, Bool.not_false, Bool.and_self, ↓reduceIte]

/-! ### non-vacuity -/

theorem exValid : Valid exEls := ⟨by decide, by decide, by decide, by decide⟩

def exT : Chain := [("data".toList, .group), ("R".toList, .rep), ("abcde_r2".toList, .group), ("t".toList, .q)]

/-- the F17 layout: the target's innermost repeat `R` encloses the referrer (two repeats deeper) -/
example : ∃ k d, refFor exEls (some exC) "t".toList {} = .ok false (.rel k d) :=
  relative_when_enclosed exEls exValid exC exT (by decide) "t".toList {} (by decide) 2 (by decide) (by decide)
    (by decide) (by intro j h1 h2; have : j = 3 := by simp [exT] at h2; omega
                    subst this; decide) (by decide) rfl rfl

example : related exC exT = true :=
  related_of_common_repeat exC exT 2 (by decide) (by decide) (by decide) (by decide) (by decide)

end Pyxv.Refs
