import Pyxv.Proofs.QStable
/-!
# dump / load / dump of Options and of a survey-level `choices` object

`Option(**d)` reads the constructor's named parameters (`name`, `label`, `media`, `sms_option`) into slots and
puts every other key into `extra_data` (question.py `Option.__init__`, survey_element.py:100-124); its dump is
`ToJson.optionDump`.  `reloadChoices` is the model addition for `Survey.__init__`'s
`Itemset(name=list_name, choices=values)` over a dumped `choices` object (no driver op uses it).
-/
namespace Pyxv.ToJson
open Pyxv Pyxv.JV

/-- the survey-level `choices` object of a dump -/
def choicesJson (choices : List (Str × List Opt)) : J :=
  .obj (choices.map fun c => (c.1, .arr (c.2.map optionToJson)))

/-- `Survey.__init__`: every list of the dumped `choices` object becomes an Itemset of `Option(**c)` -/
def reloadChoices (ctor : List Str) (choices : List (Str × List Opt)) : List (Str × List Opt) :=
  choices.map fun c => (c.1, c.2.map fun o => reloadOption ctor (optionDump o))

theorem filter_map_restrict (S : List Str) (p : Str → Bool) (g : Str → Str × J) (q : Str × J → Bool)
    (h : ∀ k ∈ S, p k = false → q (g k) = false) :
    (S.map g).filter q = ((S.filter p).map g).filter q := by
  induction S with
  | nil => rfl
  | cons k rest ih =>
    have ihr := ih (fun k' hk' => h k' (by simp [hk']))
    by_cases hp : p k = true
    · simp only [List.map_cons, List.filter, hp]
      cases hq : q (g k) <;> simp [ihr]
    · have hpf : p k = false := by simpa using hp
      have := h k (by simp) hpf
      simp only [List.map_cons, List.filter, hpf, this]
      exact ihr

theorem underscored_mem_filter (S : List Str) (p : Str → Bool) (k : Str) (hk : k ∈ S.filter p) :
    k ∈ underscored (S.filter p) ↔ k ∈ underscored S := by
  simp only [underscored, List.mem_filter] at hk ⊢
  constructor
  · rintro ⟨⟨h1, _⟩, h3⟩; exact ⟨h1, h3⟩
  · rintro ⟨h1, h3⟩; exact ⟨⟨h1, hk.2⟩, h3⟩

/-- An Option whose slots are `S ↦ f`, with extra columns `extra`: the Option rebuilt from its dump by a
    constructor that reads the names `S.filter p` dumps to the same dict — provided every slot the
    constructor does not read is one `to_json_dict` deletes, and the extra columns have distinct names that
    are not slot names. -/
theorem option_dump_stable (S : List Str) (hS : S.Nodup) (p : Str → Bool) (f : Str → J) (extra : Dict)
    (hdel : ∀ k ∈ S, p k = false → k ∈ allDelete .option S [] [k!"parent"])
    (hn : (extra.map Prod.fst).Nodup) (hd : ∀ k ∈ extra.map Prod.fst, k ∉ S) :
    optionDump (reloadOption (S.filter p) (optionDump (S.map (fun n => (n, f n)), extra))) =
      optionDump (S.map (fun n => (n, f n)), extra) := by
  let N := S.filter p
  let del := allDelete .option S [] [k!"parent"]
  have hkeysS : (S.map fun n => (n, f n)).map Prod.fst = S := by simp [List.map_map, Function.comp_def]
  have hNn : N.Nodup := List.Pairwise.sublist List.filter_sublist hS
  have hNS : ∀ k ∈ N, k ∈ S := fun k hk => (List.mem_filter.mp hk).1
  -- the own part, written over the names the constructor reads
  have hbase : ownDump del (S.map fun n => (n, f n)) = ownDump del (N.map fun n => (n, f n)) := by
    rw [ownDump_eq_filter, ownDump_eq_filter]
    apply filter_map_restrict S p (fun n => (n, f n)) (keeps del)
    intro k hk hp
    have := hdel k hk hp
    simp [keeps, del, this]
  let F := extra.filter fun kv => truthy kv.2
  have hFkeys : ∀ k ∈ F.map Prod.fst, k ∈ extra.map Prod.fst := by
    intro k hk
    simp only [F, List.mem_map, List.mem_filter] at hk ⊢
    obtain ⟨q, ⟨hq, _⟩, e⟩ := hk
    exact ⟨q, hq, e⟩
  have hFn : (F.map Prod.fst).Nodup := List.Pairwise.sublist ((List.filter_sublist).map Prod.fst) hn
  have hFtruthy : F.filter (fun kv => truthy kv.2) = F := by
    simp only [F, List.filter_filter, Bool.and_self]
  -- first dump
  have hd1 : optionDump (S.map (fun n => (n, f n)), extra) = ownDump del (N.map fun n => (n, f n)) ++ F := by
    simp only [optionDump, hkeysS]
    rw [restoreExtra_fresh extra _ hn (fun k hk hin => hd k hk (by
      have := ownDump_keys_subset _ _ k hin; rw [hkeysS] at this; exact this)), hbase]
  have hbaseN : ∀ k ∈ (ownDump del (N.map fun n => (n, f n))).map Prod.fst, k ∈ N := by
    intro k hk
    have := ownDump_keys_subset _ _ k hk
    simpa [List.map_map, Function.comp_def] using this
  have hFnotN : ∀ k ∈ F.map Prod.fst, k ∉ N := fun k hk hin => hd k (hFkeys k hk) (hNS k hin)
  rw [hd1]
  -- the rebuilt option
  have hextra2 : reloadExtra N (ownDump del (N.map fun n => (n, f n)) ++ F) = F :=
    reloadExtra_append N _ F hbaseN hFnotN
  have hkeys2 : (reloadSlots N (ownDump del (N.map fun n => (n, f n)) ++ F)).map Prod.fst = N := by
    simp [reloadSlots, List.map_map, Function.comp_def]
  -- deletion lists agree on the names the constructor reads
  have hdel2 : ownDump (allDelete .option N [] [k!"parent"]) (reloadSlots N (ownDump del (N.map fun n => (n, f n)) ++ F)) =
      ownDump del (reloadSlots N (ownDump del (N.map fun n => (n, f n)) ++ F)) := by
    generalize hX : reloadSlots N (ownDump del (N.map fun n => (n, f n)) ++ F) = X at hkeys2
    rw [ownDump_eq_filter, ownDump_eq_filter]
    apply List.filter_congr
    intro kv hkv
    have hin : kv.1 ∈ N := by rw [← hkeys2]; exact List.mem_map.mpr ⟨kv, hkv, rfl⟩
    have hu := underscored_mem_filter S p kv.1 hin
    simp only [keeps, del, allDelete, clsDelete, List.append_nil, List.contains_eq_mem, List.mem_append, List.mem_cons,
      List.not_mem_nil, or_false]
    simp only [N] at hu ⊢
    simp only [hu]
  have hown2 : ownDump del (reloadSlots N (ownDump del (N.map fun n => (n, f n)) ++ F)) =
      ownDump del (N.map fun n => (n, f n)) := by
    have := ownDump_reload_again del N hNn f F
      (fun n hn' => lookup_none_of_not_mem n F (fun h => hFnotN n h hn')) (fun _ => none) (by intro n v h; cases h)
    simpa [reloadSlots] using this
  show restoreExtra (reloadOption N _).2 (ownDump (allDelete .option ((reloadOption N _).1.map Prod.fst) [] [k!"parent"])
    (reloadOption N _).1) = _
  simp only [reloadOption, hextra2, hkeys2]
  rw [hdel2, hown2, restoreExtra_fresh F _ hFn (fun k hk hin => hFnotN k hk (hbaseN k hin)), hFtruthy]


/-- an Option as the constructors produce it: slot tuple `S`, extra columns with distinct names outside `S` -/
def OptOk (S : List Str) (o : Opt) : Prop :=
  ∃ f : Str → J, o.1 = S.map (fun n => (n, f n)) ∧ (o.2.map Prod.fst).Nodup ∧ ∀ k ∈ o.2.map Prod.fst, k ∉ S

/-- dump, load, dump of a survey-level `choices` object (and of the option list a select carries): every list,
    every option, any number of extra columns -/
theorem choices_dump_stable (S : List Str) (hS : S.Nodup) (p : Str → Bool)
    (hdel : ∀ k ∈ S, p k = false → k ∈ allDelete .option S [] [k!"parent"])
    (choices : List (Str × List Opt)) (hok : ∀ c ∈ choices, ∀ o ∈ c.2, OptOk S o) :
    choicesJson (reloadChoices (S.filter p) choices) = choicesJson choices := by
  simp only [choicesJson, reloadChoices, List.map_map]
  congr 1
  apply List.map_congr_left
  intro c hc
  simp only [Function.comp]
  congr 2
  rw [List.map_map]
  apply List.map_congr_left
  intro o ho
  simp only [Function.comp]
  obtain ⟨f, h1, h2, h3⟩ := hok c hc o ho
  cases o with
  | mk sl ex =>
    simp only at h1 h2 h3
    subst h1
    simp only [optionToJson]
    rw [option_dump_stable S hS p f ex hdel h2 h3]

end Pyxv.ToJson
