import Pyxv.Proofs.C07Sheets
/-!
# Effective text of the text slots (label, hint, guidance hint), any survey tree

For an element `f` of any survey whose xpaths are pairwise distinct (pyxform validates sibling uniqueness):
the value the final translation table holds for language `l` under `f`'s label id (content type `long`), hint id
(`long`) or hint id (`guidance`) is the text the corresponding slot of `f` has for `l` — nobody else writes there:
choice ids never coincide with element ids, other elements have other xpaths, the other slots of `f` have another
display element or another content type (`rendered_ids_injective`), and padding never overwrites.

`effective_text_rows` then reads the slot from the sheet through C08: the text is `specRead` of the cells of that
column of the element's row (the cell suffixed with the language, else — for the default language — the unsuffixed
cell), for nested sections, with media and bind-message columns present.
-/
namespace Pyxv.C07Text
open Pyxv Pyxv.Headers Pyxv.C08 Pyxv.Itext Pyxv.C07Rows Pyxv.C07Sheets

/-- at most one text per language -/
def Functional (ps : List (Str × Str)) : Prop := ∀ a ∈ ps, ∀ b ∈ ps, a.1 = b.1 → a.2 = b.2

theorem mem_entsOf {dl p form : Str} {v : Txt} {e : Ent} (h : e ∈ entsOf dl p form v) :
    e.path = p ∧ e.form = form ∧ (e.lang, e.text) ∈ langsOf dl v := by
  unfold entsOf at h
  obtain ⟨lb, hlb, rfl⟩ := List.mem_map.mp h
  exact ⟨rfl, rfl, hlb⟩

/-- the blocks of one element's leaf assignments -/
inductive Block (dl : Str) (f : Flat) (e : Ent) : Prop
  | msg (k : String) (hk : k ∈ ["jr:constraintMsg", "jr:requiredMsg", "jr:noAppErrorString"]) (hp : e.path = path f.xpath k)
      (hf : e.form = "long".toList) (hl : (e.lang, e.text) ∈ langsOf dl (msgOf f.d k))
  | label (hp : e.path = path f.xpath "label") (hf : e.form = "long".toList) (hl : (e.lang, e.text) ∈ langsOf dl f.d.label)
  | hint (hp : e.path = path f.xpath "hint") (hf : e.form = "long".toList) (hl : (e.lang, e.text) ∈ langsOf dl f.d.hint)
  | guidance (hp : e.path = path f.xpath "hint") (hf : e.form = "guidance".toList)
      (hl : (e.lang, e.text) ∈ langsOf dl f.d.guidance)
  | media (m : Media) (hm : f.d.media = some m) (hp : e.path = path f.xpath "label") (hf : e.form ∈ m.map (·.1))
      (hl : ∃ kv ∈ m, e.form = kv.1 ∧ (e.lang, e.text) ∈ langsOf dl kv.2)

theorem msgEntries_block {dl : Str} {f : Flat} {e : Ent} (k : String)
    (hk : k ∈ ["jr:constraintMsg", "jr:requiredMsg", "jr:noAppErrorString"])
    (h : e ∈ msgEntries dl f.xpath f.d k) : Block dl f e := by
  simp only [msgEntries] at h
  split at h
  · obtain ⟨h1, h2, h3⟩ := mem_entsOf h
    exact .msg k hk h1 h2 h3
  · cases h

theorem block_of_mem {dl : Str} {f : Flat} {e : Ent} (h : e ∈ elemEntries dl f ++ mediaEntries dl f) :
    Block dl f e := by
  rcases List.mem_append.mp h with h | h
  · simp only [elemEntries, List.mem_append] at h
    rcases h with ((((h | h) | h) | h) | h) | h
    · exact msgEntries_block _ (by simp) h
    · exact msgEntries_block _ (by simp) h
    · exact msgEntries_block _ (by simp) h
    · cases hl : f.d.label with
      | none => simp only [hl] at h; cases h
      | str s =>
        simp only [hl] at h
        split at h
        · obtain ⟨h1, h2, h3⟩ := mem_entsOf h
          exact .label h1 h2 (by rw [hl]; exact h3)
        · cases h
      | dict l =>
        simp only [hl] at h
        obtain ⟨h1, h2, h3⟩ := mem_entsOf h
        exact .label h1 h2 (by rw [hl]; exact h3)
    · cases hl : f.d.hint with
      | none => simp only [hl] at h; cases h
      | str s =>
        simp only [hl] at h
        split at h
        · obtain ⟨h1, h2, h3⟩ := mem_entsOf h
          exact .hint h1 h2 (by rw [hl]; exact h3)
        · cases h
      | dict l =>
        simp only [hl] at h
        obtain ⟨h1, h2, h3⟩ := mem_entsOf h
        exact .hint h1 h2 (by rw [hl]; exact h3)
    · cases hl : f.d.guidance with
      | none => simp only [hl] at h; cases h
      | str s =>
        simp only [hl] at h
        split at h
        · obtain ⟨h1, h2, h3⟩ := mem_entsOf h
          exact .guidance h1 h2 (by rw [hl]; exact h3)
        · cases h
      | dict l =>
        simp only [hl] at h
        obtain ⟨h1, h2, h3⟩ := mem_entsOf h
        exact .guidance h1 h2 (by rw [hl]; exact h3)
  · unfold mediaEntries at h
    cases hm : f.d.media with
    | none => simp only [hm] at h; cases h
    | some m =>
      simp only [hm] at h
      split at h
      · unfold mediaEnts at h
        obtain ⟨kv, hkv, hin⟩ := List.mem_flatMap.mp h
        obtain ⟨h1, h2, h3⟩ := mem_entsOf hin
        exact .media m hm h1 (by rw [h2]; exact List.mem_map.mpr ⟨kv, hkv, rfl⟩) ⟨kv, hkv, h2, h3⟩
      · cases h

theorem block_display {dl : Str} {f : Flat} {e : Ent} (h : Block dl f e) : ∃ d ∈ displays, e.path = path f.xpath d := by
  cases h with
  | msg k hk hp _ _ =>
    refine ⟨k, ?_, hp⟩
    simp only [List.mem_cons, List.mem_nil_iff, or_false] at hk
    rcases hk with rfl | rfl | rfl <;> decide
  | label hp _ _ => exact ⟨"label", by decide, hp⟩
  | hint hp _ _ => exact ⟨"hint", by decide, hp⟩
  | guidance hp _ _ => exact ⟨"hint", by decide, hp⟩
  | media m _ hp _ _ => exact ⟨"label", by decide, hp⟩

theorem eq_of_xpath {fs : List Flat} (hn : (fs.map (·.xpath)).Nodup) {f g : Flat} (hf : f ∈ fs) (hg : g ∈ fs)
    (h : f.xpath = g.xpath) : f = g := by
  induction fs with
  | nil => cases hf
  | cons a rest ih =>
    simp only [List.map_cons, List.nodup_cons] at hn
    rcases List.mem_cons.mp hf with hfa | hf'
    · rcases List.mem_cons.mp hg with hga | hg'
      · exact hfa.trans hga.symm
      · exact absurd (List.mem_map.mpr ⟨g, hg', by rw [← h, hfa]⟩) hn.1
    · rcases List.mem_cons.mp hg with hga | hg'
      · exact absurd (List.mem_map.mpr ⟨f, hf', by rw [h, hga]⟩) hn.1
      · exact ih hn.2 hf' hg'

/-- whoever writes under an id of element `f` is `f` itself -/
theorem same_elem {x : Survey} (hx : ((flats x).map (·.xpath)).Nodup) {f : Flat} (hf : f ∈ flats x)
    {d : String} (hd : d ∈ displays) {e : Ent} (he : e ∈ C07.ents x) (hp : e.path = path f.xpath d) :
    Block x.defaultLanguage f e ∧ ∀ d' ∈ displays, e.path = path f.xpath d' → d' = d := by
  have huniq : ∀ d' ∈ displays, e.path = path f.xpath d' → d' = d := by
    intro d' hd' hp'
    exact (path_inj hd' hd (hp'.symm.trans hp)).2
  refine ⟨?_, huniq⟩
  simp only [C07.ents, entries, List.mem_append] at he
  have fromElem : ∀ f' ∈ (flats x).filter visited,
      e ∈ elemEntries x.defaultLanguage f' ++ mediaEntries x.defaultLanguage f' → Block x.defaultLanguage f e := by
    intro f' hf' hin
    have hb := block_of_mem hin
    obtain ⟨d', hd', hp'⟩ := block_display hb
    have hxp := (path_inj hd' hd (hp'.symm.trans hp)).1
    have : f' = f := eq_of_xpath hx (List.mem_filter.mp hf').1 hf hxp
    rw [← this]; exact hb
  rcases he with (he | he) | he
  · obtain ⟨nm, i, hc⟩ := path_choiceEntries he
    exact absurd (hc.symm.trans hp) (choiceId_ne_path nm i f.xpath hd)
  · obtain ⟨f', hf', hin⟩ := List.mem_flatMap.mp he
    exact fromElem f' hf' (List.mem_append.mpr (Or.inl hin))
  · obtain ⟨f', hf', hin⟩ := List.mem_flatMap.mp he
    exact fromElem f' hf' (List.mem_append.mpr (Or.inr hin))

theorem path_ne {x : Str} {d e : String} (hd : d ∈ displays) (he : e ∈ displays) (hne : d ≠ e) :
    path x d ≠ path x e := fun h => hne (path_inj hd he h).2

/-- what is needed to know that a slot's text reaches the table: the slot is a dict with one text per language,
and no media type is called `long` -/
structure SlotOk (f : Flat) (pairs : List (Str × Str)) : Prop where
  functional : Functional pairs
  mediaNotLong : ∀ m, f.d.media = some m → "long".toList ∉ m.map (·.1)

/-- **translated label**: the table holds, for each language of the label dict, that language's text -/
theorem value_label {x : Survey} (hx : ((flats x).map (·.xpath)).Nodup) {f : Flat} (hf : f ∈ flats x)
    (hv : visited f = true) {pairs : List (Str × Str)} (hl : f.d.label = .dict pairs) (hok : SlotOk f pairs)
    {l t : Str} (hlt : (l, t) ∈ pairs) :
    valueAt (table x) l (path f.xpath "label") "long".toList = some t := by
  let e : Ent := ⟨l, path f.xpath "label", "long".toList, t⟩
  have he : e ∈ C07.ents x := by
    apply C07.mem_ents_of_elem hf hv
    apply List.mem_append.mpr; left
    simp only [elemEntries, List.mem_append]
    refine Or.inl (Or.inl (Or.inr ?_))
    rw [hl]
    exact List.mem_map.mpr ⟨(l, t), hlt, rfl⟩
  have hag : ∀ e' ∈ C07.ents x, sameKey e e' → e'.text = e.text := by
    intro e' he' hk
    obtain ⟨hb, _⟩ := same_elem hx hf (d := "label") (by decide) he' hk.2.1.symm
    have hform : e'.form = "long".toList := hk.2.2.symm
    have hpath : e'.path = path f.xpath "label" := hk.2.1.symm
    cases hb with
    | msg k hkk hp _ _ =>
      simp only [List.mem_cons, List.mem_nil_iff, or_false] at hkk
      rcases hkk with rfl | rfl | rfl <;>
        exact absurd (hp.symm.trans hpath) (path_ne (by decide) (by decide) (by decide))
    | label _ _ hlab =>
      rw [hl] at hlab
      exact hok.functional (e'.lang, e'.text) hlab (l, t) hlt hk.1.symm
    | hint hp _ _ => exact absurd (hp.symm.trans hpath) (path_ne (by decide) (by decide) (by decide))
    | guidance hp _ _ => exact absurd (hp.symm.trans hpath) (path_ne (by decide) (by decide) (by decide))
    | media m hm _ hfm _ => exact absurd (hform ▸ hfm) (hok.mediaNotLong m hm)
  have h1 := valueAt_setup_agree he hag
  exact valueAt_pad x.lists _ _ _ _ _ h1

/-- **translated hint** -/
theorem value_hint {x : Survey} (hx : ((flats x).map (·.xpath)).Nodup) {f : Flat} (hf : f ∈ flats x)
    (hv : visited f = true) {pairs : List (Str × Str)} (hl : f.d.hint = .dict pairs) (hfun : Functional pairs)
    {l t : Str} (hlt : (l, t) ∈ pairs) :
    valueAt (table x) l (path f.xpath "hint") "long".toList = some t := by
  let e : Ent := ⟨l, path f.xpath "hint", "long".toList, t⟩
  have he : e ∈ C07.ents x := by
    apply C07.mem_ents_of_elem hf hv
    apply List.mem_append.mpr; left
    simp only [elemEntries, List.mem_append]
    refine Or.inl (Or.inr ?_)
    rw [hl]
    exact List.mem_map.mpr ⟨(l, t), hlt, rfl⟩
  have hag : ∀ e' ∈ C07.ents x, sameKey e e' → e'.text = e.text := by
    intro e' he' hk
    obtain ⟨hb, _⟩ := same_elem hx hf (d := "hint") (by decide) he' hk.2.1.symm
    have hform : e'.form = "long".toList := hk.2.2.symm
    have hpath : e'.path = path f.xpath "hint" := hk.2.1.symm
    cases hb with
    | msg k hkk hp _ _ =>
      simp only [List.mem_cons, List.mem_nil_iff, or_false] at hkk
      rcases hkk with rfl | rfl | rfl <;>
        exact absurd (hp.symm.trans hpath) (path_ne (by decide) (by decide) (by decide))
    | label hp _ _ => exact absurd (hp.symm.trans hpath) (path_ne (by decide) (by decide) (by decide))
    | hint _ _ hh =>
      rw [hl] at hh
      exact hfun (e'.lang, e'.text) hh (l, t) hlt hk.1.symm
    | guidance _ hfg _ => exact absurd (hfg.symm.trans hform) (by decide)
    | media m _ hp _ _ => exact absurd (hp.symm.trans hpath) (path_ne (by decide) (by decide) (by decide))
  have h1 := valueAt_setup_agree he hag
  exact valueAt_pad x.lists _ _ _ _ _ h1

/-- **translated guidance hint** (filed under the hint id with content type `guidance`) -/
theorem value_guidance {x : Survey} (hx : ((flats x).map (·.xpath)).Nodup) {f : Flat} (hf : f ∈ flats x)
    (hv : visited f = true) {pairs : List (Str × Str)} (hl : f.d.guidance = .dict pairs) (hfun : Functional pairs)
    {l t : Str} (hlt : (l, t) ∈ pairs) :
    valueAt (table x) l (path f.xpath "hint") "guidance".toList = some t := by
  let e : Ent := ⟨l, path f.xpath "hint", "guidance".toList, t⟩
  have he : e ∈ C07.ents x := by
    apply C07.mem_ents_of_elem hf hv
    apply List.mem_append.mpr; left
    simp only [elemEntries, List.mem_append]
    refine Or.inr ?_
    rw [hl]
    exact List.mem_map.mpr ⟨(l, t), hlt, rfl⟩
  have hag : ∀ e' ∈ C07.ents x, sameKey e e' → e'.text = e.text := by
    intro e' he' hk
    obtain ⟨hb, _⟩ := same_elem hx hf (d := "hint") (by decide) he' hk.2.1.symm
    have hform : e'.form = "guidance".toList := hk.2.2.symm
    have hpath : e'.path = path f.xpath "hint" := hk.2.1.symm
    cases hb with
    | msg k hkk hp _ _ =>
      simp only [List.mem_cons, List.mem_nil_iff, or_false] at hkk
      rcases hkk with rfl | rfl | rfl <;>
        exact absurd (hp.symm.trans hpath) (path_ne (by decide) (by decide) (by decide))
    | label hp _ _ => exact absurd (hp.symm.trans hpath) (path_ne (by decide) (by decide) (by decide))
    | hint _ hfh _ => exact absurd (hfh.symm.trans hform) (by decide)
    | guidance _ _ hg =>
      rw [hl] at hg
      exact hfun (e'.lang, e'.text) hg (l, t) hlt hk.1.symm
    | media m _ hp _ _ => exact absurd (hp.symm.trans hpath) (path_ne (by decide) (by decide) (by decide))
  have h1 := valueAt_setup_agree he hag
  exact valueAt_pad x.lists _ _ _ _ _ h1

/-- **translated bind message** (`jr:constraintMsg`, `jr:requiredMsg`, `jr:noAppErrorString`) -/
theorem value_msg {x : Survey} (hx : ((flats x).map (·.xpath)).Nodup) {f : Flat} (hf : f ∈ flats x)
    (hv : visited f = true) {k : String} (hk : k ∈ ["jr:constraintMsg", "jr:requiredMsg", "jr:noAppErrorString"])
    {pairs : List (Str × Str)} (hm : msgOf f.d k = .dict pairs) (hfun : Functional pairs)
    {l t : Str} (hlt : (l, t) ∈ pairs) :
    valueAt (table x) l (path f.xpath k) "long".toList = some t := by
  let e : Ent := ⟨l, path f.xpath k, "long".toList, t⟩
  have hkd : k ∈ displays := by
    simp only [List.mem_cons, List.mem_nil_iff, or_false] at hk
    rcases hk with rfl | rfl | rfl <;> decide
  have hin : e ∈ msgEntries x.defaultLanguage f.xpath f.d k := by
    simp only [msgEntries, hm, msgUsesItext, if_true]
    exact List.mem_map.mpr ⟨(l, t), hlt, rfl⟩
  have he : e ∈ C07.ents x := by
    apply C07.mem_ents_of_elem hf hv
    apply List.mem_append.mpr; left
    simp only [elemEntries, List.mem_append]
    simp only [List.mem_cons, List.mem_nil_iff, or_false] at hk
    rcases hk with rfl | rfl | rfl
    · exact Or.inl (Or.inl (Or.inl (Or.inl (Or.inl hin))))
    · exact Or.inl (Or.inl (Or.inl (Or.inl (Or.inr hin))))
    · exact Or.inl (Or.inl (Or.inl (Or.inr hin)))
  have hag : ∀ e' ∈ C07.ents x, sameKey e e' → e'.text = e.text := by
    intro e' he' hkey
    obtain ⟨hb, huniq⟩ := same_elem hx hf hkd he' hkey.2.1.symm
    cases hb with
    | msg k' hk' hp _ hl' =>
      have hk'd : k' ∈ displays := by
        simp only [List.mem_cons, List.mem_nil_iff, or_false] at hk'
        rcases hk' with rfl | rfl | rfl <;> decide
      have : k' = k := huniq k' hk'd hp
      subst this
      rw [hm] at hl'
      exact hfun (e'.lang, e'.text) hl' (l, t) hlt hkey.1.symm
    | label hp _ _ =>
      have := huniq "label" (by decide) hp
      subst this
      simp at hk
    | hint hp _ _ =>
      have := huniq "hint" (by decide) hp
      subst this
      simp at hk
    | guidance hp _ _ =>
      have := huniq "hint" (by decide) hp
      subst this
      simp at hk
    | media m _ hp _ _ =>
      have := huniq "label" (by decide) hp
      subst this
      simp at hk
  have h1 := valueAt_setup_agree he hag
  exact valueAt_pad x.lists _ _ _ _ _ h1

/-- **media** (`image`, `audio`, `video`, `big-image` — any key other than `long`): filed under the label id with the
media type as content type -/
theorem value_media {x : Survey} (hx : ((flats x).map (·.xpath)).Nodup) {f : Flat} (hf : f ∈ flats x)
    (hv : visited f = true) {m : Media} (hm : f.d.media = some m) (hnd : (m.map (·.1)).Nodup)
    {k : Str} {v : Txt} (hkv : (k, v) ∈ m) (hk : k ≠ "long".toList)
    (hfun : Functional (langsOf x.defaultLanguage v)) {l t : Str} (hlt : (l, t) ∈ langsOf x.defaultLanguage v) :
    valueAt (table x) l (path f.xpath "label") k = some t := by
  let e : Ent := ⟨l, path f.xpath "label", k, t⟩
  have he : e ∈ C07.ents x := by
    apply C07.mem_ents_of_elem hf hv
    apply List.mem_append.mpr; right
    have hmt : mediaTruthy (some m) = true := by
      cases m with
      | nil => cases hkv
      | cons a b => rfl
    simp only [mediaEntries, hm, hmt, if_true, mediaEnts]
    exact List.mem_flatMap.mpr ⟨(k, v), hkv, List.mem_map.mpr ⟨(l, t), hlt, rfl⟩⟩
  have hag : ∀ e' ∈ C07.ents x, sameKey e e' → e'.text = e.text := by
    intro e' he' hkey
    obtain ⟨hb, huniq⟩ := same_elem hx hf (d := "label") (by decide) he' hkey.2.1.symm
    have hform : e'.form = k := hkey.2.2.symm
    cases hb with
    | msg k' hk' hp _ _ =>
      have hk'd : k' ∈ displays := by
        simp only [List.mem_cons, List.mem_nil_iff, or_false] at hk'
        rcases hk' with rfl | rfl | rfl <;> decide
      have := huniq k' hk'd hp
      subst this
      simp at hk'
    | label _ hfl _ => exact absurd (hform.symm.trans hfl) hk
    | hint hp _ _ => exact absurd (huniq "hint" (by decide) hp) (by decide)
    | guidance hp _ _ => exact absurd (huniq "hint" (by decide) hp) (by decide)
    | media m' hm' _ _ hl' =>
      rw [hm] at hm'
      cases hm'
      obtain ⟨kv, hkvm, hfk, hlang⟩ := hl'
      have hk1 : kv.1 = k := hfk.symm.trans hform
      have hkv2 : kv.2 = v := by
        have h1 : (k, kv.2) ∈ m := by rw [← hk1]; exact hkvm
        exact pair_unique hnd h1 hkv
      rw [hkv2] at hlang
      exact hfun (e'.lang, e'.text) hlang (l, t) hlt hkey.1.symm
  have h1 := valueAt_setup_agree he hag
  exact valueAt_pad x.lists _ _ _ _ _ h1

/-! ### plain strings filed under the default language -/

theorem functional_single (a : Str × Str) : Functional [a] := by
  intro u hu v hv _
  simp only [List.mem_singleton] at hu hv
  rw [hu, hv]

/-- **plain hint next to a guidance hint**: the hint is filed under the default language -/
theorem value_hint_plain {x : Survey} (hx : ((flats x).map (·.xpath)).Nodup) {f : Flat} (hf : f ∈ flats x)
    (hv : visited f = true) {s : Str} (hl : f.d.hint = .str s) (hs : s ≠ []) (hg : f.d.guidance.truthy = true) :
    valueAt (table x) x.defaultLanguage (path f.xpath "hint") "long".toList = some s := by
  let e : Ent := ⟨x.defaultLanguage, path f.xpath "hint", "long".toList, s⟩
  have hne : (!s.isEmpty) = true := by cases s with | nil => exact absurd rfl hs | cons a b => rfl
  have he : e ∈ C07.ents x := by
    apply C07.mem_ents_of_elem hf hv
    apply List.mem_append.mpr; left
    simp only [elemEntries, List.mem_append]
    refine Or.inl (Or.inr ?_)
    simp only [hl, hne, hg, Bool.and_self, if_true]
    exact List.mem_map.mpr ⟨(x.defaultLanguage, s), by simp [langsOf], rfl⟩
  have hag : ∀ e' ∈ C07.ents x, sameKey e e' → e'.text = e.text := by
    intro e' he' hk
    obtain ⟨hb, _⟩ := same_elem hx hf (d := "hint") (by decide) he' hk.2.1.symm
    have hform : e'.form = "long".toList := hk.2.2.symm
    have hpath : e'.path = path f.xpath "hint" := hk.2.1.symm
    cases hb with
    | msg k hkk hp _ _ =>
      simp only [List.mem_cons, List.mem_nil_iff, or_false] at hkk
      rcases hkk with rfl | rfl | rfl <;>
        exact absurd (hp.symm.trans hpath) (path_ne (by decide) (by decide) (by decide))
    | label hp _ _ => exact absurd (hp.symm.trans hpath) (path_ne (by decide) (by decide) (by decide))
    | hint _ _ hh =>
      rw [hl] at hh
      simp only [langsOf, List.mem_singleton, Prod.mk.injEq] at hh
      exact hh.2
    | guidance _ hfg _ => exact absurd (hfg.symm.trans hform) (by decide)
    | media m _ hp _ _ => exact absurd (hp.symm.trans hpath) (path_ne (by decide) (by decide) (by decide))
  have h1 := valueAt_setup_agree he hag
  exact valueAt_pad x.lists _ _ _ _ _ h1

/-- **plain guidance hint**: filed under the default language with content type `guidance` -/
theorem value_guidance_plain {x : Survey} (hx : ((flats x).map (·.xpath)).Nodup) {f : Flat} (hf : f ∈ flats x)
    (hv : visited f = true) {s : Str} (hl : f.d.guidance = .str s) (hs : s ≠ []) :
    valueAt (table x) x.defaultLanguage (path f.xpath "hint") "guidance".toList = some s := by
  let e : Ent := ⟨x.defaultLanguage, path f.xpath "hint", "guidance".toList, s⟩
  have hne : (!s.isEmpty) = true := by cases s with | nil => exact absurd rfl hs | cons a b => rfl
  have he : e ∈ C07.ents x := by
    apply C07.mem_ents_of_elem hf hv
    apply List.mem_append.mpr; left
    simp only [elemEntries, List.mem_append]
    refine Or.inr ?_
    simp only [hl, hne, if_true]
    exact List.mem_map.mpr ⟨(x.defaultLanguage, s), by simp [langsOf], rfl⟩
  have hag : ∀ e' ∈ C07.ents x, sameKey e e' → e'.text = e.text := by
    intro e' he' hk
    obtain ⟨hb, _⟩ := same_elem hx hf (d := "hint") (by decide) he' hk.2.1.symm
    have hform : e'.form = "guidance".toList := hk.2.2.symm
    have hpath : e'.path = path f.xpath "hint" := hk.2.1.symm
    cases hb with
    | msg k hkk hp _ _ =>
      simp only [List.mem_cons, List.mem_nil_iff, or_false] at hkk
      rcases hkk with rfl | rfl | rfl <;>
        exact absurd (hp.symm.trans hpath) (path_ne (by decide) (by decide) (by decide))
    | label hp _ _ => exact absurd (hp.symm.trans hpath) (path_ne (by decide) (by decide) (by decide))
    | hint _ hfh _ => exact absurd (hfh.symm.trans hform) (by decide)
    | guidance _ _ hgd =>
      rw [hl] at hgd
      simp only [langsOf, List.mem_singleton, Prod.mk.injEq] at hgd
      exact hgd.2
    | media m _ hp _ _ => exact absurd (hp.symm.trans hpath) (path_ne (by decide) (by decide) (by decide))
  have h1 := valueAt_setup_agree he hag
  exact valueAt_pad x.lists _ _ _ _ _ h1

/-- **plain constraint / required message with a `${reference}`**: filed under the default language -/
theorem value_msg_plain {x : Survey} (hx : ((flats x).map (·.xpath)).Nodup) {f : Flat} (hf : f ∈ flats x)
    (hv : visited f = true) {k : String} (hk : k ∈ ["jr:constraintMsg", "jr:requiredMsg"])
    {s : Str} (hm : msgOf f.d k = .str s) (hu : msgUsesItext k.toList (.str s) = true) :
    valueAt (table x) x.defaultLanguage (path f.xpath k) "long".toList = some s := by
  let e : Ent := ⟨x.defaultLanguage, path f.xpath k, "long".toList, s⟩
  have hk3 : k ∈ ["jr:constraintMsg", "jr:requiredMsg", "jr:noAppErrorString"] := by
    simp only [List.mem_cons, List.mem_nil_iff, or_false] at hk ⊢
    rcases hk with h | h <;> simp [h]
  have hkd : k ∈ displays := by
    simp only [List.mem_cons, List.mem_nil_iff, or_false] at hk
    rcases hk with rfl | rfl <;> decide
  have hin : e ∈ msgEntries x.defaultLanguage f.xpath f.d k := by
    simp only [msgEntries, hm, hu, if_true]
    exact List.mem_map.mpr ⟨(x.defaultLanguage, s), by simp [langsOf], rfl⟩
  have he : e ∈ C07.ents x := by
    apply C07.mem_ents_of_elem hf hv
    apply List.mem_append.mpr; left
    simp only [elemEntries, List.mem_append]
    simp only [List.mem_cons, List.mem_nil_iff, or_false] at hk
    rcases hk with rfl | rfl
    · exact Or.inl (Or.inl (Or.inl (Or.inl (Or.inl hin))))
    · exact Or.inl (Or.inl (Or.inl (Or.inl (Or.inr hin))))
  have hag : ∀ e' ∈ C07.ents x, sameKey e e' → e'.text = e.text := by
    intro e' he' hkey
    obtain ⟨hb, huniq⟩ := same_elem hx hf hkd he' hkey.2.1.symm
    cases hb with
    | msg k' hk' hp _ hl' =>
      have hk'd : k' ∈ displays := by
        simp only [List.mem_cons, List.mem_nil_iff, or_false] at hk'
        rcases hk' with rfl | rfl | rfl <;> decide
      have : k' = k := huniq k' hk'd hp
      subst this
      rw [hm] at hl'
      simp only [langsOf, List.mem_singleton, Prod.mk.injEq] at hl'
      exact hl'.2
    | label hp _ _ =>
      have := huniq "label" (by decide) hp
      subst this
      simp at hk
    | hint hp _ _ =>
      have := huniq "hint" (by decide) hp
      subst this
      simp at hk
    | guidance hp _ _ =>
      have := huniq "hint" (by decide) hp
      subst this
      simp at hk
    | media m _ hp _ _ =>
      have := huniq "label" (by decide) hp
      subst this
      simp at hk
  have h1 := valueAt_setup_agree he hag
  exact valueAt_pad x.lists _ _ _ _ _ h1

/-! ### choices -/

theorem mem_optsEntries {dl name : Str} : ∀ {os : List Opt} {k : Nat} {e : Ent}, e ∈ optsEntries dl name k os →
    ∃ j o, os[j]? = some o ∧ e ∈ optEntries dl (choiceId name (k + j)) o
  | [], _, _, h => by simp [optsEntries] at h
  | o :: os, k, e, h => by
    simp only [optsEntries, List.mem_append] at h
    rcases h with h | h
    · exact ⟨0, o, rfl, by simpa using h⟩
    · obtain ⟨j, o', hj, he⟩ := mem_optsEntries h
      exact ⟨j + 1, o', by simpa using hj, by rw [show k + (j + 1) = k + 1 + j by omega]; exact he⟩

theorem optsEntries_of_mem {dl name : Str} : ∀ {os : List Opt} {k j : Nat} {o : Opt} {e : Ent}, os[j]? = some o →
    e ∈ optEntries dl (choiceId name (k + j)) o → e ∈ optsEntries dl name k os
  | [], _, _, _, _, h, _ => by simp at h
  | o' :: os, k, 0, o, e, h, he => by
    simp only [List.getElem?_cons_zero, Option.some.injEq] at h
    subst h
    simp only [optsEntries, List.mem_append]
    exact Or.inl (by simpa using he)
  | o' :: os, k, j + 1, o, e, h, he => by
    simp only [List.getElem?_cons_succ] at h
    simp only [optsEntries, List.mem_append]
    exact Or.inr (optsEntries_of_mem h (by rw [show k + 1 + j = k + (j + 1) by omega]; exact he))

theorem mem_choiceEntries {dl : Str} {lists : List CList} {e : Ent} (h : e ∈ choiceEntries dl lists) :
    ∃ l ∈ lists, requiresItext l = true ∧ ∃ j o, l.options[j]? = some o ∧ e ∈ optEntries dl (choiceId l.name j) o := by
  unfold choiceEntries at h
  obtain ⟨l, hl, hin⟩ := List.mem_flatMap.mp h
  split at hin
  next hr =>
    obtain ⟨j, o, hj, he⟩ := mem_optsEntries hin
    exact ⟨l, hl, hr, j, o, hj, by simpa using he⟩
  next => cases hin

theorem eq_of_name {ls : List CList} (hn : (ls.map (·.name)).Nodup) {a b : CList} (ha : a ∈ ls) (hb : b ∈ ls)
    (h : a.name = b.name) : a = b := by
  induction ls with
  | nil => cases ha
  | cons c rest ih =>
    simp only [List.map_cons, List.nodup_cons] at hn
    rcases List.mem_cons.mp ha with hac | ha'
    · rcases List.mem_cons.mp hb with hbc | hb'
      · exact hac.trans hbc.symm
      · exact absurd (List.mem_map.mpr ⟨b, hb', by rw [← h, hac]⟩) hn.1
    · rcases List.mem_cons.mp hb with hbc | hb'
      · exact absurd (List.mem_map.mpr ⟨a, ha', by rw [h, hbc]⟩) hn.1
      · exact ih hn.2 ha' hb'

/-- **translated choice label**: the text shown for a choice in a language is the text of that choice's label for
that language — no other choice of any list, no element and no media of the choice writes there -/
theorem value_choice_label {x : Survey} (hn : (x.lists.map (·.name)).Nodup) {l : CList} (hl : l ∈ x.lists)
    (hr : requiresItext l = true) {i : Nat} {o : Opt} (hi : l.options[i]? = some o)
    {pairs : List (Str × Str)} (hlab : o.label = .dict pairs) (hfun : Functional pairs)
    (hlong : ∀ m, o.media = some m → "long".toList ∉ m.map (·.1))
    {lang t : Str} (hlt : (lang, t) ∈ pairs) :
    valueAt (table x) lang (choiceId l.name i) "long".toList = some t := by
  let e : Ent := ⟨lang, choiceId l.name i, "long".toList, t⟩
  have htruthy : o.label.truthy = true := by
    rw [hlab]; cases pairs with
    | nil => cases hlt
    | cons a b => rfl
  have he : e ∈ C07.ents x := by
    apply C07.mem_ents_of_choice
    unfold choiceEntries
    refine List.mem_flatMap.mpr ⟨l, hl, ?_⟩
    simp only [hr, if_true]
    apply optsEntries_of_mem (k := 0) hi
    simp only [Nat.zero_add, optEntries, htruthy, if_true, List.mem_append]
    left
    rw [hlab]
    exact List.mem_map.mpr ⟨(lang, t), hlt, rfl⟩
  have hag : ∀ e' ∈ C07.ents x, sameKey e e' → e'.text = e.text := by
    intro e' he' hkey
    have hp : e'.path = choiceId l.name i := hkey.2.1.symm
    have hform : e'.form = "long".toList := hkey.2.2.symm
    simp only [C07.ents, entries, List.mem_append] at he'
    have notElem : ∀ f', e' ∈ elemEntries x.defaultLanguage f' ++ mediaEntries x.defaultLanguage f' → False := by
      intro f' hin
      obtain ⟨d, hd, hpd⟩ := block_display (block_of_mem hin)
      exact choiceId_ne_path l.name i f'.xpath hd (hp.symm.trans hpd)
    rcases he' with (he' | he') | he'
    · obtain ⟨l', hl', _, j, o', hj, hin⟩ := mem_choiceEntries he'
      have hpe : e'.path = choiceId l'.name j := path_optEntries hin
      obtain ⟨hname, hji⟩ := choiceId_inj (hpe.symm.trans hp)
      have hll : l' = l := eq_of_name hn hl' hl hname
      subst hll; subst hji
      rw [hi] at hj
      cases hj
      simp only [optEntries, htruthy, if_true, List.mem_append] at hin
      rcases hin with hin | hin
      · rw [hlab] at hin
        obtain ⟨_, _, h3⟩ := mem_entsOf hin
        exact hfun (e'.lang, e'.text) h3 (lang, t) hlt hkey.1.symm
      · cases hmo : o.media with
        | none => simp [hmo] at hin
        | some m =>
          simp only [hmo] at hin
          split at hin
          · unfold mediaEnts at hin
            obtain ⟨kv, hkv, hin2⟩ := List.mem_flatMap.mp hin
            obtain ⟨_, h2, _⟩ := mem_entsOf hin2
            exact absurd (List.mem_map.mpr ⟨kv, hkv, h2.symm.trans hform⟩) (hlong m hmo)
          · cases hin
    · obtain ⟨f', _, hin⟩ := List.mem_flatMap.mp he'
      exact (notElem f' (List.mem_append.mpr (Or.inl hin))).elim
    · obtain ⟨f', _, hin⟩ := List.mem_flatMap.mp he'
      exact (notElem f' (List.mem_append.mpr (Or.inr hin))).elim
  have h1 := valueAt_setup_agree he hag
  exact valueAt_pad x.lists _ _ _ _ _ h1

/-! ### reading the slots from the sheet (C08) -/

def pairsOf (M : Kvs) : List (Str × Str) := M.keys.map fun k => (k, strOf (M.get k))

theorem functional_pairsOf (M : Kvs) : Functional (pairsOf M) := by
  intro a ha b hb hab
  simp only [pairsOf, List.mem_map] at ha hb
  obtain ⟨k, _, rfl⟩ := ha
  obtain ⟨k', _, rfl⟩ := hb
  simp only at hab
  subst hab
  rfl

/-- what C08 says about one text column of a row, in the shape the value theorems need -/
theorem slot_of_row {dl : Str} {hk : List (Str × List Str)} {row : List (Str × Str)} {out M : Kvs} {col : Str}
    (hrow : RowOk dl hk textCols row) (hcol : col ∈ textCols) (hout : processRow dl hk row = .ok out)
    (hv : out.get col = .dict M) {l t : Str} (hspec : specRead dl (colCells hk col row) l = some t) :
    (l, t) ∈ pairsOf M := by
  obtain ⟨out', hout', hget⟩ := row_grouping dl hk row .nil hrow.headers hrow.noClash
  have hoo : out' = out := by
    have : processRow dl hk row = .ok out' := hout'
    rw [hout] at this; exact (Except.ok.inj this).symm
  subst hoo
  have hc : out'.get col = colVal dl .none (colCells hk col row) := by
    rw [hget, colFold_eq_colVal dl hk _ row _ (hrow.oneLevel _ hcol)]
    simp [Kvs.get]
  have hread := column_reading dl (colCells hk col row)
    (colCells_texts hk _ row hrow.nonEmpty) (hrow.distinct _ hcol) l
  rw [← hc, hv, hspec] at hread
  have hget_l : M.get l = .str t := by
    simp only [readLang] at hread
    split at hread
    · next t' ht' => cases hread; exact ht'
    · cases hread
  exact List.mem_map.mpr ⟨l, mem_keys_of_get hget_l, by rw [hget_l]; rfl⟩

/-- **Effective text from the sheets** (C08 ∘ C07, text columns, any nesting): let `f` be an element of a survey
with pairwise distinct xpaths, built from the grouped row `out` of the row `row` as typed (`RowOkG`).  For each of
the columns `label`, `hint`, `guidance_hint` that ends up translated (a dict): if C08's reading of the column's cells
(`specRead`: the cell suffixed with the language, else — for the default language — the unsuffixed cell) gives `t`
for language `l`, then `t` is what the final translation table holds for `l` under the element's label id / hint id
(content type `long`, resp. `guidance`) — in the presence of media and bind-message columns, in sections of any
depth.  (`hlong`: no media column is called `long`.)
Remaining gap to the complete effective-text statement: the *values* of media and bind messages and of choice
labels (their ids and existence are covered by `refs_exist_rows`); untranslated inline texts are C08's alone. -/
theorem effective_text_rows {x : Survey} (hx : ((flats x).map (·.xpath)).Nodup) {f : Flat} (hf : f ∈ flats x)
    {dl : Str} {hk : List (Str × List Str)} {kind : Kind} {n : Str} {row : List (Str × Str)} {out : Kvs}
    (hd : f.d = rowElemK kind n out) (hrow : RowOkG dl hk row) (hout : processRow dl hk row = .ok out)
    (hlong : ∀ M', out.get "media".toList = .dict M' → "long".toList ∉ M'.keys) {l t : Str} :
    (∀ M, out.get "label".toList = .dict M → specRead dl (colCells hk "label".toList row) l = some t →
      valueAt (table x) l (path f.xpath "label") "long".toList = some t) ∧
    (∀ M, out.get "hint".toList = .dict M → specRead dl (colCells hk "hint".toList row) l = some t →
      valueAt (table x) l (path f.xpath "hint") "long".toList = some t) ∧
    (∀ M, f.d.guidance = txtOfV (out.get "guidance_hint".toList) → out.get "guidance_hint".toList = .dict M →
      specRead dl (colCells hk "guidance_hint".toList row) l = some t →
      valueAt (table x) l (path f.xpath "hint") "guidance".toList = some t) := by
  have hvis : visited f = true := by rw [visited, hd]; cases kind <;> rfl
  refine ⟨?_, ?_, ?_⟩
  · intro M hv hspec
    have hmem := slot_of_row hrow.text (by simp [textCols]) hout hv hspec
    have hl : f.d.label = .dict (pairsOf M) := by
      rw [hd]; show txtOfV (out.get "label".toList) = _; rw [hv]; rfl
    refine value_label hx hf hvis hl ⟨functional_pairsOf M, ?_⟩ hmem
    intro m hm
    rw [hd] at hm
    have hm' : mediaOfV (out.get "media".toList) = some m := hm
    cases hmv : out.get "media".toList with
    | none => rw [hmv] at hm'; cases hm'
    | str s => rw [hmv] at hm'; cases hm'
    | dict M' =>
      rw [hmv] at hm'
      simp only [mediaOfV, Option.some.injEq] at hm'
      subst hm'
      simpa [List.map_map, Function.comp_def] using hlong M' hmv
  · intro M hv hspec
    have hmem := slot_of_row hrow.text (by simp [textCols]) hout hv hspec
    have hl : f.d.hint = .dict (pairsOf M) := by
      rw [hd]; show txtOfV (out.get "hint".toList) = _; rw [hv]; rfl
    exact value_hint hx hf hvis hl (functional_pairsOf M) hmem
  · intro M hg hv hspec
    have hmem := slot_of_row hrow.text (by simp [textCols]) hout hv hspec
    have hl : f.d.guidance = .dict (pairsOf M) := by rw [hg, hv]; rfl
    exact value_guidance hx hf hvis hl (functional_pairsOf M) hmem

/-! ### media and bind-message columns from the sheet (C08 `group_column_reading`) -/

theorem readLang_langsOf {dl : Str} {v : V} {l t : Str} (h : readLang dl v l = some t) :
    (l, t) ∈ langsOf dl (txtOfV v) ∧ Functional (langsOf dl (txtOfV v)) := by
  cases v with
  | none => simp [readLang] at h
  | str u =>
    simp only [readLang] at h
    split at h
    · next hl => cases h; subst hl; exact ⟨by simp [txtOfV, langsOf], by
        intro a ha b hb _
        simp only [txtOfV, langsOf, List.mem_singleton] at ha hb
        rw [ha, hb]⟩
    · cases h
  | dict m =>
    have hg : m.get l = .str t := by
      simp only [readLang] at h
      split at h
      · next t' ht' => cases h; exact ht'
      · cases h
    refine ⟨?_, functional_pairsOf m⟩
    show (l, t) ∈ pairsOf m
    exact List.mem_map.mpr ⟨l, mem_keys_of_get hg, by rw [hg]; rfl⟩

theorem mem_keys_of_get_ne {m : Kvs} {k : Str} (h : m.get k ≠ .none) : k ∈ m.keys := by
  rw [← Kvs.has_iff_mem_keys]
  cases hh : m.has k with
  | true => rfl
  | false => exact absurd (Kvs.get_of_not_has m k hh) h

/-- what C08 says about sub-column `g::k` of a row: the group column is a dict with unique keys, `k` is one of them,
and its value reads `t` for language `l` -/
theorem group_slot_of_row {dl : Str} {hk : List (Str × List Str)} {row : List (Str × Str)} {out : Kvs} {g k : Str}
    (hrow : RowOkG dl hk row) (hg : g ∈ groupCols) (hout : processRow dl hk row = .ok out) {l t : Str}
    (hspec : specRead dl (subCells hk g k row) l = some t) :
    ∃ M, out.get g = .dict M ∧ M.keys.Nodup ∧ k ∈ M.keys ∧
      (l, t) ∈ langsOf dl (txtOfV (M.get k)) ∧ Functional (langsOf dl (txtOfV (M.get k))) := by
  obtain ⟨out', hout', _, hgrp⟩ := processRow_good hrow
  have hoo : out' = out := by rw [hout] at hout'; exact (Except.ok.inj hout').symm
  subst hoo
  obtain ⟨hinv, _⟩ := hgrp g hg
  obtain ⟨out2, hout2, hget⟩ := row_grouping dl hk row .nil hrow.text.headers hrow.text.noClash
  have hoo2 : out2 = out' := by
    have : processRow dl hk row = .ok out2 := hout2
    rw [hout] at this; exact (Except.ok.inj this).symm
  subst hoo2
  have hread := group_column_reading dl hk g k row (hrow.groupShape g hg)
    (subCells_texts hk g k row hrow.text.nonEmpty) (hrow.groupDistinct g hg k) l
  have hcol : out2.get g = colFold dl hk g .none row := by rw [hget]; rfl
  rw [← hcol, hspec] at hread
  cases hv : out2.get g with
  | none => rw [hv] at hread; simp [getK, readLang] at hread
  | str s => rw [hv] at hinv; exact absurd hinv (by simp [GroupInv])
  | dict M =>
    rw [hv] at hread hinv
    simp only [getK] at hread
    obtain ⟨h1, h2⟩ := readLang_langsOf hread
    have hne : M.get k ≠ .none := by
      intro e; rw [e] at hread; simp [readLang] at hread
    exact ⟨M, rfl, hinv.1, mem_keys_of_get_ne hne, h1, h2⟩

theorem lookup_map_filter (ks : List Str) (p : Str → Bool) (g : Str → Txt) (k : Str) (hk : k ∈ ks) (hp : p k = true) :
    lookup k ((ks.filter p).map fun a => (a, g a)) = some (g k) := by
  induction ks with
  | nil => cases hk
  | cons a rest ih =>
    by_cases hpa : p a = true
    · simp only [List.filter_cons, hpa, if_true, List.map_cons, lookup]
      by_cases hka : k = a
      · simp [hka]
      · simp only [hka, if_false]
        exact ih (by rcases List.mem_cons.mp hk with h | h; exact absurd h hka; exact h)
    · simp only [List.filter_cons, hpa]
      have hka : k ≠ a := by intro e; rw [e] at hp; exact hpa hp
      exact ih (by rcases List.mem_cons.mp hk with h | h; exact absurd h hka; exact h)

/-- **Effective media and message texts from the sheets** (C08 `group_column_reading` ∘ C07): for an element `f` built
from the grouped row of `row` — if C08's reading of the cells of `media::<k>[::language]` gives `t` for language `l`,
the final table holds `t` for `l` under `f`'s label id with content type `k`; if the cells of a bind-message column
`bind::<key>::language` (a translated message: the value is a dict) read `t` for `l`, the table holds `t` under
`f`'s message id. -/
theorem effective_group_rows {x : Survey} (hx : ((flats x).map (·.xpath)).Nodup) {f : Flat} (hf : f ∈ flats x)
    {hk : List (Str × List Str)} {kind : Kind} {n : Str} {row : List (Str × Str)} {out : Kvs}
    (hd : f.d = rowElemK kind n out) (hrow : RowOkG x.defaultLanguage hk row)
    (hout : processRow x.defaultLanguage hk row = .ok out) {l t : Str} :
    (∀ k, k ≠ "long".toList → specRead x.defaultLanguage (subCells hk "media".toList k row) l = some t →
      valueAt (table x) l (path f.xpath "label") k = some t) ∧
    (∀ (key : String), key ∈ ["jr:constraintMsg", "jr:requiredMsg", "jr:noAppErrorString"] →
      (∀ B, out.get "bind".toList = .dict B → ∃ Mk, B.get key.toList = .dict Mk) →
      specRead x.defaultLanguage (subCells hk "bind".toList key.toList row) l = some t →
      valueAt (table x) l (path f.xpath key) "long".toList = some t) := by
  have hvis : visited f = true := by rw [visited, hd]; cases kind <;> rfl
  constructor
  · intro k hkl hspec
    obtain ⟨M, hv, hnd, hkm, hlt, hfun⟩ := group_slot_of_row hrow (by simp [groupCols]) hout hspec
    have hm : f.d.media = some (M.keys.map fun a => (a, txtOfV (M.get a))) := by
      rw [hd]; show mediaOfV (out.get "media".toList) = _; rw [hv]; rfl
    refine value_media hx hf hvis hm ?_ (List.mem_map.mpr ⟨k, hkm, rfl⟩) hkl hfun hlt
    simpa [List.map_map, Function.comp_def] using hnd
  · intro key hkey hdict hspec
    obtain ⟨B, hv, _, hkb, hlt, hfun⟩ := group_slot_of_row hrow (g := "bind".toList) (by simp [groupCols]) hout hspec
    obtain ⟨Mk, hMk⟩ := hdict B hv
    have hmsgkey : msgKeys.contains key.toList = true := by
      simp only [List.mem_cons, List.mem_nil_iff, or_false] at hkey
      rcases hkey with rfl | rfl | rfl <;> decide
    have hm : msgOf f.d key = txtOfV (B.get key.toList) := by
      rw [hd]
      show (lookup key.toList (msgsOfV (out.get "bind".toList))).getD .none = _
      rw [hv]
      simp only [msgsOfV]
      rw [lookup_map_filter B.keys (fun k => msgKeys.contains k) (fun a => txtOfV (B.get a)) key.toList hkb hmsgkey]
      rfl
    rw [hMk] at hm hlt hfun
    exact value_msg hx hf hvis hkey (pairs := pairsOf Mk) hm (functional_pairsOf Mk) hlt

/-- **Effective choice label from the choices sheet**: for the `i`-th row `row` of list `name` (grouped row `o`), if the
label column is translated and C08's reading of its cells gives `t` for language `l`, the final table holds `t` for `l`
under `name-i`. -/
theorem effective_choice_rows {dl : Str} {trees : List RowTree} {ls : List (Str × List Kvs)}
    (hn : (ls.map (·.1)).Nodup) {name : Str} {outs : List Kvs} (hl : (name, outs) ∈ ls) {i : Nat} {o : Kvs}
    (hi : outs[i]? = some o) (hreq : requiresItext (listOfG name outs) = true)
    {hk : List (Str × List Str)} {row : List (Str × Str)} (hrow : RowOkG dl hk row)
    (hout : processRow dl hk row = .ok o) {M : Kvs} (hv : o.get "label".toList = .dict M)
    (hlong : ∀ M', o.get "media".toList = .dict M' → "long".toList ∉ M'.keys) {l t : Str}
    (hspec : specRead dl (colCells hk "label".toList row) l = some t) :
    valueAt (table (treeSurvey dl trees ls)) l (choiceId name i) "long".toList = some t := by
  have hmem := slot_of_row hrow.text (by simp [textCols]) hout hv hspec
  have hnames : ((treeSurvey dl trees ls).lists.map (·.name)).Nodup := by
    simpa [treeSurvey, listOfG, List.map_map, Function.comp_def] using hn
  have hlm : listOfG name outs ∈ (treeSurvey dl trees ls).lists :=
    List.mem_map.mpr ⟨(name, outs), hl, rfl⟩
  have hopt : (listOfG name outs).options[i]? = some (optOf o) := by
    simp [listOfG, List.getElem?_map, hi]
  have hlab : (optOf o).label = .dict (pairsOf M) := by
    show txtOfV (o.get "label".toList) = _; rw [hv]; rfl
  refine value_choice_label hnames hlm hreq hopt hlab (functional_pairsOf M) ?_ hmem
  intro m hm
  have hm' : mediaOfV (o.get "media".toList) = some m := hm
  cases hmv : o.get "media".toList with
  | none => rw [hmv] at hm'; cases hm'
  | str s => rw [hmv] at hm'; cases hm'
  | dict M' =>
    rw [hmv] at hm'
    simp only [mediaOfV, Option.some.injEq] at hm'
    subst hm'
    simpa [List.map_map, Function.comp_def] using hlong M' hmv

/-- non-vacuity of `effective_group_rows` and `effective_choice_rows` on the same example: the group's French image,
the English constraint message of `a`, the French label of the first choice of `yn` -/
example :
    (match groupTrees "default".toList hkG treesG, groupLists "default".toList hkG listsG with
     | .ok gt, .ok gl =>
       let x := treeSurvey "default".toList gt gl
       specRead "default".toList (subCells hkG "media".toList "image".toList
         [("label::fr".toList, "Gf".toList), ("image::fr".toList, "g.png".toList)]) "fr".toList == some "g.png".toList &&
       valueAt (table x) "fr".toList (path "/data/g".toList "label") "image".toList == some "g.png".toList &&
       valueAt (table x) "en".toList (path "/data/g/a".toList "jr:constraintMsg") "long".toList == some "positive".toList &&
       valueAt (table x) "fr".toList (choiceId "yn".toList 0) "long".toList == some "Oui".toList &&
       valueAt (table x) "fr".toList (choiceId "yn".toList 1) "long".toList == some dashStr &&
       decide ((gl.map (·.1)).Nodup) && gl.all (fun l => requiresItext (listOfG l.1 l.2))
     | _, _ => false) = true := by decide +kernel

/-- non-vacuity of the plain-string value theorems: the plain guidance hint and the `${}` required message of `a` in
the nested example, and the plain hint next to a translated guidance hint of `C07.ex1` -/
example :
    (match groupTrees "default".toList hkG treesG, groupLists "default".toList hkG listsG with
     | .ok gt, .ok gl =>
       let x := treeSurvey "default".toList gt gl
       valueAt (table x) "default".toList (path "/data/g/a".toList "hint") "guidance".toList == some "gd".toList &&
       valueAt (table x) "default".toList (path "/data/g/a".toList "jr:requiredMsg") "long".toList
         == some "need ${b}".toList
     | _, _ => false) = true ∧
    valueAt (table (C07.ex1 (C07.tr [("en", "B")]))) "default".toList (path "/data/a".toList "hint") "long".toList
      = some "h".toList := by decide +kernel

/-- non-vacuity of `effective_text_rows` on the nested example of `C07Sheets` (question `a` inside group `g`, with
media and bind-message columns around): xpaths are distinct, the row of `a` is `RowOkG`, its label and hint columns
are dicts, no media column is called `long`; the spec reads `Qfr` / `Q` / `h` and the final table holds exactly that -/
example :
    (match groupTrees "default".toList hkG treesG, groupLists "default".toList hkG listsG with
     | .ok gt, .ok gl =>
       let x := treeSurvey "default".toList gt gl
       let rowA : List (Str × Str) :=
         [("label::fr".toList, "Qfr".toList), ("label".toList, "Q".toList), ("hint::en".toList, "h".toList),
          ("guidance_hint".toList, "gd".toList), ("constraint".toList, ". > 0".toList),
          ("constraint_message::en".toList, "positive".toList), ("required_message".toList, "need ${b}".toList)]
       decide (((flats x).map (·.xpath)).Nodup) && rowOkGB "default".toList hkG rowA &&
       (flats x).any (fun f => f.xpath == "/data/g/a".toList) &&
       specRead "default".toList (colCells hkG "label".toList rowA) "fr".toList == some "Qfr".toList &&
       specRead "default".toList (colCells hkG "hint".toList rowA) "en".toList == some "h".toList &&
       valueAt (table x) "fr".toList (path "/data/g/a".toList "label") "long".toList == some "Qfr".toList &&
       valueAt (table x) "default".toList (path "/data/g/a".toList "label") "long".toList == some "Q".toList &&
       valueAt (table x) "en".toList (path "/data/g/a".toList "hint") "long".toList == some "h".toList
     | _, _ => false) = true := by decide +kernel

end Pyxv.C07Text
