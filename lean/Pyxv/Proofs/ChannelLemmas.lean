import Pyxv.Proofs.ChannelSpec
import Pyxv.Proofs.XmlRoundTrip
/-!
# Helper lemmas for the text channels (C06)
-/
namespace Pyxv.Chan
open Pyxv.Xml

/-! ## single text node / single attribute through writer and reader -/

theorem expectedLax_nodeText (tag s : Str) :
    expectedLax (nodeText tag s) = .elem tag [] (chunk false (normEol s)) := by
  cases s with
  | nil =>
    simp [expectedLax, expected, nodeText, normAttrs, normAttrList, normAttrsKids, withSpaces, withSpacesKids,
      isText, leadSp, trailSp, textIfNonempty, normNode, normKids, mergeText, normText, normTextKids, chunk, normEol]
  | cons c s =>
    have h : (normEol (c :: s)).isEmpty = false := by
      cases h : normEol (c :: s) with
      | nil => exact absurd h (normEol_ne_nil c s)
      | cons _ _ => rfl
    simp [expectedLax, expected, nodeText, normAttrs, normAttrList, normAttrsKids, withSpaces, withSpacesKids,
      isText, leadSp, trailSp, textIfNonempty, normNode, normKids, mergeText, normText, normTextKids, chunk, h]

theorem expectedLax_nodeAttr (tag k v : Str) :
    expectedLax (nodeAttr tag k v) = .elem tag [(k, normAttrVal v)] [] := by
  simp [expectedLax, expected, nodeAttr, normAttrs, normAttrList, normAttrsKids, withSpaces, withSpacesKids,
    normNode, normKids, mergeText, normText, normTextKids]

/-! ## `shape` (tags + attribute names) is invariant under everything a reader normalises -/

theorem shapes_text (b : Bool) (s : Str) (L : List Node) : shapes (.text b s :: L) = shapes L := by
  simp [shapes, shape]

theorem shapes_append (L1 L2 : List Node) : shapes (L1 ++ L2) = shapes L1 ++ shapes L2 := by
  induction L1 with
  | nil => simp [shapes]
  | cons n r ih => simp [shapes, ih]

theorem shapes_prepend (a : Str) (L : List Node) : shapes (prepend a L) = shapes L := by
  cases a with
  | nil => rfl
  | cons c a =>
    cases L with
    | nil => simp [prepend, shapes, shape]
    | cons n r => cases n <;> simp [prepend, shapes, shape]

theorem shapes_mergeText (L : List Node) : shapes (mergeText L) = shapes L := by
  induction L with
  | nil => simp [mergeText]
  | cons n r ih =>
    cases n with
    | text b s => simp [mergeText_text, shapes_prepend, ih, shapes_text]
    | elem t a ks => simp [mergeText_elem, shapes, ih]

mutual
theorem shape_normNode : ∀ (n : Node), shape (normNode n) = shape n
  | .text _ _ => by simp [normNode_text, shape]
  | .elem t a ks => by
    rw [normNode_elem]
    simp only [shape, shapes_mergeText, shapes_normKids ks]
theorem shapes_normKids : ∀ (ks : List Node), shapes (normKids ks) = shapes ks
  | [] => by simp [normKids]
  | k :: ks => by simp [normKids, shapes, shape_normNode k, shapes_normKids ks]
end

mutual
theorem shape_layout : ∀ (n : Node) (ind add nl : Str), shape (layout ind add nl n) = shape n
  | .text _ _, _, _, _ => by simp [layout]
  | .elem t a [], _, _, _ => by simp [layout]
  | .elem t a (k :: ks), ind, add, nl => by
    simp only [layout, shape]
    split <;> simp [shapes_text, shapes_append, shapes, shape, shapes_layoutKids (k :: ks)]
theorem shapes_layoutKids : ∀ (ks : List Node) (ind add nl : Str), shapes (layoutKids ind add nl ks) = shapes ks
  | [], _, _, _ => by simp [layoutKids]
  | k :: ks, ind, add, nl => by
    simp [layoutKids, shapes, shape, shape_layout k ind add nl, shapes_layoutKids ks ind add nl]
end

mutual
theorem shape_normAttrs : ∀ (n : Node), shape (normAttrs n) = shape n
  | .text _ _ => by simp [normAttrs]
  | .elem t a ks => by
    simp only [normAttrs, shape, shapes_normAttrsKids ks]
    simp [normAttrList, Function.comp_def]
theorem shapes_normAttrsKids : ∀ (ks : List Node), shapes (normAttrsKids ks) = shapes ks
  | [] => by simp [normAttrsKids]
  | k :: ks => by simp [normAttrsKids, shapes, shape_normAttrs k, shapes_normAttrsKids ks]
end

mutual
theorem shape_normText : ∀ (n : Node), shape (normText n) = shape n
  | .text _ _ => by simp [normText, shape]
  | .elem t a ks => by simp only [normText, shape, shapes_normTextKids ks]
theorem shapes_normTextKids : ∀ (ks : List Node), shapes (normTextKids ks) = shapes ks
  | [] => by simp [normTextKids]
  | k :: ks => by simp [normTextKids, shapes, shape_normText k, shapes_normTextKids ks]
end

theorem shape_expectedLax (t : Node) : shape (expectedLax t) = shape t := by
  rw [expectedLax, expected, ← norm_layout_compact, shape_normText, shape_normNode, shape_layout, shape_normAttrs]

theorem shape_expectedPrettyLax (t : Node) : shape (expectedPrettyLax t) = shape t := by
  rw [expectedPrettyLax, expectedPretty, shape_normText, shape_normNode, shape_layout, shape_normAttrs]

/-! ## `subOutputs` (the `re.sub` of `insert_output_values`) -/

/-- `subOutputs` maps `e` to `out` whenever the fuel exceeds the length of `e` -/
def SubTo (refs : List (Str × Str)) (e out : Str) : Prop :=
  ∀ fuel, e.length < fuel → subOutputs refs fuel e = some out

theorem SubTo.nil (refs : List (Str × Str)) : SubTo refs [] [] := by
  intro fuel h
  cases fuel with
  | zero => simp at h
  | succ f => simp [subOutputs]

theorem SubTo.plain {refs : List (Str × Str)} {c : Char} {r out : Str} (h : SubTo refs r out)
    (hc : c ≠ '$' ∨ ∀ r', r ≠ '{' :: r') : SubTo refs (c :: r) (c :: out) := by
  intro fuel hf
  cases fuel with
  | zero => simp at hf
  | succ f =>
    have hr := h f (by simp at hf; omega)
    rw [subOutputs.eq_def]
    split
    · simp_all
    · simp_all
    · rename_i heq
      simp at heq
      rcases hc with hc | hc
      · exact absurd heq.1 hc
      · exact absurd heq.2 (hc _)
    · rename_i heq
      simp_all

theorem SubTo.prefix {refs : List (Str × Str)} {X out : Str} (h : SubTo refs X out) (p : Str)
    (hp : ∀ c ∈ p, c ≠ '$') : SubTo refs (p ++ X) (p ++ out) := by
  induction p with
  | nil => simpa using h
  | cons c p ih =>
    have := ih (fun d hd => hp d (List.mem_cons_of_mem _ hd))
    exact SubTo.plain this (Or.inl (hp c (List.mem_cons_self ..)))

theorem SubTo.ref {refs : List (Str × Str)} {r rest out n v : Str} {ls : Bool}
    (hm : matchRef r = some (ls, n, rest)) (hv : varRepl refs ls n = some v) (hlen : rest.length ≤ r.length)
    (h : SubTo refs rest out) : SubTo refs ('$' :: '{' :: r) (outputMarkup v ++ out) := by
  intro fuel hf
  cases fuel with
  | zero => simp at hf
  | succ f =>
    have hr := h f (by simp at hf; omega)
    rw [subOutputs.eq_def]
    simp [hm, hv, hr]

theorem escTextChar_no_dollar {c : Char} (h : c ≠ '$') : ∀ d ∈ escTextChar c, d ≠ '$' := by
  unfold escTextChar
  split <;> simp_all <;> decide

theorem escText_head_brace (t X : Str) (ht : ∀ r', t ≠ '{' :: r') (hX : ∀ r', X ≠ '{' :: r') :
    ∀ r', escText t ++ X ≠ '{' :: r' := by
  cases t with
  | nil => simpa using hX
  | cons d t =>
    intro r'
    rw [escText_cons]
    have hd : d ≠ '{' := by intro h; exact ht t (by rw [h])
    unfold escTextChar
    split <;> simp_all

theorem SubTo.text {refs : List (Str × Str)} {X out : Str} (h : SubTo refs X out) (hX : ∀ r', X ≠ '{' :: r')
    (t : Str) (ht : hasDollarBrace t = false) : SubTo refs (escText t ++ X) (escText t ++ out) := by
  induction t with
  | nil => simpa using h
  | cons c t ih =>
    have ht' : hasDollarBrace t = false := by
      unfold hasDollarBrace at ht
      split at ht <;> simp_all
    have := ih ht'
    rw [escText_cons, List.append_assoc, List.append_assoc]
    by_cases hc : c = '$'
    · subst hc
      have hb : ∀ r', t ≠ '{' :: r' := by
        intro r' h'
        subst h'
        simp [hasDollarBrace] at ht
      have : SubTo refs ('$' :: (escText t ++ X)) ('$' :: (escText t ++ out)) :=
        SubTo.plain this (Or.inr (escText_head_brace t X hb hX))
      simpa [escTextChar] using this
    · exact SubTo.prefix this _ (escTextChar_no_dollar hc)

theorem startsWith_sep (sep : Char) (b : Str) : ∀ (a p : Str), (∀ c ∈ p, c ≠ sep) →
    startsWith (a ++ sep :: b) p = startsWith a p
  | [], [], _ => by simp [startsWith]
  | [], c :: ps, h => by
    have : sep ≠ c := fun e => h c (List.mem_cons_self ..) e.symm
    simp [startsWith, this]
  | x :: a, [], _ => by simp [startsWith]
  | x :: a, c :: ps, h => by
    simp [startsWith, startsWith_sep sep b a ps (fun d hd => h d (List.mem_cons_of_mem _ hd))]

theorem takeToBrace_name (n rest : Str) (hn : ∀ c ∈ n, c ≠ '}' ∧ c ≠ '\n') :
    takeToBrace (n ++ '}' :: rest) = some (n, rest) := by
  induction n with
  | nil => simp [takeToBrace]
  | cons c n ih =>
    have h1 := (hn c (List.mem_cons_self ..)).1
    have h2 := (hn c (List.mem_cons_self ..)).2
    have := ih (fun d hd => hn d (List.mem_cons_of_mem _ hd))
    simp only [List.cons_append]
    rw [takeToBrace.eq_def]
    split <;> simp_all

theorem startsWith_length : ∀ (a p : Str), startsWith a p = true → p.length ≤ a.length
  | _, [], _ => by simp
  | [], _ :: _, h => by simp [startsWith] at h
  | x :: a, c :: p, h => by
    simp only [startsWith, Bool.and_eq_true] at h
    have := startsWith_length a p h.2
    simp; omega

/-- what `BRACKETED_TAG_REGEX` extracts from `${n}…`: the `last-saved#` marker (if `n` starts with it) and the name -/
theorem matchRef_name (n rest : Str) (hn : NameOk n) :
    matchRef (n ++ '}' :: rest) =
      some (startsWith n lastSavedTag, (if startsWith n lastSavedTag then n.drop lastSavedTag.length else n), rest) := by
  have h1 : startsWith (n ++ '}' :: rest) lastSavedTag = startsWith n lastSavedTag :=
    startsWith_sep '}' rest n lastSavedTag (by decide)
  cases hs : startsWith n lastSavedTag with
  | false =>
    have h2 := takeToBrace_name n rest (fun c hc => ⟨(hn c hc).1, (hn c hc).2.1⟩)
    simp [matchRef, h1, hs, h2]
  | true =>
    have hl := startsWith_length n lastSavedTag hs
    have hd : (n ++ '}' :: rest).drop lastSavedTag.length = n.drop lastSavedTag.length ++ '}' :: rest :=
      List.drop_append_of_le_length hl
    have h2 := takeToBrace_name (n.drop lastSavedTag.length) rest
      (fun c hc => ⟨(hn c (List.mem_of_mem_drop hc)).1, (hn c (List.mem_of_mem_drop hc)).2.1⟩)
    simp [matchRef, h1, hs, hd, h2]

theorem escText_plain (n : Str) (hn : ∀ c ∈ n, c ≠ '&' ∧ c ≠ '<' ∧ c ≠ '>') : escText n = n := by
  induction n with
  | nil => rfl
  | cons c n ih =>
    have hc := hn c (List.mem_cons_self ..)
    rw [escText_cons, escTextChar_plain hc.1 hc.2.1 hc.2.2, ih (fun d hd => hn d (List.mem_cons_of_mem _ hd))]
    rfl

theorem escText_refMarkup (n : Str) (hn : NameOk n) : escText (refMarkup n) = refMarkup n := by
  apply escText_plain
  intro c hc
  simp only [refMarkup, List.mem_cons, List.mem_append, List.mem_nil_iff, or_false] at hc
  rcases hc with (rfl | rfl | hc) | rfl
  · decide
  · decide
  · exact ⟨(hn c hc).2.2.1, (hn c hc).2.2.2.1, (hn c hc).2.2.2.2⟩
  · decide

/-- all names are delimitable and known, all literal texts are free of `${` -/
def TailOk : List (Str × Str) → Prop
  | [] => True
  | (n, t) :: rest => NameOk n ∧ hasDollarBrace t = false ∧ TailOk rest

theorem tailText_head (tail : List (Str × Str)) : ∀ r', Cell.tailText tail ≠ '{' :: r' := by
  cases tail with
  | nil => simp [Cell.tailText]
  | cons nt rest => obtain ⟨n, t⟩ := nt; simp [Cell.tailText, refMarkup]

theorem subTo_tail (refs : List (Str × Str)) : ∀ (tail items : List (Str × Str)), TailOk tail →
    resolve refs tail = some items → SubTo refs (escText (Cell.tailText tail)) (itemsMarkup items)
  | [], items, _, hr => by
    simp [resolve] at hr
    subst hr
    simpa [Cell.tailText, itemsMarkup] using SubTo.nil refs
  | (n, t) :: rest, items, hok, hr => by
    obtain ⟨hn, ht, hrest⟩ := hok
    simp only [resolve] at hr
    split at hr
    · rename_i v items' hv hres
      simp at hr
      subst hr
      have ih := subTo_tail refs rest items' hrest hres
      have h1 := SubTo.text ih (by
        intro r' h'
        have := tailText_head rest
        cases rest with
        | nil => simp [Cell.tailText] at h'
        | cons nt rest' =>
          obtain ⟨n', t'⟩ := nt
          simp [Cell.tailText, refMarkup, escText_cons, escTextChar] at h') t ht
      simp only [Cell.tailText, escText_append, escText_refMarkup n hn, itemsMarkup]
      simp only [refMarkup, List.cons_append, List.append_assoc]
      refine SubTo.ref (matchRef_name n _ hn) (by
        unfold varReplName at hv
        cases hs : startsWith n lastSavedTag <;> simp_all) ?_ h1
      simp only [List.length_append, List.length_cons]
      omega
    · simp at hr

/-! ## the re-parse of `node(..., toParseString=True)` -/

theorem chunk_false (s : Str) : chunk false s = textIfNonempty s := rfl

theorem escAttr_plain (v : Str) (hv : ∀ c ∈ v, c ≠ '&' ∧ c ≠ '<' ∧ c ≠ '>' ∧ c ≠ '"') : escAttr v = v := by
  induction v with
  | nil => rfl
  | cons c v ih =>
    have hc := hv c (List.mem_cons_self ..)
    rw [escAttr_cons, escAttrChar_plain hc.1 hc.2.1 hc.2.2.1 hc.2.2.2, ih (fun d hd => hv d (List.mem_cons_of_mem _ hd))]
    rfl

theorem ValOk.esc {v : Str} (h : ValOk v) : escAttr v = v :=
  escAttr_plain v fun c hc => (h c hc).2

theorem ValOk.attrOk {v : Str} (h : ValOk v) : v.all attrCharOk = true :=
  List.all_eq_true.mpr fun c hc => (h c hc).1

def tagOutput : Str := ['o','u','t','p','u','t']
def attrValue : Str := ['v','a','l','u','e']
def declSpaced : Str := ['<','?','x','m','l',' ','v','e','r','s','i','o','n','=','"','1','.','0','"',' ','?','>']

theorem outputMarkup_eq (v X : Str) : outputMarkup v ++ X =
    '<' :: (tagOutput ++ ' ' :: (attrValue ++ '=' :: '"' :: (v ++ '"' :: ' ' :: '/' :: '>' :: X))) := by
  have h1 : "<output value=\"".toList = '<' :: (tagOutput ++ ' ' :: (attrValue ++ ['=', '"'])) := by decide
  have h2 : "\" />".toList = ['"', ' ', '/', '>'] := by decide
  unfold outputMarkup
  rw [h1, h2]
  simp

theorem outputNode_eq (v : Str) : outputNode v = .elem tagOutput [(attrValue, v)] [] := by
  have h1 : "output".toList = tagOutput := by decide
  have h2 : "value".toList = attrValue := by decide
  unfold outputNode
  rw [h1, h2]

theorem fragmentDoc_eq (tag inner : Str) : fragmentDoc tag inner =
    declSpaced ++ ('<' :: (tag ++ '>' :: (inner ++ ('<' :: '/' :: (tag ++ ['>']))))) := by
  have h1 : "<?xml version=\"1.0\" ?>".toList = declSpaced := by decide
  unfold fragmentDoc
  rw [h1]
  simp

theorem takeAttrs_selfclose_sp (g : Nat) (X : Str) :
    takeAttrs (g + 1) (' ' :: '/' :: '>' :: X) = some ([], true, X) := by
  rw [takeAttrs.eq_def]
  simp [skipWs, isWs]

theorem takeAttrs_gt (g : Nat) (X : Str) : takeAttrs (g + 1) ('>' :: X) = some ([], false, X) := by
  rw [takeAttrs.eq_def]
  simp [skipWs, isWs]

/-- a document `pre <c…` whose root element the reader consumes completely -/
theorem parseDoc_root (pre : Str) (c : Char) (R : Str) (n : Node) (F : Nat)
    (hpre : skipDecl (pre ++ '<' :: c :: R) = some ('<' :: c :: R))
    (hlen : (pre ++ '<' :: c :: R).length + 2 = F + 1) (hb : c ≠ '!') (hq : c ≠ '?') (he : isElem n = true)
    (hnode : pNode (F + 1) ('<' :: c :: R) = some (some n, [])) :
    parseDoc (pre ++ '<' :: c :: R) = some (normNode n) := by
  have hsm := skipMisc_pad_elem F [] c R padOk_nil hb hq
  have hsn := skipMisc_pad_nil F [] padOk_nil
  simp only [List.nil_append] at hsm
  cases n with
  | text _ _ => simp [isElem] at he
  | elem t a ks =>
    unfold parseDoc
    simp only [hpre, hlen, hsm]
    simp only [hnode, hsn]
    split
    · rename_i heq; simp at heq; exact absurd heq.1 hb
    · rfl

/-- one `<output value="v" />` at the head of the input -/
theorem pNode_output (f : Nat) (v X : Str) (hv : ValOk v) :
    pNode (f + 1) (outputMarkup v ++ X) = some (some (outputNode v), X) := by
  rw [outputMarkup_eq, outputNode_eq]
  have hname : isName tagOutput = true := by decide
  have h1 : takeName (tagOutput ++ ' ' :: (attrValue ++ '=' :: '"' :: (v ++ '"' :: ' ' :: '/' :: '>' :: X))) =
      (tagOutput, ' ' :: (attrValue ++ '=' :: '"' :: (v ++ '"' :: ' ' :: '/' :: '>' :: X))) :=
    takeName_append _ ' ' _ (nameChars_of_isName hname) nc_sp
  have hk : isName attrValue = true := by decide
  have h2 : ∀ g, takeAttrs (g + 2) (' ' :: (attrValue ++ '=' :: '"' :: (v ++ '"' :: ' ' :: '/' :: '>' :: X))) =
      some ([(attrValue, v)], true, X) := by
    intro g
    have := takeAttrs_attr (g + 1) attrValue v (' ' :: '/' :: '>' :: X) hk
      (attrCharOk_xml hv.attrOk)
    rw [hv.esc, normAttrVal_ok v hv.attrOk] at this
    rw [this, takeAttrs_selfclose_sp]
    rfl
  refine pNode_selfclose f _ _ X [(attrValue, v)] hname h1 ?_ (by simp [attrKeysNodup])
  have hl : (' ' :: (attrValue ++ '=' :: '"' :: (v ++ '"' :: ' ' :: '/' :: '>' :: X))).length + 1 =
      (attrValue ++ '=' :: '"' :: (v ++ '"' :: ' ' :: '/' :: '>' :: X)).length + 2 := by
    simp
  rw [hl]
  exact h2 _

theorem itemsMarkup_startsLt (items : List (Str × Str)) (cl : Str) (hcl : closes cl) :
    startsLt (itemsMarkup items ++ cl) := by
  cases items with
  | nil => simpa [itemsMarkup] using closes_startsLt hcl
  | cons vt rest =>
    obtain ⟨v, t⟩ := vt
    simp only [itemsMarkup, List.append_assoc]
    rw [outputMarkup_eq]
    simp [startsLt]

def ItemsOk : List (Str × Str) → Prop
  | [] => True
  | (v, t) :: rest => ValOk v ∧ (∀ c ∈ t, isXmlChar c = true) ∧ ItemsOk rest

/-- the reader on `<output …/> text <output …/> text … </tag>` -/
theorem pNodes_items : ∀ (items : List (Str × Str)), ItemsOk items → ∀ (cl : Str), closes cl →
    ∀ fuel, 2 * items.length + 1 ≤ fuel →
      pNodes fuel (itemsMarkup items ++ cl) = some (itemsKids false items, cl)
  | [], _, cl, hcl, fuel, hf => by
    obtain ⟨g, rfl⟩ : ∃ g, fuel = g + 1 := ⟨fuel - 1, by omega⟩
    simpa [itemsMarkup, itemsKids] using pNodes_closes g hcl
  | (v, t) :: rest, hok, cl, hcl, fuel, hf => by
    obtain ⟨hv, ht, hrest⟩ := hok
    obtain ⟨g, rfl⟩ : ∃ g, fuel = g + 3 := ⟨fuel - 3, by simp at hf; omega⟩
    have ih1 := pNodes_items rest hrest cl hcl (g + 1) (by simp at hf; omega)
    have ih2 := pNodes_items rest hrest cl hcl (g + 2) (by simp at hf; omega)
    have htxt := pNodes_text_then (g + 1) (escText t) t (itemsMarkup rest ++ cl) (itemsKids false rest) cl
      (Enc.escText (List.all_eq_true.mpr ht)) (itemsMarkup_startsLt rest cl hcl) ih1 ih2
    simp only [itemsMarkup, itemsKids, List.append_assoc, chunk_false]
    have hnode := pNode_output (g + 1) v (escText t ++ (itemsMarkup rest ++ cl)) hv
    rw [outputMarkup_eq] at hnode ⊢
    exact pNodes_cons (g + 2) '<' _ _ cl _ _ (by intro r'' h; simp [tagOutput] at h) hnode htxt

theorem itemsMarkup_length (items : List (Str × Str)) : 2 * items.length ≤ (itemsMarkup items).length := by
  induction items with
  | nil => simp
  | cons vt rest ih =>
    obtain ⟨v, t⟩ := vt
    simp only [itemsMarkup]
    rw [outputMarkup_eq]
    simp [tagOutput, attrValue]
    omega

theorem isNorm_chunk_items (s : Str) (items : List (Str × Str)) :
    isNormKids (chunk false s ++ itemsKids false items) = true ∧ headIsText (itemsKids false items) = false := by
  induction items generalizing s with
  | nil =>
    refine ⟨?_, by simp [itemsKids, headIsText]⟩
    cases s <;> simp [chunk, itemsKids, isNormKids, isNormNode, headIsText, isText]
  | cons vt rest ih =>
    obtain ⟨v, t⟩ := vt
    have h1 := (ih (normEol t)).1
    simp [chunk] at h1
    refine ⟨?_, by simp [itemsKids, headIsText, isText, outputNode_eq]⟩
    cases s <;>
      simp [chunk, itemsKids, isNormKids, isNormNode, headIsText, isText, outputNode_eq, h1]

theorem skipDecl_spaced (Y : Str) : skipDecl (declSpaced ++ Y) = some Y := by
  simp [declSpaced, skipDecl, skipPI, isWs, isXmlChar]

theorem map_shallow_kids (s : Str) (items : List (Str × Str)) :
    (chunk false s ++ itemsKids false items).map shallow = chunk true s ++ itemsKids true items := by
  induction items generalizing s with
  | nil => cases s <;> simp [chunk, itemsKids, shallow]
  | cons vt rest ih =>
    obtain ⟨v, t⟩ := vt
    have := ih (normEol t)
    cases s <;> simp_all [chunk, itemsKids, shallow, outputNode_eq]

/-- **the re-parse**: `parseString('<?xml version="1.0" ?><tag>' + escaped text and output markup + '</tag>')`
    yields exactly the text chunks and the outputs -/
theorem nodeParsed_items (tag head : Str) (items : List (Str × Str)) (htag : isName tag = true)
    (hhead : ∀ c ∈ head, isXmlChar c = true) (hok : ItemsOk items) :
    nodeParsed tag (escText head ++ itemsMarkup items) = some (.elem tag [] (cellKids true head items)) := by
  obtain ⟨c, cs, rfl, hc, _⟩ := isName_cons htag
  have hb : c ≠ '!' := by rintro rfl; revert hc; decide
  have hq : c ≠ '?' := by rintro rfl; revert hc; decide
  let inner := escText head ++ itemsMarkup items
  let cl : Str := '<' :: '/' :: ((c :: cs) ++ '>' :: [])
  have hcl : closes cl := by simp [cl, closes]
  have hdoc : fragmentDoc (c :: cs) inner = declSpaced ++ ('<' :: ((c :: cs) ++ '>' :: (inner ++ cl))) :=
    fragmentDoc_eq _ _
  have hlen : 2 * items.length + 20 ≤ (fragmentDoc (c :: cs) inner).length := by
    have := itemsMarkup_length items
    rw [hdoc]
    simp [inner, declSpaced]
    omega
  obtain ⟨F, hF1, hF2⟩ : ∃ F, (fragmentDoc (c :: cs) inner).length + 2 = F + 3 ∧ 2 * items.length + 1 ≤ F :=
    ⟨(fragmentDoc (c :: cs) inner).length - 1, by omega, by omega⟩
  have hkids : pNodes (F + 2) (inner ++ cl) = some (cellKids false head items, cl) := by
    have h1 := pNodes_items items hok cl hcl (F + 1) (by omega)
    have h2 := pNodes_items items hok cl hcl (F + 2) (by omega)
    have := pNodes_text_then (F + 1) (escText head) head (itemsMarkup items ++ cl) (itemsKids false items) cl
      (Enc.escText (List.all_eq_true.mpr hhead)) (itemsMarkup_startsLt items cl hcl) h1 h2
    simpa [inner, cellKids, chunk_false] using this
  have hnode : pNode (F + 3) ('<' :: ((c :: cs) ++ '>' :: (inner ++ cl))) =
      some (some (.elem (c :: cs) [] (cellKids false head items)), []) := by
    refine pNode_open (F + 2) (c :: cs) ('>' :: (inner ++ cl)) (inner ++ cl) [] [] (cellKids false head items) htag
      (takeName_append _ '>' _ (nameChars_of_isName htag) nc_gt) ?_ (by simp [attrKeysNodup]) ?_
    · exact takeAttrs_gt _ _
    · simpa [cl] using hkids
  have hnorm : normNode (.elem (c :: cs) [] (cellKids false head items)) =
      .elem (c :: cs) [] (cellKids false head items) :=
    normNode_of_isNorm _ (by simpa [isNormNode, cellKids] using (isNorm_chunk_items (normEol head) items).1)
  have hparse : parseDoc (fragmentDoc (c :: cs) inner) = some (.elem (c :: cs) [] (cellKids false head items)) := by
    rw [← hnorm, hdoc]
    simp only [List.cons_append] at hnode ⊢
    refine parseDoc_root declSpaced c _ _ (F + 2) (skipDecl_spaced _) ?_ hb hq rfl hnode
    rw [hdoc] at hF1
    simpa using hF1
  unfold nodeParsed
  rw [hparse]
  simp only [cellKids, map_shallow_kids]

/-! ## `subRefs` (the `re.sub` of `insert_xpaths`) -/

def SubRTo (refs : List (Str × Str)) (e out : Str) : Prop :=
  ∀ fuel, e.length < fuel → subRefs refs fuel e = some out

theorem SubRTo.nil (refs : List (Str × Str)) : SubRTo refs [] [] := by
  intro fuel h
  cases fuel with
  | zero => simp at h
  | succ f => simp [subRefs]

theorem SubRTo.plain {refs : List (Str × Str)} {c : Char} {r out : Str} (h : SubRTo refs r out)
    (hc : c ≠ '$' ∨ ∀ r', r ≠ '{' :: r') : SubRTo refs (c :: r) (c :: out) := by
  intro fuel hf
  cases fuel with
  | zero => simp at hf
  | succ f =>
    have hr := h f (by simp at hf; omega)
    rw [subRefs.eq_def]
    split
    · simp_all
    · simp_all
    · rename_i heq
      simp at heq
      rcases hc with hc | hc
      · exact absurd heq.1 hc
      · exact absurd heq.2 (hc _)
    · rename_i heq
      simp_all

theorem SubRTo.ref {refs : List (Str × Str)} {r rest out n v : Str} {ls : Bool}
    (hm : matchRef r = some (ls, n, rest)) (hv : varRepl refs ls n = some v) (hlen : rest.length ≤ r.length)
    (h : SubRTo refs rest out) : SubRTo refs ('$' :: '{' :: r) (v ++ out) := by
  intro fuel hf
  cases fuel with
  | zero => simp at hf
  | succ f =>
    have hr := h f (by simp at hf; omega)
    rw [subRefs.eq_def]
    simp [hm, hv, hr]

theorem SubRTo.text {refs : List (Str × Str)} {X out : Str} (h : SubRTo refs X out) (hX : ∀ r', X ≠ '{' :: r')
    (t : Str) (ht : hasDollarBrace t = false) : SubRTo refs (t ++ X) (t ++ out) := by
  induction t with
  | nil => simpa using h
  | cons c t ih =>
    have ht' : hasDollarBrace t = false := by
      unfold hasDollarBrace at ht
      split at ht <;> simp_all
    have := ih ht'
    refine SubRTo.plain this ?_
    by_cases hc : c = '$'
    · right
      subst hc
      intro r' h'
      cases t with
      | nil => exact hX r' (by simpa using h')
      | cons d t =>
        have hd : d = '{' := by
          have := congrArg List.head? h'
          simpa using this
        subst hd
        simp [hasDollarBrace] at ht
    · exact Or.inl hc

theorem subRTo_tail (refs : List (Str × Str)) : ∀ (tail items : List (Str × Str)), TailOk tail →
    resolve refs tail = some items → SubRTo refs (Cell.tailText tail) (itemsAttr items)
  | [], items, _, hr => by
    simp [resolve] at hr
    subst hr
    simpa [Cell.tailText, itemsAttr] using SubRTo.nil refs
  | (n, t) :: rest, items, hok, hr => by
    obtain ⟨hn, ht, hrest⟩ := hok
    simp only [resolve] at hr
    split at hr
    · rename_i v items' hv hres
      simp at hr
      subst hr
      have ih := subRTo_tail refs rest items' hrest hres
      have h1 := SubRTo.text ih (tailText_head rest) t ht
      simp only [Cell.tailText, itemsAttr, refMarkup, List.cons_append, List.append_assoc]
      refine SubRTo.ref (matchRef_name n _ hn) (by
        unfold varReplName at hv
        cases hs : startsWith n lastSavedTag <;> simp_all) ?_ h1
      simp only [List.length_append, List.length_cons]
      omega
    · simp at hr

/-! ## instance() expressions: when `replace_with_output` is the identity -/

theorem startsWith_append_self (p b : Str) : startsWith (p ++ b) p = true := by
  induction p with
  | nil => cases b <;> simp [startsWith]
  | cons c p ih => simp [startsWith, ih]

theorem isInfix_append (a p b : Str) : isInfix p (a ++ (p ++ b)) = true := by
  induction a with
  | nil =>
    cases h : p ++ b with
    | nil =>
      have : p = [] := by cases p <;> simp_all
      subst this
      simp [isInfix]
    | cons x xs =>
      have hs : startsWith (x :: xs) p = true := by rw [← h]; exact startsWith_append_self p b
      simp [isInfix, hs]
  | cons c a ih => simp [isInfix, ih]

/-- the values of the tokens, concatenated, and the remainder give the input back -/
theorem scanAux_concat (rules : Lexer.Rules) : ∀ (f : Nat) (s : Str),
    ((Lexer.scanAux rules f s).1.map (·.2)).flatten ++ (Lexer.scanAux rules f s).2 = s := by
  intro f
  induction f with
  | zero => intro s; simp [Lexer.scanAux]
  | succ f ih =>
    intro s
    rw [Lexer.scanAux.eq_def]
    simp only
    split
    · simp
    · rename_i n k _
      split
      · simp
      · simp only [List.map_cons, List.flatten_cons, List.append_assoc, ih (s.drop k), List.take_append_drop]

theorem mem_flatten_infix (v : Str) : ∀ (l : List Str) (rest : Str), v ∈ l → isInfix v (l.flatten ++ rest) = true := by
  intro l
  induction l with
  | nil => intro rest h; simp at h
  | cons x xs ih =>
    intro rest h
    rcases List.mem_cons.mp h with rfl | h
    · simpa [List.append_assoc] using isInfix_append [] v (xs.flatten ++ rest)
    · have := ih rest h
      simp only [List.flatten_cons, List.append_assoc]
      -- an infix of the tail is an infix of the whole
      have key : ∀ (a b : Str), isInfix v b = true → isInfix v (a ++ b) = true := by
        intro a b hb
        induction a with
        | nil => simpa using hb
        | cons c a iha => simp [isInfix, iha]
      exact key x _ this

theorem withPos_values : ∀ (p : Nat) (l : List (String × Str)), (Lexer.withPos p l).map (·.value) = l.map (·.2)
  | _, [] => by simp [Lexer.withPos]
  | p, (n, v) :: rest => by simp [Lexer.withPos, withPos_values (p + v.length) rest]

/-- a token of `parse_expression(s)` has a value that occurs in `s` -/
theorem token_value_infix (rules : Lexer.Rules) (s : Str) (t : Lexer.Token)
    (ht : t ∈ (Lexer.parseWith rules s).1) : isInfix t.value s = true := by
  have hc := scanAux_concat rules (s.length + 1) s
  have hv : t.value ∈ ((Lexer.scanAux rules (s.length + 1) s).1.map (·.2)) := by
    rw [← withPos_values 0]
    exact List.mem_map_of_mem ht
  have := mem_flatten_infix t.value _ (Lexer.scanAux rules (s.length + 1) s).2 hv
  rwa [hc] at this

theorem fbStep_idle (st : FB) (t : Lexer.Token) (h1 : st.instanceEnter = false) (h2 : isInstanceCall t = false) :
    fbStep st t = st := by
  simp [fbStep, h1, h2]

theorem foldl_fbStep_idle (tokens : List Lexer.Token) (h : ∀ t ∈ tokens, isInstanceCall t = false) :
    tokens.foldl fbStep {} = {} := by
  suffices ∀ (st : FB), st.instanceEnter = false → tokens.foldl fbStep st = st from this {} rfl
  induction tokens with
  | nil => intro st _; rfl
  | cons t ts ih =>
    intro st hst
    simp only [List.foldl_cons]
    rw [fbStep_idle st t hst (h t (List.mem_cons_self ..))]
    exact ih (fun u hu => h u (List.mem_cons_of_mem _ hu)) st hst

theorem findBoundaries_none (tokens : List Lexer.Token) (h : ∀ t ∈ tokens, isInstanceCall t = false) :
    findBoundaries tokens = [] := by
  simp [findBoundaries, foldl_fbStep_idle tokens h, pairUp]

/-- the lexicon of the current source IS the pinned one (the expensive table comparison, done once) -/
theorem activeRules_pinned : Lexer.activeRules = some Lexer.pinnedRules := by
  have h : Lexer.resolveIdx Pyxv.Gen.lexerRules = some (List.range 26) := by decide +kernel
  unfold Lexer.activeRules Lexer.resolve
  rw [h]
  rfl

/-- … in particular it is one the model knows -/
theorem activeRules_some : ∃ rules, Lexer.activeRules = some rules := ⟨_, activeRules_pinned⟩

/-- **`replace_with_output` is the identity on a string that does not contain `instance(`** (or is short):
    `find_boundaries` starts an expression only at a FUNC_CALL token whose value is `instance(` -/
theorem replaceWithOutput_noInstance (refs : List (Str × Str)) (x : Str)
    (h : (9 < x.length && isInfix "instance(".toList x) = false) : replaceWithOutput refs x = .ok x := by
  unfold replaceWithOutput replaceWithOutputWith
  by_cases hl : x.length ≤ 9
  · simp [hl]
  · obtain ⟨rules, hr⟩ := activeRules_some
    have hinf : isInfix "instance(".toList x = false := by
      have : 9 < x.length := by omega
      simpa [this] using h
    have hb : findBoundaries (Lexer.parseWith rules x).1 = [] := by
      apply findBoundaries_none
      intro t ht
      cases hc : isInstanceCall t with
      | false => rfl
      | true =>
        have hv : t.value = "instance(".toList := by
          simp only [isInstanceCall, Bool.and_eq_true, beq_iff_eq] at hc
          exact hc.2
        have := token_value_infix rules x t ht
        rw [hv, hinf] at this
        exact absurd this (by simp)
    simp only [hl, if_false, hr, Option.map_some, hb, List.mapM_nil]
    simp [spliceAll]

/-- `mixedChannel` in terms of `insertOutputValues` (both under the current lexicon) -/
theorem mixedChannel_unfold (refs : List (Str × Str)) (tag text : Str) :
    mixedChannel refs tag text =
      match insertOutputValues refs text with
      | .ok (x, true) =>
        if !validChars x then .pyxformError else
        match nodeParsed tag x with
        | some n => .ok n
        | none => .reparseError
      | .ok (x, false) => .ok (nodeText tag x)
      | .pyxformError => .pyxformError
      | .reparseError => .reparseError
      | .unsupported w => .unsupported w := rfl

theorem mixedChannel_pinned (refs : List (Str × Str)) (tag s : Str) :
    mixedChannel refs tag s = mixedChannelWith (some Lexer.pinnedRules) refs tag s := by
  unfold mixedChannel
  rw [activeRules_pinned]

end Pyxv.Chan
