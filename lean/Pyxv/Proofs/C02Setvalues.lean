import Pyxv.Model.Defaults
import Pyxv.Proofs.C02
/-!
# C02 — the `ref` of every generated `<setvalue>` / `<odk:setgeopoint>` names an instance node

`Pyxv.Defaults` models dynamic defaults and triggers on its own element tree (`El`); `toItems` reads that tree
as the element tree of `Pyxv.Form`, so the statements are about `Form.instanceOf` — the instance of
`refs_resolve`.
-/
namespace Pyxv.C02
open Pyxv Pyxv.Form Pyxv.Defaults

def toQData (d : Q) : QData := { name := d.name, bind := true, control := d.hasCtl, node := true, tag := d.tag }

/-- the element tree of `Pyxv.Defaults` as the element tree of `Pyxv.Form` -/
def toItems : List El → List Item
  | [] => []
  | .q d :: rest => .q (toQData d) :: toItems rest
  | .grp n ks :: rest => .sec .group n false (toItems ks) :: toItems rest
  | .rep n ks :: rest => .sec .rep n false (toItems ks) :: toItems rest

theorem reach_cons {its : List Item} {p : List Str} (x : Item) (h : Reach its p) : Reach (x :: its) p := by
  cases h with
  | here _ it hm hn => exact Reach.here _ it (List.mem_cons_of_mem _ hm) hn
  | deeper _ ct n bb ks q hm hr => exact Reach.deeper _ ct n bb ks q (List.mem_cons_of_mem _ hm) hr

/-- a path below `pre` that reaches an element -/
def Below (els : List El) (pre ref : Path) : Prop := ∃ p, ref = pre ++ p ∧ Reach (toItems els) p

theorem below_cons {els : List El} {pre ref : Path} (x : El) (h : Below els pre ref) : Below (x :: els) pre ref := by
  obtain ⟨p, h1, h2⟩ := h
  refine ⟨p, h1, ?_⟩
  cases x <;> (simp only [toItems]; exact reach_cons _ h2)

theorem below_into {ks rest : List El} {pre ref : Path} (n : Str) (isRep : Bool)
    (h : Below ks (pre ++ [n]) ref) :
    Below ((if isRep then El.rep n ks else El.grp n ks) :: rest) pre ref := by
  obtain ⟨p, h1, h2⟩ := h
  refine ⟨n :: p, by simp [h1], ?_⟩
  cases isRep
  · exact Reach.deeper _ .group n false (toItems ks) p (by simp [toItems]) h2
  · exact Reach.deeper _ .rep n false (toItems ks) p (by simp [toItems]) h2

section
variable (dyn : Q → Bool) (sub : Path → Str → Str)

theorem dynSet_below (pre : Path) (inRep : Bool) (d : Q) (rest : List El) :
    ∀ s ∈ dynSet dyn sub pre inRep d, Below (.q d :: rest) pre s.ref := by
  intro s hs
  unfold dynSet at hs
  split at hs
  · simp at hs; subst hs
    exact ⟨[d.name], rfl, Reach.here _ (.q (toQData d)) (by simp [toItems]) (by simp [Item.hasNode, toQData])⟩
  · simp at hs

theorem modelSets_below : ∀ (els : List El) (pre : Path), ∀ s ∈ modelSets dyn sub pre els, Below els pre s.ref
  | [], pre => by intro s hs; simp [modelSets] at hs
  | .q d :: rest, pre => by
    intro s hs
    simp only [modelSets, List.mem_append] at hs
    rcases hs with hs | hs
    · exact dynSet_below dyn sub pre false d rest s hs
    · exact below_cons _ (modelSets_below rest pre s hs)
  | .grp n ks :: rest, pre => by
    intro s hs
    simp only [modelSets, List.mem_append] at hs
    rcases hs with hs | hs
    · exact below_into n false (modelSets_below ks (pre ++ [n]) s hs)
    · exact below_cons _ (modelSets_below rest pre s hs)
  | .rep n ks :: rest, pre => by
    intro s hs
    simp only [modelSets] at hs
    exact below_cons _ (modelSets_below rest pre s hs)

theorem helperSets_below : ∀ (els : List El) (pre : Path), ∀ s ∈ helperSets dyn sub pre els, Below els pre s.ref
  | [], pre => by intro s hs; simp [helperSets] at hs
  | .q d :: rest, pre => by
    intro s hs
    simp only [helperSets, List.mem_append] at hs
    rcases hs with hs | hs
    · exact dynSet_below dyn sub pre true d rest s hs
    · exact below_cons _ (helperSets_below rest pre s hs)
  | .grp n ks :: rest, pre => by
    intro s hs
    simp only [helperSets, List.mem_append] at hs
    rcases hs with hs | hs
    · exact below_into n false (helperSets_below ks (pre ++ [n]) s hs)
    · exact below_cons _ (helperSets_below rest pre s hs)
  | .rep n ks :: rest, pre => by
    intro s hs
    simp only [helperSets] at hs
    exact below_cons _ (helperSets_below rest pre s hs)

variable (paths : Str → Path)

theorem bodySets_below (tbl : List Trig) : ∀ (els : List El) (pre : Path),
    ∀ sf ∈ bodySetsL (body dyn sub paths tbl pre els), Below els pre sf.set.ref
  | [], pre => by intro sf h; simp [body, bodySetsL] at h
  | .q d :: rest, pre => by
    intro sf h
    have : bodySetsL (qCtl sub paths tbl pre d ++ body dyn sub paths tbl pre rest) =
        bodySetsL (body dyn sub paths tbl pre rest) := by
      unfold qCtl; split <;> simp [bodySetsL, bodySets]
    simp only [body] at h
    rw [this] at h
    exact below_cons _ (bodySets_below tbl rest pre sf h)
  | .grp n ks :: rest, pre => by
    intro sf h
    simp only [body, bodySetsL, bodySets, List.mem_append] at h
    rcases h with h | h
    · exact below_into n false (bodySets_below tbl ks (pre ++ [n]) sf h)
    · exact below_cons _ (bodySets_below tbl rest pre sf h)
  | .rep n ks :: rest, pre => by
    intro sf h
    simp only [body, bodySetsL, bodySets, List.mem_append, List.mem_map] at h
    rcases h with (h | ⟨s, hs, rfl⟩) | h
    · exact below_into n true (bodySets_below tbl ks (pre ++ [n]) sf h)
    · exact below_into n true (helperSets_below dyn sub ks (pre ++ [n]) s hs)
    · exact below_cons _ (bodySets_below tbl rest pre sf h)

end

/-- **Every dynamic-default `<setvalue>` names an instance node**: for every element tree, every setvalue
    the model of `get_setvalue_node_for_dynamic_default` / `xml_descendent_bindings` /
    `_dynamic_defaults_helper` emits — in `<model>` (no repeat ancestor) or appended to a `<repeat>` — has a `ref`
    that resolves in the primary instance `Form.instanceOf`. -/
theorem setvalue_refs_resolve (dyn : Q → Bool) (sub : Path → Str → Str) (root : Str) (els : List El) :
    ∀ sf ∈ setFacts (gen dyn sub root els), resolves (instanceOf root (toItems els)) sf.set.ref = true := by
  intro sf h
  simp only [setFacts, gen, List.mem_append, List.mem_map] at h
  have hb : Below els [root] sf.set.ref := by
    rcases h with ⟨s, hs, rfl⟩ | h
    · exact modelSets_below dyn sub els [root] s hs
    · exact bodySets_below dyn sub _ _ els [root] sf h
  obtain ⟨p, h1, h2⟩ := hb
  rw [h1]
  exact resolves_of_reach root _ p h2

/-! ### set-nodes nested in a triggering control -/

theorem qPaths_below : ∀ (els : List El) (pre : Path), ∀ np ∈ qPaths pre els, Below els pre np.2
  | [], pre => by intro np h; simp [qPaths] at h
  | .q d :: rest, pre => by
    intro np h
    simp only [qPaths, List.mem_cons] at h
    rcases h with h | h
    · subst h
      exact ⟨[d.name], rfl, Reach.here _ (.q (toQData d)) (by simp [toItems]) (by simp [Item.hasNode, toQData])⟩
    · exact below_cons _ (qPaths_below rest pre np h)
  | .grp n ks :: rest, pre => by
    intro np h
    simp only [qPaths, List.mem_cons, List.mem_append] at h
    rcases h with h | h | h
    · subst h
      exact ⟨[n], rfl, Reach.here _ (.sec .group n false (toItems ks)) (by simp [toItems]) (by simp [Item.hasNode])⟩
    · exact below_into n false (qPaths_below ks (pre ++ [n]) np h)
    · exact below_cons _ (qPaths_below rest pre np h)
  | .rep n ks :: rest, pre => by
    intro np h
    simp only [qPaths, List.mem_cons, List.mem_append] at h
    rcases h with h | h | h
    · subst h
      exact ⟨[n], rfl, Reach.here _ (.sec .rep n false (toItems ks)) (by simp [toItems]) (by simp [Item.hasNode])⟩
    · exact below_into n true (qPaths_below ks (pre ++ [n]) np h)
    · exact below_cons _ (qPaths_below rest pre np h)

theorem mem_of_lookup {β} (k : Str) : ∀ (l : List (Str × β)) (v : β), lookup k l = some v → (k, v) ∈ l
  | [], v => by intro h; simp [lookup] at h
  | (a, b) :: rest, v => by
    intro h
    simp only [lookup] at h
    split at h
    · rename_i hk; injection h with h; subst h; subst hk; simp
    · exact List.mem_cons_of_mem _ (mem_of_lookup k rest v h)

theorem lookup_some_of_key {β} (k : Str) : ∀ (l : List (Str × β)), (∃ v, (k, v) ∈ l) → ∃ v, lookup k l = some v
  | [], h => by obtain ⟨v, hv⟩ := h; simp at hv
  | (a, b) :: rest, h => by
    simp only [lookup]
    split
    · exact ⟨b, rfl⟩
    · rename_i hk
      obtain ⟨v, hv⟩ := h
      simp only [List.mem_cons, Prod.mk.injEq] at hv
      rcases hv with hv | hv
      · exact absurd hv.1 hk
      · exact lookup_some_of_key k rest ⟨v, hv⟩

/-- every target saved in the trigger table is an element of the tree, so it has a path -/
theorem trigTable_target_known : ∀ (els : List El) (pre : Path), ∀ t ∈ trigTable els,
    ∃ v, (t.target, v) ∈ qPaths pre els
  | [], pre => by intro t h; simp [trigTable] at h
  | .q d :: rest, pre => by
    intro t h
    simp only [trigTable, List.mem_append] at h
    rcases h with h | h
    · unfold saveTrigger at h
      split at h
      · simp at h
      · simp at h; subst h; exact ⟨pre ++ [d.name], by simp [qPaths]⟩
    · obtain ⟨v, hv⟩ := trigTable_target_known rest pre t h
      exact ⟨v, by simp [qPaths, hv]⟩
  | .grp n ks :: rest, pre => by
    intro t h
    simp only [trigTable, List.mem_append] at h
    rcases h with h | h
    · obtain ⟨v, hv⟩ := trigTable_target_known ks (pre ++ [n]) t h
      exact ⟨v, by simp [qPaths, hv]⟩
    · obtain ⟨v, hv⟩ := trigTable_target_known rest pre t h
      exact ⟨v, by simp [qPaths, hv]⟩
  | .rep n ks :: rest, pre => by
    intro t h
    simp only [trigTable, List.mem_append] at h
    rcases h with h | h
    · obtain ⟨v, hv⟩ := trigTable_target_known ks (pre ++ [n]) t h
      exact ⟨v, by simp [qPaths, hv]⟩
    · obtain ⟨v, hv⟩ := trigTable_target_known rest pre t h
      exact ⟨v, by simp [qPaths, hv]⟩

section
variable (dyn : Q → Bool) (sub : Path → Str → Str) (paths : Str → Path)

theorem nestSets_ref (tag : String) (items : List Trig) : ∀ s ∈ nestSets sub paths tag items,
    ∃ t ∈ items, s.ref = paths t.target := by
  intro s h
  simp only [nestSets, List.mem_map] at h
  obtain ⟨t, ht, rfl⟩ := h
  exact ⟨t, ht, rfl⟩

theorem bodyTrigs_ref (tbl : List Trig) : ∀ (els : List El) (pre : Path),
    ∀ tf ∈ bodyTrigsL (body dyn sub paths tbl pre els), ∃ t ∈ tbl, tf.set.ref = paths t.target
  | [], pre => by intro tf h; simp [body, bodyTrigsL] at h
  | .q d :: rest, pre => by
    intro tf h
    simp only [body] at h
    unfold qCtl at h
    split at h
    · simp only [List.cons_append, List.nil_append, bodyTrigsL, bodyTrigs, List.mem_append, List.mem_map] at h
      rcases h with ⟨s, hs, rfl⟩ | h
      · rcases hs with hs | hs
        · obtain ⟨t, ht, hr⟩ := nestSets_ref sub paths _ _ s hs
          exact ⟨t, (List.mem_filter.mp ht).1, hr⟩
        · obtain ⟨t, ht, hr⟩ := nestSets_ref sub paths _ _ s hs
          exact ⟨t, (List.mem_filter.mp ht).1, hr⟩
      · exact bodyTrigs_ref tbl rest pre tf h
    · exact bodyTrigs_ref tbl rest pre tf (by simpa using h)
  | .grp n ks :: rest, pre => by
    intro tf h
    simp only [body, bodyTrigsL, bodyTrigs, List.mem_append] at h
    rcases h with h | h
    · exact bodyTrigs_ref tbl ks (pre ++ [n]) tf h
    · exact bodyTrigs_ref tbl rest pre tf h
  | .rep n ks :: rest, pre => by
    intro tf h
    simp only [body, bodyTrigsL, bodyTrigs, List.mem_append] at h
    rcases h with h | h
    · exact bodyTrigs_ref tbl ks (pre ++ [n]) tf h
    · exact bodyTrigs_ref tbl rest pre tf h

end

/-- **Every triggered `<setvalue>` / `<odk:setgeopoint>` names an instance node**: the `ref` of every
    set-node nested in a triggering control (`nest_set_nodes`) is the path of the triggered question, which
    resolves in the primary instance — whatever the trigger cell says. -/
theorem trigger_refs_resolve (dyn : Q → Bool) (sub : Path → Str → Str) (root : Str) (els : List El) :
    ∀ tf ∈ trigFacts (gen dyn sub root els), resolves (instanceOf root (toItems els)) tf.set.ref = true := by
  intro tf h
  simp only [trigFacts, gen] at h
  obtain ⟨t, ht, hr⟩ := bodyTrigs_ref dyn sub _ _ els [root] tf h
  obtain ⟨v, hv⟩ := lookup_some_of_key t.target _ (trigTable_target_known els [root] t ht)
  have hm := mem_of_lookup _ _ _ hv
  obtain ⟨p, h1, h2⟩ := qPaths_below els [root] _ hm
  rw [hr]
  simp only [pathOf, hv, Option.getD_some]
  simp only [] at h1
  rw [h1]
  exact resolves_of_reach root _ p h2

/-! ### Non-vacuity -/

def qa : Q := { name := ['a'], type := ['t'], default := ['n'], labelled := true, hasCtl := true }
def qc : Q := { name := ['c'], type := ['t'], calcu := ['1'], trigger := ['$', '{', 'a', '}'], labelled := true, hasCtl := true }
def qb : Q := { qa with name := ['b'] }
def exEls : List El := [.q qa, .rep ['r'] [.grp ['g'] [.q qb], .q qc]]

-- two dynamic defaults (one in <model>, one appended to the repeat) and one triggered setvalue exist …
example : (setFacts (gen (fun _ => true) (fun _ s => s) ['d'] exEls)).map (·.set.ref) =
    [[['d'], ['a']], [['d'], ['r'], ['g'], ['b']]] := by
  simp [exEls, qa, qb, qc, setFacts, gen, modelSets, helperSets, dynSet, hasDynDefault, body, bodySetsL, bodySets, qCtl,
    shown, hiddenQ]
example : (trigFacts (gen (fun _ => true) (fun _ s => s) ['d'] exEls)).map (·.set.ref) = [[['d'], ['r'], ['c']]] := by
  have h1 : (['t'] == "background-geopoint".toList) = false := by decide
  have h2 : (['t'] == "calculate".toList) = false := by decide
  simp +decide [exEls, qa, qb, qc, trigFacts, gen, body, bodyTrigsL, bodyTrigs, qCtl, shown, hiddenQ, nestSets, triggered,
    trigTable, saveTrigger, refOf, strip, lstrip, rstrip, pyIsSpace, pathOf, qPaths, lookup, h1, h2]
-- … and their refs resolve
example : resolves (instanceOf ['d'] (toItems exEls)) [['d'], ['r'], ['g'], ['b']] = true ∧
    resolves (instanceOf ['d'] (toItems exEls)) [['d'], ['r'], ['c']] = true := by
  simp only [exEls, toItems, qa, qb, qc, toQData]
  decide +kernel

end Pyxv.C02
