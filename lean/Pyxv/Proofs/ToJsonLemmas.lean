import Pyxv.Model.ToJson
/-! # `to_json_dict` / reload at slot level: helper lemmas -/
namespace Pyxv.ToJson
open Pyxv Pyxv.JV

/-- what survives a dump: not deleted and truthy -/
def keeps (del : List Str) (kv : Str × J) : Bool := !del.contains kv.1 && truthy kv.2

theorem ownDump_eq_filter (del : List Str) (slots : Dict) : ownDump del slots = slots.filter (keeps del) := by
  simp only [ownDump, dropFalsy, delKeys, List.filter_filter]
  congr 1
  funext kv
  simp [keeps, Bool.and_comm]

theorem lookup_none_of_not_mem (n : Str) (d : Dict) (h : n ∉ d.map Prod.fst) : lookup n d = none := by
  induction d with
  | nil => rfl
  | cons kv d ih =>
    cases kv with
    | mk k v =>
      simp only [List.map_cons, List.mem_cons, not_or] at h
      simp [lookup, h.1, ih h.2]

theorem not_mem_keys_filter (n : Str) (d : Dict) (p : Str × J → Bool) (h : n ∉ d.map Prod.fst) :
    n ∉ (d.filter p).map Prod.fst := by
  intro hm
  simp only [List.mem_map, List.mem_filter] at hm
  obtain ⟨kv, ⟨hkv, _⟩, e⟩ := hm
  exact h (List.mem_map.mpr ⟨kv, hkv, e⟩)

theorem lookup_filter (p : Str × J → Bool) (slots : Dict) (hn : (slots.map Prod.fst).Nodup)
    (n : Str) (v : J) (hm : (n, v) ∈ slots) :
    lookup n (slots.filter p) = if p (n, v) then some v else none := by
  induction slots with
  | nil => simp at hm
  | cons kv rest ih =>
    cases kv with
    | mk k' v' =>
      simp only [List.map_cons, List.nodup_cons] at hn
      simp only [List.mem_cons] at hm
      rcases hm with hm | hm
      · cases hm
        by_cases hp : p (n, v) = true
        · simp [List.filter, hp, lookup]
        · have : lookup n (rest.filter p) = none :=
            lookup_none_of_not_mem n _ (not_mem_keys_filter n rest p hn.1)
          simp [List.filter, hp, this]
      · have hne : n ≠ k' := by
          intro e; subst e
          exact hn.1 (List.mem_map.mpr ⟨(n, v), hm, rfl⟩)
        have := ih hn.2 hm
        by_cases hp' : p (k', v') = true
        · simp [List.filter, hp', lookup, hne, this]
        · simp [List.filter, hp', this]

theorem filter_map_keeps (del : List Str) (slots : Dict) :
    (slots.map fun kv => (kv.1, if keeps del kv then kv.2 else J.null)).filter (keeps del) = slots.filter (keeps del) := by
  induction slots with
  | nil => rfl
  | cons kv rest ih =>
    by_cases hp : keeps del kv = true
    · simp [List.filter, hp, ih]
    · have : keeps del (kv.1, J.null) = false := by simp [keeps, truthy]
      simp [List.filter, hp, this, ih]

theorem reloadSlots_ownDump (del : List Str) (slots : Dict) (hn : (slots.map Prod.fst).Nodup) :
    reloadSlots (slots.map Prod.fst) (ownDump del slots) =
      slots.map fun kv => (kv.1, if keeps del kv then kv.2 else J.null) := by
  rw [ownDump_eq_filter]
  simp only [reloadSlots, List.map_map]
  apply List.map_congr_left
  intro kv hkv
  have := lookup_filter (keeps del) slots hn kv.1 kv.2 hkv
  simp only [Function.comp]
  rw [this]
  by_cases hp : keeps del (kv.1, kv.2) = true
  · simp [hp]
  · simp [hp]


theorem lookup_map_snd (f : Str × J → J) (slots : Dict) (hn : (slots.map Prod.fst).Nodup)
    (n : Str) (v : J) (hm : (n, v) ∈ slots) :
    lookup n (slots.map fun kv => (kv.1, f kv)) = some (f (n, v)) := by
  induction slots with
  | nil => simp at hm
  | cons kv rest ih =>
    cases kv with
    | mk k' v' =>
      simp only [List.map_cons, List.nodup_cons] at hn
      simp only [List.mem_cons] at hm
      rcases hm with hm | hm
      · cases hm; simp [lookup]
      · have hne : n ≠ k' := by
          intro e; subst e
          exact hn.1 (List.mem_map.mpr ⟨(n, v), hm, rfl⟩)
        simp [lookup, hne, ih hn.2 hm]


/-! ## options: extra columns -/

theorem restoreExtra_fresh (extra base : Dict) (hn : (extra.map Prod.fst).Nodup)
    (hd : ∀ k ∈ extra.map Prod.fst, k ∉ base.map Prod.fst) :
    restoreExtra extra base = base ++ extra.filter fun kv => truthy kv.2 := by
  induction extra generalizing base with
  | nil => simp [restoreExtra]
  | cons kv rest ih =>
    cases kv with
    | mk k v =>
      simp only [List.map_cons, List.nodup_cons] at hn
      have hk : k ∉ base.map Prod.fst := hd k (by simp)
      have hc : (base.map Prod.fst).contains k = false := by simpa using hk
      by_cases ht : truthy v = true
      · have := ih (base ++ [(k, v)]) hn.2 (by
          intro k' hk'
          simp only [List.map_append, List.map_cons, List.map_nil, List.mem_append, List.mem_singleton, not_or]
          refine ⟨hd k' (by simp [hk']), ?_⟩
          intro e; subst e; exact hn.1 hk')
        have hcond : (truthy v && !(base.map Prod.fst).contains k) = true := by rw [ht, hc]; rfl
        rw [restoreExtra, if_pos hcond, this]
        simp [List.filter, ht]
      · have := ih base hn.2 (fun k' hk' => hd k' (by simp [hk']))
        have hcond : ¬ (truthy v && !(base.map Prod.fst).contains k) = true := by simp [ht]
        rw [restoreExtra, if_neg hcond, this]
        simp [List.filter, ht]

theorem ownDump_keys_subset (del : List Str) (slots : Dict) :
    ∀ k ∈ (ownDump del slots).map Prod.fst, k ∈ slots.map Prod.fst := by
  intro k hk
  rw [ownDump_eq_filter] at hk
  simp only [List.mem_map, List.mem_filter] at hk ⊢
  obtain ⟨kv, ⟨hkv, _⟩, e⟩ := hk
  exact ⟨kv, hkv, e⟩

theorem reloadExtra_append (names : List Str) (base f : Dict)
    (hb : ∀ k ∈ base.map Prod.fst, k ∈ names) (hf : ∀ k ∈ f.map Prod.fst, k ∉ names) :
    reloadExtra names (base ++ f) = f := by
  simp only [reloadExtra, List.filter_append]
  have h1 : base.filter (fun kv => !names.contains kv.1) = [] := by
    simp only [List.filter_eq_nil_iff]
    intro kv hkv
    have := hb kv.1 (List.mem_map.mpr ⟨kv, hkv, rfl⟩)
    simp [this]
  have h2 : f.filter (fun kv => !names.contains kv.1) = f := by
    simp only [List.filter_eq_self]
    intro kv hkv
    have := hf kv.1 (List.mem_map.mpr ⟨kv, hkv, rfl⟩)
    simp [this]
  rw [h1, h2]; rfl

/-! ## `result[k] = v` -/

theorem lookup_dictInsert (k : Str) (v : J) (d : Dict) : lookup k (dictInsert k v d) = some v := by
  induction d with
  | nil => simp [dictInsert, lookup]
  | cons kv rest ih =>
    cases kv with
    | mk k' v' =>
      by_cases h : k = k'
      · subst h; simp [dictInsert, lookup]
      · simp [dictInsert, lookup, h, ih]

end Pyxv.ToJson
