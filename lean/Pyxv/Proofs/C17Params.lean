import Pyxv.Model.Controls
/-!
# C17 — parameter rules of the catalogue (`params` mutation), on `Pyxv.Controls`

`parameters_generic.parse` / `validate` and the per-type blocks of `workbook_to_json` as modelled by
`Controls.parseParams`, `Controls.allowed`, `Controls.validateParams`, `Controls.validateSelectParams`.
The statements are about *every* parameter cell / dict of the stated shape.  None of them mentions other
rows: the accepted parameter names of a row depend on that row's type only (seeded change C17-6 made them
depend on earlier rows).
-/
namespace Pyxv.C17
open Pyxv Pyxv.Controls

/-! ### malformed parameters: a part without `=` -/

theorem splitOnChar_not_mem (c : Char) : ∀ (s : Str), c ∉ s → splitOnChar c s = [s]
  | [], _ => rfl
  | x :: xs, h => by
    have hx : x ≠ c := fun e => h (by simp [e])
    have hxs : c ∉ xs := fun e => h (by simp [e])
    simp [splitOnChar, splitOnChar_not_mem c xs hxs, hx]

theorem parseOne_none_of_no_eq (p : Str) (h : '=' ∉ p) : parseOne p = none := by
  simp [parseOne, splitOnChar_not_mem '=' p h]

theorem parseFold_none_of_part : ∀ (parts : List Str) (acc : Dict) (p : Str),
    p ∈ parts → parseOne p = none → parseFold parts acc = none
  | [], _, _, hm, _ => by simp at hm
  | q :: qs, acc, p, hm, hp => by
    simp only [parseFold]
    rcases List.mem_cons.1 hm with e | hm'
    · subst e; rw [hp]
    · cases hq : parseOne q with
      | none => rfl
      | some kv => exact parseFold_none_of_part qs _ p hm' hp

/-- **malformed parameters**: if any part of the cell (split on `;`, else `,`, else whitespace) has no `=`, the
    cell is rejected ("Expecting parameters to be in the form of …") -/
theorem malformed_params_rejected (raw p : Str) (hm : p ∈ parseParts raw) (h : '=' ∉ p) :
    parseParams raw = none :=
  parseFold_none_of_part _ _ p hm (parseOne_none_of_no_eq p h)

example : parseParams "rows".toList = none ∧ parseParams "rows=3 x".toList = none ∧
    parseParams "a=1;b".toList = none ∧ (parseParams "rows=3".toList).isSome = true := by decide +kernel

/-! ### unknown parameters -/

/-- `parameters_generic.validate`: a key outside the allowed list is rejected -/
theorem allowed_rejects (ps : Dict) (al : List String) (kv : Str × Str) (hm : kv ∈ ps)
    (h : ∀ a ∈ al, a.toList ≠ kv.1) : allowed ps al = .error (.err "invalid parameter(s)") := by
  unfold allowed
  have : ps.all (fun kv => al.any fun a => a.toList = kv.1) = false := by
    rw [List.all_eq_false]
    refine ⟨kv, hm, ?_⟩
    simp only [List.any_eq_true, not_exists, not_and, decide_eq_true_eq]
    intro a ha; exact h a ha
  rw [this]; rfl

/-- **unknown parameter on a select** — in particular `value=` / `label=` on a select that is not from a file, whatever
    rows came before it -/
theorem select_unknown_param_rejected (ps : Dict) (kv : Str × Str) (hm : kv ∈ ps)
    (h1 : kv.1 ≠ (k!"randomize")) (h2 : kv.1 ≠ (k!"seed")) :
    validateSelectParams ps = .error (.err "invalid parameter(s)") := by
  unfold validateSelectParams
  have := allowed_rejects ps ["randomize", "seed"] kv hm (by
    intro a ha
    simp only [List.mem_cons, List.mem_nil_iff, or_false] at ha
    rcases ha with e | e <;> subst e
    · intro e; exact h1 (by rw [← e]; rfl)
    · intro e; exact h2 (by rw [← e]; rfl))
  simp only [this, bind, Except.bind]

example : validateSelectParams [((k!"value"), (k!"name"))] = .error (.err "invalid parameter(s)") :=
  select_unknown_param_rejected _ ((k!"value"), (k!"name")) (by simp) (by decide) (by decide)

/-- **unknown parameter on a text question** -/
theorem text_unknown_param_rejected (r : Rows.Cells) (ps : Dict) (kv : Str × Str) (hm : kv ∈ ps)
    (h : kv.1 ≠ (k!"rows")) : validateParams (k!"text") r ps = .error (.err "invalid parameter(s)") := by
  have := allowed_rejects ps ["rows"] kv hm (by
    intro a ha
    simp only [List.mem_cons, List.mem_nil_iff, or_false] at ha
    subst ha; intro e; exact h (by rw [← e]; rfl))
  have ht : ((k!"text") = (k!"range")) = False := by decide
  simp only [validateParams, ht, ↓reduceIte, this, bind, Except.bind]

/-- **unknown parameter on a range question** -/
theorem range_unknown_param_rejected (r : Rows.Cells) (ps : Dict) (kv : Str × Str) (hm : kv ∈ ps)
    (h1 : kv.1 ≠ (k!"start")) (h2 : kv.1 ≠ (k!"end")) (h3 : kv.1 ≠ (k!"step")) :
    validateParams (k!"range") r ps = .error (.err "invalid parameter(s)") := by
  have := allowed_rejects ps ["start", "end", "step"] kv hm (by
    intro a ha
    simp only [List.mem_cons, List.mem_nil_iff, or_false] at ha
    rcases ha with e | e | e <;> subst e
    · intro e; exact h1 (by rw [← e]; rfl)
    · intro e; exact h2 (by rw [← e]; rfl)
    · intro e; exact h3 (by rw [← e]; rfl))
  simp only [validateParams, ↓reduceIte, this, bind, Except.bind]

/-! ### out-of-domain values -/

/-- **rows= not an integer** on a text question -/
theorem text_rows_not_int_rejected (r : Rows.Cells) (ps : Dict) (v : Str)
    (ha : allowed ps ["rows"] = .ok ()) (hv : lookup (k!"rows") ps = some v)
    (h1 : intLit v = false) (h2 : notInt v = true) :
    validateParams (k!"text") r ps = .error (.err "Parameter rows must have an integer value") := by
  have ht : ((k!"text") = (k!"range")) = False := by decide
  simp only [validateParams, ht, ↓reduceIte, ha, bind, Except.bind, hv, optCheck, needInt, h1, h2,
    Bool.false_eq_true]

example : validateParams (k!"text") [] [((k!"rows"), (k!"abc"))] = .error (.err "Parameter rows must have an integer value") :=
  text_rows_not_int_rejected [] _ (k!"abc") (by rfl) (by decide) (by decide) (by decide)

/-- **randomize= neither true nor false** -/
theorem select_randomize_value_rejected (ps : Dict) (v : Str)
    (ha : allowed ps ["randomize", "seed"] = .ok ()) (hv : lookup (k!"randomize") ps = some v)
    (h1 : v ≠ (k!"true")) (h2 : v ≠ (k!"false")) :
    validateSelectParams ps = .error (.err "randomize must be set to true or false") := by
  unfold validateSelectParams
  simp only [ha, bind, Except.bind, hv]
  simp [h1, h2]

/-- **seed= without randomize** -/
theorem select_seed_without_randomize_rejected (ps : Dict)
    (ha : allowed ps ["randomize", "seed"] = .ok ()) (hr : lookup (k!"randomize") ps = none)
    (hs : (lookup (k!"seed") ps).isSome = true) :
    validateSelectParams ps = .error (.err "seed without randomize") := by
  unfold validateSelectParams
  simp only [ha, bind, Except.bind, hr, hs, ↓reduceIte]

example : validateSelectParams [((k!"randomize"), (k!"maybe"))] = .error (.err "randomize must be set to true or false") :=
  select_randomize_value_rejected _ (k!"maybe") (by rfl) (by decide) (by decide) (by decide)
example : validateSelectParams [((k!"seed"), (k!"3"))] = .error (.err "seed without randomize") :=
  select_seed_without_randomize_rejected _ (by rfl) (by decide) (by decide)

end Pyxv.C17
