import Pyxv.Model.SettingsSpec
/-!
# Lemmas for C11: association-list dicts, the root dict, slots
-/
namespace Pyxv.Settings
open Pyxv

section AList
variable {κ β : Type} [DecidableEq κ]

def keys (l : List (κ × β)) : List κ := l.map (·.1)

@[simp] theorem aget_nil (k : κ) : aget k ([] : List (κ × β)) = none := rfl

theorem aget_cons (k k' : κ) (v : β) (r : List (κ × β)) :
    aget k ((k', v) :: r) = if k = k' then some v else aget k r := rfl

theorem aget_cons_ne {k k' : κ} (h : k ≠ k') (v : β) (r : List (κ × β)) :
    aget k ((k', v) :: r) = aget k r := by simp [aget, h]

theorem aget_cons_eq (k : κ) (v : β) (r : List (κ × β)) : aget k ((k, v) :: r) = some v := by
  simp [aget]

theorem aget_aset (q k : κ) (v : β) (l : List (κ × β)) :
    aget q (aset k v l) = if q = k then some v else aget q l := by
  induction l with
  | nil => simp [aset, aget]
  | cons p r ih =>
    obtain ⟨k', v'⟩ := p
    by_cases hk : k = k'
    · subst hk
      by_cases hq : q = k <;> simp [aset, aget, hq]
    · by_cases hq : q = k'
      · subst hq
        have : ¬ q = k := fun h => hk h.symm
        simp [aset, aget, hk, this]
      · simp [aset, aget, hk, hq, ih]

theorem aget_none_of_not_mem {k : κ} {l : List (κ × β)} (h : k ∉ keys l) : aget k l = none := by
  induction l with
  | nil => rfl
  | cons p r ih =>
    obtain ⟨k', v'⟩ := p
    simp [keys] at h
    have hr : k ∉ keys r := by simpa [keys] using h.2
    simp [aget, h.1, ih hr]

theorem aget_isSome_of_mem {k : κ} {l : List (κ × β)} (h : k ∈ keys l) : (aget k l).isSome := by
  induction l with
  | nil => simp [keys] at h
  | cons p r ih =>
    obtain ⟨k', v'⟩ := p
    by_cases hk : k = k'
    · simp [aget, hk]
    · have : k ∈ keys r := by
        simp [keys] at h
        rcases h with h | h
        · exact absurd h hk
        · simpa [keys] using h
      simp [aget, hk, ih this]

/-- successive assignments: the last binding wins, older keys keep their value -/
theorem aget_aupdate (q : κ) (d e : List (κ × β)) :
    aget q (aupdate d e) = match agetLast q e with | some x => some x | none => aget q d := by
  induction e generalizing d with
  | nil => simp [aupdate, agetLast]
  | cons p r ih =>
    obtain ⟨k', v'⟩ := p
    have : aupdate d ((k', v') :: r) = aupdate (aset k' v' d) r := rfl
    rw [this, ih, agetLast]
    cases hr : agetLast q r with
    | some x => simp
    | none =>
      simp only [aget_aset]
      by_cases hq : q = k' <;> simp [hq]

theorem agetLast_eq_aget {k : κ} {l : List (κ × β)} (hn : (keys l).Nodup) : agetLast k l = aget k l := by
  induction l with
  | nil => rfl
  | cons p r ih =>
    obtain ⟨k', v'⟩ := p
    simp [keys] at hn
    have hr : (keys r).Nodup := by simpa [keys] using hn.2
    rw [agetLast, ih hr]
    by_cases hk : k = k'
    · subst hk
      have : aget k r = none := aget_none_of_not_mem (by simpa [keys] using hn.1)
      simp [this, aget]
    · simp [aget, hk]
      cases aget k r <;> rfl

theorem keys_aset (k : κ) (v : β) (l : List (κ × β)) :
    keys (aset k v l) = if k ∈ keys l then keys l else keys l ++ [k] := by
  induction l with
  | nil => simp [aset, keys]
  | cons p r ih =>
    obtain ⟨k', v'⟩ := p
    by_cases hk : k = k'
    · subst hk; simp [aset, keys]
    · have ih' : List.map (fun x => x.1) (aset k v r) =
          if k ∈ List.map (fun x => x.1) r then List.map (fun x => x.1) r else List.map (fun x => x.1) r ++ [k] := ih
      simp only [aset, hk, keys, if_false, List.map_cons, List.mem_cons, false_or]
      rw [ih']
      split <;> simp

theorem nodup_aset {k : κ} {v : β} {l : List (κ × β)} (h : (keys l).Nodup) : (keys (aset k v l)).Nodup := by
  rw [keys_aset]
  split
  · exact h
  · rename_i hk
    exact List.nodup_append.mpr ⟨h, by simp, by
      intro a ha b hb
      simp at hb
      subst hb
      intro hab
      exact hk (hab ▸ ha)⟩

theorem nodup_aupdate {d e : List (κ × β)} (h : (keys d).Nodup) : (keys (aupdate d e)).Nodup := by
  induction e generalizing d with
  | nil => exact h
  | cons p r ih => exact ih (nodup_aset h)

theorem aset_of_aget_none {k : κ} {v : β} {l : List (κ × β)} (h : aget k l = none) :
    aset k v l = l ++ [(k, v)] := by
  induction l with
  | nil => rfl
  | cons p r ih =>
    obtain ⟨k', v'⟩ := p
    by_cases hk : k = k'
    · simp [aget, hk] at h
    · simp [aget, hk] at h
      simp [aset, hk, ih h]

end AList

/-! ## root dict and slots -/

theorem aget_jsonRoot {st : Dict} (hn : (keys st).Nodup) (a : Args) (k : Str) :
    aget k (jsonRoot st a) = match aget k st with | some x => some x | none => aget k (defaults st a) := by
  rw [jsonRoot, aget_aupdate, agetLast_eq_aget hn]
  cases aget k st <;> rfl

theorem aget_defaults_none {st : Dict} {a : Args} {k : Str}
    (h1 : k ≠ S "type") (h2 : k ≠ S "name") (h3 : k ≠ S "title") (h4 : k ≠ S "id_string")
    (h5 : k ≠ S "sms_keyword") (h6 : k ≠ S "default_language") (h7 : k ≠ S "children") :
    aget k (defaults st a) = none := by
  simp [defaults, aget, h1, h2, h3, h4, h5, h6, h7]

theorem slotOpt_eq (d : Dict) (k : String) : slotOpt d k = Spec.opt (aget k.toList d) := by
  unfold slotOpt Spec.opt
  split <;> simp_all

theorem slotStr_eq (d : Dict) (k : String) : slotStr d k = Spec.txt (aget k.toList d) := by
  unfold slotStr Spec.txt
  split <;> simp_all

/-- a setting that has no default in the root dict reaches its slot unchanged -/
theorem aget_jsonRoot_plain {st : Dict} (hn : (keys st).Nodup) (a : Args) {k : Str}
    (hk : aget k (defaults st a) = none) : aget k (jsonRoot st a) = aget k st := by
  rw [aget_jsonRoot hn, hk]
  cases aget k st <;> rfl

theorem defaultFormName_eq : Pyxv.Gen.defaultFormName.toList = S "data" := by decide

end Pyxv.Settings
