import Pyxv.Proofs.C08
import Pyxv.Model.Texts
import Pyxv.Model.TextSpec
import Pyxv.Proofs.ItextIds
/-!
# C08 — the text layer composed with the header layer

Theorems about `Pyxv.Texts` (get_translations / translation table / padding / label, hint, message sources): what an
element's `<label>`, `<hint>` (plain and guidance value) and message attributes show per language, and which languages
get a `<translation>`.  `effective_text_label` composes `column_reading` (C08.lean) with the table.
Guard `OwnEntries`: the writes of the whole table to `[id][form]` are exactly the element's own entries (ids of
different elements/kinds are different strings; no media type is called `long`); it is discharged by `rfl` on
concrete forms (examples) but not yet derived from path distinctness in general.
C07's `Pyxv.Itext` keeps of each text only "is it `-`", so it cannot state effective texts; the two table models
agree on ids/languages by construction of both from the same code, which is tied by the two checks' correspondence runs.
-/
namespace Pyxv.C08
open Pyxv Pyxv.Headers Pyxv.Texts

/-- the dict (if any) has pairwise distinct keys — true of every Python dict; here a property of the model's
association lists that the merge functions preserve -/
def NodupV : V → Prop
  | .dict m => m.keys.Nodup
  | _ => True

theorem merge_cell_nodup (dk : Str) (acc : V) (c : ColCell) (h : NodupV acc) : NodupV (merge dk acc (cellV c)) := by
  rcases c with ⟨_ | l, x⟩
  · -- unsuffixed
    cases acc with
    | none => simp [merge_none_left, cellV, NodupV]
    | str s =>
      by_cases hs : s.isEmpty = true
      · simp [cellV, merge, hs, NodupV]
      · cases x with
        | nil => simp [cellV, merge, hs, V.falsy, NodupV]
        | cons c cs => simp [cellV, merge, hs, V.falsy, NodupV]
    | dict m =>
      cases m with
      | nil => simp [cellV, merge, NodupV]
      | cons k v rest =>
        cases x with
        | nil => simpa [cellV, merge, V.falsy, NodupV] using h
        | cons c cs =>
          by_cases hd : (Kvs.cons k v rest).has dk = true
          · simpa [cellV, merge, V.falsy, hd, NodupV] using h
          · have hd' : (Kvs.cons k v rest).has dk = false := by simpa using hd
            have hnm : dk ∉ (Kvs.cons k v rest).keys := fun hm => by
              rw [← Kvs.has_iff_mem_keys] at hm; rw [hd'] at hm; cases hm
            simp only [cellV, merge, V.falsy, hd', Bool.false_eq_true, if_false, NodupV, Kvs.keys_append]
            exact List.nodup_append.mpr ⟨h, by simp [Kvs.keys], by
              intro a ha b hb; simp [Kvs.keys] at hb; subst hb; exact fun e => hnm (e ▸ ha)⟩
  · -- suffixed
    cases acc with
    | none => simp [merge_none_left, cellV, NodupV, Kvs.keys]
    | str s =>
      by_cases hs : s.isEmpty = true
      · simp [cellV, merge, hs, NodupV, Kvs.keys]
      · by_cases hl : l = dk
        · subst hl; simp [cellV, merge, hs, V.falsy, Kvs.has, NodupV, Kvs.keys]
        · have : ¬ dk = l := fun e => hl e.symm
          simp [cellV, merge, hs, V.falsy, Kvs.has, this, NodupV, Kvs.keys]
    | dict m =>
      simp only [cellV]
      rw [merge_dict_single]
      exact mergeTop_keys_nodup dk m l _ h

theorem colVal_nodup (dk : Str) : ∀ (cells : List ColCell) (acc : V), NodupV acc → NodupV (colVal dk acc cells)
  | [], acc, h => by simpa [colVal] using h
  | c :: cs, acc, h => by
    simp only [colVal]
    exact colVal_nodup dk cs _ (merge_cell_nodup dk acc c h)

/-! ### the translation table: last write wins, other ids do not interfere -/

theorem lookupT_filter_aux (lang id form : Str) : ∀ (T : List Entry) (acc : Option V),
    T.foldl (fun acc e => if e.lang = lang ∧ e.id = id ∧ e.form = form then some e.text else acc) acc =
    (T.filter fun e => decide (e.id = id ∧ e.form = form)).foldl
      (fun acc e => if e.lang = lang ∧ e.id = id ∧ e.form = form then some e.text else acc) acc
  | [], acc => rfl
  | e :: T, acc => by
    by_cases hp : e.id = id ∧ e.form = form
    · simp only [List.foldl_cons, List.filter_cons, hp, and_self, decide_true, if_true]
      exact lookupT_filter_aux lang id form T _
    · have : ¬ (e.lang = lang ∧ e.id = id ∧ e.form = form) := fun h => hp h.2
      simp only [List.foldl_cons, List.filter_cons, hp, decide_false, if_false, Bool.false_eq_true, and_false]
      exact lookupT_filter_aux lang id form T acc

/-- only the writes to `[id][form]` matter for what is read there (entries of other elements, other kinds and other
forms do not interfere) -/
theorem lookupT_filter (T : List Entry) (lang id form : Str) :
    lookupT T lang id form = lookupT (T.filter fun e => decide (e.id = id ∧ e.form = form)) lang id form :=
  lookupT_filter_aux lang id form T none

theorem lookupT_dictEntries_aux (id form lang : Str) : ∀ (m : Kvs) (acc : Option V), m.keys.Nodup →
    ((Kvs.items m).map fun (lt : Str × V) => (⟨lt.1, id, form, lt.2⟩ : Entry)).foldl
      (fun acc e => if e.lang = lang ∧ e.id = id ∧ e.form = form then some e.text else acc) acc =
    if m.has lang then some (m.get lang) else acc
  | .nil, acc, _ => by simp [Kvs.items, Kvs.has]
  | .cons k v rest, acc, hnd => by
    simp only [Kvs.keys, List.nodup_cons] at hnd
    simp only [Kvs.items, List.map_cons, List.foldl_cons, and_self, and_true]
    rw [lookupT_dictEntries_aux id form lang rest _ hnd.2]
    by_cases hk : k = lang
    · subst hk
      have : rest.has k = false := by
        cases h : rest.has k with
        | false => rfl
        | true => exact absurd ((Kvs.has_iff_mem_keys rest k).mp h) hnd.1
      simp [this, Kvs.has, Kvs.get]
    · have hk' : ¬ lang = k := fun e => hk e.symm
      simp [hk, hk', Kvs.has, Kvs.get]

/-- reading the entries of one `language → text` dict gives that dict back -/
theorem lookupT_dictEntries (id form lang : Str) (m : Kvs) (hnd : m.keys.Nodup) :
    lookupT (dictEntries id form (.dict m)) lang id form = if m.has lang then some (m.get lang) else none := by
  simp only [lookupT, dictEntries]
  exact lookupT_dictEntries_aux id form lang m none hnd

/-- Guard of the text-layer statements: the writes of the whole table to `[id][form]` are exactly the entries of the
dict `m` (ids of different elements and kinds are different strings, and no media type is called `long`). -/
def OwnEntries (T : List Entry) (id form : Str) (m : Kvs) : Prop :=
  (T.filter fun e => decide (e.id = id ∧ e.form = form)) = dictEntries id form (.dict m)

theorem items_ne_nil : ∀ (m : Kvs), m ≠ .nil → Kvs.items m ≠ []
  | .nil, h => absurd rfl h
  | .cons k v rest, _ => by simp [Kvs.items]

/-- **what `<text id>` shows** (plain value or guidance value) for a `language → text` dict that owns its id and form:
the text filed under the language, else `-` -/
theorem shown_own (dk : Str) (T : List Entry) (padIds : List Str) (lang id form : Str) (m : Kvs)
    (hform : form = s "long" ∨ form = s "guidance")
    (hown : OwnEntries T id form m) (hne : m ≠ .nil) (hfl : FlatD m) (hnd : m.keys.Nodup) :
    shown T padIds lang id form = some ((readLang dk (.dict m) lang).getD (s "-")) := by
  have hex : ∃ e ∈ T, e.id = id ∧ e.form = form := by
    have hne' : dictEntries id form (.dict m) ≠ [] := by
      simp only [dictEntries, ne_eq, List.map_eq_nil_iff]; exact items_ne_nil m hne
    rw [← hown] at hne'
    obtain ⟨e, he⟩ := List.exists_mem_of_ne_nil _ hne'
    have := List.mem_filter.mp he
    exact ⟨e, this.1, by simpa using this.2⟩
  obtain ⟨e0, he0, hid0, hform0⟩ := hex
  have hany : T.any (fun e => decide (e.id = id)) = true := List.any_eq_true.mpr ⟨e0, he0, by simp [hid0]⟩
  have hany2 : T.any (fun e => decide (e.id = id ∧ e.form = form)) = true :=
    List.any_eq_true.mpr ⟨e0, he0, by simp [hid0, hform0]⟩
  have hlk : lookupT T lang id form = if m.has lang then some (m.get lang) else none := by
    rw [lookupT_filter, hown, lookupT_dictEntries _ _ _ _ hnd]
  unfold shown
  simp only [hany, Bool.not_true, Bool.and_false, Bool.false_eq_true, if_false, hlk, hany2, true_or, if_true, Bool.true_or,
    hform]
  rcases hfl lang with ⟨hh, hg⟩ | ⟨hh, y, _, hg⟩
  · simp [hh, readLang, hg]
  · simp [hh, readLang, hg]

/-- **effective label, itext case**: a survey element whose label is a `language → text` dict shows, for every language
of the form, the text filed under that language, else the placeholder `-` — never another element's or another kind's text
(under `OwnEntries`). -/
theorem effective_label_itext (dk : Str) (T : List Entry) (padIds : List Str) (e : Elem) (lang : Str) (m : Kvs)
    (hlab : e.label = .dict m) (hown : OwnEntries T (e.path ++ s ":label") (s "long") m)
    (hne : m ≠ .nil) (hfl : FlatD m) (hnd : m.keys.Nodup) (hlang : lang ≠ []) :
    via T padIds (labelSrc e) (s "long") lang = some ((readLang dk e.label lang).getD (s "-")) := by
  have hr : labelSrc e = .ref (e.path ++ s ":label") := by simp [labelSrc, needsItextRef, hlab, isDict]
  rw [hr, hlab]
  cases lang with
  | nil => exact absurd rfl hlang
  | cons c cs => simpa [via] using shown_own dk T padIds (c :: cs) _ _ m (Or.inl rfl) hown hne hfl hnd

/-- **effective label, in-line case**: a plain label without media is shown as it is to every language -/
theorem effective_label_inline (T : List Entry) (padIds : List Str) (e : Elem) (lang t : Str)
    (hlab : e.label = .str t) (ht : t ≠ []) (hmed : isDict e.media = false) :
    via T padIds (labelSrc e) (s "long") lang = some t := by
  have hn : needsItextRef e = false := by
    unfold needsItextRef; rw [hlab, hmed]; simp [isDict]
  cases t with
  | nil => exact absurd rfl ht
  | cons c cs => simp [labelSrc, hn, hlab, V.falsy, via, strOf, s]

/-- **effective hint, itext case** (a translated hint): the text filed under the language, else `-` -/
theorem effective_hint_itext (dk : Str) (T : List Entry) (padIds : List Str) (e : Elem) (lang : Str) (m : Kvs)
    (hh : e.hint = .dict m) (hown : OwnEntries T (e.path ++ s ":hint") (s "long") m)
    (hne : m ≠ .nil) (hfl : FlatD m) (hnd : m.keys.Nodup) (hlang : lang ≠ []) :
    via T padIds (hintSrc e) (s "long") lang = some ((readLang dk e.hint lang).getD (s "-")) := by
  have hr : hintSrc e = .ref (e.path ++ s ":hint") := by simp [hintSrc, hh, isDict]
  rw [hr, hh]
  cases lang with
  | nil => exact absurd rfl hlang
  | cons c cs => simpa [via] using shown_own dk T padIds (c :: cs) _ _ m (Or.inl rfl) hown hne hfl hnd

/-- **effective guidance hint** (translated): shown through the hint's itext id with form `guidance` -/
theorem effective_guidance_itext (dk : Str) (T : List Entry) (padIds : List Str) (e : Elem) (lang : Str) (m : Kvs)
    (hg : e.guidance = .dict m) (hown : OwnEntries T (e.path ++ s ":hint") (s "guidance") m)
    (hne : m ≠ .nil) (hfl : FlatD m) (hnd : m.keys.Nodup) (hlang : lang ≠ []) :
    via T padIds (hintSrc e) (s "guidance") lang = some ((readLang dk e.guidance lang).getD (s "-")) := by
  have hnf : e.guidance.falsy = false := by
    rw [hg]; cases m with
    | nil => exact absurd rfl hne
    | cons k v r => simp [V.falsy]
  have hr : hintSrc e = .ref (e.path ++ s ":hint") := by simp [hintSrc, hnf]
  rw [hr, hg]
  cases lang with
  | nil => exact absurd rfl hlang
  | cons c cs => simpa [via] using shown_own dk T padIds (c :: cs) _ _ m (Or.inr rfl) hown hne hfl hnd

/-- **effective constraint / required message** (translated): the bind attribute points at the message's own itext id -/
theorem effective_message_itext (dk : Str) (T : List Entry) (padIds : List Str) (e : Elem) (k lang : Str) (b m : Kvs)
    (hb : e.bind = .dict b) (hk : b.get k = .dict m) (hown : OwnEntries T (e.path ++ s ":" ++ k) (s "long") m)
    (hne : m ≠ .nil) (hfl : FlatD m) (hnd : m.keys.Nodup) (hlang : lang ≠ []) :
    via T padIds (msgSrc e k) (s "long") lang = some ((readLang dk (b.get k) lang).getD (s "-")) := by
  have hr : msgSrc e k = .ref (e.path ++ s ":" ++ k) := by simp [msgSrc, hb, hk]
  rw [hr, hk]
  cases lang with
  | nil => exact absurd rfl hlang
  | cons c cs => simpa [via] using shown_own dk T padIds (c :: cs) _ _ m (Or.inl rfl) hown hne hfl hnd

theorem colVal_flat (dk : Str) : ∀ (cells : List ColCell) (acc : V),
    Flat acc → (∀ c ∈ cells, c.2 ≠ []) → (cells.map (·.1)).Nodup →
    (isStrV acc = true → ∀ c ∈ cells, c.1 ≠ none) → Flat (colVal dk acc cells)
  | [], acc, hf, _, _, _ => by simpa [colVal] using hf
  | c :: cs, acc, hf, hne, hnd, hstr => by
    have hnd' : (cs.map (·.1)).Nodup := (List.nodup_cons.mp hnd).2
    have hfresh : findLang cs c.1 = none := by
      have hnotin := (List.nodup_cons.mp hnd).1
      simp only [findLang, Option.map_eq_none_iff, List.find?_eq_none]
      intro d hd hdc
      exact hnotin (List.mem_map.mpr ⟨d, hd, by simpa using hdc⟩)
    have hne' : ∀ d ∈ cs, d.2 ≠ [] := fun d hd => hne d (by simp [hd])
    have hx : c.2 ≠ [] := hne c (by simp)
    rcases c with ⟨_ | l, x⟩
    · have hs : isStrV acc = false := by
        cases h : isStrV acc with
        | false => rfl
        | true => exact absurd rfl (hstr h (none, x) (by simp))
      obtain ⟨hf', _⟩ := step_unsuffixed dk acc x cs hf hx hs hfresh
      have hstr' : isStrV (merge dk acc (.str x)) = true → ∀ d ∈ cs, d.1 ≠ none := by
        intro _ d hd hdn
        exact (List.nodup_cons.mp hnd).1 (List.mem_map.mpr ⟨d, hd, by simpa using hdn⟩)
      simpa [colVal, cellV] using colVal_flat dk cs _ hf' hne' hnd' hstr'
    · obtain ⟨hf', hs', _⟩ := step_suffixed dk acc l x cs hf hx hfresh
      have hstr' : isStrV (merge dk acc (cellV (some l, x))) = true → ∀ d ∈ cs, d.1 ≠ none := by
        intro h; rw [hs'] at h; cases h
      simpa [colVal] using colVal_flat dk cs _ hf' hne' hnd' hstr'

/-- **effective_text (label of a survey element, header layer composed with the text layer)**: if the element's label
slot is what `process_row` leaves for the label column of its row (`colVal` of the row's label cells, see
`row_grouping` / `colFold_eq_colVal`) and at least one label cell is suffixed (so the slot is a dict), then for every
language the element's `<label>` shows exactly the spec's reading of the cells — the cell suffixed with that language,
else the unsuffixed cell for the default language — and `-` where nothing was written. -/
theorem effective_text_label (dk : Str) (T : List Entry) (padIds : List Str) (e : Elem) (cells : List ColCell) (m : Kvs)
    (lang : Str) (hne : ∀ c ∈ cells, c.2 ≠ []) (hnd : (cells.map (·.1)).Nodup)
    (hslot : e.label = colVal dk .none cells) (hdict : colVal dk .none cells = .dict m)
    (hown : OwnEntries T (e.path ++ s ":label") (s "long") m) (hlang : lang ≠ []) :
    via T padIds (labelSrc e) (s "long") lang = some ((specRead dk cells lang).getD (s "-")) := by
  have hflat := colVal_flat dk cells .none Flat.none hne hnd (by intro h; cases h)
  have hnod := colVal_nodup dk cells .none trivial
  rw [hdict] at hflat hnod
  cases hflat with
  | dict _ hmne hfl =>
    rw [effective_label_itext dk T padIds e lang m (hslot.trans hdict) hown hmne hfl hnod hlang, hslot,
      column_reading dk cells hne hnd lang]

/-! ### languages -/

theorem mem_dedup : ∀ (xs acc : List Str) (x : Str), x ∈ dedup xs acc ↔ x ∈ xs ∨ x ∈ acc
  | [], acc, x => by simp [dedup]
  | y :: ys, acc, x => by
    by_cases hc : acc.contains y = true
    · have hy : y ∈ acc := by simpa using hc
      simp only [dedup, hc, if_true, mem_dedup ys acc x, List.mem_cons]
      constructor
      · rintro (h | h); exact Or.inl (Or.inr h); exact Or.inr h
      · rintro ((h | h) | h)
        · exact Or.inr (h ▸ hy)
        · exact Or.inl h
        · exact Or.inr h
    · simp only [dedup, hc, if_false, Bool.false_eq_true, mem_dedup ys (y :: acc) x, List.mem_cons]
      constructor
      · rintro (h | h | h); exact Or.inl (Or.inr h); exact Or.inl (Or.inl h); exact Or.inr h
      · rintro ((h | h) | h); exact Or.inr (Or.inl h); exact Or.inl h; exact Or.inr (Or.inr h)

/-- **languages_exact (table level)**: the form has a `<translation>` for exactly the languages under which some text or
media was filed — none is invented, none filed is dropped. -/
theorem languages_exact (dl : Str) (f : Form) (l : Str) :
    l ∈ (run dl f).langs ↔ ∃ e ∈ table dl f, e.lang = l := by
  simp only [run, langsOf, mem_dedup, List.mem_map, List.not_mem_nil, or_false]

theorem mem_items_keys : ∀ (m : Kvs) (k : Str), (∃ v, (k, v) ∈ Kvs.items m) ↔ k ∈ m.keys
  | .nil, k => by simp [Kvs.items, Kvs.keys]
  | .cons k' v' rest, k => by
    simp only [Kvs.items, Kvs.keys, List.mem_cons, Prod.mk.injEq, ← mem_items_keys rest k]
    constructor
    · rintro ⟨v, (⟨h, _⟩ | h)⟩
      · exact Or.inl h
      · exact Or.inr ⟨v, h⟩
    · rintro (h | ⟨v, h⟩)
      · exact ⟨v', Or.inl ⟨h, rfl⟩⟩
      · exact ⟨v, Or.inr h⟩

/-- the languages a `language → text` slot files text under are its keys -/
theorem dictEntries_langs (id form : Str) (m : Kvs) (l : Str) :
    (∃ e ∈ dictEntries id form (.dict m), e.lang = l) ↔ m.has l = true := by
  rw [Kvs.has_iff_mem_keys, ← mem_items_keys]
  simp only [dictEntries, List.mem_map]
  constructor
  · rintro ⟨e, ⟨⟨k, v⟩, hkv, rfl⟩, rfl⟩
    exact ⟨v, hkv⟩
  · rintro ⟨v, hv⟩
    exact ⟨⟨l, id, form, v⟩, ⟨(l, v), hv, rfl⟩, rfl⟩

/-! ### non-vacuity: a one-question form, label columns `label::fr`, `label` -/

def cellsEx : List ColCell := [(some "fr".toList, "Qfr".toList), (none, "Q".toList)]
def elemEx : Elem :=
  { key := "s0".toList, path := "/data/q".toList, kind := .question, label := colVal "default".toList .none cellsEx,
    hint := .str "H".toList, guidance := .none, media := .none, bind := .none }
def formEx : Form := ⟨[elemEx], []⟩
def mEx : Kvs := .cons "fr".toList (.str "Qfr".toList) (.cons "default".toList (.str "Q".toList) .nil)

example : via (table "default".toList formEx) [] (labelSrc elemEx) (s "long") "de".toList = some (s "-") ∧
    via (table "default".toList formEx) [] (labelSrc elemEx) (s "long") "default".toList = some "Q".toList := by
  have hd : colVal "default".toList .none cellsEx = .dict mEx := by rfl
  have hown : OwnEntries (table "default".toList formEx) (elemEx.path ++ s ":label") (s "long") mEx := by
    unfold OwnEntries; rfl
  constructor
  · rw [effective_text_label "default".toList _ [] elemEx cellsEx mEx "de".toList (by decide) (by decide) rfl hd hown (by decide)]
    decide
  · rw [effective_text_label "default".toList _ [] elemEx cellsEx mEx "default".toList (by decide) (by decide) rfl hd hown (by decide)]
    decide

example : "fr".toList ∈ (run "default".toList formEx).langs := by
  have hown : OwnEntries (table "default".toList formEx) (elemEx.path ++ s ":label") (s "long") mEx := by
    unfold OwnEntries; rfl
  have hmem : (⟨"fr".toList, elemEx.path ++ s ":label", s "long", .str "Qfr".toList⟩ : Entry) ∈
      dictEntries (elemEx.path ++ s ":label") (s "long") (.dict mEx) := by
    simp [dictEntries, mEx, Kvs.items]
  rw [← hown] at hmem
  exact (languages_exact _ _ _).mpr ⟨_, (List.mem_filter.mp hmem).1, rfl⟩


/-! ## phase 4: spec-level right-hand sides, choices, and `OwnEntries` from path distinctness -/

/-! ### ending in the spec's own definitions -/

/-- the spec's cells of one kind as (language suffix, text) column cells -/
def toCol (cells : List TextSpec.Cell) (k : Str) : List ColCell :=
  cells.filterMap fun c => if c.kind = k then some (c.lang, c.text) else none

theorem findLang_toCol_some (cells : List TextSpec.Cell) (k l : Str) :
    findLang (toCol cells k) (some l) = lookup l (TextSpec.suffixed cells k) := by
  induction cells with
  | nil => simp [toCol, findLang, TextSpec.suffixed, lookup]
  | cons c cs ih =>
    simp only [toCol, TextSpec.suffixed] at ih ⊢
    rcases c with ⟨ck, cl, ct⟩
    by_cases hk : ck = k
    · cases cl with
      | none => simpa [List.filterMap_cons, hk, findLang_cons] using ih
      | some l' =>
        by_cases hl : l' = l
        · subst hl; simp [List.filterMap_cons, hk, findLang_cons, lookup]
        · have hl' : ¬ l = l' := fun e => hl e.symm
          simpa [List.filterMap_cons, hk, findLang_cons, lookup, hl, hl'] using ih
    · cases cl <;> simpa [List.filterMap_cons, hk] using ih

theorem findLang_toCol_none (cells : List TextSpec.Cell) (k : Str) :
    findLang (toCol cells k) none = TextSpec.unsuffixed cells k := by
  induction cells with
  | nil => simp [toCol, findLang, TextSpec.unsuffixed]
  | cons c cs ih =>
    simp only [toCol, TextSpec.unsuffixed] at ih ⊢
    rcases c with ⟨ck, cl, ct⟩
    by_cases hk : ck = k
    · cases cl with
      | none => simp [List.filterMap_cons, hk, findLang_cons, List.find?]
      | some l' => simpa [List.filterMap_cons, hk, findLang_cons, List.find?] using ih
    · simpa [List.filterMap_cons, hk, List.find?] using ih

theorem lookup_append {β} (k : Str) (a b : List (Str × β)) :
    lookup k (a ++ b) = (lookup k a).orElse fun _ => lookup k b := by
  induction a with
  | nil => simp [lookup]
  | cons x xs ih =>
    rcases x with ⟨k', v⟩
    by_cases h : k = k' <;> simp [lookup, h, ih]

/-- **the spec's language map is the per-column reading**: `TextSpec.langMap` (suffixed cells, plus the unsuffixed one under
the default language unless a cell is suffixed with it) looked up at a language = `specRead` of the column's cells -/
theorem lookup_langMap (dl : Str) (cells : List TextSpec.Cell) (k l : Str) :
    lookup l (TextSpec.langMap dl cells k) = specRead dl (toCol cells k) l := by
  simp only [TextSpec.langMap, specRead, findLang_toCol_some, findLang_toCol_none]
  cases hu : TextSpec.unsuffixed cells k with
  | none => cases lookup l (TextSpec.suffixed cells k) <;> simp
  | some u =>
    by_cases hd : (lookup dl (TextSpec.suffixed cells k)).isSome = true
    · simp only [hd, if_true]
      by_cases hl : l = dl
      · subst hl
        cases h : lookup l (TextSpec.suffixed cells k) with
        | none => rw [h] at hd; cases hd
        | some x => simp
      · cases lookup l (TextSpec.suffixed cells k) <;> simp [hl]
    · simp only [hd, if_false, Bool.false_eq_true, lookup_append]
      by_cases hl : l = dl
      · subst hl; cases lookup l (TextSpec.suffixed cells k) <;> simp [lookup]
      · cases lookup l (TextSpec.suffixed cells k) <;> simp [lookup, hl]

/-- **effective_text for labels, ending in the spec's definitions**: for a survey element whose label slot is what
`process_row` leaves for the row's label cells, with at least one suffixed label cell (the spec's itext-bearing condition),
the `<label>` shows in every language exactly `TextSpec.demanded` of the plan `TextSpec.planElem` builds for it
(`.itext (langMap …)`). -/
theorem effective_text_label_spec (dl : Str) (T : List Entry) (padIds : List Str) (e : Elem) (cells : List TextSpec.Cell)
    (m : Kvs) (lang : Str)
    (hne : ∀ c ∈ toCol cells (s "label"), c.2 ≠ []) (hnd : ((toCol cells (s "label")).map (·.1)).Nodup)
    (hsfx : TextSpec.suffixed cells (s "label") ≠ [])
    (hslot : e.label = colVal dl .none (toCol cells (s "label"))) (hdict : colVal dl .none (toCol cells (s "label")) = .dict m)
    (hown : OwnEntries T (e.path ++ s ":label") (s "long") m) (hlang : lang ≠ []) :
    via T padIds (labelSrc e) (s "long") lang =
      TextSpec.demanded (s "label") (.itext (TextSpec.langMap dl cells (s "label"))) lang := by
  rw [effective_text_label dl T padIds e _ m lang hne hnd hslot hdict hown hlang]
  have hm : (TextSpec.langMap dl cells (s "label")).isEmpty = false := by
    unfold TextSpec.langMap
    cases hs : TextSpec.suffixed cells (s "label") with
    | nil => exact absurd hs hsfx
    | cons x xs => cases TextSpec.unsuffixed cells (s "label") <;> simp <;> split <;> simp
  have hl : lang.isEmpty = false := by cases lang <;> simp_all
  have hk : TextSpec.mediaKinds.contains (s "label") = false := by decide
  simp only [TextSpec.demanded, hl, Bool.false_eq_true, if_false, lookup_langMap, hk, hm, Bool.or_false]
  cases specRead dl (toCol cells (s "label")) lang <;> simp [s, TextSpec.s]

/-! ### choices -/

/-- **what a select shows for a choice of an itext list** (`choiceTexts` wrapper): the label triples are exactly the
`<text id="<list>-<idx>">` values, per language of the form -/
theorem mem_choiceTexts_label (T : List Entry) (padIds view : List Str) (sr : Bool) (q : V) (c : Choice) (lang t : Str)
    (hlang : lang ≠ []) :
    (s "label", lang, t) ∈ choiceTexts T padIds view true sr q c ↔
      lang ∈ view ∧ shown T padIds lang c.id (s "long") = some t := by
  have hl : lang.isEmpty = false := by cases lang <;> simp_all
  simp only [choiceTexts, if_true, List.flatMap_cons, List.mem_append, List.mem_filterMap, List.mem_flatMap, List.mem_map]
  constructor
  · rintro (⟨l, hlv, hopt⟩ | ⟨kf, ⟨mk, hmk, rfl⟩, l, _, hopt⟩)
    · cases hle : l.isEmpty <;> simp [hle] at hopt
      · obtain ⟨hs, rfl⟩ := hopt; exact ⟨hlv, hs⟩
      · simp_all
    · exfalso
      have hnot : s "label" ∉ mediaKinds := by decide
      cases hle : l.isEmpty <;> simp [hle] at hopt
      · obtain ⟨_, _, h1, _⟩ := hopt
        exact hnot (h1 ▸ hmk)
      · exact hnot (hopt.1 ▸ hmk)
  · rintro ⟨hv, hs⟩
    left
    exact ⟨lang, hv, by simp [hl, hs]⟩

/-- **effective choice label** (itext list): every select using the list shows, for each language of the form, the text
filed under that language for this choice, else `-` — the id `<list>-<idx>` counts positions in the full list, so it is
this row's text (`OwnEntries`) -/
theorem effective_choice_label_itext (dk : Str) (T : List Entry) (padIds view : List Str) (sr : Bool) (q : V) (c : Choice)
    (m : Kvs) (lang : Str) (hown : OwnEntries T c.id (s "long") m) (hne : m ≠ .nil) (hfl : FlatD m)
    (hnd : m.keys.Nodup) (hlang : lang ≠ []) (hv : lang ∈ view) :
    (s "label", lang, (readLang dk (.dict m) lang).getD (s "-")) ∈ choiceTexts T padIds view true sr q c :=
  (mem_choiceTexts_label T padIds view sr q c lang _ hlang).mpr
    ⟨hv, shown_own dk T padIds lang c.id _ m (Or.inl rfl) hown hne hfl hnd⟩


theorem dictEntries_id_form {id form : Str} {v : V} {x : Entry} (h : x ∈ dictEntries id form v) :
    x.id = id ∧ x.form = form := by
  cases v with
  | none => simp [dictEntries] at h
  | str t => simp [dictEntries] at h
  | dict m =>
    simp only [dictEntries, List.mem_map] at h
    obtain ⟨_, _, rfl⟩ := h
    exact ⟨rfl, rfl⟩

theorem msgEntries_id_form {dl id k : Str} {v : V} {x : Entry} (h : x ∈ msgEntries dl id k v) :
    x.id = id ∧ x.form = s "long" := by
  cases v with
  | none => simp [msgEntries] at h
  | str t =>
    simp only [msgEntries] at h
    split at h
    · simp at h; subst h; exact ⟨rfl, rfl⟩
    · simp at h
  | dict m => exact dictEntries_id_form (by simpa [msgEntries] using h)

theorem choiceId_eq (c : Choice) : c.id = Itext.choiceId c.list c.idx := by
  simp [Choice.id, Itext.choiceId, natStr, s, List.append_assoc]

theorem elemId_eq (p : Str) (d : String) : p ++ s ":" ++ d.toList = Itext.path p d := by
  simp [Itext.path, s, List.append_assoc]

/-- every entry an element files carries one of its own ids `<xpath>:<display>` -/
theorem getTranslations_ids (dl : Str) (e : Elem) {x : Entry} (h : x ∈ getTranslations dl e) :
    ∃ d ∈ Itext.displays, x.id = Itext.path e.path d := by
  simp only [getTranslations, List.mem_append] at h
  rcases h with ((h | h) | h) | h
  · -- bind messages
    unfold msgsOf at h
    cases hb : e.bind with
    | none => simp [hb] at h
    | str t => simp [hb] at h
    | dict b =>
      simp only [hb] at h
      split at h
      · simp at h
      · simp only [List.mem_flatMap] at h
        obtain ⟨k, hk, hx⟩ := h
        have hid := (msgEntries_id_form hx).1
        simp only [msgKeys, List.mem_cons, List.mem_nil_iff, or_false] at hk
        rcases hk with rfl | rfl | rfl
        · exact ⟨"jr:constraintMsg", by decide, by rw [hid]; exact elemId_eq e.path "jr:constraintMsg"⟩
        · exact ⟨"jr:requiredMsg", by decide, by rw [hid]; exact elemId_eq e.path "jr:requiredMsg"⟩
        · exact ⟨"jr:noAppErrorString", by decide, by rw [hid]; exact elemId_eq e.path "jr:noAppErrorString"⟩
  · exact ⟨"label", by decide, by rw [(dictEntries_id_form h).1]; simp [Itext.path, s]⟩
  · exact ⟨"hint", by decide, by rw [(dictEntries_id_form h).1]; simp [Itext.path, s]⟩
  · exact ⟨"hint", by decide, by rw [(dictEntries_id_form h).1]; simp [Itext.path, s]⟩

def isLabelLong (id : Str) (x : Entry) : Bool := decide (x.id = id ∧ x.form = s "long")

/-- another element (different xpath) files nothing under this element's label id -/
theorem filter_other_elem (dl : Str) (e y : Elem) (hp : y.path ≠ e.path) :
    (getTranslations dl y).filter (isLabelLong (e.path ++ s ":label")) = [] := by
  rw [List.filter_eq_nil_iff]
  intro x hx hP
  obtain ⟨d, hd, hid⟩ := getTranslations_ids dl y hx
  simp only [isLabelLong, decide_eq_true_eq] at hP
  have h2 : Itext.path y.path d = Itext.path e.path "label" := by
    rw [← hid, hP.1]; simp [Itext.path, s]
  exact hp (Itext.path_inj hd (by decide) h2).1

/-- the element's own entries under its label id with form `long` are exactly its label dict -/
theorem filter_own_elem (dl : Str) (e : Elem) (m : Kvs) (hlab : e.label = .dict m) :
    (getTranslations dl e).filter (isLabelLong (e.path ++ s ":label")) =
      dictEntries (e.path ++ s ":label") (s "long") (.dict m) := by
  have hne : ∀ (d : String), d ∈ Itext.displays → d ≠ "label" → ∀ x : Entry, x.id = Itext.path e.path d →
      isLabelLong (e.path ++ s ":label") x = false := by
    intro d hd hdl x hx
    simp only [isLabelLong, decide_eq_false_iff_not, not_and]
    intro h _
    have h2 : Itext.path e.path d = Itext.path e.path "label" := by rw [← hx, h]; simp [Itext.path, s]
    exact hdl (Itext.path_inj hd (by decide) h2).2
  have hnil : ∀ (l : List Entry) (d : String), d ∈ Itext.displays → d ≠ "label" →
      (∀ x ∈ l, x.id = Itext.path e.path d) → l.filter (isLabelLong (e.path ++ s ":label")) = [] := by
    intro l d hd hdl hl
    rw [List.filter_eq_nil_iff]
    intro x hx hP
    rw [hne d hd hdl x (hl x hx)] at hP; cases hP
  have hwrap : labelV dl e = .dict m := by simp [labelV, hlab, isDict]
  unfold getTranslations
  simp only [hwrap, List.filter_append]
  have h1 : (msgsOf dl e).filter (isLabelLong (e.path ++ s ":label")) = [] := by
    rw [List.filter_eq_nil_iff]
    intro x hx hP
    unfold msgsOf at hx
    cases hb : e.bind with
    | none => simp [hb] at hx
    | str t => simp [hb] at hx
    | dict b =>
      simp only [hb] at hx
      split at hx
      · simp at hx
      · simp only [List.mem_flatMap] at hx
        obtain ⟨k, hk, hxk⟩ := hx
        have hid := (msgEntries_id_form hxk).1
        simp only [msgKeys, List.mem_cons, List.mem_nil_iff, or_false] at hk
        rcases hk with rfl | rfl | rfl
        · rw [hne "jr:constraintMsg" (by decide) (by decide) x (by rw [hid]; exact elemId_eq _ _)] at hP; cases hP
        · rw [hne "jr:requiredMsg" (by decide) (by decide) x (by rw [hid]; exact elemId_eq _ _)] at hP; cases hP
        · rw [hne "jr:noAppErrorString" (by decide) (by decide) x (by rw [hid]; exact elemId_eq _ _)] at hP; cases hP
  have h3 : ∀ v form, (dictEntries (e.path ++ s ":hint") form v).filter (isLabelLong (e.path ++ s ":label")) = [] := by
    intro v form
    exact hnil _ "hint" (by decide) (by decide) fun x hx => by rw [(dictEntries_id_form hx).1]; simp [Itext.path, s]
  have h2 : (dictEntries (e.path ++ s ":label") (s "long") (.dict m)).filter (isLabelLong (e.path ++ s ":label")) =
      dictEntries (e.path ++ s ":label") (s "long") (.dict m) := by
    rw [List.filter_eq_self]
    intro x hx
    have := dictEntries_id_form hx
    simp [isLabelLong, this.1, this.2]
  rw [h1, h2, h3, h3]
  simp

theorem choiceEntries_id {dl : Str} {c : Choice} {x : Entry} (h : x ∈ choiceEntries dl c) : x.id = c.id := by
  unfold choiceEntries at h
  simp only [List.mem_append] at h
  rcases h with h | h
  · split at h
    · simp at h
    · split at h
      · simp only [List.mem_flatMap] at h
        obtain ⟨⟨lang, value⟩, _, hx⟩ := h
        simp only at hx
        split at hx
        · simp only [List.mem_map] at hx; obtain ⟨_, _, rfl⟩ := hx; rfl
        · simp at hx; subst hx; rfl
      · simp at h; subst h; rfl
  · split at h
    · simp at h
    · split at h
      · simp only [List.mem_flatMap] at h
        obtain ⟨⟨mt, value⟩, _, hx⟩ := h
        simp only at hx
        split at hx
        · simp only [List.mem_map] at hx; obtain ⟨_, _, rfl⟩ := hx; rfl
        · simp at hx; subst hx; rfl
      · simp at h

theorem filter_flatMap_nil {α} (p : Entry → Bool) (g : α → List Entry) : ∀ (l : List α),
    (∀ a ∈ l, (g a).filter p = []) → (l.flatMap g).filter p = []
  | [], _ => by simp
  | a :: l, h => by
    simp only [List.flatMap_cons, List.filter_append, h a (by simp), List.nil_append]
    exact filter_flatMap_nil p g l fun b hb => h b (by simp [hb])

theorem flatMap_filter_own (dl : Str) (e : Elem) (m : Kvs) (hlab : e.label = .dict m) : ∀ (es : List Elem),
    e ∈ es → (es.map (·.path)).Nodup →
    (es.flatMap (getTranslations dl)).filter (isLabelLong (e.path ++ s ":label")) =
      dictEntries (e.path ++ s ":label") (s "long") (.dict m)
  | [], h, _ => by simp at h
  | x :: xs, hmem, hnd => by
    simp only [List.map_cons, List.nodup_cons] at hnd
    simp only [List.flatMap_cons, List.filter_append]
    by_cases hp : x.path = e.path
    · have hnotin : e ∉ xs := fun h => hnd.1 (hp ▸ List.mem_map.mpr ⟨e, h, rfl⟩)
      have hxe : e = x := by
        rcases List.mem_cons.mp hmem with h | h
        · exact h
        · exact absurd h hnotin
      subst hxe
      rw [filter_own_elem dl e m hlab,
        filter_flatMap_nil _ _ xs fun y hy => filter_other_elem dl e y fun h => hnd.1 (h ▸ List.mem_map.mpr ⟨y, hy, rfl⟩)]
      simp
    · have hexs : e ∈ xs := by
        rcases List.mem_cons.mp hmem with h | h
        · exact absurd (h ▸ rfl) hp
        · exact h
      rw [filter_other_elem dl e x hp, flatMap_filter_own dl e m hlab xs hexs hnd.2]
      simp

/-- **`OwnEntries` from path distinctness** (with C07's `rendered_ids_injective` facts `path_inj`, `choiceId_ne_path`):
in a form whose elements have pairwise distinct xpaths and no media type called `long`, the table's writes to
`[<xpath>:label][long]` are exactly the label dict of the element with that xpath — for any names (a question may be
called `q:hint`, a list `/data/q:label`). -/
theorem ownEntries_label (dl : Str) (f : Form) (e : Elem) (m : Kvs) (he : e ∈ f.elems) (hlab : e.label = .dict m)
    (hpaths : (f.elems.map (·.path)).Nodup)
    (hmedia : ∀ x ∈ f.elems.flatMap (mediaEntries dl), x.form ≠ s "long") :
    OwnEntries (table dl f) (e.path ++ s ":label") (s "long") m := by
  unfold OwnEntries table
  have hP : (fun x : Entry => decide (x.id = e.path ++ s ":label" ∧ x.form = s "long")) = isLabelLong (e.path ++ s ":label") := rfl
  rw [hP, List.filter_append, List.filter_append, flatMap_filter_own dl e m hlab f.elems he hpaths]
  have hch : ((f.choices.filter fun c => (itextLists f).contains c.list).flatMap (choiceEntries dl)).filter
      (isLabelLong (e.path ++ s ":label")) = [] := by
    apply filter_flatMap_nil
    intro c _
    rw [List.filter_eq_nil_iff]
    intro x hx hP
    simp only [isLabelLong, decide_eq_true_eq] at hP
    have h1 : Itext.choiceId c.list c.idx = Itext.path e.path "label" := by
      rw [← choiceId_eq, ← choiceEntries_id hx, hP.1]; simp [Itext.path, s]
    exact Itext.choiceId_ne_path _ _ _ (by decide) h1
  have hmd : (f.elems.flatMap (mediaEntries dl)).filter (isLabelLong (e.path ++ s ":label")) = [] := by
    rw [List.filter_eq_nil_iff]
    intro x hx hP
    simp only [isLabelLong, decide_eq_true_eq] at hP
    exact hmedia x hx hP.2
  rw [hch, hmd]
  simp


/-- **effective_text for labels on whole forms** (no `OwnEntries` hypothesis): in a form whose elements have pairwise
distinct xpaths and no media type called `long`, an element whose label slot is what `process_row` leaves for its row's
label cells (one of them suffixed) shows in every language exactly what the spec demands for those cells. -/
theorem effective_text_label_form (dl : Str) (f : Form) (padIds : List Str) (e : Elem) (cells : List TextSpec.Cell)
    (m : Kvs) (lang : Str) (he : e ∈ f.elems) (hpaths : (f.elems.map (·.path)).Nodup)
    (hmedia : ∀ x ∈ f.elems.flatMap (mediaEntries dl), x.form ≠ s "long")
    (hne : ∀ c ∈ toCol cells (s "label"), c.2 ≠ []) (hnd : ((toCol cells (s "label")).map (·.1)).Nodup)
    (hsfx : TextSpec.suffixed cells (s "label") ≠ [])
    (hslot : e.label = colVal dl .none (toCol cells (s "label"))) (hdict : colVal dl .none (toCol cells (s "label")) = .dict m)
    (hlang : lang ≠ []) :
    via (table dl f) padIds (labelSrc e) (s "long") lang =
      TextSpec.demanded (s "label") (.itext (TextSpec.langMap dl cells (s "label"))) lang :=
  effective_text_label_spec dl _ padIds e cells m lang hne hnd hsfx hslot hdict
    (ownEntries_label dl f e m he (hslot.trans hdict) hpaths hmedia) hlang

def specCellsEx : List TextSpec.Cell := [⟨"label".toList, some "fr".toList, "Qfr".toList⟩, ⟨"label".toList, none, "Q".toList⟩]

/-- non-vacuity: the one-question form `label::fr`, `label`; French reads `Qfr`, German the placeholder -/
example : via (table "default".toList formEx) [] (labelSrc elemEx) (s "long") "fr".toList = some "Qfr".toList ∧
    via (table "default".toList formEx) [] (labelSrc elemEx) (s "long") "de".toList = some (s "-") := by
  have hmedia : ∀ x ∈ formEx.elems.flatMap (mediaEntries "default".toList), x.form ≠ s "long" := by
    intro x hx; simp [formEx, elemEx, mediaEntries] at hx
  have hd : colVal "default".toList .none (toCol specCellsEx (s "label")) = .dict mEx := by rfl
  have key := fun lang hl => effective_text_label_form "default".toList formEx [] elemEx specCellsEx mEx lang
    (by simp [formEx]) (by decide) hmedia (by decide) (by decide) (by decide) rfl hd hl
  constructor
  · rw [key "fr".toList (by decide)]; decide
  · rw [key "de".toList (by decide)]; decide

/-! ### the same derivation for hints (generic in the display element) -/

def isAt (id form : Str) (x : Entry) : Bool := decide (x.id = id ∧ x.form = form)

theorem filter_other_elem_at (dl : Str) (e y : Elem) (d : String) (form : Str) (hd : d ∈ Itext.displays)
    (hp : y.path ≠ e.path) :
    (getTranslations dl y).filter (isAt (Itext.path e.path d) form) = [] := by
  rw [List.filter_eq_nil_iff]
  intro x hx hP
  obtain ⟨d', hd', hid⟩ := getTranslations_ids dl y hx
  simp only [isAt, decide_eq_true_eq] at hP
  exact hp (Itext.path_inj hd' hd (hid ▸ hP.1)).1

theorem filter_nil_of_display (e : Elem) (d d' : String) (form : Str) (hd : d ∈ Itext.displays) (hd' : d' ∈ Itext.displays)
    (hne : d' ≠ d) (l : List Entry) (hl : ∀ x ∈ l, x.id = Itext.path e.path d') :
    l.filter (isAt (Itext.path e.path d) form) = [] := by
  rw [List.filter_eq_nil_iff]
  intro x hx hP
  simp only [isAt, decide_eq_true_eq] at hP
  exact hne (Itext.path_inj hd' hd ((hl x hx) ▸ hP.1)).2

theorem msgsOf_ids (dl : Str) (e : Elem) {x : Entry} (hx : x ∈ msgsOf dl e) :
    ∃ d ∈ ["jr:constraintMsg", "jr:requiredMsg", "jr:noAppErrorString"], x.id = Itext.path e.path d := by
  unfold msgsOf at hx
  cases hb : e.bind with
  | none => simp [hb] at hx
  | str t => simp [hb] at hx
  | dict b =>
    simp only [hb] at hx
    split at hx
    · simp at hx
    · simp only [List.mem_flatMap] at hx
      obtain ⟨k, hk, hxk⟩ := hx
      have hid := (msgEntries_id_form hxk).1
      simp only [msgKeys, List.mem_cons, List.mem_nil_iff, or_false] at hk
      rcases hk with rfl | rfl | rfl
      · exact ⟨"jr:constraintMsg", by simp, by rw [hid]; exact elemId_eq _ _⟩
      · exact ⟨"jr:requiredMsg", by simp, by rw [hid]; exact elemId_eq _ _⟩
      · exact ⟨"jr:noAppErrorString", by simp, by rw [hid]; exact elemId_eq _ _⟩

theorem filter_msgs_nil (dl : Str) (e : Elem) (d : String) (form : Str) (hd : d ∈ Itext.displays)
    (hnm : d = "label" ∨ d = "hint") :
    (msgsOf dl e).filter (isAt (Itext.path e.path d) form) = [] := by
  rw [List.filter_eq_nil_iff]
  intro x hx hP
  obtain ⟨d', hd', hid⟩ := msgsOf_ids dl e hx
  simp only [isAt, decide_eq_true_eq] at hP
  have hd'' : d' ∈ Itext.displays := by
    simp only [List.mem_cons, List.mem_nil_iff, or_false] at hd'
    rcases hd' with rfl | rfl | rfl <;> decide
  have := (Itext.path_inj hd'' hd (hid ▸ hP.1)).2
  simp only [List.mem_cons, List.mem_nil_iff, or_false] at hd'
  rcases hnm with rfl | rfl <;> rcases hd' with rfl | rfl | rfl <;> exact absurd this (by decide)

/-- the element's own entries under its hint id: the plain values are the hint dict, the guidance values the guidance dict -/
theorem filter_own_hint (dl : Str) (e : Elem) (m : Kvs) (hh : hintV dl e = .dict m) :
    (getTranslations dl e).filter (isAt (Itext.path e.path "hint") (s "long")) =
      dictEntries (e.path ++ s ":hint") (s "long") (.dict m) := by
  have hidl : e.path ++ s ":label" = Itext.path e.path "label" := by simp [Itext.path, s]
  have hidh : e.path ++ s ":hint" = Itext.path e.path "hint" := by simp [Itext.path, s]
  unfold getTranslations
  simp only [hh, List.filter_append]
  rw [filter_msgs_nil dl e "hint" _ (by decide) (Or.inr rfl),
    filter_nil_of_display e "hint" "label" _ (by decide) (by decide) (by decide) _
      (fun x hx => by rw [(dictEntries_id_form hx).1, hidl])]
  have h2 : (dictEntries (e.path ++ s ":hint") (s "long") (.dict m)).filter (isAt (Itext.path e.path "hint") (s "long")) =
      dictEntries (e.path ++ s ":hint") (s "long") (.dict m) := by
    rw [List.filter_eq_self]
    intro x hx
    have := dictEntries_id_form hx
    simp [isAt, this.1, this.2, hidh]
  have h3 : (dictEntries (e.path ++ s ":hint") (s "guidance") (guidanceV dl e)).filter
      (isAt (Itext.path e.path "hint") (s "long")) = [] := by
    rw [List.filter_eq_nil_iff]
    intro x hx hP
    simp only [isAt, decide_eq_true_eq] at hP
    have := (dictEntries_id_form hx).2
    rw [this] at hP
    exact absurd hP.2 (by decide)
  rw [h2, h3]; simp

theorem flatMap_filter_own_at (dl : Str) (e : Elem) (d : String) (form : Str) (R : List Entry) (hd : d ∈ Itext.displays)
    (hown : (getTranslations dl e).filter (isAt (Itext.path e.path d) form) = R) : ∀ (es : List Elem),
    e ∈ es → (es.map (·.path)).Nodup →
    (es.flatMap (getTranslations dl)).filter (isAt (Itext.path e.path d) form) = R
  | [], h, _ => by simp at h
  | x :: xs, hmem, hnd => by
    simp only [List.map_cons, List.nodup_cons] at hnd
    simp only [List.flatMap_cons, List.filter_append]
    by_cases hp : x.path = e.path
    · have hnotin : e ∉ xs := fun h => hnd.1 (hp ▸ List.mem_map.mpr ⟨e, h, rfl⟩)
      have hxe : e = x := by
        rcases List.mem_cons.mp hmem with h | h
        · exact h
        · exact absurd h hnotin
      subst hxe
      rw [hown, filter_flatMap_nil _ _ xs fun y hy =>
        filter_other_elem_at dl e y d form hd fun h => hnd.1 (h ▸ List.mem_map.mpr ⟨y, hy, rfl⟩)]
      simp
    · have hexs : e ∈ xs := by
        rcases List.mem_cons.mp hmem with h | h
        · exact absurd (h ▸ rfl) hp
        · exact h
      rw [filter_other_elem_at dl e x d form hd hp, flatMap_filter_own_at dl e d form R hd hown xs hexs hnd.2]
      simp

/-- **`OwnEntries` for a translated hint, from path distinctness** -/
theorem ownEntries_hint (dl : Str) (f : Form) (e : Elem) (m : Kvs) (he : e ∈ f.elems) (hh : hintV dl e = .dict m)
    (hpaths : (f.elems.map (·.path)).Nodup)
    (hmedia : ∀ x ∈ f.elems.flatMap (mediaEntries dl), x.form ≠ s "long") :
    OwnEntries (table dl f) (e.path ++ s ":hint") (s "long") m := by
  have hidh : e.path ++ s ":hint" = Itext.path e.path "hint" := by simp [Itext.path, s]
  unfold OwnEntries table
  have hP : (fun x : Entry => decide (x.id = e.path ++ s ":hint" ∧ x.form = s "long")) =
      isAt (Itext.path e.path "hint") (s "long") := by rw [← hidh]; rfl
  rw [hP, List.filter_append, List.filter_append,
    flatMap_filter_own_at dl e "hint" _ _ (by decide) (filter_own_hint dl e m hh) f.elems he hpaths]
  have hch : ((f.choices.filter fun c => (itextLists f).contains c.list).flatMap (choiceEntries dl)).filter
      (isAt (Itext.path e.path "hint") (s "long")) = [] := by
    apply filter_flatMap_nil
    intro c _
    rw [List.filter_eq_nil_iff]
    intro x hx hP
    simp only [isAt, decide_eq_true_eq] at hP
    have h1 : Itext.choiceId c.list c.idx = Itext.path e.path "hint" := by
      rw [← choiceId_eq, ← choiceEntries_id hx, hP.1]
    exact Itext.choiceId_ne_path _ _ _ (by decide) h1
  have hmd : (f.elems.flatMap (mediaEntries dl)).filter (isAt (Itext.path e.path "hint") (s "long")) = [] := by
    rw [List.filter_eq_nil_iff]
    intro x hx hP
    simp only [isAt, decide_eq_true_eq] at hP
    exact hmedia x hx hP.2
  rw [hch, hmd]
  simp

/-- **effective hint on whole forms**: a translated hint shows per language the text filed under it, else `-`, in any form
with pairwise distinct xpaths -/
theorem effective_hint_form (dl : Str) (f : Form) (padIds : List Str) (e : Elem) (m : Kvs) (lang : Str)
    (he : e ∈ f.elems) (hh : e.hint = .dict m) (hpaths : (f.elems.map (·.path)).Nodup)
    (hmedia : ∀ x ∈ f.elems.flatMap (mediaEntries dl), x.form ≠ s "long")
    (hne : m ≠ .nil) (hfl : FlatD m) (hnd : m.keys.Nodup) (hlang : lang ≠ []) :
    via (table dl f) padIds (hintSrc e) (s "long") lang = some ((readLang dl e.hint lang).getD (s "-")) :=
  effective_hint_itext dl _ padIds e lang m hh
    (ownEntries_hint dl f e m he (by simp [hintV, hh]) hpaths hmedia) hne hfl hnd hlang

/-! ### guidance hints and bind messages: the same derivation -/

/-- the element's own guidance entries: exactly its guidance dict -/
theorem filter_own_guidance (dl : Str) (e : Elem) (m : Kvs) (hg : guidanceV dl e = .dict m) :
    (getTranslations dl e).filter (isAt (Itext.path e.path "hint") (s "guidance")) =
      dictEntries (e.path ++ s ":hint") (s "guidance") (.dict m) := by
  have hidl : e.path ++ s ":label" = Itext.path e.path "label" := by simp [Itext.path, s]
  have hidh : e.path ++ s ":hint" = Itext.path e.path "hint" := by simp [Itext.path, s]
  unfold getTranslations
  simp only [hg, List.filter_append]
  rw [filter_msgs_nil dl e "hint" _ (by decide) (Or.inr rfl),
    filter_nil_of_display e "hint" "label" _ (by decide) (by decide) (by decide) _
      (fun x hx => by rw [(dictEntries_id_form hx).1, hidl])]
  have h2 : (dictEntries (e.path ++ s ":hint") (s "guidance") (.dict m)).filter (isAt (Itext.path e.path "hint") (s "guidance")) =
      dictEntries (e.path ++ s ":hint") (s "guidance") (.dict m) := by
    rw [List.filter_eq_self]
    intro x hx
    have := dictEntries_id_form hx
    simp [isAt, this.1, this.2, hidh]
  have h3 : (dictEntries (e.path ++ s ":hint") (s "long") (hintV dl e)).filter
      (isAt (Itext.path e.path "hint") (s "guidance")) = [] := by
    rw [List.filter_eq_nil_iff]
    intro x hx hP
    simp only [isAt, decide_eq_true_eq] at hP
    have := (dictEntries_id_form hx).2
    rw [this] at hP
    exact absurd hP.2 (by decide)
  rw [h2, h3]; simp

/-- the table-level assembly, generic in display element and form: if the element's own filter is `dictEntries … m`, the
choices cannot collide (C07's `choiceId_ne_path`) and no media entry has this form, the table's writes are the element's own -/
theorem ownEntries_at (dl : Str) (f : Form) (e : Elem) (d : String) (form : Str) (m : Kvs) (hd : d ∈ Itext.displays)
    (he : e ∈ f.elems) (hpaths : (f.elems.map (·.path)).Nodup)
    (hown : (getTranslations dl e).filter (isAt (Itext.path e.path d) form) = dictEntries (Itext.path e.path d) form (.dict m))
    (hmedia : ∀ x ∈ f.elems.flatMap (mediaEntries dl), x.form ≠ form) :
    OwnEntries (table dl f) (Itext.path e.path d) form m := by
  unfold OwnEntries table
  have hP : (fun x : Entry => decide (x.id = Itext.path e.path d ∧ x.form = form)) = isAt (Itext.path e.path d) form := rfl
  rw [hP, List.filter_append, List.filter_append,
    flatMap_filter_own_at dl e d form _ hd hown f.elems he hpaths]
  have hch : ((f.choices.filter fun c => (itextLists f).contains c.list).flatMap (choiceEntries dl)).filter
      (isAt (Itext.path e.path d) form) = [] := by
    apply filter_flatMap_nil
    intro c _
    rw [List.filter_eq_nil_iff]
    intro x hx hP
    simp only [isAt, decide_eq_true_eq] at hP
    have h1 : Itext.choiceId c.list c.idx = Itext.path e.path d := by
      rw [← choiceId_eq, ← choiceEntries_id hx, hP.1]
    exact Itext.choiceId_ne_path _ _ _ hd h1
  have hmd : (f.elems.flatMap (mediaEntries dl)).filter (isAt (Itext.path e.path d) form) = [] := by
    rw [List.filter_eq_nil_iff]
    intro x hx hP
    simp only [isAt, decide_eq_true_eq] at hP
    exact hmedia x hx hP.2
  rw [hch, hmd]
  simp

/-- **effective guidance hint on whole forms** (translated guidance; no `OwnEntries` hypothesis) -/
theorem effective_guidance_form (dl : Str) (f : Form) (padIds : List Str) (e : Elem) (m : Kvs) (lang : Str)
    (he : e ∈ f.elems) (hg : e.guidance = .dict m) (hpaths : (f.elems.map (·.path)).Nodup)
    (hmedia : ∀ x ∈ f.elems.flatMap (mediaEntries dl), x.form ≠ s "guidance")
    (hne : m ≠ .nil) (hfl : FlatD m) (hnd : m.keys.Nodup) (hlang : lang ≠ []) :
    via (table dl f) padIds (hintSrc e) (s "guidance") lang = some ((readLang dl e.guidance lang).getD (s "-")) := by
  have hidh : e.path ++ s ":hint" = Itext.path e.path "hint" := by simp [Itext.path, s]
  have hown := ownEntries_at dl f e "hint" (s "guidance") m (by decide) he hpaths
    (by rw [← hidh]; exact filter_own_guidance dl e m (by simp [guidanceV, hg])) hmedia
  rw [← hidh] at hown
  exact effective_guidance_itext dl _ padIds e lang m hg hown hne hfl hnd hlang

theorem filter_msgEntries (dl : Str) (e : Elem) (d d' : String) (v : V) (hd : d ∈ Itext.displays) (hd' : d' ∈ Itext.displays) :
    (msgEntries dl (e.path ++ s ":" ++ d'.toList) d'.toList v).filter (isAt (Itext.path e.path d) (s "long")) =
      if d' = d then msgEntries dl (e.path ++ s ":" ++ d'.toList) d'.toList v else [] := by
  by_cases h : d' = d
  · subst h
    simp only [if_true]
    rw [List.filter_eq_self]
    intro x hx
    have := msgEntries_id_form hx
    have hid : e.path ++ s ":" ++ d'.toList = Itext.path e.path d' := elemId_eq _ _
    simp only [isAt, this.1, this.2, hid, and_self, decide_true]
  · simp only [h, if_false]
    exact filter_nil_of_display e d d' _ hd hd' h _ fun x hx => by rw [(msgEntries_id_form hx).1, elemId_eq]

/-- the element's own entries under a message id: exactly that message's dict -/
theorem filter_own_msg (dl : Str) (e : Elem) (d : String) (b m : Kvs)
    (hd : d = "jr:constraintMsg" ∨ d = "jr:requiredMsg")
    (hb : e.bind = .dict b) (hk : b.get d.toList = .dict m) :
    (getTranslations dl e).filter (isAt (Itext.path e.path d) (s "long")) =
      dictEntries (Itext.path e.path d) (s "long") (.dict m) := by
  have hdd : d ∈ Itext.displays := by rcases hd with rfl | rfl <;> decide
  have hidl : e.path ++ s ":label" = Itext.path e.path "label" := by simp [Itext.path, s]
  have hidh : e.path ++ s ":hint" = Itext.path e.path "hint" := by simp [Itext.path, s]
  have hnl : ("label" : String) ≠ d := by rcases hd with rfl | rfl <;> decide
  have hnh : ("hint" : String) ≠ d := by rcases hd with rfl | rfl <;> decide
  have hbf : (V.dict b).falsy = false := by
    cases b with
    | nil => simp [Kvs.get] at hk
    | cons k v r => simp [V.falsy]
  unfold getTranslations
  simp only [List.filter_append]
  have hL : (dictEntries (e.path ++ s ":label") (s "long") (labelV dl e)).filter (isAt (Itext.path e.path d) (s "long")) = [] :=
    filter_nil_of_display e d "label" _ hdd (by decide) hnl _ (fun x hx => by rw [(dictEntries_id_form hx).1, hidl])
  have hH : (dictEntries (e.path ++ s ":hint") (s "long") (hintV dl e)).filter (isAt (Itext.path e.path d) (s "long")) = [] :=
    filter_nil_of_display e d "hint" _ hdd (by decide) hnh _ (fun x hx => by rw [(dictEntries_id_form hx).1, hidh])
  have hG : (dictEntries (e.path ++ s ":hint") (s "guidance") (guidanceV dl e)).filter (isAt (Itext.path e.path d) (s "long")) = [] :=
    filter_nil_of_display e d "hint" _ hdd (by decide) hnh _ (fun x hx => by rw [(dictEntries_id_form hx).1, hidh])
  rw [hL, hH, hG]
  simp only [List.append_nil]
  unfold msgsOf
  simp only [hb, hbf, Bool.false_eq_true, if_false, msgKeys, List.flatMap_cons, List.flatMap_nil, List.append_nil,
    List.filter_append]
  have e1 := filter_msgEntries dl e d "jr:constraintMsg" (b.get (s "jr:constraintMsg")) hdd (by decide)
  have e2 := filter_msgEntries dl e d "jr:requiredMsg" (b.get (s "jr:requiredMsg")) hdd (by decide)
  have e3 := filter_msgEntries dl e d "jr:noAppErrorString" (b.get (s "jr:noAppErrorString")) hdd (by decide)
  rcases hd with rfl | rfl
  · rw [show s "jr:constraintMsg" = ("jr:constraintMsg" : String).toList from rfl] at *
    rw [show s "jr:requiredMsg" = ("jr:requiredMsg" : String).toList from rfl] at *
    rw [show s "jr:noAppErrorString" = ("jr:noAppErrorString" : String).toList from rfl] at *
    rw [e1, e2, e3, hk]
    simp [msgEntries]
    simp [Itext.path, s]
  · rw [show s "jr:constraintMsg" = ("jr:constraintMsg" : String).toList from rfl] at *
    rw [show s "jr:requiredMsg" = ("jr:requiredMsg" : String).toList from rfl] at *
    rw [show s "jr:noAppErrorString" = ("jr:noAppErrorString" : String).toList from rfl] at *
    rw [e1, e2, e3, hk]
    simp [msgEntries]
    simp [Itext.path, s]

/-- **effective constraint / required message on whole forms** (translated message; no `OwnEntries` hypothesis) -/
theorem effective_message_form (dl : Str) (f : Form) (padIds : List Str) (e : Elem) (d : String) (b m : Kvs) (lang : Str)
    (hd : d = "jr:constraintMsg" ∨ d = "jr:requiredMsg")
    (he : e ∈ f.elems) (hb : e.bind = .dict b) (hk : b.get d.toList = .dict m) (hpaths : (f.elems.map (·.path)).Nodup)
    (hmedia : ∀ x ∈ f.elems.flatMap (mediaEntries dl), x.form ≠ s "long")
    (hne : m ≠ .nil) (hfl : FlatD m) (hnd : m.keys.Nodup) (hlang : lang ≠ []) :
    via (table dl f) padIds (msgSrc e d.toList) (s "long") lang = some ((readLang dl (b.get d.toList) lang).getD (s "-")) := by
  have hdd : d ∈ Itext.displays := by rcases hd with rfl | rfl <;> decide
  have hown := ownEntries_at dl f e d (s "long") m hdd he hpaths (filter_own_msg dl e d b m hd hb hk) hmedia
  rw [← elemId_eq] at hown
  exact effective_message_itext dl _ padIds e d.toList lang b m hb hk hown hne hfl hnd hlang

/-! ### from the row's cells to the shown label (header layer composed in Lean, no slot hypothesis) -/

/-- **a slot of the grouped row, from the cells**: after `process_row`, the value under a column `q` whose headers are `q` /
`q::language` is the merge, in column order, of that column's (language, text) cells (`row_grouping` + `colFold_eq_colVal`). -/
theorem slot_of_row (dk : Str) (hk : List (Str × List Str)) (row : List (Str × Str)) (q : Str)
    (hwf : ∀ c ∈ row, c.1 ≠ "__row".toList ∧ ∃ t ts, lookup c.1 hk = some (t :: ts))
    (hnc : NoClash dk hk .nil row)
    (hflat : ∀ c ∈ row, ∀ t ts, lookup c.1 hk = some (t :: ts) → q = t → ts.length ≤ 1) :
    ∃ out, processRow dk hk row = .ok out ∧ out.get q = colVal dk .none (colCells hk q row) := by
  obtain ⟨out, hok, hget⟩ := row_grouping dk hk row .nil hwf hnc
  refine ⟨out, hok, ?_⟩
  rw [hget q, colFold_eq_colVal dk hk q row _ hflat]
  rfl

/-- **effective_text for labels, from the row's cells**: in a form whose elements have pairwise distinct xpaths (and no media
type called `long`), an element whose label slot is the `label` value of its grouped row — the row being any list of
(header, cell) pairs with the header→tokens map `hk` — shows in every language exactly the spec's reading of the row's label
cells (the cell suffixed with the language, else the unsuffixed one for the default language), else `-`.  No hypothesis about
the grouped value other than that a suffixed label cell made it a dict. -/
theorem effective_text_label_row (dl : Str) (f : Form) (padIds : List Str) (e : Elem) (hk : List (Str × List Str))
    (row : List (Str × Str)) (out m : Kvs) (lang : Str)
    (he : e ∈ f.elems) (hpaths : (f.elems.map (·.path)).Nodup)
    (hmedia : ∀ x ∈ f.elems.flatMap (mediaEntries dl), x.form ≠ s "long")
    (hwf : ∀ c ∈ row, c.1 ≠ "__row".toList ∧ ∃ t ts, lookup c.1 hk = some (t :: ts))
    (hnc : NoClash dl hk .nil row)
    (hflat : ∀ c ∈ row, ∀ t ts, lookup c.1 hk = some (t :: ts) → s "label" = t → ts.length ≤ 1)
    (hrow : processRow dl hk row = .ok out) (hlab : e.label = out.get (s "label")) (hdict : out.get (s "label") = .dict m)
    (hne : ∀ c ∈ colCells hk (s "label") row, c.2 ≠ []) (hnd : ((colCells hk (s "label") row).map (·.1)).Nodup)
    (hlang : lang ≠ []) :
    via (table dl f) padIds (labelSrc e) (s "long") lang =
      some ((specRead dl (colCells hk (s "label") row) lang).getD (s "-")) := by
  obtain ⟨out', hok, hget⟩ := slot_of_row dl hk row (s "label") hwf hnc hflat
  have hout : out' = out := by rw [hrow] at hok; cases hok; rfl
  subst hout
  have hslot : e.label = colVal dl .none (colCells hk (s "label") row) := hlab.trans hget
  have hd : colVal dl .none (colCells hk (s "label") row) = .dict m := hget ▸ hdict
  exact effective_text_label dl _ padIds e _ m lang hne hnd hslot hd
    (ownEntries_label dl f e m he (hlab.trans hdict) hpaths hmedia) hlang

/-- non-vacuity: the row `label::fr = Qfr`, `label = Q` (F19 column order) as the only element of a form -/
example : ∃ out, processRow "default".toList hkEx rowEx = .ok out ∧
    out.get "label".toList = colVal "default".toList .none (colCells hkEx "label".toList rowEx) := by
  apply slot_of_row
  · intro c hc
    simp only [rowEx, List.mem_cons, List.mem_nil_iff, or_false] at hc
    rcases hc with rfl | rfl
    · exact ⟨by decide, "label".toList, ["fr".toList], by decide⟩
    · exact ⟨by decide, "label".toList, [], by decide⟩
  · intro pre h v post hs t hl x
    rcases pre with _ | ⟨p1, _ | ⟨p2, pre⟩⟩
    · simp only [rowEx, List.nil_append, List.cons.injEq, Prod.mk.injEq] at hs
      obtain ⟨⟨rfl, rfl⟩, _⟩ := hs
      have : lookup "label::fr".toList hkEx = some ["label".toList, "fr".toList] := by decide
      rw [this] at hl; simp at hl
    · simp only [rowEx, List.cons_append, List.nil_append, List.cons.injEq, Prod.mk.injEq] at hs
      obtain ⟨rfl, ⟨rfl, rfl⟩, _⟩ := hs
      have ht : t = "label".toList := by
        have : lookup "label".toList hkEx = some ["label".toList] := by decide
        rw [this] at hl; simpa using hl.symm
      subst ht
      have hl2 : lookup ['l', 'a', 'b', 'e', 'l', ':', ':', 'f', 'r'] hkEx = some [['l', 'a', 'b', 'e', 'l'], ['f', 'r']] := by decide
      simp [colFold, hl2, Kvs.get, merge_none_left, nest]
    · simp [rowEx] at hs
  · intro c hc t ts hl _
    simp only [rowEx, List.mem_cons, List.mem_nil_iff, or_false] at hc
    rcases hc with rfl | rfl
    · have h2 : lookup "label::fr".toList hkEx = some ["label".toList, "fr".toList] := by decide
      rw [h2] at hl; cases hl; simp
    · have h2 : lookup "label".toList hkEx = some ["label".toList] := by decide
      rw [h2] at hl; cases hl; simp

/-! ### choices: `OwnEntries` from distinct (list, position) pairs -/

/-- every value of the dict is a plain string (a translated label as rows produce it: language → text) -/
def AllStr : Kvs → Prop
  | .nil => True
  | .cons _ v rest => (∃ t, v = .str t) ∧ AllStr rest

theorem label_items_flat (id : Str) : ∀ (m : Kvs), AllStr m →
    ((Kvs.items m).flatMap fun (lv : Str × V) =>
      match lv.2 with
      | .dict inner => (Kvs.items inner).map fun (lv' : Str × V) => (⟨lv'.1, id, lv.1, lv'.2⟩ : Entry)
      | v => [⟨lv.1, id, s "long", v⟩]) =
    (Kvs.items m).map fun (lt : Str × V) => (⟨lt.1, id, s "long", lt.2⟩ : Entry)
  | .nil, _ => by simp [Kvs.items]
  | .cons k v rest, h => by
    obtain ⟨⟨t, rfl⟩, hr⟩ := h
    simp only [Kvs.items, List.flatMap_cons, List.map_cons]
    rw [label_items_flat id rest hr]
    rfl

def noLabel (c : Choice) : Choice := { c with label := .none }

theorem noLabel_id (c : Choice) : (noLabel c).id = c.id := rfl

/-- a choice's entries = its label dict's entries, then the entries of its media -/
theorem choiceEntries_split (dl : Str) (c : Choice) (m : Kvs) (hlab : c.label = .dict m) (hne : m ≠ .nil) (hstr : AllStr m) :
    choiceEntries dl c = dictEntries c.id (s "long") (.dict m) ++ choiceEntries dl (noLabel c) := by
  have hfm : (V.dict m).falsy = false := by
    cases m with
    | nil => exact absurd rfl hne
    | cons k v r => simp [V.falsy]
  have hn : (V.none).falsy = true := rfl
  have hid : ({ c with label := V.none } : Choice).id = c.id := rfl
  unfold choiceEntries
  simp only [hlab, hfm, Bool.false_eq_true, if_false, noLabel, hn, if_true, List.nil_append, hid]
  have := label_items_flat c.id m hstr
  simp only [dictEntries]
  rw [← this]
  rfl

theorem choiceEntries_nolabel_form {dl : Str} {c : Choice} {x : Entry} (h : x ∈ choiceEntries dl (noLabel c)) :
    ∃ kvs mt v, c.media = .dict kvs ∧ (mt, v) ∈ Kvs.items kvs ∧ x.form = mt := by
  have hn : (V.none).falsy = true := rfl
  unfold choiceEntries at h
  simp only [noLabel, hn, if_true, List.nil_append] at h
  by_cases hmf : c.media.falsy = true
  · simp [hmf] at h
  · simp only [hmf, if_false, Bool.false_eq_true] at h
    cases hm : c.media with
    | none => simp [hm] at h
    | str t => simp [hm] at h
    | dict kvs =>
      simp only [hm, List.mem_flatMap] at h
      obtain ⟨⟨mt, value⟩, hmem, hx⟩ := h
      refine ⟨kvs, mt, value, rfl, hmem, ?_⟩
      simp only at hx
      split at hx
      · simp only [List.mem_map] at hx; obtain ⟨_, _, rfl⟩ := hx; rfl
      · simp at hx; subst hx; rfl

/-- the entries of a choice under its own id with form `long` are exactly its label dict (no media type is called `long`) -/
theorem filter_own_choice (dl : Str) (c : Choice) (m : Kvs) (hlab : c.label = .dict m) (hne : m ≠ .nil) (hstr : AllStr m)
    (hmedia : ∀ kvs, c.media = .dict kvs → ∀ kv ∈ Kvs.items kvs, kv.1 ≠ s "long") :
    (choiceEntries dl c).filter (isAt c.id (s "long")) = dictEntries c.id (s "long") (.dict m) := by
  rw [choiceEntries_split dl c m hlab hne hstr, List.filter_append]
  have h1 : (dictEntries c.id (s "long") (.dict m)).filter (isAt c.id (s "long")) = dictEntries c.id (s "long") (.dict m) := by
    rw [List.filter_eq_self]
    intro x hx
    have := dictEntries_id_form hx
    simp [isAt, this.1, this.2]
  have h2 : (choiceEntries dl (noLabel c)).filter (isAt c.id (s "long")) = [] := by
    rw [List.filter_eq_nil_iff]
    intro x hx hP
    simp only [isAt, decide_eq_true_eq] at hP
    obtain ⟨kvs, mt, v, hm, hmem, hform⟩ := choiceEntries_nolabel_form hx
    exact hmedia kvs hm (mt, v) hmem (hform ▸ hP.2)
  rw [h1, h2]; simp

theorem mediaEntries_id {dl : Str} {e : Elem} {x : Entry} (h : x ∈ mediaEntries dl e) : x.id = Itext.path e.path "label" := by
  have hid : e.path ++ s ":label" = Itext.path e.path "label" := by simp [Itext.path, s]
  unfold mediaEntries at h
  cases hm : e.media with
  | none => simp [hm] at h
  | str t => simp [hm] at h
  | dict m =>
    simp only [hm, List.mem_flatMap] at h
    obtain ⟨⟨mt, v⟩, _, hx⟩ := h
    simp only at hx
    split at hx
    · simp only [List.mem_map] at hx; obtain ⟨_, _, rfl⟩ := hx; exact hid
    · simp at hx; subst hx; exact hid

theorem filter_other_choice (dl : Str) (c c' : Choice) (form : Str) (hne : (c'.list, c'.idx) ≠ (c.list, c.idx)) :
    (choiceEntries dl c').filter (isAt c.id form) = [] := by
  rw [List.filter_eq_nil_iff]
  intro x hx hP
  simp only [isAt, decide_eq_true_eq] at hP
  have h1 : Itext.choiceId c'.list c'.idx = Itext.choiceId c.list c.idx := by
    rw [← choiceId_eq, ← choiceId_eq, ← choiceEntries_id hx, hP.1]
  have := Itext.choiceId_inj h1
  exact hne (by rw [this.1, this.2])

theorem flatMap_filter_own_choice (dl : Str) (c : Choice) (form : Str) (R : List Entry)
    (hown : (choiceEntries dl c).filter (isAt c.id form) = R) : ∀ (cs : List Choice),
    c ∈ cs → (cs.map fun c => (c.list, c.idx)).Nodup →
    (cs.flatMap (choiceEntries dl)).filter (isAt c.id form) = R
  | [], h, _ => by simp at h
  | x :: xs, hmem, hnd => by
    simp only [List.map_cons, List.nodup_cons] at hnd
    simp only [List.flatMap_cons, List.filter_append]
    by_cases hp : (x.list, x.idx) = (c.list, c.idx)
    · have hnotin : c ∉ xs := fun h => hnd.1 (hp ▸ List.mem_map.mpr ⟨c, h, rfl⟩)
      have hxe : c = x := by
        rcases List.mem_cons.mp hmem with h | h
        · exact h
        · exact absurd h hnotin
      subst hxe
      rw [hown, filter_flatMap_nil _ _ xs fun y hy =>
        filter_other_choice dl c y form fun h => hnd.1 (h ▸ List.mem_map.mpr ⟨y, hy, rfl⟩)]
      simp
    · have hexs : c ∈ xs := by
        rcases List.mem_cons.mp hmem with h | h
        · exact absurd (h ▸ rfl) hp
        · exact h
      rw [filter_other_choice dl c x form hp, flatMap_filter_own_choice dl c form R hown xs hexs hnd.2]
      simp

/-- **`OwnEntries` for a choice's label, from distinct (list, position) pairs**: the table's writes to `[<list>-<idx>][long]` are
exactly the label dict of the choice at that position of that list — no other choice (C07's `choiceId_inj`), no element
(`choiceId_ne_path`) and none of its media files anything there. -/
theorem ownEntries_choice (dl : Str) (f : Form) (c : Choice) (m : Kvs) (hc : c ∈ f.choices)
    (hit : (itextLists f).contains c.list = true) (hlab : c.label = .dict m) (hne : m ≠ .nil) (hstr : AllStr m)
    (hnd : (f.choices.map fun c => (c.list, c.idx)).Nodup)
    (hmedia : ∀ kvs, c.media = .dict kvs → ∀ kv ∈ Kvs.items kvs, kv.1 ≠ s "long") :
    OwnEntries (table dl f) c.id (s "long") m := by
  unfold OwnEntries table
  have hP : (fun x : Entry => decide (x.id = c.id ∧ x.form = s "long")) = isAt c.id (s "long") := rfl
  have hsub : ((f.choices.filter fun c => (itextLists f).contains c.list).map fun c => (c.list, c.idx)).Nodup :=
    List.Nodup.sublist (List.Sublist.map _ List.filter_sublist) hnd
  rw [hP, List.filter_append, List.filter_append,
    flatMap_filter_own_choice dl c (s "long") _ (filter_own_choice dl c m hlab hne hstr hmedia) _
      (List.mem_filter.mpr ⟨hc, hit⟩) hsub]
  have hel : (f.elems.flatMap (getTranslations dl)).filter (isAt c.id (s "long")) = [] := by
    apply filter_flatMap_nil
    intro e _
    rw [List.filter_eq_nil_iff]
    intro x hx hP
    simp only [isAt, decide_eq_true_eq] at hP
    obtain ⟨d, hd, hid⟩ := getTranslations_ids dl e hx
    exact Itext.choiceId_ne_path c.list c.idx e.path hd (by rw [← choiceId_eq, ← hP.1, hid])
  have hmd : (f.elems.flatMap (mediaEntries dl)).filter (isAt c.id (s "long")) = [] := by
    apply filter_flatMap_nil
    intro e _
    rw [List.filter_eq_nil_iff]
    intro x hx hP
    simp only [isAt, decide_eq_true_eq] at hP
    exact Itext.choiceId_ne_path c.list c.idx e.path (d := "label") (by decide)
      (by rw [← choiceId_eq, ← hP.1, mediaEntries_id hx])
  rw [hel, hmd]
  simp

/-- **effective choice label on whole forms**: every select that uses an itext list shows for the choice at position `idx`,
per language of the form, the text its own row files under that language, else `-` — never another row's text -/
theorem effective_choice_label_form (dl : Str) (f : Form) (padIds view : List Str) (sr : Bool) (q : V) (c : Choice) (m : Kvs)
    (lang : Str) (hc : c ∈ f.choices) (hit : (itextLists f).contains c.list = true) (hlab : c.label = .dict m)
    (hne : m ≠ .nil) (hstr : AllStr m) (hfl : FlatD m) (hkn : m.keys.Nodup)
    (hnd : (f.choices.map fun c => (c.list, c.idx)).Nodup)
    (hmedia : ∀ kvs, c.media = .dict kvs → ∀ kv ∈ Kvs.items kvs, kv.1 ≠ s "long")
    (hlang : lang ≠ []) (hv : lang ∈ view) :
    (s "label", lang, (readLang dl (.dict m) lang).getD (s "-")) ∈ choiceTexts (table dl f) padIds view true sr q c :=
  effective_choice_label_itext dl _ padIds view sr q c m lang
    (ownEntries_choice dl f c m hc hit hlab hne hstr hnd hmedia) hne hfl hkn hlang hv

def chA : Choice := ⟨"c0".toList, "l".toList, 0, .dict (.cons "fr".toList (.str "Afr".toList) .nil), .none⟩
def chB : Choice := ⟨"c1".toList, "l".toList, 1, .str "B".toList, .none⟩
def selEx : Elem :=
  { key := "s0".toList, path := "/data/q".toList, kind := .select "l".toList false, label := .str "Q".toList,
    hint := .none, guidance := .none, media := .none, bind := .none }
def formCh : Form := ⟨[selEx], [chA, chB]⟩

/-- non-vacuity: a two-choice list, the first translated to French only; French reads `Afr`, `default` the placeholder -/
example : (s "label", "fr".toList, "Afr".toList) ∈
      choiceTexts (table "default".toList formCh) [] ["fr".toList, "default".toList] true false (.str "Q".toList) chA ∧
    (s "label", "default".toList, s "-") ∈
      choiceTexts (table "default".toList formCh) [] ["fr".toList, "default".toList] true false (.str "Q".toList) chA := by
  have key := fun lang hl hv => effective_choice_label_form "default".toList formCh [] ["fr".toList, "default".toList] false
    (.str "Q".toList) chA (.cons "fr".toList (.str "Afr".toList) .nil) lang (by simp [formCh]) (by decide) rfl
    (by intro h; cases h) ⟨⟨_, rfl⟩, trivial⟩ (flatD_single _ _ (by decide)) (by decide) (by decide)
    (by intro kvs h; cases h) hl hv
  exact ⟨key "fr".toList (by decide) (by decide), key "default".toList (by decide) (by decide)⟩

end Pyxv.C08
