import Pyxv.Proofs.C08
import Pyxv.Model.Texts
/-!
# C08 — the text layer composed with the header layer

Theorems about `Pyxv.Texts` (get_translations / translation table / padding / label, hint, message sources): what an
element's `<label>`, `<hint>` (plain and guidance value) and message attributes show per language, and which languages
get a `<translation>`.  `effective_text_label` composes `column_reading` (C08.lean) with the table.
Guard `OwnEntries`: the writes of the whole table to `[id][form]` are exactly the element's own entries (ids of
different elements/kinds are different strings; no media type is called `long`); it is discharged by `rfl` on
concrete forms (examples) but not yet derived from path distinctness in general.
C07's `Pyxv.Itext` keeps of each text only "is it `-`", so it cannot state effective texts; the two table models
agree on ids/languages by construction of both from the same code, which is tied by the two checks' correspondence runs.
-/
namespace Pyxv.C08
open Pyxv Pyxv.Headers Pyxv.Texts

/-- the dict (if any) has pairwise distinct keys — true of every Python dict; here a property of the model's
association lists that the merge functions preserve -/
def NodupV : V → Prop
  | .dict m => m.keys.Nodup
  | _ => True

theorem merge_cell_nodup (dk : Str) (acc : V) (c : ColCell) (h : NodupV acc) : NodupV (merge dk acc (cellV c)) := by
  rcases c with ⟨_ | l, x⟩
  · -- unsuffixed
    cases acc with
    | none => simp [merge_none_left, cellV, NodupV]
    | str s =>
      by_cases hs : s.isEmpty = true
      · simp [cellV, merge, hs, NodupV]
      · cases x with
        | nil => simp [cellV, merge, hs, V.falsy, NodupV]
        | cons c cs => simp [cellV, merge, hs, V.falsy, NodupV]
    | dict m =>
      cases m with
      | nil => simp [cellV, merge, NodupV]
      | cons k v rest =>
        cases x with
        | nil => simpa [cellV, merge, V.falsy, NodupV] using h
        | cons c cs =>
          by_cases hd : (Kvs.cons k v rest).has dk = true
          · simpa [cellV, merge, V.falsy, hd, NodupV] using h
          · have hd' : (Kvs.cons k v rest).has dk = false := by simpa using hd
            have hnm : dk ∉ (Kvs.cons k v rest).keys := fun hm => by
              rw [← Kvs.has_iff_mem_keys] at hm; rw [hd'] at hm; cases hm
            simp only [cellV, merge, V.falsy, hd', Bool.false_eq_true, if_false, NodupV, Kvs.keys_append]
            exact List.nodup_append.mpr ⟨h, by simp [Kvs.keys], by
              intro a ha b hb; simp [Kvs.keys] at hb; subst hb; exact fun e => hnm (e ▸ ha)⟩
  · -- suffixed
    cases acc with
    | none => simp [merge_none_left, cellV, NodupV, Kvs.keys]
    | str s =>
      by_cases hs : s.isEmpty = true
      · simp [cellV, merge, hs, NodupV, Kvs.keys]
      · by_cases hl : l = dk
        · subst hl; simp [cellV, merge, hs, V.falsy, Kvs.has, NodupV, Kvs.keys]
        · have : ¬ dk = l := fun e => hl e.symm
          simp [cellV, merge, hs, V.falsy, Kvs.has, this, NodupV, Kvs.keys]
    | dict m =>
      simp only [cellV]
      rw [merge_dict_single]
      exact mergeTop_keys_nodup dk m l _ h

theorem colVal_nodup (dk : Str) : ∀ (cells : List ColCell) (acc : V), NodupV acc → NodupV (colVal dk acc cells)
  | [], acc, h => by simpa [colVal] using h
  | c :: cs, acc, h => by
    simp only [colVal]
    exact colVal_nodup dk cs _ (merge_cell_nodup dk acc c h)

/-! ### the translation table: last write wins, other ids do not interfere -/

theorem lookupT_filter_aux (lang id form : Str) : ∀ (T : List Entry) (acc : Option V),
    T.foldl (fun acc e => if e.lang = lang ∧ e.id = id ∧ e.form = form then some e.text else acc) acc =
    (T.filter fun e => decide (e.id = id ∧ e.form = form)).foldl
      (fun acc e => if e.lang = lang ∧ e.id = id ∧ e.form = form then some e.text else acc) acc
  | [], acc => rfl
  | e :: T, acc => by
    by_cases hp : e.id = id ∧ e.form = form
    · simp only [List.foldl_cons, List.filter_cons, hp, and_self, decide_true, if_true]
      exact lookupT_filter_aux lang id form T _
    · have : ¬ (e.lang = lang ∧ e.id = id ∧ e.form = form) := fun h => hp h.2
      simp only [List.foldl_cons, List.filter_cons, hp, decide_false, if_false, Bool.false_eq_true, and_false]
      exact lookupT_filter_aux lang id form T acc

/-- only the writes to `[id][form]` matter for what is read there (entries of other elements, other kinds and other
forms do not interfere) -/
theorem lookupT_filter (T : List Entry) (lang id form : Str) :
    lookupT T lang id form = lookupT (T.filter fun e => decide (e.id = id ∧ e.form = form)) lang id form :=
  lookupT_filter_aux lang id form T none

theorem lookupT_dictEntries_aux (id form lang : Str) : ∀ (m : Kvs) (acc : Option V), m.keys.Nodup →
    ((Kvs.items m).map fun (lt : Str × V) => (⟨lt.1, id, form, lt.2⟩ : Entry)).foldl
      (fun acc e => if e.lang = lang ∧ e.id = id ∧ e.form = form then some e.text else acc) acc =
    if m.has lang then some (m.get lang) else acc
  | .nil, acc, _ => by simp [Kvs.items, Kvs.has]
  | .cons k v rest, acc, hnd => by
    simp only [Kvs.keys, List.nodup_cons] at hnd
    simp only [Kvs.items, List.map_cons, List.foldl_cons, and_self, and_true]
    rw [lookupT_dictEntries_aux id form lang rest _ hnd.2]
    by_cases hk : k = lang
    · subst hk
      have : rest.has k = false := by
        cases h : rest.has k with
        | false => rfl
        | true => exact absurd ((Kvs.has_iff_mem_keys rest k).mp h) hnd.1
      simp [this, Kvs.has, Kvs.get]
    · have hk' : ¬ lang = k := fun e => hk e.symm
      simp [hk, hk', Kvs.has, Kvs.get]

/-- reading the entries of one `language → text` dict gives that dict back -/
theorem lookupT_dictEntries (id form lang : Str) (m : Kvs) (hnd : m.keys.Nodup) :
    lookupT (dictEntries id form (.dict m)) lang id form = if m.has lang then some (m.get lang) else none := by
  simp only [lookupT, dictEntries]
  exact lookupT_dictEntries_aux id form lang m none hnd

/-- Guard of the text-layer statements: the writes of the whole table to `[id][form]` are exactly the entries of the
dict `m` (ids of different elements and kinds are different strings, and no media type is called `long`). -/
def OwnEntries (T : List Entry) (id form : Str) (m : Kvs) : Prop :=
  (T.filter fun e => decide (e.id = id ∧ e.form = form)) = dictEntries id form (.dict m)

theorem items_ne_nil : ∀ (m : Kvs), m ≠ .nil → Kvs.items m ≠ []
  | .nil, h => absurd rfl h
  | .cons k v rest, _ => by simp [Kvs.items]

/-- **what `<text id>` shows** (plain value or guidance value) for a `language → text` dict that owns its id and form:
the text filed under the language, else `-` -/
theorem shown_own (dk : Str) (T : List Entry) (padIds : List Str) (lang id form : Str) (m : Kvs)
    (hform : form = s "long" ∨ form = s "guidance")
    (hown : OwnEntries T id form m) (hne : m ≠ .nil) (hfl : FlatD m) (hnd : m.keys.Nodup) :
    shown T padIds lang id form = some ((readLang dk (.dict m) lang).getD (s "-")) := by
  have hex : ∃ e ∈ T, e.id = id ∧ e.form = form := by
    have hne' : dictEntries id form (.dict m) ≠ [] := by
      simp only [dictEntries, ne_eq, List.map_eq_nil_iff]; exact items_ne_nil m hne
    rw [← hown] at hne'
    obtain ⟨e, he⟩ := List.exists_mem_of_ne_nil _ hne'
    have := List.mem_filter.mp he
    exact ⟨e, this.1, by simpa using this.2⟩
  obtain ⟨e0, he0, hid0, hform0⟩ := hex
  have hany : T.any (fun e => decide (e.id = id)) = true := List.any_eq_true.mpr ⟨e0, he0, by simp [hid0]⟩
  have hany2 : T.any (fun e => decide (e.id = id ∧ e.form = form)) = true :=
    List.any_eq_true.mpr ⟨e0, he0, by simp [hid0, hform0]⟩
  have hlk : lookupT T lang id form = if m.has lang then some (m.get lang) else none := by
    rw [lookupT_filter, hown, lookupT_dictEntries _ _ _ _ hnd]
  unfold shown
  simp only [hany, Bool.not_true, Bool.and_false, Bool.false_eq_true, if_false, hlk, hany2, true_or, if_true, Bool.true_or,
    hform]
  rcases hfl lang with ⟨hh, hg⟩ | ⟨hh, y, _, hg⟩
  · simp [hh, readLang, hg]
  · simp [hh, readLang, hg]

/-- **effective label, itext case**: a survey element whose label is a `language → text` dict shows, for every language
of the form, the text filed under that language, else the placeholder `-` — never another element's or another kind's text
(under `OwnEntries`). -/
theorem effective_label_itext (dk : Str) (T : List Entry) (padIds : List Str) (e : Elem) (lang : Str) (m : Kvs)
    (hlab : e.label = .dict m) (hown : OwnEntries T (e.path ++ s ":label") (s "long") m)
    (hne : m ≠ .nil) (hfl : FlatD m) (hnd : m.keys.Nodup) (hlang : lang ≠ []) :
    via T padIds (labelSrc e) (s "long") lang = some ((readLang dk e.label lang).getD (s "-")) := by
  have hr : labelSrc e = .ref (e.path ++ s ":label") := by simp [labelSrc, needsItextRef, hlab, isDict]
  rw [hr, hlab]
  cases lang with
  | nil => exact absurd rfl hlang
  | cons c cs => simpa [via] using shown_own dk T padIds (c :: cs) _ _ m (Or.inl rfl) hown hne hfl hnd

/-- **effective label, in-line case**: a plain label without media is shown as it is to every language -/
theorem effective_label_inline (T : List Entry) (padIds : List Str) (e : Elem) (lang t : Str)
    (hlab : e.label = .str t) (ht : t ≠ []) (hmed : isDict e.media = false) :
    via T padIds (labelSrc e) (s "long") lang = some t := by
  have hn : needsItextRef e = false := by
    unfold needsItextRef; rw [hlab, hmed]; simp [isDict]
  cases t with
  | nil => exact absurd rfl ht
  | cons c cs => simp [labelSrc, hn, hlab, V.falsy, via, strOf, s]

/-- **effective hint, itext case** (a translated hint): the text filed under the language, else `-` -/
theorem effective_hint_itext (dk : Str) (T : List Entry) (padIds : List Str) (e : Elem) (lang : Str) (m : Kvs)
    (hh : e.hint = .dict m) (hown : OwnEntries T (e.path ++ s ":hint") (s "long") m)
    (hne : m ≠ .nil) (hfl : FlatD m) (hnd : m.keys.Nodup) (hlang : lang ≠ []) :
    via T padIds (hintSrc e) (s "long") lang = some ((readLang dk e.hint lang).getD (s "-")) := by
  have hr : hintSrc e = .ref (e.path ++ s ":hint") := by simp [hintSrc, hh, isDict]
  rw [hr, hh]
  cases lang with
  | nil => exact absurd rfl hlang
  | cons c cs => simpa [via] using shown_own dk T padIds (c :: cs) _ _ m (Or.inl rfl) hown hne hfl hnd

/-- **effective guidance hint** (translated): shown through the hint's itext id with form `guidance` -/
theorem effective_guidance_itext (dk : Str) (T : List Entry) (padIds : List Str) (e : Elem) (lang : Str) (m : Kvs)
    (hg : e.guidance = .dict m) (hown : OwnEntries T (e.path ++ s ":hint") (s "guidance") m)
    (hne : m ≠ .nil) (hfl : FlatD m) (hnd : m.keys.Nodup) (hlang : lang ≠ []) :
    via T padIds (hintSrc e) (s "guidance") lang = some ((readLang dk e.guidance lang).getD (s "-")) := by
  have hnf : e.guidance.falsy = false := by
    rw [hg]; cases m with
    | nil => exact absurd rfl hne
    | cons k v r => simp [V.falsy]
  have hr : hintSrc e = .ref (e.path ++ s ":hint") := by simp [hintSrc, hnf]
  rw [hr, hg]
  cases lang with
  | nil => exact absurd rfl hlang
  | cons c cs => simpa [via] using shown_own dk T padIds (c :: cs) _ _ m (Or.inr rfl) hown hne hfl hnd

/-- **effective constraint / required message** (translated): the bind attribute points at the message's own itext id -/
theorem effective_message_itext (dk : Str) (T : List Entry) (padIds : List Str) (e : Elem) (k lang : Str) (b m : Kvs)
    (hb : e.bind = .dict b) (hk : b.get k = .dict m) (hown : OwnEntries T (e.path ++ s ":" ++ k) (s "long") m)
    (hne : m ≠ .nil) (hfl : FlatD m) (hnd : m.keys.Nodup) (hlang : lang ≠ []) :
    via T padIds (msgSrc e k) (s "long") lang = some ((readLang dk (b.get k) lang).getD (s "-")) := by
  have hr : msgSrc e k = .ref (e.path ++ s ":" ++ k) := by simp [msgSrc, hb, hk]
  rw [hr, hk]
  cases lang with
  | nil => exact absurd rfl hlang
  | cons c cs => simpa [via] using shown_own dk T padIds (c :: cs) _ _ m (Or.inl rfl) hown hne hfl hnd

theorem colVal_flat (dk : Str) : ∀ (cells : List ColCell) (acc : V),
    Flat acc → (∀ c ∈ cells, c.2 ≠ []) → (cells.map (·.1)).Nodup →
    (isStrV acc = true → ∀ c ∈ cells, c.1 ≠ none) → Flat (colVal dk acc cells)
  | [], acc, hf, _, _, _ => by simpa [colVal] using hf
  | c :: cs, acc, hf, hne, hnd, hstr => by
    have hnd' : (cs.map (·.1)).Nodup := (List.nodup_cons.mp hnd).2
    have hfresh : findLang cs c.1 = none := by
      have hnotin := (List.nodup_cons.mp hnd).1
      simp only [findLang, Option.map_eq_none_iff, List.find?_eq_none]
      intro d hd hdc
      exact hnotin (List.mem_map.mpr ⟨d, hd, by simpa using hdc⟩)
    have hne' : ∀ d ∈ cs, d.2 ≠ [] := fun d hd => hne d (by simp [hd])
    have hx : c.2 ≠ [] := hne c (by simp)
    rcases c with ⟨_ | l, x⟩
    · have hs : isStrV acc = false := by
        cases h : isStrV acc with
        | false => rfl
        | true => exact absurd rfl (hstr h (none, x) (by simp))
      obtain ⟨hf', _⟩ := step_unsuffixed dk acc x cs hf hx hs hfresh
      have hstr' : isStrV (merge dk acc (.str x)) = true → ∀ d ∈ cs, d.1 ≠ none := by
        intro _ d hd hdn
        exact (List.nodup_cons.mp hnd).1 (List.mem_map.mpr ⟨d, hd, by simpa using hdn⟩)
      simpa [colVal, cellV] using colVal_flat dk cs _ hf' hne' hnd' hstr'
    · obtain ⟨hf', hs', _⟩ := step_suffixed dk acc l x cs hf hx hfresh
      have hstr' : isStrV (merge dk acc (cellV (some l, x))) = true → ∀ d ∈ cs, d.1 ≠ none := by
        intro h; rw [hs'] at h; cases h
      simpa [colVal] using colVal_flat dk cs _ hf' hne' hnd' hstr'

/-- **effective_text (label of a survey element, header layer composed with the text layer)**: if the element's label
slot is what `process_row` leaves for the label column of its row (`colVal` of the row's label cells, see
`row_grouping` / `colFold_eq_colVal`) and at least one label cell is suffixed (so the slot is a dict), then for every
language the element's `<label>` shows exactly the spec's reading of the cells — the cell suffixed with that language,
else the unsuffixed cell for the default language — and `-` where nothing was written. -/
theorem effective_text_label (dk : Str) (T : List Entry) (padIds : List Str) (e : Elem) (cells : List ColCell) (m : Kvs)
    (lang : Str) (hne : ∀ c ∈ cells, c.2 ≠ []) (hnd : (cells.map (·.1)).Nodup)
    (hslot : e.label = colVal dk .none cells) (hdict : colVal dk .none cells = .dict m)
    (hown : OwnEntries T (e.path ++ s ":label") (s "long") m) (hlang : lang ≠ []) :
    via T padIds (labelSrc e) (s "long") lang = some ((specRead dk cells lang).getD (s "-")) := by
  have hflat := colVal_flat dk cells .none Flat.none hne hnd (by intro h; cases h)
  have hnod := colVal_nodup dk cells .none trivial
  rw [hdict] at hflat hnod
  cases hflat with
  | dict _ hmne hfl =>
    rw [effective_label_itext dk T padIds e lang m (hslot.trans hdict) hown hmne hfl hnod hlang, hslot,
      column_reading dk cells hne hnd lang]

/-! ### languages -/

theorem mem_dedup : ∀ (xs acc : List Str) (x : Str), x ∈ dedup xs acc ↔ x ∈ xs ∨ x ∈ acc
  | [], acc, x => by simp [dedup]
  | y :: ys, acc, x => by
    by_cases hc : acc.contains y = true
    · have hy : y ∈ acc := by simpa using hc
      simp only [dedup, hc, if_true, mem_dedup ys acc x, List.mem_cons]
      constructor
      · rintro (h | h); exact Or.inl (Or.inr h); exact Or.inr h
      · rintro ((h | h) | h)
        · exact Or.inr (h ▸ hy)
        · exact Or.inl h
        · exact Or.inr h
    · simp only [dedup, hc, if_false, Bool.false_eq_true, mem_dedup ys (y :: acc) x, List.mem_cons]
      constructor
      · rintro (h | h | h); exact Or.inl (Or.inr h); exact Or.inl (Or.inl h); exact Or.inr h
      · rintro ((h | h) | h); exact Or.inr (Or.inl h); exact Or.inl h; exact Or.inr (Or.inr h)

/-- **languages_exact (table level)**: the form has a `<translation>` for exactly the languages under which some text or
media was filed — none is invented, none filed is dropped. -/
theorem languages_exact (dl : Str) (f : Form) (l : Str) :
    l ∈ (run dl f).langs ↔ ∃ e ∈ table dl f, e.lang = l := by
  simp only [run, langsOf, mem_dedup, List.mem_map, List.not_mem_nil, or_false]

theorem mem_items_keys : ∀ (m : Kvs) (k : Str), (∃ v, (k, v) ∈ Kvs.items m) ↔ k ∈ m.keys
  | .nil, k => by simp [Kvs.items, Kvs.keys]
  | .cons k' v' rest, k => by
    simp only [Kvs.items, Kvs.keys, List.mem_cons, Prod.mk.injEq, ← mem_items_keys rest k]
    constructor
    · rintro ⟨v, (⟨h, _⟩ | h)⟩
      · exact Or.inl h
      · exact Or.inr ⟨v, h⟩
    · rintro (h | ⟨v, h⟩)
      · exact ⟨v', Or.inl ⟨h, rfl⟩⟩
      · exact ⟨v, Or.inr h⟩

/-- the languages a `language → text` slot files text under are its keys -/
theorem dictEntries_langs (id form : Str) (m : Kvs) (l : Str) :
    (∃ e ∈ dictEntries id form (.dict m), e.lang = l) ↔ m.has l = true := by
  rw [Kvs.has_iff_mem_keys, ← mem_items_keys]
  simp only [dictEntries, List.mem_map]
  constructor
  · rintro ⟨e, ⟨⟨k, v⟩, hkv, rfl⟩, rfl⟩
    exact ⟨v, hkv⟩
  · rintro ⟨v, hv⟩
    exact ⟨⟨l, id, form, v⟩, ⟨(l, v), hv, rfl⟩, rfl⟩

/-! ### non-vacuity: a one-question form, label columns `label::fr`, `label` -/

def cellsEx : List ColCell := [(some "fr".toList, "Qfr".toList), (none, "Q".toList)]
def elemEx : Elem :=
  { key := "s0".toList, path := "/data/q".toList, kind := .question, label := colVal "default".toList .none cellsEx,
    hint := .str "H".toList, guidance := .none, media := .none, bind := .none }
def formEx : Form := ⟨[elemEx], []⟩
def mEx : Kvs := .cons "fr".toList (.str "Qfr".toList) (.cons "default".toList (.str "Q".toList) .nil)

example : via (table "default".toList formEx) [] (labelSrc elemEx) (s "long") "de".toList = some (s "-") ∧
    via (table "default".toList formEx) [] (labelSrc elemEx) (s "long") "default".toList = some "Q".toList := by
  have hd : colVal "default".toList .none cellsEx = .dict mEx := by rfl
  have hown : OwnEntries (table "default".toList formEx) (elemEx.path ++ s ":label") (s "long") mEx := by
    unfold OwnEntries; rfl
  constructor
  · rw [effective_text_label "default".toList _ [] elemEx cellsEx mEx "de".toList (by decide) (by decide) rfl hd hown (by decide)]
    decide
  · rw [effective_text_label "default".toList _ [] elemEx cellsEx mEx "default".toList (by decide) (by decide) rfl hd hown (by decide)]
    decide

example : "fr".toList ∈ (run "default".toList formEx).langs := by
  have hown : OwnEntries (table "default".toList formEx) (elemEx.path ++ s ":label") (s "long") mEx := by
    unfold OwnEntries; rfl
  have hmem : (⟨"fr".toList, elemEx.path ++ s ":label", s "long", .str "Qfr".toList⟩ : Entry) ∈
      dictEntries (elemEx.path ++ s ":label") (s "long") (.dict mEx) := by
    simp [dictEntries, mEx, Kvs.items]
  rw [← hown] at hmem
  exact (languages_exact _ _ _).mpr ⟨_, (List.mem_filter.mp hmem).1, rfl⟩

end Pyxv.C08
