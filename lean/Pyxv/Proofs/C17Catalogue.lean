import Pyxv.Proofs.C02
import Pyxv.Proofs.C03
import Pyxv.Proofs.DefaultsLemmas
import Pyxv.Proofs.C19
import Pyxv.Proofs.C01Valid
import Pyxv.Model.Lexer
/-!
# C17 — catalogue entries covered by the theorems of the neighbouring slices

One statement per catalogue entry of `harness/c17_mut.py` whose mechanism is modelled in another slice:
the entry is phrased as the *mutation* (what is added to / changed in an arbitrary form) and discharged
by the slice's lemma.  Row-level entries are in `C17Rows` / `C17More`, the empty section in `C17Fixed`.
-/
namespace Pyxv.C17
open Pyxv

/-! ### references (`ambiguous_ref`, `ambiguous_mixed`, `unknown_ref`) — `Pyxv.Refs` -/

/-- **ambiguous_ref.**  Whatever the form, once `extra` adds elements to it such that two or more elements
    carry `name` (any count ≥ 2 — three or five occurrences are as ambiguous as two), `${name}` is rejected
    from every context and in every cell kind, and the error names it. -/
theorem ambiguous_ref_rejected (els extra : List Refs.Chain) (ctx : Option Refs.Chain) (name : Str) (fl : Refs.Flags)
    (h : 2 ≤ ((els ++ extra).filter (Refs.named name)).length) :
    Refs.refFor (els ++ extra) ctx name fl = .ambiguous name :=
  (Refs.unknown_or_ambiguous_rejected (els ++ extra) ctx name fl).2 h

/-- the mutation's own shape: the form already has `m` elements of that name and `k` more are added, m + k ≥ 2 -/
theorem ambiguous_ref_rejected_count (els extra : List Refs.Chain) (ctx : Option Refs.Chain) (name : Str) (fl : Refs.Flags)
    (h : 2 ≤ (els.filter (Refs.named name)).length + (extra.filter (Refs.named name)).length) :
    Refs.refFor (els ++ extra) ctx name fl = .ambiguous name := by
  apply ambiguous_ref_rejected
  rw [List.filter_append, List.length_append]; exact h

/-- **unknown_ref.**  A name no element carries is rejected, naming it. -/
theorem unknown_ref_rejected (els : List Refs.Chain) (ctx : Option Refs.Chain) (name : Str) (fl : Refs.Flags)
    (h : ∀ t ∈ els, Refs.named name t = false) :
    Refs.refFor els ctx name fl = .unknown name := by
  apply (Refs.unknown_or_ambiguous_rejected els ctx name fl).1
  rw [List.length_eq_zero_iff, List.filter_eq_nil_iff]
  intro t ht; simp [h t ht]

/-! ### duplicate sibling names at any depth (`dup_sibling`) — `Pyxv.C02` -/

/-- **dup_sibling.**  Two siblings whose names differ at most by case, at the top level or inside a section at
    any position of the tree, make validation fail. -/
theorem dup_sibling_rejected (root : Str) (kids : List Form.Item) (h : Form.sibsOK kids = false) :
    ∃ e, Form.validate root kids = .error e :=
  C02.ambiguous_rejected root kids h

theorem dup_sibling_nested (ct : Form.Ctl) (n : Str) (b : Bool) (inner pre post : List Form.Item)
    (h : Form.sibsOK inner = false) : Form.sibsOK (pre ++ .sec ct n b inner :: post) = false := by
  have hs : Form.sibsEach (pre ++ .sec ct n b inner :: post) = false := by
    induction pre with
    | nil =>
      simp only [List.nil_append, Form.sibsEach, Form.sibsItem]
      unfold Form.sibsOK at h
      simp only [Bool.and_eq_false_iff] at h ⊢
      left
      rcases h with h | h
      · simp [Form.sibsOK, h]
      · simp [Form.sibsOK, h]
    | cons p ps ih => simp [Form.sibsEach, ih]
  simp [Form.sibsOK, hs]

/-! ### malformed references (`malformed_ref`, `${}`) — `Pyxv.Lexer.refLoop` (token level, every continuation) -/

/-- **`${}`**: a reference start immediately closed is malformed, whatever follows -/
theorem empty_ref_rejected (x y : Str) (rest : List (String × Str)) :
    Lexer.refLoop none (("PYXFORM_REF_START", x) :: ("PYXFORM_REF_END", y) :: rest) = false := by
  simp [Lexer.refLoop]

/-- **`${a b}`, `${${a}}`**: inside a reference only NAME tokens (and the closing brace after a name) may occur -/
theorem foreign_token_in_ref_rejected (seen : Bool) (n : String) (x : Str) (rest : List (String × Str))
    (h1 : n ≠ "NAME") (h2 : n ≠ "PYXFORM_REF_END") :
    Lexer.refLoop (some seen) ((n, x) :: rest) = false := by
  simp [Lexer.refLoop, h1, h2]

/-- **`${a`**: a reference still open at the end of the cell is malformed -/
theorem unterminated_ref_rejected (seen : Bool) : Lexer.refLoop (some seen) [] = false := by
  simp [Lexer.refLoop]

/-- the four catalogue spellings, through the lexer tables regenerated from the source -/
example : Lexer.refSyntaxOk "${a > 1".toList = some false ∧ Lexer.refSyntaxOk "${a b} > 1".toList = some false ∧
    Lexer.refSyntaxOk "${${a}} > 1".toList = some false ∧ Lexer.refSyntaxOk "${} > 1".toList = some false ∧
    Lexer.refSyntaxOk "${a} > 1".toList = some true := by decide +kernel

/-! ### triggers (`bad_trigger`) — `Pyxv.Defaults` (the lemma behind `C10.accepted_trigger_visible`; imported from
`DefaultsLemmas` so that this file does not depend on C10's pinned-table facts) -/

/-- **bad_trigger.**  If some question carries a trigger cell that is not exactly one reference to a question
    that renders a control, the form is not accepted. -/
theorem bad_trigger_rejected (dyn : Defaults.Q → Bool) (root : Str) (els : List Defaults.El)
    (pq : Defaults.Path) (q : Defaults.Q) (hq : (pq, q) ∈ Defaults.qwp [root] els) (htrig : q.trigger.isEmpty = false)
    (hbad : ¬ ∃ x ∈ Defaults.qwp [root] els, Pyxv.strip q.trigger = Defaults.refOf x.2.name ∧ Defaults.shown x.2 = true) :
    Defaults.check dyn els ≠ none :=
  fun h => hbad (Defaults.accepted_trigger_visible_aux dyn els [root] h (pq, q) hq htrig)

/-! ### names that would make the XForm not well-formed (`xml_names`) — `Pyxv.Asm.validDoc` -/

/-- **xml_names.**  An element whose tag is not an XML name, or whose prefix is not declared, fails the
    generated-document check wherever it sits among its siblings. -/
theorem xml_name_rejected (sc : List Str) (t : Str) (a : List (Str × Str)) (ks pre post : List Xml.Node)
    (h : Asm.nameValid (a.filterMap Asm.pyDeclared ++ sc) t = false) :
    Asm.validKids sc (pre ++ .elem t a ks :: post) = false := by
  induction pre with
  | nil => simp [Asm.validKids, Asm.validDoc, h]
  | cons p ps ih => simp [Asm.validKids, ih]

theorem xml_char_rejected (sc : List Str) (b : Bool) (s : Str) (pre post : List Xml.Node)
    (h : s.all Xml.isXmlChar = false) : Asm.validKids sc (pre ++ .text b s :: post) = false := by
  induction pre with
  | nil => simp [Asm.validKids, Asm.validDoc, h]
  | cons p ps ih => simp [Asm.validKids, ih]

/-! ### entities (`entities_unknown_col`, `entities_two_rows`, `entities_bad_dataset`, `save_to_in_repeat`,
`save_to_on_section`) — `Pyxv.C19` -/

theorem entities_unknown_col_rejected (row : Rows.Cells) (h : Entities.extraColumns row ≠ []) :
    Entities.getEntityDeclaration row [] = .error (.columns (Entities.extraColumns row)) :=
  C19.unknown_columns_rejected row h

theorem entities_two_rows_rejected (row r2 : Rows.Cells) (rest : List Rows.Cells) :
    ∃ m, Entities.getEntityDeclaration row (r2 :: rest) = .error (.msg m) :=
  C19.multiple_rows_rejected row r2 rest

theorem entities_bad_dataset_rejected (row : Rows.Cells) (ds : Str) (hcols : Entities.extraColumns row = [])
    (hds : lookup "dataset".toList row = some ds) (hbad : Entities.Spec.validDatasetName ds = false) :
    ∃ m, Entities.getEntityDeclaration row [] = .error (.msg m) :=
  C19.name_rules_dataset_rejected row ds hcols hds hbad

/-- **save_to below a repeat at any depth** (`inRepeat` scans the whole stack of open controls — the mechanism
    seeded change C17-3 broke) **or on a group / repeat row** -/
theorem save_to_in_repeat_rejected (decl : Bool) (root : Str) (n : Nat) (st : List Entities.Frame)
    (r : Rows.Cells) (rs : List Rows.Cells) (t name : Str)
    (ht : Rows.get r "type" = some t) (he : Rows.matchControl "end" false t = none)
    (hna : t ≠ Entities.auditType)
    (hn : Rows.get r "name" = some name) (hcell : Entities.truthy (lookup Entities.savetoKey r) = true)
    (hbad : Entities.inRepeat st = true ∨ ∃ c, Rows.matchControl "begin" true t = some c) :
    ∃ m, Entities.walk decl root n st (r :: rs) = .error (.msg m) :=
  C19.saveto_in_repeat_or_on_group_rejected decl root n st r rs t name ht he hna hn hcell hbad

end Pyxv.C17

namespace Pyxv.C17
open Pyxv
/-! ### Non-vacuity of the cross-slice statements -/
example : Form.sibsOK [Form.Item.sec .group "g".toList false
    [Form.Item.q { name := "a".toList, bind := true, control := true, node := true },
     Form.Item.q { name := "A".toList, bind := true, control := true, node := true }]] = false := by decide +kernel
example : Asm.nameValid [] "1x".toList = false ∧ Asm.nameValid [] "foo:bar".toList = false ∧
    Asm.nameValid ["foo".toList] "foo:bar".toList = true := by decide +kernel
example : ("a\x01b".toList).all Xml.isXmlChar = false := by decide +kernel
example : Entities.Spec.validDatasetName "a.b".toList = false ∧ Entities.Spec.validDatasetName "__x".toList = false := by
  decide +kernel
end Pyxv.C17
