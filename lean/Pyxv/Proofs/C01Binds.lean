import Pyxv.Proofs.C01Tree
/-!
# C01: `]`-freeness of the `<bind>` / `<setvalue>` nodes of the model, reduced to the keys of the bind dicts

`bindNode` writes `nodeset` plus the keys of the element's bind dict (`Binds.rawBind`: type-table `bind` keys updated
with the row's `bind::X` header tokens); `attrsOfR` (`xml_bindings`) keeps the keys, `setvalueNode` has literal
attribute names.  So the nodes `bindNodesL` emits are `]`-free as soon as every decorated item's bind source has
`]`-free keys (`qOK`).  `C01BindsCells` pushes `qOK` down to the header cells.
-/
namespace Pyxv.ConvertP
open Pyxv Pyxv.Form Pyxv.Rows Pyxv.Xml Pyxv.Asm Pyxv.Convert Pyxv.C01

/-- no key of the dict contains `]` -/
def keysNoBr {β : Type} (d : List (Str × β)) : Bool := d.all fun kv => noBr kv.1

theorem keysNoBr_cons {β : Type} (kv : Str × β) (d : List (Str × β)) :
    keysNoBr (kv :: d) = (noBr kv.1 && keysNoBr d) := by simp [keysNoBr]

theorem keysNoBr_dictSet {β : Type} (d : List (Str × β)) (k : Str) (v : β) (hd : keysNoBr d = true)
    (hk : noBr k = true) : keysNoBr (Binds.dictSet d k v) = true := by
  induction d with
  | nil => simp [Binds.dictSet, keysNoBr, hk]
  | cons kv r ih =>
    obtain ⟨k', v'⟩ := kv
    rw [keysNoBr_cons, Bool.and_eq_true] at hd
    simp only [Binds.dictSet]
    split
    · rw [keysNoBr_cons, Bool.and_eq_true]; exact ⟨hd.1, hd.2⟩
    · rw [keysNoBr_cons, Bool.and_eq_true]; exact ⟨hd.1, ih hd.2⟩

theorem keysNoBr_dictUpdate {β : Type} (u d : List (Str × β)) (hd : keysNoBr d = true) (hu : keysNoBr u = true) :
    keysNoBr (Binds.dictUpdate d u) = true := by
  induction u generalizing d with
  | nil => simpa [Binds.dictUpdate] using hd
  | cons kv r ih =>
    obtain ⟨k, v⟩ := kv
    rw [keysNoBr_cons, Bool.and_eq_true] at hu
    simp only [Binds.dictUpdate]
    exact ih _ (keysNoBr_dictSet d k v hd hu.1) hu.2

/-- `xml_bindings` keeps the keys of the bind dict -/
theorem attrsOfR_noBr (els : List Refs.Chain) (ctx : Refs.Chain) (path : Str) :
    ∀ (b : Binds.BindDict) (a : List (Str × Str)), attrsOfR els ctx path b = some a → keysNoBr b = true →
      a.all (fun kv => noBr kv.1) = true
  | [], a, h, _ => by
    simp only [attrsOfR, Option.some.injEq] at h
    subst h; rfl
  | (k, v) :: rest, a, h, hb => by
    rw [keysNoBr_cons, Bool.and_eq_true] at hb
    simp only [attrsOfR] at h
    split at h
    · cases h
    · split at h
      · rename_i s' r hs' hr
        cases h
        rw [List.all_cons, Bool.and_eq_true]
        exact ⟨hb.1, attrsOfR_noBr els ctx path rest r hr hb.2⟩
      · cases h

/-- the bind source's dict has `]`-free keys -/
def qOK (q : Binds.Q) : Bool := keysNoBr (Binds.rawBind q)

theorem bindDict_eq {q : Binds.Q} {b : Binds.BindDict} (h : bindDict q = some b) : b = Binds.rawBind q := by
  unfold bindDict Binds.elemBind at h
  split at h
  · rename_i b' hb'
    split at hb'
    · cases hb'
    · cases hb'
      split at h
      · cases h
      · cases h; rfl
  · cases h

theorem bindAttrs_noBr (els : List Refs.Chain) (ctx : Refs.Chain) (q : Binds.Q) (h : qOK q = true) :
    ((bindAttrs els ctx q).getD []).all (fun kv => noBr kv.1) = true := by
  cases ha : bindAttrs els ctx q with
  | none => rfl
  | some a =>
    simp only [Option.getD_some]
    unfold bindAttrs at ha
    split at ha
    · rename_i a' ha'
      split at ha
      · cases ha
        cases hb : bindDict q with
        | none => rw [hb] at ha'; simp at ha'
        | some b =>
          rw [hb] at ha'
          simp only [Option.bind_some] at ha'
          have := bindDict_eq hb
          subst this
          exact attrsOfR_noBr els ctx _ _ _ ha' h
      · cases ha
    · cases ha

/-- a `<bind>` whose dict has `]`-free keys is `]`-free (`nodeset` is a literal) -/
theorem noBr_bindNode (els : List Refs.Chain) (ctx : Refs.Chain) (q : Binds.Q) (h : qOK q = true) :
    noBrTree (bindNode els ctx q) = true := by
  unfold bindNode pyNode
  refine noBr_elem (by decide) (all_setAttrs _ _ [] rfl ?_) noBrKids_nil
  rw [List.all_cons, Bool.and_eq_true]
  exact ⟨(by decide : noBr (l!"nodeset") = true), bindAttrs_noBr els ctx q h⟩

theorem noBr_setvalueNode (els : List Refs.Chain) (ctx : Refs.Chain) (dv : Str) (b : Bool) :
    noBrTree (setvalueNode els ctx dv b) = true := by
  unfold setvalueNode pyNode
  refine noBr_elem (by decide) (all_setAttrs _ _ [] rfl ?_) noBrKids_nil
  simp only [List.all_cons, List.all_nil, Bool.and_true, Bool.and_eq_true]
  exact ⟨by decide, by decide, by decide⟩

theorem noBrKids_dynSetOf (els : List Refs.Chain) (ctx : Refs.Chain) (r : Cells) (b : Bool) :
    noBrKids (dynSetOf els ctx r b) = true := by
  unfold dynSetOf
  split
  · split
    · exact noBrKids_cons (noBr_setvalueNode ..) noBrKids_nil
    · exact noBrKids_nil
  · exact noBrKids_nil

mutual
/-- every decoration of the tree satisfies `P` -/
def diAll (P : Pay → Bool) : DItem → Bool
  | .q _ p => P p
  | .sec _ _ _ p ks => P p && diAllL P ks
def diAllL (P : Pay → Bool) : List DItem → Bool
  | [] => true
  | k :: ks => diAll P k && diAllL P ks
end

theorem diAllL_append (P : Pay → Bool) (a b : List DItem) : diAllL P (a ++ b) = (diAllL P a && diAllL P b) := by
  induction a with
  | nil => simp [diAllL]
  | cons k r ih => simp [diAllL, ih, Bool.and_assoc]

def bqOK (p : Pay) : Bool := qOK p.bq

mutual
theorem noBrKids_bindNodes (els : List Refs.Chain) : ∀ (pc : Refs.Chain) (d : DItem), diAll bqOK d = true →
    noBrKids (bindNodes els pc d) = true
  | pc, .q d p, h => by
    simp only [diAll, bqOK] at h
    unfold bindNodes
    rw [noBrKids_append, Bool.and_eq_true]
    refine ⟨?_, ?_⟩
    · split
      · exact noBrKids_cons (noBr_bindNode els _ _ h) noBrKids_nil
      · exact noBrKids_nil
    · split
      · exact noBrKids_nil
      · exact noBrKids_dynSetOf ..
  | pc, .sec ct n b p ks, h => by
    simp only [diAll, bqOK, Bool.and_eq_true] at h
    unfold bindNodes
    rw [noBrKids_append, Bool.and_eq_true]
    refine ⟨?_, noBrKids_bindNodesL els _ ks h.2⟩
    split
    · exact noBrKids_cons (noBr_bindNode els _ _ h.1) noBrKids_nil
    · exact noBrKids_nil
/-- **the `<bind>` / `<setvalue>` nodes of the model contain no `]` when the bind dicts' keys contain none** -/
theorem noBrKids_bindNodesL (els : List Refs.Chain) : ∀ (pc : Refs.Chain) (ds : List DItem), diAllL bqOK ds = true →
    noBrKids (bindNodesL els pc ds) = true
  | _, [], _ => by unfold bindNodesL; exact noBrKids_nil
  | pc, k :: ks, h => by
    simp only [diAllL, Bool.and_eq_true] at h
    unfold bindNodesL
    rw [noBrKids_append, noBrKids_bindNodes els pc k h.1, noBrKids_bindNodesL els pc ks h.2]; rfl
end

#print axioms noBrKids_bindNodesL

end Pyxv.ConvertP
