import Pyxv.Proofs.SettingsLemmas
import Pyxv.Model.SettingsRows
/-!
# C11 — settings reach the form header verbatim
-/
namespace Pyxv.C11
open Pyxv Pyxv.Settings

/-- the lookup function of a settings dict -/
abbrev sig (st : Dict) : Spec.Sigma := fun k => aget k st

local macro "dn" : term =>
  `(aget_defaults_none (by decide) (by decide) (by decide) (by decide) (by decide) (by decide) (by decide))

theorem header_ok {st : Dict} {a : Args} {h : Header} (hh : header st a = .ok h) : h = headerOf st a := by
  unfold header at hh
  split at hh
  · cases hh
  · split at hh
    · cases hh
    · split at hh
      · cases hh
      · split at hh
        · cases hh
        · split at hh
          · cases hh
          · cases hh; rfl

/-- an accepted header passes `validate_xml_document`: its names are XML names with declared
    prefixes, its namespace declarations are legal, its values contain XML characters only -/
theorem header_ok_xml {st : Dict} {a : Args} {h : Header} (hh : header st a = .ok h) : h.xmlOk = true := by
  unfold header at hh
  split at hh
  · cases hh
  · split at hh
    · cases hh
    · split at hh
      · cases hh
      · split at hh
        · cases hh
        · split at hh
          · cases hh
          · rename_i hx
            cases hh
            simpa using hx

/-! ### slots of the Survey object are the settings -/

section Slots
variable {st : Dict} (hn : (keys st).Nodup) (a : Args)
include hn

theorem sv_opt (k : String) (hk : aget k.toList (defaults st a) = none) :
    slotOpt (jsonRoot st a) k = Spec.opt (aget k.toList st) := by
  rw [slotOpt_eq, aget_jsonRoot_plain hn a hk]

theorem sv_title : (surveyOf (jsonRoot st a)).title = Spec.title (sig st) a := by
  show slotStr (jsonRoot st a) "title" = _
  have hd : aget (S "title") (defaults st a)
      = some ((aget (S "id_string") st).getD (.s (a.fallback.getD Pyxv.Gen.defaultFormName.toList))) := by
    simp only [defaults]
    rw [aget_cons_ne (by decide), aget_cons_ne (by decide), aget_cons_eq]
  rw [slotStr_eq, aget_jsonRoot hn, hd, defaultFormName_eq]
  unfold Spec.title Spec.idString
  cases h1 : aget (S "title") st with
  | some x => simp [sig, h1]
  | none =>
    cases h2 : aget (S "id_string") st with
    | some y => simp [sig, h1, h2]
    | none => simp [sig, h1, h2, Spec.txt]

theorem sv_idString : (surveyOf (jsonRoot st a)).idString = Spec.idString (sig st) a := by
  show slotStr (jsonRoot st a) "id_string" = _
  have hd : aget (S "id_string") (defaults st a)
      = some ((aget (S "id_string") st).getD (.s (a.fallback.getD Pyxv.Gen.defaultFormName.toList))) := by
    simp only [defaults]
    rw [aget_cons_ne (by decide), aget_cons_ne (by decide), aget_cons_ne (by decide), aget_cons_eq]
  rw [slotStr_eq, aget_jsonRoot hn, hd, defaultFormName_eq]
  unfold Spec.idString
  cases h2 : aget (S "id_string") st with
  | some y => simp [sig, h2]
  | none => simp [sig, h2, Spec.txt]

theorem sv_name : (surveyOf (jsonRoot st a)).name = Spec.rootName (sig st) a := by
  show slotStr (jsonRoot st a) "name" = _
  have hd : aget (S "name") (defaults st a)
      = some (.s (a.formName.getD Pyxv.Gen.defaultFormName.toList)) := by
    simp only [defaults]
    rw [aget_cons_ne (by decide), aget_cons_eq]
  rw [slotStr_eq, aget_jsonRoot hn, hd, defaultFormName_eq]
  unfold Spec.rootName
  cases h2 : aget (S "name") st with
  | some y => simp [sig, h2]
  | none => simp [sig, h2, Spec.txt]

theorem sv_version : (surveyOf (jsonRoot st a)).version = Spec.txt (aget (S "version") st) := by
  show slotStr (jsonRoot st a) "version" = _
  rw [slotStr_eq, aget_jsonRoot_plain hn a dn]

theorem sv_attrib : ((surveyOf (jsonRoot st a)).attrib.getD []) = Spec.attrs (sig st) := by
  show (slotDict (jsonRoot st a) "attribute").getD [] = _
  unfold slotDict Spec.attrs
  rw [aget_jsonRoot_plain hn a dn]
  cases h : aget (S "attribute") st with
  | none => simp [sig, h]
  | some x =>
    cases x with
    | s v => simp [sig, h]
    | d kv => cases kv <;> simp [sig, h]

end Slots

/-! ### `<submission>` -/

theorem aget_setOpt (q : Str) (k : String) (v : Option Str) (l : List (Str × Str)) :
    aget q (setOpt aset k v l) = if q = k.toList ∧ v.isSome then v else aget q l := by
  cases v with
  | none => simp [setOpt]
  | some x =>
    simp only [setOpt, aget_aset]
    by_cases h : q = k.toList <;> simp [h]


/-- `Spec.subAttr` in terms of the four optional values -/
def subAttrOf (u p s d : Option Str) (k : Str) : Option Str :=
  if k = S "orx:auto-delete" ∧ d.isSome then d
  else if k = S "orx:auto-send" ∧ s.isSome then s
  else if k = S "base64RsaPublicKey" ∧ p.isSome then p
  else if k = S "method" ∧ u.isSome then some (S "post")
  else if k = S "action" ∧ u.isSome then u
  else none

theorem optMatchId {α : Type} (o : Option α) : (match o with | some x => some x | none => none) = o := by
  cases o <;> rfl

theorem subList_read (u p s d : Option Str) (k : Str) :
    (match subList u p s d with | some l => aget k l | none => none) = subAttrOf u p s d k := by
  unfold subAttrOf
  by_cases hc : (u.isSome || p.isSome || s.isSome || d.isSome) = true
  · simp only [subList, hc, if_true, aget_setOpt]
    cases u with
    | none => simp only [aget_nil, Option.isSome_none, Bool.false_eq_true, and_false, if_false]
    | some x => simp only [aget_aset, aget_nil, Option.isSome_some, and_true]
  · simp only [subList, hc]
    simp only [Bool.or_eq_true, not_or, Bool.not_eq_true, Option.isSome_eq_false_iff, Option.isNone_iff_eq_none] at hc
    obtain ⟨⟨⟨h1, h2⟩, h3⟩, h4⟩ := hc
    subst h1 h2 h3 h4
    simp

theorem submission_read (sv : Survey) (k : Str) :
    (match submissionOf sv with | some l => aget k l | none => none)
      = subAttrOf sv.submissionUrl sv.publicKey sv.autoSend sv.autoDelete k :=
  subList_read _ _ _ _ k

theorem submission_present (sv : Survey) :
    (submissionOf sv).isSome
      = (sv.submissionUrl.isSome || sv.publicKey.isSome || sv.autoSend.isSome || sv.autoDelete.isSome) := by
  unfold submissionOf subList
  split <;> simp_all

/-! ### namespace declarations -/

theorem agetLast_filter_key {κ β : Type} [DecidableEq κ] (P : κ → Bool) (q : κ) (l : List (κ × β)) :
    agetLast q (l.filter fun kv => P kv.1) = if P q then agetLast q l else none := by
  induction l with
  | nil => simp [agetLast]
  | cons p r ih =>
    obtain ⟨k', v'⟩ := p
    by_cases hp : P k'
    · simp only [List.filter, hp, agetLast, ih]
      by_cases hq : P q
      · simp [hq]
      · have : q ≠ k' := fun h => hq (h ▸ hp)
        simp [hq, this]
    · simp only [List.filter, hp, agetLast, ih]
      by_cases hq : P q
      · have : q ≠ k' := fun h => hp (h ▸ hq)
        simp [hq, this]
        cases agetLast q r <;> rfl
      · simp [hq]

theorem nsmap_read (ns : Option Str) (q : Str) :
    aget q (nsmapOfNs ns) =
      match aget q nsmapBase with
      | some v => some v
      | none => match ns with
        | some s => agetLast q (Spec.declared s)
        | none => none := by
  cases ns with
  | none => simp only [nsmapOfNs]; cases aget q nsmapBase <;> rfl
  | some s =>
    have hnd : (keys (nsExtra s)).Nodup := nodup_aupdate (by simp [keys])
    simp only [nsmapOfNs, aget_aupdate, agetLast_eq_aget hnd]
    unfold nsExtra
    rw [aget_aupdate]
    have := agetLast_filter_key (β := Str) (fun k => (aget k nsmapBase).isNone) q
      ((nsList s).map fun kv => (S "xmlns:" ++ kv.1, dropQuotes kv.2))
    rw [this]
    unfold Spec.declared
    cases hb : aget q nsmapBase with
    | some v => simp
    | none =>
      simp
      cases agetLast q (List.map (fun kv => (S "xmlns:" ++ kv.1, dropQuotes kv.2)) (nsList s)) <;> rfl

/-! ### root attributes (ordered dict view) -/

/-- the table's root-attribute clause on plain values -/
def rootSpec (attrs : List (Str × Str)) (id : Str) (x : Option Str) (ver : Str) (p d : Option Str)
    (k : Str) : Option Str :=
  if k = S "odk:delimiter" ∧ d.isSome then d
  else if k = S "odk:prefix" ∧ p.isSome then p
  else if k = S "version" ∧ ver.isEmpty = false then some ver
  else if k = S "xmlns" ∧ x.isSome then x
  else if k = S "id" then some id
  else agetLast k attrs

theorem rootList_read (attrs : List (Str × Str)) (id : Str) (x : Option Str) (ver : Str)
    (p d : Option Str) (k : Str) :
    aget k (rootList aset attrs id x ver p d) = rootSpec attrs id x ver p d k := by
  have hfold : List.foldl (fun acc kv => aset kv.1 kv.2 acc) [] attrs = aupdate [] attrs := rfl
  unfold rootList rootSpec
  simp only [hfold]
  rw [aget_setOpt, aget_setOpt]
  cases ver with
  | nil =>
    simp only [List.isEmpty_nil, if_true, aget_setOpt, aget_aset, aget_aupdate, aget_nil,
      Bool.true_eq_false, and_false, if_false]
    cases agetLast k attrs <;> rfl
  | cons c cs =>
    simp only [List.isEmpty_cons, Bool.false_eq_true, if_false, aget_setOpt, aget_aset, aget_aupdate, aget_nil,
      and_true]
    cases agetLast k attrs <;> rfl

/-! ### minidom's `setAttribute` is a dict assignment when local names are pairwise distinct -/

/-- no two names of the list differ only by a prefix -/
def LocalsDistinct (ks : List Str) : Prop := ∀ x ∈ ks, ∀ y ∈ ks, localName x = localName y → x = y

theorem domSet_eq_aset {k v : Str} {l : List (Str × Str)}
    (h : ∀ p ∈ l, localName p.1 = localName k → p.1 = k) : domSet k v l = aset k v l := by
  unfold domSet
  by_cases hs : (aget k l).isSome = true
  · simp [hs]
  · have hnone : aget k l = none := by
      cases hk : aget k l with
      | none => rfl
      | some x => simp [hk] at hs
    have hf : l.filter (fun p => localName p.1 != localName k) = l := by
      apply List.filter_eq_self.mpr
      intro p hp
      by_cases hl : localName p.1 = localName k
      · have hpk : p.1 = k := h p hp hl
        have : k ∈ keys l := by
          rw [← hpk]; exact List.mem_map.mpr ⟨p, hp, rfl⟩
        have := aget_isSome_of_mem this
        simp [hnone] at this
      · simpa using hl
    simp only [hs, Bool.false_eq_true, if_false, hf]
    exact (aset_of_aget_none hnone).symm

/-- the two stores hold the same list, all of whose names belong to `K` -/
structure Agree (K : List Str) (a b : List (Str × Str)) : Prop where
  eq : a = b
  inv : ∀ p ∈ b, p.1 ∈ K

theorem Agree.nil (K : List Str) : Agree K [] [] := ⟨rfl, by simp⟩

theorem mem_keys_aset {k : Str} {v : Str} {l : List (Str × Str)} {p : Str × Str}
    (hp : p ∈ aset k v l) : p.1 = k ∨ p.1 ∈ keys l := by
  have : p.1 ∈ keys (aset k v l) := List.mem_map.mpr ⟨p, hp, rfl⟩
  rw [keys_aset] at this
  split at this
  · exact Or.inr this
  · rcases List.mem_append.mp this with h | h
    · exact Or.inr h
    · simp at h; exact Or.inl h

theorem Agree.set {K : List Str} (hK : LocalsDistinct K) {a b : List (Str × Str)} (h : Agree K a b)
    {k : Str} (v : Str) (hk : k ∈ K) : Agree K (domSet k v a) (aset k v b) := by
  refine ⟨?_, ?_⟩
  · rw [h.eq]
    exact domSet_eq_aset fun p hp hl => hK _ (h.inv p hp) _ hk hl
  · intro p hp
    rcases mem_keys_aset hp with h1 | h1
    · rw [h1]; exact hk
    · obtain ⟨q, hq, hqe⟩ := List.mem_map.mp h1
      rw [← hqe]; exact h.inv q hq

theorem Agree.setOpt {K : List Str} (hK : LocalsDistinct K) {a b : List (Str × Str)} (h : Agree K a b)
    (k : String) (v : Option Str) (hk : k.toList ∈ K) :
    Agree K (Settings.setOpt domSet k v a) (Settings.setOpt aset k v b) := by
  cases v with
  | none => exact h
  | some x => exact h.set hK x hk

theorem Agree.fold {K : List Str} (hK : LocalsDistinct K) (ops : List (Str × Str))
    {a b : List (Str × Str)} (h : Agree K a b) (hops : ∀ p ∈ ops, p.1 ∈ K) :
    Agree K (ops.foldl (fun acc kv => domSet kv.1 kv.2 acc) a) (ops.foldl (fun acc kv => aset kv.1 kv.2 acc) b) := by
  induction ops generalizing a b with
  | nil => exact h
  | cons p r ih =>
    exact ih (h.set hK p.2 (hops p (by simp))) (fun q hq => hops q (by simp [hq]))

/-- the names the primary instance root can carry -/
def rootNames (attrs : List (Str × Str)) : List Str :=
  [S "id", S "xmlns", S "version", S "odk:prefix", S "odk:delimiter"] ++ attrs.map (·.1)

/-- **Bridging theorem**: when no two of the root's attribute names differ only by a prefix, what
    minidom's `setAttribute` builds is exactly what a plain ordered dict would hold. -/
theorem rootList_domSet_eq_aset (attrs : List (Str × Str)) (id : Str) (x : Option Str) (ver : Str)
    (p d : Option Str) (hK : LocalsDistinct (rootNames attrs)) :
    rootList domSet attrs id x ver p d = rootList aset attrs id x ver p d := by
  have h1 := Agree.fold hK attrs (Agree.nil (rootNames attrs))
    (fun q hq => by simp only [rootNames]; exact List.mem_append_right _ (List.mem_map.mpr ⟨q, hq, rfl⟩))
  have h2 := h1.set hK id (k := S "id") (List.mem_append_left _ (by decide))
  have h3 := h2.setOpt hK "xmlns" x (List.mem_append_left _ (by decide))
  have h4 : Agree (rootNames attrs)
      (if ver.isEmpty then Settings.setOpt domSet "xmlns" x
          (domSet (S "id") id (attrs.foldl (fun acc kv => domSet kv.1 kv.2 acc) []))
        else domSet (S "version") ver (Settings.setOpt domSet "xmlns" x
          (domSet (S "id") id (attrs.foldl (fun acc kv => domSet kv.1 kv.2 acc) []))))
      (if ver.isEmpty then Settings.setOpt aset "xmlns" x
          (aset (S "id") id (attrs.foldl (fun acc kv => aset kv.1 kv.2 acc) []))
        else aset (S "version") ver (Settings.setOpt aset "xmlns" x
          (aset (S "id") id (attrs.foldl (fun acc kv => aset kv.1 kv.2 acc) [])))) := by
    split
    · exact h3
    · exact h3.set hK ver (k := S "version") (List.mem_append_left _ (by decide))
  have h5 := h4.setOpt hK "odk:prefix" p (List.mem_append_left _ (by decide))
  have h6 := h5.setOpt hK "odk:delimiter" d (List.mem_append_left _ (by decide))
  exact h6.eq

/-- **Root attributes, dict level**: proved for a plain ordered dict as attribute store
    (`rootAttrsWith aset`): every attribute name of the primary instance root then carries exactly
    the value the table prescribes (`id`/`xmlns`/`version`/`odk:prefix`/`odk:delimiter` from their own
    settings, winning over an `attribute::` column of the same name; anything else from
    `attribute::k`).
    The real store is minidom's `setAttribute` (`rootAttrsOf = rootAttrsWith domSet`), which additionally
    evicts every attribute with the same *local* name (`jr:x` vs `x`): `root_attrs` is the statement for
    it under the guard that excludes exactly this, `root_attrs_gap` the counterexample without the guard
    (known finding `C11-attribute-same-local-name-evicted` on the implementation). -/
theorem root_attrs_dict {st : Dict} (hn : (keys st).Nodup) (a : Args) (k : Str) :
    aget k (rootAttrsWith aset (surveyOf (jsonRoot st a))) = Spec.rootAttr (sig st) a k := by
  have hpfx : (surveyOf (jsonRoot st a)).pfx = Spec.opt (aget (S "prefix") st) := sv_opt hn a "prefix" dn
  have hdel : (surveyOf (jsonRoot st a)).delimiter = Spec.opt (aget (S "delimiter") st) :=
    sv_opt hn a "delimiter" dn
  have hx : (surveyOf (jsonRoot st a)).instanceXmlns = Spec.opt (aget (S "instance_xmlns") st) :=
    sv_opt hn a "instance_xmlns" dn
  unfold rootAttrsWith
  rw [rootList_read, sv_attrib hn a, sv_idString hn a, sv_version hn a, hpfx, hdel, hx]
  rfl

/-- the gap of `root_attrs_dict`, exhibited on the model: `attribute::jr:x` and `attribute::x`
    → the header has lost `jr:x`, although the table prescribes it -/
theorem root_attrs_gap :
    let st : Dict := [(S "attribute", .d [(S "jr:x", S "1"), (S "x", S "2")])]
    aget (S "jr:x") (headerOf st {}).rootAttrs = none ∧ Spec.rootAttr (sig st) {} (S "jr:x") = some (S "1") := by
  decide +kernel

/-- **root_attrs** (guarded full statement for the real attribute store): when no two attribute
    names the settings prescribe for the primary instance root differ only by a prefix, every
    attribute name of the root that minidom ends up with carries exactly the value the table
    prescribes.  The guard is the complement of the open finding's input shape. -/
theorem root_attrs {st : Dict} (hn : (keys st).Nodup) (a : Args) (k : Str)
    (hK : LocalsDistinct (Spec.rootAttrKeys (sig st))) :
    aget k (rootAttrsOf (surveyOf (jsonRoot st a))) = Spec.rootAttr (sig st) a k := by
  have hb : rootAttrsOf (surveyOf (jsonRoot st a)) = rootAttrsWith aset (surveyOf (jsonRoot st a)) := by
    unfold rootAttrsOf rootAttrsWith
    apply rootList_domSet_eq_aset
    rw [sv_attrib hn a]
    exact hK
  rw [hb, root_attrs_dict hn]

/-! ## the property theorems -/

/-- the core of `settings_header`: the header the model builds, read at any location but the root attributes -/
theorem headerOf_read {st : Dict} {a : Args} (hn : (keys st).Nodup) (L : Loc) (hL : ∀ k, L ≠ .rootAttr k) :
    (headerOf st a).read L = Spec.want (sig st) a L := by
  have hu : (surveyOf (jsonRoot st a)).submissionUrl = Spec.opt (aget (S "submission_url") st) :=
    sv_opt hn a "submission_url" dn
  have hp : (surveyOf (jsonRoot st a)).publicKey = Spec.opt (aget (S "public_key") st) :=
    sv_opt hn a "public_key" dn
  have hs : (surveyOf (jsonRoot st a)).autoSend = Spec.opt (aget (S "auto_send") st) :=
    sv_opt hn a "auto_send" dn
  have hd : (surveyOf (jsonRoot st a)).autoDelete = Spec.opt (aget (S "auto_delete") st) :=
    sv_opt hn a "auto_delete" dn
  cases L with
  | title => show some (surveyOf (jsonRoot st a)).title = some _; rw [sv_title hn a]
  | rootName => show some (surveyOf (jsonRoot st a)).name = some _; rw [sv_name hn a]
  | rootAttr k => exact absurd rfl (hL k)
  | hasSubmission =>
    show (if (submissionOf (surveyOf (jsonRoot st a))).isSome then some [] else none) = _
    rw [submission_present, hu, hp, hs, hd]
    rfl
  | subAttr k =>
    show (match submissionOf (surveyOf (jsonRoot st a)) with | some l => aget k l | none => none) = _
    rw [submission_read, hu, hp, hs, hd]
    rfl
  | bodyClass => exact sv_opt hn a "style" dn
  | ns q =>
    show aget q (nsmapOfNs (surveyOf (jsonRoot st a)).namespaces) = _
    have hns : (surveyOf (jsonRoot st a)).namespaces = Spec.opt (aget (S "namespaces") st) :=
      sv_opt hn a "namespaces" dn
    rw [nsmap_read, hns]
    rfl
  | instanceID =>
    show (if (!omits st) = true then some [] else none) = (if Spec.omitId (sig st) = true then none else some [])
    have : omits st = Spec.omitId (sig st) := rfl
    rw [this]
    cases Spec.omitId (sig st) <;> rfl
  | instanceName => rfl

/-- **settings_header**: whenever the settings are accepted, every header location other than the
    root attributes (title, root element name, `<submission>` presence and attributes, body class,
    every `xmlns…` declaration, instanceID presence, instanceName calculate) holds exactly the value
    the setting → location table `Spec.want` prescribes — for every settings dict and all arguments. -/
theorem settings_header {st : Dict} {a : Args} {h : Header} (hn : (keys st).Nodup)
    (hh : header st a = .ok h) (L : Loc) (hL : ∀ k, L ≠ .rootAttr k) :
    h.read L = Spec.want (sig st) a L := by
  have := header_ok hh
  subst this
  exact headerOf_read hn L hL

/-- a location's value is a function of its own settings only (spec level) -/
theorem want_congr {σ σ' : Spec.Sigma} (a : Args) (L : Loc)
    (h : ∀ k ∈ Spec.deps L, σ k.toList = σ' k.toList) : Spec.want σ a L = Spec.want σ' a L := by
  cases L <;> simp only [Spec.deps, List.mem_cons, List.mem_nil_iff, or_false, forall_eq_or_imp, forall_eq] at h
  case title => simp only [Spec.want, Spec.title, Spec.idString, S, h.1, h.2]
  case rootName => simp only [Spec.want, Spec.rootName, S, h]
  case rootAttr k =>
    obtain ⟨h1, h2, h3, h4, h5, h6⟩ := h
    simp only [Spec.want, Spec.rootAttr, Spec.idString, Spec.attrs, S, h1, h2, h3, h4, h5, h6]
  case hasSubmission =>
    obtain ⟨h1, h2, h3, h4⟩ := h
    simp only [Spec.want, Spec.hasSubmission, S, h1, h2, h3, h4]
    rfl
  case subAttr k =>
    obtain ⟨h1, h2, h3, h4⟩ := h
    simp only [Spec.want, Spec.subAttr, S, h1, h2, h3, h4]
  case bodyClass => simp only [Spec.want, S, h]
  case ns q => simp only [Spec.want, Spec.ns, S, h]
  case instanceID => simp only [Spec.want, Spec.omitId, S, h]; rfl
  case instanceName => simp only [Spec.want, Spec.instanceName, S, h]

/-- **no_leak** (noninterference): two accepted settings dicts that agree on the settings a header
    location is tied to (`Spec.deps`) give that location the same content — whatever all the other
    settings are.  So no setting can move a location that is not its own. -/
theorem no_leak {st st' : Dict} {a : Args} {h h' : Header} (hn : (keys st).Nodup) (hn' : (keys st').Nodup)
    (hh : header st a = .ok h) (hh' : header st' a = .ok h') (L : Loc) (hL : ∀ k, L ≠ .rootAttr k)
    (hd : ∀ k ∈ Spec.deps L, aget k.toList st = aget k.toList st') : h.read L = h'.read L := by
  rw [settings_header hn hh L hL, settings_header hn' hh' L hL]
  exact want_congr a L hd

/-- noninterference for the root attributes, dict level (see `root_attrs_dict` for the gap) -/
theorem no_leak_root_attrs_dict {st st' : Dict} (a : Args) (hn : (keys st).Nodup) (hn' : (keys st').Nodup)
    (k : Str) (hd : ∀ s ∈ Spec.deps (.rootAttr k), aget s.toList st = aget s.toList st') :
    aget k (rootAttrsWith aset (surveyOf (jsonRoot st a))) = aget k (rootAttrsWith aset (surveyOf (jsonRoot st' a))) := by
  rw [root_attrs_dict hn, root_attrs_dict hn']
  exact want_congr a (.rootAttr k) hd

/-- **settings_header_all**: under the local-name guard the statement of `settings_header` holds at
    *every* header location, root attributes included. -/
theorem settings_header_all {st : Dict} {a : Args} {h : Header} (hn : (keys st).Nodup)
    (hh : header st a = .ok h) (hK : LocalsDistinct (Spec.rootAttrKeys (sig st))) (L : Loc) :
    h.read L = Spec.want (sig st) a L := by
  cases L with
  | rootAttr k =>
    have := header_ok hh
    subst this
    exact root_attrs hn a k hK
  | _ => exact settings_header hn hh _ (by intro k hk; cases hk)

/-- **no_leak_all**: noninterference at every location, root attributes included, for settings whose
    root attribute names are free of local-name collisions. -/
theorem no_leak_all {st st' : Dict} {a : Args} {h h' : Header} (hn : (keys st).Nodup) (hn' : (keys st').Nodup)
    (hh : header st a = .ok h) (hh' : header st' a = .ok h')
    (hK : LocalsDistinct (Spec.rootAttrKeys (sig st))) (hK' : LocalsDistinct (Spec.rootAttrKeys (sig st')))
    (L : Loc) (hd : ∀ k ∈ Spec.deps L, aget k.toList st = aget k.toList st') : h.read L = h'.read L := by
  rw [settings_header_all hn hh hK L, settings_header_all hn' hh' hK' L]
  exact want_congr a L hd

/-- the `form_name` argument reaches the root element name and nothing else -/
theorem form_name_only_root_name (σ : Spec.Sigma) (a : Args) (x : Option Str) (L : Loc) (hL : L ≠ .rootName) :
    Spec.want σ { a with formName := x } L = Spec.want σ a L := by
  cases L <;> first | rfl | exact absurd rfl hL

/-- the `default_language` argument reaches no header location -/
theorem default_language_nowhere (σ : Spec.Sigma) (a : Args) (x : Option Str) (L : Loc) :
    Spec.want σ { a with defaultLanguage := x } L = Spec.want σ a L := by
  cases L <;> rfl

/-- the file-name fallback reaches only the title and the `id` attribute (and only as defaults:
    see `Spec.title`, `Spec.idString`) -/
theorem fallback_only_title_and_id (σ : Spec.Sigma) (a : Args) (x : Option Str) (L : Loc)
    (h1 : L ≠ .title) (h2 : L ≠ .rootAttr (S "id")) :
    Spec.want σ { a with fallback := x } L = Spec.want σ a L := by
  cases L with
  | title => exact absurd rfl h1
  | rootAttr k =>
    have hk : k ≠ S "id" := fun h => h2 (by rw [h])
    simp only [Spec.want, Spec.rootAttr, hk, if_false]
  | _ => rfl

/-- **header_rejects**: the model raises one of the documented settings errors exactly when the
    table says so (encryption needs instanceID; id `None`; root name not an XML name); the remaining
    rejection, `xmlInvalid`, is characterised by `header_ok_xml` -/
theorem header_rejects {st : Dict} (hn : (keys st).Nodup) (a : Args) (e : Err) (hne : e ≠ .xmlInvalid) :
    header st a = .error (.err e) ↔ Spec.rejects (sig st) a = some e := by
  have ho : omits st = Spec.omitId (sig st) := rfl
  unfold header Spec.rejects
  rw [sv_idString hn a, sv_name hn a, ho]
  show _ ↔ (if (Spec.omitId (sig st) && truthy (aget (S "public_key") st)) = true then _ else _) = _
  by_cases h1 : (Spec.omitId (sig st) && truthy (aget (S "public_key") st)) = true
  · simp only [h1, if_true]
    constructor <;> intro h <;> cases h <;> rfl
  · simp only [h1, if_false]
    by_cases h2 : Spec.idString (sig st) a = S "None"
    · simp only [h2, beq_self_eq_true, if_true]
      constructor <;> intro h <;> cases h <;> rfl
    · have h2' : (Spec.idString (sig st) a == S "None") = false := by
        simpa using h2
      simp only [h2', Bool.false_eq_true, if_false, h2]
      by_cases h3 : Pyxv.Rows.isXmlTag (Spec.rootName (sig st) a) = true
      · simp only [h3, Bool.not_true, Bool.false_eq_true, if_false]
        constructor
        · intro h
          split at h
          · cases h
          · split at h
            · cases h; exact absurd rfl hne
            · cases h
        · intro h; cases h
      · have h3' : Pyxv.Rows.isXmlTag (Spec.rootName (sig st) a) = false := by simpa using h3
        simp only [h3', Bool.not_false, if_true]
        constructor <;> intro h <;> cases h <;> rfl

/-! ## the dealiasing stage produces a dict (unique keys), so the theorems apply to `model` -/

theorem keys_cleanD (st : Dict) : keys (cleanD st) = keys st := by
  simp [keys, cleanD, List.map_map, Function.comp_def]

theorem rowStep_nodup {ks : Keys} {out out' : Dict} {hv : Str × Str}
    (h : rowStep ks out hv = .ok out') (hn : (keys out).Nodup) : (keys out').Nodup := by
  unfold rowStep mergeAttr at h
  repeat' split at h
  all_goals first | (cases h; done) | (cases h; exact nodup_aset hn)

theorem processRow_nodup {ks : Keys} {row : List (Str × Str)} {out out' : Dict}
    (h : processRow ks row out = .ok out') (hn : (keys out).Nodup) : (keys out').Nodup := by
  induction row generalizing out with
  | nil => cases h; exact hn
  | cons hv r ih =>
    unfold processRow at h
    split at h
    · rename_i o ho; exact ih h (rowStep_nodup ho hn)
    · cases h

theorem dealias_nodup {hdr : List Str} {row : List (Str × Str)} {st : Dict}
    (h : dealias hdr row = .ok st) : (keys st).Nodup := by
  simp only [dealias] at h
  split at h
  · cases h
  · split at h
    · cases h
    · split at h
      · cases h
      · cases h
        rename_i _ out ho _ _ _
        rw [keys_cleanD]
        exact processRow_nodup ho (by simp [keys])

/-! ## what each column of the settings sheet contributes (`dealias_and_group_headers` + `process_row`) -/

/-- the scalar setting a cell feeds: `(token, text)` when its header has one token -/
def scalarOf (ks : Keys) (hv : Str × Str) : Option (Str × Str) :=
  match aget hv.1 ks.hk with
  | some [t] => some (t, hv.2)
  | _ => none

/-- the custom root attribute a cell feeds: `(name, text)` for an `attribute::name` header -/
def attrOf (ks : Keys) (hv : Str × Str) : Option (Str × Str) :=
  match aget hv.1 ks.hk with
  | some [a, k] => if a == S "attribute" then some (k, hv.2) else none
  | _ => none

/-- `settings["attribute"][k]` -/
def attrGet (k : Str) (d : Dict) : Option Str :=
  match aget (S "attribute") d with
  | some (.d kv) => aget k kv
  | _ => none

theorem attribute_is_unmodelled_slot : isColumn (S "attribute") = true ∧ isModelled (S "attribute") = false := by
  decide +kernel

theorem aget_append_single {k k' : Str} {v : Str} (l : List (Str × Str)) :
    aget k (l ++ [(k', v)]) = match aget k l with | some x => some x | none => if k = k' then some v else none := by
  induction l with
  | nil => simp [aget]
  | cons p r ih =>
    obtain ⟨a, b⟩ := p
    by_cases h : k = a
    · simp [aget, h]
    · simp [aget, h, ih]

theorem rowStep_scalar {ks : Keys} {out out' : Dict} {hv : Str × Str} (h : rowStep ks out hv = .ok out')
    {t : Str} (ht : t ≠ S "attribute") :
    aget t out' = match scalarOf ks hv with
      | some (t', v) => if t = t' then some (.s v) else aget t out
      | none => aget t out := by
  unfold rowStep at h
  by_cases he : hv.2.isEmpty = true
  · simp [he] at h
  · simp only [he, Bool.false_eq_true, if_false] at h
    unfold scalarOf
    cases hk : aget hv.1 ks.hk with
    | none => simp [hk] at h
    | some toks =>
      simp only [hk] at h
      match toks, h with
      | [], h => simp at h
      | [t'], h =>
        simp only at h
        split at h
        · cases h
        · cases h
          simp only [aget_aset]
      | [a, k], h =>
        simp only at h
        split at h
        · unfold mergeAttr at h
          split at h
          · cases h; simp [aget_aset, ht]
          · split at h
            · cases h; simp [aget_aset, ht]
            · cases h
          · cases h
        · cases h
      | _ :: _ :: _ :: _, h => simp at h

theorem rowStep_attr {ks : Keys} {out out' : Dict} {hv : Str × Str} (h : rowStep ks out hv = .ok out')
    (k' : Str) :
    attrGet k' out' = match attrOf ks hv with
      | some (k, v) => if k' = k then some v else attrGet k' out
      | none => attrGet k' out := by
  unfold rowStep at h
  by_cases he : hv.2.isEmpty = true
  · simp [he] at h
  · simp only [he, Bool.false_eq_true, if_false] at h
    unfold attrOf
    cases hk : aget hv.1 ks.hk with
    | none => simp [hk] at h
    | some toks =>
      simp only [hk] at h
      match toks, h with
      | [], h => simp at h
      | [t'], h =>
        simp only at h
        split at h
        · cases h
        · rename_i hc
          cases h
          have hne : ¬ S "attribute" = t' := by
            intro heq
            subst heq
            simp [attribute_is_unmodelled_slot.1, attribute_is_unmodelled_slot.2] at hc
          simp only [attrGet, aget_aset, hne, if_false]
      | [a, k], h =>
        simp only at h
        split at h
        · rename_i ha
          have ha' : a = S "attribute" := by simpa using ha
          unfold mergeAttr at h
          split at h
          · rename_i hnone
            cases h
            simp only [attrGet, aget_aset, if_true, hnone, aget, ha']
            by_cases hkk : k' = k <;> simp [hkk]
          · split at h
            · rename_i _ kv hsome _ hknone
              cases h
              simp only [attrGet, aget_aset, if_true, hsome, aget_append_single, ha']
              by_cases hkk : k' = k
              · subst hkk; simp [hknone]
              · simp [hkk]; cases aget k' kv <;> rfl
            · cases h
          · cases h
        · cases h
      | _ :: _ :: _ :: _, h => simp at h

theorem processRow_scalar {ks : Keys} {row : List (Str × Str)} {out0 out : Dict}
    (h : processRow ks row out0 = .ok out) {t : Str} (ht : t ≠ S "attribute") :
    aget t out = match agetLast t (row.filterMap (scalarOf ks)) with
      | some v => some (.s v)
      | none => aget t out0 := by
  induction row generalizing out0 with
  | nil => cases h; simp [agetLast]
  | cons hv r ih =>
    unfold processRow at h
    split at h
    · rename_i out1 h1
      rw [ih h, rowStep_scalar h1 ht]
      cases hs : scalarOf ks hv with
      | none => simp [List.filterMap_cons, hs]
      | some p =>
        obtain ⟨t', v⟩ := p
        simp only [List.filterMap_cons, hs, agetLast]
        cases agetLast t (List.filterMap (scalarOf ks) r) with
        | some x => rfl
        | none => by_cases htt : t = t' <;> simp [htt]
    · cases h

theorem processRow_attr {ks : Keys} {row : List (Str × Str)} {out0 out : Dict}
    (h : processRow ks row out0 = .ok out) (k : Str) :
    attrGet k out = match agetLast k (row.filterMap (attrOf ks)) with
      | some v => some v
      | none => attrGet k out0 := by
  induction row generalizing out0 with
  | nil => cases h; simp [agetLast]
  | cons hv r ih =>
    unfold processRow at h
    split at h
    · rename_i out1 h1
      rw [ih h, rowStep_attr h1 k]
      cases hs : attrOf ks hv with
      | none => simp [List.filterMap_cons, hs]
      | some p =>
        obtain ⟨k1, v⟩ := p
        simp only [List.filterMap_cons, hs, agetLast]
        cases agetLast k (List.filterMap (attrOf ks) r) with
        | some x => rfl
        | none => by_cases hkk : k = k1 <;> simp [hkk]
    · cases h

/-- the header table: every header of the header row is read by `process_header` -/
theorem buildKeys_hk {useDC : Bool} {hdr : List Str} {ks0 ks : Keys} (h : buildKeys useDC hdr ks0 = .ok ks)
    (x : Str) :
    aget x ks.hk = match aget x ks0.hk with
      | some toks => some toks
      | none => if x ∈ hdr then some (processHeader useDC x).2 else none := by
  induction hdr generalizing ks0 with
  | nil => cases h; cases aget x ks.hk <;> rfl
  | cons h0 r ih =>
    unfold buildKeys at h
    split at h
    · rename_i ks1 h1
      rw [ih h]
      have hstep : aget x ks1.hk = match aget x ks0.hk with
          | some toks => some toks
          | none => if x = h0 then some (processHeader useDC x).2 else none := by
        unfold headerStep at h1
        split at h1
        · cases h1
        · split at h1
          · rename_i toks0 hsome
            cases h1
            by_cases hx : x = h0
            · subst hx; simp [hsome]
            · cases aget x ks0.hk <;> simp [hx]
          · rename_i hnone
            have key : ∀ ks', ks' = (⟨aset h0 (processHeader useDC h0).2 ks0.hk,
                  aset (processHeader useDC h0).2 h0 ks0.tk⟩ : Keys) → aget x ks'.hk = match aget x ks0.hk with
                | some toks => some toks
                | none => if x = h0 then some (processHeader useDC x).2 else none := by
              intro ks' hks'
              subst hks'
              simp only [aget_aset]
              by_cases hx : x = h0
              · subst hx; simp [hnone]
              · simp [hx]; cases aget x ks0.hk <;> rfl
            simp only [] at h1
            split at h1
            · split at h1
              · cases h1
              · cases h1; exact key _ rfl
            · cases h1; exact key _ rfl
      rw [hstep]
      cases aget x ks0.hk with
      | some toks => rfl
      | none =>
        by_cases hx : x = h0
        · simp [hx]
        · simp [hx]
    · cases h

theorem aget_cleanD (t : Str) (d : Dict) : aget t (cleanD d) = (aget t d).map cleanSV := by
  induction d with
  | nil => rfl
  | cons p r ih =>
    obtain ⟨k, v⟩ := p
    by_cases h : t = k
    · simp [cleanD, aget, h]
    · have : aget t (cleanD r) = (aget t r).map cleanSV := ih
      simp [cleanD, aget, h] at this ⊢
      exact this

theorem attrGet_cleanD (k : Str) (d : Dict) : attrGet k (cleanD d) = attrGet k d := by
  unfold attrGet
  rw [aget_cleanD]
  cases aget (S "attribute") d with
  | none => rfl
  | some x => cases x <;> rfl

/-- **dealias_columns** (what every column of the settings sheet contributes, for all header rows
    and rows): when the sheet is accepted, (1) each header of the header row is read by
    `process_header` (snake-casing, alias table, slot table — see `documented_spellings`);
    (2) a scalar setting `t` holds the smart-quote-cleaned text of the *last* cell of row 0 whose
    header reads as `t`, and is absent when no cell does; (3) the custom root attribute `k` holds the
    raw text of the `attribute::k` cell, and is absent when there is none.  Nothing else enters the
    settings dict. -/
theorem dealias_columns {hdr : List Str} {row : List (Str × Str)} {st : Dict} (h : dealias hdr row = .ok st) :
    ∃ ks : Keys,
      (∀ x, aget x ks.hk =
        if x ∈ (popIdString hdr row).1 then
          some (processHeader ((popIdString hdr row).1.any fun h => isInfix (S "::") h) x).2 else none) ∧
      (∀ t, t ≠ S "attribute" →
        aget t st = (agetLast t ((popIdString hdr row).2.filterMap (scalarOf ks))).map fun v => .s (cleanVal v)) ∧
      (∀ k, attrGet k st = agetLast k ((popIdString hdr row).2.filterMap (attrOf ks))) := by
  simp only [dealias] at h
  split at h
  · cases h
  · rename_i ks hks
    split at h
    · cases h
    · rename_i out hout
      split at h
      · cases h
      · cases h
        refine ⟨ks, ?_, ?_, ?_⟩
        · intro x
          have := buildKeys_hk hks x
          simpa [aget] using this
        · intro t ht
          rw [aget_cleanD, processRow_scalar hout ht]
          cases agetLast t (List.filterMap (scalarOf ks) (popIdString hdr row).2) <;> simp [cleanSV, aget]
        · intro k
          rw [attrGet_cleanD, processRow_attr hout k]
          cases agetLast k (List.filterMap (attrOf ks) (popIdString hdr row).2) <;> simp [attrGet, aget]

/-- **model_header**: the whole modelled path (header row + row 0 of the settings sheet + arguments):
    an accepted form's header is, at every location other than the root attributes, what the table
    prescribes for the dealiased settings. -/
theorem model_header {hdr : List Str} {row : List (Str × Str)} {a : Args} {h : Header}
    (hm : model (some (hdr, row)) a = .ok h) :
    ∃ st, dealias hdr row = .ok st ∧ (keys st).Nodup ∧
      ∀ L, (∀ k, L ≠ .rootAttr k) → h.read L = Spec.want (sig st) a L := by
  change (match dealias hdr row with | .ok st => header st a | .error e => .error e) = .ok h at hm
  split at hm
  · rename_i st hst
    exact ⟨st, hst, dealias_nodup hst, fun L hL => settings_header (dealias_nodup hst) hm L hL⟩
  · cases hm

/-! ## settings rows on the survey sheet -/

theorem header2_nil (st : Dict) (a : Args) : header2 st [] a = header st a := rfl

/-- a slot that no settings row of the survey sheet targets keeps the value of the settings sheet -/
theorem jsonRoot2_other {st : Dict} (a : Args) (ss : List (Str × Option Str)) {k : Str}
    (hk : agetLast k (surveyAssigns ss) = none) : aget k (jsonRoot2 st a ss) = aget k (jsonRoot st a) := by
  rw [jsonRoot2, aget_aupdate, hk]

/-- the settings aliases target only `title`, `id_string` and `prefix` (current alias table) -/
theorem survey_row_targets :
    (Pyxv.Gen.aliasSettingsHeader.all fun p => ["title", "id_string", "prefix"].contains p.2) = true := by decide

section Rows
variable {st : Dict} (hn : (keys st).Nodup) (a : Args) (ss : List (Str × Option Str))
include hn

/-- **survey_rows_title**: with settings rows on the survey sheet the title is the name cell of the
    last title row; without one it is what the settings sheet gives (default: the settings sheet's id,
    not a survey-sheet id). -/
theorem survey_rows_title :
    (surveyOf (jsonRoot2 st a ss)).title = Spec.title (Spec.overlay (sig st) a (surveyAssigns ss)) a := by
  show slotStr (jsonRoot2 st a ss) "title" = _
  rw [slotStr_eq, jsonRoot2, aget_aupdate]
  unfold Spec.title Spec.overlay
  cases h : agetLast (S "title") (surveyAssigns ss) with
  | some x => simp [h]
  | none =>
    have := sv_title hn a
    have h2 : slotStr (jsonRoot st a) "title" = Spec.title (sig st) a := this
    rw [slotStr_eq] at h2
    simp only [h]
    rw [h2]
    unfold Spec.title
    cases h3 : sig st (S "title") with
    | some x => simp [h3]
    | none => simp [h3, Spec.txt]

/-- **survey_rows_id**: likewise for the id (`form_id` / `set_form_id` rows) -/
theorem survey_rows_id :
    (surveyOf (jsonRoot2 st a ss)).idString = Spec.idString (Spec.overlay (sig st) a (surveyAssigns ss)) a := by
  show slotStr (jsonRoot2 st a ss) "id_string" = _
  rw [slotStr_eq, jsonRoot2, aget_aupdate]
  unfold Spec.idString Spec.overlay
  cases h : agetLast (S "id_string") (surveyAssigns ss) with
  | some x => simp [h]
  | none =>
    have h2 : slotStr (jsonRoot st a) "id_string" = Spec.idString (sig st) a := sv_idString hn a
    rw [slotStr_eq] at h2
    have hne : ¬ (S "id_string" = S "title") := by decide
    simp only [h, hne, if_false]
    rw [h2]
    rfl

/-- **survey_rows_prefix**: likewise for `odk:prefix` (`prefix` rows) -/
theorem survey_rows_prefix :
    (surveyOf (jsonRoot2 st a ss)).pfx = Spec.opt (Spec.overlay (sig st) a (surveyAssigns ss) (S "prefix")) := by
  show slotOpt (jsonRoot2 st a ss) "prefix" = _
  rw [slotOpt_eq, jsonRoot2, aget_aupdate]
  unfold Spec.overlay
  cases h : agetLast (S "prefix") (surveyAssigns ss) with
  | some x => simp [h]
  | none =>
    have hne : ¬ (S "prefix" = S "title") := by decide
    simp only [h, hne, if_false]
    rw [aget_jsonRoot_plain hn a dn]

end Rows

/-! ### the full header statement with settings rows on the survey sheet -/

/-- the settings a survey-sheet row can target -/
def targets3 : List Str := [S "title", S "id_string", S "prefix"]

theorem aget_mem {κ β : Type} [DecidableEq κ] {k : κ} {v : β} {l : List (κ × β)} (h : aget k l = some v) :
    (k, v) ∈ l := by
  induction l with
  | nil => simp [aget] at h
  | cons p r ih =>
    obtain ⟨k', v'⟩ := p
    by_cases hk : k = k'
    · simp [aget, hk] at h; subst h; subst hk; simp
    · simp [aget, hk] at h; exact List.mem_cons_of_mem _ (ih h)

theorem surveyAssigns_targets (ss : List (Str × Option Str)) : ∀ p ∈ surveyAssigns ss, p.1 ∈ targets3 := by
  intro p hp
  obtain ⟨q, _, hq⟩ := List.mem_filterMap.mp hp
  unfold surveyRowSetting at hq
  split at hq
  · rename_i c cs hal
    cases hq
    have hm := aget_mem hal
    obtain ⟨e, he, hee⟩ := List.mem_map.mp hm
    have ht := List.all_eq_true.mp survey_row_targets e he
    have h2 : e.2.toList = c :: cs := by
      have := congrArg Prod.snd hee
      simpa using this
    show c :: cs ∈ targets3
    rw [← h2]
    simp only [List.contains_cons, List.contains_nil, Bool.or_false, Bool.or_eq_true, beq_iff_eq] at ht
    rcases ht with h | h | h <;> rw [h] <;> decide
  · cases hq

theorem agetLast_none_of_no_key {k : Str} {l : Dict} (h : ∀ p ∈ l, p.1 ≠ k) : agetLast k l = none := by
  induction l with
  | nil => rfl
  | cons p r ih =>
    obtain ⟨k', v'⟩ := p
    have h1 : k ≠ k' := fun e => h (k', v') (by simp) e.symm
    simp [agetLast, ih (fun q hq => h q (List.mem_cons_of_mem _ hq)), h1]

theorem assigns_none (ss : List (Str × Option Str)) {k : Str} (hk : k ∉ targets3) :
    agetLast k (surveyAssigns ss) = none :=
  agetLast_none_of_no_key fun p hp e => hk (e ▸ surveyAssigns_targets ss p hp)

theorem j2 {st : Dict} (a : Args) (ss : List (Str × Option Str)) (k : String) (hk : k.toList ∉ targets3) :
    aget k.toList (jsonRoot2 st a ss) = aget k.toList (jsonRoot st a) :=
  jsonRoot2_other a ss (assigns_none ss hk)

theorem overlay_other (σ : Spec.Sigma) (a : Args) (ss : List (Str × Option Str)) {k : Str} (hk : k ∉ targets3) :
    Spec.overlay σ a (surveyAssigns ss) k = σ k := by
  unfold Spec.overlay
  have hne : k ≠ S "title" := fun e => hk (by rw [e]; simp [targets3])
  simp [assigns_none ss hk, hne]

/-- the Survey object after the row loop differs from the one of the settings sheet in the three
    targeted slots only -/
theorem surveyOf2_eq {st : Dict} (a : Args) (ss : List (Str × Option Str)) :
    surveyOf (jsonRoot2 st a ss) =
      { surveyOf (jsonRoot st a) with
        title := (surveyOf (jsonRoot2 st a ss)).title, idString := (surveyOf (jsonRoot2 st a ss)).idString,
        pfx := (surveyOf (jsonRoot2 st a ss)).pfx } := by
  simp only [surveyOf, slotStr, slotOpt, slotDict,
    j2 a ss "name" (by decide), j2 a ss "version" (by decide), j2 a ss "style" (by decide),
    j2 a ss "auto_delete" (by decide), j2 a ss "auto_send" (by decide), j2 a ss "instance_xmlns" (by decide),
    j2 a ss "namespaces" (by decide), j2 a ss "public_key" (by decide), j2 a ss "submission_url" (by decide),
    j2 a ss "delimiter" (by decide), j2 a ss "attribute" (by decide)]

theorem header2_ok {st : Dict} {ss : List (Str × Option Str)} {a : Args} {h : Header}
    (hh : header2 st ss a = .ok h) : h = headerOf2 st ss a := by
  unfold header2 at hh
  split at hh
  · cases hh
  · split at hh
    · cases hh
    · split at hh
      · cases hh
      · split at hh
        · cases hh
        · split at hh
          · cases hh
          · cases hh; rfl

/-- locations that no survey-sheet row can reach read the same as without such rows -/
theorem read2_eq {st : Dict} (a : Args) (ss : List (Str × Option Str)) (L : Loc) (h1 : L ≠ .title)
    (h2 : ∀ k, L ≠ .rootAttr k) : (headerOf2 st ss a).read L = (headerOf st a).read L := by
  cases L with
  | title => exact absurd rfl h1
  | rootAttr k => exact absurd rfl (h2 k)
  | rootName => show some (surveyOf (jsonRoot2 st a ss)).name = _; rw [surveyOf2_eq]; rfl
  | hasSubmission =>
    show (if (submissionOf (surveyOf (jsonRoot2 st a ss))).isSome then some [] else none) = _
    rw [surveyOf2_eq]; rfl
  | subAttr k =>
    show (match submissionOf (surveyOf (jsonRoot2 st a ss)) with | some l => aget k l | none => none) = _
    rw [surveyOf2_eq]; rfl
  | bodyClass => show (surveyOf (jsonRoot2 st a ss)).style = _; rw [surveyOf2_eq]; rfl
  | ns q => show aget q (nsmapOf (surveyOf (jsonRoot2 st a ss))) = _; rw [surveyOf2_eq]; rfl
  | instanceID => rfl
  | instanceName => rfl

/-- the table's values at those locations do not see the overlay either -/
theorem want2_eq (σ : Spec.Sigma) (a : Args) (ss : List (Str × Option Str)) (L : Loc) (h1 : L ≠ .title)
    (h2 : ∀ k, L ≠ .rootAttr k) :
    Spec.want (Spec.overlay σ a (surveyAssigns ss)) a L = Spec.want σ a L := by
  apply want_congr
  cases L with
  | title => exact absurd rfl h1
  | rootAttr k => exact absurd rfl (h2 k)
  | _ =>
    intro k hk
    simp only [Spec.deps, List.mem_cons, List.mem_nil_iff, or_false] at hk
    rcases hk with rfl | rfl | rfl | rfl <;> exact overlay_other σ a ss (by decide)

/-- root attributes with survey-sheet rows, under the local-name guard -/
theorem root_attrs2 {st : Dict} (hn : (keys st).Nodup) (a : Args) (ss : List (Str × Option Str)) (k : Str)
    (hK : LocalsDistinct (Spec.rootAttrKeys (sig st))) :
    aget k (rootAttrsOf (surveyOf (jsonRoot2 st a ss))) =
      Spec.rootAttr (Spec.overlay (sig st) a (surveyAssigns ss)) a k := by
  have hx : (surveyOf (jsonRoot st a)).instanceXmlns = Spec.opt (aget (S "instance_xmlns") st) :=
    sv_opt hn a "instance_xmlns" dn
  have hdel : (surveyOf (jsonRoot st a)).delimiter = Spec.opt (aget (S "delimiter") st) :=
    sv_opt hn a "delimiter" dn
  have e1 : (surveyOf (jsonRoot2 st a ss)).attrib.getD [] = Spec.attrs (sig st) := by
    rw [surveyOf2_eq]; exact sv_attrib hn a
  have e2 : (surveyOf (jsonRoot2 st a ss)).instanceXmlns = Spec.opt (aget (S "instance_xmlns") st) := by
    rw [surveyOf2_eq]; exact hx
  have e3 : (surveyOf (jsonRoot2 st a ss)).version = Spec.txt (aget (S "version") st) := by
    rw [surveyOf2_eq]; exact sv_version hn a
  have e4 : (surveyOf (jsonRoot2 st a ss)).delimiter = Spec.opt (aget (S "delimiter") st) := by
    rw [surveyOf2_eq]; exact hdel
  unfold rootAttrsOf rootAttrsWith
  rw [e1, e2, e3, e4, survey_rows_id hn a ss, survey_rows_prefix hn a ss,
    rootList_domSet_eq_aset _ _ _ _ _ _ hK, rootList_read]
  unfold rootSpec Spec.rootAttr Spec.attrs
  rw [overlay_other (sig st) a ss (k := S "delimiter") (by decide),
    overlay_other (sig st) a ss (k := S "version") (by decide),
    overlay_other (sig st) a ss (k := S "instance_xmlns") (by decide),
    overlay_other (sig st) a ss (k := S "attribute") (by decide)]

/-- **settings_header2**: the full header statement with settings rows on the survey sheet — every
    location of an accepted form holds what the table prescribes for the settings sheet overlaid with
    the survey sheet's rows (`Spec.overlay`: last row per setting wins; title default from the settings
    sheet's id), under the same local-name guard as `settings_header_all`. -/
theorem settings_header2 {st : Dict} {ss : List (Str × Option Str)} {a : Args} {h : Header}
    (hn : (keys st).Nodup) (hh : header2 st ss a = .ok h)
    (hK : LocalsDistinct (Spec.rootAttrKeys (sig st))) (L : Loc) :
    h.read L = Spec.want (Spec.overlay (sig st) a (surveyAssigns ss)) a L := by
  have := header2_ok hh
  subst this
  by_cases h1 : L = .title
  · subst h1
    show some (surveyOf (jsonRoot2 st a ss)).title = some _
    rw [survey_rows_title hn a ss]
  · by_cases h2 : ∃ k, L = .rootAttr k
    · obtain ⟨k, rfl⟩ := h2
      exact root_attrs2 hn a ss k hK
    · have h2' : ∀ k, L ≠ .rootAttr k := fun k e => h2 ⟨k, e⟩
      rw [read2_eq a ss L h1 h2', want2_eq _ a ss L h1 h2']
      exact headerOf_read hn L h2'

/-- **model2_header**: the whole modelled path with survey-sheet settings rows -/
theorem model2_header {hdr : List Str} {row : List (Str × Str)} {ss : List (Str × Option Str)} {a : Args}
    {h : Header} (hm : model2 (some (hdr, row)) ss a = .ok h) :
    ∃ st, dealias hdr row = .ok st ∧ (keys st).Nodup ∧
      (LocalsDistinct (Spec.rootAttrKeys (sig st)) →
        ∀ L, h.read L = Spec.want (Spec.overlay (sig st) a (surveyAssigns ss)) a L) := by
  change (match dealias hdr row with | .ok st => header2 st ss a | .error e => .error e) = .ok h at hm
  split at hm
  · rename_i st hst
    exact ⟨st, hst, dealias_nodup hst, fun hK L => settings_header2 (dealias_nodup hst) hm hK L⟩
  · cases hm

/-- non-vacuity: a `form_id` row on the survey sheet changes the id but not the title default -/
example :
    let st : Dict := [(S "version", .s (S "3"))]
    let ss : List (Str × Option Str) := [(S "form_id", some (S "SID")), (S "text", some (S "q")), (S "form_title", none)]
    ∃ h, header2 st ss { fallback := some (S "file") } = .ok h ∧ h.read (.rootAttr (S "id")) = some (S "SID") ∧
      h.read .title = some (S "None") ∧
      (∃ h', header2 st [(S "form_id", some (S "SID"))] { fallback := some (S "file") } = .ok h' ∧
        h'.read .title = some (S "file")) := by
  refine ⟨_, rfl, by decide +kernel, by decide +kernel, _, rfl, by decide +kernel⟩

/-! ## the `default_language` argument -/

theorem defaultLanguageValue_eq : Pyxv.Gen.defaultLanguageValue.toList = S "default" := by decide

/-- **default_language_slot**: the Survey's default language is the settings sheet's
    `default_language`, else the `default_language` argument, else `default` — and depends on nothing
    else (no other setting, not `form_name`, not the file name). -/
theorem default_language_slot {st : Dict} (hn : (keys st).Nodup) (a : Args) :
    defaultLanguageOf st a = Spec.defaultLanguage (sig st) a := by
  unfold defaultLanguageOf
  have hd : aget (S "default_language") (defaults st a)
      = some ((aget (S "default_language") st).getD (.s (a.defaultLanguage.getD Pyxv.Gen.defaultLanguageValue.toList))) := by
    simp only [defaults]
    rw [aget_cons_ne (by decide), aget_cons_ne (by decide), aget_cons_ne (by decide), aget_cons_ne (by decide),
      aget_cons_ne (by decide), aget_cons_eq]
  rw [slotStr_eq, aget_jsonRoot hn, hd, defaultLanguageValue_eq]
  unfold Spec.defaultLanguage
  cases h2 : aget (S "default_language") st with
  | some y => simp [sig, h2]
  | none => simp [sig, h2, Spec.txt]

/-! ## facts about the tables regenerated from the source (re-checked on every run) -/

/-- every settings alias resolves to a slot of `Survey` (so an aliased column lands in a setting) -/
theorem alias_targets_are_slots :
    (Pyxv.Gen.aliasSettingsHeader.all fun p => Pyxv.Gen.surveyFields.contains p.2) = true := by decide

/-- every documented spelling (and case/space variants) of the settings the property names is read
    as that setting by `process_header` with the current alias and slot tables -/
theorem documented_spellings :
    ([("form_title", "title"), ("set_form_title", "title"), ("title", "title"), ("Form Title", "title"),
      ("form_id", "id_string"), ("set_form_id", "id_string"), ("id_string", "id_string"), ("FORM_ID", "id_string"),
      ("version", "version"), (" Version ", "version"), ("name", "name"), ("instance_name", "instance_name"),
      ("submission_url", "submission_url"), ("public_key", "public_key"), ("auto_send", "auto_send"),
      ("auto_delete", "auto_delete"), ("style", "style"), ("namespaces", "namespaces"),
      ("omit_instanceID", "omit_instanceID"), ("instance_xmlns", "instance_xmlns"), ("prefix", "prefix"),
      ("delimiter", "delimiter")].all fun p =>
        processHeader false p.1.toList == (p.2.toList, [p.2.toList]) &&
        processHeader true p.1.toList == (p.2.toList, [p.2.toList])) = true := by decide +kernel

/-- `attribute::<name>` columns group under the `attribute` slot, the name kept verbatim -/
theorem attribute_headers :
    processHeader true (S "attribute::jr:x") = (S "attribute", [S "attribute", S "jr:x"]) ∧
    processHeader false (S "attribute::Abc") = (S "attribute", [S "attribute", S "Abc"]) ∧
    processHeader false (S "attribute:abc") = (S "attribute", [S "attribute", S "abc"]) := by decide +kernel

/-- the modelled settings are slots of `Survey` that are not themselves alias keys (except `prefix`,
    which aliases to itself) -/
theorem settings_are_slots :
    (modelled.all fun s => isColumn s.toList && ((aliasOf s.toList).isNone || s == "prefix")) = true := by
  decide +kernel

/-- the documented defaults: form name `data`; the seven standard namespace declarations -/
theorem documented_defaults :
    Pyxv.Gen.defaultFormName = "data" ∧
    Pyxv.Gen.nsmap.map (·.1) = ["xmlns", "xmlns:h", "xmlns:ev", "xmlns:xsd", "xmlns:jr", "xmlns:orx", "xmlns:odk"] := by
  decide

/-- the yes-spellings that remove instanceID, the no-spellings that keep it -/
theorem omit_spellings :
    (["yes", "Yes", "YES", "true", "True", "TRUE"].all fun s => Pyxv.Rows.yesNoTrue s.toList) = true ∧
    (["no", "No", "NO", "false", "False", "FALSE", "maybe"].all fun s => !Pyxv.Rows.yesNoTrue s.toList) = true := by
  decide +kernel

/-- the `<submission>` attribute names have pairwise distinct local names (so minidom's
    `setAttribute` cannot evict one of them) -/
theorem submission_local_names_distinct : (Spec.subAttrKeys.map localName).Nodup := by decide +kernel

/-! ## non-vacuity -/

deriving instance DecidableEq for Except

/-- a settings sheet with aliases, an attribute column and a namespace, accepted by the model -/
def exHdr : List Str := [S "form_title", S "form_id", S "version", S "attribute::foo:x", S "namespaces", S "style",
  S "submission_url", S "instance_name", S "name"]
def exRow : List (Str × Str) := [(S "form_title", S "My “T”"), (S "form_id", S "f1"), (S "version", S "3"),
  (S "attribute::foo:x", S "1"), (S "namespaces", S "foo=\"http://foo\" jr=http://no"), (S "style", S "pages"),
  (S "submission_url", S "http://x"), (S "instance_name", S "yes"), (S "name", S "root1")]

example : ∃ h, model (some (exHdr, exRow)) { fallback := some (S "file") } = .ok h ∧
    h.read .title = some (S "My \"T\"") ∧ h.read .rootName = some (S "root1") ∧
    h.read (.rootAttr (S "id")) = some (S "f1") ∧ h.read (.rootAttr (S "foo:x")) = some (S "1") ∧
    h.read (.subAttr (S "method")) = some (S "post") ∧ h.read .bodyClass = some (S "pages") ∧
    h.read (.ns (S "xmlns:foo")) = some (S "http://foo") ∧
    h.read (.ns (S "xmlns:jr")) = some (S "http://openrosa.org/javarosa") ∧
    h.read .instanceID = some [] ∧ h.read .instanceName = some (S "true()") := by
  refine ⟨_, rfl, ?_⟩
  decide +kernel

/-- defaults: no settings sheet, file-name fallback -/
example : ∃ h, model none { fallback := some (S "file"), formName := some (S "fn") } = .ok h ∧
    h.read .title = some (S "file") ∧ h.read .rootName = some (S "fn") ∧
    h.read (.rootAttr (S "id")) = some (S "file") ∧ h.read .hasSubmission = none := by
  refine ⟨_, rfl, ?_⟩
  decide +kernel

/-- the hypotheses of `no_leak` are satisfiable with different dicts: changing `style` and `version`
    leaves the title location alone -/
example :
    let st : Dict := [(S "title", .s (S "T")), (S "style", .s (S "pages"))]
    let st' : Dict := [(S "version", .s (S "9")), (S "title", .s (S "T"))]
    (keys st).Nodup ∧ (keys st').Nodup ∧ (∃ h, header st {} = .ok h) ∧ (∃ h, header st' {} = .ok h) ∧
    (∀ k ∈ Spec.deps .title, aget k.toList st = aget k.toList st') := by
  refine ⟨by decide +kernel, by decide +kernel, ⟨_, rfl⟩, ⟨_, rfl⟩, by decide +kernel⟩

/-- the rejections of `header_rejects` occur -/
example : header [(S "omit_instanceID", .s (S "yes")), (S "public_key", .s (S "k"))] {} = .error (.err .omitWithKey) ∧
    header [(S "id_string", .s (S "None"))] {} = .error (.err .emptyId) ∧
    header [(S "name", .s (S "1a"))] {} = .error (.err (.badName (S "1a"))) := by
  decide +kernel

/-- the guard of `root_attrs` / `settings_header_all` holds for a sheet with prefixed and plain custom
    attributes next to all five own attributes, and the header is accepted -/
example :
    let st : Dict := [(S "attribute", .d [(S "jr:x", S "1"), (S "y", S "2"), (S "odk:z", S "3")]),
      (S "id_string", .s (S "f")), (S "version", .s (S "1")), (S "prefix", .s (S "p")),
      (S "delimiter", .s (S "d")), (S "instance_xmlns", .s (S "urn:x"))]
    (keys st).Nodup ∧ LocalsDistinct (Spec.rootAttrKeys (sig st)) ∧ (∃ h, header st {} = .ok h) := by
  refine ⟨by decide +kernel, ?_, _, rfl⟩
  unfold LocalsDistinct
  decide +kernel

/-- the XML validation pass rejects, and a `${ref}` in an `attribute::` value is header text like any
    other (the lexer-dependent cases — `badRef`, `${ref}` in top-level settings — are exercised by the
    correspondence run; evaluating the lexer inside the kernel is too slow for an `example`) -/
example :
    header [(S "attribute", .d [(S "1x", S "v")])] {} = .error (.err .xmlInvalid) ∧
    header [(S "attribute", .d [(S "foo:x", S "v")])] {} = .error (.err .xmlInvalid) ∧
    header [(S "title", .s [Char.ofNat 1])] {} = .error (.err .xmlInvalid) ∧
    (∃ h, model (some ([S "version", S "attribute::k"], [(S "version", S "7"), (S "attribute::k", S "${q1}")])) {}
        = .ok h ∧ h.read (.rootAttr (S "version")) = some (S "7") ∧
          h.read (.rootAttr (S "k")) = some (S "${q1}")) := by
  refine ⟨by decide +kernel, by decide +kernel, by decide +kernel, _, rfl, ?_⟩
  decide +kernel

/-- a namespace declared on the primary instance root itself (`attribute::xmlns:p2`) is in scope for the
    root's name and attributes; a root name with the prefix `xmlns` or an undeclared prefix is rejected -/
example :
    (∃ h, header [(S "attribute", .d [(S "xmlns:p2", S "urn:p2"), (S "p2:k", S "v")]), (S "name", .s (S "p2:r"))] {}
        = .ok h ∧ h.read .rootName = some (S "p2:r") ∧ h.read (.rootAttr (S "p2:k")) = some (S "v")) ∧
    header [(S "name", .s (S "xmlns:r"))] {} = .error (.err .xmlInvalid) ∧
    header [(S "name", .s (S "und:r"))] {} = .error (.err .xmlInvalid) ∧
    (∃ h, header [(S "name", .s (S "jr:r"))] {} = .ok h) := by
  refine ⟨⟨_, rfl, by decide +kernel⟩, by decide +kernel, by decide +kernel, _, rfl⟩

/-- the duplicate-spelling rule of `dealias_and_group_headers` is order dependent, as in the code -/
example : (dealias [S "title", S "form_title"] [(S "title", S "a"), (S "form_title", S "b")]) =
      .error (.err (.dupHeader (S "title") (S "form_title"))) ∧
    (dealias [S "form_title", S "title"] [(S "form_title", S "b"), (S "title", S "a")]) =
      .ok [(S "title", .s (S "a"))] := by
  decide +kernel

end Pyxv.C11
