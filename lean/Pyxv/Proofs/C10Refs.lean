import Pyxv.Proofs.C10Form
import Pyxv.Proofs.C03
import Pyxv.Model.DefaultsRefs
/-!
# C10 composed with C03's model of `${name}` (`Pyxv.Refs`)

With `sub := Defaults.subRefs root els` (every `${name}` replaced by what `Refs.refFor` — C03's model of
`_var_repl_function` — emits for the context element) the theorems of `Pyxv.C10` speak about concrete value
texts: the setvalue of a dynamic default carries the default cell expanded from the question's own node
(`dynamic_default_value`), the nested set-node of a triggered calculation carries the calculation expanded from
the *target* node (`triggered_value`), and every reference so expanded, evaluated from that context node,
reaches the one element of that name (`hole_resolves`, C03's `ref_resolves` at the context C10 prescribes).
-/
namespace Pyxv.C10
open Pyxv Pyxv.Defaults List

/-- the value text of a cell expanded from the element at `p` -/
def expand (root : Str) (els : List El) (p : Path) (cell : Str) : Str := subRefs root els p cell

/-- **value of a dynamic default's setvalue**: for an accepted sheet, the one setvalue targeting a question with
    a dynamic default has `value` = the default cell with every reference expanded, per C03's model, from the
    question's own node; location and events as in `exactly_once` -/
theorem dynamic_default_value (dyn : Q → Bool) (root : Str) (rows : List (Nat × Form.RowK)) (els : List El)
    (hrows : Form.parseRows rows = .ok (shape els))
    (hval : Rows17.validate17 root (shape els) = .ok ())
    (y : Path × Option Path × Q) (hy : y ∈ qwn [root] none els) (hd : hasDynDefault dyn y.2.2 = true) :
    (setFacts (gen dyn (subRefs root els) root els)).filter (fun f => decide (f.set.ref = y.1)) =
      [{ loc := y.2.1,
         set := { tag := "setvalue".toList, ref := y.1,
                  event := if y.2.1.isSome then evNewRepeat else evFirstLoad,
                  value := some (expand root els y.1 y.2.2.default) } }] := by
  have h := (exactly_once_of_rows dyn (subRefs root els) root rows els hrows hval y hy).2.2.2
  rw [h]
  simp [expSetP, hd, expand]

/-- **value of a triggered calculation's set-node**: the one value-changed node targeting `q` carries `q`'s
    calculation expanded from `q`'s node (the `ref` node — XForms evaluates the value there), not from the
    triggering question that hosts it -/
theorem triggered_value (dyn : Q → Bool) (root : Str) (els : List El) (pq pt : Path) (q t : Q)
    (hq : (pq, q) ∈ qwp [root] els) (ht : (pt, t) ∈ qwp [root] els)
    (hn : ((qPaths [root] els).map (·.1)).Nodup)
    (htrig : q.trigger.isEmpty = false) (hkey : strip q.trigger = refOf t.name) (hshown : shown t = true)
    (hc : q.calcu.isEmpty = false) :
    ∃ f, (trigFacts (gen dyn (subRefs root els) root els)).filter (fun f => decide (f.set.ref = pq)) = [f] ∧
      f.ctl = pt ∧ f.set.ref = pq ∧ f.set.value = some (expand root els pq q.calcu) := by
  obtain ⟨h1, h2, _⟩ := trigger_setvalue dyn (subRefs root els) root els pq pt q t hq ht hn htrig hkey hshown
  refine ⟨_, h1, rfl, h2, ?_⟩
  have hp : pathOf (qPaths [root] els) q.name = pq := pathOf_question els [root] (pq, q) hq hn
  simp [trigFactOf, entryOf, hc, hp, expand]

/-- **every expanded reference reaches its element from the context C10 prescribes**: if C03's model emits
    `e` for `${name}` in a cell of the element at path `p`, then `e` evaluated from `p` is the path of THE
    element called `name` (C03's `ref_resolves`, instantiated at the chain found for `p`) -/
theorem hole_resolves (root : Str) (els : List El) (p : Path) (c : Refs.Chain)
    (hc : chainAt (chainsOf root els) p = some c)
    (hgood : ∀ t ∈ chainsOf root els, Refs.GoodNames t.path)
    (name : Str) (cur : Bool) (e : Refs.Emitted)
    (h : Refs.refFor (chainsOf root els) (some c) name {} = .ok cur e) :
    ∃ t, (chainsOf root els).filter (Refs.named name) = [t] ∧ Refs.resolve p e = some t.path := by
  have hmem : c ∈ chainsOf root els := List.mem_of_find?_eq_some hc
  have hp : c.path = p := by
    have := List.find?_some hc
    simpa using this
  obtain ⟨t, h1, h2⟩ := Refs.ref_resolves (chainsOf root els) hgood c (hgood c hmem) name {} cur e h
  exact ⟨t, h1, hp ▸ h2⟩

/-- a cell without `${` is its own expansion (a literal value stays literal) -/
theorem insertRefs_no_ref (chs : List Refs.Chain) (ctx : Option Refs.Chain) :
    ∀ (f : Nat) (s : Str), (∀ r, ¬ (∃ a, s = a ++ '$' :: '{' :: r)) → insertRefs chs ctx f s = s
  | 0, s, _ => by simp [insertRefs]
  | f + 1, [], _ => by simp [insertRefs]
  | f + 1, c :: r, h => by
    have hr : ∀ r', ¬ (∃ a, r = a ++ '$' :: '{' :: r') := by
      intro r' ⟨a, ha⟩
      exact h r' ⟨c :: a, by simp [ha]⟩
    have ih := insertRefs_no_ref chs ctx f r hr
    unfold insertRefs
    split
    · simp_all
    · simp_all
    · rename_i heq
      simp only [List.cons.injEq] at heq
      obtain ⟨rfl, rfl⟩ := heq
      exact absurd ⟨[], rfl⟩ (h _)
    · rename_i f' c' r' _ hf heq
      simp only [List.cons.injEq] at heq
      obtain ⟨rfl, rfl⟩ := heq
      have : f = f' := by omega
      subst this
      rw [ih]

/-! ### non-vacuity: question b of the example tree sits in repeat r; a reference from c (in r/g) to b is relative -/
example : chainAt (chainsOf "data".toList exTree) ["data".toList, "r".toList, "g".toList, "c".toList] =
    some [("data".toList, .group), ("r".toList, .rep), ("g".toList, .group), ("c".toList, .q)] := by
  simp [chainAt, chainsOf, exTree, exB, exC, toRefs, toRefsL, Refs.El.chains, Refs.chainsL, Refs.Chain.path]
example : ∀ t ∈ chainsOf "data".toList exTree, Refs.GoodNames t.path := by
  intro t ht
  simp only [chainsOf, exTree, exB, exC, toRefs, toRefsL, Refs.El.chains, Refs.chainsL, List.nil_append,
    List.cons_append, List.mem_cons, List.append_nil, List.mem_nil_iff, or_false] at ht
  rcases ht with rfl | rfl | rfl | rfl | rfl | rfl | rfl <;>
    (intro s hs; simp [Refs.Chain.path] at hs; rcases hs with rfl | rfl | rfl | rfl <;> decide)

end Pyxv.C10
