import Pyxv.Proofs.FromJsonLemmas
/-! # own-level stability of questions (`QStable`): helper lemmas -/
namespace Pyxv.ToJson
open Pyxv Pyxv.JV

/-! ## restoring `_qtd_kwargs` and the scalar defaults appends -/

theorem restoreKwargs_fresh (kw r : Dict) (hn : (kw.map Prod.fst).Nodup)
    (hd : ∀ k ∈ kw.map Prod.fst, k ∉ r.map Prod.fst) :
    restoreKwargs kw r = r ++ kw.filter fun kv => truthy kv.2 := by
  induction kw generalizing r with
  | nil => simp [restoreKwargs]
  | cons kv rest ih =>
    cases kv with
    | mk k v =>
      simp only [List.map_cons, List.nodup_cons] at hn
      have hk : k ∉ r.map Prod.fst := hd k (by simp)
      by_cases ht : truthy v = true
      · have := ih (r ++ [(k, v)]) hn.2 (by
          intro k' hk'
          simp only [List.map_append, List.map_cons, List.map_nil, List.mem_append, List.mem_singleton, not_or]
          refine ⟨hd k' (by simp [hk']), ?_⟩
          intro e; subst e; exact hn.1 hk')
        rw [restoreKwargs, if_pos ht, setKey, dictInsert_fresh k v r hk, this]
        simp [List.filter, ht]
      · have := ih r hn.2 (fun k' hk' => hd k' (by simp [hk']))
        rw [restoreKwargs, if_neg ht, this]
        simp [List.filter, ht]

/-- what `restoreScalars` puts back for one scalar default -/
def scalarEntry (slots : Dict) (kv : Str × Str) : Option (Str × J) :=
  if truthy ((lookup kv.1 slots).getD .null) && neStr ((lookup kv.1 slots).getD .null) kv.2
  then some (kv.1, (lookup kv.1 slots).getD .null) else none

theorem scalarEntry_key (slots : Dict) (kv : Str × Str) (p : Str × J) (h : scalarEntry slots kv = some p) :
    p.1 = kv.1 := by
  unfold scalarEntry at h
  split at h
  · cases h; rfl
  · cases h

theorem filterMap_scalar_keys (slots : Dict) (sc : List (Str × Str)) :
    ∀ k ∈ (sc.filterMap (scalarEntry slots)).map Prod.fst, k ∈ sc.map Prod.fst := by
  intro k hk
  simp only [List.mem_map, List.mem_filterMap] at hk
  obtain ⟨p, ⟨kv, hkv, hp⟩, e⟩ := hk
  have := scalarEntry_key slots kv p hp
  exact List.mem_map.mpr ⟨kv, hkv, by rw [← this, e]⟩

theorem restoreScalars_fresh (slots : Dict) (sc : List (Str × Str)) (r : Dict) (hn : (sc.map Prod.fst).Nodup)
    (hd : ∀ k ∈ sc.map Prod.fst, k ∉ r.map Prod.fst) :
    restoreScalars slots sc r = r ++ sc.filterMap (scalarEntry slots) := by
  induction sc generalizing r with
  | nil => simp [restoreScalars]
  | cons kv rest ih =>
    cases kv with
    | mk k v =>
      simp only [List.map_cons, List.nodup_cons] at hn
      have hk : k ∉ r.map Prod.fst := hd k (by simp)
      by_cases hc : (truthy ((lookup k slots).getD .null) && neStr ((lookup k slots).getD .null) v) = true
      · have := ih (r ++ [(k, (lookup k slots).getD .null)]) hn.2 (by
          intro k' hk'
          simp only [List.map_append, List.map_cons, List.map_nil, List.mem_append, List.mem_singleton, not_or]
          refine ⟨hd k' (by simp [hk']), ?_⟩
          intro e; subst e; exact hn.1 hk')
        rw [restoreScalars]
        simp only [hc, if_true]
        rw [setKey, dictInsert_fresh k _ r hk, this]
        simp [List.filterMap, scalarEntry, hc]
      · have := ih r hn.2 (fun k' hk' => hd k' (by simp [hk']))
        rw [restoreScalars]
        simp only [hc, if_false, Bool.false_eq_true]
        rw [this]
        simp [List.filterMap, scalarEntry, hc]


/-! ## the type-table loop touches only the keys of the entry -/

theorem lookup_mergeStep_ne (kvs acc : Dict) (kv : Str × J) (n : Str) (h : n ≠ kv.1) :
    lookup n (mergeStep kvs acc kv) = lookup n acc := by
  unfold mergeStep
  split
  · split
    · exact lookup_dictInsert_ne n kv.1 _ acc h
    · rfl
    · exact lookup_dictInsert_ne n kv.1 _ acc h
  · split
    · rfl
    · exact lookup_dictInsert_ne n kv.1 _ acc h

theorem lookup_foldl_mergeStep_ne (kvs : Dict) (entry acc : Dict) (n : Str) (h : n ∉ entry.map Prod.fst) :
    lookup n (entry.foldl (mergeStep kvs) acc) = lookup n acc := by
  induction entry generalizing acc with
  | nil => rfl
  | cons kv rest ih =>
    simp only [List.map_cons, List.mem_cons, not_or] at h
    rw [List.foldl_cons, ih _ h.2, lookup_mergeStep_ne kvs acc kv n h.1]

theorem lookup_mergeQtd_ne (entry kvs : Dict) (n : Str) (h : n ∉ entry.map Prod.fst) :
    lookup n (mergeQtd entry kvs) = lookup n kvs :=
  lookup_foldl_mergeStep_ne kvs entry kvs n h

theorem lookup_foldl_mergeStep_scalar (kvs : Dict) (entry acc : Dict) (k s : Str)
    (hn : (entry.map Prod.fst).Nodup) (hm : (k, J.str s) ∈ entry) (ha : lookup k acc = lookup k kvs) :
    lookup k (entry.foldl (mergeStep kvs) acc) =
      if (lookup k kvs).isSome then lookup k kvs else some (.str s) := by
  induction entry generalizing acc with
  | nil => simp at hm
  | cons kv rest ih =>
    simp only [List.map_cons, List.nodup_cons] at hn
    simp only [List.mem_cons] at hm
    rw [List.foldl_cons]
    rcases hm with hm | hm
    · subst hm
      rw [lookup_foldl_mergeStep_ne kvs rest _ k hn.1]
      simp only [mergeStep]
      by_cases hs : (lookup k kvs).isSome = true
      · simp [hs, ha]
      · simp [hs, setKey, lookup_dictInsert]
    · have hne : k ≠ kv.1 := by
        intro e
        exact hn.1 (List.mem_map.mpr ⟨(k, J.str s), hm, e⟩)
      exact ih (mergeStep kvs acc kv) hn.2 hm (by rw [lookup_mergeStep_ne kvs acc kv k hne, ha])

theorem lookup_mergeQtd_scalar (entry kvs : Dict) (k s : Str)
    (hn : (entry.map Prod.fst).Nodup) (hm : (k, J.str s) ∈ entry) :
    lookup k (mergeQtd entry kvs) = if (lookup k kvs).isSome then lookup k kvs else some (.str s) :=
  lookup_foldl_mergeStep_scalar kvs entry kvs k s hn hm rfl

/-! ## `_qtd_kwargs` read back from a dump -/

theorem kwOf_keys (entry src : Dict) : ∀ k ∈ (kwOf entry src).map Prod.fst, k ∈ entry.map Prod.fst := by
  intro k hk
  simp only [kwOf, List.mem_map, List.mem_filterMap] at hk
  obtain ⟨p, ⟨kv, hkv, hp⟩, e⟩ := hk
  refine List.mem_map.mpr ⟨kv, hkv, ?_⟩
  split at hp
  · cases hl : lookup kv.1 src with
    | none => simp [hl] at hp
    | some u => simp [hl] at hp; rw [← e, ← hp]
  · cases hp

theorem kwOf_cons (kv : Str × J) (rest src : Dict) :
    kwOf (kv :: rest) src = (match kv.2 with
      | .obj _ => (match lookup kv.1 src with | some u => [(kv.1, u)] | none => [])
      | _ => []) ++ kwOf rest src := by
  cases hv : kv.2 <;> cases hl : lookup kv.1 src <;> simp [kwOf, List.filterMap_cons, hv, hl]

theorem kwOf_congr (entry a b : Dict)
    (h : ∀ kv ∈ entry, ∀ t, kv.2 = J.obj t → lookup kv.1 a = lookup kv.1 b) :
    kwOf entry a = kwOf entry b := by
  induction entry with
  | nil => rfl
  | cons kv rest ih =>
    rw [kwOf_cons, kwOf_cons, ih (fun q hq => h q (by simp [hq]))]
    cases hv : kv.2 with
    | obj t => rw [h kv (by simp) t hv]
    | _ => rfl

theorem kwOf_filter_fixed (entry : Dict) (hn : (entry.map Prod.fst).Nodup) (src : Dict) (p : Str × J → Bool) :
    kwOf entry ((kwOf entry src).filter p) = (kwOf entry src).filter p := by
  induction entry with
  | nil => rfl
  | cons kv rest ih =>
    simp only [List.map_cons, List.nodup_cons] at hn
    have ihr := ih hn.2
    have hKr : ∀ k, k ∉ rest.map Prod.fst → lookup k ((kwOf rest src).filter p) = none := by
      intro k hk
      apply lookup_none_of_not_mem
      intro hin
      exact hk (kwOf_keys rest src k (by
        simp only [List.mem_map, List.mem_filter] at hin ⊢
        obtain ⟨q, ⟨hq, _⟩, e⟩ := hin
        exact ⟨q, hq, e⟩))
    rw [kwOf_cons kv rest src]
    cases hv : kv.2 with
    | obj t =>
      simp only []
      cases hl : lookup kv.1 src with
      | none =>
        simp only [List.nil_append]
        rw [kwOf_cons, hv]
        simp only [hKr kv.1 hn.1, List.nil_append]
        exact ihr
      | some u =>
        simp only [List.filter_append, List.filter]
        by_cases hp : p (kv.1, u) = true
        · simp only [hp, List.cons_append, List.nil_append]
          rw [kwOf_cons, hv]
          simp only [lookup, if_true]
          rw [kwOf_congr rest _ ((kwOf rest src).filter p) (by
            intro q hq t _
            have hne : q.1 ≠ kv.1 := fun e => hn.1 (e ▸ List.mem_map.mpr ⟨q, hq, rfl⟩)
            simp [lookup, hne])]
          rw [ihr]; rfl
        · simp only [hp, List.nil_append]
          rw [kwOf_cons, hv]
          simp only [hKr kv.1 hn.1, List.nil_append]
          exact ihr
    | null => simp only [List.nil_append]; rw [kwOf_cons, hv]; simpa using ihr
    | bool b => simp only [List.nil_append]; rw [kwOf_cons, hv]; simpa using ihr
    | num n => simp only [List.nil_append]; rw [kwOf_cons, hv]; simpa using ihr
    | str s => simp only [List.nil_append]; rw [kwOf_cons, hv]; simpa using ihr
    | arr xs => simp only [List.nil_append]; rw [kwOf_cons, hv]; simpa using ihr

theorem toJson_question (slots : Dict) (qk : List Str) (kw : Dict) (sc : List (Str × Str)) (x : List Str) :
    toJson (.mk .question slots qk kw sc [] none []) x =
      .obj (restoreScalars slots sc (restoreKwargs kw
        (ownDump (allDelete .question (slots.map Prod.fst) qk x) slots))) := by
  simp [toJson, ownDump]


/-! ## keys of filtered / mapped association lists -/

theorem nodup_keys_filterMap {α : Type} (l : List (Str × α)) (f : Str × α → Option (Str × J))
    (hf : ∀ kv p, f kv = some p → p.1 = kv.1) (hn : (l.map Prod.fst).Nodup) :
    ((l.filterMap f).map Prod.fst).Nodup := by
  induction l with
  | nil => simp
  | cons kv rest ih =>
    simp only [List.map_cons, List.nodup_cons] at hn
    rw [List.filterMap_cons]
    cases hv : f kv with
    | none => exact ih hn.2
    | some p =>
      simp only [List.map_cons, List.nodup_cons]
      refine ⟨?_, ih hn.2⟩
      intro hin
      simp only [List.mem_map, List.mem_filterMap] at hin
      obtain ⟨q, ⟨kv', hkv', hq⟩, e⟩ := hin
      apply hn.1
      rw [← hf kv p hv, ← e, hf kv' q hq]
      exact List.mem_map.mpr ⟨kv', hkv', rfl⟩

theorem keys_filterMap_subset {α : Type} (l : List (Str × α)) (f : Str × α → Option (Str × J))
    (hf : ∀ kv p, f kv = some p → p.1 = kv.1) :
    ∀ k ∈ (l.filterMap f).map Prod.fst, k ∈ l.map Prod.fst := by
  intro k hk
  simp only [List.mem_map, List.mem_filterMap] at hk
  obtain ⟨q, ⟨kv, hkv, hq⟩, e⟩ := hk
  exact List.mem_map.mpr ⟨kv, hkv, by rw [← hf kv q hq, e]⟩

theorem kwOf_key (src : Dict) (kv p : Str × J)
    (h : (match kv.2 with | .obj _ => (lookup kv.1 src).map fun u => (kv.1, u) | _ => none) = some p) :
    p.1 = kv.1 := by
  split at h
  · cases hl : lookup kv.1 src with
    | none => simp [hl] at h
    | some u => simp [hl] at h; rw [← h]
  · cases h

theorem kwOf_nodup (entry src : Dict) (hn : (entry.map Prod.fst).Nodup) : ((kwOf entry src).map Prod.fst).Nodup :=
  nodup_keys_filterMap entry _ (kwOf_key src) hn

/-- a key of `_qtd_kwargs` has a dict value in the entry -/
theorem kwOf_mem_obj (entry src : Dict) (k : Str) (h : k ∈ (kwOf entry src).map Prod.fst) :
    ∃ t, (k, J.obj t) ∈ entry := by
  simp only [kwOf, List.mem_map, List.mem_filterMap] at h
  obtain ⟨p, ⟨kv, hkv, hp⟩, e⟩ := h
  split at hp
  · next t heq =>
    cases hl : lookup kv.1 src with
    | none => simp [hl] at hp
    | some u =>
      simp [hl] at hp
      refine ⟨t, ?_⟩
      have : kv = (k, J.obj t) := by
        cases kv with
        | mk a b => simp only at heq hp e ⊢; rw [← e, ← hp, heq]
      rw [← this]; exact hkv
  · cases hp

theorem scalarsOf_mem (entry : Dict) (k s : Str) : (k, s) ∈ scalarsOf entry ↔ (k, J.str s) ∈ entry := by
  simp only [scalarsOf, List.mem_filterMap]
  constructor
  · rintro ⟨kv, hkv, h⟩
    split at h
    · next s' heq =>
      simp only [Option.some.injEq, Prod.mk.injEq] at h
      cases kv with
      | mk a b => simp only at heq h ⊢; rw [← h.1, ← h.2, ← heq]; exact hkv
    · cases h
  · intro h
    exact ⟨(k, J.str s), h, rfl⟩

theorem scalarsOf_nodup (entry : Dict) (hn : (entry.map Prod.fst).Nodup) : ((scalarsOf entry).map Prod.fst).Nodup := by
  unfold scalarsOf
  induction entry with
  | nil => simp
  | cons kv rest ih =>
    simp only [List.map_cons, List.nodup_cons] at hn
    rw [List.filterMap_cons]
    split
    · exact ih hn.2
    · next p hp =>
      simp only [List.map_cons, List.nodup_cons]
      refine ⟨?_, ih hn.2⟩
      intro hin
      simp only [List.mem_map, List.mem_filterMap] at hin
      obtain ⟨q, ⟨kv', hkv', hq⟩, e⟩ := hin
      apply hn.1
      have e1 : p.1 = kv.1 := by
        split at hp
        · cases hp; rfl
        · cases hp
      have e2 : q.1 = kv'.1 := by
        split at hq
        · cases hq; rfl
        · cases hq
      rw [← e1, ← e, e2]
      exact List.mem_map.mpr ⟨kv', hkv', rfl⟩

/-- keys of an own dump are slot names that are not deleted -/
theorem ownDump_key (del : List Str) (slots : Dict) (k : Str) (h : k ∈ (ownDump del slots).map Prod.fst) :
    k ∈ slots.map Prod.fst ∧ k ∉ del := by
  rw [ownDump_eq_filter] at h
  simp only [List.mem_map, List.mem_filter] at h
  obtain ⟨kv, ⟨hkv, hk⟩, e⟩ := h
  refine ⟨List.mem_map.mpr ⟨kv, hkv, e⟩, ?_⟩
  simp only [keeps, Bool.and_eq_true, Bool.not_eq_true', List.contains_eq_mem, decide_eq_false_iff_not] at hk
  rw [← e]; exact hk.1


theorem filterMap_congr' {α β : Type} (l : List α) (f g : α → Option β) (h : ∀ a ∈ l, f a = g a) :
    l.filterMap f = l.filterMap g := by
  induction l with
  | nil => rfl
  | cons a rest ih =>
    rw [List.filterMap_cons, List.filterMap_cons, h a (by simp), ih (fun b hb => h b (by simp [hb]))]

theorem lookup_map_names (names : List Str) (f : Str → J) (k : Str) :
    lookup k (names.map fun n => (n, f n)) = if k ∈ names then some (f k) else none := by
  induction names with
  | nil => simp [lookup]
  | cons n ns ih =>
    simp only [List.map_cons, lookup, List.mem_cons]
    by_cases e : k = n
    · subst e; simp
    · simp [e, ih]

/-- lookup in the restored scalars -/
theorem lookup_scalars (slots : Dict) (sc : List (Str × Str)) (hn : (sc.map Prod.fst).Nodup) (k s : Str)
    (hm : (k, s) ∈ sc) :
    lookup k (sc.filterMap (scalarEntry slots)) = (scalarEntry slots (k, s)).map Prod.snd := by
  induction sc with
  | nil => simp at hm
  | cons kv rest ih =>
    simp only [List.map_cons, List.nodup_cons] at hn
    simp only [List.mem_cons] at hm
    rw [List.filterMap_cons]
    rcases hm with hm | hm
    · subst hm
      have hrest : lookup k (rest.filterMap (scalarEntry slots)) = none := by
        apply lookup_none_of_not_mem
        intro hin
        exact hn.1 (filterMap_scalar_keys slots rest k hin)
      cases hv : scalarEntry slots (k, s) with
      | none => simp [hrest]
      | some p =>
        have := scalarEntry_key slots (k, s) p hv
        cases p with
        | mk a b => simp only at this; subst this; simp [lookup]
    · have hne : k ≠ kv.1 := fun e => hn.1 (List.mem_map.mpr ⟨(k, s), hm, e⟩)
      cases hv : scalarEntry slots kv with
      | none => exact ih hn.2 hm
      | some p =>
        have := scalarEntry_key slots kv p hv
        cases p with
        | mk a b =>
          simp only at this; subst this
          simp only [lookup, hne, if_false]
          exact ih hn.2 hm

end Pyxv.ToJson
