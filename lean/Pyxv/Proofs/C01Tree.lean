import Pyxv.Proofs.C01Names
import Pyxv.Proofs.ItextIds
import Pyxv.Proofs.Convert
/-!
# C01: every element name of the instance tree is a valid name — from the cells, for the whole tree

`row_names_valid` (C01Names) is about one accepted `name` cell.  Here the statement is lifted through the whole
row pipeline `Rows.formOut` (classify every row → begin/end stack `parseRows` → meta block `withMeta` →
`instanceOf`): for every row list and nesting depth, every name of the element tree — `name` cells, generated
`generated_note_name_<row>`, `<repeat>_count`, `<select>_other`, the meta block's `meta` / `audit` /
`instanceID` / `instanceName` — satisfies `is_xml_tag` (`tree_names_valid`, `instance_tree_names_valid`).

Then the `]`-hypothesis (complement of open finding F5) of `convert_c01_sources` for the element tree is
reduced to the `name` cells: a string accepted by `is_xml_tag` contains `]` only if it contains the typo literal
`À-Ö]` of the source's `namestartchar` alternation (`noBr_of_isXmlTag`), every generated name is `]`-free, so the
only cells that can put a `]` into an element name are `name` cells containing that four-character literal
(`tree_names_noBr`, `convert_c01_cells`).
-/
namespace Pyxv.C01
open Pyxv Pyxv.Xml Pyxv.Asm Pyxv.Rows Pyxv.Form

/-! ## 1. predicates on all names of rows / items / stack states -/

def optAll (p : Str → Bool) : Option QData → Bool
  | none => true
  | some d => p d.name

/-- every name a classified row contributes to the tree satisfies `p` -/
def rowkAll (p : Str → Bool) : RowK → Bool
  | .skip => true
  | .bad _ => true
  | .end_ _ => true
  | .q d o => p d.name && optAll p o
  | .begin_ _ n _ h => p n && optAll p h

mutual
/-- every name of the element tree (also of nodes without instance node) satisfies `p` -/
def itAll (p : Str → Bool) : Item → Bool
  | .q d => p d.name
  | .sec _ n _ ks => p n && itAllL p ks
def itAllL (p : Str → Bool) : List Item → Bool
  | [] => true
  | k :: ks => itAll p k && itAllL p ks
end

theorem itAllL_append (p : Str → Bool) (a b : List Item) : itAllL p (a ++ b) = (itAllL p a && itAllL p b) := by
  induction a with
  | nil => simp [itAllL]
  | cons k r ih => simp [itAllL, ih, Bool.and_assoc]

mutual
theorem allNames_of_itAll (p : Str → Bool) : ∀ (it : Item), itAll p it = true → ∀ x ∈ allNames it, p x = true
  | .q d, h, x, hx => by
    simp only [allNames] at hx
    split at hx
    · rw [List.mem_singleton.mp hx]; simpa [itAll] using h
    · cases hx
  | .sec _ n _ ks, h, x, hx => by
    simp only [itAll, Bool.and_eq_true] at h
    simp only [allNames, List.mem_cons] at hx
    rcases hx with e | e
    · rw [e]; exact h.1
    · exact allNamesL_of_itAllL p ks h.2 x e
theorem allNamesL_of_itAllL (p : Str → Bool) : ∀ (its : List Item), itAllL p its = true → ∀ x ∈ allNamesL its, p x = true
  | [], _, x, hx => by simp [allNamesL] at hx
  | k :: ks, h, x, hx => by
    simp only [itAllL, Bool.and_eq_true] at h
    simp only [allNamesL, List.mem_append] at hx
    rcases hx with e | e
    · exact allNames_of_itAll p k h.1 x e
    · exact allNamesL_of_itAllL p ks h.2 x e
end

def frAll (p : Str → Bool) (fs : List Frame) : Bool := fs.all fun f => p f.name && itAllL p f.kids
def stAll (p : Str → Bool) (st : St) : Bool := itAllL p st.1 && frAll p st.2

theorem stAll_push (p : Str → Bool) (t : Item) (st : St) (ht : itAll p t = true) (h : stAll p st = true) :
    stAll p (push t st) = true := by
  obtain ⟨root, fs⟩ := st
  cases fs with
  | nil =>
    simp only [stAll, frAll, List.all_nil, Bool.and_true] at h
    simp [push, stAll, frAll, itAllL_append, itAllL, h, ht]
  | cons f fs =>
    simp only [stAll, frAll, List.all_cons, Bool.and_eq_true] at h
    simp [push, stAll, frAll, itAllL_append, itAllL, h.1, h.2.1.1, h.2.1.2, h.2.2, ht]

theorem stAll_pushOpt (p : Str → Bool) (o : Option QData) (st : St) (ho : optAll p o = true) (h : stAll p st = true) :
    stAll p (pushOpt o st) = true := by
  cases o with
  | none => exact h
  | some d => exact stAll_push p (.q d) st (by simpa [itAll, optAll] using ho) h

theorem stAll_step (p : Str → Bool) (st st' : St) (n : Nat) (k : RowK) (hk : rowkAll p k = true)
    (h : stAll p st = true) (hs : step st n k = .ok st') : stAll p st' = true := by
  cases k with
  | skip => simp only [step] at hs; cases hs; exact h
  | bad e => simp [step] at hs
  | q d o =>
    simp only [rowkAll, Bool.and_eq_true] at hk
    simp only [step] at hs; cases hs
    exact stAll_pushOpt p o _ hk.2 (stAll_push p (.q d) st (by simpa [itAll] using hk.1) h)
  | begin_ ct name b helper =>
    simp only [rowkAll, Bool.and_eq_true] at hk
    have h1 := stAll_pushOpt p helper st hk.2 h
    simp only [step] at hs
    generalize pushOpt helper st = st1 at h1 hs
    obtain ⟨root, fs⟩ := st1
    simp only [] at hs; cases hs
    simp only [stAll, frAll, List.all_cons, Bool.and_eq_true] at h1 ⊢
    exact ⟨h1.1, ⟨hk.1, by simp [itAllL]⟩, h1.2⟩
  | end_ ct =>
    obtain ⟨root, fs⟩ := st
    cases fs with
    | nil => simp [step] at hs
    | cons f fs =>
      simp only [step] at hs
      split at hs
      · cases hs
        simp only [stAll, frAll, List.all_cons, Bool.and_eq_true] at h
        refine stAll_push p _ (root, fs) ?_ ?_
        · simp [itAll, h.2.1.1, h.2.1.2]
        · simp [stAll, frAll, h.1, h.2.2]
      · cases hs

theorem stAll_run (p : Str → Bool) : ∀ (ks : List (Nat × RowK)) (st st' : St),
    (∀ k ∈ ks, rowkAll p k.2 = true) → stAll p st = true → run st ks = .ok st' → stAll p st' = true
  | [], st, st', _, h, hr => by simp only [run] at hr; cases hr; exact h
  | (n, r) :: rs, st, st', hk, h, hr => by
    simp only [run] at hr
    cases hs : step st n r with
    | error e => rw [hs] at hr; cases hr
    | ok st1 =>
      rw [hs] at hr
      exact stAll_run p rs st1 st' (fun k hk' => hk k (List.mem_cons_of_mem _ hk'))
        (stAll_step p st st1 n r (hk (n, r) (List.mem_cons_self ..)) h hs) hr

/-- **the begin/end stack adds no name**: every name of the parsed element tree is a name of a classified row -/
theorem itAllL_parseRows (p : Str → Bool) (ks : List (Nat × RowK)) (items : List Item)
    (hk : ∀ k ∈ ks, rowkAll p k.2 = true) (h : parseRows ks = .ok items) : itAllL p items = true := by
  unfold parseRows at h
  cases hr : run ([], []) ks with
  | error e => rw [hr] at h; cases h
  | ok st =>
    rw [hr] at h
    have := stAll_run p ks ([], []) st hk (by simp [stAll, frAll, itAllL]) hr
    obtain ⟨root, fs⟩ := st
    cases fs with
    | nil => simp only [] at h; cases h; simpa [stAll, frAll] using this
    | cons f fs => simp at h

/-! ## 2. `is_xml_tag` and `]`: only through the typo literal -/

/-- the string does not contain the four-character literal `À-Ö]` -/
def TypoFree (s : Str) : Prop := ∀ a b, s ≠ a ++ (typoLit ++ b)

theorem typoFree_tail {c : Char} {cs : Str} (h : TypoFree (c :: cs)) : TypoFree cs := by
  intro a b e; exact h (c :: a) b (by rw [e]; rfl)

theorem typoFree_suffix {a s : Str} (h : TypoFree (a ++ s)) : TypoFree s := by
  intro a' b e; exact h (a ++ a') b (by rw [e, List.append_assoc])

/-- a `]`-free string is in particular free of the literal -/
theorem typoFree_of_noBr (s : Str) (h : noBr s = true) : TypoFree s := by
  intro a b e
  subst e
  simp [noBr, typoLit] at h

theorem startsWith_split (s p : Str) (h : startsWith s p = true) : s = p ++ s.drop p.length := by
  induction p generalizing s with
  | nil => simp
  | cons c r ih =>
    cases s with
    | nil => simp [startsWith] at h
    | cons d u =>
      simp only [startsWith, Bool.and_eq_true, beq_iff_eq] at h
      simp only [List.length_cons, List.drop_succ_cons, List.cons_append]
      rw [h.1, ← ih u h.2]

theorem nmOk_ne_br (c : Char) (h : (isNameStart1 c || isNameExtra c) = true) : c ≠ ']' := by
  intro e; subst e; revert h; decide

theorem ncTail_keeps_br (f : Nat) (s : Str) (ht : TypoFree s) (hb : ']' ∈ s) : ']' ∈ ncTail f s := by
  induction f generalizing s with
  | zero =>
    cases s with
    | nil => cases hb
    | cons c cs => simpa [ncTail] using hb
  | succ f ih =>
    cases s with
    | nil => cases hb
    | cons c cs =>
      rw [ncTail]
      by_cases hc : (isNameStart1 c || isNameExtra c) = true
      · rw [if_pos hc]
        have : ']' ∈ cs := by
          rcases List.mem_cons.mp hb with e | e
          · exact absurd e.symm (nmOk_ne_br c hc)
          · exact e
        exact ih cs (typoFree_tail ht) this
      · rw [if_neg hc]
        by_cases hty : startsWith (c :: cs) typoLit = true
        · exact absurd (startsWith_split _ _ hty) (ht [] _)
        · rw [if_neg hty]; exact hb

theorem ncTail_suffix (f : Nat) (s : Str) : ∃ a, s = a ++ ncTail f s := by
  induction f generalizing s with
  | zero => exact ⟨[], by cases s <;> simp [ncTail]⟩
  | succ f ih =>
    cases s with
    | nil => exact ⟨[], by simp [ncTail]⟩
    | cons c cs =>
      rw [ncTail]
      by_cases hc : (isNameStart1 c || isNameExtra c) = true
      · rw [if_pos hc]
        obtain ⟨a, e⟩ := ih cs
        exact ⟨c :: a, by rw [List.cons_append, ← e]⟩
      · rw [if_neg hc]
        by_cases hty : startsWith (c :: cs) typoLit = true
        · rw [if_pos hty]
          obtain ⟨a, e⟩ := ih (cs.drop 3)
          refine ⟨c :: (cs.take 3 ++ a), ?_⟩
          rw [List.cons_append, List.append_assoc, ← e, List.take_append_drop]
        · rw [if_neg hty]; exact ⟨[], rfl⟩

theorem ncName_keeps_br (s r : Str) (ht : TypoFree s) (h : ncName s = some r) (hb : ']' ∈ s) : ']' ∈ r := by
  cases s with
  | nil => cases hb
  | cons c cs =>
    simp only [ncName] at h
    by_cases hc : isNameStart1 c = true
    · rw [if_pos hc] at h
      injection h with h
      have : ']' ∈ cs := by
        rcases List.mem_cons.mp hb with e | e
        · exact absurd e.symm (nmOk_ne_br c (by simp [hc]))
        · exact e
      rw [← h]
      exact ncTail_keeps_br _ cs (typoFree_tail ht) this
    · rw [if_neg hc] at h
      by_cases hty : startsWith (c :: cs) typoLit = true
      · exact absurd (startsWith_split _ _ hty) (ht [] _)
      · rw [if_neg hty] at h; cases h

theorem ncName_suffix (s r : Str) (h : ncName s = some r) : ∃ a, s = a ++ r := by
  cases s with
  | nil => simp [ncName] at h
  | cons c cs =>
    simp only [ncName] at h
    by_cases hc : isNameStart1 c = true
    · rw [if_pos hc] at h
      injection h with h
      obtain ⟨a, e⟩ := ncTail_suffix cs.length cs
      exact ⟨c :: a, by rw [List.cons_append, ← h, ← e]⟩
    · rw [if_neg hc] at h
      by_cases hty : startsWith (c :: cs) typoLit = true
      · rw [if_pos hty] at h
        injection h with h
        obtain ⟨a, e⟩ := ncTail_suffix cs.length (cs.drop 3)
        refine ⟨c :: (cs.take 3 ++ a), ?_⟩
        rw [List.cons_append, List.append_assoc, ← h, ← e, List.take_append_drop]
      · rw [if_neg hty] at h; cases h

/-- **`is_xml_tag` lets a `]` through only inside the typo literal `À-Ö]`**: an accepted name that does not
    contain that four-character literal contains no `]` -/
theorem noBr_of_isXmlTag (s : Str) (h : isXmlTag s = true) (ht : TypoFree s) : noBr s = true := by
  have key : ']' ∉ s := by
    intro hb
    unfold isXmlTag at h
    split at h
    · cases h
    · rename_i h1
      have := ncName_keeps_br s [] ht h1 hb
      cases this
    · rename_i r h1
      have h2 := ncName_keeps_br s _ ht h1 hb
      have hr : ']' ∈ r := by
        rcases List.mem_cons.mp h2 with e | e
        · exact absurd e (by decide)
        · exact e
      obtain ⟨a, e⟩ := ncName_suffix s _ h1
      have htr : TypoFree r := by
        have : s = (a ++ [':']) ++ r := by rw [e]; simp
        rw [this] at ht
        exact typoFree_suffix ht
      split at h
      · rename_i h3
        have := ncName_keeps_br r [] htr h3 hr
        cases this
      · cases h
    · cases h
  simpa [noBr] using key

#print axioms noBr_of_isXmlTag

-- the literal class is real: the literal itself is an accepted name with a `]` (finding F5)
example : isXmlTag typoLit = true ∧ noBr typoLit = false := by decide +kernel
example : noBr "esri:kids".toList = true :=
  noBr_of_isXmlTag _ (by decide +kernel) (typoFree_of_noBr _ (by decide))

/-! ## 3. the row classifier only emits names that satisfy a suffix-closed predicate -/

/-- a predicate on names that the generated names inherit -/
structure NameClosed (p : Str → Bool) : Prop where
  count : ∀ n, p n = true → p (n ++ "_count".toList) = true
  other : ∀ n, p n = true → p (n ++ "_other".toList) = true
  note : ∀ n : Nat, p ("generated_note_name_".toList ++ natToStr n) = true

theorem get_name_filter (r : Cells) :
    Rows.get (r.filter fun kv => kv.1 ≠ "disabled".toList) "name" = Rows.get r "name" := by
  unfold Rows.get
  induction r with
  | nil => rfl
  | cons kv rest ih =>
    obtain ⟨a, b⟩ := kv
    by_cases ha : a = "disabled".toList
    · subst ha
      have hne : "name".toList ≠ "disabled".toList := by decide
      simp only [List.filter, ne_eq, not_true_eq_false, decide_false, lookup, hne, if_false]
      exact ih
    · simp only [List.filter, ne_eq, ha, not_false_eq_true, decide_true, lookup]
      split
      · rfl
      · exact ih

theorem nameOrErr_all (p : Str → Bool) (C : NameClosed p) (r : Cells) (t : Str) (n : Nat) (nm : Str)
    (hcell : ∀ x, Rows.get r "name" = some x → isXmlTag x = true → p x = true)
    (h : nameOrErr r t n = .ok nm) : p nm = true := by
  unfold nameOrErr at h
  cases hg : Rows.get r "name" with
  | none =>
    rw [hg] at h; simp only [] at h
    split at h
    · injection h with h; subst h; exact C.note n
    · cases h
  | some x =>
    rw [hg] at h; simp only [] at h
    split at h
    · rename_i hx; injection h with h; subst h; exact hcell x hg hx
    · cases h

theorem countHelper_all (p : Str → Bool) (C : NameClosed p) (name : Str) (r : Cells) (hn : p name = true) :
    optAll p (countHelper name r) = true := by
  unfold countHelper
  split
  · split
    · rfl
    · simpa [optAll] using C.count name hn
  · rfl

theorem classifyBegin_all (p : Str → Bool) (C : NameClosed p) (r : Cells) (name c : Str) (k : RowK)
    (hn : p name = true) (h : classifyBegin r name c = .row k) : rowkAll p k = true := by
  have hc := countHelper_all p C name r hn
  unfold classifyBegin at h
  repeat' split at h
  all_goals (try cases h)
  all_goals simp only [rowkAll, hn, hc, Bool.and_self]

theorem classifySelect_all (p : Str → Bool) (C : NameClosed p) (lists : List Str) (r : Cells) (name sel ln : Str)
    (other : Bool) (k : RowK) (hn : p name = true) (h : classifySelect lists r name sel ln other = .row k) :
    rowkAll p k = true := by
  have ho := C.other name hn
  unfold classifySelect at h
  simp only [] at h
  repeat' split at h
  all_goals (try cases h)
  all_goals first
    | rfl
    | simp only [rowkAll, optAll, hn, ho, Bool.and_self]

theorem qdata_name (name t : Str) (r : Cells) (d : QData) (h : qdata name t r = some d) : d.name = name := by
  unfold qdata at h
  split at h
  · injection h with h; subst h; rfl
  · split at h
    · cases h
    · injection h with h; subst h; rfl

theorem classifyNamed_all (p : Str → Bool) (C : NameClosed p) (lists : List Str) (r : Cells) (t name : Str) (k : RowK)
    (hn : p name = true) (h : classifyNamed lists r t name = .row k) : rowkAll p k = true := by
  unfold classifyNamed at h
  split at h
  · cases h
  · split at h
    · exact classifyBegin_all p C r name _ k hn h
    · split at h
      · exact classifySelect_all p C lists r name _ _ _ k hn h
      · split at h
        · cases h
        · split at h
          · rename_i d hd
            cases h
            simp only [rowkAll, optAll, qdata_name name t r d hd, hn, Bool.and_self]
          · cases h
            simp only [rowkAll, optAll, hn, Bool.and_self]

theorem classifyTyped_all (p : Str → Bool) (C : NameClosed p) (lists : List Str) (n : Nat) (r : Cells) (t : Str) (k : RowK)
    (hcell : ∀ x, Rows.get r "name" = some x → isXmlTag x = true → p x = true)
    (h : classifyTyped lists n r t = .row k) : rowkAll p k = true := by
  unfold classifyTyped at h
  repeat' split at h
  all_goals (try cases h)
  all_goals first
    | rfl
    | exact classifyNamed_all p C lists r t _ k (nameOrErr_all p C r t n _ hcell (by assumption)) h

/-- **every name a classified row contributes satisfies `p`**, when the row's `name` cell (if accepted by
    `is_xml_tag`) does and `p` is inherited by the generated names -/
theorem classify_all (p : Str → Bool) (C : NameClosed p) (lists : List Str) (n : Nat) (r0 : Cells) (k : RowK)
    (hcell : ∀ x, Rows.get r0 "name" = some x → isXmlTag x = true → p x = true)
    (h : classify lists n r0 = .row k) : rowkAll p k = true := by
  unfold classify at h
  simp only [] at h
  repeat' split at h
  all_goals (try cases h)
  all_goals first
    | rfl
    | exact classifyTyped_all p C lists n _ _ k (fun x hx => hcell x (by rw [← get_name_filter]; exact hx)) h

theorem classifyAll_all (p : Str → Bool) (C : NameClosed p) (lists : List Str) : ∀ (rows : List Cells) (n : Nat)
    (ks : List (Nat × RowK)),
    (∀ r ∈ rows, ∀ x, Rows.get r "name" = some x → isXmlTag x = true → p x = true) →
    classifyAll lists n rows = .ok ks → ∀ k ∈ ks, rowkAll p k.2 = true
  | [], _, ks, _, h => by simp only [classifyAll] at h; cases h; intro k hk; cases hk
  | r :: rs, n, ks, hc, h => by
    simp only [classifyAll] at h
    cases hk : classify lists n r with
    | unsupported w => rw [hk] at h; cases h
    | row k0 =>
      rw [hk] at h; simp only [] at h
      cases hr : classifyAll lists (n + 1) rs with
      | error w => rw [hr] at h; cases h
      | ok ks' =>
        rw [hr] at h; cases h
        intro k hmem
        rcases List.mem_cons.mp hmem with e | e
        · subst e; exact classify_all p C lists n r k0 (hc r (List.mem_cons_self ..)) hk
        · exact classifyAll_all p C lists rs (n + 1) ks' (fun r' hr' => hc r' (List.mem_cons_of_mem _ hr')) hr k e

/-! ## 4. the meta block -/

theorem itAllL_map_q (p : Str → Bool) (l : List QData) : itAllL p (l.map Item.q) = l.all (fun d => p d.name) := by
  induction l with
  | nil => rfl
  | cons d r ih => simp [itAllL, itAll, ih]

/-- the names of the generated meta block -/
structure MetaNames (p : Str → Bool) : Prop where
  metaN : p "meta".toList = true
  audit : p "audit".toList = true
  iid : p "instanceID".toList = true
  iname : p "instanceName".toList = true

theorem all_ite_nil_single (q : QData → Bool) (c : Prop) [Decidable c] (d : QData) (h : q d = true) :
    ((if c then [] else [d]).all q) = true := by
  by_cases hc : c <;> simp [hc, h]

theorem all_ite_single_nil (q : QData → Bool) (c : Prop) [Decidable c] (d : QData) (h : q d = true) :
    ((if c then [d] else []).all q) = true := by
  by_cases hc : c <;> simp [hc, h]

theorem metaKids_all (p : Str → Bool) (M : MetaNames p) (rows : List Cells) (settings : Cells) :
    (metaKids rows settings).all (fun d => p d.name) = true := by
  unfold metaKids
  simp only [List.all_append, Bool.and_eq_true]
  refine ⟨⟨?_, ?_⟩, ?_⟩
  · rw [List.all_eq_true]
    intro d hd
    obtain ⟨_, _, rfl⟩ := List.mem_map.mp hd
    exact M.audit
  · exact all_ite_nil_single _ _ _ M.iid
  · exact all_ite_single_nil _ _ _ M.iname

theorem itAllL_withMeta (p : Str → Bool) (M : MetaNames p) (rows : List Cells) (settings : Cells) (items : List Item)
    (h : itAllL p items = true) : itAllL p (withMeta rows settings items) = true := by
  unfold withMeta
  simp only []
  split
  · exact h
  · rw [itAllL_append, h, Bool.true_and]
    simp only [itAllL, itAll, M.metaN, Bool.true_and, Bool.and_true, itAllL_map_q]
    exact metaKids_all p M rows settings

/-! ## 5. the whole pipeline -/

theorem nmOk_digits (n : Nat) : (natToStr n).all nmOk = true := by
  rw [List.all_eq_true]
  intro c hc
  have hd : c.isDigit = true := Pyxv.Itext.digits_toString hc
  simp only [Char.isDigit, Bool.and_eq_true, decide_eq_true_eq] at hd
  have h0 : '0' ≤ c := by
    show (48 : UInt32) ≤ c.val
    exact hd.1
  have h9 : c ≤ '9' := by
    show c.val ≤ (57 : UInt32)
    exact hd.2
  simp [nmOk, isNameExtra, h0, h9]

theorem nameClosed_isXmlTag : NameClosed isXmlTag where
  count n h := (generated_names_valid n h).1
  other n h := (generated_names_valid n h).2
  note n := isXmlTag_append _ _ (nmOk_digits n) (by decide +kernel)

theorem metaNames_isXmlTag : MetaNames isXmlTag := by constructor <;> decide +kernel

/-- names that are valid and `]`-free -/
def tagNoBr (x : Str) : Bool := isXmlTag x && noBr x

theorem noBr_append (a b : Str) (ha : noBr a = true) (hb : noBr b = true) : noBr (a ++ b) = true := by
  simp only [noBr, Bool.not_eq_true', List.contains_eq_mem, decide_eq_false_iff_not, List.mem_append, not_or] at *
  exact ⟨ha, hb⟩

theorem noBr_of_all_nmOk (t : Str) (h : t.all nmOk = true) : noBr t = true := by
  simp only [noBr, Bool.not_eq_true', List.contains_eq_mem, decide_eq_false_iff_not]
  intro hb
  exact nmOk_ne_br _ ((List.all_eq_true.mp h) _ hb) rfl

theorem nameClosed_tagNoBr : NameClosed tagNoBr where
  count n h := by
    simp only [tagNoBr, Bool.and_eq_true] at h ⊢
    exact ⟨(generated_names_valid n h.1).1, noBr_append _ _ h.2 (by decide)⟩
  other n h := by
    simp only [tagNoBr, Bool.and_eq_true] at h ⊢
    exact ⟨(generated_names_valid n h.1).2, noBr_append _ _ h.2 (by decide)⟩
  note n := by
    simp only [tagNoBr, Bool.and_eq_true]
    exact ⟨nameClosed_isXmlTag.note n, noBr_append _ _ (by decide) (noBr_of_all_nmOk _ (nmOk_digits n))⟩

theorem metaNames_tagNoBr : MetaNames tagNoBr := by constructor <;> decide +kernel

/-- the pipeline preserves any suffix-closed predicate that the `name` cells and the meta names satisfy -/
theorem formOut_names (p : Str → Bool) (C : NameClosed p) (M : MetaNames p) (root : Str) (lists : List Str)
    (rows : List Cells) (settings : Cells) (o : FormOut)
    (hc : ∀ r ∈ rows, ∀ x, Rows.get r "name" = some x → isXmlTag x = true → p x = true)
    (h : formOut root lists rows settings = .ok o) : itAllL p (withMeta rows settings o.items) = true := by
  obtain ⟨ks, items, hcl, hp, hi, -, -, -⟩ := Pyxv.ConvertP.formOut_ok root lists rows settings o h
  rw [hi]
  exact itAllL_withMeta p M rows settings items
    (itAllL_parseRows p ks items (classifyAll_all p C lists rows 2 ks hc hcl) hp)

/-- **every element name of the tree built from the rows is a valid name** — for every row list, every nesting
    depth, including the generated `_count` / `_other` / note names and the meta block; no hypothesis on the cells -/
theorem tree_names_valid (root : Str) (lists : List Str) (rows : List Cells) (settings : Cells) (o : FormOut)
    (h : formOut root lists rows settings = .ok o) :
    ∀ x ∈ allNamesL (withMeta rows settings o.items), isXmlTag x = true :=
  allNamesL_of_itAllL isXmlTag _
    (formOut_names isXmlTag nameClosed_isXmlTag metaNames_isXmlTag root lists rows settings o (fun _ _ _ _ hx => hx) h)

/-- the same on the instance tree the pipeline emits (`FormOut.inst`: nodes and repeat templates), root included -/
theorem instance_tree_names_valid (root : Str) (lists : List Str) (rows : List Cells) (settings : Cells) (o : FormOut)
    (hroot : isXmlTag root = true) (h : formOut root lists rows settings = .ok o) : ntAll isXmlTag o.inst = true := by
  obtain ⟨ks, items, -, -, hi, hinst, -, -⟩ := Pyxv.ConvertP.formOut_ok root lists rows settings o h
  rw [hinst, instanceOf, ntAll_node, hroot, Bool.true_and, ← hi]
  exact ntAll_instKids isXmlTag false _ (tree_names_valid root lists rows settings o h)

/-- **`]` in the element tree comes from `name` cells containing the literal `À-Ö]` only**: if no `name` cell
    contains that literal, no name of the element tree contains `]` -/
theorem tree_names_noBr (root : Str) (lists : List Str) (rows : List Cells) (settings : Cells) (o : FormOut)
    (hcells : ∀ r ∈ rows, ∀ x, Rows.get r "name" = some x → TypoFree x)
    (h : formOut root lists rows settings = .ok o) :
    ∀ x ∈ allNamesL (withMeta rows settings o.items), noBr x = true := by
  have := allNamesL_of_itAllL tagNoBr _
    (formOut_names tagNoBr nameClosed_tagNoBr metaNames_tagNoBr root lists rows settings o
      (fun r hr x hx hv => by
        simp only [tagNoBr, Bool.and_eq_true]
        exact ⟨hv, noBr_of_isXmlTag x hv (hcells r hr x hx)⟩) h)
  intro x hx
  have h2 := this x hx
  simp only [tagNoBr, Bool.and_eq_true] at h2
  exact h2.2

#print axioms tree_names_valid
#print axioms instance_tree_names_valid
#print axioms tree_names_noBr

/-- the cell condition follows from the (stronger, decidable) "no `name` cell contains `]`" -/
def nameCellsNoBr (rows : List Cells) : Bool :=
  rows.all fun r => match Rows.get r "name" with | some x => noBr x | none => true

theorem cells_typoFree_of_noBr (rows : List Cells) (h : nameCellsNoBr rows = true) :
    ∀ r ∈ rows, ∀ x, Rows.get r "name" = some x → TypoFree x := by
  intro r hr x hx
  have := (List.all_eq_true.mp h) r hr
  rw [hx] at this
  exact typoFree_of_noBr x this

-- non-vacuity: a repeat with a generated `_count` helper, an `or_other`-free question, a nameless note, the meta block
def exRows : List Cells :=
  [ [("type".toList, "begin repeat".toList), ("name".toList, "kids".toList), ("control::jr:count".toList, "3".toList)],
    [("type".toList, "text".toList), ("name".toList, "esri:q".toList), ("label".toList, "Q".toList)],
    [("type".toList, "note".toList), ("label".toList, "N".toList)],
    [("type".toList, "end repeat".toList)] ]

def namesOf (r : Except FormErr FormOut) (rows : List Cells) : List Str :=
  match r with
  | .ok o => allNamesL (withMeta rows [] o.items)
  | .error _ => []

set_option maxRecDepth 100000 in
theorem ex_tree_names : namesOf (formOut "data".toList [] exRows []) exRows =
    ["kids_count", "kids", "esri:q", "generated_note_name_4", "meta", "instanceID"].map String.toList := by
  decide +kernel

example : ∃ o, formOut "data".toList [] exRows [] = .ok o ∧ (allNamesL (withMeta exRows [] o.items)).length = 6 ∧
    (∀ x ∈ allNamesL (withMeta exRows [] o.items), isXmlTag x = true) ∧
    (∀ x ∈ allNamesL (withMeta exRows [] o.items), noBr x = true) ∧ ntAll isXmlTag o.inst = true := by
  have h := ex_tree_names
  cases ho : formOut "data".toList [] exRows [] with
  | error e => rw [ho] at h; simp [namesOf] at h
  | ok o =>
    rw [ho] at h
    simp only [namesOf] at h
    exact ⟨o, rfl, by rw [h]; rfl, tree_names_valid _ _ _ _ o ho,
      tree_names_noBr _ _ _ _ o (cells_typoFree_of_noBr exRows (by decide +kernel)) ho,
      instance_tree_names_valid _ _ _ _ o (by decide +kernel) ho⟩

end Pyxv.C01

namespace Pyxv.ConvertP
open Pyxv Pyxv.Form Pyxv.Rows Pyxv.Xml Pyxv.Asm Pyxv.Convert Pyxv.C01

/-- **C01 for the whole conversion, the element-tree part of the `]`-hypothesis stated on cells.**  As
    `convert_c01_sources`, with "the names of the element tree contain no `]`" replaced by "no `name` cell of the
    survey sheet contains the typo literal `À-Ö]`" — the only way a `]` passes `is_xml_tag` (finding F5); all
    generated names (`_count`, `_other`, note names, meta block) are proved `]`-free. -/
theorem convert_c01_cells (wb : Workbook) (p : Bool) (text : Str) (h : convert wb p = .ok text)
    (hs : ∀ doc f lists rows drows o ditems, Trace wb doc f lists rows drows o ditems →
      HeaderNoBr f ∧ (∀ r ∈ rows, ∀ x, Rows.get r "name" = some x → TypoFree x) ∧
      noBrKids ((Choices.staticInsts [] (othersApplied (activeRows rows) lists)).map Choices.instNode ++
        bindNodesL (elsOf f.name (dWithMeta f.name rows ditems)) [(f.name, .group)] (dWithMeta f.name rows ditems)) = true ∧
      noBrKids (bodyNodesL (elsOf f.name (dWithMeta f.name rows ditems)) [f.name] ditems) = true) :
    holds text (normAttrVal (formId wb)) = true := by
  refine convert_c01_sources wb p text h ?_
  intro doc f lists rows drows o ditems T
  obtain ⟨h1, h2, h3, h4⟩ := hs doc f lists rows drows o ditems T
  exact ⟨h1, tree_names_noBr f.name (lists.map (·.1)) rows [] o h2 T.hform, h3, h4⟩

/-- every element name of the converted document's primary-instance tree (below a valid root name) is a valid name -/
theorem convert_instance_names_valid {wb : Workbook} {doc : Node} {f : Fields} {lists rows drows o ditems}
    (T : Trace wb doc f lists rows drows o ditems) (hroot : isXmlTag f.name = true) : ntAll isXmlTag o.inst = true :=
  instance_tree_names_valid f.name (lists.map (·.1)) rows [] o hroot T.hform

#print axioms convert_c01_cells
#print axioms convert_instance_names_valid

end Pyxv.ConvertP
