import Pyxv.Model.Headers
/-! Lemmas about `Kvs` and `merge` (the model of `sheet_headers.merge_dicts`). -/
namespace Pyxv.Headers
open Pyxv

/-- every value of the dict is truthy (true of rows whose empty cells were dropped by the backend) -/
def Kvs.allTruthy : Kvs → Bool
  | .nil => true
  | .cons _ v rest => !v.falsy && rest.allTruthy

theorem Kvs.get_of_not_has : ∀ (m : Kvs) (q : Str), m.has q = false → m.get q = .none
  | .nil, _, _ => rfl
  | .cons k v rest, q, h => by
    simp only [Kvs.has, Bool.or_eq_false_iff, decide_eq_false_iff_not] at h
    simp only [Kvs.get, h.1, if_false]
    exact Kvs.get_of_not_has rest q h.2

theorem Kvs.truthy_get : ∀ (m : Kvs) (q : Str), m.allTruthy = true → m.has q = true → (m.get q).falsy = false
  | .nil, _, _, h => by simp [Kvs.has] at h
  | .cons k v rest, q, ht, h => by
    simp only [Kvs.allTruthy, Bool.and_eq_true, Bool.not_eq_true'] at ht
    by_cases hq : q = k
    · simp only [Kvs.get, hq, if_true]; exact ht.1
    · simp only [Kvs.has, hq, decide_false, Bool.false_or] at h
      simp only [Kvs.get, hq, if_false]
      exact Kvs.truthy_get rest q ht.2 h

theorem Kvs.append_get : ∀ (a b : Kvs) (q : Str), (a.append b).get q = if a.has q then a.get q else b.get q
  | .nil, b, q => by simp [Kvs.append, Kvs.has]
  | .cons k v rest, b, q => by
    by_cases hq : q = k
    · simp [Kvs.append, Kvs.get, Kvs.has, hq]
    · simp only [Kvs.append, Kvs.get, Kvs.has, hq, if_false, decide_false, Bool.false_or]
      exact Kvs.append_get rest b q

theorem Kvs.append_has : ∀ (a b : Kvs) (q : Str), (a.append b).has q = (a.has q || b.has q)
  | .nil, b, q => by simp [Kvs.append, Kvs.has]
  | .cons k v rest, b, q => by
    simp only [Kvs.append, Kvs.has, Kvs.append_has rest b q, Bool.or_assoc]

theorem Kvs.set_get : ∀ (m : Kvs) (t : Str) (w : V) (q : Str), (m.set t w).get q = if q = t then w else m.get q
  | .nil, t, w, q => by simp [Kvs.set, Kvs.get]
  | .cons k v rest, t, w, q => by
    by_cases htk : t = k
    · subst htk
      by_cases hq : q = t <;> simp [Kvs.set, Kvs.get, hq]
    · by_cases hq : q = k
      · simp [Kvs.set, Kvs.get, htk, hq]
        intro h
        exact absurd h.symm htk
      · simp only [Kvs.set, htk, if_false, Kvs.get, hq]
        exact Kvs.set_get rest t w q

/-- `merge_dicts(a, None) = a` for a truthy `a` -/
theorem merge_none_right (dk : Str) (a : V) (h : a.falsy = false) : merge dk a .none = a := by
  cases a with
  | none => simp [V.falsy] at h
  | str s =>
    cases s with
    | nil => simp [V.falsy] at h
    | cons c cs => simp [merge, V.falsy]
  | dict ka =>
    cases ka with
    | nil => simp [V.falsy] at h
    | cons k v rest => simp [merge, V.falsy]

theorem merge_none_left (dk : Str) (b : V) : merge dk .none b = b := by simp [merge]

theorem mergeKvs_get (dk : Str) : ∀ (ka kb : Kvs) (q : Str),
    (mergeKvs dk ka kb).get q =
      if ka.has q then (if kb.has q then merge dk (ka.get q) (kb.get q) else ka.get q) else .none
  | .nil, kb, q => by simp [mergeKvs, Kvs.get, Kvs.has]
  | .cons k v rest, kb, q => by
    by_cases hq : q = k
    · simp [mergeKvs, Kvs.get, Kvs.has, hq]
    · simp only [mergeKvs, Kvs.get, Kvs.has, hq, if_false, decide_false, Bool.false_or]
      exact mergeKvs_get dk rest kb q

theorem mergeKvs_has (dk : Str) : ∀ (ka kb : Kvs) (q : Str), (mergeKvs dk ka kb).has q = ka.has q
  | .nil, kb, q => by simp [mergeKvs, Kvs.has]
  | .cons k v rest, kb, q => by
    simp only [mergeKvs, Kvs.has, mergeKvs_has dk rest kb q]

/-- merging with a dict that shares no key leaves a dict unchanged -/
theorem mergeKvs_disjoint (dk : Str) : ∀ (ka kb : Kvs), (∀ q, ka.has q = true → kb.has q = false) →
    mergeKvs dk ka kb = ka
  | .nil, _, _ => by simp [mergeKvs]
  | .cons k v rest, kb, hd => by
    have hk : kb.has k = false := hd k (by simp [Kvs.has])
    have hr : ∀ q, rest.has q = true → kb.has q = false := fun q h => hd q (by simp [Kvs.has, h])
    simp [mergeKvs, hk, mergeKvs_disjoint dk rest kb hr]

theorem single_without_get (t : Str) (v : V) (out : Kvs) (q : Str) :
    ((Kvs.cons t v .nil).without out).get q = if q = t ∧ out.has t = false then v else .none := by
  by_cases h : out.has t = true
  · simp [Kvs.without, h, Kvs.get]
  · have h' : out.has t = false := by simpa using h
    by_cases hq : q = t <;> simp [Kvs.without, h', Kvs.get, hq]

/-- **Top-level merge touches one column only**: `merge_dicts(out_row, {t: v})` changes key `t` (to the merge
of the old value with `v`) and no other key — for every row, truthy values or not. -/
theorem mergeTop_get (dk : Str) (out : Kvs) (t : Str) (v : V) (q : Str) :
    (mergeTop dk out t v).get q = if q = t then merge dk (out.get t) v else out.get q := by
  cases out with
  | nil =>
    by_cases hq : q = t <;> simp [mergeTop, merge, V.asKvs, Kvs.get, hq]
  | cons k w rest =>
    have hm : mergeTop dk (Kvs.cons k w rest) t v =
        (mergeKvs dk (Kvs.cons k w rest) (Kvs.cons t v .nil)).append ((Kvs.cons t v .nil).without (Kvs.cons k w rest)) := by
      simp [mergeTop, merge, V.falsy, V.asKvs]
    rw [hm, Kvs.append_get, mergeKvs_has, mergeKvs_get, single_without_get]
    by_cases hq : q = t
    · subst hq
      by_cases hh : (Kvs.cons k w rest).has q = true
      · have hg : (Kvs.cons q v Kvs.nil).get q = v := by simp [Kvs.get]
        have hh2 : (Kvs.cons q v Kvs.nil).has q = true := by simp [Kvs.has]
        simp only [hh, if_true, hg, hh2]
      · have hh' : (Kvs.cons k w rest).has q = false := by simpa using hh
        simp [hh', Kvs.get_of_not_has _ _ hh', merge_none_left]
    · by_cases hh : (Kvs.cons k w rest).has q = true
      · have hh2 : (Kvs.cons t v Kvs.nil).has q = false := by simp [Kvs.has, hq]
        simp only [hh, if_true, hh2, hq, if_false, Bool.false_eq_true]
      · have hh' : (Kvs.cons k w rest).has q = false := by simpa using hh
        simp [hh', hq, Kvs.get_of_not_has _ _ hh']

/-- merging a one-key dict into a dict is the top-level merge (also when the left dict is empty) -/
theorem merge_dict_single (dk : Str) (m : Kvs) (l : Str) (x : V) :
    merge dk (.dict m) (.dict (.cons l x .nil)) = .dict (mergeTop dk m l x) := by
  cases m with
  | nil => simp [mergeTop, merge, V.asKvs]
  | cons k v rest => simp [mergeTop, merge, V.falsy, V.asKvs]

theorem single_without_has (t : Str) (v : V) (out : Kvs) (q : Str) :
    ((Kvs.cons t v .nil).without out).has q = (decide (q = t) && !out.has t) := by
  by_cases h : out.has t = true
  · simp [Kvs.without, h, Kvs.has]
  · have h' : out.has t = false := by simpa using h
    simp [Kvs.without, h', Kvs.has]

theorem mergeTop_has (dk : Str) (out : Kvs) (t : Str) (v : V) (q : Str) :
    (mergeTop dk out t v).has q = (out.has q || decide (q = t)) := by
  cases out with
  | nil => simp [mergeTop, merge, V.asKvs, Kvs.has]
  | cons k w rest =>
    have hm : mergeTop dk (Kvs.cons k w rest) t v =
        (mergeKvs dk (Kvs.cons k w rest) (Kvs.cons t v .nil)).append ((Kvs.cons t v .nil).without (Kvs.cons k w rest)) := by
      simp [mergeTop, merge, V.falsy, V.asKvs]
    rw [hm, Kvs.append_has, mergeKvs_has, single_without_has]
    by_cases hq : q = t
    · subst hq
      cases (Kvs.cons k w rest).has q <;> simp
    · simp [hq]

theorem Kvs.has_iff_mem_keys : ∀ (m : Kvs) (q : Str), m.has q = true ↔ q ∈ m.keys
  | .nil, q => by simp [Kvs.has, Kvs.keys]
  | .cons k v rest, q => by
    simp only [Kvs.has, Kvs.keys, Bool.or_eq_true, decide_eq_true_eq, List.mem_cons, Kvs.has_iff_mem_keys rest q]

theorem Kvs.keys_append : ∀ (a b : Kvs), (a.append b).keys = a.keys ++ b.keys
  | .nil, b => by simp [Kvs.append, Kvs.keys]
  | .cons k v rest, b => by simp [Kvs.append, Kvs.keys, Kvs.keys_append rest b]

theorem mergeKvs_keys (dk : Str) : ∀ (ka kb : Kvs), (mergeKvs dk ka kb).keys = ka.keys
  | .nil, _ => by simp [mergeKvs, Kvs.keys]
  | .cons k v rest, kb => by simp [mergeKvs, Kvs.keys, mergeKvs_keys dk rest kb]

theorem mergeTop_keys (dk : Str) (out : Kvs) (t : Str) (v : V) :
    (mergeTop dk out t v).keys = out.keys ++ (if out.has t then [] else [t]) := by
  cases out with
  | nil => simp [mergeTop, merge, V.asKvs, Kvs.keys, Kvs.has]
  | cons k w rest =>
    have hm : mergeTop dk (Kvs.cons k w rest) t v =
        (mergeKvs dk (Kvs.cons k w rest) (Kvs.cons t v .nil)).append ((Kvs.cons t v .nil).without (Kvs.cons k w rest)) := by
      simp [mergeTop, merge, V.falsy, V.asKvs]
    rw [hm, Kvs.keys_append, mergeKvs_keys]
    by_cases hh : (Kvs.cons k w rest).has t = true
    · simp [Kvs.without, hh, Kvs.keys]
    · have hh' : (Kvs.cons k w rest).has t = false := by simpa using hh
      simp [Kvs.without, hh', Kvs.keys]

theorem mergeTop_keys_nodup (dk : Str) (out : Kvs) (t : Str) (v : V) (h : out.keys.Nodup) :
    (mergeTop dk out t v).keys.Nodup := by
  rw [mergeTop_keys]
  by_cases hh : out.has t = true
  · simpa [hh] using h
  · have hh' : out.has t = false := by simpa using hh
    have hnm : t ∉ out.keys := fun hm => by
      rw [← Kvs.has_iff_mem_keys] at hm; rw [hh'] at hm; cases hm
    simp only [hh', Bool.false_eq_true, if_false]
    exact List.nodup_append.mpr ⟨h, by simp, by intro a ha b hb; simp at hb; subst hb; exact fun e => hnm (e ▸ ha)⟩

end Pyxv.Headers
