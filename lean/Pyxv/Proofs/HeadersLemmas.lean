import Pyxv.Model.Headers
/-! Lemmas about `Kvs` and `merge` (the model of `sheet_headers.merge_dicts`). -/
namespace Pyxv.Headers
open Pyxv

/-- every value of the dict is truthy (true of rows whose empty cells were dropped by the backend) -/
def Kvs.allTruthy : Kvs → Bool
  | .nil => true
  | .cons _ v rest => !v.falsy && rest.allTruthy

theorem Kvs.get_of_not_has : ∀ (m : Kvs) (q : Str), m.has q = false → m.get q = .none
  | .nil, _, _ => rfl
  | .cons k v rest, q, h => by
    simp only [Kvs.has, Bool.or_eq_false_iff, decide_eq_false_iff_not] at h
    simp only [Kvs.get, h.1, if_false]
    exact Kvs.get_of_not_has rest q h.2

theorem Kvs.truthy_get : ∀ (m : Kvs) (q : Str), m.allTruthy = true → m.has q = true → (m.get q).falsy = false
  | .nil, _, _, h => by simp [Kvs.has] at h
  | .cons k v rest, q, ht, h => by
    simp only [Kvs.allTruthy, Bool.and_eq_true, Bool.not_eq_true'] at ht
    by_cases hq : q = k
    · simp only [Kvs.get, hq, if_true]; exact ht.1
    · simp only [Kvs.has, hq, decide_false, Bool.false_or] at h
      simp only [Kvs.get, hq, if_false]
      exact Kvs.truthy_get rest q ht.2 h

theorem Kvs.append_get : ∀ (a b : Kvs) (q : Str), (a.append b).get q = if a.has q then a.get q else b.get q
  | .nil, b, q => by simp [Kvs.append, Kvs.has]
  | .cons k v rest, b, q => by
    by_cases hq : q = k
    · simp [Kvs.append, Kvs.get, Kvs.has, hq]
    · simp only [Kvs.append, Kvs.get, Kvs.has, hq, if_false, decide_false, Bool.false_or]
      exact Kvs.append_get rest b q

theorem Kvs.append_has : ∀ (a b : Kvs) (q : Str), (a.append b).has q = (a.has q || b.has q)
  | .nil, b, q => by simp [Kvs.append, Kvs.has]
  | .cons k v rest, b, q => by
    simp only [Kvs.append, Kvs.has, Kvs.append_has rest b q, Bool.or_assoc]

theorem Kvs.set_get : ∀ (m : Kvs) (t : Str) (w : V) (q : Str), (m.set t w).get q = if q = t then w else m.get q
  | .nil, t, w, q => by simp [Kvs.set, Kvs.get]
  | .cons k v rest, t, w, q => by
    by_cases htk : t = k
    · subst htk
      by_cases hq : q = t <;> simp [Kvs.set, Kvs.get, hq]
    · by_cases hq : q = k
      · simp [Kvs.set, Kvs.get, htk, hq]
        intro h
        exact absurd h.symm htk
      · simp only [Kvs.set, htk, if_false, Kvs.get, hq]
        exact Kvs.set_get rest t w q

/-- `merge_dicts(a, None) = a` for a truthy `a` -/
theorem merge_none_right (dk : Str) (a : V) (h : a.falsy = false) : merge dk a .none = a := by
  cases a with
  | none => simp [V.falsy] at h
  | str s =>
    cases s with
    | nil => simp [V.falsy] at h
    | cons c cs => simp [merge, V.falsy]
  | dict ka =>
    cases ka with
    | nil => simp [V.falsy] at h
    | cons k v rest => simp [merge, V.falsy]

theorem merge_none_left (dk : Str) (b : V) : merge dk .none b = b := by simp [merge]

theorem mergeKvs_get (dk : Str) : ∀ (ka kb : Kvs) (q : Str),
    (mergeKvs dk ka kb).get q = if ka.has q then merge dk (ka.get q) (kb.get q) else .none
  | .nil, kb, q => by simp [mergeKvs, Kvs.get, Kvs.has]
  | .cons k v rest, kb, q => by
    by_cases hq : q = k
    · simp [mergeKvs, Kvs.get, Kvs.has, hq]
    · simp only [mergeKvs, Kvs.get, Kvs.has, hq, if_false, decide_false, Bool.false_or]
      exact mergeKvs_get dk rest kb q

theorem mergeKvs_has (dk : Str) : ∀ (ka kb : Kvs) (q : Str), (mergeKvs dk ka kb).has q = ka.has q
  | .nil, kb, q => by simp [mergeKvs, Kvs.has]
  | .cons k v rest, kb, q => by
    simp only [mergeKvs, Kvs.has, mergeKvs_has dk rest kb q]

/-- merging with a dict that shares no key leaves a truthy dict unchanged -/
theorem mergeKvs_disjoint (dk : Str) : ∀ (ka kb : Kvs), ka.allTruthy = true → (∀ q, ka.has q = true → kb.has q = false) →
    mergeKvs dk ka kb = ka
  | .nil, _, _, _ => by simp [mergeKvs]
  | .cons k v rest, kb, ht, hd => by
    simp only [Kvs.allTruthy, Bool.and_eq_true, Bool.not_eq_true'] at ht
    have hk : kb.get k = .none := Kvs.get_of_not_has kb k (hd k (by simp [Kvs.has]))
    have hr : ∀ q, rest.has q = true → kb.has q = false := fun q h => hd q (by simp [Kvs.has, h])
    simp only [mergeKvs, hk, merge_none_right dk v ht.1, mergeKvs_disjoint dk rest kb ht.2 hr]

theorem Kvs.mergeNone_id : ∀ (m : Kvs), m.allTruthy = true → m.mergeNone = m
  | .nil, _ => rfl
  | .cons k v rest, ht => by
    simp only [Kvs.allTruthy, Bool.and_eq_true, Bool.not_eq_true'] at ht
    simp [Kvs.mergeNone, ht.1, Kvs.mergeNone_id rest ht.2]

theorem single_without_get (t : Str) (v : V) (out : Kvs) (q : Str) :
    ((Kvs.cons t v .nil).without out).get q = if q = t ∧ out.has t = false then v else .none := by
  by_cases h : out.has t = true
  · simp [Kvs.without, h, Kvs.get]
  · have h' : out.has t = false := by simpa using h
    by_cases hq : q = t <;> simp [Kvs.without, h', Kvs.get, hq]

/-- **Top-level merge touches one column only**: `merge_dicts(out_row, {t: v})` on a row of truthy values
changes key `t` (to the merge of the old value with `v`) and no other key. -/
theorem mergeTop_get (dk : Str) (out : Kvs) (t : Str) (v : V) (q : Str) (ht : out.allTruthy = true) :
    (mergeTop dk out t v).get q = if q = t then merge dk (out.get t) v else out.get q := by
  cases out with
  | nil =>
    by_cases hq : q = t <;> simp [mergeTop, merge, V.asKvs, Kvs.get, hq]
  | cons k w rest =>
    have hm : mergeTop dk (Kvs.cons k w rest) t v =
        (mergeKvs dk (Kvs.cons k w rest) (Kvs.cons t v .nil)).append ((Kvs.cons t v .nil).without (Kvs.cons k w rest)) := by
      simp [mergeTop, merge, V.falsy, V.asKvs]
    rw [hm, Kvs.append_get, mergeKvs_has, mergeKvs_get, single_without_get]
    by_cases hq : q = t
    · subst hq
      by_cases hh : (Kvs.cons k w rest).has q = true
      · have hg : (Kvs.cons q v Kvs.nil).get q = v := by simp [Kvs.get]
        simp only [hh, if_true, hg]
      · have hh' : (Kvs.cons k w rest).has q = false := by simpa using hh
        simp [hh', Kvs.get_of_not_has _ _ hh', merge_none_left]
    · by_cases hh : (Kvs.cons k w rest).has q = true
      · have hg : (Kvs.cons t v Kvs.nil).get q = V.none := by simp [Kvs.get, hq]
        simp only [hh, if_true, hg, hq, if_false]
        exact merge_none_right dk _ (Kvs.truthy_get _ q ht hh)
      · have hh' : (Kvs.cons k w rest).has q = false := by simpa using hh
        simp [hh', hq, Kvs.get_of_not_has _ _ hh']

theorem Kvs.append_cons_ne (a : Kvs) (k : Str) (v : V) : (a.append (.cons k v .nil)) ≠ .nil := by
  cases a <;> simp [Kvs.append]

theorem merge_truthy (dk : Str) (a b : V) (h : a.falsy = false) : (merge dk a b).falsy = false := by
  cases a with
  | none => simp [V.falsy] at h
  | str s =>
    cases s with
    | nil => simp [V.falsy] at h
    | cons c cs =>
      cases b with
      | none => simp [merge, V.falsy]
      | str t =>
        cases t with
        | nil => simp [merge, V.falsy]
        | cons d ds =>
          by_cases hi : isInfix dk (d :: ds) = true <;> simp [merge, V.falsy, hi]
      | dict kb =>
        cases kb with
        | nil => simp [merge, V.falsy]
        | cons k v rest =>
          by_cases hh : (Kvs.cons k v rest).has dk = true <;> simp [merge, V.falsy, hh]
  | dict ka =>
    cases ka with
    | nil => simp [V.falsy] at h
    | cons k v rest =>
      cases b with
      | none => simp [merge, V.falsy]
      | str t =>
        cases t with
        | nil => simp [merge, V.falsy]
        | cons d ds =>
          by_cases hh : (Kvs.cons k v rest).has dk = true <;>
            simp [merge, V.falsy, hh, Kvs.mergeNone, Kvs.append]
      | dict kb =>
        cases kb with
        | nil => simp [merge, V.falsy]
        | cons k' v' rest' => simp [merge, V.falsy, mergeKvs, Kvs.append]

theorem mergeKvs_allTruthy (dk : Str) : ∀ (ka kb : Kvs), ka.allTruthy = true → (mergeKvs dk ka kb).allTruthy = true
  | .nil, _, _ => by simp [mergeKvs, Kvs.allTruthy]
  | .cons k v rest, kb, h => by
    simp only [Kvs.allTruthy, Bool.and_eq_true, Bool.not_eq_true'] at h
    simp only [mergeKvs, Kvs.allTruthy, Bool.and_eq_true, Bool.not_eq_true']
    exact ⟨merge_truthy dk v _ h.1, mergeKvs_allTruthy dk rest kb h.2⟩

theorem Kvs.append_allTruthy : ∀ (a b : Kvs), a.allTruthy = true → b.allTruthy = true → (a.append b).allTruthy = true
  | .nil, b, _, hb => by simpa [Kvs.append] using hb
  | .cons k v rest, b, ha, hb => by
    simp only [Kvs.allTruthy, Bool.and_eq_true, Bool.not_eq_true'] at ha
    simp only [Kvs.append, Kvs.allTruthy, Bool.and_eq_true, Bool.not_eq_true']
    exact ⟨ha.1, Kvs.append_allTruthy rest b ha.2 hb⟩

theorem Kvs.set_allTruthy : ∀ (m : Kvs) (t : Str) (w : V), m.allTruthy = true → w.falsy = false → (m.set t w).allTruthy = true
  | .nil, t, w, _, hw => by simp [Kvs.set, Kvs.allTruthy, hw]
  | .cons k v rest, t, w, hm, hw => by
    simp only [Kvs.allTruthy, Bool.and_eq_true, Bool.not_eq_true'] at hm
    by_cases h : t = k
    · simp [Kvs.set, h, Kvs.allTruthy, hw, hm.2]
    · simp only [Kvs.set, h, if_false, Kvs.allTruthy, Bool.and_eq_true, Bool.not_eq_true']
      exact ⟨hm.1, Kvs.set_allTruthy rest t w hm.2 hw⟩

theorem mergeTop_allTruthy (dk : Str) (out : Kvs) (t : Str) (v : V) (ho : out.allTruthy = true) (hv : v.falsy = false) :
    (mergeTop dk out t v).allTruthy = true := by
  cases out with
  | nil => simp [mergeTop, merge, V.asKvs, Kvs.allTruthy, hv]
  | cons k w rest =>
    have hm : mergeTop dk (Kvs.cons k w rest) t v =
        (mergeKvs dk (Kvs.cons k w rest) (Kvs.cons t v .nil)).append ((Kvs.cons t v .nil).without (Kvs.cons k w rest)) := by
      simp [mergeTop, merge, V.falsy, V.asKvs]
    rw [hm]
    apply Kvs.append_allTruthy _ _ (mergeKvs_allTruthy dk _ _ ho)
    by_cases hh : (Kvs.cons k w rest).has t = true
    · simp [Kvs.without, hh, Kvs.allTruthy]
    · have hh' : (Kvs.cons k w rest).has t = false := by simpa using hh
      simp [Kvs.without, hh', Kvs.allTruthy, hv]

theorem nest_truthy : ∀ (ts : List Str) (val : Str), val ≠ [] → (nest ts val).falsy = false
  | [], val, h => by
    cases val with
    | nil => exact absurd rfl h
    | cons c cs => simp [nest, V.falsy]
  | t :: ts, val, _ => by simp [nest, V.falsy]

end Pyxv.Headers
