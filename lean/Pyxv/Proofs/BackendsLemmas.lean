import Pyxv.Model.BackendsGuards
/-! Lemmas about trailing trims and the empty-run loops of `get_excel_rows` / `get_excel_column_headers`. -/
namespace Pyxv.Backends
open Pyxv

theorem list_reverse_induction {α} {motive : List α → Prop} (nil : motive [])
    (append_singleton : ∀ l x, motive l → motive (l ++ [x])) : ∀ l, motive l := by
  intro l
  have : ∀ r : List α, motive r.reverse := by
    intro r
    induction r with
    | nil => exact nil
    | cons x r ih => simpa using append_singleton _ x ih
  simpa using this l.reverse

theorem stripTrailing_nil {α} (p : α → Bool) : stripTrailing p [] = [] := rfl

theorem stripTrailing_snoc_neg {α} (p : α → Bool) (l : List α) (x : α) (h : p x = false) :
    stripTrailing p (l ++ [x]) = l ++ [x] := by
  simp [stripTrailing, h]

theorem stripTrailing_snoc_pos {α} (p : α → Bool) (l : List α) (x : α) (h : p x = true) :
    stripTrailing p (l ++ [x]) = stripTrailing p l := by
  simp [stripTrailing, h]

theorem stripTrailing_append_all {α} (p : α → Bool) (l t : List α) (h : ∀ x ∈ t, p x = true) :
    stripTrailing p (l ++ t) = stripTrailing p l := by
  induction t using list_reverse_induction with
  | nil => simp
  | append_singleton t x ih =>
    rw [← List.append_assoc, stripTrailing_snoc_pos _ _ _ (h x (by simp))]
    exact ih (fun y hy => h y (by simp [hy]))

/-- the spec only removes a suffix of `p`-elements -/
theorem stripTrailing_decomp {α} (p : α → Bool) (l : List α) :
    ∃ t, l = stripTrailing p l ++ t ∧ ∀ x ∈ t, p x = true := by
  induction l using list_reverse_induction with
  | nil => exact ⟨[], rfl, by simp⟩
  | append_singleton l x ih =>
    cases hx : p x with
    | false => exact ⟨[], by rw [stripTrailing_snoc_neg _ _ _ hx]; simp, by simp⟩
    | true =>
      obtain ⟨t, ht, hall⟩ := ih
      refine ⟨t ++ [x], ?_, ?_⟩
      · rw [stripTrailing_snoc_pos _ _ _ hx, ← List.append_assoc, ← ht]
      · intro y hy
        simp at hy
        rcases hy with hy | hy
        · exact hall y hy
        · subst hy; exact hx

/-- the result of the spec does not end in a `p`-element: the spec is idempotent -/
theorem stripTrailing_idem {α} (p : α → Bool) (l : List α) :
    stripTrailing p (stripTrailing p l) = stripTrailing p l := by
  induction l using list_reverse_induction with
  | nil => rfl
  | append_singleton l x ih =>
    cases hx : p x with
    | false => rw [stripTrailing_snoc_neg _ _ _ hx, stripTrailing_snoc_neg _ _ _ hx]
    | true => rw [stripTrailing_snoc_pos _ _ _ hx, ih]

/-- elements not satisfying `p` all survive, in order -/
theorem stripTrailing_filter {α} (p : α → Bool) (l : List α) :
    (stripTrailing p l).filter (fun x => !p x) = l.filter (fun x => !p x) := by
  obtain ⟨t, ht, hall⟩ := stripTrailing_decomp p l
  conv => rhs; rw [ht]
  rw [List.filter_append]
  have : t.filter (fun x => !p x) = [] := by
    rw [List.filter_eq_nil_iff]
    intro x hx
    simp [hall x hx]
  simp [this]

/-! ### `trim_trailing_empty` -/

theorem trimTrailing_zero {α} (l : List α) : trimTrailing l 0 = l := by simp [trimTrailing]

theorem trimTrailing_append_replicate {α} (l : List α) (n : Nat) (x : α) :
    trimTrailing (l ++ List.replicate n x) n = l := by
  unfold trimTrailing
  split
  · simp
  · have : n = 0 := by omega
    subst this; simp

/-- `trim_trailing_empty(a, n)` removes exactly the last `n` elements (never more than the list) -/
theorem trimTrailing_length {α} (l : List α) (n : Nat) : (trimTrailing l n).length = l.length - n := by
  unfold trimTrailing
  split
  · simp
  · have : n = 0 := by omega
    subst this; simp

theorem trimTrailing_prefix {α} (l : List α) (n : Nat) : trimTrailing l n <+: l := by
  unfold trimTrailing
  split
  · exact List.take_prefix _ _
  · exact List.prefix_refl _

/-- trimming twice by zero changes nothing: `trim_trailing_empty(trim_trailing_empty(a, n), 0)` -/
theorem trimTrailing_idem {α} (l : List α) (n : Nat) : trimTrailing (trimTrailing l n) 0 = trimTrailing l n :=
  trimTrailing_zero _

/-! ### runs of empty rows -/

/-- declarative form: any block of empty rows followed by a non-empty row has at most `lim` rows -/
def InteriorRunsLE {α} (lim : Nat) (ds : List (List α)) : Prop :=
  ∀ pre mid post x, ds = pre ++ mid ++ x :: post → (∀ r ∈ mid, r = []) → x ≠ [] → mid.length ≤ lim

theorem isEmpty_iff_nil {α} (r : List α) : r.isEmpty = true ↔ r = [] := by cases r <;> simp

theorem runsInt_of_interior {α} (lim : Nat) : ∀ (rest : List (List α)) (k : Nat),
    InteriorRunsLE lim (List.replicate k [] ++ rest) → runsInt lim k rest = true
  | [], _, _ => rfl
  | r :: rest, k, h => by
    unfold runsInt
    split
    · rename_i he
      have hr : r = [] := (isEmpty_iff_nil r).1 he
      subst hr
      apply runsInt_of_interior lim rest (k + 1)
      have : List.replicate (k + 1) ([] : List α) ++ rest = List.replicate k [] ++ [] :: rest := by
        rw [List.replicate_succ', List.append_assoc]; rfl
      rw [this]; exact h
    · rename_i he
      have hr : r ≠ [] := fun hh => he ((isEmpty_iff_nil r).2 hh)
      have hk : k ≤ lim := by
        have := h [] (List.replicate k []) rest r (by simp) (by intro x hx; exact (List.eq_of_mem_replicate hx)) hr
        simpa using this
      simp only [hk, decide_true, Bool.true_and]
      apply runsInt_of_interior lim rest 0
      intro pre mid post x hd hm hx
      apply h (List.replicate k [] ++ [r] ++ pre) mid post x _ hm hx
      simp at hd
      simp [hd]

theorem runsInt_all_empty {α} (lim : Nat) : ∀ (rest : List (List α)) (k : Nat), lim < k →
    runsInt lim k rest = true → ∀ r ∈ rest, r.isEmpty = true
  | [], _, _, _ => by simp
  | r :: rest, k, hk, h => by
    unfold runsInt at h
    split at h
    · rename_i he
      intro x hx
      simp at hx
      rcases hx with hx | hx
      · subst hx; exact he
      · exact runsInt_all_empty lim rest (k + 1) (by omega) h x hx
    · simp at h; omega

/-- The loop of `get_excel_rows`: invariant `acc = pre ++ adj empties`, `pre` not ending in an empty row. -/
theorem rowsLoop_spec {α} (lim : Nat) : ∀ (rest : List (List α)) (adj : Nat) (pre : List (List α)),
    adj ≤ lim → stripTrailing (·.isEmpty) pre = pre → runsInt lim adj rest = true →
    trimTrailing (rowsLoop lim adj (pre ++ List.replicate adj []) rest).1
                 (rowsLoop lim adj (pre ++ List.replicate adj []) rest).2
      = stripTrailing (·.isEmpty) (pre ++ List.replicate adj [] ++ rest)
  | [], adj, pre, _, hp, _ => by
    simp only [rowsLoop, List.append_nil]
    rw [trimTrailing_append_replicate, stripTrailing_append_all _ _ _ (by
      intro x hx; rw [List.eq_of_mem_replicate hx]; rfl), hp]
  | r :: rest, adj, pre, ha, hp, hr => by
    unfold runsInt at hr
    unfold rowsLoop
    split at hr
    · rename_i he
      have hnil : r = [] := (isEmpty_iff_nil r).1 he
      simp only [he, if_true]
      by_cases hlim : lim = adj
      · -- the break: everything that follows is empty
        simp only [hlim, if_true]
        have hall := runsInt_all_empty lim rest (adj + 1) (by omega) hr
        rw [trimTrailing_append_replicate]
        rw [List.append_assoc, stripTrailing_append_all _ pre _ (by
          intro x hx
          simp at hx
          rcases hx with hx | hx | hx
          · rw [hx.2]; rfl
          · rw [hx]; exact he
          · exact hall x hx)]
        exact hp.symm
      · simp only [hlim, if_false]
        subst hnil
        have e1 : pre ++ List.replicate adj ([] : List α) ++ [[]] = pre ++ List.replicate (adj + 1) [] := by
          rw [List.replicate_succ', List.append_assoc]
        rw [e1, rowsLoop_spec lim rest (adj + 1) pre (by omega) hp hr, ← e1]
        simp
    · rename_i he
      have he' : r.isEmpty = false := by simpa using he
      simp only [he', Bool.false_eq_true, if_false]
      simp only [Bool.and_eq_true, decide_eq_true_eq] at hr
      have h0 := rowsLoop_spec lim rest 0 (pre ++ List.replicate adj [] ++ [r]) (by omega)
        (stripTrailing_snoc_neg _ _ _ he') hr.2
      simp only [List.replicate_zero, List.append_nil] at h0
      rw [h0]
      simp

theorem getRowsOf_spec {α} (lim : Nat) (ds : List (List α)) (h : runsInt lim 0 ds = true) :
    getRowsOf lim ds = stripTrailing (·.isEmpty) ds := by
  have := rowsLoop_spec lim ds 0 [] (by omega) rfl h
  simpa [getRowsOf] using this

/-! ### header cells -/

/-- a header cell as `get_excel_column_headers` stores it -/
def cleanOpt (h : Option Str) : Option Str :=
  match h with
  | some s => if allSpace s then none else some (cleanHeader s)
  | none => none

/-- every run of empty header cells (trailing ones included) has length ≤ `lim` -/
def runsAll (lim : Nat) : Nat → List (Option Str) → Bool
  | _, [] => true
  | k, h :: rest => if isEmptyVal h then decide (k < lim) && runsAll lim (k + 1) rest else runsAll lim 0 rest

theorem cleanOpt_none_of_empty (h : Option Str) (he : isEmptyVal h = true) : cleanOpt h = none := by
  cases h with
  | none => rfl
  | some s => simp [isEmptyVal] at he; simp [cleanOpt, he]

theorem cleanOpt_some_of_nonempty (s : Str) (he : isEmptyVal (some s) = false) :
    cleanOpt (some s) = some (cleanHeader s) := by
  simp [isEmptyVal] at he; simp [cleanOpt, he]

theorem headersLoop_spec (lim : Nat) : ∀ (rest : List (Option Str)) (adj : Nat) (pre : List (Option Str))
    (res : List (Option Str) × Nat),
    adj ≤ lim → stripTrailing Option.isNone pre = pre → runsAll lim adj rest = true →
    headersLoop lim adj (pre ++ List.replicate adj none) rest = .ok res →
    trimTrailing res.1 res.2 = stripTrailing Option.isNone (pre ++ List.replicate adj none ++ rest.map cleanOpt)
  | [], adj, pre, res, _, hp, _, h => by
    simp only [headersLoop] at h
    injection h with h; subst h
    simp only [List.map_nil, List.append_nil]
    rw [trimTrailing_append_replicate, stripTrailing_append_all _ _ _ (by
      intro x hx; rw [List.eq_of_mem_replicate hx]; rfl), hp]
  | x :: rest, adj, pre, res, ha, hp, hr, h => by
    unfold runsAll at hr
    unfold headersLoop at h
    split at hr
    · rename_i he
      simp only [he, if_true] at h
      simp only [Bool.and_eq_true, decide_eq_true_eq] at hr
      have hne : ¬ lim = adj := by omega
      simp only [hne, if_false] at h
      have e1 : pre ++ List.replicate adj (none : Option Str) ++ [none] = pre ++ List.replicate (adj + 1) none := by
        rw [List.replicate_succ', List.append_assoc]
      rw [e1] at h
      rw [headersLoop_spec lim rest (adj + 1) pre res (by omega) hp hr.2 h, ← e1,
        List.map_cons, cleanOpt_none_of_empty x he]
      simp
    · rename_i he
      have he' : isEmptyVal x = false := by simpa using he
      simp only [he', Bool.false_eq_true, if_false] at h
      cases x with
      | none => simp [isEmptyVal] at he'
      | some s =>
        simp only at h
        split at h
        · cases h
        · have h0 := headersLoop_spec lim rest 0 (pre ++ List.replicate adj none ++ [some (cleanHeader s)]) res
            (by omega) (stripTrailing_snoc_neg _ _ _ rfl) hr (by simpa using h)
          simp only [List.replicate_zero, List.append_nil] at h0
          rw [h0, List.map_cons, cleanOpt_some_of_nonempty s he']
          simp


/-! ### header cells: interior runs only (a trailing run may be arbitrarily long) -/

/-- every run of empty header cells that is *followed by a non-empty one* has length ≤ `lim` -/
def runsIntH (lim : Nat) : Nat → List (Option Str) → Bool
  | _, [] => true
  | k, h :: rest => if isEmptyVal h then runsIntH lim (k + 1) rest else decide (k ≤ lim) && runsIntH lim 0 rest

theorem runsIntH_all_empty (lim : Nat) : ∀ (rest : List (Option Str)) (k : Nat), lim < k →
    runsIntH lim k rest = true → ∀ h ∈ rest, isEmptyVal h = true
  | [], _, _, _ => by simp
  | r :: rest, k, hk, h => by
    unfold runsIntH at h
    split at h
    · rename_i he
      intro x hx
      simp at hx
      rcases hx with hx | hx
      · subst hx; exact he
      · exact runsIntH_all_empty lim rest (k + 1) (by omega) h x hx
    · simp at h; omega

theorem replicate_append_cons {α} (n : Nat) (a : α) (l : List α) :
    List.replicate n a ++ a :: l = a :: (List.replicate n a ++ l) := by
  induction n with
  | zero => rfl
  | succ n ih => simp [List.replicate_succ, ih]

theorem trimTrailing_break {α} (pre : List α) (n : Nat) (x : α) :
    trimTrailing (pre ++ List.replicate n x ++ [x]) n = pre ++ [x] := by
  have : pre ++ List.replicate n x ++ [x] = (pre ++ [x]) ++ List.replicate n x := by
    rw [List.append_assoc, replicate_append_cons, List.append_nil]; simp
  rw [this, trimTrailing_append_replicate]

/-- The loop of `get_excel_column_headers` when only *interior* runs are bounded: either exactly the
cleaned row without its trailing empties, or — when the loop stopped inside a trailing run longer
than the limit — that list plus one `None` (appended before the limit test), everything beyond
being empty cells. -/
theorem headersLoop_interior (lim : Nat) : ∀ (rest : List (Option Str)) (adj : Nat) (pre : List (Option Str))
    (res : List (Option Str) × Nat),
    adj ≤ lim → stripTrailing Option.isNone pre = pre → runsIntH lim adj rest = true →
    headersLoop lim adj (pre ++ List.replicate adj none) rest = .ok res →
    trimTrailing res.1 res.2 = stripTrailing Option.isNone (pre ++ List.replicate adj none ++ rest.map cleanOpt) ∨
    (trimTrailing res.1 res.2 = stripTrailing Option.isNone (pre ++ List.replicate adj none ++ rest.map cleanOpt) ++ [none] ∧
      ∃ t, pre ++ List.replicate adj none ++ rest.map cleanOpt =
          stripTrailing Option.isNone (pre ++ List.replicate adj none ++ rest.map cleanOpt) ++ none :: t ∧
        ∀ x ∈ t, x = none)
  | [], adj, pre, res, _, hp, _, h => by
    left
    simp only [headersLoop] at h
    injection h with h; subst h
    simp only [List.map_nil, List.append_nil]
    rw [trimTrailing_append_replicate, stripTrailing_append_all _ _ _ (by
      intro x hx; rw [List.eq_of_mem_replicate hx]; rfl), hp]
  | x :: rest, adj, pre, res, ha, hp, hr, h => by
    unfold runsIntH at hr
    unfold headersLoop at h
    split at hr
    · rename_i he
      simp only [he, if_true] at h
      have hx : cleanOpt x = none := cleanOpt_none_of_empty x he
      by_cases hlim : lim = adj
      · -- the break: the `None` was appended, everything that follows is empty
        right
        simp only [hlim, if_true] at h
        injection h with h; subst h
        have hall := runsIntH_all_empty lim rest (adj + 1) (by omega) hr
        have hnone : ∀ y ∈ rest.map cleanOpt, y = none := by
          intro y hy
          rw [List.mem_map] at hy
          obtain ⟨z, hz, rfl⟩ := hy
          exact cleanOpt_none_of_empty z (hall z hz)
        have hS : stripTrailing Option.isNone (pre ++ List.replicate adj none ++ (x :: rest).map cleanOpt) = pre := by
          rw [List.append_assoc, stripTrailing_append_all _ pre _ (by
            intro y hy
            simp only [List.map_cons, hx, List.mem_append, List.mem_cons] at hy
            rcases hy with hy | hy | hy
            · rw [List.eq_of_mem_replicate hy]; rfl
            · rw [hy]; rfl
            · rw [hnone y hy]; rfl), hp]
        rw [hS]
        refine ⟨trimTrailing_break pre adj none, List.replicate adj none ++ rest.map cleanOpt, ?_, ?_⟩
        · simp only [List.map_cons, hx, List.append_assoc, replicate_append_cons]
        · intro y hy
          simp only [List.mem_append] at hy
          rcases hy with hy | hy
          · exact List.eq_of_mem_replicate hy
          · exact hnone y hy
      · simp only [hlim, if_false] at h
        have e1 : pre ++ List.replicate adj (none : Option Str) ++ [none] = pre ++ List.replicate (adj + 1) none := by
          rw [List.replicate_succ', List.append_assoc]
        rw [e1] at h
        have ih := headersLoop_interior lim rest (adj + 1) pre res (by omega) hp hr h
        have e2 : pre ++ List.replicate (adj + 1) none ++ rest.map cleanOpt =
            pre ++ List.replicate adj none ++ (x :: rest).map cleanOpt := by
          rw [← e1, List.map_cons, hx]; simp
        rw [e2] at ih
        exact ih
    · rename_i he
      have he' : isEmptyVal x = false := by simpa using he
      simp only [he', Bool.false_eq_true, if_false] at h
      simp only [Bool.and_eq_true, decide_eq_true_eq] at hr
      cases x with
      | none => simp [isEmptyVal] at he'
      | some s =>
        simp only at h
        split at h
        · cases h
        · have ih := headersLoop_interior lim rest 0 (pre ++ List.replicate adj none ++ [some (cleanHeader s)]) res
            (by omega) (stripTrailing_snoc_neg _ _ _ rfl) hr.2 (by simpa using h)
          simp only [List.replicate_zero, List.append_nil] at ih
          have e2 : pre ++ List.replicate adj none ++ [some (cleanHeader s)] ++ rest.map cleanOpt =
              pre ++ List.replicate adj none ++ (some s :: rest).map cleanOpt := by
            rw [List.map_cons, cleanOpt_some_of_nonempty s he']; simp
          rw [e2] at ih
          exact ih

theorem filterMap_id_all_none (t : List (Option Str)) (h : ∀ x ∈ t, x = none) : t.filterMap id = [] := by
  induction t with
  | nil => rfl
  | cons x t ih =>
    have := h x (by simp)
    subst this
    simpa using ih (fun y hy => h y (by simp [hy]))


/-! ### `PurePath.stem` / `PurePath.suffix` -/

theorem takeWhile_ne_dot_append (l t : Str) (h : '.' ∉ l) : (l ++ '.' :: t).takeWhile (· ≠ '.') = l := by
  induction l with
  | nil => simp
  | cons x l ih =>
    have hx : x ≠ '.' := fun e => h (by simp [e])
    simp only [List.cons_append, List.takeWhile_cons, hx, ne_eq, not_false_eq_true, decide_true, if_true]
    rw [ih (fun hm => h (by simp [hm]))]

theorem dropWhile_ne_dot_append (l t : Str) (h : '.' ∉ l) : (l ++ '.' :: t).dropWhile (· ≠ '.') = '.' :: t := by
  induction l with
  | nil => simp
  | cons x l ih =>
    have hx : x ≠ '.' := fun e => h (by simp [e])
    simp only [List.cons_append, List.dropWhile_cons, hx, ne_eq, not_false_eq_true, decide_true, if_true]
    exact ih (fun hm => h (by simp [hm]))

theorem dropWhile_ne_dot_none (l : Str) (h : '.' ∉ l) : l.dropWhile (· ≠ '.') = [] := by
  induction l with
  | nil => rfl
  | cons x l ih =>
    have hx : x ≠ '.' := fun e => h (by simp [e])
    simp only [List.dropWhile_cons, hx, ne_eq, not_false_eq_true, decide_true, if_true]
    exact ih (fun hm => h (by simp [hm]))

/-- the split is at the *last* dot -/
theorem splitLastDot_append (base ext : Str) (h : '.' ∉ ext) :
    splitLastDot (base ++ '.' :: ext) = some (base, ext) := by
  have hr : (base ++ '.' :: ext).reverse = ext.reverse ++ '.' :: base.reverse := by simp
  have hn : '.' ∉ ext.reverse := by simpa using h
  simp only [splitLastDot, hr, dropWhile_ne_dot_append _ _ hn, takeWhile_ne_dot_append _ _ hn, List.reverse_reverse]

theorem splitLastDot_none (n : Str) (h : '.' ∉ n) : splitLastDot n = none := by
  have hn : '.' ∉ n.reverse := by simpa using h
  simp only [splitLastDot, dropWhile_ne_dot_none _ hn]

theorem dropWhile_cons_decomp (p : Char → Bool) : ∀ (l : Str) (x : Char) (t : Str), l.dropWhile p = x :: t →
    l = l.takeWhile p ++ x :: t ∧ ∀ y ∈ l.takeWhile p, p y = true
  | [], x, t, h => by simp at h
  | a :: l, x, t, h => by
    cases hp : p a with
    | true =>
      simp only [List.dropWhile_cons, hp, if_true] at h
      obtain ⟨h1, h2⟩ := dropWhile_cons_decomp p l x t h
      simp only [List.takeWhile_cons, hp, if_true, List.cons_append]
      refine ⟨by rw [← h1], ?_⟩
      intro y hy
      rcases List.mem_cons.1 hy with hy | hy
      · rw [hy]; exact hp
      · exact h2 y hy
    | false =>
      simp only [List.dropWhile_cons, hp, Bool.false_eq_true, if_false] at h
      simp only [List.takeWhile_cons, hp, Bool.false_eq_true, if_false, List.nil_append]
      exact ⟨h, by simp⟩

theorem dropWhile_head_not (p : Char → Bool) : ∀ (l : Str) (x : Char) (t : Str), l.dropWhile p = x :: t → p x = false
  | [], x, t, h => by simp at h
  | a :: l, x, t, h => by
    cases hp : p a with
    | true =>
      simp only [List.dropWhile_cons, hp, if_true] at h
      exact dropWhile_head_not p l x t h
    | false =>
      simp only [List.dropWhile_cons, hp, Bool.false_eq_true, if_false] at h
      injection h with h1 _
      rw [← h1]; exact hp

theorem splitLastDot_some (n b a : Str) (h : splitLastDot n = some (b, a)) : n = b ++ '.' :: a ∧ '.' ∉ a := by
  unfold splitLastDot at h
  simp only at h
  split at h
  · cases h
  · rename_i x beforeRev hd
    injection h with h
    injection h with hb ha
    have hx := dropWhile_head_not _ _ _ _ hd
    have hx' : x = '.' := by simpa using hx
    obtain ⟨h1, h2⟩ := dropWhile_cons_decomp _ _ _ _ hd
    constructor
    · have : n = (n.reverse).reverse := by simp
      rw [this, h1, hx', ← hb, ← ha]
      simp
    · rw [← ha]
      intro hm
      have := h2 '.' (by simpa using hm)
      simp at this

/-- stem and suffix always partition the name -/
theorem pathStem_append_pathSuffix (n : Str) : pathStem n ++ pathSuffix n = n := by
  unfold pathStem pathSuffix
  cases h : splitLastDot n with
  | none => simp
  | some ba =>
    obtain ⟨b, a⟩ := ba
    simp only
    split
    · simp
    · exact (splitLastDot_some n b a h).1.symm

/-- a name `base.ext` (non-empty base, non-empty dot-free ext): the stem is `base`, whatever `ext` is;
`base` may contain dots itself — only the last suffix goes. -/
theorem pathStem_ext (base ext : Str) (hb : base ≠ []) (he : ext ≠ []) (hd : '.' ∉ ext) :
    pathStem (base ++ '.' :: ext) = base ∧ pathSuffix (base ++ '.' :: ext) = '.' :: ext := by
  have hb' : base.isEmpty = false := by cases base <;> simp_all
  have he' : ext.isEmpty = false := by cases ext <;> simp_all
  simp [pathStem, pathSuffix, splitLastDot_append base ext hd, hb', he']

theorem pathStem_no_dot (n : Str) (h : '.' ∉ n) : pathStem n = n ∧ pathSuffix n = [] := by
  simp [pathStem, pathSuffix, splitLastDot_none n h]

/-- a leading dot does not start a suffix (`.hidden`) -/
theorem pathStem_leading_dot (rest : Str) (h : '.' ∉ rest) :
    pathStem ('.' :: rest) = '.' :: rest ∧ pathSuffix ('.' :: rest) = [] := by
  have := splitLastDot_append [] rest h
  simp only [List.nil_append] at this
  simp [pathStem, pathSuffix, this]

/-- a trailing dot does not start a suffix (`name.`) -/
theorem pathStem_trailing_dot (base : Str) :
    pathStem (base ++ ['.']) = base ++ ['.'] ∧ pathSuffix (base ++ ['.']) = [] := by
  have := splitLastDot_append base [] (by simp)
  simp [pathStem, pathSuffix, this]


/-! ### the final path component -/

theorem takeWhile_ne_slash_append (l t : Str) (h : '/' ∉ l) : (l ++ '/' :: t).takeWhile (· ≠ '/') = l := by
  induction l with
  | nil => simp
  | cons x l ih =>
    have hx : x ≠ '/' := fun e => h (by simp [e])
    simp only [List.cons_append, List.takeWhile_cons, hx, ne_eq, not_false_eq_true, decide_true, if_true]
    rw [ih (fun hm => h (by simp [hm]))]

/-- the directory part — however long, with dots, spaces, any characters — does not matter -/
theorem pathName_join (dir name : Str) (h : '/' ∉ name) : pathName (dir ++ '/' :: name) = name := by
  have hr : (dir ++ '/' :: name).reverse = name.reverse ++ '/' :: dir.reverse := by simp
  have hn : '/' ∉ name.reverse := by simpa using h
  simp only [pathName, hr, takeWhile_ne_slash_append _ _ hn, List.reverse_reverse]

theorem takeWhile_ne_slash_all (l : Str) (h : '/' ∉ l) : l.takeWhile (· ≠ '/') = l := by
  induction l with
  | nil => rfl
  | cons x l ih =>
    have hx : x ≠ '/' := fun e => h (by simp [e])
    simp only [List.takeWhile_cons, hx, ne_eq, not_false_eq_true, decide_true, if_true]
    rw [ih (fun hm => h (by simp [hm]))]

theorem pathName_no_slash (name : Str) (h : '/' ∉ name) : pathName name = name := by
  have hn : '/' ∉ name.reverse := by simpa using h
  simp only [pathName, takeWhile_ne_slash_all _ hn, List.reverse_reverse]

end Pyxv.Backends
