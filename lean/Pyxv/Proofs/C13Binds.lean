import Pyxv.Model.Binds
/-!
# C13 — type spellings one layer further: the bind list (`Binds.formBinds` → `Binds.bindsOfRows`)

`Binds.formBinds` (the model of C05: header row + raw rows ↦ `process_row` ↦ row loop ↦ meta block ↦
`bindsOfRows` ↦ the `<bind>` elements with their attribute values) reads the type cell of a row only
through `Binds.dealiasType`.  Hence retyping the type cell of ANY rows of the sheet to spellings with the
same de-aliased type leaves the whole result — every bind, its path, its attributes and their values, or
the same `unsupported` / duplicate-header answer — identical (`formBinds_retype`).
-/
namespace Pyxv.C13
open Pyxv Pyxv.Binds

/-- two lists related position by position -/
inductive All2 {α} (R : α → α → Prop) : List α → List α → Prop
  | nil : All2 R [] []
  | cons {a b l l'} : R a b → All2 R l l' → All2 R (a :: l) (b :: l')

/-- two processed rows that differ at most in the spelling of the type cell -/
def TyRel (r r' : PRow) : Prop :=
  ({ r with type := none } : PRow) = { r' with type := none } ∧
  r.type.map dealiasType = r'.type.map dealiasType

def ExRel : Except String PRow → Except String PRow → Prop
  | .error e, .error e' => e = e'
  | .ok r, .ok r' => TyRel r r'
  | _, _ => False

theorem TyRel.refl (r : PRow) : TyRel r r := ⟨rfl, rfl⟩

theorem tyrel_iff (r r' : PRow) : TyRel r r' ↔
    r' = { r with type := r'.type } ∧ r.type.map dealiasType = r'.type.map dealiasType := by
  obtain ⟨ty, nm, tr, pa, di, de, co, ap, cf, hl, hh, bi, ke⟩ := r
  obtain ⟨ty', nm', tr', pa', di', de', co', ap', cf', hl', hh', bi', ke'⟩ := r'
  simp only [TyRel, PRow.mk.injEq, true_and]
  constructor
  · rintro ⟨⟨rfl, rfl, rfl, rfl, rfl, rfl, rfl, rfl, rfl, rfl, rfl, rfl⟩, h⟩; exact ⟨⟨rfl, rfl, rfl, rfl, rfl, rfl, rfl, rfl, rfl, rfl, rfl, rfl⟩, h⟩
  · rintro ⟨⟨rfl, rfl, rfl, rfl, rfl, rfl, rfl, rfl, rfl, rfl, rfl, rfl⟩, h⟩; exact ⟨⟨rfl, rfl, rfl, rfl, rfl, rfl, rfl, rfl, rfl, rfl, rfl, rfl⟩, h⟩

/-- the same row with another type cell -/
def withType (x : Option Str) (r : PRow) : PRow := { r with type := x }

def mapOk (f : PRow → PRow) : Except String PRow → Except String PRow
  | .ok r => .ok (f r)
  | .error e => .error e

theorem stepScalar_withType (x : Option Str) (r : PRow) (k v : Str) (hk : k ≠ "type".toList) :
    stepScalar (withType x r) k v = mapOk (withType x) (stepScalar r k v) := by
  unfold stepScalar
  simp only [hk, if_false]
  by_cases h0 : k = "disabled".toList
  · subst h0; simp [mapOk, withType]
  · simp only [h0, if_false]
    repeat' split
    all_goals rfl

theorem stepScalar_type (x : Option Str) (r : PRow) (v : Str) :
    stepScalar (withType x r) "type".toList v = .ok (withType (some v) { r with keys := r.keys + 1 }) := by
  unfold stepScalar
  have : ("type".toList = "disabled".toList) = False := by decide
  simp [this, withType]

theorem stepBindCell_withType (dl : Str) (x : Option Str) (r : PRow) (a : Str) (rest : List Str) (v : Str) :
    stepBindCell dl (withType x r) a rest v = mapOk (withType x) (stepBindCell dl r a rest v) := by
  unfold stepBindCell
  simp only [withType]
  repeat' split
  all_goals rfl

theorem stepOther_withType (x : Option Str) (r : PRow) (k a : Str) (rest : List Str) (v : Str) :
    stepOther (withType x r) k a rest v = mapOk (withType x) (stepOther r k a rest v) := by
  unfold stepOther
  simp only [withType]
  repeat' split
  all_goals rfl

theorem exrel_mapOk (x y : Option Str) (h : x.map dealiasType = y.map dealiasType) (e : Except String PRow) :
    ExRel (mapOk (withType x) e) (mapOk (withType y) e) := by
  cases e with
  | error e => simp [mapOk, ExRel]
  | ok r => exact ⟨rfl, h⟩

/-- a cell that is not retyped keeps two rows related -/
theorem stepTokens_tyrel (dl : Str) (r r' : PRow) (h : TyRel r r') (v : Str) (toks : List Str) :
    ExRel (stepTokens dl r v toks) (stepTokens dl r' v toks) := by
  rw [tyrel_iff] at h
  obtain ⟨h1, h2⟩ := h
  have e1 : r = withType r.type r := rfl
  have e2 : r' = withType r'.type r := h1
  rw [e2]
  conv => lhs; rw [e1]
  match toks with
  | [] => simp [stepTokens, ExRel]
  | [k] =>
    simp only [stepTokens]
    by_cases hk : k = "type".toList
    · subst hk; rw [stepScalar_type, stepScalar_type]; exact ⟨rfl, rfl⟩
    · rw [stepScalar_withType _ _ _ _ hk, stepScalar_withType _ _ _ _ hk]; exact exrel_mapOk _ _ h2 _
  | k :: a :: rest =>
    simp only [stepTokens]
    split
    · rw [stepBindCell_withType, stepBindCell_withType]; exact exrel_mapOk _ _ h2 _
    · rw [stepOther_withType, stepOther_withType]; exact exrel_mapOk _ _ h2 _

/-- the type cell retyped to a spelling with the same de-aliased type -/
theorem stepTokens_retype (dl : Str) (r r' : PRow) (h : TyRel r r') (v v' : Str)
    (hv : dealiasType v = dealiasType v') :
    ExRel (stepTokens dl r v ["type".toList]) (stepTokens dl r' v' ["type".toList]) := by
  rw [tyrel_iff] at h
  obtain ⟨h1, _⟩ := h
  have e1 : r = withType r.type r := rfl
  have e2 : r' = withType r'.type r := h1
  rw [e2]
  conv => lhs; rw [e1]
  simp only [stepTokens]
  rw [stepScalar_type, stepScalar_type]
  exact ⟨rfl, by simp [withType, hv]⟩

/-- two raw cells: the same, or two spellings of the type under a header that is the `type` column -/
def CellRel (key : List (Str × List Str)) (c c' : Str × Str) : Prop :=
  c = c' ∨ (c.1 = c'.1 ∧ lookup c.1 key = some ["type".toList] ∧
    (cleanCell c.2).isEmpty = false ∧ (cleanCell c'.2).isEmpty = false ∧
    refsSimple none (cleanCell c.2) = true ∧ refsSimple none (cleanCell c'.2) = true ∧
    dealiasType (cleanCell c.2) = dealiasType (cleanCell c'.2))

theorem stepCell_rel (dl : Str) (key : List (Str × List Str)) (r r' : PRow) (h : TyRel r r')
    (c c' : Str × Str) (hc : CellRel key c c') :
    ExRel (stepCell dl key r c.1 c.2) (stepCell dl key r' c'.1 c'.2) := by
  rcases hc with rfl | ⟨hh, hk, n1, n2, s1, s2, hd⟩
  · unfold stepCell
    simp only
    split
    · simp [ExRel]
    · split
      · simp [ExRel]
      · split
        · simp [ExRel]
        · exact stepTokens_tyrel dl r r' h _ _
  · unfold stepCell
    simp only [← hh, hk, n1, n2, s1, s2, Bool.false_eq_true, if_false, Bool.not_true]
    exact stepTokens_retype dl r r' h _ _ hd

theorem processRow_rel (dl : Str) (key : List (Str × List Str)) (cells cells' : List (Str × Str))
    (hc : All2 (CellRel key) cells cells') : ∀ (r r' : PRow), TyRel r r' →
    ExRel (processRow dl key r cells) (processRow dl key r' cells') := by
  induction hc with
  | nil => intro r r' h; simpa [processRow, ExRel] using h
  | @cons c c' cs cs' h1 _ ih =>
    intro r r' h
    obtain ⟨ch, cv⟩ := c
    obtain ⟨ch', cv'⟩ := c'
    have hs := stepCell_rel dl key r r' h (ch, cv) (ch', cv') h1
    simp only [processRow]
    revert hs
    cases stepCell dl key r ch cv <;> cases stepCell dl key r' ch' cv' <;> simp only [ExRel]
    · intro e; exact e
    · intro e; exact e.elim
    · intro e; exact e.elim
    · intro e; exact ih _ _ e

theorem classifyNamed_withType (lists : List Str) (n : Nat) (tl : TL) (x : Option Str) (r : PRow)
    (ps : List (Str × Str)) (t nm : Str) :
    classifyNamed lists n tl (withType x r) ps t nm = classifyNamed lists n tl r ps t nm := by
  unfold classifyNamed
  rfl

theorem auditOf_tyrel (r r' : PRow) (h : TyRel r r') : auditOf r = auditOf r' := by
  rw [tyrel_iff] at h
  obtain ⟨h1, h2⟩ := h
  have e2 : r' = withType r'.type r := h1
  rw [e2]
  generalize r'.type = y at *
  unfold auditOf
  simp only [withType]
  cases hx : r.type with
  | none => cases y with
    | none => rfl
    | some t' => simp [hx] at h2
  | some t => cases y with
    | none => simp [hx] at h2
    | some t' =>
      simp only [hx, Option.map_some, Option.some.injEq] at h2
      simp only [h2]
      first | rfl | (simp only [hx]) | (rw [hx])

theorem classify_tyrel (lists : List Str) (n : Nat) (tl : TL) (r r' : PRow) (h : TyRel r r') :
    classify lists n tl r = classify lists n tl r' := by
  have ha := auditOf_tyrel r r' h
  rw [tyrel_iff] at h
  obtain ⟨h1, h2⟩ := h
  have e2 : r' = withType r'.type r := h1
  rw [e2] at ha ⊢
  generalize r'.type = y at *
  unfold classify
  rw [← ha]
  simp only [classifyNamed_withType]
  simp only [withType]
  cases hx : r.type with
  | none => cases y with
    | none => rfl
    | some t' => simp [hx] at h2
  | some t => cases y with
    | none => simp [hx] at h2
    | some t' =>
      simp only [hx, Option.map_some, Option.some.injEq] at h2
      simp only [h2]
      first | rfl | (simp only [hx]) | (rw [hx])

theorem rowRKs_rel (dl : Str) (key : List (Str × List Str)) (lists : List Str) (n : Nat) (tl : TL)
    (cells cells' : List (Str × Str)) (hc : All2 (CellRel key) cells cells') :
    rowRKs dl key lists n tl cells = rowRKs dl key lists n tl cells' := by
  have h := processRow_rel dl key cells cells' hc {} {} (TyRel.refl _)
  unfold rowRKs
  revert h
  cases processRow dl key {} cells <;> cases processRow dl key {} cells' <;> simp only [ExRel]
  · intro e; rw [e]
  · intro e; exact e.elim
  · intro e; exact e.elim
  · intro e; rw [classify_tyrel lists n tl _ _ e]

theorem processRows_rel (dl : Str) (key : List (Str × List Str)) (lists : List Str)
    (rows rows' : List (List (Str × Str))) (hr : All2 (All2 (CellRel key)) rows rows') :
    ∀ n tl, processRows dl key lists n tl rows = processRows dl key lists n tl rows' := by
  induction hr with
  | nil => intro n tl; rfl
  | cons h1 _ ih =>
    intro n tl
    simp only [processRows]
    rw [rowRKs_rel dl key lists n tl _ _ h1]
    split
    · rfl
    · rw [ih]

theorem metaOfRows_rel (dl : Str) (key : List (Str × List Str))
    (rows rows' : List (List (Str × Str))) (hr : All2 (All2 (CellRel key)) rows rows') :
    metaOfRows dl key rows = metaOfRows dl key rows' := by
  induction hr with
  | nil => rfl
  | @cons c c' _ _ h1 _ ih =>
    have h := processRow_rel dl key c c' h1 {} {} (TyRel.refl _)
    simp only [metaOfRows]
    rw [ih]
    revert h
    cases processRow dl key {} c <;> cases processRow dl key {} c' <;> simp only [ExRel]
    · intro e; rw [e]
    · intro e; exact e.elim
    · intro e; exact e.elim
    · intro e; rw [auditOf_tyrel _ _ e]

/-- **Type spellings do not move the binds** (`formOut_retype` one layer further, through
    `Binds.bindsOfRows`): retyping the type cells of any rows of the survey sheet to spellings with the
    same `dealias_types` image (both cells non-blank after cleaning and free of `${…}` shapes the bind
    model does not read, as every type cell is) leaves `Binds.formBinds` — every `<bind>` element with
    its path, attributes and values, or the same `unsupported` / duplicate-header answer — identical. -/
theorem formBinds_retype (root dl : Str) (lists headers : List Str) (rows rows' : List (List (Str × Str)))
    (hr : ∀ key, headerKey headers = .ok key → All2 (All2 (CellRel key)) rows rows') :
    formBinds root dl lists headers rows' = formBinds root dl lists headers rows := by
  unfold formBinds
  split
  · rfl
  · cases hk : headerKey headers with
    | error e => cases e <;> rfl
    | ok key =>
      have h := hr key hk
      simp only [processRows_rel dl key lists rows rows' h, metaOfRows_rel dl key rows rows' h]

/-- non-vacuity: `image` / `photo` under the header `Type` (the `type` column of the computed header key) are
    related cells, and both sheets give two binds (the question with `type="binary"`, and `instanceID`) -/
example : CellRel [("Type".toList, ["type".toList]), ("name".toList, ["name".toList])]
    ("Type".toList, " image".toList) ("Type".toList, "add photo  prompt".toList) := by
  refine Or.inr ⟨rfl, by decide +kernel, by decide +kernel, by decide +kernel, by decide +kernel, by decide +kernel, by decide +kernel⟩

example : (["image", "photo", "add photo prompt"].all fun ty =>
    match formBinds "data".toList "default".toList [] ["Type".toList, "name".toList, "label".toList]
      [[("Type".toList, ty.toList), ("name".toList, "a".toList), ("label".toList, "L".toList)]] with
    | .ok [b, _] => b.attrs.contains ("type".toList, "binary".toList)
    | _ => false) = true := by
  decide +kernel

end Pyxv.C13
