import Pyxv.Model.ReservedAttrs
/-!
# C17 — `action::ref`, `body::ref`, `body::nodeset` are rejected naming the row's element (00e7042, f98d556)

For every other content of the sheet (`pre`, `post` arbitrary): the sheet is never accepted, and the error names the
offending row's element whenever no earlier row offends in the same generator (and, for body attributes, no action
offends anywhere — actions are generated first).
-/
namespace Pyxv.C17
open Pyxv Pyxv.Reserved

theorem findSome_append_some {α β} (f : α → Option β) (pre post : List α) (x : α) (b : β) (hx : f x = some b)
    (hpre : ∀ y ∈ pre, f y = none) : (pre ++ x :: post).findSome? f = some b := by
  induction pre with
  | nil => simp [List.findSome?, hx]
  | cons p ps ih =>
    have hp : f p = none := hpre p (by simp)
    simp only [List.cons_append, List.findSome?, hp]
    exact ih (fun y hy => hpre y (by simp [hy]))

theorem findSome_isSome_of_mem {α β} (f : α → Option β) (l : List α) (x : α) (b : β) (hm : x ∈ l) (hx : f x = some b) :
    (l.findSome? f).isSome = true := by
  induction l with
  | nil => simp at hm
  | cons p ps ih =>
    simp only [List.findSome?]
    cases hp : f p with
    | some c => rfl
    | none =>
      rcases List.mem_cons.1 hm with e | hm'
      · subst e; rw [hx] at hp; cases hp
      · exact ih hm'

/-- **any** offending row makes the sheet rejected, whatever else it contains -/
theorem reserved_attr_never_accepted (pre post : List View) (v : View)
    (h : (actionOffender v).isSome = true ∨ (bodyOffender v).isSome = true) :
    (check (pre ++ v :: post)).isSome = true := by
  unfold check
  cases ha : (pre ++ v :: post).findSome? actionOffender with
  | some e => rfl
  | none =>
    simp only []
    rcases h with h | h
    · obtain ⟨e, he⟩ := Option.isSome_iff_exists.1 h
      have := findSome_isSome_of_mem actionOffender (pre ++ v :: post) v e (by simp) he
      rw [ha] at this; cases this
    · obtain ⟨e, he⟩ := Option.isSome_iff_exists.1 h
      exact findSome_isSome_of_mem bodyOffender (pre ++ v :: post) v e (by simp) he

/-- **action::ref** on an element with an action: rejected naming that element, unless an earlier action row offends -/
theorem action_ref_rejected (pre post : List View) (v : View) (ha : v.hasAction = true) (hr : v.actionRef = true)
    (hpre : ∀ y ∈ pre, actionOffender y = none) :
    check (pre ++ v :: post) = some (.action v.name "ref") := by
  unfold check
  have hv : actionOffender v = some (.action v.name "ref") := by simp [actionOffender, ha, hr]
  rw [findSome_append_some actionOffender pre post v _ hv hpre]

/-- **body::ref** on a question that renders a control: rejected naming the question, when no action offends anywhere
    in the sheet and no earlier row has a reserved body attribute -/
theorem body_ref_question_rejected (pre post : List View) (v : View) (hk : v.kind = .question true) (hr : v.bodyRef = true)
    (hact : ∀ y ∈ pre ++ v :: post, actionOffender y = none) (hpre : ∀ y ∈ pre, bodyOffender y = none) :
    check (pre ++ v :: post) = some (.body v.name "ref") := by
  unfold check
  have hnone : (pre ++ v :: post).findSome? actionOffender = none := by
    rw [List.findSome?_eq_none_iff]; exact hact
  rw [hnone]
  simp only []
  have hv : bodyOffender v = some (.body v.name "ref") := by simp [bodyOffender, hk, hr]
  exact findSome_append_some bodyOffender pre post v _ hv hpre

/-- **body::nodeset / body::ref on a repeat**: `nodeset` is reported first -/
theorem body_attr_repeat_rejected (pre post : List View) (v : View) (hk : v.kind = .rep)
    (hr : v.bodyNodeset = true ∨ v.bodyRef = true)
    (hact : ∀ y ∈ pre ++ v :: post, actionOffender y = none) (hpre : ∀ y ∈ pre, bodyOffender y = none) :
    check (pre ++ v :: post) = some (.body v.name (if v.bodyNodeset then "nodeset" else "ref")) := by
  unfold check
  have hnone : (pre ++ v :: post).findSome? actionOffender = none := by
    rw [List.findSome?_eq_none_iff]; exact hact
  rw [hnone]
  simp only []
  have hv : bodyOffender v = some (.body v.name (if v.bodyNodeset then "nodeset" else "ref")) := by
    unfold bodyOffender
    rw [hk]
    rcases hr with h | h
    · simp [h]
    · cases hn : v.bodyNodeset <;> simp [h]
  exact findSome_append_some bodyOffender pre post v _ hv hpre

/-- groups (and questions without a control) may carry the cells: they are dropped, not rejected -/
theorem body_ref_group_ignored (v : View) (hk : v.kind = .group ∨ v.kind = .question false ∨ v.kind = .other) :
    bodyOffender v = none := by
  unfold bodyOffender
  rcases hk with h | h | h <;> rw [h]

/-- conversely, an accepted sheet has no such cell on an element that uses it -/
theorem check_none_iff (vs : List View) :
    check vs = none ↔ (∀ v ∈ vs, actionOffender v = none) ∧ (∀ v ∈ vs, bodyOffender v = none) := by
  unfold check
  constructor
  · intro h
    cases ha : vs.findSome? actionOffender with
    | some e => rw [ha] at h; cases h
    | none =>
      rw [ha] at h
      exact ⟨List.findSome?_eq_none_iff.1 ha, List.findSome?_eq_none_iff.1 h⟩
  · rintro ⟨h1, h2⟩
    rw [List.findSome?_eq_none_iff.2 h1]
    exact List.findSome?_eq_none_iff.2 h2

/-! ### Non-vacuity (rows of `Pyxv.Rows` through `viewOf`) -/
def cc2 (k v : String) : Str × Str := (k.toList, v.toList)
def qd (n : String) (ctl : Bool) : Form.QData := { name := n.toList, bind := true, control := ctl, node := true }

def exViews : List View :=
  [viewOf [cc2 "type" "text", cc2 "name" "a", cc2 "label" "A"] (.q (qd "a" true) none),
   viewOf [cc2 "type" "begin group", cc2 "name" "g", cc2 "control::ref" "/x"] (.begin_ .group "g".toList false none),
   viewOf [cc2 "type" "text", cc2 "name" "b", cc2 "label" "B", cc2 "control::ref" "/data/else"] (.q (qd "b" true) none),
   viewOf [cc2 "type" "begin repeat", cc2 "name" "r", cc2 "control::nodeset" "/x", cc2 "control::ref" "/y"]
     (.begin_ .rep "r".toList false none),
   viewOf [cc2 "type" "background-audio", cc2 "name" "rec", cc2 "action::ref" "/data/else"] (.q (qd "rec" false) none)]

-- the action row (last) is reported first; without it the question `b`; the group's `body::ref` is ignored
example : check exViews = some (.action "rec".toList "ref") := by decide +kernel
example : check (exViews.take 4) = some (.body "b".toList "ref") := by decide +kernel
example : check ((exViews.take 2) ++ (exViews.drop 3).take 1) = some (.body "r".toList "nodeset") := by decide +kernel
example : check (exViews.take 2) = none := by decide +kernel

end Pyxv.C17
