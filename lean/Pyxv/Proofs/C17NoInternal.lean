import Pyxv.Model.RowLoopEnv
/-!
# C17 — `no_internal` for the row loop with explicit partial operations
-/
namespace Pyxv.RowLoop
open Pyxv

/-- the computation does not end in an internal exception -/
def NoInt {α} (m : M α) : Prop := ∀ c s, m ≠ .error (.internal c s)

theorem noInt_pure {α} (a : α) : NoInt (pure a : M α) := by intro c s h; cases h
theorem noInt_ok {α} (a : α) : NoInt (.ok a : M α) := by intro c s h; cases h
theorem noInt_reject {α} (w : String) : NoInt (throw (.reject w) : M α) := by
  intro c s h; cases h
theorem noInt_reject' {α} (w : String) : NoInt (.error (.reject w) : M α) := by
  intro c s h; cases h

theorem noInt_bind {α β} (m : M α) (f : α → M β) (hm : NoInt m) (hf : ∀ a, m = .ok a → NoInt (f a)) :
    NoInt (m >>= f) := by
  intro c s h
  cases hm' : m with
  | error e =>
    rw [hm'] at h
    simp only [bind, Except.bind] at h
    injection h with h
    exact hm c s (by rw [hm', h])
  | ok a =>
    rw [hm'] at h
    simp only [bind, Except.bind] at h
    exact hf a hm' c s h

theorem strCell_noInt (site cls : String) (r : TRow) (key : String) (h : cellIsStr r key = true) :
    NoInt (strCell site cls r key) := by
  intro c s
  unfold strCell
  unfold cellIsStr at h
  split <;> simp_all

theorem dictCell_noInt (site : String) (r : TRow) (key : String) (h : cellIsDict r key = true) :
    NoInt (dictCell site r key) := by
  intro c s
  unfold dictCell
  unfold cellIsDict at h
  split <;> simp_all

theorem dictCell_eq (site : String) (r : TRow) (key : String) (d : List (Str × Val))
    (h : dictCell site r key = .ok d) :
    lookup (k key) r = some (.dict d) ∨ (lookup (k key) r = none ∧ d = []) := by
  unfold dictCell at h
  split at h
  · right; injection h with h; exact ⟨by assumption, h.symm⟩
  · left; injection h with h; subst h; assumption
  · cases h

theorem subStr_noInt (site cls : String) (r : TRow) (key sub : String) (d : List (Str × Val))
    (hd : dictCell site r key = .ok d) (h : subIsStr r key sub = true) :
    NoInt (subStr site cls d sub) := by
  intro c s
  unfold subStr
  unfold subIsStr at h
  rcases dictCell_eq site r key d hd with h1 | ⟨h1, h2⟩
  · rw [h1] at h
    split <;> simp_all
  · subst h2; simp [lookup]

theorem rejectIf_noInt (c : Bool) (w : String) : NoInt (rejectIf c w) := by
  intro c' s h; unfold rejectIf at h; cases c <;> simp at h

theorem crashIf_noInt (c : Bool) (cls site : String) (h : c = false) : NoInt (crashIf c cls site) := by
  intro c' s h'; subst h; simp [crashIf] at h'

theorem noInt_ite {α} {c : Prop} [Decidable c] {a b : M α} (ha : NoInt a) (hb : NoInt b) :
    NoInt (if c then a else b) := by
  by_cases h : c
  · rw [if_pos h]; exact ha
  · rw [if_neg h]; exact hb

/-- `rejectIf c w >>= fun _ => m` -/
theorem noInt_rej {α} (c : Bool) (w : String) (m : Unit → M α) (h : NoInt (m ())) :
    NoInt (rejectIf c w >>= m) :=
  noInt_bind _ _ (rejectIf_noInt c w) (fun _ _ => h)

theorem noInt_crash {α} (c : Bool) (cls site : String) (m : Unit → M α) (hc : c = false) (h : NoInt (m ())) :
    NoInt (crashIf c cls site >>= m) :=
  noInt_bind _ _ (crashIf_noInt c cls site hc) (fun _ _ => h)

theorem saveTo_noInt (env : Env) (sh : Sheets) (r : TRow) (t : Str) (inRep : Bool)
    (h1 : cellIsDict r "bind" = true) (h2 : subIsStr r "bind" "entities:saveto" = true) :
    NoInt (saveTo env sh r t inRep) := by
  unfold saveTo
  refine noInt_bind _ _ (dictCell_noInt _ r "bind" h1) (fun d hd => ?_)
  have hv : ∀ v, lookup (k "entities:saveto") d = some v → v.isStr = true := by
    intro v hv
    rcases dictCell_eq _ r "bind" d hd with hb | ⟨_, hd0⟩
    · unfold subIsStr at h2
      rw [hb] at h2
      simp only [] at h2
      rw [hv] at h2
      cases v with
      | str _ => rfl
      | dict _ => simp at h2
    · subst hd0; simp [lookup] at hv
  cases hl : lookup (k "entities:saveto") d with
  | none => exact noInt_ok ()
  | some v =>
    unfold saveToVal
    refine noInt_rej _ _ _ (noInt_rej _ _ _ (noInt_rej _ _ _ (noInt_crash _ _ _ _ ?_ (rejectIf_noInt _ _))))
    rw [hv v hl]; rfl

theorem beginRow_noInt (env : Env) (r : TRow) (ct : Ctl) (st : St)
    (h1 : cellIsDict r "bind" = true) (h3 : cellIsDict r "control" = true)
    (h5 : subIsStr r "control" "appearance" = true) :
    NoInt (beginRow env r ct st) := by
  unfold beginRow
  refine noInt_bind _ _ (dictCell_noInt _ r "bind" h1) (fun _ _ => ?_)
  refine noInt_bind _ _ (dictCell_noInt _ r "control" h3) (fun cd hcd => ?_)
  refine noInt_rej _ _ _ ?_
  refine noInt_bind _ _ (subStr_noInt _ _ r "control" "appearance" cd hcd h5) (fun _ _ => ?_)
  exact noInt_ok _

theorem strCell_isNone (site cls : String) (r : TRow) (key : String) (v : Option Str)
    (h : strCell site cls r key = .ok v) : v.isNone = (lookup (k key) r).isNone := by
  unfold strCell at h
  split at h
  · injection h with h; subst h; simp_all
  · injection h with h; subst h; simp_all
  · cases h

theorem tableListStep_noInt (sh : Sheets) (r : TRow) (ln : Str) (f : Bool) (st : St) (tl : TL)
    (hc : cellIsDict r "control" = true) :
    NoInt (tableListStep sh r ln f st tl) := by
  have hc' : (!cellIsDict r "control") = false := by rw [hc]; rfl
  cases tl with
  | off => exact noInt_ok _
  | named l0 => exact noInt_rej _ _ _ (noInt_crash _ _ _ _ hc' (noInt_ok _))
  | pending => exact noInt_rej _ _ _ (noInt_rej _ _ _ (noInt_crash _ _ _ _ hc' (noInt_ok _)))

theorem selectRow_noInt (env : Env) (sh : Sheets) (r : TRow) (params sel ln : Str) (other : Bool) (st : St)
    (hc : cellIsDict r "control" = true)
    (h2 : ((lookup (k "choice_filter") r).isNone && !(env.randomize params || env.fileExt ln || env.hasRef ln)
            && !sh.choices.contains ln) = false) :
    NoInt (selectRow env sh r params sel ln other st) := by
  unfold selectRow
  have e : (!(lookup (k "choice_filter") r).isSome) = (lookup (k "choice_filter") r).isNone := by
    cases lookup (k "choice_filter") r <;> rfl
  refine noInt_rej _ _ _ (noInt_rej _ _ _ (noInt_rej _ _ _ (noInt_rej _ _ _ (noInt_rej _ _ _ (noInt_rej _ _ _
    (noInt_rej _ _ _ (noInt_rej _ _ _ (noInt_crash _ _ _ _ ?_ (tableListStep_noInt sh r ln _ st _ hc)))))))))
  rw [e]; exact h2

/-- since 6eb0107 the osm branch has no partial operation left -/
theorem osmRow_noInt (sh : Sheets) (st : St) (tags : Option (List Str)) (oln : Option Str) :
    NoInt (osmRow sh st tags oln) := by
  cases tags with
  | none => cases oln <;> exact noInt_ok _
  | some ts =>
    cases oln with
    | none => exact noInt_ok _
    | some ln => exact noInt_rej _ _ _ (noInt_ok _)

theorem questionRow_noInt (env : Env) (r : TRow) (t params : Str) (st : St)
    (h1 : cellIsDict r "control" = true) (h3 : cellIsStr r "trigger" = true) :
    NoInt (questionRow env r t params st) := by
  unfold questionRow
  refine noInt_ite ?_ (noInt_ite ?_ ?_)
  · refine noInt_bind _ _ (noInt_ite (dictCell_noInt _ r "control" h1) (noInt_ok _)) (fun _ _ => ?_)
    exact noInt_rej _ _ _ (noInt_ok _)
  · refine noInt_bind _ _ (strCell_noInt _ _ r "trigger" h3) (fun _ _ => ?_)
    exact noInt_rej _ _ _ (noInt_rej _ _ _ (noInt_ok _))
  · exact noInt_rej _ _ _ (noInt_ok _)

theorem calcCheck_noInt (env : Env) (r : TRow) (t : Str)
    (h1 : cellIsDict r "bind" = true) : NoInt (calcCheck env r t) := by
  unfold calcCheck
  refine noInt_ite ?_ (noInt_ok _)
  refine noInt_bind _ _ (dictCell_noInt _ r "bind" h1) (fun _ _ => ?_)
  exact rejectIf_noInt _ _

theorem endRow_noInt (ct : Ctl) (st : St) : NoInt (endRow ct st) := by
  unfold endRow
  cases st.stack with
  | nil => exact noInt_reject' _
  | cons _ _ => exact noInt_rej _ _ _ (noInt_ok _)

def paramsOf (r : TRow) : Str := match lookup (k "parameters") r with | some (.str p) => p | _ => []

theorem strCell_getD (site cls : String) (r : TRow) (ps : Option Str)
    (h : strCell site cls r "parameters" = .ok ps) : ps.getD [] = paramsOf r := by
  unfold strCell at h
  unfold paramsOf
  split at h
  · injection h with h; subst h; simp_all
  · injection h with h; subst h; simp_all
  · cases h

/-- the pieces of `shapeOk` -/
theorem shapeOk_parts (r : TRow) (h : shapeOk r = true) :
    (cellIsStr r "disabled" = true ∧ cellIsStr r "type" = true ∧ cellIsStr r "parameters" = true ∧
     cellIsStr r "trigger" = true) ∧
    (cellIsDict r "bind" = true ∧ cellIsDict r "control" = true) ∧
    (subIsStr r "bind" "entities:saveto" = true ∧ subIsStr r "control" "appearance" = true) := by
  unfold shapeOk at h
  simp only [Bool.and_eq_true] at h
  obtain ⟨⟨⟨⟨⟨⟨⟨a, b⟩, c⟩, d⟩, e⟩, f⟩, g⟩, i⟩ := h
  exact ⟨⟨a, b, c, d⟩, ⟨e, f⟩, ⟨g, i⟩⟩

theorem namedRow_noInt (env : Env) (sh : Sheets) (r : TRow) (t : Str) (st : St)
    (hs : shapeOk r = true) (ht : lookup (k "type") r = some (.str t))
    (hl : listsOk env sh r = true) :
    NoInt (namedRow env sh r t (paramsOf r) st) := by
  obtain ⟨⟨_, _, _, htr⟩, ⟨hb, hc⟩, ⟨hbs, hca⟩⟩ := shapeOk_parts r hs
  unfold listsOk at hl
  rw [ht] at hl
  dsimp only at hl
  unfold namedRow
  refine noInt_rej _ _ _ ?_
  refine noInt_bind _ _ (saveTo_noInt env sh r t _ hb hbs) (fun _ _ => ?_)
  cases hbg : env.beginCtl t with
  | some ct => exact beginRow_noInt env r ct st hb hc hca
  | none =>
    cases hse : env.select t with
    | some p =>
      obtain ⟨sel, ln, other⟩ := p
      rw [hse] at hl
      simp only [Bool.not_eq_true'] at hl
      exact selectRow_noInt env sh r _ sel ln other st hc hl
    | none =>
      cases hos : env.osm t with
      | some oln => exact osmRow_noInt sh st sh.osm oln
      | none => exact questionRow_noInt env r t _ st hc htr

theorem typedRow_noInt (env : Env) (sh : Sheets) (r : TRow) (t : Str) (st : St)
    (hs : shapeOk r = true) (ht : lookup (k "type") r = some (.str t))
    (hl : listsOk env sh r = true) :
    NoInt (typedRow env sh r t st) := by
  obtain ⟨⟨_, _, hp, _⟩, ⟨hb, _⟩, _⟩ := shapeOk_parts r hs
  unfold typedRow
  refine noInt_bind _ _ (strCell_noInt _ _ r "parameters" hp) (fun ps hps => ?_)
  refine noInt_rej _ _ _ ?_
  refine noInt_ite (noInt_rej _ _ _ (noInt_ok _)) ?_
  refine noInt_bind _ _ (calcCheck_noInt env r t hb) (fun _ _ => ?_)
  refine noInt_ite (noInt_ok _) ?_
  cases he : env.endCtl t with
  | some ct => exact endRow_noInt ct st
  | none =>
    rw [strCell_getD _ _ r ps hps]
    exact namedRow_noInt env sh r t st hs ht hl

theorem rowBody_noInt (env : Env) (sh : Sheets) (r : TRow) (st : St)
    (hs : shapeOk r = true) (hl : listsOk env sh r = true) :
    NoInt (rowBody env sh r st) := by
  have hty := (shapeOk_parts r hs).1.2.1
  unfold rowBody
  refine noInt_ite (noInt_ok _) ?_
  refine noInt_bind _ _ (strCell_noInt _ _ r "type" hty) (fun ty hty' => ?_)
  cases ty with
  | none => exact noInt_rej _ _ _ (noInt_ok _)
  | some t =>
    have ht : lookup (k "type") r = some (.str t) := by
      unfold strCell at hty'
      split at hty'
      · cases hty'
      · injection hty' with h; injection h with h; subst h; assumption
      · cases hty'
    exact typedRow_noInt env sh r t st hs ht hl

/-- **no internal exception in one row of the loop**, for every environment of total checks, every sheet
    context and every loop state, outside the open crash classes -/
theorem rowStep_no_internal (env : Env) (sh : Sheets) (r : TRow) (st : St)
    (h : rowGuard env sh r = true) : NoInt (rowStep env sh r st) := by
  unfold rowGuard at h
  simp only [Bool.and_eq_true] at h
  obtain ⟨⟨hd, hs⟩, hl⟩ := h
  unfold rowStep
  refine noInt_bind _ _ (strCell_noInt _ _ r "disabled" hd) (fun _ _ => ?_)
  exact noInt_ite (noInt_ok _) (rowBody_noInt env sh _ st hs hl)

/-- **no internal exception in the whole row loop** (any number of rows, any starting state), when every row
    satisfies the guard -/
theorem rowLoop_no_internal (env : Env) (sh : Sheets) : ∀ (rows : List TRow) (st : St),
    sheetGuard env sh rows = true → NoInt (rowLoop env sh rows st) := by
  intro rows
  induction rows with
  | nil => intro st _; exact noInt_ok _
  | cons r rs ih =>
    intro st h
    unfold sheetGuard at h
    simp only [List.all_cons, Bool.and_eq_true] at h
    unfold rowLoop
    refine noInt_bind _ _ (rowStep_no_internal env sh r st h.1) (fun st' _ => ?_)
    exact ih st' h.2

theorem sheet_no_internal (env : Env) (sh : Sheets) (rows : List TRow)
    (h : sheetGuard env sh rows = true) : NoInt (sheet env sh rows) := by
  unfold sheet
  exact noInt_bind _ _ (rowLoop_no_internal env sh rows {} h) (fun _ _ => rejectIf_noInt _ _)

/-- the tables the driver's environment reads, as the current source has them (re-checked on every run) -/
theorem ext_table_pinned : Pyxv.Gen.externalInstanceExtensions = [".csv", ".geojson", ".xml"] := by decide
theorem select_one_external_pinned : Pyxv.Gen.c18SelectOneExternal = "select one external" := by decide

/-! ### Non-vacuity and exactness of the guard

A sheet on which the guard holds (and the loop accepts it); and, for every conjunct of the guard, a row on
which exactly that conjunct fails and the loop ends in the internal exception of the corresponding open
finding — each of them reproduced on the implementation by a directed case of harness/props/c17.py. -/

def sv (s : String) : Val := .str s.toList
def cs (key v : String) : Str × Val := (key.toList, sv v)
def cd (key : String) (kv : List (Str × Val)) : Str × Val := (key.toList, .dict kv)
def sh0 : Sheets :=
  { choices := ["l".toList], external := ["e".toList], hasExternal := true, osm := some ["b".toList], hasEntities := false }

def isInternal (cls site : String) : M St → Bool
  | .error (.internal c s) => c == cls && s == site
  | _ => false

def goodSheet : List TRow :=
  [[cs "type" "text", cs "name" "a", cd "label" [cs "en" "A"], cd "bind" [cs "relevant" "1"]],
   [cs "type" "begin group", cs "name" "g", cd "control" [cs "appearance" "table-list"]],
   [cs "type" "select_one l", cs "name" "s", cs "label" "S"],
   [cs "type" "end group"],
   [cs "type" "select_one_from_file f.csv", cs "name" "ff", cs "label" "F"],
   [cs "type" "select_one_external e", cs "name" "x", cs "label" "X", cs "choice_filter" "a=1"],
   [cs "type" "osm b", cs "name" "o", cs "label" "O"],
   [cs "type" "calculate", cs "name" "c", cd "bind" [cs "calculate" "1+1"]]]

example : sheetGuard stdEnv sh0 goodSheet = true := by decide +kernel
example : (match sheet stdEnv sh0 goodSheet with | .ok () => true | _ => false) = true := by decide +kernel

-- F14-header-shape: plain `bind`; `parameters::x`; `disabled::x`; `type::x`; `save_to::x`; `trigger::x`
example : rowGuard stdEnv sh0 [cs "type" "text", cs "name" "a", cs "bind" "x"] = false := by decide +kernel
example : isInternal "AttributeError" "entities_parsing.py:validate_entity_saveto"
    (rowStep stdEnv sh0 [cs "type" "text", cs "name" "a", cs "bind" "x"] {}) = true := by decide +kernel
example : isInternal "AttributeError" "parameters_generic.py:parse"
    (rowStep stdEnv sh0 [cs "type" "text", cs "name" "a", cd "parameters" [cs "x" "rows=3"]] {}) = true := by decide +kernel
example : isInternal "TypeError" "xls2json.py:workbook_to_json"
    (rowStep stdEnv sh0 [cs "type" "text", cs "name" "a", cd "disabled" [cs "x" "yes"]] {}) = true := by decide +kernel
example : isInternal "TypeError" "xls2json.py:dealias_types"
    (rowStep stdEnv sh0 [cd "type" [cs "x" "text"], cs "name" "a"] {}) = true := by decide +kernel
example : isInternal "AttributeError" "entities_parsing.py:validate_entity_saveto"
    (rowStep stdEnv { sh0 with hasEntities := true }
      [cs "type" "text", cs "name" "a", cd "bind" [cd "entities:saveto" [cs "x" "p"]]] {}) = true := by decide +kernel
example : isInternal "TypeError" "expression.py:is_pyxform_reference"
    (rowStep stdEnv sh0 [cs "type" "background-geopoint", cs "name" "a", cd "trigger" [cs "x" "${q}"]] {}) = true := by
  decide +kernel
-- F13-select-one-external-unlisted
example : isInternal "KeyError" "xls2json.py:add_choices_info_to_question"
    (rowStep stdEnv sh0 [cs "type" "select_one_external e", cs "name" "x", cs "label" "X"] {}) = true := by decide +kernel
-- F14: plain `control` on a select inside a table-list group (item assignment on a str)
example : isInternal "TypeError" "xls2json.py:workbook_to_json"
    (rowStep stdEnv sh0 [cs "type" "select_one l", cs "name" "s", cs "label" "S", cs "control" "x"]
      { stack := [.group], tableList := .pending }) = true := by decide +kernel
-- the former F44 / F13-osm-unlisted witnesses: located rejections now, and inside the guard
def isReject (w : String) : M St → Bool
  | .error (.reject w') => w' == w
  | _ => false
example : isReject "table-list without choice list"
    (rowStep stdEnv sh0 [cs "type" "select_one_from_file f.csv", cs "name" "ff", cs "label" "F"]
      { stack := [.group], tableList := .pending }) = true := by decide +kernel
example : isReject "list not in osm sheet"
    (rowStep stdEnv sh0 [cs "type" "osm nolist", cs "name" "o", cs "label" "O"] {}) = true := by decide +kernel
example : rowGuard stdEnv sh0 [cs "type" "osm nolist", cs "name" "o", cs "label" "O"] = true ∧
    rowGuard stdEnv sh0 [cs "type" "select_one_from_file f.csv", cs "name" "ff", cs "label" "F"] = true := by decide +kernel

end Pyxv.RowLoop
