import Pyxv.Model.HeaderRules
/-!
# C17: header rules — alias clash and missing required column are rejected, naming sheet and header(s)

Theorems about `Pyxv.Headers.dealiasAndGroupHeaders` (the model of `dealias_and_group_headers`, tied function-level by
C08's `c08.dealias` stream and workbook-level — message text of `convert()` — by C17's `c17.headers` stream) for
every header row, every data, every alias / column / required table.
-/
namespace Pyxv.C17.Hdr
open Pyxv Pyxv.Headers Pyxv.HeaderRules

/-- the header loop over `pre ++ rest` is the loop over `rest` started in the state the loop over `pre` ends in -/
theorem headerLoop_append (ud : Bool) (al : List (Str × List Str)) (cols : List Str) (pre rest : List Str)
    (hk : List (Str × List Str)) (tk : List (List Str × Str)) :
    headerLoop ud al cols (pre ++ rest) hk tk =
      match headerLoop ud al cols pre hk tk with
      | .error e => .error e
      | .ok (hk', tk') => headerLoop ud al cols rest hk' tk' := by
  induction pre generalizing hk tk with
  | nil => simp [headerLoop]
  | cons h hs ih =>
    simp only [List.cons_append]
    rw [headerLoop.eq_def (ud) al cols (h :: (hs ++ rest)), headerLoop.eq_def ud al cols (h :: hs)]
    simp only
    split
    · exact ih _ _
    · split
      · rfl
      · split
        · split
          · rfl
          · exact ih _ _
        · exact ih _ _

/-- one step: a header, not seen before, whose tokens are those of an earlier (non-empty) header `o`, and which is not
the canonical spelling of its own column, stops the loop with `duplicate o h` -/
theorem alias_clash_step (ud : Bool) (al : List (Str × List Str)) (cols : List Str) (h : Str) (hs : List Str)
    (hk : List (Str × List Str)) (tk : List (List Str × Str)) (nh : Option Str) (toks t : List Str) (o : Str)
    (hnew : lookup h hk = none) (hp : processHeader h ud al cols = .ok (nh, toks))
    (hf : tk.find? (fun p => p.1 = toks) = some (t, o)) (ho : o ≠ []) (hc : nh ≠ some h) :
    headerLoop ud al cols (h :: hs) hk tk = .error (.duplicate o h) := by
  rw [headerLoop.eq_def]
  simp only [hnew, hp, hf, Option.map_some]
  have : o.isEmpty = false := by cases o <;> simp_all
  simp [this, hc]

/-- **alias clash rejected**, for every header row `pre ++ h :: post`, every data and every table: if the headers
before `h` are accepted and leave `o` as the name on record for `h`'s tokens, the sheet is refused with
`duplicate o h`, whatever follows and whatever the rows contain -/
theorem alias_clash_rejected (pre post : List Str) (h : Str) (rows : List (List (Str × Str)))
    (al : List (Str × List Str)) (cols req : List Str) (dk : Str) (isSurvey : Bool)
    (hk : List (Str × List Str)) (tk : List (List Str × Str)) (nh : Option Str) (toks t : List Str) (o : Str)
    (hpre : headerLoop ((pre ++ h :: post).any fun x => isInfix "::".toList x) al cols pre [] [] = .ok (hk, tk))
    (hnew : lookup h hk = none)
    (hp : processHeader h ((pre ++ h :: post).any fun x => isInfix "::".toList x) al cols = .ok (nh, toks))
    (hf : tk.find? (fun p => p.1 = toks) = some (t, o)) (ho : o ≠ []) (hc : nh ≠ some h) :
    dealiasAndGroupHeaders (pre ++ h :: post) rows al cols req dk isSurvey = .error (.duplicate o h) := by
  unfold dealiasAndGroupHeaders
  simp only [headerLoop_append, hpre, alias_clash_step _ al cols h post hk tk nh toks t o hnew hp hf ho hc]

/-- the same with the message the implementation must raise: it names the sheet and both headers -/
theorem alias_clash_message (sheet : Str) (pre post : List Str) (h : Str) (rows : List (List (Str × Str)))
    (al : List (Str × List Str)) (cols req : List Str) (dk : Str)
    (hk : List (Str × List Str)) (tk : List (List Str × Str)) (nh : Option Str) (toks t : List Str) (o : Str)
    (hpre : headerLoop ((pre ++ h :: post).any fun x => isInfix "::".toList x) al cols pre [] [] = .ok (hk, tk))
    (hnew : lookup h hk = none)
    (hp : processHeader h ((pre ++ h :: post).any fun x => isInfix "::".toList x) al cols = .ok (nh, toks))
    (hf : tk.find? (fun p => p.1 = toks) = some (t, o)) (ho : o ≠ []) (hc : nh ≠ some h) :
    sheetHeaders sheet (pre ++ h :: post) rows al cols req dk = .reject (invalidDuplicateMsg sheet o h) := by
  unfold sheetHeaders
  rw [alias_clash_rejected pre post h rows al cols req dk _ hk tk nh toks t o hpre hnew hp hf ho hc]
  rfl

/-- **an accepted sheet has every required column**: whenever the header stage returns a result for a sheet with
data rows (or for the survey sheet), each required header is the first token of one of the result's headers -/
theorem accepted_has_required (header : List Str) (rows : List (List (Str × Str))) (al : List (Str × List Str))
    (cols req : List Str) (dk : Str) (isSurvey : Bool) (g : Grouped)
    (hok : dealiasAndGroupHeaders header rows al cols req dk isSurvey = .ok g)
    (hdata : g.rows ≠ [] ∨ isSurvey = true) :
    ∀ r ∈ req, ∃ t ∈ g.headers, t.head? = some r := by
  intro r hr
  unfold dealiasAndGroupHeaders at hok
  simp only at hok
  split at hok
  · cases hok
  · rename_i hk tk _
    split at hok
    · cases hok
    · rename_i data _
      split at hok
      · cases hok
      · rename_i hcond
        injection hok with hg
        subst hg
        simp only at hdata ⊢
        have hreq : req.isEmpty = false := by cases req <;> simp_all
        have hd : (!data.isEmpty || isSurvey) = true := by
          rcases hdata with h | h
          · cases data <;> simp_all
          · simp [h]
        simp only [hreq, hd, Bool.not_false, Bool.true_and, Bool.not_eq_true', List.isEmpty_eq_false_iff,
          Bool.not_eq_true] at hcond
        have hfil : (req.filter fun h => !(tk.filterMap fun p => p.1.head?).contains h) = [] := by
          exact Classical.not_not.mp hcond
        have hmem : (tk.filterMap fun p => p.1.head?).contains r = true := by
          have := List.filter_eq_nil_iff.mp hfil r hr
          simpa using this
        have hmem' : r ∈ tk.filterMap fun p => p.1.head? := by simpa using hmem
        obtain ⟨p, hp, hph⟩ := List.mem_filterMap.mp hmem'
        exact ⟨p.1, List.mem_map.mpr ⟨p, hp, rfl⟩, hph⟩

/-- **missing required column rejected**, with the located outcome: when the header loop and the rows go through but
no header has `r` as its first token, the sheet is refused with `missingRequired` listing `r` -/
theorem missing_required_rejected (header : List Str) (rows : List (List (Str × Str))) (al : List (Str × List Str))
    (cols req : List Str) (dk : Str) (isSurvey : Bool) (hk : List (Str × List Str)) (tk : List (List Str × Str))
    (data : List Kvs) (r : Str)
    (hl : headerLoop (header.any fun x => isInfix "::".toList x) al cols header [] [] = .ok (hk, tk))
    (hm : mapRows dk hk rows = .ok data) (hr : r ∈ req)
    (hno : ∀ p ∈ tk, p.1.head? ≠ some r) (hdata : data ≠ [] ∨ isSurvey = true) :
    ∃ missing, r ∈ missing ∧
      dealiasAndGroupHeaders header rows al cols req dk isSurvey = .error (.missingRequired missing) := by
  refine ⟨req.filter fun h => !(tk.filterMap fun p => p.1.head?).contains h, ?_, ?_⟩
  · refine List.mem_filter.mpr ⟨hr, ?_⟩
    have : r ∉ tk.filterMap fun p => p.1.head? := by
      intro hmem
      obtain ⟨p, hp, hph⟩ := List.mem_filterMap.mp hmem
      exact hno p hp hph
    simpa using this
  · unfold dealiasAndGroupHeaders
    simp only [hl, hm]
    have hreq : req.isEmpty = false := by cases req <;> simp_all
    have hd : (!data.isEmpty || isSurvey) = true := by
      rcases hdata with h | h
      · cases data <;> simp_all
      · simp [h]
    have hmiss : (req.filter fun h => !(tk.filterMap fun p => p.1.head?).contains h).isEmpty = false := by
      have : r ∈ req.filter fun h => !(tk.filterMap fun p => p.1.head?).contains h := by
        refine List.mem_filter.mpr ⟨hr, ?_⟩
        have : r ∉ tk.filterMap fun p => p.1.head? := by
          intro hmem
          obtain ⟨p, hp, hph⟩ := List.mem_filterMap.mp hmem
          exact hno p hp hph
        simpa using this
      cases hq : (req.filter fun h => !(tk.filterMap fun p => p.1.head?).contains h) with
      | nil => rw [hq] at this; cases this
      | cons _ _ => rfl
    split
    · rfl
    · rename_i hcn
      rw [hreq, hd, hmiss] at hcn
      exact absurd (by decide) hcn

/-- a survey sheet with no columns at all is refused: `'type'` is missing (even without data rows) -/
theorem survey_without_headers_rejected (al : List (Str × List Str)) (cols : List Str) (dk : Str) :
    sheetHeaders "survey".toList [] [] al cols ["type".toList] dk =
      .reject (missingRequiredMsg "survey".toList ["type".toList]) := by
  rfl

/-! ### Non-vacuity -/
def L (l : List String) : List Str := l.map String.toList
def isDup (o h : String) : Except Err Grouped → Bool
  | .error (.duplicate a b) => a == o.toList && b == h.toList
  | _ => false
def isMissing (hs : List String) : Except Err Grouped → Bool
  | .error (.missingRequired a) => a == L hs
  | _ => false
def isReject (m : Str) : Outcome → Bool
  | .reject x => x == m
  | _ => false

-- alias clash: `name` and its alias `value` on the choices sheet; `relevant` and `bind::relevant` on the survey sheet
example : isDup "name" "value"
    (dealiasAndGroupHeaders (L ["list_name", "name", "value", "label"]) [] listAliases listColumns (L ["name"]) "default".toList false) = true := by
  decide +kernel
example : isDup "relevant" "bind::relevant"
    (dealiasAndGroupHeaders (L ["type", "name", "relevant", "bind::relevant"]) [] surveyAliases surveyColumns (L ["type"]) "default".toList true) = true := by
  decide +kernel
-- the hypotheses of `alias_clash_rejected` hold there (pre = [list_name, name], h = value)
example : (match headerLoop false listAliases listColumns (L ["list_name", "name"]) [] [] with
    | .ok (hk, tk) => lookup "value".toList hk == none &&
        tk.find? (fun p => p.1 = L ["name"]) == some (L ["name"], "name".toList)
    | _ => false) = true := by decide +kernel
example : (match processHeader "value".toList false listAliases listColumns with
    | .ok (nh, toks) => nh == some "name".toList && toks == L ["name"] | _ => false) = true := by decide +kernel
-- missing required: survey without `type`, choices with rows but without `name`; a choices sheet without rows passes
example : isMissing ["type"]
    (dealiasAndGroupHeaders (L ["name", "label"]) [] surveyAliases surveyColumns (L ["type"]) "default".toList true) = true := by
  decide +kernel
example : isMissing ["name"]
    (dealiasAndGroupHeaders (L ["list_name", "label"]) [[("list_name".toList, "l".toList)]] listAliases listColumns (L ["name"]) "default".toList false) = true := by
  decide +kernel
example : (match dealiasAndGroupHeaders (L ["list_name", "label"]) [] listAliases listColumns (L ["name"]) "default".toList false with
    | .ok _ => true | _ => false) = true := by decide +kernel
-- accepted: the required header is among the result's headers
example : (match dealiasAndGroupHeaders (L ["Type", "name", "label::en"]) [] surveyAliases surveyColumns (L ["type"]) "default".toList true with
    | .ok g => g.headers.any (fun t => t.head? == some "type".toList) | _ => false) = true := by decide +kernel
example : isReject (invalidDuplicateMsg "choices".toList "name".toList "value".toList)
    (sheetHeaders "choices".toList (L ["list_name", "name", "value"]) [] listAliases listColumns (L ["name"]) "default".toList) = true := by
  decide +kernel

end Pyxv.C17.Hdr
