import Pyxv.Model.Convert
import Pyxv.Proofs.C04Controls
/-!
# Convert's decoration and the attribute model

`Pyxv.Convert.decorate` attaches to every element the attributes of its own body control; this file ties
that decoration to `Controls.rowControls` and, through `C04.rowControls_out` / `C04.rowControls_aligned`, to the
classification the structural walk uses.
-/
namespace Pyxv.C04
open Pyxv Pyxv.Form Pyxv.Rows Pyxv.Controls

/-- **The decoration is the attribute model's answer for that very row**: whenever `Convert.decorate` accepts a
    row that is not a row-level error, `Controls.rowControls` answers for the row, the decoration's attributes
    are `ownAttrs` of that answer, the answer is the pure emission `emitOut` of the classification of the prepared
    cells, and its element names are that classification's `rowTags` — the controls the stack machine places. -/
theorem decorate_controls (lists : List Str) (n : Nat) (r : Cells) (k : RowK) (p : Convert.Pay)
    (h : Convert.decorate lists n r = .ok (k, p)) :
    (∃ e, k = .bad e) ∨
    ∃ cs k' ps, rowControls lists n r = .ok cs ∧ p.attrs = Convert.ownAttrs k cs ∧ p.cells = r ∧
      classify lists n r = .row k ∧ classify lists n (prep r).1 = .row k' ∧
      cs = emitOut k' (prep r).1 ps ∧ cs.map (·.1) = rowTags k' := by
  unfold Convert.decorate at h
  split at h
  · cases h
  · split at h
    · cases h
    · split at h
      · cases h
      · rename_i k0 hk0
        split at h
        · cases h
        · split at h
          · injection h with h; injection h with h1 h2; subst h1
            exact Or.inl ⟨_, rfl⟩
          · cases h
        · rename_i cs hcs
          injection h with h; injection h with h1 h2; subst h1; subst h2
          obtain ⟨k', ps, hk', _, _, hout⟩ := rowControls_out lists n r cs hcs
          obtain ⟨k'', hk'', htags⟩ := rowControls_aligned lists n r cs hcs
          rw [hk'] at hk''; injection hk'' with hk''; subst hk''
          exact Or.inr ⟨cs, k', ps, hcs, rfl, rfl, hk0, hk', hout, htags⟩

-- non-vacuity: a text row with an appearance is decorated with exactly that attribute; a begin repeat with its own
example : (match Convert.decorate [] 2 [(k!"type", k!"text"), (k!"name", k!"a"), (k!"label", k!"A"),
      (k!"control::appearance", k!"multiline")] with
    | .ok (.q d none, p) => d.control && p.attrs == [(k!"appearance", k!"multiline")]
    | _ => false) = true := by decide +kernel
example : (match Convert.decorate [] 2 [(k!"type", k!"begin repeat"), (k!"name", k!"r"), (k!"label", k!"R"),
      (k!"control::appearance", k!"field-list")] with
    | .ok (.begin_ .rep _ _ none, p) => p.attrs == [(k!"appearance", k!"field-list")]
    | _ => false) = true := by decide +kernel

end Pyxv.C04
