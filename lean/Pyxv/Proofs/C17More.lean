import Pyxv.Proofs.C17Rows
/-!
# C17 — further catalogue entries on whole sheets: missing list, or_other with choice_filter, unclosed begin
-/
namespace Pyxv.C17
open Pyxv Pyxv.Form Pyxv.Rows

/-- a row that reaches the select branch of `classifyNamed` (xls2json.py 962 ff.) with list `ln` -/
structure SelectRow (r : Cells) (t name sel ln : Str) (other : Bool) : Prop where
  plain : PlainTyped r t
  hname : Rows.get r "name" = some name
  nameOk : isXmlTag name = true
  noSaveTo : has r "bind::entities:saveto" = false
  notBegin : matchControl "begin" true t = none
  select : matchSelect t = some (sel, ln, other)
  notExternal : sel ≠ "select one external".toList
  plainList : ((splitOnChar '.' ln).length > 1 || isInfix "${".toList ln) = false

theorem classify_select (lists : List Str) (n : Nat) (r : Cells) (t name sel ln : Str) (other : Bool)
    (h : SelectRow r t name sel ln other) :
    classify lists n r = classifySelect lists r name sel ln other := by
  rw [classify_plainTyped lists n r t h.plain]
  simp only [nameOrErr, h.hname, h.nameOk, ↓reduceIte]
  unfold classifyNamed
  simp only [h.noSaveTo, Bool.false_eq_true, ↓reduceIte, h.notBegin, h.select]

/-- xls2json.py 1009-1029: the list of a select is not on the choices sheet -/
theorem classify_listMissing (lists : List Str) (n : Nat) (r : Cells) (t name sel ln : Str) (other : Bool)
    (h : SelectRow r t name sel ln other) (hl : lists.contains ln = false) :
    classify lists n r = .row (.bad (.other "list not in choices".toList)) := by
  rw [classify_select lists n r t name sel ln other h]
  unfold classifySelect
  rw [if_neg h.notExternal]
  simp only [h.plainList, hl, Bool.false_eq_true, ↓reduceIte, Bool.not_false]

/-- xls2json.py 1052-1058: `or_other` together with a choice_filter -/
theorem classify_orOtherFilter (lists : List Str) (n : Nat) (r : Cells) (t name sel ln : Str)
    (h : SelectRow r t name sel ln true) (hl : lists.contains ln = true) (hf : has r "choice_filter" = true) :
    classify lists n r = .row (.bad (.other "or_other with choice_filter".toList)) := by
  rw [classify_select lists n r t name sel ln true h]
  unfold classifySelect
  rw [if_neg h.notExternal]
  simp only [h.plainList, hl, hf, Bool.false_eq_true, ↓reduceIte, Bool.not_true, Bool.and_self]

section
variable (root : Str) (lists : List Str) (settings : Cells)
  (pre : List Cells) (r : Cells) (post : List Cells) (ks ks' : List (Nat × RowK)) (st : St)

/-- **select whose list is not on the choices sheet**, at any site of any sheet -/
theorem list_missing_rejected (t name sel ln : Str) (other : Bool)
    (h1 : classifyAll lists 2 pre = .ok ks) (hrun : run ([], []) ks = .ok st)
    (h3 : classifyAll lists (2 + pre.length + 1) post = .ok ks')
    (h : SelectRow r t name sel ln other) (hl : lists.contains ln = false) :
    formOut root lists (pre ++ r :: post) settings
      = .error (.err (.row (2 + pre.length) (.other "list not in choices".toList))) :=
  row_error_rejected root lists settings pre r post ks ks' st _ h1 hrun
    (classify_listMissing lists _ r t name sel ln other h hl) h3

/-- **or_other with choice_filter**, at any site of any sheet -/
theorem or_other_filter_rejected (t name sel ln : Str)
    (h1 : classifyAll lists 2 pre = .ok ks) (hrun : run ([], []) ks = .ok st)
    (h3 : classifyAll lists (2 + pre.length + 1) post = .ok ks')
    (h : SelectRow r t name sel ln true) (hl : lists.contains ln = true) (hf : has r "choice_filter" = true) :
    formOut root lists (pre ++ r :: post) settings
      = .error (.err (.row (2 + pre.length) (.other "or_other with choice_filter".toList))) :=
  row_error_rejected root lists settings pre r post ks ks' st _ h1 hrun
    (classify_orOtherFilter lists _ r t name sel ln h hl hf) h3

/-- **a `begin` row that is never closed** (its `end` dropped, or a stray `begin` inserted): after a
    balanced prefix and followed by a balanced rest of the sheet, the sheet is rejected naming the control -/
theorem unclosed_begin_row_rejected (ts kids : List Item) (ct : Ctl) (name : Str) (b : Bool) (hp : Option QData)
    (h1 : classifyAll lists 2 pre = .ok ks) (hbal : parseRows ks = .ok ts)
    (h2 : classify lists (2 + pre.length) r = .row (.begin_ ct name b hp))
    (h3 : classifyAll lists (2 + pre.length + 1) post = .ok ks') (hbody : parseRows ks' = .ok kids) :
    formOut root lists (pre ++ r :: post) settings = .error (.err (.unmatchedBegin ct name)) := by
  unfold formOut
  rw [classifyAll_split lists pre r post 2 ks ks' _ h1 h2 h3]
  simp only []
  rw [unclosed_begin_rejected ks ks' ts kids _ ct name b hp hbal hbody]
end

/-! ### Non-vacuity -/
def selRow : Cells := [c "type" "select_one colours", c "name" "s", c "label" "S"]
example : SelectRow selRow "select_one colours".toList "s".toList "select one".toList "colours".toList false :=
  ⟨⟨by decide +kernel, by decide +kernel, by decide +kernel, by decide +kernel, by decide +kernel,
    by decide +kernel, by decide +kernel⟩,
   by decide +kernel, by decide +kernel, by decide +kernel, by decide +kernel, by decide +kernel,
   by decide +kernel, by decide +kernel⟩
example : isRowErr 4 (.other "list not in choices".toList)
    (formOut "data".toList ["sizes".toList] (exPre ++ selRow :: exPost) []) = true := by decide +kernel
example : isRowErr 4 (.other "or_other with choice_filter".toList)
    (formOut "data".toList ["colours".toList]
      (exPre ++ [c "type" "select_one colours or_other", c "name" "s", c "label" "S", c "choice_filter" "x=1"] :: exPost) [])
      = true := by decide +kernel
example : (match formOut "data".toList [] ([[c "type" "text", c "name" "a"]] ++
      [c "type" "begin repeat", c "name" "r"] :: [[c "type" "text", c "name" "b"]]) [] with
    | .error (.err (.unmatchedBegin .rep n)) => n == "r".toList | _ => false) = true := by decide +kernel

end Pyxv.C17
