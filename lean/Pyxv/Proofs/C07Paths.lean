import Pyxv.Proofs.C07Text
/-!
# Distinct xpaths from sibling uniqueness

The value-level theorems of `C07Text` assume that the xpaths of the survey's elements are pairwise distinct.
Here this is derived from what pyxform validates (`Section._validate_uniqueness_of_element_names`, and XML names
cannot contain `/`): at every level the names of the children (and of an osm question's tags) are pairwise distinct
and contain no `/`.  The argument is on the xpath *strings* (`pre ++ "/" ++ name`), as the code builds them.
-/
namespace Pyxv.C07Paths
open Pyxv Pyxv.Itext

def NoSlash (s : Str) : Prop := '/' ∉ s

def nameOf : Elem → Str
  | .node d _ => d.name

def kidNames : List Elem → List Str
  | [] => []
  | e :: es => nameOf e :: kidNames es

mutual
/-- names without `/`, and tags and children of every element pairwise distinct by name -/
def SibOk : Elem → Prop
  | .node d kids => (∀ nl ∈ d.tags, NoSlash nl.1) ∧ (d.tags.map (·.1) ++ kidNames kids).Nodup ∧ SibsOk kids
def SibsOk : List Elem → Prop
  | [] => True
  | e :: es => NoSlash (nameOf e) ∧ SibOk e ∧ SibsOk es
end

/-- `x` is `p` or lies below `p` -/
def Under (p x : Str) : Prop := ∃ r, x = p ++ r ∧ (r = [] ∨ ∃ r', r = '/' :: r')

theorem under_refl (p : Str) : Under p p := ⟨[], by simp, Or.inl rfl⟩

theorem under_trans_child {p n x : Str} (h : Under (p ++ '/' :: n) x) : Under p x := by
  obtain ⟨r, hx, _⟩ := h
  exact ⟨'/' :: n ++ r, by simp [hx], Or.inr ⟨n ++ r, rfl⟩⟩

/-- two `/`-free names followed by nothing or by `/…` agree as soon as the whole strings agree -/
theorem head_eq : ∀ {a b r s : Str}, a ++ r = b ++ s → NoSlash a → NoSlash b →
    (r = [] ∨ ∃ r', r = '/' :: r') → (s = [] ∨ ∃ s', s = '/' :: s') → a = b
  | [], [], _, _, _, _, _, _, _ => rfl
  | [], y :: b, r, s, h, _, hb, hr, _ => by
    rcases hr with rfl | ⟨r', rfl⟩
    · simp at h
    · simp only [List.nil_append, List.cons_append, List.cons.injEq] at h
      exact absurd (by rw [← h.1]; simp) hb
  | x :: a, [], r, s, h, ha, _, _, hs => by
    rcases hs with rfl | ⟨s', rfl⟩
    · simp at h
    · simp only [List.nil_append, List.cons_append, List.cons.injEq] at h
      exact absurd (by rw [h.1]; simp) ha
  | x :: a, y :: b, r, s, h, ha, hb, hr, hs => by
    simp only [List.cons_append, List.cons.injEq] at h
    obtain ⟨rfl, h2⟩ := h
    have ha' : NoSlash a := fun hm => ha (List.mem_cons_of_mem _ hm)
    have hb' : NoSlash b := fun hm => hb (List.mem_cons_of_mem _ hm)
    rw [head_eq h2 ha' hb' hr hs]

/-- subtrees of differently named siblings share no xpath -/
theorem under_disjoint {pre n₁ n₂ x y : Str} (h₁ : NoSlash n₁) (h₂ : NoSlash n₂) (hne : n₁ ≠ n₂)
    (hx : Under (pre ++ '/' :: n₁) x) (hy : Under (pre ++ '/' :: n₂) y) : x ≠ y := by
  obtain ⟨r, rfl, hr⟩ := hx
  obtain ⟨s, rfl, hs⟩ := hy
  intro h
  have h' : n₁ ++ r = n₂ ++ s := by
    have := List.append_cancel_left (by simpa [List.append_assoc] using h : pre ++ ('/' :: (n₁ ++ r)) = pre ++ ('/' :: (n₂ ++ s)))
    exact (List.cons.inj this).2
  exact hne (head_eq h' h₁ h₂ hr hs)

theorem under_ne_self {p n x : Str} (h : Under (p ++ '/' :: n) x) : x ≠ p := by
  obtain ⟨r, rfl, _⟩ := h
  intro e
  have := congrArg List.length e
  simp at this

theorem nodup_map_inj {α β} (g : α → β) (hg : ∀ a b, g a = g b → a = b) : ∀ {l : List α}, l.Nodup → (l.map g).Nodup
  | [], _ => by simp
  | a :: rest, h => by
    simp only [List.nodup_cons] at h
    simp only [List.map_cons, List.nodup_cons]
    refine ⟨?_, nodup_map_inj g hg h.2⟩
    intro hm
    obtain ⟨b, hb, hbe⟩ := List.mem_map.mp hm
    exact h.1 (hg b a hbe ▸ hb)

mutual
theorem under_flatten (pre : Str) (hid : Bool) : ∀ (e : Elem), ∀ f ∈ flatten pre hid e,
    Under (pre ++ '/' :: nameOf e) f.xpath
  | .node d kids, f, hf => by
    simp only [flatten, List.mem_cons, List.mem_append] at hf
    rcases hf with rfl | hf | hf
    · exact under_refl _
    · obtain ⟨nl, _, rfl⟩ := List.mem_map.mp hf
      exact ⟨'/' :: nl.1, rfl, Or.inr ⟨nl.1, rfl⟩⟩
    · obtain ⟨e', _, hu⟩ := under_flattenL _ _ kids f hf
      exact under_trans_child hu
theorem under_flattenL (pre : Str) (hid : Bool) : ∀ (es : List Elem), ∀ f ∈ flattenL pre hid es,
    ∃ e ∈ es, Under (pre ++ '/' :: nameOf e) f.xpath
  | [], f, hf => by simp [flattenL] at hf
  | e :: es, f, hf => by
    simp only [flattenL, List.mem_append] at hf
    rcases hf with hf | hf
    · exact ⟨e, by simp, under_flatten pre hid e f hf⟩
    · obtain ⟨e', he', hu⟩ := under_flattenL pre hid es f hf
      exact ⟨e', by simp [he'], hu⟩
end

theorem mem_kidNames {es : List Elem} {e : Elem} (h : e ∈ es) : nameOf e ∈ kidNames es := by
  induction es with
  | nil => cases h
  | cons a rest ih =>
    rcases List.mem_cons.mp h with rfl | h
    · simp [kidNames]
    · simp [kidNames, ih h]

theorem sibsOk_noSlash : ∀ {es : List Elem}, SibsOk es → ∀ e ∈ es, NoSlash (nameOf e)
  | [], _, e, he => by cases he
  | a :: rest, h, e, he => by
    simp only [SibsOk] at h
    rcases List.mem_cons.mp he with rfl | he
    · exact h.1
    · exact sibsOk_noSlash h.2.2 e he

mutual
theorem nodup_flatten (pre : Str) (hid : Bool) : ∀ (e : Elem), SibOk e →
    ((flatten pre hid e).map (·.xpath)).Nodup
  | .node d kids, h => by
    simp only [SibOk] at h
    obtain ⟨htag, hnd, hkids⟩ := h
    have hndk : (kidNames kids).Nodup := (List.nodup_append.mp hnd).2.1
    simp only [flatten, List.map_cons, List.map_append, List.nodup_cons, List.mem_append, List.nodup_append]
    refine ⟨?_, ?_, nodup_flattenL _ _ kids hkids hndk, ?_⟩
    · -- the element's own xpath is not below itself
      rintro (hm | hm)
      · obtain ⟨f, hf, he⟩ := List.mem_map.mp hm
        obtain ⟨nl, _, rfl⟩ := List.mem_map.mp hf
        have := congrArg List.length he
        simp at this
      · obtain ⟨f, hf, he⟩ := List.mem_map.mp hm
        obtain ⟨e', _, hu⟩ := under_flattenL _ _ kids f hf
        exact under_ne_self hu he
    · -- tag xpaths are pairwise distinct
      have hnt : (d.tags.map (·.1)).Nodup := (List.nodup_append.mp hnd).1
      simp only [tagFlats, List.map_map, Function.comp_def]
      have : (d.tags.map fun nl => pre ++ '/' :: d.name ++ '/' :: nl.1) =
          (d.tags.map (·.1)).map fun n => pre ++ '/' :: d.name ++ '/' :: n := by simp [List.map_map, Function.comp_def]
      rw [this]
      exact nodup_map_inj _ (fun a b hab => by simpa using hab) hnt
    · -- a tag is not an element of a child's subtree
      intro a ha b hb hab
      subst hab
      obtain ⟨f, hf, rfl⟩ := List.mem_map.mp ha
      obtain ⟨nl, hnl, rfl⟩ := List.mem_map.mp hf
      obtain ⟨g, hg, hge⟩ := List.mem_map.mp hb
      obtain ⟨e', he', hu⟩ := under_flattenL _ _ kids g hg
      have hdis := (List.nodup_append.mp hnd).2.2
      have hne : nl.1 ≠ nameOf e' := fun e => hdis nl.1 (List.mem_map.mpr ⟨nl, hnl, rfl⟩) (nameOf e') (mem_kidNames he') e
      exact under_disjoint (htag nl hnl) (sibsOk_noSlash hkids e' he') hne
        (under_refl _) hu hge.symm
theorem nodup_flattenL (pre : Str) (hid : Bool) : ∀ (es : List Elem), SibsOk es → (kidNames es).Nodup →
    ((flattenL pre hid es).map (·.xpath)).Nodup
  | [], _, _ => by simp [flattenL]
  | e :: es, h, hn => by
    simp only [SibsOk] at h
    simp only [kidNames, List.nodup_cons] at hn
    simp only [flattenL, List.map_append, List.nodup_append]
    refine ⟨nodup_flatten pre hid e h.2.1, nodup_flattenL pre hid es h.2.2 hn.2, ?_⟩
    intro a ha b hb hab
    subst hab
    obtain ⟨f, hf, rfl⟩ := List.mem_map.mp ha
    obtain ⟨g, hg, hge⟩ := List.mem_map.mp hb
    obtain ⟨e', he', hu⟩ := under_flattenL pre hid es g hg
    have hne : nameOf e ≠ nameOf e' := fun e'' => hn.1 (e'' ▸ mem_kidNames he')
    exact under_disjoint h.1 (sibsOk_noSlash h.2.2 e' he') hne (under_flatten pre hid e f hf) hu hge.symm
end

/-- **the hypothesis `hx` of the value-level theorems, derived**: sibling names (and tag names) pairwise distinct and
free of `/` at every level ⟹ the xpaths of all elements of the survey are pairwise distinct -/
theorem xpaths_nodup (x : Survey) (h : SibsOk (rootKids x.root)) (hn : (kidNames (rootKids x.root)).Nodup) :
    ((flats x).map (·.xpath)).Nodup :=
  nodup_flattenL _ _ _ h hn

/-! ### decidable form and non-vacuity -/

mutual
def sibOkB : Elem → Bool
  | .node d kids => d.tags.all (fun nl => !nl.1.contains '/') &&
      decide (d.tags.map (·.1) ++ kidNames kids).Nodup && sibsOkB kids
def sibsOkB : List Elem → Bool
  | [] => true
  | e :: es => !(nameOf e).contains '/' && sibOkB e && sibsOkB es
end

mutual
theorem sibOkB_sound : ∀ (e : Elem), sibOkB e = true → SibOk e
  | .node d kids, h => by
    simp only [sibOkB, Bool.and_eq_true, List.all_eq_true, Bool.not_eq_true', decide_eq_true_eq] at h
    simp only [SibOk]
    refine ⟨fun nl hnl => ?_, h.1.2, sibsOkB_sound kids h.2⟩
    have := h.1.1 nl hnl
    simpa [NoSlash] using this
theorem sibsOkB_sound : ∀ (es : List Elem), sibsOkB es = true → SibsOk es
  | [], _ => trivial
  | e :: es, h => by
    simp only [sibsOkB, Bool.and_eq_true, Bool.not_eq_true'] at h
    simp only [SibsOk]
    exact ⟨by simpa [NoSlash] using h.1.1, sibOkB_sound e h.1.2, sibsOkB_sound es h.2⟩
end

/-- the nested example of `C07Sheets` (group `g` containing `a` and the select `b`) and the osm example with two
tags meet the hypotheses of `xpaths_nodup` -/
example :
    (match C07Sheets.groupTrees "default".toList C07Sheets.hkG C07Sheets.treesG,
           C07Sheets.groupLists "default".toList C07Sheets.hkG C07Sheets.listsG with
     | .ok gt, .ok gl =>
       let x := C07Sheets.treeSurvey "default".toList gt gl
       sibsOkB (rootKids x.root) && decide (kidNames (rootKids x.root)).Nodup && (flats x).length == 3
     | _, _ => false) = true ∧
    (let x := C07.exOsm (C07.tr [("en", "Name")])
     sibsOkB (rootKids x.root) && decide (kidNames (rootKids x.root)).Nodup && (flats x).length == 3) = true := by
  decide +kernel

end Pyxv.C07Paths
