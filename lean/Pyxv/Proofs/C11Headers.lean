import Pyxv.Proofs.C11
/-!
# C11: settings headers under every spelling the header normaliser accepts

`to_snake_case` = `"_".join(value.split()).lower()`.  The theorems below say, for *all* strings, that
the words of a header are found whatever Unicode whitespace separates them (blank, TAB, line break,
NBSP, …), however much of it, with any leading / trailing whitespace — so a setting's header reads
as that setting under every such spelling (`noisy_header_reads`, `noisy_alias_reads`).
-/
namespace Pyxv.C11
open Pyxv Pyxv.Settings

/-- all characters are Python whitespace -/
def IsWs (s : Str) : Prop := ∀ c ∈ s, pyIsSpace c = true
/-- a non-empty run without whitespace -/
def IsWord (w : Str) : Prop := w ≠ [] ∧ ∀ c ∈ w, pyIsSpace c = false

theorem aux_word (w : Str) (hw : ∀ c ∈ w, pyIsSpace c = false) (cur rest : Str) :
    splitWsAux cur (w ++ rest) = splitWsAux (w.reverse ++ cur) rest := by
  induction w generalizing cur with
  | nil => rfl
  | cons c w ih =>
    have hc : pyIsSpace c = false := hw c (by simp)
    have := ih (fun d hd => hw d (by simp [hd])) (c :: cur)
    simp only [List.cons_append, splitWsAux, hc, Bool.false_eq_true, if_false, this, List.reverse_cons,
      List.append_assoc, List.singleton_append, List.nil_append]

theorem aux_ws_tail (t : Str) (ht : IsWs t) (cur : Str) :
    splitWsAux cur t = if cur.isEmpty then [] else [cur.reverse] := by
  induction t generalizing cur with
  | nil => rfl
  | cons c t ih =>
    have hc : pyIsSpace c = true := ht c (by simp)
    have h0 := ih (fun d hd => ht d (by simp [hd])) []
    simp only [splitWsAux, hc, if_true, h0, List.isEmpty_nil, if_true]

theorem aux_ws_lead (sp : Str) (hs : IsWs sp) (rest : Str) :
    splitWsAux [] (sp ++ rest) = splitWsAux [] rest := by
  induction sp with
  | nil => rfl
  | cons c sp ih =>
    have hc : pyIsSpace c = true := hs c (by simp)
    simp only [List.cons_append, splitWsAux, hc, if_true, List.isEmpty_nil]
    exact ih (fun d hd => hs d (by simp [hd]))

/-- appending whitespace changes nothing -/
theorem aux_append_ws (body t : Str) (ht : IsWs t) (cur : Str) :
    splitWsAux cur (body ++ t) = splitWsAux cur body := by
  induction body generalizing cur with
  | nil => simp only [List.nil_append, aux_ws_tail t ht, splitWsAux]
  | cons c b ih =>
    simp only [List.cons_append, splitWsAux, ih]

/-- a header written as words with whitespace around them: `(whitespace before the word, word)…`, then
    trailing whitespace -/
def noisy : List (Str × Str) → Str → Str
  | [], trail => trail
  | (sp, w) :: r, trail => sp ++ w ++ noisy r trail

theorem aux_noisy (r : List (Str × Str)) (trail : Str) (ht : IsWs trail)
    (hr : ∀ p ∈ r, IsWs p.1 ∧ p.1 ≠ [] ∧ IsWord p.2) (cur : Str) :
    splitWsAux cur (noisy r trail) = (if cur.isEmpty then [] else [cur.reverse]) ++ r.map (·.2) := by
  induction r generalizing cur with
  | nil => simp [noisy, aux_ws_tail trail ht]
  | cons p r ih =>
    obtain ⟨sp, w⟩ := p
    obtain ⟨hsp, hne, hw⟩ := hr (sp, w) (by simp)
    have ihr := ih (fun q hq => hr q (by simp [hq])) w.reverse
    have hwne : w.reverse.isEmpty = false := by
      cases hw' : w with
      | nil => exact absurd hw' hw.1
      | cons a b => simp
    cases sp with
    | nil => exact absurd rfl hne
    | cons c sp' =>
      have hc : pyIsSpace c = true := hsp c (by simp)
      have hsp' : IsWs sp' := fun d hd => hsp d (by simp [hd])
      have key : splitWsAux [] (sp' ++ w ++ noisy r trail) = w :: r.map (·.2) := by
        rw [List.append_assoc, aux_ws_lead sp' hsp', aux_word w hw.2, List.append_nil, ihr, hwne]
        simp
      simp only [noisy, List.cons_append, splitWsAux, hc, if_true, key, List.map_cons]
      cases cur <;> simp

/-- **split_noisy**: `str.split()` finds exactly the words, whatever whitespace (any kind, any amount)
    separates them and surrounds the header -/
theorem split_noisy (sp0 w0 : Str) (r : List (Str × Str)) (trail : Str) (h0 : IsWs sp0) (hw0 : IsWord w0)
    (ht : IsWs trail) (hr : ∀ p ∈ r, IsWs p.1 ∧ p.1 ≠ [] ∧ IsWord p.2) :
    splitWs (noisy ((sp0, w0) :: r) trail) = w0 :: r.map (·.2) := by
  have hwne : w0.reverse.isEmpty = false := by
    cases hw' : w0 with
    | nil => exact absurd hw' hw0.1
    | cons a b => simp
  unfold splitWs noisy
  rw [List.append_assoc, aux_ws_lead sp0 h0, aux_word w0 hw0.2, List.append_nil, aux_noisy r trail ht hr, hwne]
  simp

/-- **snake_noisy**: `to_snake_case` of such a header is the words joined by `_`, lower-cased -/
theorem snake_noisy (sp0 w0 : Str) (r : List (Str × Str)) (trail : Str) (h0 : IsWs sp0) (hw0 : IsWord w0)
    (ht : IsWs trail) (hr : ∀ p ∈ r, IsWs p.1 ∧ p.1 ≠ [] ∧ IsWord p.2) :
    toSnakeCase (noisy ((sp0, w0) :: r) trail) = lowerAscii (joinWith ['_'] (w0 :: r.map (·.2))) := by
  unfold toSnakeCase
  rw [split_noisy sp0 w0 r trail h0 hw0 ht hr]

/-- `process_header` on a header that is not itself a slot name but normalises to a (non-alias) slot -/
theorem processHeader_of_snake (dc : Bool) (h : Str) (h1 : (isColumn h && (aliasOf h).isNone) = false)
    (h2 : isColumn (toSnakeCase h) = true) (h3 : aliasOf (toSnakeCase h) = none) :
    processHeader dc h = (toSnakeCase h, [toSnakeCase h]) := by
  simp [processHeader, h1, h2, h3]

/-- **noisy_header_reads**: every whitespace / case spelling of a setting's name reads as that setting:
    if the lower-cased `_`-joined words are a (non-alias) `Survey` slot `n`, `process_header` returns `n`. -/
theorem noisy_header_reads (dc : Bool) (sp0 w0 : Str) (r : List (Str × Str)) (trail : Str) (h0 : IsWs sp0)
    (hw0 : IsWord w0) (ht : IsWs trail) (hr : ∀ p ∈ r, IsWs p.1 ∧ p.1 ≠ [] ∧ IsWord p.2)
    (hcol : isColumn (lowerAscii (joinWith ['_'] (w0 :: r.map (·.2)))) = true)
    (hal : aliasOf (lowerAscii (joinWith ['_'] (w0 :: r.map (·.2)))) = none)
    (hself : (isColumn (noisy ((sp0, w0) :: r) trail) && (aliasOf (noisy ((sp0, w0) :: r) trail)).isNone) = false) :
    processHeader dc (noisy ((sp0, w0) :: r) trail) =
      (lowerAscii (joinWith ['_'] (w0 :: r.map (·.2))), [lowerAscii (joinWith ['_'] (w0 :: r.map (·.2)))]) := by
  have hs := snake_noisy sp0 w0 r trail h0 hw0 ht hr
  have := processHeader_of_snake dc _ hself (by rw [hs]; exact hcol) (by rw [hs]; exact hal)
  rw [this, hs]

/-! ### alias spellings (`form title`, `Set Form Id`, …) -/

theorem mem_takeWhile_p {p : Char → Bool} {l : Str} {c : Char} (h : c ∈ l.takeWhile p) : p c = true := by
  induction l with
  | nil => simp at h
  | cons x xs ih =>
    by_cases hx : p x = true
    · simp only [List.takeWhile_cons, hx, if_true, List.mem_cons] at h
      rcases h with rfl | h
      · exact hx
      · exact ih h
    · simp [List.takeWhile_cons, hx] at h

theorem splitWs_lstrip (h : Str) : splitWs (lstrip h) = splitWs h := by
  unfold splitWs lstrip
  have hd := List.takeWhile_append_dropWhile (p := pyIsSpace) (l := h)
  have hw : IsWs (h.takeWhile pyIsSpace) := fun c hc => mem_takeWhile_p hc
  conv => rhs; rw [← hd]
  rw [aux_ws_lead _ hw]

theorem splitWs_rstrip (h : Str) : splitWs (rstrip h) = splitWs h := by
  unfold splitWs rstrip
  have hd := List.takeWhile_append_dropWhile (p := pyIsSpace) (l := h.reverse)
  have hw : IsWs (h.reverse.takeWhile pyIsSpace).reverse := fun c hc =>
    mem_takeWhile_p (List.mem_reverse.mp hc)
  have hh : h = (h.reverse.dropWhile pyIsSpace).reverse ++ (h.reverse.takeWhile pyIsSpace).reverse := by
    rw [← List.reverse_append, hd, List.reverse_reverse]
  conv => rhs; rw [hh]
  rw [aux_append_ws _ _ hw]

theorem toSnakeCase_strip (h : Str) : toSnakeCase (strip h) = toSnakeCase h := by
  unfold toSnakeCase strip
  rw [splitWs_rstrip, splitWs_lstrip]

theorem splitOnChar_absent (c : Char) (h : Str) (hc : c ∉ h) : splitOnChar c h = [h] := by
  induction h with
  | nil => rfl
  | cons x xs ih =>
    have hx : x ≠ c := fun e => hc (by simp [e])
    have := ih (fun m => hc (by simp [m]))
    simp [splitOnChar, this, hx]

theorem isInfix_dc_absent (h : Str) (hc : ':' ∉ h) : isInfix (S "::") h = false := by
  induction h with
  | nil => decide
  | cons x xs ih =>
    have hx : x ≠ ':' := fun e => hc (by simp [e])
    have := ih (fun m => hc (by simp [m]))
    have hs : startsWith (x :: xs) (S "::") = false := by
      show startsWith (x :: xs) [':', ':'] = false
      simp [startsWith, hx]
    simp [isInfix, this, hs]

/-- `process_header` on a header without `:` whose normal form is a settings alias -/
theorem processHeader_alias (h : Str) (hc : ':' ∉ h) (h1 : (isColumn h && (aliasOf h).isNone) = false)
    (h2 : (isColumn (toSnakeCase h) && (aliasOf (toSnakeCase h)).isNone) = false) (c : Char) (cs : Str)
    (hal : aliasOf (toSnakeCase h) = some (c :: cs)) :
    processHeader false h = (c :: cs, [c :: cs]) := by
  simp only [processHeader, h1, h2, Bool.false_eq_true, if_false, Bool.false_or, isInfix_dc_absent h hc,
    splitOnChar_absent ':' h hc, List.map_cons, List.map_nil, toSnakeCase_strip, hal]
  simp

/-- **noisy_alias_reads**: every whitespace / case spelling of a settings *alias* (`form_title`,
    `set_form_id`, …) reads as the aliased setting, in a sheet without `::` headers -/
theorem noisy_alias_reads (sp0 w0 : Str) (r : List (Str × Str)) (trail : Str) (h0 : IsWs sp0)
    (hw0 : IsWord w0) (ht : IsWs trail) (hr : ∀ p ∈ r, IsWs p.1 ∧ p.1 ≠ [] ∧ IsWord p.2)
    (hcolon : ':' ∉ noisy ((sp0, w0) :: r) trail) (c : Char) (cs : Str)
    (hal : aliasOf (lowerAscii (joinWith ['_'] (w0 :: r.map (·.2)))) = some (c :: cs))
    (hself : (isColumn (noisy ((sp0, w0) :: r) trail) && (aliasOf (noisy ((sp0, w0) :: r) trail)).isNone) = false) :
    processHeader false (noisy ((sp0, w0) :: r) trail) = (c :: cs, [c :: cs]) := by
  have hs := snake_noisy sp0 w0 r trail h0 hw0 ht hr
  apply processHeader_alias _ hcolon hself _ c cs (by rw [hs]; exact hal)
  rw [hs, hal]; simp

/-- non-vacuity: `version` written as NBSP + `VERSION` + line break, and `instance name` with a TAB and
    an ideographic space between the words, a leading blank and a trailing NBSP -/
example :
    processHeader false ([Char.ofNat 0xA0] ++ S "VERSION" ++ ['\n']) = (S "version", [S "version"]) ∧
    processHeader true (noisy [(S " ", S "instance"), (['\t', Char.ofNat 0x3000], S "Name")] [Char.ofNat 0xA0])
      = (S "instance_name", [S "instance_name"]) ∧
    processHeader false (S "form" ++ [Char.ofNat 0xA0] ++ S "title") = (S "title", [S "title"]) ∧
    processHeader false (S "form\ttitle") = (S "title", [S "title"]) ∧
    IsWs ['\t', Char.ofNat 0x3000] ∧ IsWord (S "Name") := by
  refine ⟨by decide +kernel, by decide +kernel, by decide +kernel, by decide +kernel, ?_, ?_⟩
  · intro c hc; simp at hc; rcases hc with rfl | rfl <;> decide
  · refine ⟨by decide, ?_⟩
    intro c hc
    have : c ∈ ['N', 'a', 'm', 'e'] := hc
    simp at this
    rcases this with rfl | rfl | rfl | rfl <;> decide

end Pyxv.C11
