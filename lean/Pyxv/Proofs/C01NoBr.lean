import Pyxv.Proofs.C01Form
/-!
# C01: the `]`-freeness of the assembled document, reduced to its name sources

`noBrTree (assemble …)` — the complement of finding F5 that the main theorems carry — holds as soon as
the *user-supplied names of the header* (prefixes of the `namespaces` tokens, `attribute::` / settings
`instance::` column names, the form name) and the names inside the parts are `]`-free: every static
name of the frame is.
-/
namespace Pyxv.C01
open Pyxv Pyxv.Xml Pyxv.Asm Pyxv.Rows

/-- the header's user-supplied names contain no `]` -/
structure HeaderNoBr (f : Fields) : Prop where
  tokens : (nsPairs (nsString f)).all (fun kv => noBr kv.1) = true
  attrib : f.attrib.all (fun kv => noBr kv.1) = true
  instAttrs : f.instAttrs.all (fun kv => noBr kv.1) = true
  name : noBr f.name = true

theorem noBr_xmlns (k : Str) (h : noBr k = true) : noBr (xmlnsColon ++ k) = true := by
  simp only [noBr, Bool.not_eq_true', List.contains_eq_mem, decide_eq_false_iff_not, List.mem_append] at h ⊢
  intro e
  rcases e with e | e
  · revert e; decide
  · exact h e

theorem htmlAttrs_noBr (f : Fields) (h : (nsPairs (nsString f)).all (fun kv => noBr kv.1) = true) :
    (htmlAttrs f).all (fun kv => noBr kv.1) = true := by
  unfold htmlAttrs
  refine all_setAttrs _ _ [] rfl (all_getNsmap _ f (by decide +kernel) ?_)
  intro kv hkv _
  exact noBr_xmlns kv.1 ((List.all_eq_true.mp h) kv hkv)

theorem rootAttrs_noBr (f : Fields) (H : HeaderNoBr f) : (rootAttrs f).all (fun kv => noBr kv.1) = true :=
  all_rootAttrs _ f H.instAttrs H.attrib (show noBr "id".toList = true by decide)
    (show noBr "xmlns".toList = true by decide) (show noBr "version".toList = true by decide)
    (show noBr "odk:prefix".toList = true by decide) (show noBr "odk:delimiter".toList = true by decide)

theorem noBrKids_append (L1 L2 : List Node) : noBrKids (L1 ++ L2) = (noBrKids L1 && noBrKids L2) := by
  induction L1 with
  | nil => simp [noBrKids]
  | cons n r ih => simp [noBrKids, ih, Bool.and_assoc]

theorem noBr_elem {t : Str} {a : List (Str × Str)} {ks : List Node} (ht : noBr t = true)
    (ha : a.all (fun kv => noBr kv.1) = true) (hk : noBrKids ks = true) : noBrTree (.elem t a ks) = true := by
  simp [noBrTree, ht, ha, hk]

theorem noBrKids_cons {k : Node} {ks : List Node} (h1 : noBrTree k = true) (h2 : noBrKids ks = true) :
    noBrKids (k :: ks) = true := by
  simp [noBrKids, h1, h2]

theorem noBrKids_nil : noBrKids [] = true := by simp [noBrKids]

theorem subAttrs_noBr (f : Fields) : (subAttrs f).all (fun kv => noBr kv.1) = true :=
  all_subAttrs _ f (show noBr "action".toList = true by decide) (show noBr "method".toList = true by decide)
    (show noBr "base64RsaPublicKey".toList = true by decide) (show noBr "orx:auto-send".toList = true by decide)
    (show noBr "orx:auto-delete".toList = true by decide)

theorem modelAttrs_noBr (f : Fields) : (modelAttrs f).all (fun kv => noBr kv.1) = true := by
  unfold modelAttrs
  cases f.entityFeatures <;> decide +kernel

/-- **the frame adds no `]`**: the assembled document is `]`-free when the header's names and the parts are -/
theorem noBrTree_assemble (f : Fields) (H : HeaderNoBr f) (itext : Option (List Node)) (rk rest bk : List Node)
    (hit : ∀ ks, itext = some ks → noBrKids ks = true) (hrk : noBrKids rk = true)
    (hrest : noBrKids rest = true) (hbk : noBrKids bk = true) :
    noBrTree (assemble f itext rk rest bk) = true := by
  have nil : ([] : List (Str × Str)).all (fun kv => noBr kv.1) = true := rfl
  have hsub : noBrKids (submissionNode f) = true := by
    unfold submissionNode
    split
    · exact noBrKids_nil
    · exact noBrKids_cons (noBr_elem (by decide) (all_setAttrs _ _ [] rfl (subAttrs_noBr f)) noBrKids_nil) noBrKids_nil
  have hitext : noBrKids (itextPart itext) = true := by
    cases itext with
    | none => exact noBrKids_nil
    | some ks => exact noBrKids_cons (noBr_elem (by decide) nil (hit ks rfl)) noBrKids_nil
  have hinst : noBrTree (pyNode "instance".toList [] [.elem f.name (rootAttrs f) rk]) = true :=
    noBr_elem (by decide) nil (noBrKids_cons (noBr_elem H.name (rootAttrs_noBr f H) hrk) noBrKids_nil)
  have hmk : noBrKids (modelKids f itext rk rest) = true := by
    unfold modelKids
    rw [noBrKids_append, noBrKids_append, hsub, hitext]
    exact noBrKids_cons hinst hrest
  have hbodyA : (setAttrs [] (optAttr "class" f.style)).all (fun kv => noBr kv.1) = true := by
    rw [bodyAttrs_eq]; unfold optAttr; split
    · rfl
    · simp only [List.all_cons, List.all_nil, Bool.and_true]; decide
  exact noBr_elem (by decide) (htmlAttrs_noBr f H.tokens)
    (noBrKids_cons
      (noBr_elem (by decide) nil
        (noBrKids_cons (noBr_elem (by decide) nil (noBrKids_cons (by simp [noBrTree]) noBrKids_nil))
          (noBrKids_cons (noBr_elem (by decide) (all_setAttrs _ _ [] rfl (modelAttrs_noBr f)) hmk) noBrKids_nil)))
      (noBrKids_cons (noBr_elem (by decide) hbodyA hbk) noBrKids_nil))

#print axioms noBrTree_assemble

/-- C01 for an accepted document with the `]`-freeness stated on the name sources -/
theorem accepted_assembled_holds_names (f : Fields) (itext : Option (List Node)) (rk rest bk : List Node)
    (hv : validDoc [] (assemble f itext rk rest bk) = true) (H : HeaderNoBr f)
    (hit : ∀ ks, itext = some ks → noBrKids ks = true) (hrk : noBrKids rk = true)
    (hrest : noBrKids rest = true) (hbk : noBrKids bk = true)
    (hd : PartsDom itext rk rest bk) (pretty : Bool) :
    holds (renderDoc pretty (assemble f itext rk rest bk)) (normAttrVal f.idString) = true :=
  accepted_assembled_holds f itext rk rest bk hv (noBrTree_assemble f H itext rk rest bk hit hrk hrest hbk) hd pretty

-- non-vacuity
example : HeaderNoBr exFields := by constructor <;> decide +kernel

end Pyxv.C01
