import Pyxv.Proofs.C03Rel
/-!
# C03: the chain list of a well-formed element tree is `Valid`

`El.WF` is what `SurveyElement.validate` / `Section._validate_uniqueness_of_element_names` enforce:
every name is an XML name (here: non-empty, no `/`) and sibling names are pairwise different.
With `chains_valid`, `relative_when_enclosed` needs nothing beyond that (and that the survey root is
not a repeat).
-/
namespace Pyxv.Refs
open Pyxv

def El.name : El → Str | .mk _ n _ => n
def El.kind : El → Kind | .mk k _ _ => k

mutual
/-- names are good and siblings have different names, at every level -/
def El.WF : El → Prop
  | .mk _ n kids => ('/' ∉ n ∧ n ≠ []) ∧ WFL kids
def WFL : List El → Prop
  | [] => True
  | e :: es => e.WF ∧ (∀ e' ∈ es, e'.name ≠ e.name) ∧ WFL es
end

mutual
theorem chains_head (pre : Chain) : (e : El) → ∀ c ∈ e.chains pre, ∃ suf, c = pre ++ (e.name, e.kind) :: suf
  | .mk k n kids, c, hc => by
    simp only [El.chains, List.mem_cons] at hc
    rcases hc with rfl | hc
    · exact ⟨[], by simp [El.name, El.kind]⟩
    · obtain ⟨e', _, suf, hs⟩ := chainsL_head (pre ++ [(n, k)]) kids c hc
      exact ⟨(e'.name, e'.kind) :: suf, by simp [hs, El.name, El.kind]⟩
theorem chainsL_head (pre : Chain) : (es : List El) → ∀ c ∈ chainsL pre es,
    ∃ e ∈ es, ∃ suf, c = pre ++ (e.name, e.kind) :: suf
  | [], c, hc => by simp [chainsL] at hc
  | e :: es, c, hc => by
    simp only [chainsL, List.mem_append] at hc
    rcases hc with h | h
    · obtain ⟨suf, hs⟩ := chains_head pre e c h
      exact ⟨e, by simp, suf, hs⟩
    · obtain ⟨e', he', suf, hs⟩ := chainsL_head pre es c h
      exact ⟨e', by simp [he'], suf, hs⟩
end

/-- what the chains below a prefix `pre` satisfy -/
structure Inv (pre : Chain) (S : List Chain) : Prop where
  starts : ∀ c ∈ S, ∃ suf, c = pre ++ suf ∧ suf ≠ []
  good : GoodNames pre.path → ∀ c ∈ S, GoodNames c.path
  closed : ∀ c ∈ S, ∀ j, pre.length < j → j ≤ c.length → c.take j ∈ S
  uniq : ∀ c ∈ S, ∀ d ∈ S, c.path = d.path → c = d

theorem path_append (a b : Chain) : Chain.path (a ++ b) = a.path ++ b.path := by simp [Chain.path]

theorem goodNames_append {a b : List Str} (ha : GoodNames a) (hb : GoodNames b) : GoodNames (a ++ b) := by
  intro s hs
  rcases List.mem_append.1 hs with h | h
  · exact ha s h
  · exact hb s h

mutual
theorem chains_inv (pre : Chain) : (e : El) → e.WF → Inv pre (e.chains pre)
  | .mk k n kids, hwf => by
    have hn : '/' ∉ n ∧ n ≠ [] := by simp only [El.WF] at hwf; exact hwf.1
    have hk : WFL kids := by simp only [El.WF] at hwf; exact hwf.2
    have ih := chainsL_inv (pre ++ [(n, k)]) kids hk
    have hlen : (pre ++ [(n, k)]).length = pre.length + 1 := by simp
    refine ⟨?_, ?_, ?_, ?_⟩
    · intro c hc
      simp only [El.chains, List.mem_cons] at hc
      rcases hc with rfl | hc
      · exact ⟨[(n, k)], rfl, by simp⟩
      · obtain ⟨suf, hs, _⟩ := ih.starts c hc
        exact ⟨(n, k) :: suf, by simp [hs], by simp⟩
    · intro hpre c hc
      have hp' : GoodNames (Chain.path (pre ++ [(n, k)])) := by
        rw [path_append]
        exact goodNames_append hpre (by intro s hs; simp [Chain.path] at hs; subst hs; exact hn)
      simp only [El.chains, List.mem_cons] at hc
      rcases hc with rfl | hc
      · exact hp'
      · exact ih.good hp' c hc
    · intro c hc j hj1 hj2
      simp only [El.chains, List.mem_cons] at hc ⊢
      rcases hc with rfl | hc
      · left
        rw [hlen] at hj2
        have : j = (pre ++ [(n, k)]).length := by omega
        rw [this, List.take_length]
      · obtain ⟨suf, hs, _⟩ := ih.starts c hc
        by_cases hj : j = pre.length + 1
        · left
          rw [hs, hj, ← hlen, List.take_left']
          rfl
        · right
          exact ih.closed c hc j (by omega) hj2
    · intro c hc d hd hp
      simp only [El.chains, List.mem_cons] at hc hd
      rcases hc with rfl | hc <;> rcases hd with rfl | hd
      · rfl
      · obtain ⟨suf, hs, hne⟩ := ih.starts d hd
        exfalso
        have hlen := congrArg List.length hp
        rw [hs] at hlen
        simp only [Chain.path, List.length_map, List.length_append, List.length_cons, List.length_nil] at hlen
        exact hne (List.length_eq_zero_iff.1 (by omega))
      · obtain ⟨suf, hs, hne⟩ := ih.starts c hc
        exfalso
        have hlen := congrArg List.length hp
        rw [hs] at hlen
        simp only [Chain.path, List.length_map, List.length_append, List.length_cons, List.length_nil] at hlen
        exact hne (List.length_eq_zero_iff.1 (by omega))
      · exact ih.uniq c hc d hd hp
theorem chainsL_inv (pre : Chain) : (es : List El) → WFL es → Inv pre (chainsL pre es)
  | [], _ => by
    refine ⟨?_, ?_, ?_, ?_⟩ <;> simp [chainsL]
  | e :: es, hwf => by
    have he : e.WF := by simp only [WFL] at hwf; exact hwf.1
    have hsep : ∀ e' ∈ es, e'.name ≠ e.name := by simp only [WFL] at hwf; exact hwf.2.1
    have hes : WFL es := by simp only [WFL] at hwf; exact hwf.2.2
    have ia := chains_inv pre e he
    have ib := chainsL_inv pre es hes
    refine ⟨?_, ?_, ?_, ?_⟩
    · intro c hc
      simp only [chainsL, List.mem_append] at hc
      rcases hc with h | h
      · exact ia.starts c h
      · exact ib.starts c h
    · intro hpre c hc
      simp only [chainsL, List.mem_append] at hc
      rcases hc with h | h
      · exact ia.good hpre c h
      · exact ib.good hpre c h
    · intro c hc j hj1 hj2
      simp only [chainsL, List.mem_append] at hc ⊢
      rcases hc with h | h
      · exact Or.inl (ia.closed c h j hj1 hj2)
      · exact Or.inr (ib.closed c h j hj1 hj2)
    · intro c hc d hd hp
      simp only [chainsL, List.mem_append] at hc hd
      have mixed : ∀ c ∈ e.chains pre, ∀ d ∈ chainsL pre es, c.path = d.path → False := by
        intro c hc d hd hp
        obtain ⟨s1, h1⟩ := chains_head pre e c hc
        obtain ⟨e', he', s2, h2⟩ := chainsL_head pre es d hd
        rw [h1, h2, path_append, path_append] at hp
        have := List.append_cancel_left hp
        simp [Chain.path] at this
        exact hsep e' he' this.1.symm
      rcases hc with hc | hc <;> rcases hd with hd | hd
      · exact ia.uniq c hc d hd hp
      · exact (mixed c hc d hd hp).elim
      · exact (mixed d hd c hc hp.symm).elim
      · exact ib.uniq c hc d hd hp
end

/-- **chains_valid.**  The element list of a tree whose names are XML names and whose sibling names are
pairwise different — what `Survey.validate` checks — is `Valid`, provided the root is not a repeat. -/
theorem chains_valid (tree : El) (hwf : tree.WF) (hroot : tree.kind ≠ .rep) : Valid (tree.chains []) := by
  have inv := chains_inv [] tree hwf
  refine ⟨?_, ?_, ?_, ?_⟩
  · exact fun c hc => inv.good (by intro s hs; simp [Chain.path] at hs) c hc
  · intro c hc i hi
    exact inv.closed c hc (i + 1) (by simp) (by omega)
  · exact inv.uniq
  · intro c hc
    obtain ⟨suf, hs⟩ := chains_head [] tree c hc
    rw [hs]
    simp only [List.nil_append, List.take_succ_cons, List.take_zero, Chain.isRep, List.getLast?_singleton]
    cases hk : tree.kind <;> simp_all

/-- `relative_when_enclosed` for element trees: nothing is assumed beyond what pyxform validates. -/
theorem relative_when_enclosed_tree (tree : El) (hwf : tree.WF) (hroot : tree.kind ≠ .rep)
    (c t : Chain) (hc : c ∈ tree.chains []) (name : Str) (fl : Flags)
    (hlook : (tree.chains []).filter (named name) = [t])
    (r : Nat) (hrt : r < t.length) (hrc : r < c.length)
    (hrep : Chain.isRep (t.take r) = true)
    (hinner : ∀ j, r < j → j < t.length → Chain.isRep (t.take j) = false)
    (henc : c.take r = t.take r) (hls : fl.lastSaved = false) (hia : fl.indexedArg = false) :
    ∃ k d, refFor (tree.chains []) (some c) name fl = .ok (fl.useCurrent || fl.inPredicate) (.rel k d) :=
  relative_when_enclosed _ (chains_valid tree hwf hroot) c t hc name fl hlook r hrt hrc hrep hinner henc hls hia

/-- non-vacuity: the sample tree is well formed -/
example : exTree.WF ∧ exTree.kind ≠ .rep := by
  refine ⟨?_, by decide⟩
  simp [exTree, El.WF, WFL, El.name]

end Pyxv.Refs
