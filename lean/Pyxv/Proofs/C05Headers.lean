import Pyxv.Proofs.C05
import Pyxv.Model.Headers
/-!
# Bridge: `Pyxv.Binds`' private copy of `process_header` agrees with `Pyxv.Headers` (C08 / C13's model)

Both files model `sheet_headers.to_snake_case` / `process_header`.  Here the two are proved equal, for every
header, alias table and column set, so `header_to_bind`, `header_bind_double`, `header_bind_single` are
theorems about `Pyxv.Headers.processHeader` as well (and C08's / C13's facts about it apply to the tokens
the bind slice starts from).  The row level (`process_row`) is tied by the driver op `binds.headers_bridge`
on every generated sheet, not by a theorem.
-/
namespace Pyxv.C05
open Pyxv Pyxv.Binds

theorem hsplitWs_ne_nil (c : Char) (cs : Str) (hc : pyIsSpace c = false) :
    ∃ w ws, Headers.splitWs (c :: cs) = w :: ws := by
  unfold Headers.splitWs
  rw [if_neg (by simp [hc])]
  cases cs with
  | nil => exact ⟨_, _, rfl⟩
  | cons d ds =>
    simp only
    by_cases hd : pyIsSpace d = true
    · rw [if_pos hd]; exact ⟨_, _, rfl⟩
    · rw [if_neg hd]
      cases Headers.splitWs (d :: ds) with
      | nil => exact ⟨_, _, rfl⟩
      | cons w ws => exact ⟨_, _, rfl⟩

/-- the accumulator version of `str.split()` against the direct one -/
theorem splitWsAux_eq : ∀ (s cur : Str), splitWsAux cur s =
    match s with
    | [] => if cur.isEmpty then [] else [cur.reverse]
    | c :: _ =>
      if pyIsSpace c then (if cur.isEmpty then Headers.splitWs s else cur.reverse :: Headers.splitWs s)
      else match Headers.splitWs s with
        | [] => []
        | w :: ws => (cur.reverse ++ w) :: ws := by
  intro s
  induction s with
  | nil => intro cur; unfold splitWsAux; rfl
  | cons c cs ih =>
    intro cur
    -- the value of the accumulator version on the tail, started afresh
    have fresh : splitWsAux [] cs = Headers.splitWs cs := by
      rw [ih []]
      cases cs with
      | nil => rfl
      | cons d ds =>
        simp only [List.isEmpty_nil, if_true, List.reverse_nil, List.nil_append]
        by_cases hd : pyIsSpace d = true
        · rw [if_pos hd]
        · rw [if_neg hd]
          obtain ⟨w, ws, e⟩ := hsplitWs_ne_nil d ds (by simpa using hd)
          rw [e]
    unfold splitWsAux
    by_cases hc : pyIsSpace c = true
    · simp only [hc, if_true]
      have hh : Headers.splitWs (c :: cs) = Headers.splitWs cs := by
        simp [Headers.splitWs, hc]
      rw [fresh, hh]
    · simp only [hc, Bool.false_eq_true, if_false]
      rw [ih (c :: cur)]
      cases cs with
      | nil =>
        simp [Headers.splitWs, hc]
      | cons d ds =>
        simp only [List.isEmpty_cons, Bool.false_eq_true, if_false, List.reverse_cons]
        by_cases hd : pyIsSpace d = true
        · rw [if_pos hd]
          have : Headers.splitWs (c :: d :: ds) = [c] :: Headers.splitWs (d :: ds) := by
            rw [Headers.splitWs.eq_def]; simp [hc, hd]
          rw [this]
        · rw [if_neg hd]
          obtain ⟨w, ws, e⟩ := hsplitWs_ne_nil d ds (by simpa using hd)
          have : Headers.splitWs (c :: d :: ds) = (c :: w) :: ws := by
            rw [Headers.splitWs.eq_def]; simp [hc, hd, e]
          rw [this, e]
          simp

theorem splitWs_eq (s : Str) : Binds.splitWs s = Headers.splitWs s := by
  unfold Binds.splitWs
  rw [splitWsAux_eq s []]
  cases s with
  | nil => rfl
  | cons c cs =>
    simp only [List.isEmpty_nil, if_true, List.reverse_nil, List.nil_append]
    by_cases hc : pyIsSpace c = true
    · rw [if_pos hc]
    · rw [if_neg hc]
      obtain ⟨w, ws, e⟩ := hsplitWs_ne_nil c cs (by simpa using hc)
      rw [e]

theorem toSnakeCase_eq (s : Str) : Binds.toSnakeCase s = Headers.toSnakeCase s := by
  unfold Binds.toSnakeCase Headers.toSnakeCase
  rw [splitWs_eq]

theorem splitDC_eq_aux : ∀ (n : Nat) (s : Str), s.length ≤ n → Headers.splitDC s = splitOn2 ':' s := by
  intro n
  induction n with
  | zero => intro s hs; cases s with | nil => rfl | cons _ _ => simp at hs
  | succ n ih =>
    intro s hs
    cases s with
    | nil => rfl
    | cons c t =>
      cases t with
      | nil => rfl
      | cons d r =>
        rw [splitOn2_cons2, Headers.splitDC]
        by_cases h : c = ':' ∧ d = ':'
        · rw [if_pos h, if_pos h, ih r (by simp at hs; omega)]
        · rw [if_neg h, if_neg h, ih (d :: r) (by simp at hs ⊢; omega)]
          cases splitOn2 ':' (d :: r) <;> rfl

theorem splitDC_eq (s : Str) : Headers.splitDC s = splitOn2 ':' s := splitDC_eq_aux s.length s (Nat.le_refl _)

theorem fixJr_eq : ∀ (l : List Str), jrFix l = (match Headers.fixJr l with | .ok r => some r | .error _ => none) := by
  intro l
  induction l with
  | nil => rfl
  | cons t ts ih =>
    unfold jrFix Headers.fixJr
    by_cases h : t = "jr".toList
    · rw [if_pos h, if_pos h]
      cases ts <;> rfl
    · rw [if_neg h, if_neg h, ih]
      cases Headers.fixJr ts <;> rfl

/-- **processHeader_agrees.**  For every header, delimiter regime, alias table and column set, the bind
    slice's `process_header` and `Pyxv.Headers.processHeader` return the same tokens (and the same
    string-or-tuple `new_header`), or both hit the IndexError of a trailing `jr`. -/
theorem processHeader_agrees (udc : Bool) (al : List (Str × List Str)) (cols : List Str) (h : Str) :
    (Binds.processHeader udc al cols h).map (fun r => ((match r.1 with | .str s => some s | .tup => none), r.2)) =
      (match Headers.processHeader h udc al cols with
       | .ok r => some r
       | .error _ => none) := by
  unfold Binds.processHeader Headers.processHeader
  simp only [toSnakeCase_eq]
  split
  · rfl
  split
  · rfl
  by_cases hd : (udc || isInfix "::".toList h) = true
  · simp only [hd, if_true, splitDC_eq]
    cases hs : (splitOn2 ':' h).map strip with
    | nil => rfl
    | cons t0 rest =>
      simp only
      cases hl : lookup (Headers.toSnakeCase t0) al with
      | none => by_cases hc : Headers.toSnakeCase t0 ∈ cols <;> simp [hc]
      | some toks =>
        cases toks with
        | nil => by_cases hc : Headers.toSnakeCase t0 ∈ cols <;> simp [hc]
        | cons a as => cases as <;> simp
  · simp only [hd, Bool.false_eq_true, if_false, fixJr_eq]
    cases hs : Headers.fixJr ((splitOnChar ':' h).map strip) with
    | error e => rfl
    | ok toks0 =>
      cases toks0 with
      | nil => rfl
      | cons t0 rest =>
        simp only
        cases hl : lookup (Headers.toSnakeCase t0) al with
        | none => by_cases hc : Headers.toSnakeCase t0 ∈ cols <;> simp [hc]
        | some toks =>
          cases toks with
          | nil => by_cases hc : Headers.toSnakeCase t0 ∈ cols <;> simp [hc]
          | cons a as => cases as <;> simp

/-- the bridge on a concrete noisy spelling: both models give `(bind, readonly)` -/
example : (match Headers.processHeader " Read  ONLY ".toList true surveyAliases surveyColumns with
    | .ok r => some r | .error _ => none) = some (none, ["bind".toList, "readonly".toList]) ∧
    Binds.processHeader true surveyAliases surveyColumns " Read  ONLY ".toList =
      some (.tup, ["bind".toList, "readonly".toList]) := by decide +kernel

end Pyxv.C05
