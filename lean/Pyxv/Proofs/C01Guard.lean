import Pyxv.Proofs.C01
/-!
# C01: the frame guard in terms of the `namespaces` cell

`FrameOK` is stated on the computed attribute lists.  Here its `<h:html>` part is derived from a
condition on the *tokens* of the `namespaces` setting: every `prefix=uri` token has an NCName
prefix other than `xmlns` and a URI of XML characters.
-/
namespace Pyxv.C01
open Pyxv Pyxv.Xml Pyxv.Asm

/-! ## Python dict -/

theorem all_dictSet (p : Str × Str → Bool) (d : List (Str × Str)) (k v : Str)
    (hd : d.all p = true) (hkv : ∀ k', k' = k → p (k', v) = true) : (dictSet d k v).all p = true := by
  induction d with
  | nil => simp [dictSet, hkv k rfl]
  | cons kv r ih =>
    obtain ⟨k', v'⟩ := kv
    simp only [List.all_cons, Bool.and_eq_true] at hd
    unfold dictSet
    split
    · rename_i e
      simp only [List.all_cons, Bool.and_eq_true]
      exact ⟨hkv k' e, hd.2⟩
    · simp only [List.all_cons, Bool.and_eq_true]
      exact ⟨hd.1, ih hd.2⟩

theorem lookup_dictSet_other (d : List (Str × Str)) (k k' v' : Str) (hk : k' ≠ k) :
    lookup k (dictSet d k' v') = lookup k d := by
  have hk2 : ¬ k = k' := fun e => hk e.symm
  induction d with
  | nil => simp [dictSet, lookup, hk2]
  | cons kv r ih =>
    obtain ⟨k2, v2⟩ := kv
    unfold dictSet
    split
    · rename_i e
      subst e
      simp [lookup, hk2]
    · simp [lookup, ih]

theorem keys_dictSet_nodup (d : List (Str × Str)) (k v : Str) (h : attrKeysNodup d = true) :
    attrKeysNodup (dictSet d k v) = true := by
  rw [attrKeysNodup_iff] at h ⊢
  induction d with
  | nil => simp [dictSet]
  | cons kv r ih =>
    obtain ⟨k', v'⟩ := kv
    simp only [List.map_cons, List.nodup_cons] at h
    unfold dictSet
    split
    · simpa using h
    · rename_i hne
      simp only [List.map_cons, List.nodup_cons]
      refine ⟨?_, ih h.2⟩
      intro hm
      rw [List.mem_map] at hm
      obtain ⟨x, hx, hxk⟩ := hm
      -- an entry of `dictSet r k v` is in `r` or has key `k`
      have : (dictSet r k v).all (fun y => decide (y.1 ∈ r.map Prod.fst) || decide (y.1 = k)) = true := by
        apply all_dictSet
        · rw [List.all_eq_true]
          intro y hy
          simp only [Bool.or_eq_true, decide_eq_true_eq]
          exact Or.inl (List.mem_map.mpr ⟨y, hy, rfl⟩)
        · intro k2 e; simp [e]
      have hx' := (List.all_eq_true.mp this) x hx
      simp only [Bool.or_eq_true, decide_eq_true_eq] at hx'
      rcases hx' with hx' | hx'
      · exact h.1 (hxk ▸ hx')
      · exact hne (by rw [← hxk, hx'])

theorem all_dictUpdate (p : Str × Str → Bool) (u d : List (Str × Str)) (hd : d.all p = true)
    (hu : u.all p = true) : (dictUpdate d u).all p = true := by
  unfold dictUpdate
  induction u generalizing d with
  | nil => exact hd
  | cons kv r ih =>
    simp only [List.all_cons, Bool.and_eq_true] at hu
    exact ih _ (all_dictSet p d kv.1 kv.2 hd (fun k' e => by rw [e]; exact hu.1)) hu.2

theorem nodup_dictUpdate (u d : List (Str × Str)) (hd : attrKeysNodup d = true) :
    attrKeysNodup (dictUpdate d u) = true := by
  unfold dictUpdate
  induction u generalizing d with
  | nil => exact hd
  | cons kv r ih => exact ih _ (keys_dictSet_nodup d kv.1 kv.2 hd)

theorem lookup_dictUpdate_other (k : Str) (u d : List (Str × Str)) (hu : u.all (fun x => x.1 != k) = true) :
    lookup k (dictUpdate d u) = lookup k d := by
  unfold dictUpdate
  induction u generalizing d with
  | nil => rfl
  | cons kv r ih =>
    simp only [List.all_cons, Bool.and_eq_true, bne_iff_ne] at hu
    rw [List.foldl_cons, ih _ hu.2, lookup_dictSet_other d k kv.1 kv.2 hu.1]

/-! ## `get_nsmap` -/

/-- every entry `get_nsmap` adds comes from a `prefix=uri` token whose `xmlns:prefix` is not in the base map -/
theorem all_nsExtra (p : Str × Str → Bool) (B P : List (Str × Str))
    (h : ∀ kv ∈ P, lookup (xmlnsColon ++ kv.1) B = none → p (xmlnsColon ++ kv.1, stripQuotes kv.2) = true) :
    (nsExtra B P).all p = true := by
  unfold nsExtra
  suffices H : ∀ acc : List (Str × Str), acc.all p = true →
      (P.foldl (fun acc kv => if (lookup (xmlnsColon ++ kv.1) B).isSome then acc
        else dictSet acc (xmlnsColon ++ kv.1) (stripQuotes kv.2)) acc).all p = true from H [] rfl
  induction P with
  | nil => exact fun acc ha => ha
  | cons kv r ih =>
    intro acc ha
    rw [List.foldl_cons]
    apply ih (fun x hx => h x (List.mem_cons_of_mem _ hx))
    split
    · exact ha
    · rename_i hn
      have hnone : lookup (xmlnsColon ++ kv.1) B = none := by
        cases hl : lookup (xmlnsColon ++ kv.1) B with
        | none => rfl
        | some v => rw [hl] at hn; simp at hn
      exact all_dictSet p acc _ _ ha (fun k' e => by rw [e]; exact h kv (List.mem_cons_self ..) hnone)

theorem all_getNsmap (p : Str × Str → Bool) (f : Fields) (hB : NSMAP.all p = true)
    (h : ∀ kv ∈ nsPairs (nsString f), lookup (xmlnsColon ++ kv.1) NSMAP = none →
      p (xmlnsColon ++ kv.1, stripQuotes kv.2) = true) : (getNsmap f).all p = true := by
  unfold getNsmap
  split
  · exact hB
  · exact all_dictUpdate p _ _ hB (all_nsExtra p NSMAP _ h)

theorem nodup_getNsmap (f : Fields) : attrKeysNodup (getNsmap f) = true := by
  have hB : attrKeysNodup NSMAP = true := by decide +kernel
  unfold getNsmap
  split
  · exact hB
  · exact nodup_dictUpdate _ _ hB

/-- `get_nsmap` never changes an entry of `NSMAP` -/
theorem lookup_getNsmap_base (f : Fields) (k v : Str) (hk : lookup k NSMAP = some v) :
    lookup k (getNsmap f) = some v := by
  unfold getNsmap
  split
  · exact hk
  · rw [lookup_dictUpdate_other k _ NSMAP, hk]
    apply all_nsExtra
    intro kv _ hnone
    simp only [bne_iff_ne]
    intro e
    rw [e, hk] at hnone
    cases hnone

/-! ## lookups survive `setAttribute` when no other attribute has the same local name -/

theorem lookup_cons_ne (k k1 v1 : Str) (r : List (Str × Str)) (h : k ≠ k1) :
    lookup k ((k1, v1) :: r) = lookup k r := by
  simp [lookup, h]

theorem lookup_cons_self (k v1 : Str) (r : List (Str × Str)) : lookup k ((k, v1) :: r) = some v1 := by
  simp [lookup]

theorem lookup_setAttrs (k : Str) (l d : List (Str × Str)) (hn : attrKeysNodup l = true)
    (hl : l.all (fun x => x.1 == k || attrLocal x.1 != attrLocal k) = true) :
    lookup k (setAttrs d l) = match lookup k l with | some v => some v | none => lookup k d := by
  unfold setAttrs
  induction l generalizing d with
  | nil => rfl
  | cons kv r ih =>
    obtain ⟨k1, v1⟩ := kv
    simp only [List.all_cons, Bool.and_eq_true] at hl
    have hn' : attrKeysNodup r = true := by
      simp only [attrKeysNodup, Bool.and_eq_true] at hn; exact hn.2
    rw [List.foldl_cons, ih _ hn' hl.2]
    by_cases hk : k1 = k
    · subst hk
      have hnot : lookup k1 r = none := by
        apply lookup_none_of_not_any
        simp only [attrKeysNodup, Bool.and_eq_true, Bool.not_eq_true'] at hn
        exact hn.1
      rw [hnot, lookup_cons_self]
      exact lookup_setAttr_self d k1 v1
    · have hk' : k ≠ k1 := fun e => hk e.symm
      rw [lookup_cons_ne k k1 v1 r hk']
      have hloc : attrLocal k ≠ attrLocal k1 := by
        have h1 := hl.1
        simp only [Bool.or_eq_true, beq_iff_eq, bne_iff_ne] at h1
        rcases h1 with h1 | h1
        · exact absurd h1 hk
        · exact fun e => h1 e.symm
      rw [lookup_setAttr_other d k k1 v1 hk hloc]

theorem contains_colon_xmlns (k : Str) : (xmlnsColon ++ k).contains ':' = true := by
  simp [xmlnsColon]

theorem attrLocal_xmlns (k : Str) : attrLocal (xmlnsColon ++ k) = k := by
  simp [xmlnsColon, attrLocal]

theorem xmlnsColon_inj {a b : Str} (h : xmlnsColon ++ a = xmlnsColon ++ b) : a = b :=
  List.append_cancel_left h

/-! ## the tokens of the `namespaces` setting -/

/-- one `prefix=uri` token: the prefix is an NCName other than `xmlns`, the URI (quotes removed)
    consists of XML characters -/
def tokenOk (kv : Str × Str) : Bool :=
  isName kv.1 && !kv.1.contains ':' && kv.1 != "xmlns".toList && (stripQuotes kv.2).all isXmlChar

/-- **NamesOK for the `namespaces` setting**, syntactically -/
def NsTokensOK (f : Fields) : Bool := (nsPairs (nsString f)).all tokenOk

theorem splitOnChar_nosep (k : Str) (h : k.contains ':' = false) : splitOnChar ':' k = [k] := by
  induction k with
  | nil => rfl
  | cons c r ih =>
    simp only [List.contains_cons, Bool.or_eq_false_iff, beq_eq_false_iff_ne] at h
    have hc : ¬ c = ':' := fun e => h.1 e.symm
    simp [splitOnChar, ih h.2, hc]

theorem splitOnChar_xmlns (k : Str) (h : k.contains ':' = false) :
    splitOnChar ':' (xmlnsColon ++ k) = ["xmlns".toList, k] := by
  simp [xmlnsColon, splitOnChar, splitOnChar_nosep k h]

theorem nameChar_of_start (c : Char) (h : nameStartChar c = true) : nameChar c = true := by
  simp [nameChar, h]

theorem isName_xmlns (k : Str) (h : isName k = true) : isName (xmlnsColon ++ k) = true := by
  cases k with
  | nil => simp [isName] at h
  | cons c r =>
    simp only [isName, Bool.and_eq_true] at h
    have hx : nameStartChar 'x' = true := by decide
    have hr : ("mlns:".toList).all nameChar = true := by decide
    show (nameStartChar 'x' && (("mlns:".toList) ++ c :: r).all nameChar) = true
    rw [hx, List.all_append, hr, List.all_cons, nameChar_of_start c h.1, h.2]; rfl

theorem attrOk_token (S : List Str) (kv : Str × Str) (h : tokenOk kv = true) :
    attrOk S (xmlnsColon ++ kv.1, stripQuotes kv.2) = true := by
  simp only [tokenOk, Bool.and_eq_true, Bool.not_eq_true'] at h
  obtain ⟨⟨⟨h1, h2⟩, _⟩, h4⟩ := h
  have hsplit := splitOnChar_xmlns kv.1 h2
  refine attrOk_intro _ _ _ (isName_xmlns _ h1) h4 ?_
  have hq : isQName (xmlnsColon ++ kv.1) = true := by
    simp only [isQName, hsplit, h1, Bool.and_true]; decide
  have hs : splitQName (xmlnsColon ++ kv.1) = (some "xmlns".toList, kv.1) := by
    simp only [splitQName, hsplit]
  simp [qnameOk, hq, hs]

theorem nsmap_attrOk (S : List Str) : NSMAP.all (attrOk S) = true := by
  have h0 : NSMAP.all (attrOk []) = true := by decide +kernel
  refine all_imp (fun x hx => ?_) h0
  simp only [attrOk, Bool.and_eq_true] at hx ⊢
  refine ⟨hx.1, ?_⟩
  have := qnameOk_mono S [] x.1 hx.2
  rwa [List.append_nil] at this

/-- the attributes of `<h:html>` satisfy the frame guard whenever the tokens are fine -/
theorem htmlAttrs_ok (f : Fields) (h : NsTokensOK f = true) (S : List Str) :
    (htmlAttrs f).all (attrOk S) = true := by
  unfold htmlAttrs
  refine all_setAttrs _ _ [] rfl (all_getNsmap _ f (nsmap_attrOk S) ?_)
  intro kv hkv _
  exact attrOk_token S kv ((List.all_eq_true.mp h) kv hkv)

theorem lookup_htmlAttrs (f : Fields) (k v : Str) (hk : lookup k NSMAP = some v)
    (hcond : (getNsmap f).all (fun x => x.1 == k || attrLocal x.1 != attrLocal k) = true) :
    lookup k (htmlAttrs f) = some v := by
  unfold htmlAttrs
  rw [lookup_setAttrs k _ [] (nodup_getNsmap f) hcond, lookup_getNsmap_base f k v hk]

/-- a prefix declared by `NSMAP` stays declared, with the same URI, on `<h:html>` -/
theorem lookup_htmlAttrs_prefixed (f : Fields) (p v : Str) (hk : lookup (xmlnsColon ++ p) NSMAP = some v)
    (hB : NSMAP.all (fun x => x.1 == xmlnsColon ++ p || attrLocal x.1 != p) = true) :
    lookup (xmlnsColon ++ p) (htmlAttrs f) = some v := by
  apply lookup_htmlAttrs f _ v hk
  apply all_getNsmap
  · simpa [attrLocal_xmlns] using hB
  · intro kv _ _
    simp only [attrLocal_xmlns, Bool.or_eq_true, beq_iff_eq, bne_iff_ne]
    by_cases e : kv.1 = p
    · exact Or.inl (by rw [e])
    · exact Or.inr e

/-- the default namespace declaration survives unless a token uses the prefix `xmlns` -/
theorem lookup_htmlAttrs_default (f : Fields) (h : NsTokensOK f = true) :
    lookup "xmlns".toList (htmlAttrs f) = some xformsNs := by
  apply lookup_htmlAttrs f _ _ nsmap_default_and_h.1
  apply all_getNsmap
  · decide +kernel
  · intro kv hkv _
    have ht := (List.all_eq_true.mp h) kv hkv
    simp only [tokenOk, Bool.and_eq_true, bne_iff_ne] at ht
    have hl : attrLocal "xmlns".toList = "xmlns".toList := by decide
    simp only [attrLocal_xmlns, hl, Bool.or_eq_true, beq_iff_eq, bne_iff_ne]
    exact Or.inr ht.1.2

theorem mem_declaredPrefixes (a : List (Str × Str)) (k p v : Str)
    (hs : splitOnChar ':' k = ["xmlns".toList, p]) (h : lookup k a = some v) :
    (declaredPrefixes a).contains p = true := by
  induction a with
  | nil => simp [lookup] at h
  | cons kv r ih =>
    obtain ⟨k1, v1⟩ := kv
    simp only [lookup] at h
    simp only [declaredPrefixes, List.filterMap_cons] at ih ⊢
    split at h
    · rename_i e
      subst e
      simp [hs]
    · have := ih h
      split <;> simp_all

theorem nsmap_prefix_declared (f : Fields) (p v : Str) (hk : lookup (xmlnsColon ++ p) NSMAP = some v)
    (hB : NSMAP.all (fun x => x.1 == xmlnsColon ++ p || attrLocal x.1 != p) = true)
    (hp : p.contains ':' = false) : (declaredPrefixes (htmlAttrs f)).contains p = true :=
  mem_declaredPrefixes _ _ p v (splitOnChar_xmlns p hp) (lookup_htmlAttrs_prefixed f p v hk hB)

theorem nsmap_prefix_declared' (f : Fields) (p : Str) (hk : (lookup (xmlnsColon ++ p) NSMAP).isSome = true)
    (hB : NSMAP.all (fun x => x.1 == xmlnsColon ++ p || attrLocal x.1 != p) = true)
    (hp : p.contains ':' = false) : (declaredPrefixes (htmlAttrs f)).contains p = true := by
  cases hv : lookup (xmlnsColon ++ p) NSMAP with
  | none => rw [hv] at hk; cases hk
  | some v => exact nsmap_prefix_declared f p v hv hB hp

/-- **the `<h:html>` part of the frame guard from the tokens of the `namespaces` cell**: for
    every `namespaces` setting whose `prefix=uri` tokens have NCName prefixes other than `xmlns`
    and URIs made of XML characters, the attributes of `<h:html>` are legal, the default and `h`
    declarations are those of `NSMAP`, and `h`, `odk`, `orx` stay declared -/
theorem html_guard_of_tokens (f : Fields) (h : NsTokensOK f = true) :
    (htmlAttrs f).all (attrOk (declaredPrefixes (htmlAttrs f))) = true ∧ NsOK f = true ∧
    ["h".toList, "odk".toList, "orx".toList].all (fun p => (declaredPrefixes (htmlAttrs f)).contains p) = true := by
  refine ⟨htmlAttrs_ok f h _, ?_, ?_⟩
  · unfold NsOK
    have hh := lookup_htmlAttrs_prefixed f "h".toList xhtmlNs nsmap_default_and_h.2 (by decide +kernel)
    have hh' : lookup "xmlns:h".toList (htmlAttrs f) = some xhtmlNs := hh
    rw [hh', lookup_htmlAttrs_default f h]
    rfl
  · have h1 := nsmap_prefix_declared f "h".toList xhtmlNs nsmap_default_and_h.2 (by decide +kernel) (by decide)
    have h2 := nsmap_prefix_declared' f "odk".toList (by decide +kernel) (by decide +kernel) (by decide)
    have h3 := nsmap_prefix_declared' f "orx".toList (by decide +kernel) (by decide +kernel) (by decide)
    rw [List.all_cons, List.all_cons, List.all_cons, List.all_nil, h1, h2, h3]; rfl

#print axioms html_guard_of_tokens

/-! ## with entities, `get_nsmap` itself declares the `entities` prefix -/

theorem lookup_dictSet_self (d : List (Str × Str)) (k v : Str) : lookup k (dictSet d k v) = some v := by
  induction d with
  | nil => simp [dictSet, lookup]
  | cons kv r ih =>
    obtain ⟨k2, v2⟩ := kv
    unfold dictSet
    split
    · rename_i e; subst e; simp [lookup]
    · rename_i hne
      have : ¬ k = k2 := fun e => hne e.symm
      simp [lookup, this, ih]

theorem isSome_dictSet (d : List (Str × Str)) (k k' v' : Str) (h : (lookup k d).isSome = true) :
    (lookup k (dictSet d k' v')).isSome = true := by
  by_cases e : k' = k
  · subst e; rw [lookup_dictSet_self]; rfl
  · rw [lookup_dictSet_other d k k' v' e]; exact h

theorem isSome_nsExtra_step (B : List (Str × Str)) (k : Str) (P acc : List (Str × Str))
    (h : (lookup k acc).isSome = true) :
    (lookup k (P.foldl (fun acc kv => if (lookup (xmlnsColon ++ kv.1) B).isSome then acc
      else dictSet acc (xmlnsColon ++ kv.1) (stripQuotes kv.2)) acc)).isSome = true := by
  induction P generalizing acc with
  | nil => exact h
  | cons kv r ih =>
    rw [List.foldl_cons]
    apply ih
    split
    · exact h
    · exact isSome_dictSet acc k _ _ h

theorem isSome_nsExtra (B P : List (Str × Str)) (kv : Str × Str) (hm : kv ∈ P)
    (hn : lookup (xmlnsColon ++ kv.1) B = none) :
    (lookup (xmlnsColon ++ kv.1) (nsExtra B P)).isSome = true := by
  unfold nsExtra
  suffices H : ∀ acc : List (Str × Str),
      (lookup (xmlnsColon ++ kv.1) (P.foldl (fun acc kv => if (lookup (xmlnsColon ++ kv.1) B).isSome then acc
        else dictSet acc (xmlnsColon ++ kv.1) (stripQuotes kv.2)) acc)).isSome = true from H []
  induction P with
  | nil => cases hm
  | cons x r ih =>
    intro acc
    rw [List.foldl_cons]
    rcases List.mem_cons.mp hm with e | hm'
    · subst e
      apply isSome_nsExtra_step
      rw [hn]
      simp only [Option.isSome_none, Bool.false_eq_true, if_false, lookup_dictSet_self]; rfl
    · exact ih hm' _

theorem isSome_dictUpdate (k : Str) (u d : List (Str × Str)) (h : (lookup k u).isSome = true) :
    (lookup k (dictUpdate d u)).isSome = true := by
  unfold dictUpdate
  induction u generalizing d with
  | nil => simp [lookup] at h
  | cons kv r ih =>
    obtain ⟨k1, v1⟩ := kv
    rw [List.foldl_cons]
    by_cases e : k = k1
    · subst e
      -- once set, the key stays
      have hs : (lookup k (dictSet d k v1)).isSome = true := by rw [lookup_dictSet_self]; rfl
      clear h ih
      generalize dictSet d k v1 = d' at hs
      induction r generalizing d' with
      | nil => exact hs
      | cons x r ih2 => rw [List.foldl_cons]; exact ih2 _ (isSome_dictSet d' k _ _ hs)
    · apply ih
      simpa [lookup, e] using h

theorem splitWsAll_ne_nil (s : Str) : splitWsAll s ≠ [] := by
  cases s with
  | nil => simp [splitWsAll]
  | cons c r =>
    rw [splitWsAll]
    split
    · simp
    · split <;> simp

theorem splitWsAll_nows (t : Str) (h : t.all (fun c => !pyIsSpace c) = true) : splitWsAll t = [t] := by
  induction t with
  | nil => rfl
  | cons c r ih =>
    simp only [List.all_cons, Bool.and_eq_true, Bool.not_eq_true'] at h
    rw [splitWsAll, ih h.2]
    simp [h.1]

/-- a token appended after a space is the last field -/
theorem splitWsAll_append (a t : Str) (h : t.all (fun c => !pyIsSpace c) = true) :
    splitWsAll (a ++ ' ' :: t) = splitWsAll a ++ [t] := by
  induction a with
  | nil =>
    have hsp : pyIsSpace ' ' = true := by decide
    have h1 : splitWsAll (' ' :: t) = [] :: [t] := by
      rw [splitWsAll, splitWsAll_nows t h]; simp [hsp]
    have h2 : splitWsAll [] = [[]] := by simp [splitWsAll]
    rw [List.nil_append, h1, h2]; rfl
  | cons c r ih =>
    rw [List.cons_append, splitWsAll, ih]
    have hne := splitWsAll_ne_nil r
    cases hr : splitWsAll r with
    | nil => exact absurd hr hne
    | cons f fs =>
      rw [splitWsAll, hr]
      simp only [List.cons_append]
      split <;> rfl

def entitiesTok : Str := "entities=http://www.opendatakit.org/xforms/entities".toList

theorem entitiesNs_eq : entitiesNs = ' ' :: entitiesTok := by decide

theorem mem_pySplit_entities (a : Str) : entitiesTok ∈ pySplit (a ++ entitiesNs) := by
  rw [entitiesNs_eq, pySplit, splitWsAll_append a entitiesTok (by decide), List.filter_append]
  apply List.mem_append_right
  decide

theorem mem_nsPairs_entities (a : Str) :
    ("entities".toList, "http://www.opendatakit.org/xforms/entities".toList) ∈ nsPairs (a ++ entitiesNs) := by
  unfold nsPairs
  rw [List.mem_filterMap]
  exact ⟨entitiesTok, mem_pySplit_entities a, by decide⟩

/-- with entity features the `entities` prefix is declared on `<h:html>` — for every value of the
    `namespaces` setting (even one that already binds `entities`) -/
theorem entities_declared (f : Fields) (hef : f.entityFeatures = true) :
    (declaredPrefixes (htmlAttrs f)).contains "entities".toList = true := by
  have hnone : lookup (xmlnsColon ++ "entities".toList) NSMAP = none := by decide +kernel
  have hmem := mem_nsPairs_entities f.namespaces
  have hns : nsString f = f.namespaces ++ entitiesNs := by unfold nsString; rw [hef]; rfl
  have hne : (nsString f).isEmpty = false := by
    rw [hns, entitiesNs_eq]; cases f.namespaces <;> rfl
  have hget : (lookup (xmlnsColon ++ "entities".toList) (getNsmap f)).isSome = true := by
    unfold getNsmap
    rw [hne]
    simp only [Bool.false_eq_true, if_false]
    apply isSome_dictUpdate
    rw [hns]
    exact isSome_nsExtra NSMAP _ _ hmem hnone
  have hcond : (getNsmap f).all (fun x => x.1 == xmlnsColon ++ "entities".toList ||
      attrLocal x.1 != attrLocal (xmlnsColon ++ "entities".toList)) = true := by
    apply all_getNsmap
    · decide +kernel
    · intro kv _ _
      simp only [attrLocal_xmlns, Bool.or_eq_true, beq_iff_eq, bne_iff_ne]
      by_cases e : kv.1 = "entities".toList
      · exact Or.inl (by rw [e])
      · exact Or.inr e
  have hhtml : (lookup (xmlnsColon ++ "entities".toList) (htmlAttrs f)).isSome = true := by
    unfold htmlAttrs
    rw [lookup_setAttrs _ _ [] (nodup_getNsmap f) hcond]
    cases hv : lookup (xmlnsColon ++ "entities".toList) (getNsmap f) with
    | none => rw [hv] at hget; cases hget
    | some v => rfl
  cases hv : lookup (xmlnsColon ++ "entities".toList) (htmlAttrs f) with
  | none => rw [hv] at hhtml; cases hhtml
  | some v => exact mem_declaredPrefixes _ _ "entities".toList v (splitOnChar_xmlns _ (by decide)) hv

#print axioms entities_declared

/-- **The frame guard from the input, token by token.**  `FrameOK f` holds when
    * every `prefix=uri` token of the `namespaces` setting has an NCName prefix other than `xmlns` and a URI of XML characters,
    * every `attribute::X` column and the form name is an XML name and a QName whose prefix is declared
      on `<h:html>` or by an `attribute::xmlns:p` column, with a value of XML characters,
    * title, id, version, style, … consist of XML characters.
    (With entities, the `entities` prefix is declared by `get_nsmap` itself: `entities_declared`.) -/
theorem frameOK_of_tokens (f : Fields) (htok : NsTokensOK f = true)
    (hattr : f.attrib.all (attrOk (declaredPrefixes (rootAttrs f) ++ declaredPrefixes (htmlAttrs f))) = true)
    (hinst : f.instAttrs.all (attrOk (declaredPrefixes (rootAttrs f) ++ declaredPrefixes (htmlAttrs f))) = true)
    (hname : isName f.name = true)
    (hnameQ : qnameOk (declaredPrefixes (rootAttrs f) ++ declaredPrefixes (htmlAttrs f)) f.name = true)
    (htitle : f.title.all isXmlChar = true) (hid : f.idString.all isXmlChar = true)
    (hstyle : f.style.all isXmlChar = true) (hix : f.instanceXmlns.all isXmlChar = true)
    (hver : f.version.all isXmlChar = true) (hpfx : f.pfx.all isXmlChar = true)
    (hdel : f.delimiter.all isXmlChar = true) (hurl : f.submissionUrl.all isXmlChar = true)
    (hkey : f.publicKey.all isXmlChar = true) (hsend : f.autoSend.all isXmlChar = true)
    (hdelete : f.autoDelete.all isXmlChar = true) : FrameOK f = true := by
  obtain ⟨hhtml, hnsok, hstatic⟩ := html_guard_of_tokens f htok
  have hodk : (declaredPrefixes (htmlAttrs f)).contains "odk".toList = true :=
    (List.all_eq_true.mp hstatic) _ (by decide)
  have hroot : (rootAttrs f).all (attrOk (declaredPrefixes (rootAttrs f) ++ declaredPrefixes (htmlAttrs f))) = true := by
    apply all_rootAttrs
    · exact hinst
    · exact hattr
    · exact attrOk_intro _ _ _ (by decide) hid (qnameOk_unprefixed _ _ "id".toList (by decide) (by decide))
    · exact attrOk_intro _ _ _ (by decide) hix (qnameOk_unprefixed _ _ "xmlns".toList (by decide) (by decide))
    · exact attrOk_intro _ _ _ (by decide) hver (qnameOk_unprefixed _ _ "version".toList (by decide) (by decide))
    · exact attrOk_intro _ _ _ (by decide) hpfx
        (qnameOk_mono _ _ _ (qnameOk_prefixed _ _ "odk".toList "prefix".toList (by decide) (by decide) hodk))
    · exact attrOk_intro _ _ _ (by decide) hdel
        (qnameOk_mono _ _ _ (qnameOk_prefixed _ _ "odk".toList "delimiter".toList (by decide) (by decide) hodk))
  have hneeded : (neededPrefixes f).all (fun p => (declaredPrefixes (htmlAttrs f)).contains p) = true := by
    unfold neededPrefixes
    rw [List.all_append, hstatic]
    cases he : f.entityFeatures with
    | false => rfl
    | true => simp only [if_true, List.all_cons, List.all_nil, entities_declared f he]; rfl
  simp only [FrameOK, hhtml, hroot, hname, hnameQ, htitle, hstyle, hurl, hkey, hsend, hdelete, hneeded, hnsok,
    Bool.and_self]

#print axioms frameOK_of_tokens

/-! ## Non-vacuity -/

-- the example header of `C01.lean` (two user prefixes, noise tokens, entities) passes the token guard …
example : NsTokensOK exFields = true := by decide +kernel
-- … and `frameOK_of_tokens` applies to it
example : FrameOK exFields = true :=
  frameOK_of_tokens exFields (by decide +kernel) (by decide +kernel) (by decide +kernel) (by decide +kernel) (by decide +kernel)
    (by decide +kernel) (by decide +kernel) (by decide +kernel) (by decide +kernel) (by decide +kernel)
    (by decide +kernel) (by decide +kernel) (by decide +kernel) (by decide +kernel) (by decide +kernel)
    (by decide +kernel)
example : (declaredPrefixes (htmlAttrs exFields)).contains "entities".toList = true :=
  entities_declared exFields rfl
-- the token guard is exactly what F2 (prefix not a name) and F2b (prefix `xmlns`) violate
example : NsTokensOK exF2 = false := by decide +kernel
example : NsTokensOK exF2b = false := by decide +kernel
-- noise tokens (`novalue`, `=x`, `a=b=c`) are dropped by `get_nsmap` and do not matter
example : NsTokensOK { name := "d".toList, title := [], idString := [], namespaces := "novalue =x a=b=c".toList } = true := by
  decide +kernel

end Pyxv.C01
