import Pyxv.Proofs.BackendsLemmas
import Pyxv.Proofs.BackendsMd
/-!
# Spreadsheet containers at the grid level (C12)

`excelToDict` (= `xlsx_to_dict` / `xls_to_dict` after the third-party decoder) applied to *any*
typed cell grid that shows a workbook returns the dict container `toBook wb` of that workbook.
-/
namespace Pyxv.Backends.Excel
open Pyxv Pyxv.Backends Pyxv.Backends.Md

/-! ## rows -/

theorem liftRow_dset (k v : Str) : ∀ r : Row, liftRow (dset k v r) = dset (some k) v (liftRow r)
  | [] => rfl
  | (k', v') :: r => by
    simp only [dset, liftRow, List.map_cons]
    by_cases h : k' = k
    · simp [h]
    · have : ¬ (some k' = some k) := fun e => h (Option.some.inj e)
      simp only [h, this, if_false, List.map_cons]
      congr 1
      exact liftRow_dset k v r

theorem rowDict_take : ∀ (hs : List (Option Str)) (cs : List Cell) (acc : Row),
    rowDict hs (cs.take hs.length) acc = rowDict hs cs acc
  | [], cs, acc => by simp [rowDict]
  | _ :: _, [], acc => by simp [rowDict]
  | none :: hs, c :: cs, acc => by
    simp only [List.length_cons, List.take_succ_cons, rowDict]
    exact rowDict_take hs cs acc
  | some k :: hs, c :: cs, acc => by
    simp only [List.length_cons, List.take_succ_cons, rowDict]
    exact rowDict_take hs cs _

theorem replaceNbsp_of_not_mem (t : Str) (h : nbsp ∉ t) : replaceNbsp t = t := by
  unfold replaceNbsp
  conv => rhs; rw [← List.map_id t]
  apply List.map_congr_left
  intro c hc
  have : c ≠ nbsp := fun e => h (e ▸ hc)
  simp [this]

/-- the inner loop of `get_excel_rows` on cells that show the texts `ts` (none of which holds a U+00A0:
`cellText` never delivers one) builds the dict-container row -/
theorem rowDict_zip : ∀ (hdr : List Str) (cs : List Cell) (ts : List Str) (acc : Row),
    cs.map cellText = ts.map toOpt → (∀ t ∈ ts, nbsp ∉ t) →
    liftRow (rowDict (hdr.map some) cs acc) = zipDict hdr ts (liftRow acc)
  | [], cs, ts, acc, _, _ => by cases ts <;> simp [rowDict, zipDict]
  | h :: hs, [], ts, acc, hm, _ => by
    cases ts with
    | nil => simp [rowDict, zipDict]
    | cons t ts => simp at hm
  | h :: hs, c :: cs, [], acc, hm, _ => by simp at hm
  | h :: hs, c :: cs, t :: ts, acc, hm, hn => by
    simp only [List.map_cons, List.cons.injEq] at hm
    obtain ⟨hc, hrest⟩ := hm
    have hn' : ∀ t' ∈ ts, nbsp ∉ t' := fun t' ht' => hn t' (by simp [ht'])
    simp only [List.map_cons, rowDict, zipDict, hc]
    by_cases ht : t = []
    · simp only [ht, toOpt, if_true]
      exact rowDict_zip hs cs ts acc hrest hn'
    · simp only [toOpt, ht, if_false]
      rw [rowDict_zip hs cs ts _ hrest hn', liftRow_dset, replaceNbsp_of_not_mem t (hn t (by simp))]

/-! ## headers -/

theorem contains_map_some (pre : List Str) (h : Str) (hn : h ∉ pre) :
    (pre.map some).contains (some h) = false := by
  rw [Bool.eq_false_iff]
  intro hc
  rw [List.contains_iff_mem] at hc
  simp only [List.mem_map] at hc
  obtain ⟨x, hx, he⟩ := hc
  exact hn (Option.some.inj he ▸ hx)

/-- clean, non-blank, pairwise different header cells are returned as they are -/
theorem headersLoop_clean (lim : Nat) : ∀ (rest pre : List Str),
    (∀ h ∈ rest, allSpace h = false ∧ cleanHeader h = h) → (pre ++ rest).Nodup →
    headersLoop lim 0 (pre.map some) (rest.map some) = .ok ((pre ++ rest).map some, 0)
  | [], pre, _, _ => by simp [headersLoop]
  | h :: rest, pre, hc, hnd => by
    obtain ⟨h1, h2⟩ := hc h (by simp)
    have hn : h ∉ pre := by
      intro hm
      rw [List.nodup_append] at hnd
      exact hnd.2.2 h hm h (by simp) rfl
    simp only [List.map_cons, headersLoop, isEmptyVal, h1, Bool.false_eq_true, if_false,
      contains_map_some pre h hn, h2]
    have := headersLoop_clean lim rest (pre ++ [h]) (fun x hx => hc x (by simp [hx]))
      (by simpa using hnd)
    simpa using this

theorem getHeaders_clean (hdr : List Str) (hc : ∀ h ∈ hdr, allSpace h = false ∧ cleanHeader h = h)
    (hnd : hdr.Nodup) : getHeaders (hdr.map some) = .ok (hdr.map some) := by
  unfold getHeaders
  have := headersLoop_clean Gen.maxEmptyHeaderRun hdr [] hc (by simpa using hnd)
  simp only [List.map_nil, List.nil_append] at this
  rw [this]
  simp [trimTrailing]

theorem headerValues_text : ∀ hdr : List Str, headerValues (hdr.map Cell.text) = .ok (hdr.map some)
  | [] => rfl
  | h :: hs => by simp [headerValues, headerValues_text hs]

theorem nodupB_iff : ∀ l : List Str, nodupB l = true ↔ l.Nodup
  | [] => by simp [nodupB]
  | x :: xs => by simp [nodupB, nodupB_iff xs, List.nodup_cons]

/-! ## the empty-run loop commutes with a cell-wise image of the rows -/

theorem runsInt_map {α β} (f : α → β) (lim : Nat) : ∀ (l : List (List α)) (k : Nat),
    runsInt lim k (l.map (List.map f)) = runsInt lim k l
  | [], _ => rfl
  | r :: l, k => by
    simp only [List.map_cons, runsInt, List.isEmpty_map]
    rw [runsInt_map f lim l (k + 1), runsInt_map f lim l 0]

theorem stripTrailing_map {α β} (f : α → β) (l : List (List α)) :
    stripTrailing (·.isEmpty) (l.map (List.map f)) = (stripTrailing (·.isEmpty) l).map (List.map f) := by
  induction l using list_reverse_induction with
  | nil => rfl
  | append_singleton l x ih =>
    rw [List.map_append, List.map_singleton]
    cases hx : x.isEmpty with
    | false =>
      rw [stripTrailing_snoc_neg _ _ _ (by simpa using hx), stripTrailing_snoc_neg _ _ _ hx]
      simp
    | true =>
      rw [stripTrailing_snoc_pos _ _ _ (by simpa using hx), stripTrailing_snoc_pos _ _ _ hx, ih]

/-! ## one sheet -/

/-- a typed grid *shows* a sheet: the first row holds the header as text cells, and every data cell,
whatever its type, is read by `cellText` as the text of the sheet (`""` ↔ an empty cell). -/
def Shows (s : Sheet) (g : Grid) : Prop :=
  ∃ rowsCells : List (List Cell), g = s.header.map Cell.text :: rowsCells ∧
    rowsCells.map (·.map cellText) = s.rows.map (·.map toOpt)

theorem rows_of_cells (hdr : List Str) : ∀ (rowsCells : List (List Cell)) (rows : List (List Str)),
    rowsCells.map (·.map cellText) = rows.map (·.map toOpt) → (∀ r ∈ rows, ∀ t ∈ r, nbsp ∉ t) →
    ((rowsCells.map fun r => r.take (hdr.map some).length).map fun r => rowDict (hdr.map some) r []).map liftRow
      = rows.map (sheetRow hdr)
  | [], [], _, _ => rfl
  | [], _ :: _, h, _ => by simp at h
  | _ :: _, [], h, _ => by simp at h
  | c :: cs, r :: rs, h, hn => by
    simp only [List.map_cons, List.cons.injEq] at h
    simp only [List.map_cons, rowDict_take, sheetRow]
    rw [rowDict_zip hdr c r [] h.1 (hn r (by simp))]
    congr 1
    exact rows_of_cells hdr cs rs h.2 (fun r' hr' => hn r' (by simp [hr']))

structure SheetX (s : Sheet) : Prop where
  ascii : isAscii s.name = true
  sup : lw s ∈ supported
  hdr : ∀ h ∈ s.header, allSpace h = false ∧ cleanHeader h = h
  nodup : s.header.Nodup
  runs : runsInt Gen.maxEmptyRowRun 0 (dictRows s) = true
  trail : stripTrailing (·.isEmpty) (dictRows s) = dictRows s
  nonbsp : ∀ r ∈ s.rows, ∀ t ∈ r, nbsp ∉ t

theorem sheetOK_unpack (s : Sheet) (h : sheetOK s = true) : SheetX s := by
  simp only [sheetOK, noTrailingBlank, Bool.and_eq_true, List.all_eq_true, Bool.not_eq_true', beq_iff_eq,
    List.contains_eq_mem, decide_eq_true_eq, nodupB_iff, decide_eq_false_iff_not] at h
  obtain ⟨⟨⟨⟨⟨⟨h1, h2⟩, h3⟩, h4⟩, h5⟩, h6⟩, h7⟩ := h
  exact ⟨h1, by simpa [lw] using h2, h3, h4, h5, h6, h7⟩

/-- **one sheet**: `x*_to_dict_normal_sheet` on a grid showing `s` -/
theorem sheetOfGrid_shows (s : Sheet) (g : Grid) (hs : Shows s g) (hx : SheetX s) :
    ∃ rows, sheetOfGrid g = .ok (rows, l2dl s.header) ∧ rows.map liftRow = dictRows s := by
  obtain ⟨rowsCells, rfl, hcells⟩ := hs
  refine ⟨getRows (s.header.map some) (rowsCells.map fun r => r.take (s.header.map some).length), ?_, ?_⟩
  · simp only [sheetOfGrid, headerValues_text, getHeaders_clean s.header hx.hdr hx.nodup]
    congr 3
    induction s.header with
    | nil => rfl
    | cons h hs ih => simp [ih]
  · have hds := rows_of_cells s.header rowsCells s.rows hcells hx.nonbsp
    unfold getRows
    have hruns : runsInt Gen.maxEmptyRowRun 0
        ((rowsCells.map fun r => r.take (s.header.map some).length).map fun r => rowDict (s.header.map some) r []) = true := by
      have := runsInt_map (fun (kv : Str × Str) => (some kv.1, kv.2)) Gen.maxEmptyRowRun
        ((rowsCells.map fun r => r.take (s.header.map some).length).map fun r => rowDict (s.header.map some) r []) 0
      have e : ∀ l : List Row, l.map (List.map fun (kv : Str × Str) => (some kv.1, kv.2)) = l.map liftRow := fun _ => rfl
      rw [e, hds] at this
      rw [← this]; exact hx.runs
    rw [getRowsOf_spec _ _ hruns]
    have e : ∀ l : List Row, l.map liftRow = l.map (List.map fun (kv : Str × Str) => (some kv.1, kv.2)) := fun _ => rfl
    rw [e, ← stripTrailing_map, ← e, hds]
    exact hx.trail

/-! ## the workbook -/

/-- grid by grid, the decoded workbook shows the abstract one -/
inductive ShowsAll : Workbook → List Grid → Prop
  | nil : ShowsAll [] []
  | cons {s g wb gs} : Shows s g → ShowsAll wb gs → ShowsAll (s :: wb) (g :: gs)

theorem shows_of_showsB (s : Sheet) (g : Grid) (h : showsB s g = true) : Shows s g := by
  cases g with
  | nil => simp [showsB] at h
  | cons first rowsCells =>
    simp only [showsB, Bool.and_eq_true, beq_iff_eq] at h
    exact ⟨rowsCells, by rw [h.1], h.2⟩

theorem showsAll_of_showsAllB : ∀ (wb : Workbook) (gs : List Grid), showsAllB wb gs = true → ShowsAll wb gs
  | [], [], _ => .nil
  | [], _ :: _, h => by simp [showsAllB] at h
  | _ :: _, [], h => by simp [showsAllB] at h
  | s :: wb, g :: gs, h => by
    simp only [showsAllB, Bool.and_eq_true] at h
    exact .cons (shows_of_showsB s g h.1) (showsAll_of_showsAllB wb gs h.2)

/-- the decoded workbook: sheet titles paired with their grids -/
def sheetsOf (wb : Workbook) (gs : List Grid) : List (Str × Grid) := List.zipWith (fun s g => (s.name, g)) wb gs

theorem excelProcess_shows (single : Bool) : ∀ (wb : Workbook) (gs : List Grid) (pre : Workbook),
    ShowsAll wb gs → (∀ s ∈ wb, SheetX s) → (∀ p ∈ pre, lw p ∈ supported) →
    distinctB (wb.map lw) = true → (∀ s ∈ wb, lw s ∉ pre.map lw) →
    excelProcess single (sheetsOf wb gs) (toBook pre) = .ok (toBook (pre ++ wb))
  | [], [], pre, _, _, _, _, _ => by simp [sheetsOf, excelProcess]
  | [], _ :: _, _, hf, _, _, _, _ => by cases hf
  | _ :: _, [], _, hf, _, _, _, _ => by cases hf
  | s :: wb, g :: gs, pre, hf, hok, hpre, hd, hfresh => by
    cases hf with
    | cons hsg hrest =>
    have hx := hok s (by simp)
    simp only [List.map_cons, distinctB, Bool.and_eq_true, Bool.not_eq_true',
      List.contains_eq_mem, decide_eq_false_iff_not] at hd
    have hcont : supported.contains (lowerAscii s.name) = true := by
      simpa [lw] using hx.sup
    have hb1 : dset sheetNamesKey (Val.names (bookNames (toBook pre) ++ [s.name])) (toBook pre) =
        (sheetNamesKey, Val.names (pre.map (·.name) ++ [s.name])) :: pre.flatMap sheetEntries := by
      rw [bookNames_toBook]; simp [toBook, dset]
    obtain ⟨rows, hsheet, hrows⟩ := sheetOfGrid_shows s g hsg hx
    simp only [sheetsOf, List.zipWith_cons_cons]
    rw [excelProcess]
    simp only [hx.ascii, Bool.not_true, Bool.false_eq_true, if_false, hcont, if_true, hb1,
      excelSheet, hsheet, hrows]
    have hstep := book_step pre s (Val.names (pre.map (·.name) ++ [s.name]))
      (.rows (dictRows s)) (.header (l2dl s.header)) hpre hx.sup (hfresh s (by simp))
    simp only [lw] at hstep
    simp only [hstep]
    have hnext := excelProcess_shows single wb gs (pre ++ [s]) hrest (fun s' hs' => hok s' (by simp [hs']))
      (by
        intro p hp
        simp only [List.mem_append, List.mem_singleton] at hp
        rcases hp with hp | rfl
        · exact hpre p hp
        · exact hx.sup)
      hd.2
      (by
        intro s' hs'
        simp only [List.map_append, List.map_cons, List.map_nil, List.mem_append,
          List.mem_singleton, not_or]
        refine ⟨hfresh s' (by simp [hs']), ?_⟩
        intro e
        exact hd.1 (by rw [← e]; exact List.mem_map.mpr ⟨s', hs', rfl⟩))
    rw [toBook_snoc] at hnext
    simp only [sheetEntries, dictRows, List.append_assoc, List.cons_append, List.nil_append, sheetsOf] at hnext ⊢
    simpa using hnext

/-- **the spreadsheet containers at the grid level**: whatever typed grids the decoder delivers, as
long as they show the workbook, `xlsx_to_dict` / `xls_to_dict` return its dict container. -/
theorem excel_roundtrip (wb : Workbook) (gs : List Grid) (hs : ShowsAll wb gs)
    (h : ExcelOK wb = true) : excelToDict (sheetsOf wb gs) = .ok (toBook wb) := by
  simp only [ExcelOK, Bool.and_eq_true, List.all_eq_true] at h
  have := excelProcess_shows ((sheetsOf wb gs).length = 1) wb gs [] hs
    (fun s hs => sheetOK_unpack s (h.1 s hs)) (by simp) h.2 (by simp)
  simpa [excelToDict, toBook] using this

end Pyxv.Backends.Excel
