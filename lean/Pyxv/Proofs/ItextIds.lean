import Pyxv.Proofs.ItextLemmas
/-!
# The rendering of itext ids is injective

`list-idx` for choices (`choiceId`, survey.py:381,802) and `xpath:display` for elements and osm tags
(`path`, `SurveyElement._translation_path`).  Different sources never render to the same string, so a
`<text id>` belongs to exactly one source: `ids_nodup` (unique dict keys) is then a statement about
distinct *sources*, not an accident of merging.
-/
namespace Pyxv.Itext
open Pyxv

theorem toList_toString (n : Nat) : (toString n).toList = Nat.toDigits 10 n := by
  rw [Nat.toString_eq_repr, Nat.toList_repr]

/-- decimal rendering is injective -/
theorem natStr_inj {i j : Nat} (h : (toString i).toList = (toString j).toList) : i = j := by
  rw [toList_toString, toList_toString] at h
  have := congrArg (fun l => Nat.ofDigitChars 10 l 0) h
  simpa using this

theorem digits_toString {n : Nat} {c : Char} (h : c ∈ (toString n).toList) : c.isDigit = true := by
  rw [toList_toString] at h
  exact Nat.isDigit_of_mem_toDigits (by decide) (by decide) h

theorem dash_not_mem_toString (n : Nat) : '-' ∉ (toString n).toList := by
  intro h
  have := digits_toString h
  simp at this

/-- a string is split uniquely at the last occurrence of a separator -/
theorem split_last {c : Char} : ∀ {a b s t : Str}, a ++ c :: s = b ++ c :: t → c ∉ s → c ∉ t → a = b ∧ s = t
  | [], [], s, t, h, _, _ => by simpa using h
  | [], y :: b', s, t, h, hs, _ => by
    simp only [List.nil_append, List.cons_append, List.cons.injEq] at h
    exact absurd (by rw [h.2]; simp) hs
  | x :: a', [], s, t, h, _, ht => by
    simp only [List.nil_append, List.cons_append, List.cons.injEq] at h
    exact absurd (by rw [← h.2]; simp) ht
  | x :: a', y :: b', s, t, h, hs, ht => by
    simp only [List.cons_append, List.cons.injEq] at h
    obtain ⟨rfl, h2⟩ := h
    obtain ⟨rfl, rfl⟩ := split_last h2 hs ht
    exact ⟨rfl, rfl⟩

/-- **choice ids are injective**: `list-idx` determines the list name and the index (whatever characters,
including `-`, the list name contains) -/
theorem choiceId_inj {n m : Str} {i j : Nat} (h : choiceId n i = choiceId m j) : n = m ∧ i = j := by
  unfold choiceId at h
  obtain ⟨h1, h2⟩ := split_last h (dash_not_mem_toString i) (dash_not_mem_toString j)
  exact ⟨h1, natStr_inj h2⟩

/-- the display elements `_translation_path` is called with -/
def displays : List String :=
  ["label", "hint", "jr:constraintMsg", "jr:requiredMsg", "jr:noAppErrorString"]

/-- none of the `:display` suffixes is a proper suffix of another -/
theorem display_suffixes :
    ∀ d ∈ displays, ∀ e ∈ displays, (':' :: e.toList).isSuffixOf (':' :: d.toList) = true → d = e := by
  decide +kernel

theorem path_eq (x : Str) (d : String) : path x d = x ++ ':' :: d.toList := rfl

/-- **element ids are injective**: `xpath:display` determines the xpath and the display element, for any
xpaths (names may contain `:`) -/
theorem path_inj {x y : Str} {d e : String} (hd : d ∈ displays) (he : e ∈ displays)
    (h : path x d = path y e) : x = y ∧ d = e := by
  rw [path_eq, path_eq] at h
  rcases List.append_eq_append_iff.mp h with ⟨a', hy, hs⟩ | ⟨c', hx, ht⟩
  · have hsuf : (':' :: e.toList).isSuffixOf (':' :: d.toList) = true := by
      rw [List.isSuffixOf_iff_suffix]; exact ⟨a', hs.symm⟩
    have hde := display_suffixes d hd e he hsuf
    subst hde
    have : a' = [] := by
      have hl := congrArg List.length hs
      simp only [List.length_append, List.length_cons] at hl
      exact List.eq_nil_of_length_eq_zero (by omega)
    subst this
    exact ⟨by simpa using hy.symm, rfl⟩
  · have hsuf : (':' :: d.toList).isSuffixOf (':' :: e.toList) = true := by
      rw [List.isSuffixOf_iff_suffix]; exact ⟨c', ht.symm⟩
    have hde := display_suffixes e he d hd hsuf
    subst hde
    have : c' = [] := by
      have hl := congrArg List.length ht
      simp only [List.length_append, List.length_cons] at hl
      exact List.eq_nil_of_length_eq_zero (by omega)
    subst this
    exact ⟨by simpa using hx, rfl⟩

theorem display_last : ∀ d ∈ displays, ∃ c, d.toList.getLast? = some c ∧ c.isDigit = false := by
  decide +kernel

/-- **a choice id is never an element id**: the former ends in a digit, the latter in a letter -/
theorem choiceId_ne_path (n : Str) (i : Nat) (x : Str) {d : String} (hd : d ∈ displays) :
    choiceId n i ≠ path x d := by
  intro h
  have h1 : (choiceId n i).getLast? = (toString i).toList.getLast? := by
    unfold choiceId
    have hne : (toString i).toList ≠ [] := by rw [toList_toString]; exact Nat.toDigits_ne_nil
    rw [List.getLast?_append, List.getLast?_cons]
    cases hl : (toString i).toList.getLast? with
    | none => simp [List.getLast?_eq_none_iff, hne] at hl
    | some c => simp
  obtain ⟨c, hc, hnd⟩ := display_last d hd
  have h2 : (path x d).getLast? = some c := by
    rw [path_eq, List.getLast?_append, List.getLast?_cons, hc]; simp
  rw [h, h2] at h1
  have hmem : c ∈ (toString i).toList := List.mem_of_getLast? h1.symm
  rw [digits_toString hmem] at hnd
  cases hnd

/-! ### consequence for the model: the `itextId`s of the choice instances are pairwise distinct -/

theorem mem_idsFrom {name : Str} : ∀ {os : List Opt} {k : Nat} {r : Str}, r ∈ idsFrom name k os →
    ∃ i, k ≤ i ∧ r = choiceId name i
  | [], _, _, h => by simp [idsFrom] at h
  | _ :: os, k, r, h => by
    simp only [idsFrom, List.mem_cons] at h
    rcases h with rfl | h
    · exact ⟨k, Nat.le_refl _, rfl⟩
    · obtain ⟨i, hi, rfl⟩ := mem_idsFrom h
      exact ⟨i, by omega, rfl⟩

theorem nodup_idsFrom (name : Str) : ∀ (os : List Opt) (k : Nat), (idsFrom name k os).Nodup
  | [], _ => by simp [idsFrom]
  | _ :: os, k => by
    simp only [idsFrom, List.nodup_cons]
    refine ⟨?_, nodup_idsFrom name os (k + 1)⟩
    intro h
    obtain ⟨i, hi, he⟩ := mem_idsFrom h
    have := (choiceId_inj he).2
    omega

theorem nodup_listIds (l : CList) : (listIds l).Nodup := by
  unfold listIds
  split
  · exact nodup_idsFrom _ _ _
  · simp

theorem mem_listIds {l : CList} {r : Str} (h : r ∈ listIds l) : ∃ i, r = choiceId l.name i := by
  unfold listIds at h
  split at h
  · obtain ⟨i, _, hr⟩ := mem_idsFrom h
    exact ⟨i, hr⟩
  · cases h

/-- **every choice item carries its own `itextId`**: with pairwise distinct list names (dict keys of
`Survey.choices`), no two items of the choice instances share an `itextId` -/
theorem nodup_flatMap_listIds : ∀ (ls : List CList), (ls.map (·.name)).Nodup → (ls.flatMap listIds).Nodup
  | [], _ => by simp
  | l :: ls, h => by
    simp only [List.map_cons, List.nodup_cons] at h
    simp only [List.flatMap_cons]
    rw [List.nodup_append]
    refine ⟨nodup_listIds l, nodup_flatMap_listIds ls h.2, ?_⟩
    intro a ha b hb hab
    subst hab
    obtain ⟨i, hi⟩ := mem_listIds ha
    obtain ⟨l', hl', hb'⟩ := List.mem_flatMap.mp hb
    obtain ⟨j, hj⟩ := mem_listIds hb'
    have := (choiceId_inj (hi.symm.trans hj)).1
    exact h.1 (List.mem_map.mpr ⟨l', hl', this.symm⟩)

end Pyxv.Itext
