import Pyxv.Model.ChoicesSpec
import Pyxv.Proofs.XmlRoundTrip
/-! Helper lemmas for `Pyxv.Proofs.C09` (CSV reader / writer, grouping, instance emission). -/
namespace Pyxv.Choices
open Pyxv Pyxv.Rows

/-! ### CSV: the reader inverts the `QUOTE_ALL` writer -/

theorem fold_quoted (cell : Str) : ∀ (fld : Str) (row : List Str) (acc : List (List Str)) (rest : Str),
    (escQ cell ++ rest).foldl stepCsv ⟨.inQuoted, fld, row, acc⟩ =
    rest.foldl stepCsv ⟨.inQuoted, fld ++ cell, row, acc⟩ := by
  induction cell with
  | nil => intro fld row acc rest; simp [escQ]
  | cons c cs ih =>
    intro fld row acc rest
    by_cases h : c = '"'
    · subst h
      simp only [escQ, if_true, List.cons_append, List.foldl_cons]
      have : stepCsv (stepCsv ⟨.inQuoted, fld, row, acc⟩ '"') '"' = ⟨.inQuoted, fld ++ ['"'], row, acc⟩ := by
        simp [stepCsv, PS.addChar]
      rw [this, ih]; simp
    · simp only [escQ, h, if_false, List.cons_append, List.foldl_cons]
      have : stepCsv ⟨.inQuoted, fld, row, acc⟩ c = ⟨.inQuoted, fld ++ [c], row, acc⟩ := by
        simp [stepCsv, PS.addChar, h]
      rw [this, ih]; simp

theorem fold_cell_field (cell : Str) (row : List Str) (acc : List (List Str)) (rest : Str) :
    (csvCell cell ++ rest).foldl stepCsv ⟨.startField, [], row, acc⟩ =
    rest.foldl stepCsv ⟨.quoteInQuoted, cell, row, acc⟩ := by
  have h1 : stepCsv ⟨.startField, [], row, acc⟩ '"' = ⟨.inQuoted, [], row, acc⟩ := by
    simp [stepCsv, stepField]
  simp only [csvCell, List.cons_append, List.foldl_cons, h1, List.append_assoc]
  rw [fold_quoted]
  simp [stepCsv]

theorem fold_cell_record (cell : Str) (acc : List (List Str)) (rest : Str) :
    (csvCell cell ++ rest).foldl stepCsv ⟨.startRecord, [], [], acc⟩ =
    rest.foldl stepCsv ⟨.quoteInQuoted, cell, [], acc⟩ := by
  have h1 : stepCsv ⟨.startRecord, [], [], acc⟩ '"' = ⟨.inQuoted, [], [], acc⟩ := by
    simp [stepCsv, stepRecord, stepField]
  simp only [csvCell, List.cons_append, List.foldl_cons, h1, List.append_assoc]
  rw [fold_quoted]
  simp [stepCsv]

/-- the text of a row after its first cell -/
def rowTail : List Str → Str
  | [] => ['\r', '\n']
  | d :: ds => ',' :: (csvCell d ++ rowTail ds)

theorem csvRow_cons (c : Str) (cs : List Str) : csvRow (c :: cs) = csvCell c ++ rowTail cs := by
  induction cs generalizing c with
  | nil => simp [csvRow, joinWith, rowTail]
  | cons d ds ih =>
    have := ih d
    simp only [csvRow, List.map_cons, joinWith, rowTail] at this ⊢
    simp at this ⊢
    simp [this]

theorem fold_rowTail (cs : List Str) : ∀ (cell : Str) (row : List Str) (acc : List (List Str)) (rest : Str),
    (rowTail cs ++ rest).foldl stepCsv ⟨.quoteInQuoted, cell, row, acc⟩ =
    rest.foldl stepCsv ⟨.startRecord, [], [], acc ++ [row ++ cell :: cs]⟩ := by
  induction cs with
  | nil =>
    intro cell row acc rest
    simp [rowTail, stepCsv, PS.saveField, PS.emit]
  | cons d ds ih =>
    intro cell row acc rest
    have h1 : stepCsv ⟨.quoteInQuoted, cell, row, acc⟩ ',' = ⟨.startField, [], row ++ [cell], acc⟩ := by
      simp [stepCsv, PS.saveField]
    simp only [rowTail, List.cons_append, List.foldl_cons, h1, List.append_assoc]
    rw [fold_cell_field, ih]
    simp

theorem fold_row (cells : List Str) (acc : List (List Str)) (rest : Str) :
    (csvRow cells ++ rest).foldl stepCsv ⟨.startRecord, [], [], acc⟩ =
    rest.foldl stepCsv ⟨.startRecord, [], [], acc ++ [cells]⟩ := by
  cases cells with
  | nil => simp [csvRow, joinWith, stepCsv, stepRecord, PS.emit]
  | cons c cs =>
    rw [csvRow_cons, List.append_assoc, fold_cell_record, fold_rowTail]
    simp

theorem fold_text (rows : List (List Str)) : ∀ (acc : List (List Str)) (rest : Str),
    (csvText rows ++ rest).foldl stepCsv ⟨.startRecord, [], [], acc⟩ =
    rest.foldl stepCsv ⟨.startRecord, [], [], acc ++ rows⟩ := by
  induction rows with
  | nil => intro acc rest; simp [csvText]
  | cons r rs ih =>
    intro acc rest
    have : csvText (r :: rs) = csvRow r ++ csvText rs := by simp [csvText]
    rw [this, List.append_assoc, fold_row, ih]
    simp

theorem parse_csvText (rows : List (List Str)) : parseCsv (csvText rows) = rows := by
  have := fold_text rows [] []
  simp only [List.append_nil, List.nil_append, List.foldl_nil] at this
  simp [parseCsv, initPS, this, finishCsv]


/-! ### grouping -/

theorem lookup_addToGroup (l g : Str) (row : Cells) (acc : List (Str × List Cells)) :
    lookup l (addToGroup g row acc) =
      if l = g then some ((lookup l acc).getD [] ++ [row]) else lookup l acc := by
  induction acc with
  | nil => by_cases h : l = g <;> simp [addToGroup, lookup, h]
  | cons p rest ih =>
    obtain ⟨k, rs⟩ := p
    by_cases hg : g = k
    · subst hg
      by_cases hl : l = g <;> simp [addToGroup, lookup, hl]
    · by_cases hl : l = k
      · subst hl
        have : ¬ l = g := fun h => hg h.symm
        simp [addToGroup, lookup, hg, this]
      · simp [addToGroup, lookup, hg, hl, ih]

theorem fold_group (key l : Str) (rows : List Cells) : ∀ acc : List (Str × List Cells),
    (lookup l (rows.foldl (groupStep key) acc)).getD [] =
      (lookup l acc).getD [] ++ Spec.listRows key l rows := by
  induction rows with
  | nil => intro acc; simp [Spec.listRows]
  | cons r rs ih =>
    intro acc
    simp only [List.foldl_cons]
    rw [ih]
    cases hr : lookup key r with
    | none => simp [groupStep, hr, Spec.listRows]
    | some g =>
      by_cases hl : l = g
      · subst hl
        simp [groupStep, hr, Spec.listRows, lookup_addToGroup]
      · have : ¬ g = l := fun h => hl h.symm
        simp [groupStep, hr, Spec.listRows, lookup_addToGroup, hl, this]

theorem keys_addToGroup (g : Str) (row : Cells) (acc : List (Str × List Cells)) :
    (addToGroup g row acc).map (·.1) =
      if g ∈ acc.map (·.1) then acc.map (·.1) else acc.map (·.1) ++ [g] := by
  induction acc with
  | nil => simp [addToGroup]
  | cons p rest ih =>
    obtain ⟨k, rs⟩ := p
    by_cases hg : g = k
    · simp [addToGroup, hg]
    · simp only [addToGroup, hg, if_false, List.map_cons, ih, List.mem_cons, false_or]
      split <;> simp

theorem keys_nodup_fold (key : Str) (rows : List Cells) : ∀ acc : List (Str × List Cells),
    (acc.map (·.1)).Nodup → ((rows.foldl (groupStep key) acc).map (·.1)).Nodup := by
  induction rows with
  | nil => intro acc h; simpa using h
  | cons r rs ih =>
    intro acc h
    simp only [List.foldl_cons]
    apply ih
    cases hr : lookup key r with
    | none => simpa [groupStep, hr] using h
    | some g =>
      simp only [groupStep, hr, keys_addToGroup]
      split
      · exact h
      · rename_i hn
        exact List.nodup_append.mpr ⟨h, by simp, by
          intro a ha b hb
          simp at hb; subst hb
          intro e; subst e; exact hn ha⟩

theorem lookup_map_snd {α β} (f : α → β) (l : Str) (gs : List (Str × α)) :
    lookup l (gs.map fun g => (g.1, f g.2)) = (lookup l gs).map f := by
  induction gs with
  | nil => simp [lookup]
  | cons p rest ih =>
    obtain ⟨k, v⟩ := p
    by_cases h : l = k <;> simp [lookup, h, ih]

/-! ### instance items -/

theorem itemsFrom_get (b : Bool) (l : Str) (cs : List Choice) : ∀ (k i : Nat),
    (itemsFrom b l k cs)[i]? = cs[i]?.map (itemOf b l (k + i)) := by
  induction cs with
  | nil => intro k i; simp [itemsFrom]
  | cons c rest ih =>
    intro k i
    cases i with
    | zero => simp [itemsFrom]
    | succ j =>
      simp only [itemsFrom, List.getElem?_cons_succ, ih]
      congr 2; omega

theorem itemsFrom_length (b : Bool) (l : Str) (cs : List Choice) : ∀ k, (itemsFrom b l k cs).length = cs.length := by
  induction cs with
  | nil => intro k; simp [itemsFrom]
  | cons c rest ih => intro k; simp [itemsFrom, ih]

/-! ### the `seen` loop -/

theorem findSeen_name {name : Str} {seen : List Inst} {p : Inst} (h : findSeen name seen = some p) : p.name = name := by
  induction seen with
  | nil => simp [findSeen] at h
  | cons i rest ih =>
    by_cases hn : i.name = name
    · simp [findSeen, hn] at h; subst h; exact hn
    · simp [findSeen, hn] at h; exact ih h

theorem emit_inv (is : List Inst) : ∀ (seen out : List Inst), emitInsts seen is = some out →
    (out.map (·.name)).Nodup ∧ (∀ o ∈ out, findSeen o.name seen = none) ∧ out.Sublist is := by
  induction is with
  | nil => intro seen out h; simp [emitInsts] at h; subst h; simp
  | cons i rest ih =>
    intro seen out h
    simp only [emitInsts] at h
    cases hs : findSeen i.name seen with
    | some prior =>
      simp only [hs] at h
      split at h
      · simp at h
      · obtain ⟨h1, h2, h3⟩ := ih seen out h
        exact ⟨h1, h2, h3.cons i⟩
    | none =>
      simp only [hs] at h
      cases hr : emitInsts (i :: seen) rest with
      | none => simp [hr] at h
      | some out' =>
        simp [hr] at h; subst h
        obtain ⟨h1, h2, h3⟩ := ih (i :: seen) out' hr
        refine ⟨?_, ?_, h3.cons_cons i⟩
        · simp only [List.map_cons, List.nodup_cons]
          refine ⟨?_, h1⟩
          intro hmem
          obtain ⟨o, ho, hn⟩ := List.mem_map.mp hmem
          have := h2 o ho
          simp [findSeen, hn] at this
        · intro o ho
          cases List.mem_cons.mp ho with
          | inl e => subst e; exact hs
          | inr ho' =>
            have := h2 o ho'
            by_cases hn : i.name = o.name
            · simp [findSeen, hn] at this
            · simpa [findSeen, hn] using this

theorem emit_declares (is : List Inst) : ∀ (seen out : List Inst), emitInsts seen is = some out →
    ∀ i ∈ is, (∃ o ∈ out, o.name = i.name ∧ o.src = i.src) ∨ (∃ p, findSeen i.name seen = some p ∧ p.src = i.src) := by
  induction is with
  | nil => intro seen out _ i hi; simp at hi
  | cons x rest ih =>
    intro seen out h i hi
    simp only [emitInsts] at h
    cases hs : findSeen x.name seen with
    | some prior =>
      simp only [hs] at h
      split at h
      · simp at h
      · rename_i hsrc
        have hsrc' : prior.src = x.src := by simpa using hsrc
        cases List.mem_cons.mp hi with
        | inl e => subst e; exact Or.inr ⟨prior, hs, hsrc'⟩
        | inr hi' => exact ih seen out h i hi'
    | none =>
      simp only [hs] at h
      cases hr : emitInsts (x :: seen) rest with
      | none => simp [hr] at h
      | some out' =>
        simp [hr] at h; subst h
        cases List.mem_cons.mp hi with
        | inl e => subst e; exact Or.inl ⟨i, by simp, rfl, rfl⟩
        | inr hi' =>
          cases ih (x :: seen) out' hr i hi' with
          | inl h1 =>
            obtain ⟨o, ho, hn, hsr⟩ := h1
            exact Or.inl ⟨o, List.mem_cons_of_mem _ ho, hn, hsr⟩
          | inr h2 =>
            obtain ⟨p, hp, hsr⟩ := h2
            by_cases hn : x.name = i.name
            · simp [findSeen, hn] at hp; subst hp
              exact Or.inl ⟨x, by simp, hn, hsr⟩
            · simp [findSeen, hn] at hp
              exact Or.inr ⟨p, hp, hsr⟩

/-! ### order of the group keys -/

def appendNew (acc : List Str) (g : Str) : List Str := if g ∈ acc then acc else acc ++ [g]

theorem keys_fold (key : Str) (rows : List Cells) : ∀ acc : List (Str × List Cells),
    (rows.foldl (groupStep key) acc).map (·.1) = (rows.filterMap (lookup key)).foldl appendNew (acc.map (·.1)) := by
  induction rows with
  | nil => intro acc; simp
  | cons r rs ih =>
    intro acc
    simp only [List.foldl_cons]
    rw [ih]
    cases hr : lookup key r with
    | none => simp [groupStep, hr]
    | some g => simp [groupStep, hr, keys_addToGroup, appendNew]

theorem foldl_appendNew (gs : List Str) : ∀ acc : List Str,
    gs.foldl appendNew acc = acc ++ (Spec.dedup gs).filter (fun x => decide (x ∉ acc)) := by
  induction gs with
  | nil => intro acc; simp [Spec.dedup]
  | cons g rest ih =>
    intro acc
    simp only [List.foldl_cons, ih, Spec.dedup, appendNew]
    by_cases hg : g ∈ acc
    · simp only [hg, if_true, List.filter_cons, decide_not, decide_true, Bool.not_true]
      simp only [List.filter_filter]
      congr 1
      apply List.filter_congr
      intro x _
      by_cases hx : x ∈ acc
      · simp [hx]
      · have : x ≠ g := fun e => hx (e ▸ hg)
        simp [hx, this]
    · simp only [hg, if_false, List.filter_cons, decide_not, decide_false, Bool.not_false, if_true]
      simp only [List.filter_filter, List.append_assoc, List.cons_append, List.nil_append]
      congr 2
      apply List.filter_congr
      intro x _
      by_cases hx : x ∈ acc <;> by_cases hxg : x = g <;> simp [hx, hxg]


/-! ### instance ids through the writer and a reader -/

section
open Pyxv.Xml

theorem instanceId_withSpaces (n : Node) : instanceId (withSpaces n) = instanceId n := by
  cases n with
  | text b s => simp [withSpaces]
  | elem t a ks => simp only [withSpaces]; split <;> simp [instanceId]

theorem instanceId_normNode (n : Node) (h : isElem n = true) : instanceId (normNode n) = instanceId n := by
  cases n with
  | text b s => simp [isElem] at h
  | elem t a ks => simp [normNode, instanceId]

theorem isElem_withSpaces (n : Node) : isElem (withSpaces n) = isElem n := by
  cases n with
  | text b s => simp [withSpaces]
  | elem t a ks => simp only [withSpaces]; split <;> simp [isElem]

theorem ids_merge (ks : List Node) (h : ∀ k ∈ ks, isElem k = true) :
    (mergeText (normKids (withSpacesKids ks))).filterMap instanceId = ks.filterMap instanceId := by
  induction ks with
  | nil => simp [withSpacesKids, normKids, mergeText]
  | cons k rest ih =>
    have hk := h k (by simp)
    have ih' := ih (fun x hx => h x (by simp [hx]))
    cases k with
    | text b s => simp [isElem] at hk
    | elem t a ks' =>
      have e1 : ∃ ks2, withSpaces (.elem t a ks') = .elem t a ks2 := by
        simp only [withSpaces]; split <;> exact ⟨_, rfl⟩
      obtain ⟨ks2, e1⟩ := e1
      simp only [withSpacesKids, e1, normKids, normNode, mergeText, List.filterMap_cons, instanceId, ih']

theorem any_isText_false (ks : List Node) (h : ∀ k ∈ ks, isElem k = true) : ks.any isText = false := by
  induction ks with
  | nil => rfl
  | cons k rest ih =>
    have hk := h k (by simp)
    cases k with
    | text b s => simp [isElem] at hk
    | elem t a ks' => simp [isText, ih (fun x hx => h x (by simp [hx]))]

theorem instanceIds_expected (t : Str) (a : List (Str × Str)) (ks : List Node) (h : ∀ k ∈ ks, isElem k = true) :
    instanceIds (expected (.elem t a ks)) = ks.filterMap instanceId := by
  simp only [expected, withSpaces, any_isText_false ks h, Bool.false_eq_true, if_false, normNode, instanceIds]
  exact ids_merge ks h

theorem instanceId_instNode (i : Inst) : instanceId (instNode i) = some i.name := by
  unfold instNode; cases i.src <;> simp [instanceId, lookup]

theorem ids_instNodes (out : List Inst) : (out.map instNode).filterMap instanceId = out.map (·.name) := by
  induction out with
  | nil => rfl
  | cons i rest ih => simp [instanceId_instNode, ih]


theorem isElem_instNode (i : Inst) : isElem (instNode i) = true := by
  unfold instNode; cases i.src <;> rfl

end

end Pyxv.Choices
