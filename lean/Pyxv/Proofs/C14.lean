import Pyxv.Proofs.ProcessLemmas
/-!
# C14 — conversion is a pure function of its input

Property theorems over `Pyxv.Model.Process` (lemmas in `ProcessLemmas.lean`).  Each theorem is
followed by an `example` showing that non-trivial data meets its hypotheses; the `decide`
counter-witnesses are the negations for the code *before* the repairs 80d96d7 / 4dc1fa1 / 7bdea8a /
1948d14 and for hypothetical defect classes (stale keys, set de-duplication, key-inserting reads).
-/
namespace Pyxv.C14
open Pyxv Pyxv.Process

/-! ## 1. lru_cache is invisible -/

/-- **Flagship.** Whatever the capacity (`maxsize` any number, 0, or None) and whatever the history of
calls, the callers of an `lru_cache`d function see exactly the results of the function itself. -/
theorem lru_refines_pure {κ ν : Type} [DecidableEq κ] (f : κ → ν) (cap : Option Nat) (ops : List κ) :
    outputs f cap ops = ops.map f :=
  (run_outputs ops (c := emptyLru cap) (by intro e he; cases he)).1

/-- The same after any earlier history `h` through the same cache ("which forms were converted
earlier in the same process"): the results of a later sequence of calls do not depend on `h`. -/
theorem lru_history_independent {κ ν : Type} [DecidableEq κ] (f : κ → ν) (cap : Option Nat) (h ops : List κ) :
    (runCached f (runCached f (emptyLru cap) h).1 ops).2.map (·.1) = ops.map f :=
  (run_outputs ops (run_outputs h (c := emptyLru cap) (by intro e he; cases he)).2).1

/-- the cache never holds more than `maxsize` entries, and never two for one key -/
theorem lru_bounded {κ ν : Type} [DecidableEq κ] (f : κ → ν) (n : Nat) : ∀ (ops : List κ) (c : Lru κ ν),
    c.cap = some n → c.entries.length ≤ n → KeysNodup c →
    (runCached f c ops).1.entries.length ≤ n ∧ KeysNodup (runCached f c ops).1
  | [], _, _, h, hn => ⟨h, hn⟩
  | k :: ks, c, hc, h, hn => by
    simp only [runCached]
    exact lru_bounded f n ks _ ((call_cap f c k).trans hc) (call_size f hc h k) (call_nodup f hn k)

example : outputs (fun k : Nat => k * 7 + 1) (some 2) [1, 2, 3, 1, 2, 2, 4, 1] = [8, 15, 22, 8, 15, 15, 29, 8] := by decide
-- the run above really hits and evicts (same trace as functools.lru_cache, see harness `proc.lru`):
example : (runCached (fun k : Nat => k * 7 + 1) (emptyLru (some 2)) [1, 2, 3, 1, 2, 2]).2.map (·.2)
    = [.miss none, .miss none, .miss (some 1), .miss (some 2), .miss (some 3), .hit] := by decide

/-- every cached function of the current source has a capacity the model understands -/
theorem cache_sizes_parse : ∀ e ∈ Pyxv.Gen.lruCacheSizes, (parseCap e.2).isSome = true := by decide +kernel

/-- Counter-witness for the defect class the property names ("caches keyed on stale objects"): a
cache keyed on the xpath alone, for a function that also depends on the survey, is *not* pure —
the second survey gets the first survey's answer. -/
theorem projected_key_not_pure :
    outputsProjected (κ := Nat × Nat) (fun k => k.2) (fun k => k.1 + k.2) (some 8) [(1, 5), (2, 5)] (emptyLru (some 8))
      ≠ [(1, 5), (2, 5)].map (fun k => k.1 + k.2) := by decide

/-! ## 2. caches keyed on the survey object -/

/-- `is_parent_a_repeat(survey, xpath)` / `share_same_repeat_parent(survey, …)`: the key contains the
survey *object* (hash = address), and the cache holds a reference to it.  For every sequence of
allocations (the allocator may reuse any free address), drops and calls that can happen, and every
capacity, each call returns `g` of the object the caller passed — never an entry left behind by
an earlier survey that lived at the same address. -/
theorem survey_cache_coherent {τ ξ ν : Type} [DecidableEq ξ] (g : τ → ξ → ν) (cap : Option Nat)
    (ops : List (Op τ ξ)) (w : World τ ξ ν) (outs : List ν)
    (h : World.run true g (World.empty cap) ops = some (w, outs)) :
    outs.map some = specOutputs g [] ops :=
  run_spec ops (inv_empty g cap) h

-- survey A (tree `true`: parent is a repeat) at address 7, queried, dropped; the cache still references
-- it, so the allocator cannot return address 7 for survey B: that step is impossible …
example : World.run (ξ := Nat) true (fun (t : Bool) _ => t) (World.empty (some 4))
    [.alloc 7 true, .call 7 0, .drop 7, .alloc 7 false, .call 7 0] = none := by decide
-- … B gets another address and the right answer:
example : (World.run (ξ := Nat) true (fun (t : Bool) _ => t) (World.empty (some 4))
    [.alloc 7 true, .call 7 0, .drop 7, .alloc 8 false, .call 8 0]).map (·.2) = some [true, false] := by decide
-- once the entry is evicted the address may be reused, and the answer is still B's:
example : (World.run (ξ := Nat) true (fun (t : Bool) _ => t) (World.empty (some 1))
    [.alloc 7 true, .call 7 0, .alloc 9 true, .call 9 1, .drop 7, .alloc 7 false, .call 7 0]).map (·.2)
    = some [true, true, false] := by decide

/-- Counter-witness: were the cache keyed on the bare address (no reference held), address reuse
would serve survey B the answer computed for survey A. -/
theorem weak_key_stale :
    (World.run (ξ := Nat) false (fun (t : Bool) _ => t) (World.empty (some 4))
      [.alloc 7 true, .call 7 0, .drop 7, .alloc 7 false, .call 7 0]).map (·.2) = some [true, true] := by decide

/-! ## 3. regenerating the XML from the same survey object -/

/-- `xml()` leaves the survey in a state from which `xml()` yields the same document: the namespace
declaration appended by `get_nsmap` on every call (F36) and the itemset redirect of search() selects
do not change what is generated.  (Fields modelled: `namespaces`, `choices[*].used_by_search`,
`select.itemset`; `_translations` is covered by the oracle only.) -/
theorem xml_idempotent (s s' : SurveyState) (h : afterXml s = .ok s') : xml s' = xml s := by
  have hx : xml s = .ok (render s') := by simp [xml, h, Except.map]
  rw [hx]
  unfold afterXml at h
  cases hv : validateTriggers s with
  | error e => rw [hv] at h; cases h
  | ok u =>
    rw [hv] at h
    change redirectSearch (nsAppend s) = .ok s' at h
    have hr := redirect_idem h
    have hkeep := redirect_keeps h
    have hv' : validateTriggers s' = .ok u := by
      rw [← hv]
      exact validate_congr (hkeep.1.trans (nsAppend_keeps s).1) (hkeep.2.trans (nsAppend_keeps s).2)
    -- nsAppend and redirectSearch touch different fields
    unfold redirectSearch at h
    split at h
    · cases h
    · rename_i hnone
      simp only [Except.ok.injEq] at h
      unfold xml afterXml
      rw [hv']
      change Except.map render (redirectSearch (nsAppend s')) = Except.ok (render s')
      by_cases he : s.entityFeatures
      · have hs' : s'.entityFeatures = true := by rw [← h]; simp [nsAppend, he]
        have hns : s'.namespaces = some (s.namespaces.getD [] ++ [entitiesDecl]) := by rw [← h]; simp [nsAppend, he]
        have h2 : redirectSearch (nsAppend s') = .ok { s' with namespaces := some ((s.namespaces.getD [] ++ [entitiesDecl]) ++ [entitiesDecl]) } := by
          unfold redirectSearch at hr ⊢
          split at hr
          · cases hr
          · rename_i hn'
            simp only [Except.ok.injEq] at hr
            simp only [nsAppend, hs', if_true, hns, Option.getD_some] at hn' ⊢
            simp only [hn']
            congr 1
            conv => rhs; rw [← hr]
        rw [h2]
        simp only [Except.map, render, hns, Except.ok.injEq]
        congr 1
        exact nsmapOf_append_again baseNsmap _ entitiesDecl
      · have hs' : s'.entityFeatures = false := by rw [← h]; simp [nsAppend, he]
        have : nsAppend s' = s' := by simp [nsAppend, hs']
        rw [this, hr]
        rfl

/-- … hence any number of regenerations -/
theorem xml_stable (s : SurveyState) : ∀ (n : Nat) (sn : SurveyState),
    (Nat.rec (motive := fun _ => Except Str SurveyState) (afterXml s) (fun _ r => r.bind afterXml) n) = .ok sn →
    xml sn = xml s
  | 0, sn, h => xml_idempotent s sn h
  | n + 1, sn, h => by
    simp only at h
    cases hp : (Nat.rec (motive := fun _ => Except Str SurveyState) (afterXml s) (fun _ r => r.bind afterXml) n) with
    | error e => rw [hp] at h; cases h
    | ok sp =>
      rw [hp] at h
      have h' : afterXml sp = .ok sn := h
      rw [xml_idempotent sp sn h', xml_stable s n sp hp]

/-- Component for `_translations`, which `xml()` does not reset: replaying a sequence of dict
assignments (`d[k] = v`, insertion-ordered dict, any initial content, repeated keys allowed) on its
own result changes nothing — neither values nor key order.  (Flat dicts; the nested `_translations`
table with media and padding is `itext_setup_idempotent` in `C14Itext.lean`.) -/
theorem dict_writes_idempotent {κ ν : Type} [DecidableEq κ] (d ws : List (κ × ν)) :
    asetAll (asetAll d ws) ws = asetAll d ws := asetAll_idem d ws

example : asetAll [(1, "a")] [(2, "x"), (1, "b"), (2, "y")] = [(1, "b"), (2, "y")]
    ∧ asetAll (asetAll [(1, "a")] [(2, "x"), (1, "b"), (2, "y")]) [(2, "x"), (1, "b"), (2, "y")] = [(1, "b"), (2, "y")] := by decide

def demoSurvey : SurveyState :=
  { entityFeatures := true, namespaces := some ["esri=\"http://esri.com/xforms\"".toList],
    lists := [("fruits".toList, false), ("yn".toList, false)],
    selects := [⟨"q1".toList, "fruits".toList, true, "fruits".toList⟩, ⟨"q2".toList, "yn".toList, false, "yn".toList⟩],
    names := ["head".toList, "name".toList, "age".toList, "spouse".toList, "name".toList, "q1".toList, "q2".toList],
    triggerRefs := ["age".toList] }

/-- Counter-witness for the defect class "generation inserts keys into the trigger maps" (a
`defaultdict` read by index): with the same name in two groups the second `xml()` fails although the
first succeeded. -/
theorem inserting_trigger_keys_not_idempotent :
    (afterXmlInserting demoSurvey).toOption.map (fun s => (xml s).toOption.isSome) = some false
      ∧ (xml demoSurvey).toOption.isSome = true := by decide

-- the state does change (the namespace string grows: F36) …
example : (afterXml demoSurvey).toOption.bind (fun s => (afterXml s).toOption.map (·.namespaces))
    ≠ (afterXml demoSurvey).toOption.map (·.namespaces) := by decide
-- … and the first call really redirects the search() select:
example : (xml demoSurvey).toOption.map (fun o => (o.staticInstances, o.itemsetSelects))
    = some (["yn".toList], [("q1".toList, false), ("q2".toList, true)]) := by decide

/-! ## 4. Python sets on the way to output -/

/-- `sorted(constants.EXTERNAL_INSTANCES)` (repaired F10): the order of the pulldata instances of one
question is the same for every iteration order of the set. -/
theorem pulldata_order_irrelevant (π : SetOrder) (ext : List Str) (present : Str → Bool) :
    pulldataOrder true π ext present = pulldataOrder true SetOrder.id ext present := by
  simp only [pulldataOrder, pulldataVisit, if_true, SetOrder.id]
  rw [sortStr_perm (π.perm ext)]

/-- before 4dc1fa1 the order followed the set (F10) -/
theorem pulldata_prefix_order_dependent :
    pulldataOrder false SetOrder.rev ["calculate".toList, "constraint".toList, "relevant".toList] (fun _ => true)
      ≠ pulldataOrder false SetOrder.id ["calculate".toList, "constraint".toList, "relevant".toList] (fun _ => true) := by
  decide

/-- every `headers_required` set of the current source has at most one element … -/
theorem required_headers_singletons : ∀ e ∈ requiredHeaders, e.2.length ≤ 1 := by decide

/-- … so the quoted list of missing headers cannot depend on the iteration order -/
theorem missing_order_irrelevant (π : SetOrder) (required present : List Str) (h : required.length ≤ 1) :
    missingHeaders π required present = missingHeaders SetOrder.id required present := by
  unfold missingHeaders
  exact perm_short (π.perm _) (Nat.le_trans (List.length_filter_le _ _) h)

/-- the repaired `_add_empty_translations` (80d96d7) produces one of the orders the old code could
produce (so the repair introduced no new output) … -/
theorem pad_fixed_is_one_set_order (tr : Trans) : padFixed tr = padPre SetOrder.id tr := rfl

def demoTrans : Trans :=
  [("en".toList, [("/d/q:hint".toList, ["long".toList, "guidance".toList])]),
   ("fr".toList, [("/d/q:label".toList, ["long".toList])])]

/-- … while the old code's output followed the set (F9: hint + guidance in one language only) -/
theorem pad_prefix_order_dependent : padPre SetOrder.rev demoTrans ≠ padPre SetOrder.id demoTrans := by decide

example : padFixed demoTrans =
    [("en".toList, [("/d/q:hint".toList, ["long".toList, "guidance".toList]), ("/d/q:label".toList, ["long".toList])]),
     ("fr".toList, [("/d/q:label".toList, ["long".toList]), ("/d/q:hint".toList, ["long".toList, "guidance".toList])])] := by
  decide

/-- before 1948d14 (N1): without `external_choices_header` the itemsets.csv header followed a set -/
theorem itemsets_header_prefix_order_dependent :
    itemsetsHeaderPre SetOrder.rev none [["list_name".toList, "name".toList], ["name".toList, "state".toList]]
      ≠ itemsetsHeaderPre SetOrder.id none [["list_name".toList, "name".toList], ["name".toList, "state".toList]] := by decide

/-- the repaired fallback is one of the orders the old code could produce (first-seen order) -/
theorem itemsets_header_fixed_is_one_set_order (h : Option (List Str)) (rows : List (List Str)) :
    itemsetsHeader h rows = itemsetsHeaderPre SetOrder.id h rows := by cases h <;> rfl

example : itemsetsHeader none [["list_name".toList, "name".toList], ["name".toList, "state".toList]]
    = ["list_name".toList, "name".toList, "state".toList] := by decide

/-- Counter-witness for the defect class "de-duplicate the namespace declarations through a set":
the order of the xmlns attributes would follow the set. -/
theorem nsmap_set_iteration_order_dependent :
    nsmapOfSet SetOrder.rev [] ["esri=http://esri.com/x".toList, "enk=http://enketo.org/x".toList]
      ≠ nsmapOfSet SetOrder.id [] ["esri=http://esri.com/x".toList, "enk=http://enketo.org/x".toList] := by decide

/-- **All set-iteration sites of the repaired code that file input can reach**: for every iteration
order of every set, the pulldata instance order, the padded itext table, the missing-header list
(for the required-header sets of the current source) and the itemsets header (header row present
or not) are the same. -/
theorem set_order_irrelevant (π : SetOrder) (x : SetSiteInput)
    (hreq : ∃ e ∈ requiredHeaders, x.required = e.2.map String.toList) : outπ π x = out x := by
  obtain ⟨e, he, hx⟩ := hreq
  have hl : x.required.length ≤ 1 := by rw [hx, List.length_map]; exact required_headers_singletons e he
  simp only [out, outπ, pulldata_order_irrelevant π, missing_order_irrelevant π _ _ hl]

example : ∃ e ∈ requiredHeaders, ["type".toList] = e.2.map String.toList := by decide

/-! ## 5. the shared scanner -/

/-- For **every** interleaving of two threads scanning through the shared `re.Scanner`, a thread that
has finished its scan has, after the repaired `parse_expression`, exactly the token positions of a
single-threaded scan of its own text. -/
theorem positions_schedule_independent (la lb : List Nat) (sched : List Bool) :
    let s := (Sys.init la lb).run sched
    (s.a.done = true → s.a.fixed = positions la) ∧ (s.b.done = true → s.b.fixed = positions lb) := by
  intro s
  have h := sys_run_lens sched (Sys.init la lb)
  have ha : (Sys.init la lb).a.lens = la := by simp [Sys.init, Thread.init, Thread.lens]
  have hb : (Sys.init la lb).b.lens = lb := by simp [Sys.init, Thread.init, Thread.lens]
  constructor
  · intro hd
    show positions (s.a.emitted.map (·.1)) = positions la
    rw [done_lens hd, h.1, ha]
  · intro hd
    show positions (s.b.emitted.map (·.1)) = positions lb
    rw [done_lens hd, h.2, hb]

/-- at any moment of any interleaving the tokens emitted so far are a prefix of the thread's own tokens -/
theorem emitted_prefix (la lb : List Nat) (sched : List Bool) :
    ∃ rest, la = ((Sys.init la lb).run sched).a.emitted.map (·.1) ++ rest := by
  have h := (sys_run_lens sched (Sys.init la lb)).1
  have ha : (Sys.init la lb).a.lens = la := by simp [Sys.init, Thread.init, Thread.lens]
  refine ⟨(match ((Sys.init la lb).run sched).a.pending with | some l => [l] | none => [])
    ++ ((Sys.init la lb).run sched).a.todo, ?_⟩
  rw [← List.append_assoc]
  exact (ha.symm.trans h.symm)

/-- Counter-witness (F11, before 7bdea8a): A matches `instance(` (9 chars) and stores the match, B scans
a whole one-character text, A's callback then reads B's span (0,1) instead of (0,9). -/
theorem recorded_schedule_dependent :
    ((Sys.init [9, 4] [1]).run [true, false, false, true, true, true]).a.recorded ≠ positions [9, 4] := by decide

-- the same schedule, repaired code:
example : ((Sys.init [9, 4] [1]).run [true, false, false, true, true, true]).a.fixed = positions [9, 4] := by decide
example : ((Sys.init [9, 4] [1]).run [true, false, false, true, true, true]).a.done = true := by decide
-- single-threaded, the recorded positions were the right ones (the repair does not change them):
example : ((Sys.init [9, 4, 1] []).run (List.replicate 6 true)).a.recorded = positions [9, 4, 1] := by decide

end Pyxv.C14
