import Pyxv.Proofs.Convert
import Pyxv.Proofs.C09
/-!
# C09 for the end-to-end composition `Pyxv.Convert.convert`

`Pyxv.Convert.convertDoc` builds the secondary instances of its document with this slice's definitions
(`Choices.choicesOf`, `Choices.staticInsts`, `Choices.instNode`).  The theorems here connect that use with the
C09 theorems (`group_keys_order`, `choices_of_list`, `instance_items`, `group_keys_nodup`): for every workbook the
composed model converts, the `<instance id=…>` children of the document's `<model>` are the lists of the
choices sheet in first-occurrence order, each with its choices in sheet order.
-/
namespace Pyxv.ConvertC09
open Pyxv Pyxv.Form Pyxv.Rows Pyxv.Xml Pyxv.Asm Pyxv.Convert Pyxv.ConvertP Pyxv.C01

/-- the canonical column names of the choices header of a workbook in `Convert`'s fragment -/
def choiceColsOf (wb : Workbook) : List Str := wb.choiceCols.filterMap fun h => lookup h choiceKeys

/-- What a successful `convertDoc` computed about the choices sheet: the canonical, cleaned rows `ch`, which
    passed `validate_choice_list`, and the document as `Asm.assemble` with the static instances of
    `choicesOf … ch` (after the `or_other` selects of the canonical survey rows `rows` appended `other` to their
    lists) first among the model children after the primary instance. -/
theorem convertDoc_choices (wb : Workbook) (doc : Node) (h : convertDoc wb = .ok doc) :
    ∃ ch f rk rows els pc ds body, canonChoices wb.choices = some ch ∧
      Choices.validateLists false (Choices.groupByKey Choices.listKey ch) = none ∧
      doc = assemble f none rk
        ((Choices.staticInsts [] (othersApplied rows (Choices.choicesOf (choiceColsOf wb) ch))).map Choices.instNode ++
          bindNodesL els pc ds) body := by
  unfold convertDoc at h
  split at h
  · simp at h
  · rename_i f hf
    simp only [] at h
    split at h
    · simp at h
    · split at h
      · simp at h
      · rename_i ch hch
        split at h
        · simp at h
        · split at h
          · simp at h
          · rename_i hval
            split at h
            · simp at h
            · split at h
              · simp at h
              · simp at h
              · split at h
                · simp at h
                · split at h
                  · simp at h
                  · split at h
                    · simp at h
                    · simp at h
                    · simp at h
                    · split at h
                      · simp at h
                      · split at h
                        · simp at h
                        · split at h
                          · simp at h
                          · split at h
                            · simp at h
                            · split at h
                              · simp at h
                              · split at h
                                · simp at h
                                · split at h
                                  · simp only [Except.ok.injEq] at h
                                    exact ⟨ch, f, _, _, _, _, _, _, hch, hval, h.symm⟩
                                  · simp at h


/-! ## the `<instance id=…>` children of the model -/

open Pyxv.Choices in
theorem instanceId_pyNode_ne (t : Str) (a : List (Str × Str)) (ks : List Node) (h : t ≠ c!"instance") :
    instanceId (pyNode t a ks) = none := by
  simp [pyNode, instanceId, h]

theorem dynSetOf_noId (els : List Refs.Chain) (ctx : Refs.Chain) (r : Cells) (b : Bool) :
    (dynSetOf els ctx r b).filterMap Choices.instanceId = [] := by
  unfold dynSetOf
  split
  · split
    · simp [setvalueNode, instanceId_pyNode_ne _ _ _ (by decide : (l!"setvalue") ≠ c!"instance")]
    · rfl
  · rfl

mutual
theorem bindNodes_noId (els : List Refs.Chain) : ∀ (pc : Refs.Chain) (d : DItem),
    (bindNodes els pc d).filterMap Choices.instanceId = []
  | pc, .q d p => by
    have h2 : (if inRep pc = true then [] else dynSetOf els (pc ++ [(d.name, .q)]) p.cells false).filterMap
        Choices.instanceId = [] := by
      split
      · rfl
      · exact dynSetOf_noId ..
    simp only [bindNodes, List.filterMap_append, h2, List.append_nil]
    split
    · simp [bindNode, instanceId_pyNode_ne _ _ _ (by decide : (l!"bind") ≠ c!"instance")]
    · rfl
  | pc, .sec ct n b p ks => by
    simp only [bindNodes, List.filterMap_append, bindNodesL_noId els (pc ++ [(n, kindOf ct)]) ks, List.append_nil]
    split
    · simp [bindNode, instanceId_pyNode_ne _ _ _ (by decide : (l!"bind") ≠ c!"instance")]
    · rfl
theorem bindNodesL_noId (els : List Refs.Chain) : ∀ (pc : Refs.Chain) (ds : List DItem),
    (bindNodesL els pc ds).filterMap Choices.instanceId = []
  | _, [] => rfl
  | pc, k :: ks => by
    simp only [bindNodesL, List.filterMap_append, bindNodes_noId els pc k, bindNodesL_noId els pc ks, List.append_nil]
end

/-! ### `or_other`: the choice `other` appended to a list (never a new or renamed list) -/

open Pyxv.Choices in
theorem addOtherTo_idem (cs : List Choice) : addOtherTo (addOtherTo cs) = addOtherTo cs := by
  unfold addOtherTo
  by_cases h : hasOther cs = true
  · simp [h]
  · have h2 : hasOther (cs ++ [otherChoice (cs.any fun c => isDictLbl c.label)]) = true := by
      simp [hasOther, otherChoice]
    simp only [h, Bool.false_eq_true, if_false, h2, if_true]

open Pyxv.Choices in
/-- a list is its sheet version, or that with `other` appended -/
def OtherRel (cs cs' : List Choice) : Prop := cs' = cs ∨ cs' = addOtherTo cs

open Pyxv.Choices in
theorem addOther_keys (l : Str) : ∀ lists : List (Str × List Choice), (addOther l lists).map (·.1) = lists.map (·.1)
  | [] => rfl
  | (k, cs) :: rest => by
    unfold addOther
    split
    · rfl
    · simp [addOther_keys l rest]

open Pyxv.Choices in
theorem addOther_mem (l : Str) : ∀ (lists : List (Str × List Choice)) (k : Str) (cs' : List Choice),
    (k, cs') ∈ addOther l lists → ∃ cs, (k, cs) ∈ lists ∧ OtherRel cs cs'
  | [], _, _, h => by simp [addOther] at h
  | (k0, cs0) :: rest, k, cs', h => by
    unfold addOther at h
    split at h
    · simp only [List.mem_cons, Prod.mk.injEq] at h
      rcases h with ⟨rfl, rfl⟩ | h
      · exact ⟨cs0, by simp, Or.inr rfl⟩
      · exact ⟨cs', by simp [h], Or.inl rfl⟩
    · simp only [List.mem_cons, Prod.mk.injEq] at h
      rcases h with ⟨rfl, rfl⟩ | h
      · exact ⟨cs', by simp, Or.inl rfl⟩
      · obtain ⟨cs, hm, hr⟩ := addOther_mem l rest k cs' h
        exact ⟨cs, by simp [hm], hr⟩

open Pyxv.Choices in
theorem othersApplied_keys : ∀ (rows : List Cells) (lists : List (Str × List Choice)),
    (othersApplied rows lists).map (·.1) = lists.map (·.1)
  | [], _ => rfl
  | r :: rs, lists => by
    unfold othersApplied
    rw [othersApplied_keys rs]
    split
    · split
      · exact addOther_keys _ _
      · rfl
    · rfl

open Pyxv.Choices in
theorem othersApplied_mem : ∀ (rows : List Cells) (lists : List (Str × List Choice)) (k : Str) (cs' : List Choice),
    (k, cs') ∈ othersApplied rows lists → ∃ cs, (k, cs) ∈ lists ∧ OtherRel cs cs'
  | [], _, _, cs', h => ⟨cs', h, Or.inl rfl⟩
  | r :: rs, lists, k, cs', h => by
    unfold othersApplied at h
    obtain ⟨cs1, hm1, hr1⟩ := othersApplied_mem rs _ k cs' h
    split at hm1
    · split at hm1
      · obtain ⟨cs, hm, hr⟩ := addOther_mem _ _ _ _ hm1
        refine ⟨cs, hm, ?_⟩
        rcases hr with rfl | rfl
        · exact hr1
        · rcases hr1 with rfl | rfl
          · exact Or.inr rfl
          · exact Or.inr (addOtherTo_idem cs)
      · exact ⟨cs1, hm1, hr1⟩
    · exact ⟨cs1, hm1, hr1⟩

theorem lookup_of_nodup_mem {β} (l : Str) (v : β) : ∀ (d : List (Str × β)), (d.map (·.1)).Nodup → (l, v) ∈ d →
    lookup l d = some v
  | [], _, h => by simp at h
  | (k, w) :: rest, hn, h => by
    simp only [List.map_cons, List.nodup_cons] at hn
    simp only [List.mem_cons, Prod.mk.injEq] at h
    by_cases hk : l = k
    · subst hk
      rcases h with ⟨-, rfl⟩ | h
      · simp [lookup]
      · exact absurd (List.mem_map.mpr ⟨(l, v), h, rfl⟩) hn.1
    · rcases h with ⟨rfl, -⟩ | h
      · exact absurd rfl hk
      · simp only [lookup, hk, if_false]; exact lookup_of_nodup_mem l v rest hn.2 h

/-- ids of the secondary instances of a document, in document order -/
def secondaryIds (doc : Node) : List Str := (modelKidsOf doc).filterMap Choices.instanceId

theorem modelKids_ids (f : Fields) (rk rest : List Node) :
    (Asm.modelKids f none rk rest).filterMap Choices.instanceId = rest.filterMap Choices.instanceId := by
  unfold Asm.modelKids submissionNode itextPart
  have h1 : Choices.instanceId (pyNode c!"instance" [] [.elem f.name (rootAttrs f) rk]) = none := by
    simp [pyNode, setAttrs, Choices.instanceId, lookup]
  have h2 : Choices.instanceId (pyNode c!"submission" (subAttrs f) []) = none :=
    instanceId_pyNode_ne _ _ _ (by decide)
  split
  · simp
    rw [List.filterMap_cons, h1]
  · simp
    rw [List.filterMap_cons, h2, List.filterMap_cons, h1]


open Pyxv.Choices in
theorem staticInsts_nil_names (lists : List (Str × List Choice)) :
    (staticInsts [] lists).map (·.name) = lists.map (·.1) := by
  induction lists with
  | nil => rfl
  | cons g rest ih => simp [staticInsts, staticInst] at ih ⊢; exact ih

open Pyxv.Choices in
theorem choicesOf_keys (cols : List Str) (rows : List Cells) :
    (choicesOf cols rows).map (·.1) = (groupByKey listKey rows).map (·.1) := by
  simp [choicesOf]

open Pyxv.Choices in
theorem lookup_mem {β} (l : Str) (v : β) (d : List (Str × β)) (h : lookup l d = some v) : (l, v) ∈ d := by
  induction d with
  | nil => simp [lookup] at h
  | cons p rest ih =>
    obtain ⟨k, w⟩ := p
    by_cases hk : l = k
    · subst hk; simp [lookup] at h; subst h; simp
    · simp [lookup, hk] at h; exact List.mem_cons_of_mem _ (ih h)

open Pyxv.Choices in
theorem lookup_of_mem_keys {β} (l : Str) (d : List (Str × β)) (h : l ∈ d.map (·.1)) : ∃ v, lookup l d = some v := by
  induction d with
  | nil => simp at h
  | cons p rest ih =>
    obtain ⟨k, w⟩ := p
    by_cases hk : l = k
    · exact ⟨w, by simp [lookup, hk]⟩
    · have : l ∈ rest.map (·.1) := by simpa [hk] using h
      obtain ⟨v, hv⟩ := ih this
      exact ⟨v, by simp [lookup, hk, hv]⟩

open Pyxv.Choices in
/-- **C09 for the whole conversion.**  For every workbook the composed model converts: the `<instance id=…>`
    children of the document's `<model>` are, in document order, the lists of the (canonical, cleaned) choices
    sheet in the order of their first occurrence, pairwise distinct; and for every such list `l` the element
    `instNode (staticInst l cs')` is a child of the model, where `cs'` is `cs` — the sheet's rows naming `l`, in
    sheet order, read by `choiceOf` — or `cs` with the choice `other` appended (`addOtherTo`, when an `or_other`
    select uses the list), with one `<item>` per choice, item `i` being `itemOf` of choice `i`.
    From `group_keys_order`, `group_keys_nodup`, `choices_of_list`, `instance_items`. -/
theorem convert_c09 (wb : Workbook) (doc : Node) (h : convertDoc wb = .ok doc) :
    ∃ ch, canonChoices wb.choices = some ch ∧
      secondaryIds doc = Spec.listNames listKey ch ∧ (secondaryIds doc).Nodup ∧
      ∀ l ∈ Spec.listNames listKey ch,
        ∃ cs cs', cs = (Spec.listRows listKey l ch).map (choiceOf (badHeaders (choiceColsOf wb))) ∧
          OtherRel cs cs' ∧
          Choices.instNode (staticInst l cs') ∈ modelKidsOf doc ∧
          (staticInst l cs').items.length = cs'.length ∧
          ∀ i, (staticInst l cs').items[i]? = cs'[i]?.map (itemOf (requiresItext cs') l i) := by
  obtain ⟨ch, f, rk, rows, els, pc, ds, body, hch, _, hdoc⟩ := convertDoc_choices wb doc h
  have hids : secondaryIds doc = Spec.listNames listKey ch := by
    rw [secondaryIds, hdoc, modelKidsOf_assemble, modelKids_ids, List.filterMap_append, bindNodesL_noId,
      List.append_nil, ids_instNodes, staticInsts_nil_names, othersApplied_keys, choicesOf_keys, C09.group_keys_order]
  refine ⟨ch, hch, hids, ?_, ?_⟩
  · rw [hids, ← C09.group_keys_order]; exact C09.group_keys_nodup _ _
  · intro l hl
    have hk : l ∈ (othersApplied rows (choicesOf (choiceColsOf wb) ch)).map (·.1) := by
      rw [othersApplied_keys, choicesOf_keys, C09.group_keys_order]; exact hl
    obtain ⟨cs', hcs'⟩ := lookup_of_mem_keys l _ hk
    have hmem' : (l, cs') ∈ othersApplied rows (choicesOf (choiceColsOf wb) ch) := lookup_mem l cs' _ hcs'
    obtain ⟨cs, hmem, hrel⟩ := othersApplied_mem rows _ l cs' hmem'
    have hnd : ((choicesOf (choiceColsOf wb) ch).map (·.1)).Nodup := by
      rw [choicesOf_keys]; exact C09.group_keys_nodup _ _
    have hcs := lookup_of_nodup_mem l cs _ hnd hmem
    have hcl := C09.choices_of_list (choiceColsOf wb) l ch
    rw [hcs] at hcl
    simp only [Option.getD_some] at hcl
    refine ⟨cs, cs', hcl, hrel, ?_, (C09.instance_items l cs').1, (C09.instance_items l cs').2⟩
    rw [hdoc, modelKidsOf_assemble]
    unfold Asm.modelKids
    have : Choices.instNode (staticInst l cs') ∈
        (staticInsts [] (othersApplied rows (choicesOf (choiceColsOf wb) ch))).map Choices.instNode := by
      apply List.mem_map.mpr
      refine ⟨staticInst l cs', ?_, rfl⟩
      simp only [staticInsts, List.mem_map, List.mem_filter]
      exact ⟨(l, cs'), ⟨hmem', by simp⟩, rfl⟩
    simp only [List.mem_append, List.mem_cons]
    exact Or.inr (Or.inr (Or.inl this))

#print axioms convert_c09

/-- non-vacuity: the worked example of `Proofs/Convert.lean` (one list `yn`, a `select_one yn`) is converted, so
    its document has exactly the instance of `yn` -/
example : ∃ doc, convertDoc exWb = .ok doc ∧ ∃ ch, canonChoices exWb.choices = some ch ∧
    secondaryIds doc = Choices.Spec.listNames Choices.listKey ch ∧ (secondaryIds doc).Nodup := by
  obtain ⟨doc, hd, -⟩ := convert_ok exWb false exText ex_convert
  obtain ⟨ch, h1, h2, h3, -⟩ := convert_c09 exWb doc hd
  exact ⟨doc, hd, ch, h1, h2, h3⟩

open Pyxv.Choices in
/-- The `<itemset>` the composed conversion writes for a select row is the decision table's
    (`C09.itemset_nodeset`, `itemset_value`, `itemset_label` at the empty filter / parameters of `Convert`'s fragment). -/
theorem convert_itemset (r : Cells) (t sel ln : Str) (other : Bool)
    (h1 : get r "type" = some t) (h2 : matchSelect t = some (sel, ln, other)) :
    itemsetNodes r =
      let q : SelIn := { itemset := ln, filter := [], params := [], seedSub := [], prevSub := [], choicesItext := false }
      [pyNode (l!"itemset") [(l!"nodeset", Spec.nodeset q)]
        [pyNode (l!"value") [(l!"ref", Spec.valueRef q)] [], pyNode (l!"label") [(l!"ref", Spec.labelRef q false)] []]] := by
  simp only [itemsetNodes, h1, h2, C09.itemset_nodeset, C09.itemset_value, C09.itemset_label]

example : itemsetNodes [(l!"type", l!"select_one yn"), (l!"name", l!"s")] =
    [pyNode (l!"itemset") [(l!"nodeset", l!"instance('yn')/root/item")]
      [pyNode (l!"value") [(l!"ref", l!"name")] [], pyNode (l!"label") [(l!"ref", l!"label")] []]] := by decide +kernel


/-! ## … in the text: the ids an XML reader sees in the whole document -/

theorem ids_eprojKids : ∀ ks : List Node, (eprojKids ks).filterMap Choices.instanceId = ks.filterMap Choices.instanceId
  | [] => by simp [eprojKids_nil]
  | .text b s :: rest => by
    rw [eprojKids_text, ids_eprojKids rest, List.filterMap_cons]; rfl
  | .elem t a ks :: rest => by
    rw [eprojKids_elem, List.filterMap_cons, List.filterMap_cons, ids_eprojKids rest]
    simp [Choices.instanceId]

theorem ids_normAttrsKids : ∀ ks : List Node,
    (normAttrsKids ks).filterMap Choices.instanceId = (ks.filterMap Choices.instanceId).map normAttrVal
  | [] => by simp [normAttrsKids]
  | .text b s :: rest => by
    simp only [normAttrsKids, normAttrs, List.filterMap_cons, Choices.instanceId, ids_normAttrsKids rest]
  | .elem t a ks :: rest => by
    simp only [normAttrsKids, normAttrs, List.filterMap_cons, Choices.instanceId, ids_normAttrsKids rest]
    by_cases ht : t = c!"instance"
    · simp only [ht, if_true, lookup_normAttrList]
      cases lookup c!"id" a <;> simp
    · simp [ht]

theorem modelKidsOf_parsed (f : Fields) (rk rest bk : List Node) :
    modelKidsOf (normAttrs (eproj (assemble f none rk rest bk))) =
      normAttrsKids (eprojKids (Asm.modelKids f none rk rest)) := by
  simp [assemble, pyNode, eproj, eprojKids, isText, normAttrs, normAttrsKids, modelKidsOf]

open Pyxv.Choices in
/-- **Instance ids of the whole document, as an XML reader sees them.**  For every workbook the composed model
    converts (compact mode), the text parses and the `<instance id=…>` children of the parsed document's `<model>`
    carry, in document order, the list names of the choices sheet in first-occurrence order with the reader's
    attribute-value normalisation applied (TAB / LF / CR → space).  They are pairwise distinct when no list name
    contains such a character — the complement of the open finding F42, which is exactly the case where two
    distinct names are read back as one id.  `hn` is the C01 guard of `convert_c15`. -/
theorem convert_document_ids (wb : Workbook) (text : Str) (h : convert wb false = .ok text)
    (hn : ∀ doc, convertDoc wb = .ok doc → noBrTree doc = true) :
    ∃ ch parsed, canonChoices wb.choices = some ch ∧ parseDoc text = some parsed ∧
      secondaryIds (eproj parsed) = (Spec.listNames listKey ch).map normAttrVal ∧
      ((∀ l ∈ Spec.listNames listKey ch, normAttrVal l = l) → (secondaryIds (eproj parsed)).Nodup) := by
  obtain ⟨doc, hd, rfl⟩ := convert_ok wb false text h
  obtain ⟨f, lists, rows, drows, o, ditems, T⟩ := convertDoc_trace wb doc hd
  obtain ⟨hwf, helem⟩ := trace_wf T (hn doc hd)
  obtain ⟨ch, hch, hids, hnd, -⟩ := convert_c09 wb doc hd
  have hparse := render_parses_compact_lax doc hwf helem
  have hE : secondaryIds (eproj (expectedLax doc)) = (Spec.listNames listKey ch).map normAttrVal := by
    rw [← hids, eproj_expectedLax, secondaryIds, secondaryIds]
    obtain ⟨ch', f', rk, rows', els, pc, ds, body, -, -, hdoc⟩ := convertDoc_choices wb doc hd
    rw [hdoc, modelKidsOf_parsed, ids_normAttrsKids, ids_eprojKids, modelKidsOf_assemble]
  refine ⟨ch, _, hch, hparse, hE, ?_⟩
  intro hws
  rw [hE, List.map_congr_left hws, List.map_id', ← hids]
  exact hnd

#print axioms convert_document_ids

example : ∃ ch parsed, canonChoices exWb.choices = some ch ∧ parseDoc exText = some parsed ∧
    secondaryIds (eproj parsed) = (Choices.Spec.listNames Choices.listKey ch).map normAttrVal := by
  obtain ⟨ch, parsed, h1, h2, h3, -⟩ :=
    convert_document_ids exWb exText ex_convert (fun d hd => namesClean_of_B ex_clean d hd)
  exact ⟨ch, parsed, h1, h2, h3⟩


open Pyxv.Choices in
/-- `convert_document_ids` with the F42 guard stated on the cells: when no `list_name` cell of the (canonical)
    choices sheet contains TAB / LF / CR (or another character an attribute value cannot carry), the ids an XML
    reader sees on the `<instance>` children of `<model>` are exactly the list names, pairwise distinct. -/
theorem convert_ids_distinct_from_cells (wb : Workbook) (text : Str) (h : convert wb false = .ok text)
    (hn : ∀ doc, convertDoc wb = .ok doc → noBrTree doc = true)
    (hcells : ∀ ch, canonChoices wb.choices = some ch → ∀ r ∈ ch, ∀ v, lookup listKey r = some v → v.all attrCharOk = true) :
    ∃ ch parsed, canonChoices wb.choices = some ch ∧ parseDoc text = some parsed ∧
      secondaryIds (eproj parsed) = Spec.listNames listKey ch ∧ (secondaryIds (eproj parsed)).Nodup := by
  obtain ⟨ch, parsed, hch, hp, hids, hnd⟩ := convert_document_ids wb text h hn
  have hg : ∀ l ∈ Spec.listNames listKey ch, normAttrVal l = l :=
    C09.list_names_from_cells listKey ch (fun v => normAttrVal v = v)
      (fun r hr v hv => normAttrVal_ok v (hcells ch hch r hr v hv))
  refine ⟨ch, parsed, hch, hp, ?_, hnd hg⟩
  rw [hids, List.map_congr_left hg, List.map_id']

example : ∃ ch parsed, canonChoices exWb.choices = some ch ∧ parseDoc exText = some parsed ∧
    secondaryIds (eproj parsed) = Choices.Spec.listNames Choices.listKey ch ∧ (secondaryIds (eproj parsed)).Nodup :=
  convert_ids_distinct_from_cells exWb exText ex_convert (fun d hd => namesClean_of_B ex_clean d hd)
    (by
      intro ch hch r hr v hv
      have key : (match canonChoices exWb.choices with
          | some ch => ch.all (fun r => (lookup Choices.listKey r).all (fun v => v.all attrCharOk))
          | none => true) = true := by decide +kernel
      rw [hch] at key
      have := List.all_eq_true.mp key r hr
      simpa [hv] using this)

end Pyxv.ConvertC09
