import Pyxv.Proofs.C16Choices
import Pyxv.Model.FromJsonSelects
/-!
# C16: the builder model with the choices context is a conservative extension

`fromJsonS` (Model/FromJsonSelects.lean) threads the survey's choices through the recursion and lets a select carry
its options.  Proved here, for all inputs: on every dict `fromJson` accepts, and on every dict `fromJsonC` accepts,
`fromJsonS` builds the same element — so the tree theorems transfer to `fromJsonS` on those fragments
(`dump_stable_tree_selects_partial`).  NOT proved: dump stability for selects that carry options (tied by the
correspondence stream only).
-/
namespace Pyxv.C16
open Pyxv Pyxv.JV Pyxv.ToJson

theorem mapOpt_mono {α β} (g g' : α → Option β) (l : List α) (r : List β)
    (h : ∀ x ∈ l, ∀ y, g x = some y → g' x = some y) (hm : mapOpt g l = some r) : mapOpt g' l = some r := by
  induction l generalizing r with
  | nil => simpa [mapOpt] using hm
  | cons x xs ih =>
    simp only [mapOpt] at hm ⊢
    split at hm
    · cases hm
    · next y hy =>
      split at hm
      · cases hm
      · next ys hys =>
        cases hm
        simp only [h x (by simp) y hy, ih ys (fun x' hx' => h x' (by simp [hx'])) hys]

theorem stripChoices_id (kvs : Dict) (h : lookup k!"choices" kvs = none) : stripChoices kvs = kvs := by
  have hm := not_mem_of_lookup_none _ _ h
  simp only [stripChoices]
  rw [List.filter_eq_self]
  intro kv hkv
  have : kv.1 ≠ k!"choices" := fun e => hm (List.mem_map.mpr ⟨kv, hkv, e⟩)
  simpa using this

/-- a question dict accepted by `questionFromJson` has neither `children` nor `choices` -/
theorem questionFromJson_no_tree (cfg : Cfg) (t : Str) (kvs : Dict) (e : El)
    (h : questionFromJson cfg t kvs = some e) :
    lookup k!"children" kvs = none ∧ lookup k!"choices" kvs = none := by
  simp only [questionFromJson] at h
  split at h
  · cases h
  · split at h
    · cases h
    · next hg =>
      simp only [not_or] at hg
      exact ⟨lookup_none_of_hasKey hg.2.1, lookup_none_of_hasKey hg.2.2⟩

theorem questionFromJsonS_extends (cfg : Cfg) (ch : List (Str × List Opt)) (t : Str) (kvs : Dict) (e : El)
    (h : questionFromJson cfg t kvs = some e) : questionFromJsonS cfg ch t kvs = some e := by
  obtain ⟨h1, h2⟩ := questionFromJson_no_tree cfg t kvs e h
  simp [questionFromJsonS, h1, h2, h]

/-- CONSERVATIVE EXTENSION 1: whatever choices context is handed down, `fromJsonS` builds from a dict `fromJson`
    accepts the same element -/
theorem fromJsonS_extends (cfg : Cfg) (ctor : List Str) :
    ∀ f ch d e, fromJson cfg f d = some e → fromJsonS cfg ctor f ch d = some e := by
  intro f
  induction f with
  | zero => intro ch d e h; simp [fromJson] at h
  | succ f ih =>
    intro ch d e h
    cases d with
    | obj kvs =>
      have hnc := fromJson_no_choices cfg (f + 1) kvs e h
      simp only [fromJson] at h
      simp only [fromJsonS]
      split at h
      · next t hty =>
        simp only [hty]
        split at h
        · next hsec =>
          simp only [hsec, if_true, hnc, stripChoices_id kvs hnc]
          split at h
          · cases h
          · next hg =>
            have g' : ¬ (isTruthyAt k!"add_none_option" kvs = true ∨ (!nameOk kvs) = true
                ∨ (hasKey k!"title" kvs = true ∧ (!isTruthyAt k!"title" kvs) = true)) :=
              fun hh => hg (Or.inr hh)
            rw [if_neg g']
            split at h
            · cases h
            · next cs hcs =>
              split
              · next heq => exact absurd (heq.symm.trans hcs) (by simp)
              · next cs' heq =>
                have ecs : cs' = cs := by
                  have := heq.symm.trans hcs
                  simpa using this
                subst ecs
                split at h
                · cases h
                · next kids hkids =>
                  have := mapOpt_mono _ (fromJsonS cfg ctor f (if t = k!"survey" then [] else ch)) cs' kids
                    (fun x _ y hy => ih _ x y hy) hkids
                  simp only [this]
                  exact h
        · next hsec =>
          simp only [hsec, if_false]
          exact questionFromJsonS_extends cfg ch t kvs e h
      · cases h
    | _ => simp [fromJson] at h

/-- CONSERVATIVE EXTENSION 2: on every dict `fromJsonC` accepts (survey-level `choices`, selects referring to a
    list), `fromJsonS` started with the empty context builds the same element -/
theorem fromJsonS_extends_fromJsonC (cfg : Cfg) (ctor : List Str) (f : Nat) (d : J) (e : El)
    (h : fromJsonC cfg ctor f d = some e) : fromJsonS cfg ctor f [] d = some e := by
  cases d with
  | obj kvs =>
    simp only [fromJsonC] at h
    split at h
    · exact fromJsonS_extends cfg ctor f [] _ e h
    · next cj hcj =>
      split at h
      · cases h
      · next hne =>
        split at h
        · next t hty =>
          split at h
          · next hts =>
            subst hts
            split at h
            · cases h
            · next ch hch =>
              split at h
              · cases h
              · next e0 he0 =>
                cases h
                cases f with
                | zero => simp [fromJson] at he0
                | succ f =>
                  have hty0 : lookup k!"type" kvs = some (.str k!"survey") := by
                    rw [← lookup_stripChoices _ kvs (by decide)]; exact hty
                  have hcne : cj.isEmpty = false := by simpa using hne
                  simp only [fromJson] at he0
                  split at he0
                  · next t' hty' =>
                    rw [hty] at hty'
                    cases hty'
                    split at he0
                    · next hsec =>
                      split at he0
                      · cases he0
                      · next hg =>
                        have g' : ¬ (isTruthyAt k!"add_none_option" (stripChoices kvs) = true
                            ∨ (!nameOk (stripChoices kvs)) = true
                            ∨ (hasKey k!"title" (stripChoices kvs) = true ∧
                                (!isTruthyAt k!"title" (stripChoices kvs)) = true)) :=
                          fun hh => hg (Or.inr hh)
                        simp only [fromJsonS, hty0, true_or, if_true, hcj, hcne, Bool.not_false, and_self, hch]
                        rw [if_neg g']
                        split at he0
                        · cases he0
                        · next cs hcs =>
                          split
                          · next heq => exact absurd (heq.symm.trans hcs) (by simp)
                          · next cs' heq =>
                            have ecs : cs' = cs := by
                              have := heq.symm.trans hcs
                              simpa using this
                            subst ecs
                            split at he0
                            · cases he0
                            · next kids hkids =>
                              have := mapOpt_mono _ (fromJsonS cfg ctor f ch) cs' kids
                                (fun x _ y hy => fromJsonS_extends cfg ctor f _ x y hy) hkids
                              simp only [this]
                              simp only [if_true] at he0
                              split at he0
                              · cases he0
                              · next nm hnm =>
                                cases he0
                                simp only [hnm, withChoices]
                    · next hsec => exact absurd (Or.inl rfl) hsec
                  · cases he0
          · cases h
        · cases h
    · cases h
  | _ => simp [fromJsonC] at h

/-- the joined tree theorem transferred to `fromJsonS` (the model the widest correspondence stream runs):
    `_partial` — it covers the dicts inside `fromJsonC`'s fragment only; for selects that carry their options
    dump stability of `fromJsonS` is NOT proved (correspondence stream and the instance below only). -/
theorem dump_stable_tree_selects_partial (f : Nat) (d : J) (e : El)
    (h : fromJsonC genCfg optionCtor f d = some e) :
    fromJsonS genCfg optionCtor f [] d = some e ∧
    ∃ e', fromJsonS genCfg optionCtor f [] (toJson e []) = some e' ∧ toJson e' [] = toJson e [] := by
  obtain ⟨e', h1, h2⟩ := dump_stable_tree_choices f d e h
  exact ⟨fromJsonS_extends_fromJsonC _ _ f d e h, e', fromJsonS_extends_fromJsonC _ _ f _ e' h1, h2⟩

/-- non-vacuity (real tables): a survey with a `choices` object and a `select one` referring to the list -/
example : ∃ e e', fromJsonS genCfg optionCtor 4 [] (.obj [(k!"type", .str k!"survey"), (k!"name", .str k!"data"),
      (k!"children", .arr [.obj [(k!"name", .str k!"q"), (k!"type", .str k!"select one"),
        (k!"itemset", .str k!"l"), (k!"label", .str k!"Q")]]),
      (k!"choices", .obj [(k!"l", .arr [.obj [(k!"name", .str k!"a"), (k!"label", .str k!"A")]])])]) = some e ∧
    fromJsonS genCfg optionCtor 4 [] (toJson e []) = some e' ∧ toJson e' [] = toJson e [] := by
  have hsome : (fromJsonC genCfg optionCtor 4 (.obj [(k!"type", .str k!"survey"), (k!"name", .str k!"data"),
      (k!"children", .arr [.obj [(k!"name", .str k!"q"), (k!"type", .str k!"select one"),
        (k!"itemset", .str k!"l"), (k!"label", .str k!"Q")]]),
      (k!"choices", .obj [(k!"l", .arr [.obj [(k!"name", .str k!"a"), (k!"label", .str k!"A")]])])])).isSome = true := by
    decide +kernel
  obtain ⟨e, he⟩ := Option.isSome_iff_exists.mp hsome
  obtain ⟨h0, e', h1, h2⟩ := dump_stable_tree_selects_partial 4 _ e he
  exact ⟨e, e', h0, h1, h2⟩

/-- an instance beyond the proved fragment (evaluated, not a for-all statement): a `select one` that carries its
    options (`children`) in a survey with `choices` is rejected by `fromJsonC`, accepted by `fromJsonS`, its dump
    carries the survey-level list's options (not the dict's own `children`), and dump → load → dump is identical. -/
example :
    fromJsonC genCfg optionCtor 4 (.obj [(k!"type", .str k!"survey"), (k!"name", .str k!"data"),
      (k!"children", .arr [.obj [(k!"name", .str k!"q"), (k!"type", .str k!"select one"),
        (k!"itemset", .str k!"l"), (k!"label", .str k!"Q"),
        (k!"children", .arr [.obj [(k!"name", .str k!"zzz")]])]]),
      (k!"choices", .obj [(k!"l", .arr [.obj [(k!"name", .str k!"a"), (k!"label", .str k!"A"), (k!"pop", .str k!"1")]])])])
      = none ∧
    (fromJsonS genCfg optionCtor 4 [] (.obj [(k!"type", .str k!"survey"), (k!"name", .str k!"data"),
      (k!"children", .arr [.obj [(k!"name", .str k!"q"), (k!"type", .str k!"select one"),
        (k!"itemset", .str k!"l"), (k!"label", .str k!"Q"),
        (k!"children", .arr [.obj [(k!"name", .str k!"zzz")]])]]),
      (k!"choices", .obj [(k!"l", .arr [.obj [(k!"name", .str k!"a"), (k!"label", .str k!"A"), (k!"pop", .str k!"1")]])])])).bind
      (fun e => (fromJsonS genCfg optionCtor 4 [] (toJson e [])).map fun e' =>
        (decide (print (toJson e' []) = print (toJson e [])),
         decide (print (toJson e []) = ("{\"name\": \"data\", \"type\": \"survey\", \"title\": \"data\", \"children\": " ++
           "[{\"name\": \"q\", \"label\": \"Q\", \"type\": \"select one\", \"itemset\": \"l\", \"children\": " ++
           "[{\"name\": \"a\", \"label\": \"A\", \"pop\": \"1\"}]}], \"choices\": {\"l\": " ++
           "[{\"name\": \"a\", \"label\": \"A\", \"pop\": \"1\"}]}}").toList)).1) = some true := by
  constructor
  · have : (fromJsonC genCfg optionCtor 4 (.obj [(k!"type", .str k!"survey"), (k!"name", .str k!"data"),
      (k!"children", .arr [.obj [(k!"name", .str k!"q"), (k!"type", .str k!"select one"),
        (k!"itemset", .str k!"l"), (k!"label", .str k!"Q"),
        (k!"children", .arr [.obj [(k!"name", .str k!"zzz")]])]]),
      (k!"choices", .obj [(k!"l", .arr [.obj [(k!"name", .str k!"a"), (k!"label", .str k!"A"), (k!"pop", .str k!"1")]])])])).isNone
        = true := by decide +kernel
    exact Option.isNone_iff_eq_none.mp this
  · decide +kernel

end Pyxv.C16
